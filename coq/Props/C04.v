(* C04 — compare is a total order matching value equality and the documented ranking. *)
From Coq Require Import List NArith ZArith Bool.
Import ListNotations.
From JB Require Import Constants Bytes Num Value Order OrderProofs.
Open Scope N_scope.

Theorem C04_reflexive : forall v, cmp_value v v = Eq.
Proof. exact cmp_value_refl. Qed.
Print Assumptions C04_reflexive.

Theorem C04_antisymmetric : forall a b, cmp_value a b = CompOpp (cmp_value b a).
Proof. exact cmp_value_antisym. Qed.
Print Assumptions C04_antisymmetric.

Theorem C04_transitive : forall a b c o, cmp_value a b = o -> cmp_value b c = o -> cmp_value a c = o.
Proof. exact cmp_value_trans. Qed.
Print Assumptions C04_transitive.

(* Equal is a congruence for the order: equal documents are interchangeable on either side *)
Theorem C04_equal_interchangeable_left : forall a b c, cmp_value a b = Eq -> cmp_value b c = cmp_value a c.
Proof. exact cmp_value_eq_l. Qed.
Print Assumptions C04_equal_interchangeable_left.

(* Equal exactly when the documents are equal as JSON values, numbers by numeric value *)
Theorem C04_equal_iff_same_value : forall a b, cmp_value a b = Eq <-> value_eqb a b = true.
Proof. exact cmp_value_eq_iff. Qed.
Print Assumptions C04_equal_iff_same_value.

(* Null > Array > Object > String > Number > true > false *)
Theorem C04_ranking : forall n b1 s x l o,
  cmp_value VNull (VArr l) = Gt /\ cmp_value (VArr l) (VObj o) = Gt /\ cmp_value (VObj o) (VStr s) = Gt /\
  cmp_value (VStr s) (VNum x) = Gt /\ cmp_value (VNum x) (VBool true) = Gt /\ cmp_value (VBool true) (VBool false) = Gt /\
  cmp_value (VBool b1) VNull = Lt /\ cmp_value (VNum n) VNull = Lt.
Proof. exact ranking. Qed.
Print Assumptions C04_ranking.

(* the mirror of compare / compare_scalar / compare_container / compare_array / compare_object computes that
   order, given the level table the translator read from jentry_compare_level *)
Theorem C04_code_mirror_computes_the_order : forall a b, compare_m a b = Ok (cmp_value a b).
Proof. exact compare_m_correct. Qed.
Print Assumptions C04_code_mirror_computes_the_order.

(* ---- the byte walkers themselves (CompareWalk.v: compare / compare_scalar / compare_container / compare_array /
   compare_object with two buffers and absolute offsets, `read_u32(..)?` = error, an index expression out of bounds =
   panic): on the encodings of any two well-formed documents every entry word, key and payload the walkers read is
   the one they mean to read, nothing errs or panics, and the answer is the order of the documents. *)
From JB Require Import Codec DispatchProofs CompareWalk CompareWalkProofs.
Theorem C04_bytes_compare : forall a b, wfb a = true -> wfb b = true -> compare_b (enc a) (enc b) = Ok (cmp_value a b).
Proof. exact compare_b_enc. Qed.
Print Assumptions C04_bytes_compare.

Theorem C04_bytes_compare_public : forall v w, wfb v = true -> top_ok v -> wfb w = true -> top_ok w ->
  compare_w (enc v) (enc w) = Ok (cmp_value v w).
Proof. exact compare_w_enc. Qed.
Print Assumptions C04_bytes_compare_public.

(* ---- "compare gives the same answer whether either side is JSON text or JSONB" (TextBinProofs.v): each side is the
   encoding of its document or a JSON text of it (not taken for JSONB by is_jsonb, i.e. not beginning with a space);
   in all four combinations the public function returns the order of the two documents *)
From JB Require Import JsonText TextBinProofs.
Theorem C04_compare_text_or_binary : forall t u a b, wfb a = true -> wfb b = true ->
  ((t = enc a /\ top_ok a) \/ (is_jsonb t = false /\ parse_value t = Ok a)) ->
  ((u = enc b /\ top_ok b) \/ (is_jsonb u = false /\ parse_value u = Ok b)) ->
  compare_w t u = Ok (cmp_value a b).
Proof. exact compare_forms. Qed.
Print Assumptions C04_compare_text_or_binary.

Theorem C04_compare_same_answer_text_or_binary : forall t1 t2 u1 u2 a b, wfb a = true -> wfb b = true ->
  ((t1 = enc a /\ top_ok a) \/ (is_jsonb t1 = false /\ parse_value t1 = Ok a)) ->
  ((t2 = enc a /\ top_ok a) \/ (is_jsonb t2 = false /\ parse_value t2 = Ok a)) ->
  ((u1 = enc b /\ top_ok b) \/ (is_jsonb u1 = false /\ parse_value u1 = Ok b)) ->
  ((u2 = enc b /\ top_ok b) \/ (is_jsonb u2 = false /\ parse_value u2 = Ok b)) ->
  compare_w t1 u1 = compare_w t2 u2.
Proof. intros t1 t2 u1 u2 a b Wa Wb S1 S2 X1 X2. exact (C11_compare_same_answer t1 t2 a Wa S1 S2 u1 u2 b Wb X1 X2). Qed.
Print Assumptions C04_compare_same_answer_text_or_binary.

(* ---- the recursion fuel of the compare walker model (ExtraFuel04.v) is never the reason for an answer, on ANY two
   buffers (valid, truncated, corrupted, JSON text in either position): a nested container's header lies at least 4
   bytes after its parent's and must be readable, every round of the array loop reads an entry word 4 bytes further on *)
From JB Require Import Codec CompareWalk ExtraFuel04.
Theorem C04_fuel_never_exhausted :
  (forall l r, compare_w l r <> Err EFuel) /\ (forall L R, compare_b L R <> Err EFuel) /\
  (forall fuel L R lw lo rw ro, lo <= lenN L -> lenN L < lo + N.of_nat fuel -> compare_scalar_w fuel L R lw lo rw ro <> Err EFuel).
Proof. split; [exact compare_w_not_fuel|]. split; [exact compare_b_not_fuel|exact compare_scalar_w_fuel]. Qed.
Print Assumptions C04_fuel_never_exhausted.

(* M6 (second review): the fuel the model passes is never what decides an answer, on ARBITRARY inputs -- also for the loops
   whose exhaustion is an ordinary value (None, Ok None, Ok buf, PErr, the input itself), about which `<> Err EFuel` says
   nothing: any fuel above the one the model passes gives the same answer (FuelIndep.v) *)
From JB Require FuelIndep.
Theorem C04_fuel_is_never_decisive :
  (forall k L R lw lo rw ro, (length L + length R < k)%nat -> CompareWalk.compare_scalar_w k L R lw lo rw ro = CompareWalk.compare_scalar_w (S (length L + length R)) L R lw lo rw ro) /\
  (forall L R sc k i len joff lb rb lvo rvo llen rlen, (length L < k)%nat -> CompareWalk.arr_loop_w L R sc k i len joff lb rb lvo rvo llen rlen = CompareWalk.arr_loop_w L R sc (S (length L)) i len joff lb rb lvo rvo llen rlen) /\
  (forall k bs i len j, (length bs < k)%nat -> Walk.rd_words k bs i len j = Walk.rd_words (S (length bs)) bs i len j).
Proof. split; [exact FuelIndep.compare_scalar_w_any_fuel|split; [exact FuelIndep.arr_loop_w_any_fuel|exact FuelIndep.rd_words_any_fuel]]. Qed.
Print Assumptions C04_fuel_is_never_decisive.
