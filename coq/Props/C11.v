(* C11 — functions give the same answer for JSON text as for its JSONB encoding. *)
From Coq Require Import List NArith ZArith Bool.
Import ListNotations.
From JB Require Import Constants Bytes Num Value Codec JsonText TreeOps RoundtripProofs Dispatch DispatchProofs MiscProofs.
Open Scope N_scope.

(* a JSON text (first byte one of n t f quote [ { - 0-9 or RFC whitespace other than space) is never taken for JSONB *)
Theorem C11_text_is_not_taken_for_jsonb : forall c r,
  In c [110; 116; 102; 34; 91; 123; 45; 48; 49; 50; 51; 52; 53; 54; 55; 56; 57; 9; 10; 13] -> is_jsonb (c :: r) = false.
Proof. exact text_first_byte_not_jsonb. Qed.
Print Assumptions C11_text_is_not_taken_for_jsonb.

(* an encoding with fewer than 2^24 top-level elements is always taken for JSONB *)
Theorem C11_encoding_is_taken_for_jsonb : forall v, wfb v = true -> top_ok v -> is_jsonb (enc v) = true.
Proof. exact is_jsonb_enc. Qed.
Print Assumptions C11_encoding_is_taken_for_jsonb.

(* the text and the encoding of the value it denotes are read as the same document by every function that goes
   through the common dispatch (array_length, the get, object, array, as/to, exists and delete families, strip_nulls,
   array_insert, object_insert, set functions, path functions, to_serde_json) *)
Theorem C11_same_document : forall t v,
  is_jsonb t = false -> parse_value t = Ok v -> normalise v = v -> wfb v = true -> top_ok v -> doc_of (enc v) = doc_of t.
Proof. exact text_and_encoding_same_document. Qed.
Print Assumptions C11_same_document.

(* ================================================================ per function family (TextBinProofs.v) *)
(* `stands_for t v`: t is the encoding of v (fewer than 2^24 top-level elements) or a JSON text, not taken for JSONB by
   is_jsonb (in particular not beginning with a space), that parse_value reads as v.  Every public function gives, for
   both forms, the answer computed on the tree v; hence the same answer whenever two arguments stand for the same
   document, in every argument position independently.  The walkers `*_w` are the offset-faithful models the
   correspondence runs compare with the crate.
   Equal only up to `normalise` (the integer zero written `-0` is Int64(0) from the text parser and UInt64(0) from the
   decoder: equal numbers, different variants): as_number, LazyValue::to_value.  to_string / to_pretty_string return a
   text input unchanged: the outputs are texts of documents that compare Equal. *)
From JB Require Import Order Path PathSem Walk CompareWalk ComparableWalk RenderWalk SelWalk CastWalk SerdeWalk KeysWalk
  EditWalk EditWalk2 ContainWalk SetWalk SetOps TextRoundtrip SetWalkProofs TextBinProofs.

Definition stands_for (t : list N) (v : value) : Prop :=
  (t = enc v /\ top_ok v) \/ (is_jsonb t = false /\ parse_value t = Ok v).

Section C11_families.
  Variables (t1 t2 : list N) (v : value).
  Hypothesis W : wfb v = true.
  Hypothesis S1 : stands_for t1 v.
  Hypothesis S2 : stands_for t2 v.

  Theorem C11_accessors : forall i name ic ks,
    array_length_w t1 = array_length_w t2 /\ get_by_index_w t1 i = get_by_index_w t2 i /\
    get_by_name_w t1 name ic = get_by_name_w t2 name ic /\ get_by_keypath_w t1 ks = get_by_keypath_w t2 ks /\
    object_keys_w t1 = object_keys_w t2 /\ object_each_w t1 = object_each_w t2 /\ array_values_w t1 = array_values_w t2.
  Proof.
    intros i name ic ks.
    exact (conj (C11_array_length_same_answer t1 t2 v W S1 S2) (conj (C11_get_by_index_same_answer t1 t2 v W S1 S2 i)
          (conj (C11_get_by_name_same_answer t1 t2 v W S1 S2 name ic) (conj (C11_get_by_keypath_same_answer t1 t2 v W S1 S2 ks)
          (conj (C11_object_keys_same_answer t1 t2 v W S1 S2) (conj (C11_object_each_same_answer t1 t2 v W S1 S2)
                (C11_array_values_same_answer t1 t2 v W S1 S2))))))).
  Qed.

  Theorem C11_type_of : type_of_w t1 = type_of_w t2.
  Proof. exact (C11_type_of_same_answer t1 t2 v W S1 S2). Qed.

  Theorem C11_as_casts :
    as_null_w t1 = as_null_w t2 /\ as_bool_w t1 = as_bool_w t2 /\ as_str_w t1 = as_str_w t2 /\
    is_array_w t1 = is_array_w t2 /\ is_object_w t1 = is_object_w t2 /\
    as_i64_w t1 = as_i64_w t2 /\ as_u64_w t1 = as_u64_w t2 /\ as_f64_w t1 = as_f64_w t2.
  Proof. exact (C11_as_casts_same_answer t1 t2 v W S1 S2). Qed.

  Theorem C11_to_casts :
    to_bool_w t1 = to_bool_w t2 /\ to_i64_w t1 = to_i64_w t2 /\ to_u64_w t1 = to_u64_w t2 /\
    to_f64_w t1 = to_f64_w t2 /\ to_str_w t1 = to_str_w t2.
  Proof. exact (C11_to_casts_same_answer t1 t2 v W S1 S2). Qed.

  Theorem C11_as_number :
    exists o1 o2, as_number_w t1 = Ok o1 /\ as_number_w t2 = Ok o2 /\
                  option_map normalise_num o1 = option_map normalise_num o2 /\
                  (match o1 with Some _ => true | None => false end) = (match o2 with Some _ => true | None => false end).
  Proof. exact (C11_as_number_same_answer t1 t2 v W S1 S2). Qed.

  Theorem C11_keys_and_strings : forall ks needle,
    exists_all_keys_w t1 ks = exists_all_keys_w t2 ks /\ exists_any_keys_w t1 ks = exists_any_keys_w t2 ks /\
    traverse_check_string_w t1 needle = traverse_check_string_w t2 needle.
  Proof.
    intros ks needle. destruct (C11_exists_keys_same_answer t1 t2 v W S1 S2 ks) as [A B].
    exact (conj A (conj B (C11_traverse_check_string_same_answer t1 t2 v W S1 S2 needle))).
  Qed.

  Theorem C11_to_serde_json :
    to_serde_json_w t1 = to_serde_json_w t2 /\ to_serde_json_object_w t1 = to_serde_json_object_w t2.
  Proof. exact (C11_to_serde_json_same_answer t1 t2 v W S1 S2). Qed.

  Theorem C11_convert_to_comparable : forall buf, comparable_w t1 buf = comparable_w t2 buf.
  Proof. exact (C11_convert_to_comparable_same_answer t1 t2 v W S1 S2). Qed.

  Theorem C11_editors_one_document : forall name i kp ks buf,
    delete_by_name_w t1 name buf = delete_by_name_w t2 name buf /\
    delete_by_index_w t1 i buf = delete_by_index_w t2 i buf /\
    delete_by_keypath_w t1 kp buf = delete_by_keypath_w t2 kp buf /\
    object_delete_w t1 ks buf = object_delete_w t2 ks buf /\ object_pick_w t1 ks buf = object_pick_w t2 ks buf /\
    strip_nulls_w t1 buf = strip_nulls_w t2 buf /\
    (wf_size (array_distinct_t v) = true -> array_distinct_w t1 buf = array_distinct_w t2 buf).
  Proof.
    intros name i kp ks buf. destruct (C11_delete_same_answer t1 t2 v W S1 S2 name i kp buf) as (A & B & C).
    destruct (C11_object_filter_same_answer t1 t2 v W S1 S2 ks buf) as (D & E).
    exact (conj A (conj B (conj C (conj D (conj E (conj (C11_strip_nulls_same_answer t1 t2 v W S1 S2 buf)
                                                    (C11_array_distinct_same_answer t1 t2 v W S1 S2 buf))))))).
  Qed.

  (* get_by_path = MMixed, get_by_path_first = MFirst, get_by_path_array = MArray: data and offsets *)
  Theorem C11_path_functions : forall md ps buf,
    get_by_path_gen_w md t1 ps buf = get_by_path_gen_w md t2 ps buf /\
    path_exists_w t1 ps = path_exists_w t2 ps /\ path_match_w t1 ps = path_match_w t2 ps.
  Proof. exact (C11_path_same_answer t1 t2 v W S1 S2). Qed.

  Theorem C11_to_string : forall pf ok pretty, (forall b, ok b = true -> float_reads_back pf b) ->
    floats_ok ok (normalise v) = true ->
    exists r1 r2 d1 d2, to_text_w pf pretty t1 = Ok r1 /\ to_text_w pf pretty t2 = Ok r2 /\
                        parse_value r1 = Ok d1 /\ parse_value r2 = Ok d2 /\ cmp_value d1 d2 = Eq.
  Proof. exact (C11_to_string_same_document t1 t2 v W S1 S2). Qed.

  Theorem C11_lazy_value :
    exists l1 l2, parse_lazy_value t1 = Ok l1 /\ parse_lazy_value t2 = Ok l2 /\
                  lazy_to_vec l1 = lazy_to_vec l2 /\ lazy_array_length l1 = lazy_array_length l2 /\
                  exists d1 d2, lazy_to_value l1 = Ok d1 /\ lazy_to_value l2 = Ok d2 /\ normalise d1 = normalise d2.
  Proof. exact (C11_lazy_value_same_answer t1 t2 v W S1 S2). Qed.

  (* ---- two documents, every combination of forms ---- *)
  Variables (u1 u2 : list N) (x : value).
  Hypothesis Wx : wfb x = true.
  Hypothesis X1 : stands_for u1 x.
  Hypothesis X2 : stands_for u2 x.

  Theorem C11_compare : compare_w t1 u1 = compare_w t2 u2.
  Proof. exact (C11_compare_same_answer t1 t2 v W S1 S2 u1 u2 x Wx X1 X2). Qed.

  (* contains and concat go through from_slice (binary decoder first): a text must not be decodable as JSONB, which holds
     for every text of bytes shorter than 3623878656 bytes (small_text) *)
  Theorem C11_contains_concat : forall buf,
    (is_jsonb t1 = false -> small_text t1) -> (is_jsonb t2 = false -> small_text t2) ->
    (is_jsonb u1 = false -> small_text u1) -> (is_jsonb u2 = false -> small_text u2) ->
    contains_w t1 u1 = contains_w t2 u2 /\
    (wf_size (concat_t v x) = true -> concat_w t1 u1 buf = concat_w t2 u2 buf).
  Proof.
    intros buf A1 A2 B1 B2. split.
    - exact (C11_contains_same_answer t1 t2 v W S1 S2 u1 u2 x Wx X1 X2 A1 A2 B1 B2).
    - intros Hr. exact (C11_concat_same_answer t1 t2 v W S1 S2 u1 u2 x Wx X1 X2 buf Hr A1 A2 B1 B2).
  Qed.

  Theorem C11_editors_two_documents : forall pos key upd buf,
    (wf_size (array_insert_t v pos x) = true -> array_insert_w t1 pos u1 buf = array_insert_w t2 pos u2 buf) /\
    ((forall y, object_insert_t v key x upd = Ok y -> wf_size y = true) ->
     object_insert_w t1 key u1 upd buf = object_insert_w t2 key u2 upd buf).
  Proof.
    intros pos key upd buf. split.
    - exact (C11_array_insert_same_answer t1 t2 v W S1 S2 u1 u2 x Wx X1 X2 pos buf).
    - exact (C11_object_insert_same_answer t1 t2 v W S1 S2 u1 u2 x Wx X1 X2 key upd buf).
  Qed.

  Theorem C11_set_functions : forall buf,
    wf_size (array_intersection_t v x) = true -> wf_size (array_except_t v x) = true ->
    array_intersection_w t1 u1 buf = array_intersection_w t2 u2 buf /\
    array_except_w t1 u1 buf = array_except_w t2 u2 buf /\
    array_overlap_w t1 u1 = array_overlap_w t2 u2.
  Proof. exact (C11_array_set_same_answer t1 t2 v W S1 S2 u1 u2 x Wx X1 X2). Qed.
End C11_families.
Print Assumptions C11_accessors.
Print Assumptions C11_type_of.
Print Assumptions C11_as_casts.
Print Assumptions C11_to_casts.
Print Assumptions C11_as_number.
Print Assumptions C11_keys_and_strings.
Print Assumptions C11_to_serde_json.
Print Assumptions C11_convert_to_comparable.
Print Assumptions C11_editors_one_document.
Print Assumptions C11_path_functions.
Print Assumptions C11_to_string.
Print Assumptions C11_lazy_value.
Print Assumptions C11_compare.
Print Assumptions C11_contains_concat.
Print Assumptions C11_editors_two_documents.
Print Assumptions C11_set_functions.

(* the answers themselves: what each function returns for either form, on the tree (one representative per family; the
   full list is TextBinProofs.*_forms) *)
Theorem C11_answer_is_the_tree_answer : forall t v, wfb v = true -> stands_for t v ->
  array_length_w t = Ok (TreeOps.array_length_t v) /\ type_of_w t = Ok (TreeOps.type_of_t v) /\
  as_i64_w t = Ok (TreeOps.as_i64_t v) /\ as_f64_w t = Ok (TreeOps.as_f64_t (normalise v)) /\
  (forall ps md buf, get_by_path_gen_w md t ps buf = select_t v ps md buf) /\
  (forall buf, strip_nulls_w t buf = Ok (buf ++ enc (TreeOps.strip_nulls_t v))).
Proof.
  intros t v W S.
  exact (conj (array_length_forms t v W S) (conj (type_of_forms t v W S) (conj (as_i64_forms t v W S) (conj (as_f64_forms t v W S)
        (conj (fun ps md buf => get_by_path_gen_forms md t v ps buf W S) (strip_nulls_forms t v W S)))))).
Qed.
Print Assumptions C11_answer_is_the_tree_answer.

(* to_string / to_pretty_string with no hypothesis at all, for documents without floats (any float printer pf) *)
Theorem C11_to_string_no_float : forall pf pretty t v, wfb v = true -> no_float v = true -> stands_for t v ->
  exists r d, to_text_w pf pretty t = Ok r /\ parse_value r = Ok d /\ cmp_value d v = Eq.
Proof.
  intros pf pretty t v W Hn S. destruct (to_text_forms_no_float pf pretty t v W Hn S) as (r & E & d & P & C).
  exists r, d. exact (conj E (conj P C)).
Qed.
Print Assumptions C11_to_string_no_float.

(* a text that parses announces the kind of its value by the first byte after what the parser skips (type_of's text
   branch reads nothing else), and its floats are never NaN *)
Theorem C11_first_value_byte_fixes_the_kind : forall t v, parse_value t = Ok v ->
  exists c r, JsonText.skip_unused t = c :: r /\ kind_of_byte c = Some (TreeOps.type_of_t v).
Proof. exact parse_value_kind. Qed.
Print Assumptions C11_first_value_byte_fixes_the_kind.
Theorem C11_parsed_float_is_not_nan : forall t b, parse_value t = Ok (VNum (NFloat b)) -> f_is_nan b = false.
Proof. exact parsed_float_not_nan. Qed.
Print Assumptions C11_parsed_float_is_not_nan.
(* from_slice (contains, concat) never decodes a JSON text as JSONB *)
Theorem C11_text_is_not_decoded : forall t v, small_text t -> is_jsonb t = false -> parse_value t = Ok v -> parse_jsonb t = Err EOther.
Proof. exact text_not_decoded. Qed.
Print Assumptions C11_text_is_not_decoded.

(* not vacuous: the text {"a":[1,-2,3.5e0,{"b":null,"n":-0}],"c":"x"} (a float, a negative integer, the integer -0, nested
   containers) and its encoding through functions of several families, in all combinations *)
Example C11_example :
  let t := [123; 34; 97; 34; 58; 91; 49; 44; 45; 50; 44; 51; 46; 53; 101; 48; 44; 123; 34; 98; 34; 58; 110; 117; 108; 108; 44;
            34; 110; 34; 58; 45; 48; 125; 93; 44; 34; 99; 34; 58; 34; 120; 34; 125] in
  let u := [91; 45; 50; 44; 34; 120; 34; 93] in      (* [-2,"x"] *)
  match parse_value t, parse_value u with
  | Ok v, Ok x =>
      let b := enc v in let c := enc x in
      is_jsonb t = false /\ is_jsonb b = true /\ wfb v = true /\
      array_length_w t = array_length_w b /\ type_of_w t = Ok 5 /\ type_of_w b = Ok 5 /\
      get_by_name_w t [97] false = get_by_name_w b [97] false /\ get_by_name_w t [97] false <> Ok None /\
      get_by_keypath_w t [KName [97]; KIndex 3%Z; KName [110]] = get_by_keypath_w b [KName [97]; KIndex 3%Z; KName [110]] /\
      object_keys_w t = object_keys_w b /\
      compare_w t b = Ok Eq /\ compare_w b t = Ok Eq /\ compare_w t u = compare_w b c /\ compare_w t c = compare_w b u /\
      contains_w t b = Ok true /\ contains_w b t = Ok true /\
      comparable_w t [] = comparable_w b [] /\
      strip_nulls_w t [] = strip_nulls_w b [] /\
      concat_w t u [] = concat_w b c [] /\ concat_w t c [] = concat_w b u [] /\
      array_insert_w u 1 t [] = array_insert_w c 1 b [] /\ array_insert_w u 1 b [] = array_insert_w c 1 t [] /\
      to_serde_json_w t = to_serde_json_w b /\
      get_by_path_w t [PRoot; PDotField [97]; PIndices [AIndex (IIndex 2)]] [] = get_by_path_w b [PRoot; PDotField [97]; PIndices [AIndex (IIndex 2)]] [] /\
      path_exists_w t [PRoot; PDotField [97]; PBracketWild; PDotField [110]] = Ok true /\
      path_exists_w b [PRoot; PDotField [97]; PBracketWild; PDotField [110]] = Ok true /\
      (* the one place where the forms differ: the integer -0 *)
      as_number_w [45; 48] = Ok (Some (NInt 0)) /\ as_number_w (enc (VNum (NInt 0))) = Ok (Some (NUInt 0)) /\
      as_i64_w [45; 48] = as_i64_w (enc (VNum (NInt 0)))
  | _, _ => False
  end.
Proof. vm_compute. repeat split; discriminate. Qed.

(* "a text argument of to_string / to_pretty_string is returned as it is": for EVERY text that parses (such a text is valid
   UTF-8 as a whole, C02_parsed_text_is_utf8, so String::from_utf8_lossy leaves it alone) *)
Theorem C11_to_string_returns_a_text_argument_as_it_is : forall pf pretty t v,
  is_jsonb t = false -> parse_value t = Ok v -> to_text_w pf pretty t = Ok t.
Proof. exact to_text_of_parsed_text. Qed.
Print Assumptions C11_to_string_returns_a_text_argument_as_it_is.
Print Assumptions C11_example.
