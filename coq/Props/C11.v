(* C11 — functions give the same answer for JSON text as for its JSONB encoding. *)
From Coq Require Import List NArith ZArith Bool.
Import ListNotations.
From JB Require Import Constants Bytes Num Value Codec JsonText TreeOps RoundtripProofs Dispatch DispatchProofs MiscProofs.
Open Scope N_scope.

(* a JSON text (first byte one of n t f quote [ { - 0-9 or RFC whitespace other than space) is never taken for JSONB *)
Theorem C11_text_is_not_taken_for_jsonb : forall c r,
  In c [110; 116; 102; 34; 91; 123; 45; 48; 49; 50; 51; 52; 53; 54; 55; 56; 57; 9; 10; 13] -> is_jsonb (c :: r) = false.
Proof. exact text_first_byte_not_jsonb. Qed.
Print Assumptions C11_text_is_not_taken_for_jsonb.

(* an encoding with fewer than 2^24 top-level elements is always taken for JSONB *)
Theorem C11_encoding_is_taken_for_jsonb : forall v, wfb v = true -> top_ok v -> is_jsonb (enc v) = true.
Proof. exact is_jsonb_enc. Qed.
Print Assumptions C11_encoding_is_taken_for_jsonb.

(* the text and the encoding of the value it denotes are read as the same document by every function that goes
   through the common dispatch (array_length, the get, object, array, as/to, exists and delete families, strip_nulls,
   array_insert, object_insert, set functions, path functions, to_serde_json) *)
Theorem C11_same_document : forall t v,
  is_jsonb t = false -> parse_value t = Ok v -> normalise v = v -> wfb v = true -> top_ok v -> doc_of (enc v) = doc_of t.
Proof. exact text_and_encoding_same_document. Qed.
Print Assumptions C11_same_document.
