(* C16 — key-path syntax parses to its meaning, prints back faithfully and never panics. *)
From Coq Require Import List NArith ZArith Bool.
Import ListNotations.
From JB Require Import Constants Bytes Num Value TreeOps Path PathParse PathParseProofs.
Open Scope N_scope.

Theorem C16_parser_never_panics : forall bs, parse_key_paths bs <> Panic.
Proof. exact parse_key_paths_total. Qed.
Print Assumptions C16_parser_never_panics.

Example C16_elements :
  parse_key_paths [32;123;32;97;44;45;49;32;44;32;34;98;92;110;34;125]
  = Ok [KName [97]; KIndex (-1); KQuoted [98; 10]].
Proof. vm_compute. reflexivity. Qed.
Print Assumptions C16_elements.

Example C16_empty_list_and_unterminated_quote :
  parse_key_paths [123; 32; 125] = Ok [] /\ parse_key_paths [123; 34; 97; 98; 99; 125] = Err EOther.
Proof. split; vm_compute; reflexivity. Qed.
Print Assumptions C16_empty_list_and_unterminated_quote.

(* ---- printing a key path and parsing the printout gives the same elements, for every list of elements whose
   names need no escapes: indices anywhere in the i32 range, plain names without delimiter bytes or backslash that do
   not start with a digit, quoted names without quote or backslash (any other bytes, spaces and delimiters included) *)
From JB Require Import KeyPathRoundtrip.
Theorem C16_print_then_parse : forall ks, Forall safe_kp ks -> parse_key_paths (show_key_paths ks) = Ok ks.
Proof. exact key_paths_roundtrip. Qed.
Print Assumptions C16_print_then_parse.

(* one element followed by ',' or '}': a signed integer is an index, a quoted string a quoted name, anything else made
   of name characters a plain name *)
Theorem C16_element_meaning : forall k rest, safe_kp k -> stop rest -> key_path (show_keypath k ++ rest) = POk rest k.
Proof. exact key_path_roundtrip. Qed.
Print Assumptions C16_element_meaning.

Theorem C16_hypothesis_satisfiable :
  Forall safe_kp [KIndex (-7); KName [110; 97; 109; 101]; KQuoted [113; 32; 110]; KIndex 0].
Proof. exact key_paths_roundtrip_example. Qed.
Print Assumptions C16_hypothesis_satisfiable.

(* ---- the documented syntax, as a grammar (KeyPathGrammar.v, written from the property text and key_path.txt):
        ws "{" ws element ws *( "," ws element ws ) "}" ws   |   ws "{" ws "}" ws
        element = signed i32 integer (index) | JSON string literal in double quotes (quoted name, escapes decoded)
                | non-empty run of name characters not starting with a digit (plain name)
   Productions named X_..: what is accepted beyond the property text (explicit plus sign on an index; backslash escapes
   inside a plain name, decoded like those of a quoted name). *)
From Coq Require Import Lia.
From JB Require Import JsonGrammar KeyPathGrammar KeyPathGrammarProofs.

Theorem C16_every_documented_key_path_is_accepted_with_its_meaning :
  forall t ks, kp_text t ks -> parse_key_paths t = Ok ks.
Proof. exact key_path_grammar_complete. Qed.
Print Assumptions C16_every_documented_key_path_is_accepted_with_its_meaning.

Theorem C16_nothing_else_is_accepted :
  forall t ks, parse_key_paths t = Ok ks -> kp_text t ks.
Proof. exact key_path_grammar_sound. Qed.
Print Assumptions C16_nothing_else_is_accepted.

(* so every text outside the grammar is an error, not a panic *)
Theorem C16_everything_else_is_an_error :
  forall t, (forall ks, ~ kp_text t ks) -> exists e, parse_key_paths t = Err e.
Proof. exact key_path_rejected. Qed.
Print Assumptions C16_everything_else_is_an_error.

(* the grammar is not vacuous: ` { 1 ,a, "b" }` is in it, with the elements index 1, name a, quoted name b *)
Example C16_grammar_instance : kp_text [32; 123; 32; 49; 32; 44; 97; 44; 32; 34; 98; 34; 32; 125] [KIndex 1; KName [97]; KQuoted [98]].
Proof.
  apply (KP_list [32] [32; 49; 32; 44; 97; 44; 32; 34; 98; 34; 32] _ []); [repeat constructor; tauto| |constructor].
  apply (KEs_cons [32] [49] (KIndex 1) [32] [97; 44; 32; 34; 98; 34; 32]); try (repeat constructor; tauto).
  - apply KE_index; [apply (SI_unsigned [49]); [discriminate|repeat constructor]|unfold in_i32; lia].
  - apply (KEs_cons [] [97] (KName [97]) [] [32; 34; 98; 34; 32]); try (repeat constructor; tauto).
    + apply KE_name; [|cbn; discriminate]. apply Bare; [discriminate| |reflexivity].
      apply NB_char; [|constructor]. split; [|discriminate]. unfold name_delimiter. cbn. intuition discriminate.
    + apply (KEs_one [32] [34; 98; 34] (KQuoted [98]) [32]); try (repeat constructor; tauto).
      apply KE_quoted. apply (Str [98] [98]); [|reflexivity]. apply B_raw; [discriminate|discriminate|constructor].
Qed.
Print Assumptions C16_grammar_instance.

(* spacing variants of one list; a negative index; a quoted name with an escape; the empty path *)
Example C16_spacing_variants :
  parse_key_paths [123; 49; 44; 97; 125] = Ok [KIndex 1; KName [97]] /\
  parse_key_paths [32; 9; 123; 10; 49; 13; 44; 32; 32; 97; 9; 125; 10] = Ok [KIndex 1; KName [97]] /\
  parse_key_paths [123; 45; 50; 125] = Ok [KIndex (-2)] /\
  parse_key_paths [123; 34; 97; 92; 116; 92; 117; 48; 48; 52; 49; 34; 125] = Ok [KQuoted [97; 9; 65]] /\
  parse_key_paths [32; 123; 32; 32; 125; 32] = Ok [].
Proof. repeat split; vm_compute; reflexivity. Qed.
Print Assumptions C16_spacing_variants.

(* rejections: no braces, missing closing brace, trailing comma, a sign-initial or digit-initial name, an integer beyond
   i32, a space inside a plain name, something after the closing brace, an undefined escape in a plain name *)
Example C16_rejections :
  parse_key_paths [49; 44; 97] = Err EOther /\
  parse_key_paths [123; 49; 44; 97] = Err EOther /\
  parse_key_paths [123; 97; 44; 125] = Err EOther /\
  parse_key_paths [123; 45; 97; 125] = Err EOther /\
  parse_key_paths [123; 49; 97; 125] = Err EOther /\
  parse_key_paths [123; 50; 49; 52; 55; 52; 56; 51; 54; 52; 56; 125] = Err EOther /\
  parse_key_paths [123; 97; 32; 98; 125] = Err EOther /\
  parse_key_paths [123; 97; 125; 120] = Err EOther /\
  parse_key_paths [123; 97; 92; 46; 98; 125] = Err EOther.
Proof. repeat split; vm_compute; reflexivity. Qed.
Print Assumptions C16_rejections.

(* the named extras, confirmed on the real crate: {+1} is index 1; {a\u0041} is the plain name aA *)
Example C16_extras :
  parse_key_paths [123; 43; 49; 125] = Ok [KIndex 1] /\
  parse_key_paths [123; 97; 92; 117; 48; 48; 52; 49; 125] = Ok [KName [97; 65]].
Proof. split; vm_compute; reflexivity. Qed.

(* M6 (second review): the fuel the model passes is never what decides an answer, on ARBITRARY inputs -- also for the loops
   whose exhaustion is an ordinary value (None, Ok None, Ok buf, PErr, the input itself), about which `<> Err EFuel` says
   nothing: any fuel above the one the model passes gives the same answer (FuelIndep.v) *)
From JB Require FuelIndep.
Theorem C16_fuel_is_never_decisive :
  (forall stop k bs acc esc, (length bs < k)%nat -> PathParse.scan_name k stop bs acc esc = PathParse.scan_name (S (length bs)) stop bs acc esc) /\
  (forall A (f : list N -> PathParse.pres A), (forall bs, PathParseFuel.le_res (length bs) (f bs)) -> forall sep, (forall bs, PathParseFuel.le_res (length bs) (sep bs)) -> forall k bs acc, (length bs < k)%nat -> PathParse.sep_loop f sep k bs acc = PathParse.sep_loop f sep (S (length bs)) bs acc).
Proof. split; [exact FuelIndep.scan_name_any_fuel|exact (@FuelIndep.sep_loop_any_fuel)]. Qed.
Print Assumptions C16_fuel_is_never_decisive.

(* L2/L3 (second review), the DOMAIN of indices: the theorems of this file quantify over key paths whose indices are arbitrary
   integers (KIndex z, z : Z) and hold for all of them; KeyPath::Index holds an i32 in the code, and the parser only produces
   such indices (the bound is sharp: PathI32.parsed_i32_examples) *)
From JB Require PathI32.
Theorem C16_parsed_indices_are_i32 : forall bs ks, PathParse.parse_key_paths bs = Ok ks -> Forall PathI32.kp_in_i32 ks.
Proof. exact PathI32.parsed_key_path_indices_are_i32. Qed.
Print Assumptions C16_parsed_indices_are_i32.
Print Assumptions C16_extras.
