(* C16 — key-path syntax parses to its meaning, prints back faithfully and never panics. *)
From Coq Require Import List NArith ZArith Bool.
Import ListNotations.
From JB Require Import Constants Bytes Num Value TreeOps Path PathParse PathParseProofs.
Open Scope N_scope.

Theorem C16_parser_never_panics : forall bs, parse_key_paths bs <> Panic.
Proof. exact parse_key_paths_total. Qed.
Print Assumptions C16_parser_never_panics.

Example C16_elements :
  parse_key_paths [32;123;32;97;44;45;49;32;44;32;34;98;92;110;34;125]
  = Ok [KName [97]; KIndex (-1); KQuoted [98; 10]].
Proof. vm_compute. reflexivity. Qed.
Print Assumptions C16_elements.

Example C16_empty_list_and_unterminated_quote :
  parse_key_paths [123; 32; 125] = Ok [] /\ parse_key_paths [123; 34; 97; 98; 99; 125] = Err EOther.
Proof. split; vm_compute; reflexivity. Qed.
Print Assumptions C16_empty_list_and_unterminated_quote.
