(* C16 — key-path syntax parses to its meaning, prints back faithfully and never panics. *)
From Coq Require Import List NArith ZArith Bool.
Import ListNotations.
From JB Require Import Constants Bytes Num Value TreeOps Path PathParse PathParseProofs.
Open Scope N_scope.

Theorem C16_parser_never_panics : forall bs, parse_key_paths bs <> Panic.
Proof. exact parse_key_paths_total. Qed.
Print Assumptions C16_parser_never_panics.

Example C16_elements :
  parse_key_paths [32;123;32;97;44;45;49;32;44;32;34;98;92;110;34;125]
  = Ok [KName [97]; KIndex (-1); KQuoted [98; 10]].
Proof. vm_compute. reflexivity. Qed.
Print Assumptions C16_elements.

Example C16_empty_list_and_unterminated_quote :
  parse_key_paths [123; 32; 125] = Ok [] /\ parse_key_paths [123; 34; 97; 98; 99; 125] = Err EOther.
Proof. split; vm_compute; reflexivity. Qed.
Print Assumptions C16_empty_list_and_unterminated_quote.

(* ---- printing a key path and parsing the printout gives the same elements, for every list of elements whose
   names need no escapes: indices anywhere in the i32 range, plain names without delimiter bytes or backslash that do
   not start with a digit, quoted names without quote or backslash (any other bytes, spaces and delimiters included) *)
From JB Require Import KeyPathRoundtrip.
Theorem C16_print_then_parse : forall ks, Forall safe_kp ks -> parse_key_paths (show_key_paths ks) = Ok ks.
Proof. exact key_paths_roundtrip. Qed.
Print Assumptions C16_print_then_parse.

(* one element followed by ',' or '}': a signed integer is an index, a quoted string a quoted name, anything else made
   of name characters a plain name *)
Theorem C16_element_meaning : forall k rest, safe_kp k -> stop rest -> key_path (show_keypath k ++ rest) = POk rest k.
Proof. exact key_path_roundtrip. Qed.
Print Assumptions C16_element_meaning.

Theorem C16_hypothesis_satisfiable :
  Forall safe_kp [KIndex (-7); KName [110; 97; 109; 101]; KQuoted [113; 32; 110]; KIndex 0].
Proof. exact key_paths_roundtrip_example. Qed.
