(* C09 — JSONPath syntax: every documented form parses as intended; printing is faithful. *)
From Coq Require Import List NArith ZArith Bool.
Import ListNotations.
From JB Require Import Constants Bytes Num Value TreeOps Path PathParse PathParseProofs PathSafe PathRoundtrip PathImage.
Open Scope N_scope.

(* any byte string: an error or a path, never a panic *)
Theorem C09_parser_never_panics : forall bs, parse_json_path bs <> Panic.
Proof. exact parse_json_path_total. Qed.
Print Assumptions C09_parser_never_panics.

(* && binds tighter than ||; fractional, exponent and negative literals; empty string; last offsets and ranges *)
Example C09_precedence_and_literals :
  parse_json_path [36;63;40;64;46;97;32;61;61;32;49;46;53;32;124;124;32;64;46;98;32;60;32;45;49;32;38;38;32;64;46;99;32;61;61;32;34;34;41]
  = Ok [PRoot; PFilter (EBin OOr (EBin OEq (EPaths [PCurrent; PDotField [97]]) (EValue (PVNum (NFloat 4609434218613702656))))
                                (EBin OAnd (EBin OLt (EPaths [PCurrent; PDotField [98]]) (EValue (PVNum (NInt (-1)))))
                                           (EBin OEq (EPaths [PCurrent; PDotField [99]]) (EValue (PVStr [])))))].
Proof. vm_compute. reflexivity. Qed.
Print Assumptions C09_precedence_and_literals.

Example C09_indices :
  parse_json_path [36;91;48;44;32;76;65;83;84;32;45;32;49;32;116;111;32;108;97;115;116;93]
  = Ok [PRoot; PIndices [AIndex (IIndex 0); ASlice (ILast (-1)) (ILast 0)]].
Proof. vm_compute. reflexivity. Qed.
Print Assumptions C09_indices.

(* printing an accepted path and parsing the printout gives back the same structure, for every path in the executable
   class PathSafe.safe_path: every shape the parser produces ($ / un-rooted steps, .name :name ["name"] .* [*], index
   lists with `to` and `last` offsets over the whole i32 range, filters, top-level predicates, comparisons and binary
   arithmetic over path and literal operands, unary sign over a path operand, exists(...), and every nesting of && and ||),
   whose plain names have no delimiter byte or backslash, whose quoted names and string literals have no quote or
   backslash, whose integer literals are typed as the parser types them (u64 / negative i64), of ANY length and nesting
   depth (printer model and class recurse on the structure of the AST: no fuel, no depth bound). Floats: under the per-float hypothesis that the printer's text is read back by the literal
   reader (pf, the float printer, is a parameter). Excluded, with witnesses in PathRoundtrip.v: a digit-initial first
   name of an un-rooted path (unrooted_digit_name_refuted), non-negative Int64 literals
   (plus_signed_literal_reparsed_unsigned), names that need quotes (name_needing_quotes_refuted); trees the parser
   never produces (logical operators over operands, comparisons over comparisons, empty index lists, `@` at the top
   level or under a top-level predicate, `$`/`@` not at the head) are not in safe_path either. *)
Theorem C09_print_then_parse_is_identity_floats : forall pf okf, (forall b, okf b = true -> path_float_reads_back pf b) ->
  forall ps, safe_path okf ps = true -> parse_json_path (show_json_path pf ps) = Ok ps.
Proof. exact path_roundtrip_floats. Qed.
Print Assumptions C09_print_then_parse_is_identity_floats.

Theorem C09_print_then_parse_is_identity : forall pf ps, safe_path no_floats ps = true ->
  parse_json_path (show_json_path pf ps) = Ok ps.
Proof. exact path_roundtrip. Qed.
Print Assumptions C09_print_then_parse_is_identity.

(* no depth bound: a chain of 250 `&&` terms (left-nested 250 deep, as the parser builds it) is in the class, is printed in
   full (the crate prints the same text: correspondence cases of C09) and parses back *)
Fixpoint C09_and_chain (n : nat) : expr :=
  match n with
  | O => EBin OEq (EPaths [PCurrent; PDotField [97]]) (EValue (PVNum (NUInt 1)))
  | S k => EBin OAnd (C09_and_chain k) (EBin OLt (EPaths [PCurrent; PDotField [98]]) (EValue (PVNum (NUInt 2))))
  end.
Example C09_deep_chain_round_trips :
  let ps := [PRoot; PFilter (C09_and_chain 250)] in
  safe_path no_floats ps = true /\ length (show_json_path (fun _ => []) ps) = 3260%nat /\
  parse_json_path (show_json_path (fun _ => []) ps) = Ok ps.
Proof.
  intros ps. assert (S : safe_path no_floats ps = true) by (vm_compute; reflexivity).
  split; [exact S|]. split; [vm_compute; reflexivity|]. apply C09_print_then_parse_is_identity. exact S.
Qed.
Print Assumptions C09_deep_chain_round_trips.

(* $.store.book[0, 2 to last, last-1]?((@.price < 10 && (@.a == "x y" || exists(@.b?($.c != null)))) || -5 >= $.d).title *)
Definition C09_example_path : list path :=
  [PRoot; PDotField [115; 116; 111; 114; 101]; PDotField [98; 111; 111; 107];
   PIndices [AIndex (IIndex 0); ASlice (IIndex 2) (ILast 0); AIndex (ILast (-1))];
   PFilter (EBin OOr
              (EBin OAnd (EBin OLt (EPaths [PCurrent; PDotField [112; 114; 105; 99; 101]]) (EValue (PVNum (NUInt 10))))
                         (EBin OOr (EBin OEq (EPaths [PCurrent; PDotField [97]]) (EValue (PVStr [120; 32; 121])))
                                   (EExists [PCurrent; PDotField [98]; PFilter (EBin ONe (EPaths [PRoot; PDotField [99]]) (EValue PVNull))])))
              (EBin OGe (EValue (PVNum (NInt (-5)))) (EPaths [PRoot; PDotField [100]])));
   PDotField [116; 105; 116; 108; 101]].
Example C09_roundtrip_example :
  safe_path no_floats C09_example_path = true /\
  show_json_path (fun _ => []) C09_example_path =
    [36;46;115;116;111;114;101;46;98;111;111;107;91;48;44;32;50;32;116;111;32;108;97;115;116;44;32;108;97;115;116;45;49;93;
     63;40;40;64;46;112;114;105;99;101;32;60;32;49;48;32;38;38;32;40;64;46;97;32;61;61;32;34;120;32;121;34;32;124;124;32;
     101;120;105;115;116;115;40;64;46;98;63;40;36;46;99;32;33;61;32;110;117;108;108;41;41;41;41;32;124;124;32;45;53;32;62;61;32;36;46;100;41;
     46;116;105;116;108;101] /\
  parse_json_path (show_json_path (fun _ => []) C09_example_path) = Ok C09_example_path.
Proof. vm_compute. repeat split; reflexivity. Qed.
Print Assumptions C09_roundtrip_example.

(* the same with a float literal, through the theorem: $?(@.a >= 1.5) with 1.5 printed as "1.5" *)
Example C09_roundtrip_float_example :
  let pf := fun _ : N => [49; 46; 53] in
  let ps := [PRoot; PFilter (EBin OGe (EPaths [PCurrent; PDotField [97]]) (EValue (PVNum (NFloat 4609434218613702656))))] in
  parse_json_path (show_json_path pf ps) = Ok ps.
Proof.
  intros pf ps. apply (C09_print_then_parse_is_identity_floats pf (fun b => b =? 4609434218613702656)).
  - intros b Hb. apply N.eqb_eq in Hb. subst b. exact path_float_reads_back_example.
  - vm_compute. reflexivity.
Qed.
Print Assumptions C09_roundtrip_float_example.

(* the same in the words of the property: every ACCEPTED path whose names and literals need no quoting or escaping
   (leaf_path: the conditions of safe_path without any condition on the tree shape) round-trips. This rests on
   parse_image (every accepted input yields a tree of the parser's shape) and leaf_shape_safe. *)
Theorem C09_parser_image : forall bs ps, parse_json_path bs = Ok ps -> shape_path ps.
Proof. exact parse_image. Qed.
Print Assumptions C09_parser_image.

Theorem C09_accepted_path_round_trips : forall pf okf, (forall b, okf b = true -> path_float_reads_back pf b) ->
  forall bs ps, parse_json_path bs = Ok ps -> leaf_path okf ps = true -> parse_json_path (show_json_path pf ps) = Ok ps.
Proof. exact accepted_path_roundtrip. Qed.
Print Assumptions C09_accepted_path_round_trips.

(* a three-member chain a && b && c is parsed left-nested, printed as (a && b) && c, and comes back left-nested;
   the input is $?(@.a == 1 && @.b <> "s" && exists($.c[last - 1 to LAST])) with the alternative spellings *)
Example C09_accepted_chain_example :
  let text := [36;63;40;64;46;97;32;61;61;32;49;32;38;38;32;64;46;98;32;60;62;32;34;115;34;32;38;38;32;
               101;120;105;115;116;115;40;36;46;99;91;108;97;115;116;32;45;32;49;32;116;111;32;76;65;83;84;93;41;41] in
  let ps := [PRoot; PFilter (EBin OAnd (EBin OAnd (EBin OEq (EPaths [PCurrent; PDotField [97]]) (EValue (PVNum (NUInt 1))))
                                                  (EBin ONe (EPaths [PCurrent; PDotField [98]]) (EValue (PVStr [115]))))
                                       (EExists [PRoot; PDotField [99]; PIndices [ASlice (ILast (-1)) (ILast 0)]]))] in
  parse_json_path text = Ok ps /\ leaf_path no_floats ps = true /\
  parse_json_path (show_json_path (fun _ => []) ps) = Ok ps.
Proof. vm_compute. repeat split; reflexivity. Qed.
Print Assumptions C09_accepted_chain_example.

(* ---- negative infinity (finding negative-infinity-literal-not-reparsed, fixed in the crate by e1187a7).  A literal that
   overflows downwards (`$.a > -1e999`) is accepted as Float64(-inf) and printed as `-inf`; nom's `double` reads `inf` only
   without a sign, so the printout was rejected: for this float the hypothesis path_float_reads_back of the theorems above
   could not be met by ANY printer whose text starts with `-i`.  The fix adds the alternative `-` `inf` (any letter case) to
   the literal reader, after `double` and before the string literal.  Now the hypothesis is met by a printer that prints
   `-inf` (which is what the crate's Display does), and every accepted path whose float literals are non-finite (inf, -inf,
   NaN, printed so) round-trips, the printer being the extracted model's own (Render.float_placeholder). *)
Theorem C09_negative_infinity_literal_reads_back : forall pf, pf F_NEG_INF = [45; 105; 110; 102] -> path_float_reads_back pf F_NEG_INF.
Proof. exact path_float_reads_back_neg_inf. Qed.
Print Assumptions C09_negative_infinity_literal_reads_back.

Theorem C09_negative_infinity_literal_round_trips :
  forall bs ps, parse_json_path bs = Ok ps -> leaf_path nonfinite_floats ps = true ->
  parse_json_path (show_json_path Render.float_placeholder ps) = Ok ps.
Proof. exact accepted_path_roundtrip_nonfinite. Qed.
Print Assumptions C09_negative_infinity_literal_round_trips.

(* the witness of the finding: $.a > -1e999 parses, prints as $.a > -inf, and that parses to the same structure *)
Example C09_negative_infinity_literal_round_trips_example :
  let text := [36; 46; 97; 32; 62; 32; 45; 49; 101; 57; 57; 57] in
  let ps := [PPredicate (EBin OGt (EPaths [PRoot; PDotField [97]]) (EValue (PVNum (NFloat F_NEG_INF))))] in
  parse_json_path text = Ok ps /\ leaf_path nonfinite_floats ps = true /\
  show_json_path Render.float_placeholder ps = [36; 46; 97; 32; 62; 32; 45; 105; 110; 102] /\
  parse_json_path (show_json_path Render.float_placeholder ps) = Ok ps.
Proof. exact neg_inf_literal_roundtrip. Qed.
Print Assumptions C09_negative_infinity_literal_round_trips_example.

(* the forms of the new literal, as the crate reads them (correspondence cases `neg-inf` of C09):
   $.a > -inf, $.a > -INF, $?(@.x == -Inf), -inf == $.a (on the left), $.a == -inf && $.b == inf are comparisons with
   -infinity (0xFFF0000000000000); a stand-alone -inf is the sign applied to inf, as -5 is the sign applied to 5;
   $.a > -infinity, $.a > -infx, $.a > -inf5, $.a > - inf, $.a > -nan, $.a > +inf are rejected *)
Example C09_negative_infinity_literal_forms :
  let cmp op l r := EBin op l r in
  let a := EPaths [PRoot; PDotField [97]] in
  let ninf := EValue (PVNum (NFloat F_NEG_INF)) in
  parse_json_path [36; 46; 97; 32; 62; 32; 45; 105; 110; 102] = Ok [PPredicate (cmp OGt a ninf)] /\
  parse_json_path [36; 46; 97; 32; 62; 32; 45; 73; 78; 70] = Ok [PPredicate (cmp OGt a ninf)] /\
  parse_json_path [36; 63; 40; 64; 46; 120; 32; 61; 61; 32; 45; 73; 110; 102; 41]
    = Ok [PRoot; PFilter (cmp OEq (EPaths [PCurrent; PDotField [120]]) ninf)] /\
  parse_json_path [45; 105; 110; 102; 32; 61; 61; 32; 36; 46; 97] = Ok [PPredicate (cmp OEq ninf a)] /\
  parse_json_path [36; 46; 97; 32; 61; 61; 32; 45; 105; 110; 102; 32; 38; 38; 32; 36; 46; 98; 32; 61; 61; 32; 105; 110; 102]
    = Ok [PPredicate (EBin OAnd (cmp OEq a ninf) (cmp OEq (EPaths [PRoot; PDotField [98]]) (EValue (PVNum (NFloat F_INF)))))] /\
  parse_json_path [45; 105; 110; 102] = Ok [PPredicate (EArithU USub (EValue (PVNum (NFloat F_INF))))] /\
  parse_json_path [36; 46; 97; 32; 62; 32; 45; 105; 110; 102; 105; 110; 105; 116; 121] = Err EOther /\
  parse_json_path [36; 46; 97; 32; 62; 32; 45; 105; 110; 102; 120] = Err EOther /\
  parse_json_path [36; 46; 97; 32; 62; 32; 45; 105; 110; 102; 53] = Err EOther /\
  parse_json_path [36; 46; 97; 32; 62; 32; 45; 32; 105; 110; 102] = Err EOther /\
  parse_json_path [36; 46; 97; 32; 62; 32; 45; 110; 97; 110] = Err EOther /\
  parse_json_path [36; 46; 97; 32; 62; 32; 43; 105; 110; 102] = Err EOther.
Proof. vm_compute. repeat split; reflexivity. Qed.
Print Assumptions C09_negative_infinity_literal_forms.

(* ---- the documented language as a grammar (PathGrammar.v, written from README.md / path.rs / the golden tests / the
   property text): every text of the grammar is accepted and yields the structure the grammar gives it, whatever the
   spacing, the letter case of `last` / `to`, and whether names are bare or quoted.  jp_rooted_text = paths starting with
   `$` and standalone predicates; the ordered choices of the parser never commit to a wrong alternative on them. *)
From JB Require Import JsonGrammar KeyPathGrammar PathGrammar PathGrammarProofs.

Theorem C09_every_documented_path_is_accepted_as_intended :
  forall t ps, jp_rooted_text t ps -> parse_json_path t = Ok ps.
Proof. exact rooted_complete. Qed.
Print Assumptions C09_every_documented_path_is_accepted_as_intended.

(* the Snowflake-style forms without the leading `$` (jp_unrooted_text): proved for every text that, after its leading
   spacing, does not start like an expression (a digit, one of the letters n t f N i I e, or a point followed by a
   digit).  The restriction is not an artefact: a text is tried as a predicate first, and
   C09_unrooted_forms_read_as_expressions below shows unrooted paths of the grammar that are rejected or read as a
   predicate.  The full statement (without the second hypothesis) is false. *)
Theorem C09_unrooted_paths_are_accepted_as_intended_partial :
  forall t ps, jp_unrooted_text t ps -> ~ starts_like_an_expression (multispace0 t) -> parse_json_path t = Ok ps.
Proof. exact unrooted_complete_partial. Qed.
Print Assumptions C09_unrooted_paths_are_accepted_as_intended_partial.

(* the pieces, usable on their own: expressions at the three levels, steps with filters *)
Theorem C09_expressions_and_steps_are_read_as_intended :
  (forall c t e, or_text c t e -> P_or c t e) /\ (forall ts ps, fsteps_text ts ps -> spaced P_fstep ts ps).
Proof. split; [exact or_text_complete|exact fsteps_text_complete]. Qed.
Print Assumptions C09_expressions_and_steps_are_read_as_intended.

(* the grammar is not vacuous: `$.a` is in it *)
Example C09_grammar_instance : jp_rooted_text [36; 46; 97] [PRoot; PDotField [97]].
Proof.
  apply (JP_path [] [46; 97] [PDotField [97]] []); [constructor| |constructor].
  apply (FSS_cons [] [46; 97] (PDotField [97]) [] []); [constructor| |constructor].
  apply FS_step. apply ST_dot_name. apply Bare; [discriminate| |reflexivity].
  apply NB_char; [|constructor]. split; [|discriminate]. unfold name_delimiter. cbn. intuition discriminate.
Qed.
Print Assumptions C09_grammar_instance.

(* one path in three spellings: $.a[last - 1]   $."a"[LAST-1]   ` $ .a [ last  -  1 ] ` *)
Example C09_three_spellings_one_structure :
  let ps := [PRoot; PDotField [97]; PIndices [AIndex (ILast (-1))]] in
  parse_json_path [36; 46; 97; 91; 108; 97; 115; 116; 32; 45; 32; 49; 93] = Ok ps /\
  parse_json_path [36; 46; 34; 97; 34; 91; 76; 65; 83; 84; 45; 49; 93] = Ok ps /\
  parse_json_path [32; 36; 32; 46; 97; 32; 91; 32; 108; 97; 115; 116; 32; 32; 45; 32; 32; 49; 32; 93; 32] = Ok ps.
Proof. vm_compute. repeat split; reflexivity. Qed.
Print Assumptions C09_three_spellings_one_structure.

(* $.a > 1 || $.b > 2 && $.c > 3  is  a || (b && c) *)
Example C09_and_binds_tighter_than_or :
  parse_json_path [36; 46; 97; 32; 62; 32; 49; 32; 124; 124; 32; 36; 46; 98; 32; 62; 32; 50; 32; 38; 38; 32; 36; 46; 99; 32; 62; 32; 51]
  = Ok [PPredicate (EBin OOr (EBin OGt (EPaths [PRoot; PDotField [97]]) (EValue (PVNum (NUInt 1))))
                             (EBin OAnd (EBin OGt (EPaths [PRoot; PDotField [98]]) (EValue (PVNum (NUInt 2))))
                                        (EBin OGt (EPaths [PRoot; PDotField [99]]) (EValue (PVNum (NUInt 3))))))].
Proof. vm_compute. reflexivity. Qed.
Print Assumptions C09_and_binds_tighter_than_or.

(* literals: $?(@.a == 1.5e3 && @.b != "")  — an exponent number (1500.0 = 0x4097700000000000) and the empty string;
   $.a == -1 — a negative number on the right *)
Example C09_literals :
  parse_json_path [36; 63; 40; 64; 46; 97; 32; 61; 61; 32; 49; 46; 53; 101; 51; 32; 38; 38; 32; 64; 46; 98; 32; 33; 61; 32; 34; 34; 41]
  = Ok [PRoot; PFilter (EBin OAnd (EBin OEq (EPaths [PCurrent; PDotField [97]]) (EValue (PVNum (NFloat 4654311885213007872))))
                                  (EBin ONe (EPaths [PCurrent; PDotField [98]]) (EValue (PVStr []))))] /\
  parse_json_path [36; 46; 97; 32; 61; 61; 32; 45; 49]
  = Ok [PPredicate (EBin OEq (EPaths [PRoot; PDotField [97]]) (EValue (PVNum (NInt (-1)))))].
Proof. vm_compute. split; reflexivity. Qed.
Print Assumptions C09_literals.

(* unrooted paths of the grammar that the parser does not read as paths (confirmed on the real crate):
   `5.e` (field e of field 5) is rejected — a dangling exponent is a hard failure of the number reader — while `5.f` is
   accepted; `5.* .5` (field 5, wildcard, field 5) is read as the predicate 5.0 * 0.5; the empty text is the empty path *)
Example C09_unrooted_forms_read_as_expressions :
  parse_json_path [53; 46; 101] = Err EOther /\
  parse_json_path [53; 46; 102] = Ok [PDotField [53]; PDotField [102]] /\
  parse_json_path [53; 46; 42; 32; 46; 53]
    = Ok [PPredicate (EArithB BMul (EValue (PVNum (NFloat 4617315517961601024))) (EValue (PVNum (NFloat 4602678819172646912))))] /\
  parse_json_path [] = Ok [].
Proof. vm_compute. repeat split; reflexivity. Qed.
Print Assumptions C09_unrooted_forms_read_as_expressions.

(* soundness (what the parser accepts is in the grammar), first fragment: what inner_path reads as
   .*  [*]  .name  ."name"  :name  :"name"  ["name"]  is a step of the grammar with that meaning.
   (Kept for reference; superseded by C09_nothing_else_is_accepted below, which covers index lists, literals,
   expressions, filters and whole paths.) *)
Theorem C09_accepted_steps_are_in_the_grammar_partial :
  forall bs r p, inner_path bs = POk r p -> (forall l, p <> PIndices l) -> exists t, bs = t ++ r /\ step_text t p.
Proof. exact inner_path_sound_partial. Qed.
Print Assumptions C09_accepted_steps_are_in_the_grammar_partial.

(* ---- soundness: NOTHING ELSE is accepted.  Whatever parse_json_path accepts is a text of the grammar jp_text, with the
   structure the grammar gives it (PathGrammarSound.v: every alternative of every ordered choice of the parser, in the
   parser's order, lands in a production; the whole-input check — trailing spacing, nothing left over — included).
   The X_ productions of PathGrammar.v (signs on positions and offsets, `last + n`, `+5`, `5.`, `.5`, nan / inf, `-inf`
   (X_N_neg_inf, added with the crate's fix e1187a7), `@` inside exists at the top level, escapes in bare names) are all the
   extras the parser has. *)
From JB Require Import PathGrammarSound.

Theorem C09_nothing_else_is_accepted : forall t ps, parse_json_path t = Ok ps -> jp_text t ps.
Proof. exact grammar_sound. Qed.
Print Assumptions C09_nothing_else_is_accepted.

(* "Input with anything left over, or any other byte string, is rejected with an error and never a panic." *)
Theorem C09_everything_else_is_an_error : forall t, (forall ps, ~ jp_text t ps) -> exists e, parse_json_path t = Err e.
Proof. exact grammar_rejected. Qed.
Print Assumptions C09_everything_else_is_an_error.

(* the forms with a leading `$` and the standalone predicates (the structures PRoot :: _ and [PPredicate _]) are accepted
   EXACTLY: parser and grammar coincide on them, structure included *)
Theorem C09_rooted_forms_are_accepted_exactly :
  forall t ps, rooted_structure ps -> (parse_json_path t = Ok ps <-> jp_rooted_text t ps).
Proof. exact rooted_exact. Qed.
Print Assumptions C09_rooted_forms_are_accepted_exactly.

(* and so is every form, rooted or not, on the texts that do not start like an expression (see
   C09_unrooted_paths_are_accepted_as_intended_partial for why the restriction is there) *)
Theorem C09_accepted_exactly_partial :
  forall t ps, ~ starts_like_an_expression (multispace0 t) -> (parse_json_path t = Ok ps <-> jp_text t ps).
Proof. exact grammar_exact_partial. Qed.
Print Assumptions C09_accepted_exactly_partial.

(* one structure per text: on the rooted half of the grammar, and on the whole grammar outside the texts that start like an
   expression.  The whole grammar is NOT functional: C09_grammar_is_ambiguous_on_unrooted_forms. *)
Theorem C09_rooted_grammar_is_functional : forall t p1 p2, jp_rooted_text t p1 -> jp_rooted_text t p2 -> p1 = p2.
Proof. exact jp_rooted_text_functional. Qed.
Print Assumptions C09_rooted_grammar_is_functional.
Theorem C09_grammar_is_functional_partial :
  forall t p1 p2, ~ starts_like_an_expression (multispace0 t) -> jp_text t p1 -> jp_text t p2 -> p1 = p2.
Proof. exact jp_text_functional_partial. Qed.
Print Assumptions C09_grammar_is_functional_partial.

(* `5.* .5` is an unrooted path of the grammar (field 5, wildcard, field 5) AND the predicate 5. * .5; the parser reads the
   predicate (alternatives in their order: predicate, rooted path, unrooted path) *)
Example C09_grammar_is_ambiguous_on_unrooted_forms :
  let t := [53; 46; 42; 32; 46; 53] in
  jp_unrooted_text t [PDotField [53]; PDotWild; PDotField [53]] /\
  jp_rooted_text t [PPredicate (EArithB BMul (EValue (PVNum (NFloat 4617315517961601024))) (EValue (PVNum (NFloat 4602678819172646912))))] /\
  parse_json_path t = Ok [PPredicate (EArithB BMul (EValue (PVNum (NFloat 4617315517961601024))) (EValue (PVNum (NFloat 4602678819172646912))))].
Proof. exact jp_text_ambiguous. Qed.
Print Assumptions C09_grammar_is_ambiguous_on_unrooted_forms.

(* the pieces, usable on their own: every reader returns, with what it leaves unread, a text of its production.
   reads Q f: f bs = POk r a -> bs = spacing ++ t ++ spacing ++ r with Q t a. *)
Theorem C09_accepted_pieces_are_in_the_grammar :
  (forall bs r i, pindex bs = POk r i -> exists t, bs = t ++ r /\ index_text t i) /\
  (forall bs r a, parray_index bs = POk r a -> exists t, bs = t ++ r /\ array_index_text t a) /\
  (forall bs r l, array_indices bs = POk r l -> exists ts, bs = 91 :: ts ++ 93 :: r /\ index_list_text ts l) /\
  (forall bs r p, inner_path bs = POk r p -> exists t, bs = t ++ r /\ step_text t p) /\
  (forall bs r v, path_value bs = POk r v -> exists t, bs = t ++ r /\ literal_text t v) /\
  (forall rp bs r e, inner_expr rp bs = POk r e -> exists t w, bs = t ++ w ++ r /\ operand_text (negb rp) t e /\ pws w) /\
  (forall fuel rp, reads (or_text (negb rp)) (expr_or_fuel fuel rp)) /\
  (forall fuel, reads fstep_text (path_fuel fuel)).
Proof.
  repeat split; [exact pindex_sound|exact parray_index_sound|exact array_indices_sound|exact inner_path_sound|exact path_value_sound
                |exact operand_sound|exact expr_or_fuel_sound|exact path_fuel_sound].
Qed.
Print Assumptions C09_accepted_pieces_are_in_the_grammar.

(* the number literals of the path language include every JSON number (RFC 8259 section 6, JsonGrammar.jnumber), with the
   same value: unsigned integers below 2^64, negative integers down to -2^63, the nearest double otherwise *)
Theorem C09_json_numbers_are_path_literals : forall t n, jnumber t n -> number_text t n.
Proof. exact jnumber_number_text. Qed.
Print Assumptions C09_json_numbers_are_path_literals.

(* soundness at work: from an accepted input, its derivation in the grammar *)
Example C09_accepted_text_has_a_derivation :
  jp_rooted_text [36; 91; 48; 44; 32; 76; 65; 83; 84; 32; 45; 32; 49; 32; 116; 111; 32; 108; 97; 115; 116; 93]
                 [PRoot; PIndices [AIndex (IIndex 0); ASlice (ILast (-1)) (ILast 0)]].
Proof. apply C09_rooted_forms_are_accepted_exactly; [exact I|exact C09_indices]. Qed.
Print Assumptions C09_accepted_text_has_a_derivation.

(* `$.a > -inf` is a text of the grammar (production X_N_neg_inf), with a comparison against negative infinity as its structure *)
Example C09_negative_infinity_literal_in_the_grammar :
  jp_rooted_text [36; 46; 97; 32; 62; 32; 45; 105; 110; 102]
                 [PPredicate (EBin OGt (EPaths [PRoot; PDotField [97]]) (EValue (PVNum (NFloat F_NEG_INF))))] /\
  number_text [45; 73; 110; 70] (NFloat F_NEG_INF).
Proof.
  split; [apply C09_rooted_forms_are_accepted_exactly; [exact I|vm_compute; reflexivity]|].
  apply X_N_neg_inf. reflexivity.
Qed.
Print Assumptions C09_negative_infinity_literal_in_the_grammar.

(* rejections as consequences: a rejected text that does not start like an expression is OUTSIDE the grammar (by the
   completeness theorems), and being outside the grammar is why it is an error (C09_everything_else_is_an_error) *)
Definition C09_rejected_and_outside (t : list N) : Prop := parse_json_path t = Err EOther /\ forall ps, ~ jp_text t ps.
Lemma C09_rejected_outside_by_computation t :
  parse_json_path t = Err EOther -> starts_like_b (multispace0 t) = false -> C09_rejected_and_outside t.
Proof. intros He Hs. split; [exact He|]. apply (rejected_outside_partial t EOther He). apply starts_like_b_false. exact Hs. Qed.
Print Assumptions C09_rejected_outside_by_computation.

(* every expression of the crate's own rejection test (tests/it/jsonpath_parser.rs, test_json_path_error):
   $.[   $X   $.   $.prop.   $.prop+.   $..   $.prop..   $.foo bar   $[0, 1, 2 4]   $['1','2',]   $['1', ,'3']
   $['aaa'}'bbb']   @ > 10 *)
Example C09_documented_rejections_are_outside_the_grammar :
  C09_rejected_and_outside [36; 46; 91] /\
  C09_rejected_and_outside [36; 88] /\
  C09_rejected_and_outside [36; 46] /\
  C09_rejected_and_outside [36; 46; 112; 114; 111; 112; 46] /\
  C09_rejected_and_outside [36; 46; 112; 114; 111; 112; 43; 46] /\
  C09_rejected_and_outside [36; 46; 46] /\
  C09_rejected_and_outside [36; 46; 112; 114; 111; 112; 46; 46] /\
  C09_rejected_and_outside [36; 46; 102; 111; 111; 32; 98; 97; 114] /\
  C09_rejected_and_outside [36; 91; 48; 44; 32; 49; 44; 32; 50; 32; 52; 93] /\
  C09_rejected_and_outside [36; 91; 39; 49; 39; 44; 39; 50; 39; 44; 93] /\
  C09_rejected_and_outside [36; 91; 39; 49; 39; 44; 32; 44; 39; 51; 39; 93] /\
  C09_rejected_and_outside [36; 91; 39; 97; 97; 97; 39; 125; 39; 98; 98; 98; 39; 93] /\
  C09_rejected_and_outside [64; 32; 62; 32; 49; 48].
Proof. repeat split; try (apply C09_rejected_outside_by_computation; vm_compute; reflexivity). Qed.
Print Assumptions C09_documented_rejections_are_outside_the_grammar.

(* more of the same: a trailing comma, `last - n` with n beyond i32 (the offset alternative declines, `last` alone is read and
   the rest is left over), text after `inf`, a bare operand as a filter, a dangling &&, a parenthesised operand, exists(..)
   as an operand, `to` without an end, single quotes, an empty filter, two literals, an unclosed parenthesis, exists of a
   literal, a sign before spacing and a path in a comparison, a chain of comparisons:
   $[1,]   $[last - 99999999999]   $ == infinityx   $?(@.a)   $ == 1 &&   $.a == (1)   $ == exists($.a)   $[1 to]   $.'a'
   $?()   $ == 1 2   ( $.a == 1   $?(exists(5))   - $.a == 1   $ == $ == $ *)
Example C09_more_rejections_outside_the_grammar :
  C09_rejected_and_outside [36; 91; 49; 44; 93] /\
  C09_rejected_and_outside [36; 91; 108; 97; 115; 116; 32; 45; 32; 57; 57; 57; 57; 57; 57; 57; 57; 57; 57; 57; 93] /\
  C09_rejected_and_outside [36; 32; 61; 61; 32; 105; 110; 102; 105; 110; 105; 116; 121; 120] /\
  C09_rejected_and_outside [36; 63; 40; 64; 46; 97; 41] /\
  C09_rejected_and_outside [36; 32; 61; 61; 32; 49; 32; 38; 38] /\
  C09_rejected_and_outside [36; 46; 97; 32; 61; 61; 32; 40; 49; 41] /\
  C09_rejected_and_outside [36; 32; 61; 61; 32; 101; 120; 105; 115; 116; 115; 40; 36; 46; 97; 41] /\
  C09_rejected_and_outside [36; 91; 49; 32; 116; 111; 93] /\
  C09_rejected_and_outside [36; 46; 39; 97; 39] /\
  C09_rejected_and_outside [36; 63; 40; 41] /\
  C09_rejected_and_outside [36; 32; 61; 61; 32; 49; 32; 50] /\
  C09_rejected_and_outside [40; 32; 36; 46; 97; 32; 61; 61; 32; 49] /\
  C09_rejected_and_outside [36; 63; 40; 101; 120; 105; 115; 116; 115; 40; 53; 41; 41] /\
  C09_rejected_and_outside [45; 32; 36; 46; 97; 32; 61; 61; 32; 49] /\
  C09_rejected_and_outside [36; 32; 61; 61; 32; 36; 32; 61; 61; 32; 36].
Proof. repeat split; try (apply C09_rejected_outside_by_computation; vm_compute; reflexivity). Qed.
Print Assumptions C09_more_rejections_outside_the_grammar.

(* a rejected text that does start like an expression is at least outside the rooted half: `5.e` (also an unrooted path of
   the grammar: the one place where parser and grammar differ, see C09_unrooted_forms_read_as_expressions) *)
Example C09_rejected_expression_like_text : forall ps, ~ jp_rooted_text [53; 46; 101] ps.
Proof. apply (rejected_not_rooted _ EOther). vm_compute. reflexivity. Qed.
Print Assumptions C09_rejected_expression_like_text.

(* ---- the parser model's recursion fuel (PathParseFuel.v).  PathParse.v threads a fuel through the mutual recursion of
   expr_or / path (parentheses, exists(...), filters) and starts it at S (length input).  It is never decisive, on ANY input:
   with any two fuels above the input length the parsers answer alike (an accepted result or the same rejection), so
   parse_json_path is the parser at any larger fuel.  (Compared with the crate through the harness up to 2000 nested
   parentheses / exists / filters: same answers; at about 5000 levels the crate itself overflows its stack — a resource limit
   of the recursive-descent parser, outside the model.) ---- *)
From JB Require Import PathParseFuel.
Theorem C09_parser_fuel_is_never_decisive :
  (forall f1 f2 bs, (length bs < f1)%nat -> (length bs < f2)%nat ->
     (forall rp, expr_or_fuel f1 rp bs = expr_or_fuel f2 rp bs) /\ path_fuel f1 bs = path_fuel f2 bs) /\
  (forall f bs, (length bs < f)%nat ->
     parse_json_path bs = match json_path_fuel f bs with
                          | POk [] ps => Ok ps
                          | POk _ _ => Err EOther
                          | PErr | PFail => Err EOther
                          | PPanic => Panic
                          end).
Proof. exact (conj fuel_stable parse_json_path_any_fuel). Qed.
Print Assumptions C09_parser_fuel_is_never_decisive.

(* M6 (second review): the fuel the model passes is never what decides an answer, on ARBITRARY inputs -- also for the loops
   whose exhaustion is an ordinary value (None, Ok None, Ok buf, PErr, the input itself), about which `<> Err EFuel` says
   nothing: any fuel above the one the model passes gives the same answer (FuelIndep.v) *)
From JB Require FuelIndep.
Theorem C09_fuel_is_never_decisive :
  (forall k bs, (length bs < k)%nat -> PathParse.json_path_fuel k bs = PathParse.json_path_fuel (S (length bs)) bs) /\
  (forall k rp bs, (length bs < k)%nat -> PathParse.expr_or_fuel k rp bs = PathParse.expr_or_fuel (S (length bs)) rp bs) /\
  (forall k bs, (length bs < k)%nat -> PathParse.path_fuel k bs = PathParse.path_fuel (S (length bs)) bs) /\
  (forall A (f : list N -> PathParse.pres A), (forall bs, PathParseFuel.le_res (length bs) (f bs)) -> forall k bs acc, (length bs < k)%nat -> PathParse.many0 f k bs acc = PathParse.many0 f (S (length bs)) bs acc) /\
  (forall A (f : list N -> PathParse.pres A), (forall bs, PathParseFuel.le_res (length bs) (f bs)) -> forall sep, (forall bs, PathParseFuel.le_res (length bs) (sep bs)) -> forall k bs acc, (length bs < k)%nat -> PathParse.sep_loop f sep k bs acc = PathParse.sep_loop f sep (S (length bs)) bs acc) /\
  (forall m k bs acc, (length bs < k)%nat -> PathParse.many0 (PathParse.path_fuel m) k bs acc = PathParse.many0 (PathParse.path_fuel m) (S (length bs)) bs acc) /\
  (forall k bs acc, (length bs < k)%nat -> PathParse.many0 (PathParse.ws_around PathParse.inner_path) k bs acc = PathParse.many0 (PathParse.ws_around PathParse.inner_path) (S (length bs)) bs acc) /\
  (forall k bs acc, (length bs < k)%nat -> PathParse.sep_loop (PathParse.ws_around PathParse.parray_index) (PathParse.pchar 44) k bs acc = PathParse.sep_loop (PathParse.ws_around PathParse.parray_index) (PathParse.pchar 44) (S (length bs)) bs acc) /\
  (forall stop k bs acc esc, (length bs < k)%nat -> PathParse.scan_name k stop bs acc esc = PathParse.scan_name (S (length bs)) stop bs acc esc) /\
  (forall k n, (40 <= k)%nat -> n < two64 -> Num.digits_fuel k n [] = Num.dec_digits n).
Proof. split; [exact FuelIndep.json_path_any_fuel|split; [exact FuelIndep.expr_or_any_fuel|split; [exact FuelIndep.path_any_fuel|split; [exact (@FuelIndep.many0_any_fuel)|split; [exact (@FuelIndep.sep_loop_any_fuel)|split; [exact FuelIndep.many0_steps_any_fuel|split; [exact FuelIndep.many0_inner_any_fuel|split; [exact FuelIndep.sep_indices_any_fuel|split; [exact FuelIndep.scan_name_any_fuel|exact FuelIndep.dec_digits_any_fuel_u64]]]]]]]]]. Qed.
Print Assumptions C09_fuel_is_never_decisive.

(* L2/L3 (second review), the DOMAIN of indices: the theorems about paths quantify over ASTs whose indices are arbitrary
   integers (IIndex z, ILast z, z : Z) and hold for all of them; Index::Index / Index::LastIndex hold an i32 in the code, and
   the parser only produces such indices, at every depth (filters, predicates, exists) *)
From JB Require PathI32.
Theorem C09_parsed_indices_are_i32 : forall bs ps, PathParse.parse_json_path bs = Ok ps -> PathI32.path_in_i32 ps.
Proof. exact PathI32.parsed_json_path_indices_are_i32. Qed.
Print Assumptions C09_parsed_indices_are_i32.
