(* C09 — JSONPath syntax: every documented form parses as intended; printing is faithful. *)
From Coq Require Import List NArith ZArith Bool.
Import ListNotations.
From JB Require Import Constants Bytes Num Value TreeOps Path PathParse PathParseProofs PathSafe PathRoundtrip PathImage.
Open Scope N_scope.

(* any byte string: an error or a path, never a panic *)
Theorem C09_parser_never_panics : forall bs, parse_json_path bs <> Panic.
Proof. exact parse_json_path_total. Qed.
Print Assumptions C09_parser_never_panics.

(* && binds tighter than ||; fractional, exponent and negative literals; empty string; last offsets and ranges *)
Example C09_precedence_and_literals :
  parse_json_path [36;63;40;64;46;97;32;61;61;32;49;46;53;32;124;124;32;64;46;98;32;60;32;45;49;32;38;38;32;64;46;99;32;61;61;32;34;34;41]
  = Ok [PRoot; PFilter (EBin OOr (EBin OEq (EPaths [PCurrent; PDotField [97]]) (EValue (PVNum (NFloat 4609434218613702656))))
                                (EBin OAnd (EBin OLt (EPaths [PCurrent; PDotField [98]]) (EValue (PVNum (NInt (-1)))))
                                           (EBin OEq (EPaths [PCurrent; PDotField [99]]) (EValue (PVStr [])))))].
Proof. vm_compute. reflexivity. Qed.
Print Assumptions C09_precedence_and_literals.

Example C09_indices :
  parse_json_path [36;91;48;44;32;76;65;83;84;32;45;32;49;32;116;111;32;108;97;115;116;93]
  = Ok [PRoot; PIndices [AIndex (IIndex 0); ASlice (ILast (-1)) (ILast 0)]].
Proof. vm_compute. reflexivity. Qed.
Print Assumptions C09_indices.

(* printing an accepted path and parsing the printout gives back the same structure, for every path in the executable
   class PathSafe.safe_path: every shape the parser produces ($ / un-rooted steps, .name :name ["name"] .* [*], index
   lists with `to` and `last` offsets over the whole i32 range, filters, top-level predicates, comparisons and binary
   arithmetic over path and literal operands, unary sign over a path operand, exists(...), and every nesting of && and ||),
   whose plain names have no delimiter byte or backslash, whose quoted names and string literals have no quote or
   backslash, whose integer literals are typed as the parser types them (u64 / negative i64), at depth < 200 (the fuel
   of the printer model). Floats: under the per-float hypothesis that the printer's text is read back by the literal
   reader (pf, the float printer, is a parameter). Excluded, with witnesses in PathRoundtrip.v: a digit-initial first
   name of an un-rooted path (unrooted_digit_name_refuted), non-negative Int64 literals
   (plus_signed_literal_reparsed_unsigned), names that need quotes (name_needing_quotes_refuted); trees the parser
   never produces (logical operators over operands, comparisons over comparisons, empty index lists, `@` at the top
   level or under a top-level predicate, `$`/`@` not at the head) are not in safe_path either. *)
Theorem C09_print_then_parse_is_identity_floats : forall pf okf, (forall b, okf b = true -> path_float_reads_back pf b) ->
  forall ps, safe_path okf ps = true -> parse_json_path (show_json_path pf ps) = Ok ps.
Proof. exact path_roundtrip_floats. Qed.
Print Assumptions C09_print_then_parse_is_identity_floats.

Theorem C09_print_then_parse_is_identity : forall pf ps, safe_path no_floats ps = true ->
  parse_json_path (show_json_path pf ps) = Ok ps.
Proof. exact path_roundtrip. Qed.
Print Assumptions C09_print_then_parse_is_identity.

(* $.store.book[0, 2 to last, last-1]?((@.price < 10 && (@.a == "x y" || exists(@.b?($.c != null)))) || -5 >= $.d).title *)
Definition C09_example_path : list path :=
  [PRoot; PDotField [115; 116; 111; 114; 101]; PDotField [98; 111; 111; 107];
   PIndices [AIndex (IIndex 0); ASlice (IIndex 2) (ILast 0); AIndex (ILast (-1))];
   PFilter (EBin OOr
              (EBin OAnd (EBin OLt (EPaths [PCurrent; PDotField [112; 114; 105; 99; 101]]) (EValue (PVNum (NUInt 10))))
                         (EBin OOr (EBin OEq (EPaths [PCurrent; PDotField [97]]) (EValue (PVStr [120; 32; 121])))
                                   (EExists [PCurrent; PDotField [98]; PFilter (EBin ONe (EPaths [PRoot; PDotField [99]]) (EValue PVNull))])))
              (EBin OGe (EValue (PVNum (NInt (-5)))) (EPaths [PRoot; PDotField [100]])));
   PDotField [116; 105; 116; 108; 101]].
Example C09_roundtrip_example :
  safe_path no_floats C09_example_path = true /\
  show_json_path (fun _ => []) C09_example_path =
    [36;46;115;116;111;114;101;46;98;111;111;107;91;48;44;32;50;32;116;111;32;108;97;115;116;44;32;108;97;115;116;45;49;93;
     63;40;40;64;46;112;114;105;99;101;32;60;32;49;48;32;38;38;32;40;64;46;97;32;61;61;32;34;120;32;121;34;32;124;124;32;
     101;120;105;115;116;115;40;64;46;98;63;40;36;46;99;32;33;61;32;110;117;108;108;41;41;41;41;32;124;124;32;45;53;32;62;61;32;36;46;100;41;
     46;116;105;116;108;101] /\
  parse_json_path (show_json_path (fun _ => []) C09_example_path) = Ok C09_example_path.
Proof. vm_compute. repeat split; reflexivity. Qed.
Print Assumptions C09_roundtrip_example.

(* the same with a float literal, through the theorem: $?(@.a >= 1.5) with 1.5 printed as "1.5" *)
Example C09_roundtrip_float_example :
  let pf := fun _ : N => [49; 46; 53] in
  let ps := [PRoot; PFilter (EBin OGe (EPaths [PCurrent; PDotField [97]]) (EValue (PVNum (NFloat 4609434218613702656))))] in
  parse_json_path (show_json_path pf ps) = Ok ps.
Proof.
  intros pf ps. apply (C09_print_then_parse_is_identity_floats pf (fun b => b =? 4609434218613702656)).
  - intros b Hb. apply N.eqb_eq in Hb. subst b. exact path_float_reads_back_example.
  - vm_compute. reflexivity.
Qed.
Print Assumptions C09_roundtrip_float_example.

(* the same in the words of the property: every ACCEPTED path whose names and literals need no quoting or escaping
   (leaf_path: the conditions of safe_path without any condition on the tree shape) round-trips. This rests on
   parse_image (every accepted input yields a tree of the parser's shape) and leaf_shape_safe. *)
Theorem C09_parser_image : forall bs ps, parse_json_path bs = Ok ps -> shape_path ps.
Proof. exact parse_image. Qed.
Print Assumptions C09_parser_image.

Theorem C09_accepted_path_round_trips : forall pf okf, (forall b, okf b = true -> path_float_reads_back pf b) ->
  forall bs ps, parse_json_path bs = Ok ps -> leaf_path okf ps = true -> parse_json_path (show_json_path pf ps) = Ok ps.
Proof. exact accepted_path_roundtrip. Qed.
Print Assumptions C09_accepted_path_round_trips.

(* a three-member chain a && b && c is parsed left-nested, printed as (a && b) && c, and comes back left-nested;
   the input is $?(@.a == 1 && @.b <> "s" && exists($.c[last - 1 to LAST])) with the alternative spellings *)
Example C09_accepted_chain_example :
  let text := [36;63;40;64;46;97;32;61;61;32;49;32;38;38;32;64;46;98;32;60;62;32;34;115;34;32;38;38;32;
               101;120;105;115;116;115;40;36;46;99;91;108;97;115;116;32;45;32;49;32;116;111;32;76;65;83;84;93;41;41] in
  let ps := [PRoot; PFilter (EBin OAnd (EBin OAnd (EBin OEq (EPaths [PCurrent; PDotField [97]]) (EValue (PVNum (NUInt 1))))
                                                  (EBin ONe (EPaths [PCurrent; PDotField [98]]) (EValue (PVStr [115]))))
                                       (EExists [PRoot; PDotField [99]; PIndices [ASlice (ILast (-1)) (ILast 0)]]))] in
  parse_json_path text = Ok ps /\ leaf_path no_floats ps = true /\
  parse_json_path (show_json_path (fun _ => []) ps) = Ok ps.
Proof. vm_compute. repeat split; reflexivity. Qed.
Print Assumptions C09_accepted_chain_example.

(* ---- the documented language as a grammar (PathGrammar.v, written from README.md / path.rs / the golden tests / the
   property text): every text of the grammar is accepted and yields the structure the grammar gives it, whatever the
   spacing, the letter case of `last` / `to`, and whether names are bare or quoted.  jp_rooted_text = paths starting with
   `$` and standalone predicates; the ordered choices of the parser never commit to a wrong alternative on them. *)
From JB Require Import JsonGrammar KeyPathGrammar PathGrammar PathGrammarProofs.

Theorem C09_every_documented_path_is_accepted_as_intended :
  forall t ps, jp_rooted_text t ps -> parse_json_path t = Ok ps.
Proof. exact rooted_complete. Qed.
Print Assumptions C09_every_documented_path_is_accepted_as_intended.

(* the Snowflake-style forms without the leading `$` (jp_unrooted_text): proved for every text that, after its leading
   spacing, does not start like an expression (a digit, one of the letters n t f N i I e, or a point followed by a
   digit).  The restriction is not an artefact: a text is tried as a predicate first, and
   C09_unrooted_forms_read_as_expressions below shows unrooted paths of the grammar that are rejected or read as a
   predicate.  The full statement (without the second hypothesis) is false. *)
Theorem C09_unrooted_paths_are_accepted_as_intended_partial :
  forall t ps, jp_unrooted_text t ps -> ~ starts_like_an_expression (multispace0 t) -> parse_json_path t = Ok ps.
Proof. exact unrooted_complete_partial. Qed.
Print Assumptions C09_unrooted_paths_are_accepted_as_intended_partial.

(* the pieces, usable on their own: expressions at the three levels, steps with filters *)
Theorem C09_expressions_and_steps_are_read_as_intended :
  (forall c t e, or_text c t e -> P_or c t e) /\ (forall ts ps, fsteps_text ts ps -> spaced P_fstep ts ps).
Proof. split; [exact or_text_complete|exact fsteps_text_complete]. Qed.
Print Assumptions C09_expressions_and_steps_are_read_as_intended.

(* the grammar is not vacuous: `$.a` is in it *)
Example C09_grammar_instance : jp_rooted_text [36; 46; 97] [PRoot; PDotField [97]].
Proof.
  apply (JP_path [] [46; 97] [PDotField [97]] []); [constructor| |constructor].
  apply (FSS_cons [] [46; 97] (PDotField [97]) [] []); [constructor| |constructor].
  apply FS_step. apply ST_dot_name. apply Bare; [discriminate| |reflexivity].
  apply NB_char; [|constructor]. split; [|discriminate]. unfold name_delimiter. cbn. intuition discriminate.
Qed.

(* one path in three spellings: $.a[last - 1]   $."a"[LAST-1]   ` $ .a [ last  -  1 ] ` *)
Example C09_three_spellings_one_structure :
  let ps := [PRoot; PDotField [97]; PIndices [AIndex (ILast (-1))]] in
  parse_json_path [36; 46; 97; 91; 108; 97; 115; 116; 32; 45; 32; 49; 93] = Ok ps /\
  parse_json_path [36; 46; 34; 97; 34; 91; 76; 65; 83; 84; 45; 49; 93] = Ok ps /\
  parse_json_path [32; 36; 32; 46; 97; 32; 91; 32; 108; 97; 115; 116; 32; 32; 45; 32; 32; 49; 32; 93; 32] = Ok ps.
Proof. vm_compute. repeat split; reflexivity. Qed.

(* $.a > 1 || $.b > 2 && $.c > 3  is  a || (b && c) *)
Example C09_and_binds_tighter_than_or :
  parse_json_path [36; 46; 97; 32; 62; 32; 49; 32; 124; 124; 32; 36; 46; 98; 32; 62; 32; 50; 32; 38; 38; 32; 36; 46; 99; 32; 62; 32; 51]
  = Ok [PPredicate (EBin OOr (EBin OGt (EPaths [PRoot; PDotField [97]]) (EValue (PVNum (NUInt 1))))
                             (EBin OAnd (EBin OGt (EPaths [PRoot; PDotField [98]]) (EValue (PVNum (NUInt 2))))
                                        (EBin OGt (EPaths [PRoot; PDotField [99]]) (EValue (PVNum (NUInt 3))))))].
Proof. vm_compute. reflexivity. Qed.

(* literals: $?(@.a == 1.5e3 && @.b != "")  — an exponent number (1500.0 = 0x4097700000000000) and the empty string;
   $.a == -1 — a negative number on the right *)
Example C09_literals :
  parse_json_path [36; 63; 40; 64; 46; 97; 32; 61; 61; 32; 49; 46; 53; 101; 51; 32; 38; 38; 32; 64; 46; 98; 32; 33; 61; 32; 34; 34; 41]
  = Ok [PRoot; PFilter (EBin OAnd (EBin OEq (EPaths [PCurrent; PDotField [97]]) (EValue (PVNum (NFloat 4654311885213007872))))
                                  (EBin ONe (EPaths [PCurrent; PDotField [98]]) (EValue (PVStr []))))] /\
  parse_json_path [36; 46; 97; 32; 61; 61; 32; 45; 49]
  = Ok [PPredicate (EBin OEq (EPaths [PRoot; PDotField [97]]) (EValue (PVNum (NInt (-1)))))].
Proof. vm_compute. split; reflexivity. Qed.

(* unrooted paths of the grammar that the parser does not read as paths (confirmed on the real crate):
   `5.e` (field e of field 5) is rejected — a dangling exponent is a hard failure of the number reader — while `5.f` is
   accepted; `5.* .5` (field 5, wildcard, field 5) is read as the predicate 5.0 * 0.5; the empty text is the empty path *)
Example C09_unrooted_forms_read_as_expressions :
  parse_json_path [53; 46; 101] = Err EOther /\
  parse_json_path [53; 46; 102] = Ok [PDotField [53]; PDotField [102]] /\
  parse_json_path [53; 46; 42; 32; 46; 53]
    = Ok [PPredicate (EArithB BMul (EValue (PVNum (NFloat 4617315517961601024))) (EValue (PVNum (NFloat 4602678819172646912))))] /\
  parse_json_path [] = Ok [].
Proof. vm_compute. repeat split; reflexivity. Qed.

(* soundness (what the parser accepts is in the grammar) is proved so far for one step other than an index list: what
   inner_path reads as  .*  [*]  .name  ."name"  :name  :"name"  ["name"]  is a step of the grammar with that meaning.
   Not proved: index lists, expressions, whole paths (for these only the shape of the result is proved, C09_parser_image). *)
Theorem C09_accepted_steps_are_in_the_grammar_partial :
  forall bs r p, inner_path bs = POk r p -> (forall l, p <> PIndices l) -> exists t, bs = t ++ r /\ step_text t p.
Proof. exact inner_path_sound_partial. Qed.
Print Assumptions C09_accepted_steps_are_in_the_grammar_partial.
