(* C09 — JSONPath syntax: every documented form parses as intended; printing is faithful. *)
From Coq Require Import List NArith ZArith Bool.
Import ListNotations.
From JB Require Import Constants Bytes Num Value TreeOps Path PathParse PathParseProofs.
Open Scope N_scope.

(* any byte string: an error or a path, never a panic *)
Theorem C09_parser_never_panics : forall bs, parse_json_path bs <> Panic.
Proof. exact parse_json_path_total. Qed.
Print Assumptions C09_parser_never_panics.

(* && binds tighter than ||; fractional, exponent and negative literals; empty string; last offsets and ranges *)
Example C09_precedence_and_literals :
  parse_json_path [36;63;40;64;46;97;32;61;61;32;49;46;53;32;124;124;32;64;46;98;32;60;32;45;49;32;38;38;32;64;46;99;32;61;61;32;34;34;41]
  = Ok [PRoot; PFilter (EBin OOr (EBin OEq (EPaths [PCurrent; PDotField [97]]) (EValue (PVNum (NFloat 4609434218613702656))))
                                (EBin OAnd (EBin OLt (EPaths [PCurrent; PDotField [98]]) (EValue (PVNum (NInt (-1)))))
                                           (EBin OEq (EPaths [PCurrent; PDotField [99]]) (EValue (PVStr [])))))].
Proof. vm_compute. reflexivity. Qed.
Print Assumptions C09_precedence_and_literals.

Example C09_indices :
  parse_json_path [36;91;48;44;32;76;65;83;84;32;45;32;49;32;116;111;32;108;97;115;116;93]
  = Ok [PRoot; PIndices [AIndex (IIndex 0); ASlice (ILast (-1)) (ILast 0)]].
Proof. vm_compute. reflexivity. Qed.
Print Assumptions C09_indices.
