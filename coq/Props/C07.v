(* C07 — any chain of operations keeps documents canonical and equal to the tree result. *)
From Coq Require Import List NArith ZArith Bool.
Import ListNotations.
From JB Require Import Constants Bytes Num Value Codec TreeOps SetOps RoundtripProofs TreeWf.
Open Scope N_scope.

(* invariant by induction over operation lists: starting from well-shaped documents (keys strictly sorted and
   unique, strings UTF-8, numbers in range), every document reachable by any finite sequence of operations of
   the operation language `op` (concat, delete by name/index, array insert, object insert/delete/pick,
   strip_nulls, build array/object, get by index/name, distinct/intersection/except, re-encode) is well-shaped *)
Theorem C07_chain_invariant : forall ops regs, Inv regs -> Inv (run regs ops).
Proof. exact chain_inv. Qed.
Print Assumptions C07_chain_invariant.

Theorem C07_one_step : forall regs o, Inv regs -> Inv (step regs o).
Proof. exact step_inv. Qed.
Print Assumptions C07_one_step.

(* a well-shaped document within the size bounds is canonical: its encoding decodes to it and re-encodes to the
   identical bytes (nothing trails: the decoder consumes the encoding exactly, by the round trip through
   parse_jsonb on `enc v ++ []`) *)
Theorem C07_wellshaped_is_canonical : forall v, wf_shape v = true -> wf_size v = true ->
  parse_jsonb (enc v) = Ok (normalise v) /\ enc (normalise v) = enc v.
Proof. exact canonical_of_wf. Qed.
Print Assumptions C07_wellshaped_is_canonical.

(* non-vacuity: a five-step chain through several operation families stays inside the invariant *)
Example C07_example_chain :
  let regs := [VObj [([97], VNum (NUInt 1)); ([98], VNull)]; VArr [VStr [120]; VStr [120]; VNull]] in
  forallb wf_shape (run regs [OConcat 0%nat 0%nat; OStripNulls 0%nat; ODistinct 1%nat; OObjectInsert 2%nat [99] 4%nat true; OBuildObject [[107]; [107]] [5%nat; 3%nat]]) = true
  /\ length (run regs [OConcat 0%nat 0%nat; OStripNulls 0%nat; ODistinct 1%nat; OObjectInsert 2%nat [99] 4%nat true; OBuildObject [[107]; [107]] [5%nat; 3%nat]]) = 7%nat.
Proof. vm_compute. split; reflexivity. Qed.
Print Assumptions C07_example_chain.

(* ---- the same invariant for the operation language extended with the key-path operations and object_keys
   (get_by_keypath, delete_by_keypath at any depth, object_keys): every document reachable by any sequence stays
   well-shaped, hence canonical *)
From JB Require Import TreeWf2.
Theorem C07_chains_with_keypaths_stay_wellformed : forall ops regs, Inv regs -> Inv (run2 regs ops).
Proof. exact chain2_inv. Qed.
Print Assumptions C07_chains_with_keypaths_stay_wellformed.
