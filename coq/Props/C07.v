(* C07 — any chain of operations keeps documents canonical and equal to the tree result. *)
From Coq Require Import List NArith ZArith Bool.
Import ListNotations.
From JB Require Import Constants Bytes Num Value Codec TreeOps SetOps RoundtripProofs TreeWf.
Open Scope N_scope.

(* invariant by induction over operation lists: starting from well-shaped documents (keys strictly sorted and
   unique, strings UTF-8, numbers in range), every document reachable by any finite sequence of operations of
   the operation language `op` (concat, delete by name/index, array insert, object insert/delete/pick,
   strip_nulls, build array/object, get by index/name, distinct/intersection/except, re-encode) is well-shaped *)
Theorem C07_chain_invariant : forall ops regs, Inv regs -> Inv (run regs ops).
Proof. exact chain_inv. Qed.
Print Assumptions C07_chain_invariant.

Theorem C07_one_step : forall regs o, Inv regs -> Inv (step regs o).
Proof. exact step_inv. Qed.
Print Assumptions C07_one_step.

(* a well-shaped document within the size bounds is canonical: its encoding decodes to it and re-encodes to the
   identical bytes (nothing trails: the decoder consumes the encoding exactly, by the round trip through
   parse_jsonb on `enc v ++ []`) *)
Theorem C07_wellshaped_is_canonical : forall v, wf_shape v = true -> wf_size v = true ->
  parse_jsonb (enc v) = Ok (normalise v) /\ enc (normalise v) = enc v.
Proof. exact canonical_of_wf. Qed.
Print Assumptions C07_wellshaped_is_canonical.

(* non-vacuity: a five-step chain through several operation families stays inside the invariant *)
Example C07_example_chain :
  let regs := [VObj [([97], VNum (NUInt 1)); ([98], VNull)]; VArr [VStr [120]; VStr [120]; VNull]] in
  forallb wf_shape (run regs [OConcat 0%nat 0%nat; OStripNulls 0%nat; ODistinct 1%nat; OObjectInsert 2%nat [99] 4%nat true; OBuildObject [[107]; [107]] [5%nat; 3%nat]]) = true
  /\ length (run regs [OConcat 0%nat 0%nat; OStripNulls 0%nat; ODistinct 1%nat; OObjectInsert 2%nat [99] 4%nat true; OBuildObject [[107]; [107]] [5%nat; 3%nat]]) = 7%nat.
Proof. vm_compute. split; reflexivity. Qed.
Print Assumptions C07_example_chain.

(* ---- the same invariant for the operation language extended with the key-path operations and object_keys
   (get_by_keypath, delete_by_keypath at any depth, object_keys): every document reachable by any sequence stays
   well-shaped, hence canonical *)
From JB Require Import TreeWf2.
Theorem C07_chains_with_keypaths_stay_wellformed : forall ops regs, Inv regs -> Inv (run2 regs ops).
Proof. exact chain2_inv. Qed.
Print Assumptions C07_chains_with_keypaths_stay_wellformed.

(* ---- BEGIN byte chains: the library threads byte buffers, not trees.  ChainWalk.v runs the SAME operation language
   (`op` of TreeWf.v, `op2` of TreeWf2.v, plus the JSONPath selections: `op3`) over BYTE registers: every step calls the
   offset-faithful walker model `*_w` of the library function on the register bytes (concat_w, delete_by_name_w,
   delete_by_index_w, array_insert_w, object_insert_w, object_delete_w, object_pick_w, strip_nulls_w, build_array_w,
   build_object_w, get_by_index_w, get_by_name_w, array_distinct_w, array_intersection_w, array_except_w,
   from_slice + write_to_vec, get_by_keypath_w, delete_by_keypath_w, object_keys_w, select_w in every mode,
   get_by_path / get_by_path_first / get_by_path_array) with the caller's output buffer, and cuts what the call leaves
   behind into documents the way a caller does (after the prefix; at the offsets for a selection, which can yield
   several documents or none).  Err / None / Panic append nothing, as `step` does on trees.
   `sizes_ok regs ops` is a hypothesis on the TREE run only: every register it ever produces is within the format's
   bounds (wf_size: payloads < 2^28 bytes, counts < 2^29; top_ok: top-level count < 2^24, the is_jsonb sniffing bound).
   A chain can grow documents past them (concat of huge arrays): those are the recorded payload / count findings. *)
From JB Require Import Path PathSem DispatchProofs ChainWalk ChainWalkProofs.

(* at every step of any chain, the byte registers are the encodings of the tree registers of the same chain *)
Theorem C07_byte_chains_equal_tree_chains : forall ops regs_t, Inv regs_t -> sizes_ok regs_t ops ->
  run_b (map enc regs_t) ops = map enc (run3 regs_t ops).
Proof. exact run_b_enc. Qed.
Print Assumptions C07_byte_chains_equal_tree_chains.

(* the same for the register file after any prefix of the chain (every intermediate state) *)
Theorem C07_byte_chains_equal_tree_chains_at_every_step : forall ops1 ops2 regs_t, Inv regs_t -> sizes_ok regs_t (ops1 ++ ops2) ->
  run_b (map enc regs_t) ops1 = map enc (run3 regs_t ops1).
Proof. exact run_b_enc_every_step. Qed.
Print Assumptions C07_byte_chains_equal_tree_chains_at_every_step.

(* in the vocabulary of TreeWf.v and TreeWf2.v: `run` / `run2` are `run3` on the embedded operations *)
Theorem C07_byte_chains_equal_tree_chains_base : forall ops regs_t, Inv regs_t -> sizes_ok regs_t (map lift1 ops) ->
  run_b (map enc regs_t) (map lift1 ops) = map enc (run regs_t ops).
Proof. exact run_b_enc1. Qed.
Print Assumptions C07_byte_chains_equal_tree_chains_base.
Theorem C07_byte_chains_equal_tree_chains_keypaths : forall ops regs_t, Inv regs_t -> sizes_ok regs_t (map lift2 ops) ->
  run_b (map enc regs_t) (map lift2 ops) = map enc (run2 regs_t ops).
Proof. exact run_b_enc2. Qed.
Print Assumptions C07_byte_chains_equal_tree_chains_keypaths.

(* whatever the output buffer holds before each call (C17: the functions append): same registers *)
Theorem C07_byte_chains_any_output_buffer : forall pre ops regs_t, Inv regs_t -> sizes_ok regs_t ops ->
  run_bp pre (map enc regs_t) ops = map enc (run3 regs_t ops).
Proof. exact run_bp_enc. Qed.
Print Assumptions C07_byte_chains_any_output_buffer.
(* and the buffer after one call of a chain is the prefix followed by the encoding of the tree result (editors) /
   by the encodings of the selected documents delimited by the offsets (selections); an editor never panics and an
   accessor neither errs nor panics *)
Theorem C07_chain_calls_append : forall pre regs o, Inv regs -> Forall size_ok regs -> Forall size_ok (step_docs3 regs o) ->
  match call_b pre (map enc regs) o with
  | OutBuf (Ok buf) => exists d, step_docs3 regs o = [d] /\ buf = pre ++ enc d
  | OutSel (Ok (buf, offs)) => exists tail, buf = pre ++ tail /\ cut buf (lenN pre) offs = map enc (step_docs3 regs o)
  | OutBuf Panic | OutOwned (Err _) | OutOwned Panic => False
  | _ => True
  end.
Proof. exact chain_call_appends. Qed.
Print Assumptions C07_chain_calls_append.

(* the tree invariant for the extended language *)
Theorem C07_chains_with_selections_stay_wellformed : forall ops regs, Inv regs -> Inv (run3 regs ops).
Proof. exact chain3_inv. Qed.
Print Assumptions C07_chains_with_selections_stay_wellformed.

(* every register of a byte chain is canonical JSONB: it is the encoding of a value whose keys are strictly sorted and
   unique, strings UTF-8, numbers in range (wf_shape) and whose nested lengths are exact (enc is the layout with exact
   lengths; wf_size: they fit their fields); it decodes; the decoded value re-encodes to the identical bytes (so nothing
   trails the value); it is recognised as JSONB by its first byte *)
Theorem C07_byte_chain_results_are_canonical : forall ops regs_t, Inv regs_t -> sizes_ok regs_t ops ->
  Forall (fun b => exists v, b = enc v /\ wf_shape v = true /\ wf_size v = true /\ top_ok v /\
                     parse_jsonb b = Ok (normalise v) /\ to_vec (normalise v) = b /\ is_jsonb b = true)
         (run_b (map enc regs_t) ops).
Proof. exact run_b_canonical. Qed.
Print Assumptions C07_byte_chain_results_are_canonical.

(* byte equality of canonical documents is identity of the decoded values *)
Theorem C07_byte_equality_is_value_identity : forall a b, wfb a = true -> wfb b = true ->
  (enc a = enc b <-> normalise a = normalise b).
Proof. exact enc_identity. Qed.
Print Assumptions C07_byte_equality_is_value_identity.

(* non-vacuity, computed by the byte walkers: an 11-step chain through concat, strip_nulls, object_insert,
   get_by_keypath, array_distinct, build_object (unsorted keys), select in mode All (two documents), get_by_path_first,
   re-encode, delete_by_keypath, a predicate path (no document), each result feeding later steps *)
Definition c07_regs : list value :=
  [VObj [([97], VNum (NUInt 1)); ([98], VNull); ([99], VArr [VStr [120]; VStr [120]; VNull; VObj [([107], VNull)]])];
   VArr [VStr [120]; VNum (NInt (-3)%Z); VStr [120]]].
Definition c07_ops : list op3 :=
  [lift1 (OConcat 0%nat 0%nat);                                       (* 2: object ++ itself *)
   lift1 (OStripNulls 2%nat);                                         (* 3: b goes, the nested k goes *)
   lift1 (OObjectInsert 3%nat [100] 1%nat true);                      (* 4: d := register 1 *)
   lift2 (OGetByKeypath 4%nat [KName [99]]);                          (* 5: the array under c *)
   lift1 (ODistinct 5%nat);                                           (* 6 *)
   lift1 (OBuildObject [[122]; [109]] [6%nat; 4%nat]);                (* 7: {"m": reg 4, "z": reg 6} *)
   OSelect 7%nat [PRoot; PDotWild] MAll;                              (* 8, 9: both members *)
   OGetByPath 8%nat [PRoot; PDotField [100]; PIndices [AIndex (ILast 0)]] MFirst;   (* 10: last element of d *)
   lift1 (OReencode 9%nat);                                           (* 11 *)
   lift2 (ODeleteByKeypath 7%nat [KName [109]; KName [99]; KIndex (-1)%Z]);  (* 12 *)
   OSelect 7%nat [PPredicate (EExists [PRoot; PDotField [122]])] MAll;  (* predicate: writes a boolean, no offset: no document *)
   lift1 (OGetByIndex 6%nat 7);                                       (* absent: nothing *)
   lift1 (OConcat 12%nat 10%nat)].                                    (* 13: object ++ string *)
Example C07_byte_chain_example :
  run_b (map enc c07_regs) c07_ops = map enc (run3 c07_regs c07_ops) /\
  length (run_b (map enc c07_regs) c07_ops) = 14%nat /\
  nth 10 (run_b (map enc c07_regs) c07_ops) [] = enc (VStr [120]) /\
  nth 13 (run_b (map enc c07_regs) c07_ops) [] =
    enc (VArr [VObj [([109], VObj [([97], VNum (NUInt 1)); ([99], VArr [VStr [120]; VStr [120]; VNull]);
                                    ([100], VArr [VStr [120]; VNum (NInt (-3)%Z); VStr [120]])]);
                     ([122], VArr [VStr [120]; VNull; VObj []])];
               VStr [120]]) /\
  (* a non-empty output buffer: the same registers *)
  run_bp [1; 2; 3] (map enc c07_regs) c07_ops = run_b (map enc c07_regs) c07_ops.
Proof. vm_compute. repeat split; reflexivity. Qed.
Print Assumptions C07_byte_chain_example.
(* the hypotheses of the theorems hold for this chain *)
Example C07_byte_chain_example_hypotheses : Inv c07_regs /\ sizes_ok c07_regs c07_ops.
Proof. split; [apply inv_dec|apply sizes_ok_dec]; vm_compute; reflexivity. Qed.
Print Assumptions C07_byte_chain_example_hypotheses.
(* ---- END byte chains *)

(* ---- BEGIN sizes from the inputs: the hypothesis `sizes_ok regs ops` of the byte-chain theorems above speaks about the
   registers the TREE run produces.  ChainSize.v replaces it by a condition a caller can evaluate BEFORE running anything:
       chain_budget regs ops < 2^26
   where `chain_budget` folds, over the operation list, a per-operation bound `op_bound o M` on the encoded size of the
   documents the operation can add when every register's encoding is at most M bytes, starting from the largest encoding
   among the initial registers (at least 8, the null document an absent register reads as):
       concat / array_insert: 2M + 16        object_insert k: 2M + |k| + 8        build_array rs: 4 + |rs| (4 + M)
       build_object ks: 4 + sum over ks of (8 + |k| + M)        distinct / intersection / except: M + 8
       select / get_by_path with path ps (any mode): 4 + path_fan ps * (4 + M), path_fan = product of the lengths of the
       index lists `[i, j, k to l]` of the path (an index list can repeat children, once per entry)
       every other operation (deletes, picks, strip_nulls, accessors, key paths, object_keys, re-encode): M.
   The whole operation language `op3` is covered: nothing is left out. *)
From JB Require Import ChainSize.

Theorem C07_sizes_follow_from_input_sizes : forall regs ops, Inv regs -> chain_budget regs ops < 67108864 -> sizes_ok regs ops.
Proof. exact sizes_ok_from_budget. Qed.
Print Assumptions C07_sizes_follow_from_input_sizes.

Theorem C07_sizes_follow_from_input_sizes_wfb : forall regs ops, Forall (fun v => wfb v = true) regs ->
  chain_budget regs ops < 67108864 -> sizes_ok regs ops.
Proof. exact sizes_ok_from_budget_wfb. Qed.
Print Assumptions C07_sizes_follow_from_input_sizes_wfb.

(* the byte-chain theorems with hypotheses on the inputs only *)
Theorem C07_bytes_chain_from_input_sizes : forall ops regs_t, Inv regs_t -> chain_budget regs_t ops < 67108864 ->
  run_b (map enc regs_t) ops = map enc (run3 regs_t ops).
Proof. exact run_b_enc_from_input_sizes. Qed.
Print Assumptions C07_bytes_chain_from_input_sizes.

Theorem C07_bytes_chain_any_output_buffer_from_input_sizes : forall pre ops regs_t, Inv regs_t -> chain_budget regs_t ops < 67108864 ->
  run_bp pre (map enc regs_t) ops = map enc (run3 regs_t ops).
Proof. exact run_bp_enc_from_input_sizes. Qed.
Print Assumptions C07_bytes_chain_any_output_buffer_from_input_sizes.

Theorem C07_bytes_chain_at_every_step_from_input_sizes : forall ops1 ops2 regs_t, Inv regs_t ->
  chain_budget regs_t (ops1 ++ ops2) < 67108864 -> run_b (map enc regs_t) ops1 = map enc (run3 regs_t ops1).
Proof. exact run_b_enc_every_step_from_input_sizes. Qed.
Print Assumptions C07_bytes_chain_at_every_step_from_input_sizes.
Theorem C07_bytes_chain_base_from_input_sizes : forall ops regs_t, Inv regs_t -> chain_budget regs_t (map lift1 ops) < 67108864 ->
  run_b (map enc regs_t) (map lift1 ops) = map enc (run regs_t ops).
Proof. exact run_b_enc1_from_input_sizes. Qed.
Print Assumptions C07_bytes_chain_base_from_input_sizes.
Theorem C07_bytes_chain_keypaths_from_input_sizes : forall ops regs_t, Inv regs_t -> chain_budget regs_t (map lift2 ops) < 67108864 ->
  run_b (map enc regs_t) (map lift2 ops) = map enc (run2 regs_t ops).
Proof. exact run_b_enc2_from_input_sizes. Qed.
Print Assumptions C07_bytes_chain_keypaths_from_input_sizes.

Theorem C07_bytes_chain_canonical_from_input_sizes : forall ops regs_t, Inv regs_t -> chain_budget regs_t ops < 67108864 ->
  Forall (fun b => exists v, b = enc v /\ wf_shape v = true /\ wf_size v = true /\ top_ok v /\
                     parse_jsonb b = Ok (normalise v) /\ to_vec (normalise v) = b /\ is_jsonb b = true)
         (run_b (map enc regs_t) ops).
Proof. exact run_b_canonical_from_input_sizes. Qed.
Print Assumptions C07_bytes_chain_canonical_from_input_sizes.

(* what the budget is made of: the definitions, pinned by computation on small instances *)
Example C07_budget_definition :
  max_sz [VNull; VArr [VStr [120]; VNull]] = 13 /\
  op_bound (lift1 (OConcat 0%nat 1%nat)) 100 = 216 /\
  op_bound (lift1 (OObjectInsert 0%nat [107; 107] 1%nat true)) 100 = 210 /\
  op_bound (lift1 (OBuildArray [0%nat; 0%nat; 1%nat])) 100 = 316 /\
  op_bound (lift1 (OBuildObject [[107]; [107; 107]] [0%nat; 1%nat])) 100 = 223 /\
  op_bound (lift1 (ODistinct 0%nat)) 100 = 108 /\
  op_bound (lift1 (OStripNulls 0%nat)) 100 = 100 /\
  op_bound (lift2 (ODeleteByKeypath 0%nat [KName [109]])) 100 = 100 /\
  op_bound (OSelect 0%nat [PRoot; PDotWild; PIndices [AIndex (IIndex 0); ASlice (IIndex 0) (ILast 0); AIndex (ILast 0)]] MArray) 100 = 316 /\
  chain_budget [VNull] [lift1 (OConcat 0%nat 0%nat); lift1 (OConcat 1%nat 1%nat)] = 80.
Proof. vm_compute. repeat split; reflexivity. Qed.
Print Assumptions C07_budget_definition.

(* non-vacuity: the 13-operation chain of C07_byte_chain_example meets the budget (computed from c07_regs and c07_ops
   alone), so its byte run equals its tree run by the theorem, not by running it *)
Example C07_budget_example : chain_budget c07_regs c07_ops = 1392 /\ chain_budget c07_regs c07_ops < 67108864.
Proof. vm_compute. split; reflexivity. Qed.
Print Assumptions C07_budget_example.
Example C07_bytes_chain_from_input_sizes_example : run_b (map enc c07_regs) c07_ops = map enc (run3 c07_regs c07_ops).
Proof. apply C07_bytes_chain_from_input_sizes; [apply inv_dec; vm_compute; reflexivity|vm_compute; reflexivity]. Qed.
Print Assumptions C07_bytes_chain_from_input_sizes_example.
(* ---- END sizes from the inputs *)
