(* C03 — rendering JSONB as text yields valid JSON that denotes the same document. *)
From Coq Require Import List NArith ZArith Bool.
Import ListNotations.
From JB Require Import Constants Bytes Num Value Order Render MiscProofs JsonText SerdeProofs OrderProofs TextRoundtrip.
Open Scope N_scope.

(* inside a string literal every control character, the quote and the backslash are escaped; every other byte is
   copied: so the literal contains no raw byte < 0x20, no bare quote, no bare backslash (RFC 8259 section 7).
   Finite domains, checked exhaustively against the table the translator read from escape_scalar_string. *)
Theorem C03_control_characters_escaped :
  forall b, In b (map N.of_nat (seq 0 32)) -> hd 0 (escape_byte b) = 92 /\ (1 < length (escape_byte b))%nat.
Proof. exact control_characters_escaped. Qed.
Print Assumptions C03_control_characters_escaped.

Theorem C03_quote_and_backslash_escaped : escape_byte 34 = [92; 34] /\ escape_byte 92 = [92; 92].
Proof. exact quote_backslash_escaped. Qed.
Print Assumptions C03_quote_and_backslash_escaped.

Theorem C03_other_bytes_copied :
  forall b, In b (map N.of_nat (seq 32 224)) -> b <> 34 -> b <> 92 -> escape_byte b = [b].
Proof. exact other_bytes_copied. Qed.
Print Assumptions C03_other_bytes_copied.

(* ---- the rendering denotes the document: the library's own (strict on this fragment) reader gives the value back,
   equal to the original under compare, and identical when the original stores its non-negative integers unsigned *)
Theorem C03_parse_of_rendering : forall pf v, wf_shape v = true -> no_float v = true ->
  parse_value (to_string_t pf v) = Ok (unsign v) /\ cmp_value (unsign v) v = Eq.
Proof. intros pf v Hw Hn. split; [exact (parse_render_roundtrip pf v Hw Hn)|exact (unsign_equal v)]. Qed.
Print Assumptions C03_parse_of_rendering.

(* the pretty rendering (two-space indentation, one member per line, ": " after keys) differs from the compact one only
   in whitespace the reader skips: both read back as the same document *)
Theorem C03_pretty_and_compact_denote_the_same : forall pf v, wf_shape v = true -> no_float v = true ->
  parse_value (to_pretty_string_t pf v) = Ok (unsign v) /\ parse_value (to_pretty_string_t pf v) = parse_value (to_string_t pf v).
Proof.
  intros pf v Hw Hn. split; [exact (parse_pretty_roundtrip pf v Hw Hn)|].
  rewrite (parse_pretty_roundtrip pf v Hw Hn), (parse_render_roundtrip pf v Hw Hn). reflexivity.
Qed.
Print Assumptions C03_pretty_and_compact_denote_the_same.

(* with floats: whenever the float printer's text for each float of the document is read back by the number lexer
   as that float (what ryu's shortest-round-trip output and a correctly rounding reader give; the printer is modelled,
   not verified, so this stays a hypothesis, stated per float actually occurring in the document), both renderings of
   the whole document read back as the document.  The hypothesis is satisfiable (float_reads_back_example). *)
Theorem C03_parse_of_rendering_with_floats : forall pf pretty ok, (forall b, ok b = true -> float_reads_back pf b) ->
  forall v, wf_shape v = true -> floats_ok ok v = true -> parse_value (render pf pretty 0 v) = Ok (unsign v).
Proof. exact parse_rendering_floats. Qed.
Print Assumptions C03_parse_of_rendering_with_floats.

(* ---- the byte walker: RenderWalk.v re-implements to_string / to_pretty_string / container_to_string /
   scalar_to_string / escape_scalar_string over the buffer with the code's own offsets (header word at `offset`, entry
   words from 4 + offset, payloads from 4 + offset + 4 * length, for objects the key ranges read first; a failed read
   is Err, an index out of bounds is Panic).  On the encoding of every well-formed value it neither fails nor panics
   and prints exactly the text the tree renderer gives for the decoded tree, so the theorems above apply to what
   the walker prints.  pf is the float printer (ryu), a parameter. *)
From JB Require Import Codec DispatchProofs RenderWalk RenderWalkProofs.

Theorem C03_byte_walker_renders_the_document : forall pf v, wfb v = true -> top_ok v ->
  to_string_w' pf (enc v) = Ok (to_string_t pf (normalise v)).
Proof. exact to_string_w_enc. Qed.
Print Assumptions C03_byte_walker_renders_the_document.

Theorem C03_byte_walker_renders_the_document_pretty : forall pf v, wfb v = true -> top_ok v ->
  to_pretty_string_w' pf (enc v) = Ok (to_pretty_string_t pf (normalise v)).
Proof. exact to_pretty_string_w_enc. Qed.
Print Assumptions C03_byte_walker_renders_the_document_pretty.

(* the walk itself (container_to_string(value, &mut 0, ..)), without the first-byte test of to_string: any nesting
   depth, any top-level count *)
Theorem C03_container_to_string_on_encodings : forall pf pretty v, wfb v = true ->
  render_w pf (enc v) pretty = Ok (render pf pretty 0 (normalise v)).
Proof. exact render_w_enc. Qed.
Print Assumptions C03_container_to_string_on_encodings.

(* escape_scalar_string(value, start, end) over the range a valid string occupies in any buffer: the quoted string with
   every byte escaped as the table says (from_utf8_lossy changes nothing in valid UTF-8) *)
Theorem C03_escape_range_of_a_valid_string : forall V A s B off, V = A ++ s ++ B -> off = lenN A -> Utf8.utf8_valid s = true ->
  escape_range_w V off (off + lenN s) = Ok (escape_string s).
Proof. exact escape_range_in. Qed.
Print Assumptions C03_escape_range_of_a_valid_string.

(* the loop of escape_scalar_string written with the code's own index expressions (value[i] for i in start..end,
   &value[last_start..i] before each escaped byte, &value[last_start..end] after the loop; each out of bounds = Panic) is,
   on EVERY buffer and EVERY range, the function the walker model uses (one slice of the range, then the pieces) *)
Theorem C03_escape_scalar_string_index_loop : forall V start stop, escape_range_lit V start stop = escape_range_w V start stop.
Proof. exact escape_range_lit_eq. Qed.
Print Assumptions C03_escape_scalar_string_index_loop.

(* the recursion fuel of the model (S (length V), for the element loops and for the nesting) is never the reason for
   an answer, whatever the buffer: every nested header lies at least 4 bytes after its parent's, every loop iteration
   reads an entry word 4 bytes further, and a read past the end ends the walk first (as it does in the code) *)
Theorem C03_byte_walker_fuel_never_runs_out : forall pf V pretty, render_w pf V pretty <> Err EFuel.
Proof. exact render_w_not_fuel. Qed.
Print Assumptions C03_byte_walker_fuel_never_runs_out.

(* on encodings the walker and the view-level model (decode, then render the tree) are the same function *)
Theorem C03_byte_walker_agrees_with_view_model : forall v, wfb v = true -> top_ok v ->
  to_string_w (enc v) = Dispatch.to_string_m (enc v) /\ to_pretty_string_w (enc v) = Dispatch.to_pretty_string_m (enc v).
Proof. intros v Hw Ht. split; [exact (to_string_w_m_enc v Hw Ht)|exact (to_pretty_string_w_m_enc v Hw Ht)]. Qed.
Print Assumptions C03_byte_walker_agrees_with_view_model.

(* a nested instance, computed by the walker on the bytes: an object in an array in an object, a key with a quote, a
   string with a line feed, a backslash, U+0001 and a two-byte character, a negative and an unsigned integer, null, true
   (the expected bytes spell the compact text, key k-quote escaped, string x \n y \\ \u0001 e-acute, then -5,7,null) *)
Definition c03_example : value :=
  VObj [([97], VArr [VObj [([107; 34], VStr [120; 10; 121; 92; 1; 195; 169])]; VNum (NInt (-5)%Z); VNum (NUInt 7); VNull]); ([98], VBool true)].
Example C03_byte_walker_example :
  wfb c03_example = true /\
  to_string_w (enc c03_example)
  = Ok [123; 34; 97; 34; 58; 91; 123; 34; 107; 92; 34; 34; 58; 34; 120; 92; 110; 121; 92; 92; 92; 117; 48; 48; 48; 49; 195; 169; 34; 125;
        44; 45; 53; 44; 55; 44; 110; 117; 108; 108; 93; 44; 34; 98; 34; 58; 116; 114; 117; 101; 125] /\
  to_pretty_string_w (enc c03_example)
  = Ok [123; 10; 32; 32; 34; 97; 34; 58; 32; 91; 10; 32; 32; 32; 32; 123; 10; 32; 32; 32; 32; 32; 32; 34; 107; 92; 34; 34; 58; 32; 34; 120;
        92; 110; 121; 92; 92; 92; 117; 48; 48; 48; 49; 195; 169; 34; 10; 32; 32; 32; 32; 125; 44; 10; 32; 32; 32; 32; 45; 53; 44; 10; 32;
        32; 32; 32; 55; 44; 10; 32; 32; 32; 32; 110; 117; 108; 108; 10; 32; 32; 93; 44; 10; 32; 32; 34; 98; 34; 58; 32; 116; 114; 117; 101; 10;
        125].
Proof. vm_compute. repeat split. Qed.
Print Assumptions C03_byte_walker_example.
(* on a buffer that is not an encoding the walker answers as the code does: a failed read gives the text null, an index
   past the end panics (here: the encoding above cut after 3 bytes, and after 20 bytes, inside the key entries) *)
Example C03_byte_walker_on_truncated_buffers :
  to_string_w (firstn 3 (enc c03_example)) = Ok [110; 117; 108; 108] /\ to_string_w (firstn 20 (enc c03_example)) = Panic.
Proof. vm_compute. split; reflexivity. Qed.
Print Assumptions C03_byte_walker_on_truncated_buffers.

(* ---- RFC 8259 validity, judged by a declarative grammar instead of a sample-based external parser.
   JsonGrammar.rfc_text is the RFC 8259 grammar with denotations, written from the RFC with no relaxation (white space =
   space/tab/LF/CR only; no raw control character, bare quote or bare backslash inside a string; only the RFC's escapes;
   the text between the quotes valid UTF-8; number = [minus] int [frac] [exp]); JsonGrammarProofs.rfc_complete shows the
   library's reader accepts every such text with that denotation.  The float printer pf (ryu) is a parameter:
   rfc_float_text pf b  :=  jnumber (pf b) (NFloat b), "pf b is an RFC number token denoting b", asked only of the floats
   that occur in the document (satisfiable: RenderRfc.rfc_float_text_example; a NaN or an infinity has no such text with
   ryu's spellings, which is why the property excludes them). *)
From JB Require Import JsonGrammar JsonGrammarProofs RenderRfc.

Theorem C03_renderings_are_rfc8259_texts_of_the_document : forall pf pretty v,
  wf_shape v = true -> finite_numbers v = true -> (forall b, In b (floats_of v) -> rfc_float_text pf b) ->
  rfc_text (render pf pretty 0 v) (unsign v) /\ cmp_value (unsign v) v = Eq.
Proof. exact rendering_is_rfc8259. Qed.
Print Assumptions C03_renderings_are_rfc8259_texts_of_the_document.

(* what the byte walkers to_string / to_pretty_string print for the encoding of a valid document: two RFC 8259 texts
   of one and the same document (`denoted v` = unsign (normalise v)), which equals the stored one under compare; and the
   library's reader gives that document back from either *)
Theorem C03_byte_walker_prints_rfc8259 : forall pf v, wfb v = true -> top_ok v -> finite_numbers v = true ->
  (forall b, In b (floats_of v) -> rfc_float_text pf b) ->
  exists tc tp,
    to_string_w' pf (enc v) = Ok tc /\ to_pretty_string_w' pf (enc v) = Ok tp /\
    rfc_text tc (denoted v) /\ rfc_text tp (denoted v) /\ cmp_value (denoted v) v = Eq /\
    parse_value tc = Ok (denoted v) /\ parse_value tp = Ok (denoted v).
Proof. exact renderings_rfc. Qed.
Print Assumptions C03_byte_walker_prints_rfc8259.

(* "the pretty rendering differs from the compact one only in insignificant whitespace": removing the white space that
   stands outside string literals from the pretty text gives the compact text, byte for byte *)
Theorem C03_pretty_minus_whitespace_is_compact : forall pf v, wf_shape v = true ->
  (forall b, In b (floats_of v) -> rfc_float_text pf b) ->
  strip_ws_outside_strings (to_pretty_string_t pf v) = to_string_t pf v.
Proof. exact pretty_strip_is_compact. Qed.
Print Assumptions C03_pretty_minus_whitespace_is_compact.

Theorem C03_byte_walker_pretty_minus_whitespace_is_compact : forall pf v, wfb v = true -> top_ok v -> finite_numbers v = true ->
  (forall b, In b (floats_of v) -> rfc_float_text pf b) ->
  exists tc tp, to_string_w' pf (enc v) = Ok tc /\ to_pretty_string_w' pf (enc v) = Ok tp /\ strip_ws_outside_strings tp = tc.
Proof. exact walker_pretty_strip_is_compact. Qed.
Print Assumptions C03_byte_walker_pretty_minus_whitespace_is_compact.

(* an instance with a float (1.5, printed "1.5"), an escaped line feed and quote, a negative integer, an empty object:
   every hypothesis holds, and the pretty text is the expected one (note the blank line inside the empty object) *)
Definition c03_rfc_example : value :=
  VObj [([97], VArr [VNum (NFloat 4609434218613702656); VStr [10; 34]; VNum (NInt (-5)%Z)]); ([98], VObj [])].
Definition c03_pf : N -> list N := fun _ => [49; 46; 53].
Example C03_rfc_example :
  wfb c03_rfc_example = true /\ top_ok c03_rfc_example /\ finite_numbers c03_rfc_example = true /\
  (forall b, In b (floats_of c03_rfc_example) -> rfc_float_text c03_pf b) /\
  to_pretty_string_w' c03_pf (enc c03_rfc_example)
  = Ok [123; 10; 32; 32; 34; 97; 34; 58; 32; 91; 10; 32; 32; 32; 32; 49; 46; 53; 44; 10; 32; 32; 32; 32; 34; 92; 110; 92; 34; 34; 44; 10;
        32; 32; 32; 32; 45; 53; 10; 32; 32; 93; 44; 10; 32; 32; 34; 98; 34; 58; 32; 123; 10; 10; 32; 32; 125; 10; 125] /\
  rfc_text (to_pretty_string_t c03_pf c03_rfc_example) (unsign c03_rfc_example).
Proof.
  assert (F : forall b, In b (floats_of c03_rfc_example) -> rfc_float_text c03_pf b).
  { intros b Hb. cbn in Hb. destruct Hb as [<-|[]]. exact rfc_float_text_example. }
  split; [vm_compute; reflexivity|]. split; [vm_compute; reflexivity|]. split; [vm_compute; reflexivity|].
  split; [exact F|]. split; [vm_compute; reflexivity|].
  apply render_rfc_text; [vm_compute; reflexivity|exact F].
Qed.
Print Assumptions C03_rfc_example.

(* ---- "re-encoding to the identical JSONB bytes whenever the original stores its non-negative integers unsigned"
   (Extra03.v).  unsigned_ints v: no Int64 number >= 0 anywhere in v.  The value the library's reader makes of either
   rendering, encoded with to_vec, is `enc v` byte for byte: at tree level (the reader's value IS v) and for what the byte
   walkers to_string / to_pretty_string print for `enc v`.  The hypothesis is exact: the reader's value is v iff
   unsigned_ints v (otherwise it is `unsign v`, equal under compare, with different bytes: Extra03.reencode_example). *)
From JB Require Import CodecProofs Extra03.
Theorem C03_unsigned_integers_are_read_back_as_stored : forall v, unsigned_ints v = true <-> unsign v = v.
Proof. intros v. split; [apply unsigned_ints_unsign|apply unsign_fix_unsigned_ints]. Qed.
Print Assumptions C03_unsigned_integers_are_read_back_as_stored.

Theorem C03_reencoding_the_parsed_rendering_gives_identical_bytes :
  (forall pf pretty v d, wf_shape v = true -> wf_size v = true -> (forall b, In b (floats_of v) -> rfc_float_text pf b) ->
     unsigned_ints v = true ->
     parse_value (render pf pretty 0 v) = Ok d -> d = v /\ to_vec d = enc v) /\
  (forall pf v, wfb v = true -> top_ok v -> finite_numbers v = true ->
     (forall b, In b (floats_of v) -> rfc_float_text pf b) -> unsigned_ints v = true ->
     exists tc tp dc dp,
       to_string_w' pf (enc v) = Ok tc /\ to_pretty_string_w' pf (enc v) = Ok tp /\
       parse_value tc = Ok dc /\ parse_value tp = Ok dp /\ to_vec dc = enc v /\ to_vec dp = enc v).
Proof. split; [exact reencode_parsed_rendering|exact reencode_walker_rendering]. Qed.
Print Assumptions C03_reencoding_the_parsed_rendering_gives_identical_bytes.

Theorem C03_reencoding_without_the_hypothesis : forall pf pretty v d,
  wf_shape v = true -> (forall b, In b (floats_of v) -> rfc_float_text pf b) ->
  parse_value (render pf pretty 0 v) = Ok d -> d = unsign v /\ cmp_value d v = Eq /\ (d = v <-> unsigned_ints v = true).
Proof. exact reencode_parsed_rendering_any. Qed.
Print Assumptions C03_reencoding_without_the_hypothesis.

(* an argument that is not JSONB (first byte none of 0x80 / 0x40 / 0x20) is not rendered: the empty input gives "null",
   any other goes through String::from_utf8_lossy (each ill-formed UTF-8 sequence becomes U+FFFD), which changes nothing in
   valid UTF-8 *)
From JB Require TextBinProofs.
Theorem C03_argument_that_is_not_jsonb : forall pf pretty t, is_jsonb t = false ->
  to_text_w pf pretty t = Ok (match t with [] => NULL_TEXT | _ => Utf8.lossy t end).
Proof. exact TextBinProofs.to_text_not_jsonb. Qed.
Print Assumptions C03_argument_that_is_not_jsonb.
Theorem C03_lossy_keeps_valid_utf8 : forall s, Utf8.utf8_valid s = true -> Utf8.lossy s = s.
Proof. exact lossy_valid. Qed.
Print Assumptions C03_lossy_keeps_valid_utf8.
Example C03_lossy_example : to_string_w [34; 255; 34] = Ok [34; 239; 191; 189; 34].
Proof. vm_compute. reflexivity. Qed.

(* M6 (second review): the fuel the model passes is never what decides an answer, on ARBITRARY inputs -- also for the loops
   whose exhaustion is an ordinary value (None, Ok None, Ok buf, PErr, the input itself), about which `<> Err EFuel` says
   nothing: any fuel above the one the model passes gives the same answer (FuelIndep.v) *)
From JB Require FuelIndep.
Theorem C03_fuel_is_never_decisive :
  (forall pf V pretty k, (length V < k)%nat -> RenderWalk.container_str_w V pretty (RenderWalk.scalar_str_w pf V pretty k) 0 0 = RenderWalk.render_w pf V pretty) /\
  (forall pf V pretty k ind j v, (length V < k)%nat -> j + 4 <= v -> RenderWalk.scalar_str_w pf V pretty k ind j v = RenderWalk.scalar_str_w pf V pretty (S (length V)) ind j v) /\
  (forall (V : list N) pretty sc k ind i len j v, (forall ind j v r, sc ind j v = Ok r -> j + 4 <= lenN V) -> j + 4 * (len - i) <= v -> (length V < k)%nat -> RenderWalk.arr_str_loop pretty sc k ind i len j v = RenderWalk.arr_str_loop pretty sc (S (length V)) ind i len j v) /\
  (forall k V i stop last, (length V < k)%nat -> RenderWalk.esc_index_loop k V i stop last = RenderWalk.esc_index_loop (S (length V)) V i stop last) /\
  (forall k bs i len j, (length bs < k)%nat -> Walk.rd_words k bs i len j = Walk.rd_words (S (length bs)) bs i len j) /\
  (forall k n, (40 <= k)%nat -> n < two64 -> Num.digits_fuel k n [] = Num.dec_digits n).
Proof. split; [exact FuelIndep.render_w_any_fuel|split; [exact FuelIndep.scalar_str_w_any_fuel|split; [exact FuelIndep.arr_str_loop_any_fuel|split; [exact FuelIndep.esc_index_loop_any_fuel|split; [exact FuelIndep.rd_words_any_fuel|exact FuelIndep.dec_digits_any_fuel_u64]]]]]. Qed.
Print Assumptions C03_fuel_is_never_decisive.

(* ---- the crate's other renderer, `impl Display for Value` (value.rs; model ValueApi.v, all statements in Props/ValueApi.v):
   on values whose strings and keys need no escape that the two spell differently (display_safe: see ValueApi.v) it prints
   exactly what to_string prints for the encoding.  Outside that class Display is not a JSON printer (a key is written raw:
   ValueApi_display_differs); no listed property speaks about it. *)
From JB Require ValueApi ValueApiProofs.
Theorem C03_display_prints_what_to_string_prints : forall pf v, wfb v = true -> top_ok v -> ValueApi.display_safe v = true ->
  to_string_w' pf (enc v) = Ok (ValueApi.display pf (normalise v)) /\ ValueApi.display pf v = to_string_t pf v.
Proof.
  intros pf v Hw Ht Hs. split; [exact (ValueApiProofs.display_is_to_string_of_the_encoding pf v Hw Ht Hs)|
                                exact (ValueApiProofs.display_agrees_with_to_string pf v Hs)].
Qed.
Print Assumptions C03_display_prints_what_to_string_prints.
