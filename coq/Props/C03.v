(* C03 — rendering JSONB as text yields valid JSON that denotes the same document. *)
From Coq Require Import List NArith ZArith Bool.
Import ListNotations.
From JB Require Import Constants Bytes Num Value Order Render MiscProofs JsonText SerdeProofs OrderProofs TextRoundtrip.
Open Scope N_scope.

(* inside a string literal every control character, the quote and the backslash are escaped; every other byte is
   copied: so the literal contains no raw byte < 0x20, no bare quote, no bare backslash (RFC 8259 section 7).
   Finite domains, checked exhaustively against the table the translator read from escape_scalar_string. *)
Theorem C03_control_characters_escaped :
  forall b, In b (map N.of_nat (seq 0 32)) -> hd 0 (escape_byte b) = 92 /\ (1 < length (escape_byte b))%nat.
Proof. exact control_characters_escaped. Qed.
Print Assumptions C03_control_characters_escaped.

Theorem C03_quote_and_backslash_escaped : escape_byte 34 = [92; 34] /\ escape_byte 92 = [92; 92].
Proof. exact quote_backslash_escaped. Qed.
Print Assumptions C03_quote_and_backslash_escaped.

Theorem C03_other_bytes_copied :
  forall b, In b (map N.of_nat (seq 32 224)) -> b <> 34 -> b <> 92 -> escape_byte b = [b].
Proof. exact other_bytes_copied. Qed.
Print Assumptions C03_other_bytes_copied.

(* ---- the rendering denotes the document: the library's own (strict on this fragment) reader gives the value back,
   equal to the original under compare, and identical when the original stores its non-negative integers unsigned *)
Theorem C03_parse_of_rendering : forall pf v, wf_shape v = true -> no_float v = true ->
  parse_value (to_string_t pf v) = Ok (unsign v) /\ cmp_value (unsign v) v = Eq.
Proof. intros pf v Hw Hn. split; [exact (parse_render_roundtrip pf v Hw Hn)|exact (unsign_equal v)]. Qed.
Print Assumptions C03_parse_of_rendering.

(* the pretty rendering (two-space indentation, one member per line, ": " after keys) differs from the compact one only
   in whitespace the reader skips: both read back as the same document *)
Theorem C03_pretty_and_compact_denote_the_same : forall pf v, wf_shape v = true -> no_float v = true ->
  parse_value (to_pretty_string_t pf v) = Ok (unsign v) /\ parse_value (to_pretty_string_t pf v) = parse_value (to_string_t pf v).
Proof.
  intros pf v Hw Hn. split; [exact (parse_pretty_roundtrip pf v Hw Hn)|].
  rewrite (parse_pretty_roundtrip pf v Hw Hn), (parse_render_roundtrip pf v Hw Hn). reflexivity.
Qed.
Print Assumptions C03_pretty_and_compact_denote_the_same.

(* with floats: whenever the float printer's text for each float of the document is read back by the number lexer
   as that float (what ryu's shortest-round-trip output and a correctly rounding reader give; the printer is modelled,
   not verified, so this stays a hypothesis, stated per float actually occurring in the document), both renderings of
   the whole document read back as the document.  The hypothesis is satisfiable (float_reads_back_example). *)
Theorem C03_parse_of_rendering_with_floats : forall pf pretty ok, (forall b, ok b = true -> float_reads_back pf b) ->
  forall v, wf_shape v = true -> floats_ok ok v = true -> parse_value (render pf pretty 0 v) = Ok (unsign v).
Proof. exact parse_rendering_floats. Qed.
Print Assumptions C03_parse_of_rendering_with_floats.
