(* C05 — read-only accessors on JSONB bytes agree with the document they encode.
   v is any well-formed value whose top-level count is below 2^24 (the first-byte test); d is the decoded tree,
   value-equal to v and with the identical encoding (C01). *)
(* NOTE on the `*_m` statements in this file: `*_m` (Dispatch.v) is the view-level composition "decode, apply the tree
   function, encode"; for JSONB input it is a specification device and is no longer what the correspondence check runs against
   the crate.  `*_m` is still the text branch of every `*_w` (`f_w bs = if is_jsonb bs then f_b bs else f_m bs`: on JSON text the
   Rust parses and works on the tree, and so does the model), so through `*_w` the correspondence does run `*_m` on text arguments.
   The statements tied to the Rust code are the ones about the offset-faithful walkers `*_w` below, which relate `*_w` on
   encodings directly to the same tree functions `*_t`. *)
From Coq Require Import List NArith ZArith Bool.
Import ListNotations.
From JB Require Import Constants Bytes Num Value Codec TreeOps Order RoundtripProofs Dispatch DispatchProofs.
Open Scope N_scope.

Theorem C05_encoding_is_recognised : forall v, wfb v = true -> top_ok v -> doc_of (enc v) = Ok (normalise v).
Proof. exact doc_of_enc. Qed.
Print Assumptions C05_encoding_is_recognised.

Theorem C05_array_length : forall v, wfb v = true -> top_ok v -> array_length_m (enc v) = Ok (array_length_t (normalise v)).
Proof. exact array_length_on_enc. Qed.
Print Assumptions C05_array_length.

(* element by index; the sub-value handed back is the complete encoding of the element *)
Theorem C05_get_by_index : forall v, wfb v = true -> top_ok v -> forall i,
  get_by_index_m (enc v) i = Ok (option_map enc (get_by_index_t (normalise v) i)).
Proof. exact get_by_index_on_enc. Qed.
Print Assumptions C05_get_by_index.

Theorem C05_get_by_name : forall v, wfb v = true -> top_ok v -> forall name ic,
  get_by_name_m (enc v) name ic = Ok (option_map enc (get_by_name_t (normalise v) name ic)).
Proof. exact get_by_name_on_enc. Qed.
Print Assumptions C05_get_by_name.

Theorem C05_get_by_keypath : forall v, wfb v = true -> top_ok v -> forall ks,
  get_by_keypath_m (enc v) ks = Ok (option_map enc (get_by_keypath_t (normalise v) ks)).
Proof. exact get_by_keypath_on_enc. Qed.
Print Assumptions C05_get_by_keypath.

Theorem C05_object_keys : forall v, wfb v = true -> top_ok v ->
  object_keys_m (enc v) = Ok (option_map enc (object_keys_t (normalise v))).
Proof. exact object_keys_on_enc. Qed.
Print Assumptions C05_object_keys.

Theorem C05_object_each : forall v, wfb v = true -> top_ok v ->
  object_each_m (enc v) = Ok (option_map (map (fun kv => (fst kv, enc (snd kv)))) (object_each_t (normalise v))).
Proof. exact object_each_on_enc. Qed.
Print Assumptions C05_object_each.

Theorem C05_array_values : forall v, wfb v = true -> top_ok v ->
  array_values_m (enc v) = Ok (option_map (map enc) (array_values_t (normalise v))).
Proof. exact array_values_on_enc. Qed.
Print Assumptions C05_array_values.

Theorem C05_type_of : forall v, wfb v = true -> top_ok v -> type_of_m (enc v) = Ok (type_of_t (normalise v)).
Proof. exact type_of_on_enc. Qed.
Print Assumptions C05_type_of.

Theorem C05_as_number : forall v, wfb v = true -> top_ok v -> as_number_m (enc v) = Ok (as_number_t (normalise v)).
Proof. exact as_number_on_enc. Qed.
Print Assumptions C05_as_number.

Theorem C05_exists_all_keys : forall v, wfb v = true -> top_ok v -> forall ks,
  exists_all_keys_m (enc v) ks = Ok (exists_all_keys_t (normalise v) ks).
Proof. exact exists_all_keys_on_enc. Qed.
Print Assumptions C05_exists_all_keys.

Theorem C05_traverse_check_string : forall v, wfb v = true -> top_ok v -> forall needle,
  traverse_check_string_m (enc v) needle = Ok (traverse_check_string_t (normalise v) needle).
Proof. exact traverse_on_enc. Qed.
Print Assumptions C05_traverse_check_string.

(* ---- the byte walkers themselves (Walk.v: the offset arithmetic of get_jentry_by_index / get_jentry_by_name /
   extract_by_jentry and of the loops of object_keys, object_each, array_values, get_by_keypath, with a slice
   out of bounds modelled as a panic): on the encoding of any well-formed v every offset lands where it should,
   and the answer is the tree answer on v itself. *)
From JB Require Import Walk WalkProofs.

Theorem C05_bytes_array_length : forall v, wfb v = true -> top_ok v -> array_length_w (enc v) = Ok (array_length_t v).
Proof. exact array_length_w_enc. Qed.
Print Assumptions C05_bytes_array_length.

Theorem C05_bytes_get_by_index : forall v i, wfb v = true -> top_ok v ->
  get_by_index_w (enc v) i = Ok (option_map enc (get_by_index_t v i)).
Proof. exact get_by_index_w_enc. Qed.
Print Assumptions C05_bytes_get_by_index.

Theorem C05_bytes_get_by_name : forall v name ic, wfb v = true -> top_ok v ->
  get_by_name_w (enc v) name ic = Ok (option_map enc (get_by_name_t v name ic)).
Proof. exact get_by_name_w_enc. Qed.
Print Assumptions C05_bytes_get_by_name.

Theorem C05_bytes_get_by_keypath : forall v ks, wfb v = true -> top_ok v ->
  get_by_keypath_w (enc v) ks = Ok (option_map enc (get_by_keypath_t v ks)).
Proof. exact get_by_keypath_w_enc. Qed.
Print Assumptions C05_bytes_get_by_keypath.

Theorem C05_bytes_object_keys : forall v, wfb v = true -> top_ok v ->
  object_keys_w (enc v) = Ok (option_map enc (object_keys_t v)).
Proof. exact object_keys_w_enc. Qed.
Print Assumptions C05_bytes_object_keys.

Theorem C05_bytes_object_each : forall v, wfb v = true -> top_ok v ->
  object_each_w (enc v) = Ok (option_map (map (fun kv => (fst kv, enc (snd kv)))) (object_each_t v)).
Proof. exact object_each_w_enc. Qed.
Print Assumptions C05_bytes_object_each.

Theorem C05_bytes_array_values : forall v, wfb v = true -> top_ok v ->
  array_values_w (enc v) = Ok (option_map (map enc) (array_values_t v)).
Proof. exact array_values_w_enc. Qed.
Print Assumptions C05_bytes_array_values.

(* ---- the scalar accessors, the casts, type_of and traverse_check_string as byte readers (CastWalk.v): the header
   word at 0, the entry word at 4, the payload slice value[8 .. 8 + length] (out of bounds = panic), Number::decode on
   the slice, from_utf8_unchecked bytes, the to_* casts calling as_* in the code's order; traverse_check_string with
   its queue of container offsets, its entry loop and its payload slices.  On the encoding of any well-formed v each
   one returns the tree answer: no early return, no error, no panic. *)
From JB Require Import Decimal CastWalk CastWalkProofs.

Theorem C05_casts_read_the_document_w : forall v, wfb v = true -> top_ok v ->
  as_null_w (enc v) = Ok (match normalise v with VNull => true | _ => false end) /\
  as_bool_w (enc v) = Ok (as_bool_t (normalise v)) /\
  as_number_w (enc v) = Ok (as_number_t (normalise v)) /\
  as_i64_w (enc v) = Ok (as_i64_t (normalise v)) /\
  as_u64_w (enc v) = Ok (as_u64_t (normalise v)) /\
  as_f64_w (enc v) = Ok (as_f64_t (normalise v)) /\
  as_str_w (enc v) = Ok (as_str_t (normalise v)) /\
  is_array_w (enc v) = Ok (match normalise v with VArr _ => true | _ => false end) /\
  is_object_w (enc v) = Ok (match normalise v with VObj _ => true | _ => false end) /\
  to_bool_w (enc v) = match to_bool_t (normalise v) with Some b => Ok b | None => Err EOther end /\
  to_i64_w (enc v) = match to_i64_t (normalise v) with Some z => Ok z | None => Err EOther end /\
  to_u64_w (enc v) = match to_u64_t (normalise v) with Some n => Ok n | None => Err EOther end /\
  to_f64_w (enc v) = match to_f64_t (normalise v) with Some x => Ok x | None => Err EOther end /\
  to_str_w (enc v) = match to_str_t (normalise v) with Some s => Ok s | None => Err EOther end.
Proof.
  intros v Hwf Htop. repeat split.
  - exact (as_null_w_enc v Hwf Htop).
  - exact (as_bool_w_enc v Hwf Htop).
  - exact (as_number_w_enc v Hwf Htop).
  - exact (as_i64_w_enc v Hwf Htop).
  - exact (as_u64_w_enc v Hwf Htop).
  - exact (as_f64_w_enc v Hwf Htop).
  - exact (as_str_w_enc v Hwf Htop).
  - exact (is_array_w_enc v Hwf Htop).
  - exact (is_object_w_enc v Hwf Htop).
  - exact (to_bool_w_enc v Hwf Htop).
  - exact (to_i64_w_enc v Hwf Htop).
  - exact (to_u64_w_enc v Hwf Htop).
  - exact (to_f64_w_enc v Hwf Htop).
  - exact (to_str_w_enc v Hwf Htop).
Qed.
Print Assumptions C05_casts_read_the_document_w.

Theorem C05_type_of_w : forall v, wfb v = true -> top_ok v -> type_of_w (enc v) = Ok (type_of_t (normalise v)).
Proof. exact type_of_w_enc. Qed.
Print Assumptions C05_type_of_w.

(* any callback: the walker finds a string (key or value, at any depth) satisfying it exactly when the tree has one *)
Theorem C05_traverse_check_string_b : forall v f, wfb v = true ->
  traverse_check_string_b (enc v) f = Ok (traverse_check_string_t' v f).
Proof. exact traverse_check_string_b_enc. Qed.
Print Assumptions C05_traverse_check_string_b.

Theorem C05_traverse_check_string_w : forall v needle, wfb v = true -> top_ok v ->
  traverse_check_string_w (enc v) needle = Ok (traverse_check_string_t v needle).
Proof. exact traverse_check_string_w_enc. Qed.
Print Assumptions C05_traverse_check_string_w.

(* instances: numbers of every payload width through the casts *)
Example C05_cast_widths :
  map (fun n => as_i64_w (enc (VNum n)))
      [NUInt 0; NUInt 200; NInt (-129); NUInt 65535; NInt (-40000); NUInt 4294967296; NInt (-9223372036854775808);
       NUInt 18446744073709551615; NFloat 4609434218613702656]
  = [Ok (Some 0%Z); Ok (Some 200%Z); Ok (Some (-129)%Z); Ok (Some 65535%Z); Ok (Some (-40000)%Z); Ok (Some 4294967296%Z);
     Ok (Some (-9223372036854775808)%Z); Ok None; Ok None] /\
  map (fun n => lenN (enc (VNum n)))
      [NUInt 0; NUInt 200; NInt (-129); NUInt 65535; NInt (-40000); NUInt 4294967296; NInt (-9223372036854775808);
       NUInt 18446744073709551615; NFloat 4609434218613702656]
  = [9; 10; 11; 11; 13; 17; 17; 17; 17] /\
  as_u64_w (enc (VNum (NUInt 18446744073709551615))) = Ok (Some 18446744073709551615) /\
  as_f64_w (enc (VNum (NFloat 4609434218613702656))) = Ok (Some 4609434218613702656) /\
  to_i64_w (enc (VStr [45; 52; 50])) = Ok (-42)%Z /\
  to_i64_w (enc (VBool true)) = Ok 1%Z /\
  to_bool_w (enc (VStr [84; 82; 85; 69])) = Ok true /\
  to_str_w (enc (VNum (NInt (-129)))) = Ok [45; 49; 50; 57] /\
  to_u64_w (enc (VArr [])) = Err EOther /\
  type_of_w (enc (VObj [([97], VNull)])) = Ok 5 /\
  (* and off the encodings: a payload length that runs past the buffer is the panic of the index expression,
     a number payload Number::decode rejects is None, a short buffer is None / an error *)
  as_str_w [32; 0; 0; 0; 16; 0; 0; 5; 97] = Panic /\
  as_number_w [32; 0; 0; 0; 32; 0; 0; 2; 255; 255] = Ok None /\
  as_bool_w [32; 0; 0; 0; 48] = Ok None /\
  type_of_w [32; 0; 0; 0; 48] = Err EOther.
Proof. vm_compute. repeat split; reflexivity. Qed.
Print Assumptions C05_cast_widths.

(* a nested document: a string value two levels down, a key three levels down, misses, and the empty needle *)
Definition c05_doc : value :=
  VObj [([97], VArr [VNum (NUInt 1); VObj [([107], VStr [122; 122]); ([108], VArr [VObj [([100; 101; 101; 112], VNull)]])]; VStr []]);
        ([98], VNull)].
Example C05_traverse_example :
  wfb c05_doc = true /\
  traverse_check_string_w (enc c05_doc) [122] = Ok true /\
  traverse_check_string_w (enc c05_doc) [100; 101] = Ok true /\
  traverse_check_string_w (enc c05_doc) [98] = Ok true /\
  traverse_check_string_w (enc c05_doc) [120] = Ok false /\
  traverse_check_string_b (enc c05_doc) (bytes_eqb []) = Ok true /\
  traverse_check_string_b (enc c05_doc) (bytes_eqb [122]) = Ok false /\
  traverse_check_string_b (enc (VArr [VNull; VBool true])) (fun _ => true) = Ok false /\
  (* off the encodings: a string entry whose payload runs past the buffer panics; an unknown header kind is unreachable!() *)
  traverse_check_string_b [128; 0; 0; 1; 16; 0; 0; 5; 97] (fun _ => false) = Panic /\
  traverse_check_string_b [128; 0; 0; 1; 80; 0; 0; 4; 160; 0; 0; 1] (fun _ => false) = Panic /\
  traverse_check_string_b [128; 0; 0; 2; 80; 0; 0; 0] (fun _ => false) = Ok false.
Proof. vm_compute. repeat split; reflexivity. Qed.
Print Assumptions C05_traverse_example.

(* on EVERY buffer, valid or not, the traversal model ends with a boolean or a panic: the recursion fuels of the model
   (entry loop, level loop) are never what decides, so the model has no outcome the code does not have *)
Theorem C05_traverse_check_string_fuel_is_enough : forall bs f,
  (exists b, traverse_check_string_b bs f = Ok b) \/ traverse_check_string_b bs f = Panic.
Proof. exact traverse_check_string_b_total. Qed.
Print Assumptions C05_traverse_check_string_fuel_is_enough.
(* ---- key existence on the bytes (KeysWalk.v: exists_all_keys / exists_any_keys / exists_jsonb_key over iteate_object_keys
   with `break` and iterate_array skipping the entries that are not strings, a key that is not UTF-8 answered as the code
   does, the keys tested one after the other with early return): on the encoding of any well-formed v the answers are the
   tree answers on v itself, for every list of keys; no read fails, nothing panics. *)
From JB Require Import KeysWalk KeysWalkProofs.

Theorem C05_exists_keys_bytes : forall v ks, wfb v = true -> top_ok v ->
  exists_all_keys_w (enc v) ks = Ok (exists_all_keys_t v ks) /\
  exists_any_keys_w (enc v) ks = Ok (exists_any_keys_t v ks).
Proof. intros v ks H T. split; [apply exists_all_keys_w_enc|apply exists_any_keys_w_enc]; assumption. Qed.
Print Assumptions C05_exists_keys_bytes.

(* the single look-up both are made of *)
Theorem C05_exists_jsonb_key_bytes : forall v key, wfb v = true ->
  exists_jsonb_key_w (enc v) (header_default (enc v)) key = Ok (has_key v key).
Proof. exact exists_jsonb_key_w_enc. Qed.
Print Assumptions C05_exists_jsonb_key_bytes.

(* and they agree with the view-level models the C05_exists_all_keys theorem above is about *)
Theorem C05_exists_keys_bytes_agree_with_view : forall v ks, wfb v = true -> top_ok v ->
  exists_all_keys_w (enc v) ks = exists_all_keys_m (enc v) ks /\ exists_any_keys_w (enc v) ks = exists_any_keys_m (enc v) ks.
Proof. intros v ks H T. split; [apply exists_all_keys_w_agrees_m|apply exists_any_keys_w_agrees_m]; assumption. Qed.
Print Assumptions C05_exists_keys_bytes_agree_with_view.

(* an object (keys), an array (string elements only; the number 1 and the nested string do not count), a scalar;
   a key that is not UTF-8 makes `all` false and is skipped by `any` *)
Definition c05_obj : value := VObj [([97], VNull); ([98; 99], VArr [VStr [120]]); ([195; 169], VNum (NUInt 1))].
Definition c05_arr : value := VArr [VNum (NUInt 1); VStr [97]; VArr [VStr [122]]; VStr [98; 99]].
Example C05_exists_keys_bytes_example :
  wfb c05_obj = true /\ wfb c05_arr = true /\
  exists_all_keys_w (enc c05_obj) [[97]; [195; 169]; [98; 99]] = Ok true /\
  exists_all_keys_w (enc c05_obj) [[97]; [120]] = Ok false /\
  exists_any_keys_w (enc c05_obj) [[120]; [98]; [98; 99]] = Ok true /\
  exists_any_keys_w (enc c05_obj) [[120]; [98]] = Ok false /\
  exists_all_keys_w (enc c05_arr) [[98; 99]; [97]] = Ok true /\
  exists_any_keys_w (enc c05_arr) [[122]; [49]] = Ok false /\
  exists_all_keys_w (enc c05_arr) [[97]; [255]] = Ok false /\
  exists_any_keys_w (enc c05_arr) [[255]; [97]] = Ok true /\
  exists_any_keys_w (enc (VStr [97])) [[97]] = Ok false /\
  exists_all_keys_w (enc (VStr [97])) [] = Ok true.
Proof. vm_compute. repeat split; reflexivity. Qed.
Print Assumptions C05_exists_keys_bytes_example.

(* The offset expressions of the byte walkers are generated from the source (gen/Constants.v, names JBI_ JBN_ OKS_ OEA_ AVS_ CMP_
   CPR_ CMA_ CMO_ CVC_ CVA_ CVO_ CTS_ STS_ SOV_ SAV_ SBN_ SBI_ BSA_; the walker models above call them).  All readers and the
   builder compute the same layout: a changed constant in one function breaks the lemma below that names it. *)
From JB Require OffsetTies.
Theorem C05_array_payload_start_agree : forall off n,
  JBI_VOFF off n = off + ITER_ARR_VOFF n /\ off + AVS_VOFF n = JBI_VOFF off n /\ CTS_ARR_VOFF off n = JBI_VOFF off n /\
  SAV_OFF off n = JBI_VOFF off n /\ SBI_OFF off n = JBI_VOFF off n /\
  off + CMP_ARR_LSKIP + CMA_LVOFF n = JBI_VOFF off n /\ off + CMP_ARR_RSKIP + CMA_RVOFF n = JBI_VOFF off n /\
  off + CPR_ARR_LSKIP + CMA_LVOFF n = JBI_VOFF off n /\ off + CPR_ARR_RSKIP + CMA_RVOFF n = JBI_VOFF off n /\
  off + CVC_ARR_SKIP + CVA_VOFF n = JBI_VOFF off n /\ off + BLD_ARR_LEN0 n = JBI_VOFF off n.
Proof. exact OffsetTies.arr_payload_start_agree. Qed.
Print Assumptions C05_array_payload_start_agree.
Theorem C05_object_keys_start_agree : forall off n,
  JBN_KOFF off n = off + ITER_ENT_KOFF n /\ JBN_KOFF off n = off + ITER_KEYS_KOFF n /\ JBN_VOFF off n = off + ITER_ENT_VOFF n /\
  JBN_VOFF off n = JBN_KOFF off n /\
  off + OKS_KOFF n = JBN_KOFF off n /\ OKS_PREV_KOFF n = OKS_KOFF n /\
  off + OEA_OFF0 + OEA_STEP * OEA_WORDS n = JBN_KOFF off n /\
  CTS_OBJ_KOFF off n = JBN_KOFF off n /\
  SOV_OFF off n = JBN_KOFF off n /\ SBN_OFF off n = JBN_KOFF off n /\
  off + CMP_OBJ_LSKIP + CMO_LKOFF n = JBN_KOFF off n /\ off + CMP_OBJ_RSKIP + CMO_RKOFF n = JBN_KOFF off n /\
  off + CPR_OBJ_LSKIP + CMO_LKOFF n = JBN_KOFF off n /\ off + CPR_OBJ_RSKIP + CMO_RKOFF n = JBN_KOFF off n /\
  CMO_LVOFF n = CMO_LKOFF n /\ CMO_RVOFF n = CMO_RKOFF n /\
  off + CVC_OBJ_SKIP + CVO_KOFF n = JBN_KOFF off n /\ CVO_VOFF n = CVO_KOFF n /\
  off + BLD_OBJ_LEN0 n = JBN_KOFF off n.
Proof. exact OffsetTies.obj_keys_start_agree. Qed.
Print Assumptions C05_object_keys_start_agree.
Theorem C05_entry_strides_agree :
  JBI_JSTEP = BLD_JSTEP /\ JBN_JSTEP1 = BLD_JSTEP /\ JBN_JSTEP2 = BLD_JSTEP /\ OKS_JSTEP = BLD_JSTEP /\ OEA_STEP = BLD_JSTEP /\
  AVS_JSTEP = BLD_JSTEP /\ CMA_JSTEP = BLD_JSTEP /\ CMO_LJSTEP1 = BLD_JSTEP /\ CMO_LJSTEP2 = BLD_JSTEP /\ CMO_RJSTEP1 = BLD_JSTEP /\
  CMO_RJSTEP2 = BLD_JSTEP /\ CVA_JSTEP = BLD_JSTEP /\ CVO_JSTEP1 = BLD_JSTEP /\ CVO_JSTEP2 = BLD_JSTEP /\ CTS_OBJ_JSTEP = BLD_JSTEP /\
  STS_JSTEP = BLD_JSTEP /\ BSA_JSTEP = BLD_JSTEP /\ ITER_ARR_JSTEP = BLD_JSTEP /\ ITER_KEYS_JSTEP = BLD_JSTEP /\ ITER_ENT_JSTEP = BLD_JSTEP /\
  ITER_FILL_JSTEP = BLD_JSTEP.
Proof. exact OffsetTies.strides_agree. Qed.
Print Assumptions C05_entry_strides_agree.

(* M6 (second review): the fuel the model passes is never what decides an answer, on ARBITRARY inputs -- also for the loops
   whose exhaustion is an ordinary value (None, Ok None, Ok buf, PErr, the input itself), about which `<> Err EFuel` says
   nothing: any fuel above the one the model passes gives the same answer (FuelIndep.v) *)
From JB Require FuelIndep.
Theorem C05_fuel_is_never_decisive :
  (forall k bs i len index joff voff, (length bs < k)%nat -> Walk.jbi_loop k bs i len index joff voff = Walk.jbi_loop (S (length bs)) bs i len index joff voff) /\
  (forall k bs i len j, (length bs < k)%nat -> Walk.rd_words k bs i len j = Walk.rd_words (S (length bs)) bs i len j) /\
  (forall k bs i len joff voff, (length bs < k)%nat -> Walk.values_loop k bs i len joff voff = Walk.values_loop (S (length bs)) bs i len joff voff) /\
  (forall func bs k i size joff voff back, (length bs < k)%nat -> CastWalk.tcs_entries k func bs i size joff voff back = CastWalk.tcs_entries (S (length bs)) func bs i size joff voff back) /\
  (forall func bs k, (S (length bs) < k)%nat -> CastWalk.tcs_run k func bs [0] = CastWalk.traverse_check_string_b bs func).
Proof. split; [exact FuelIndep.jbi_any_fuel|split; [exact FuelIndep.rd_words_any_fuel|split; [exact FuelIndep.values_any_fuel|split; [exact FuelIndep.tcs_entries_any_fuel|exact FuelIndep.traverse_check_string_any_fuel]]]]. Qed.
Print Assumptions C05_fuel_is_never_decisive.

(* L2/L3 (second review): get_by_index compares the caller's index with the length before anything else (no unary conversion of
   a caller-chosen number: an index beyond the end -- up to usize::MAX -- is answered None at once) *)
Theorem C05_get_by_index_beyond_the_end : forall l i, lenN l <= i -> TreeOps.get_by_index_t (VArr l) i = None.
Proof. intros l i H. cbn [TreeOps.get_by_index_t]. destruct (lenN l <=? i) eqn:E; [reflexivity|apply N.leb_gt in E; exfalso; apply (N.lt_irrefl i); apply (N.lt_le_trans _ _ _ E H)]. Qed.
Print Assumptions C05_get_by_index_beyond_the_end.

(* L7 (second review): the offset families above agree with each other; here the first member of each family IS the offset at
   which the documented layout puts the thing the family is named after, for a container standing at any offset |A| of a
   buffer (OffsetLayout.v): so every generated offset of every walker and of the builder is the layout offset *)
From JB Require OffsetLayout.
Theorem C05_generated_offsets_are_the_layout_offsets :
  (forall A l B, exists pre, A ++ CodecProofs.payload (VArr l) ++ B = pre ++ flat_map CodecProofs.payload l ++ B /\
                             lenN pre = JBI_VOFF (lenN A) (lenN l)) /\
  (forall A l B, exists pre, A ++ CodecProofs.payload (VArr l) ++ B
                             = pre ++ flat_map be32 (map RoundtripProofs.word l) ++ flat_map CodecProofs.payload l ++ B /\
                             lenN pre = JBI_JOFF (lenN A) /\ pre = A ++ be32 (WalkProofs.arr_hdr l)) /\
  (forall A o B, exists pre, A ++ CodecProofs.payload (VObj o) ++ B
                             = pre ++ flat_map be32 (WalkProofs.kws o ++ WalkProofs.vws o) ++ WalkProofs.keys_bytes o
                                   ++ flat_map CodecProofs.payload (WalkProofs.vals o) ++ B /\
                             lenN pre = JBN_JOFF (lenN A) /\ pre = A ++ be32 (WalkProofs.obj_hdr o)) /\
  (forall A o B, exists pre, A ++ CodecProofs.payload (VObj o) ++ B
                             = pre ++ WalkProofs.keys_bytes o ++ flat_map CodecProofs.payload (WalkProofs.vals o) ++ B /\
                             lenN pre = JBN_KOFF (lenN A) (lenN o)) /\
  (forall A o B, exists pre, A ++ CodecProofs.payload (VObj o) ++ B = pre ++ flat_map CodecProofs.payload (WalkProofs.vals o) ++ B /\
                             lenN pre = JBN_VOFF (lenN A) (lenN o) + lenN (WalkProofs.keys_bytes o)) /\
  (forall A o B, exists pre, A ++ CodecProofs.payload (VObj o) ++ B
                             = pre ++ flat_map be32 (WalkProofs.vws o) ++ WalkProofs.keys_bytes o
                                   ++ flat_map CodecProofs.payload (WalkProofs.vals o) ++ B /\
                             lenN pre = JBN_JOFF (lenN A) + JBN_JSTEP1 * lenN o) /\
  (forall (ws : list N) i w, nth_opt ws i = Some w ->
     exists pre post, flat_map be32 ws = pre ++ be32 w ++ post /\ lenN pre = BLD_JSTEP * N.of_nat i).
Proof.
  split; [exact OffsetLayout.arr_payloads_at_VOFF|]. split; [exact OffsetLayout.arr_entry_words_at_JOFF|].
  split; [exact OffsetLayout.obj_entry_words_at_JOFF|]. split; [exact OffsetLayout.obj_keys_at_KOFF|].
  split; [exact OffsetLayout.obj_value_payloads_after_keys|]. split; [exact OffsetLayout.obj_value_words_after_key_words|].
  exact OffsetLayout.entry_word_i_at_stride.
Qed.
Print Assumptions C05_generated_offsets_are_the_layout_offsets.

(* ---- the same accessors as methods of `Value` (value.rs; model ValueApi.v, all statements in Props/ValueApi.v): the tree-level
   helper applied to v and the byte-level function applied to the encoding of v give the same answer *)
From JB Require ValueApi ValueApiProofs.
Theorem C05_value_methods_agree_with_the_byte_accessors : forall v, wfb v = true -> top_ok v ->
  array_length_w (enc v) = Ok (ValueApi.value_array_length v) /\
  object_keys_w (enc v) = Ok (option_map enc (ValueApi.value_object_keys v)) /\
  (forall name, get_by_name_w (enc v) name true = Ok (option_map enc (ValueApi.value_get_by_name_ignore_case v name))) /\
  as_i64_w (enc v) = Ok (ValueApi.value_as_i64 v) /\ as_u64_w (enc v) = Ok (ValueApi.value_as_u64 v) /\
  as_bool_w (enc v) = Ok (ValueApi.value_as_bool v) /\ as_str_w (enc v) = Ok (ValueApi.value_as_str v).
Proof.
  intros v Hw Ht.
  split; [exact (ValueApiProofs.value_array_length_bytes v Hw Ht)|]. split; [exact (ValueApiProofs.value_object_keys_bytes v Hw Ht)|].
  split; [exact (ValueApiProofs.value_get_by_name_ignore_case_bytes v Hw Ht)|].
  split; [exact (ValueApiProofs.value_as_i64_bytes v Hw Ht)|]. split; [exact (ValueApiProofs.value_as_u64_bytes v Hw Ht)|].
  split; [exact (ValueApiProofs.value_as_bool_bytes v Hw Ht)|exact (ValueApiProofs.value_as_str_bytes v Hw Ht)].
Qed.
Print Assumptions C05_value_methods_agree_with_the_byte_accessors.
