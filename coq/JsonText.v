(* JsonText.v — cursor model of src/parser.rs and src/util.rs (parse_string / parse_escaped_string).
   The cursor is the remaining input; every slice/index/unwrap of the Rust is a Panic-able access here. *)
From Coq Require Import List NArith ZArith Bool Lia.
Import ListNotations.
From JB Require Import Constants Bytes Utf8 Num Value Decimal.
Open Scope N_scope.

Definition is_ws (b : N) : bool := (b =? 32) || (b =? 9) || (b =? 10) || (b =? 12) || (b =? 13).

(* skip_unused: ASCII whitespace, the two-byte forms \n \r \t and the four-byte form \x0C *)
Fixpoint skip_unused_fuel (fuel : nat) (bs : list N) : list N :=
  match fuel with O => bs | S f =>
  match bs with
  | [] => []
  | c :: r =>
      if is_ws c then skip_unused_fuel f r
      else if c =? 92 then
        match r with
        | x :: r1 =>
            if (x =? 110) || (x =? 114) || (x =? 116) then skip_unused_fuel f r1
            else match r with
                 | 120 :: 48 :: 67 :: r3 => skip_unused_fuel f r3
                 | _ => bs
                 end
        | [] => bs
        end
      else bs
  end end.
Definition skip_unused (bs : list N) : list N := skip_unused_fuel (S (length bs)) bs.

(* ---- numbers ---- *)
Fixpoint take_digits (bs : list N) (acc : list N) : list N * list N :=
  match bs with
  | c :: r => if is_digit c then take_digits r (c :: acc) else (rev acc, bs)
  | [] => (rev acc, [])
  end.

(* str::parse::<u64> / <i64> on a digit string already validated by the lexer *)
Definition parse_json_number (bs : list N) : res (value * list N) :=
  let '(negative, bs1) := match bs with c :: r => if c =? 45 then (true, r) else (false, bs) | [] => (false, bs) end in
  (* integer part *)
  let int_part : res (list N * list N) :=
    match bs1 with
    | [] => Err EOther                       (* step_digits at end of input: InvalidEOF *)
    | d :: r =>
        if d =? 48 then
          match r with
          | c :: _ => if is_digit c then Err EOther else Ok ([48], r)
          | [] => Ok ([48], r)
          end
        else let '(ds, r') := take_digits bs1 [] in
             match ds with [] => Err EOther | _ => Ok (ds, r') end
    end in
  do (ids, bs2) <- int_part;
  let frac : res (option (list N) * list N) :=
    match bs2 with
    | c :: r =>
        if c =? 46 then
          match r with
          | [] => Err EOther
          | _ => let '(ds, r') := take_digits r [] in
                 match ds with [] => Err EOther | _ => Ok (Some ds, r') end
          end
        else Ok (None, bs2)
    | [] => Ok (None, bs2)
    end in
  do (fds, bs3) <- frac;
  let expo : res (option (bool * list N) * list N) :=
    match bs3 with
    | c :: r =>
        if (c =? 69) || (c =? 101) then
          let '(eneg, r1) := match r with
                             | s :: r' => if s =? 43 then (false, r') else if s =? 45 then (true, r') else (false, r)
                             | [] => (false, r) end in
          match r1 with
          | [] => Err EOther
          | _ => let '(ds, r') := take_digits r1 [] in
                 match ds with [] => Err EOther | _ => Ok (Some (eneg, ds), r') end
          end
        else Ok (None, bs3)
    | [] => Ok (None, bs3)
    end in
  do (ex, bs4) <- expo;
  let iv := digits_val ids 0 in
  let as_float :=
    let fd := match fds with Some d => d | None => [] end in
    let m10 := digits_val fd iv in
    let e := match ex with
             | Some (eneg, ds) => let x := digits_val ds 0 in if eneg then (- x)%Z else x
             | None => 0%Z end in
    VNum (NFloat (round_dec negative m10 (e - Z.of_nat (length fd)))) in
  match fds, ex with
  | None, None =>
      if negative then
        (if (iv <=? two63)%Z then Ok (VNum (NInt (- iv)), bs4) else Ok (as_float, bs4))
      else
        (if (iv <? Z.of_N two64)%Z then Ok (VNum (NUInt (Z.to_N iv)), bs4) else Ok (as_float, bs4))
  | _, _ => Ok (as_float, bs4)
  end.

(* ---- strings: first pass (find the closing quote, skipping escapes blindly) ---- *)
Fixpoint scan_string (fuel : nat) (bs : list N) (acc : list N) (esc : nat) : option (list N * nat * list N) :=
  match fuel with O => None | S f =>
  match bs with
  | [] => None
  | c :: r =>
      if c =? 92 then
        match r with
        | [] => None
        | n :: r' =>
            if n =? 117 then
              match r' with
              | [] => None
              | m :: _ =>
                  let k := if m =? 123 then 6%nat else 4%nat in
                  scan_string f (skipn k r') (rev (firstn k r') ++ n :: c :: acc) (S esc)
              end
            else scan_string f r' (n :: c :: acc) (S esc)
        end
      else if c =? 34 then Some (rev acc, esc, r)
      else scan_string f r (c :: acc) esc
  end end.

(* ---- util.rs: second pass ---- *)
Definition hex_val (b : N) : option N :=
  match nth_opt HEX_TABLE (N.to_nat b) with
  | Some n => if n =? 255 then None else Some n
  | None => None
  end.
Fixpoint decode_hex_escape (numbers : list N) (acc : N) : option N :=
  match numbers with
  | [] => Some acc
  | b :: r => match hex_val b with Some h => decode_hex_escape r (acc * 16 + h) | None => None end
  end.
Definition invalid_unicode (numbers : list N) : list N := 92 :: 117 :: numbers.

(* reads the 4 hex bytes of a \u escape (either form); data is positioned after the 'u' *)
Definition read_unicode_digits (data : list N) : res (list N * list N) :=
  match data with
  | [] => Panic                                   (* data[0] on an empty slice *)
  | x :: r =>
      if x =? 123 then
        if (length r <? 4)%nat then Err EOther     (* read_exact *)
        else let numbers := firstn 4 r in
             match skipn 4 r with
             | [] => Panic                         (* data[0] != b'}' on an empty slice *)
             | y :: r3 => if y =? 125 then Ok (numbers, r3) else Err EOther
             end
      else
        if (length data <? 4)%nat then Err EOther
        else Ok (firstn 4 data, skipn 4 data)
  end.

(* parse_escaped_string: data is positioned after the backslash; returns (rest, bytes pushed) *)
Definition parse_escaped_string (data : list N) : res (list N * list N) :=
  match data with
  | [] => Panic
  | b :: r =>
      if b =? 92 then Ok (r, [BS])
      else if b =? 34 then Ok (r, [QU])
      else if b =? 47 then Ok (r, [SD])
      else if b =? 98 then Ok (r, [BB])
      else if b =? 102 then Ok (r, [FF])
      else if b =? 110 then Ok (r, [NN])
      else if b =? 114 then Ok (r, [RR])
      else if b =? 116 then Ok (r, [TT])
      else if b =? 117 then
        do (numbers, r1) <- read_unicode_digits r;
        match decode_hex_escape numbers 0 with
        | None => Err EOther
        | Some hex =>
            if (56320 <=? hex) && (hex <=? 57343) then Ok (r1, invalid_unicode numbers)
            else if (55296 <=? hex) && (hex <=? 56319) then
              match r1 with
              | 92 :: 117 :: r2 =>
                  do (lower, r3) <- read_unicode_digits r2;
                  match decode_hex_escape lower 0 with
                  | None => Err EOther
                  | Some n2 =>
                      if (56320 <=? n2) && (n2 <=? 57343) then
                        Ok (r3, utf8_encode (((hex - 55296) * 1024 + (n2 - 56320)) + 65536))
                      else Ok (r3, invalid_unicode numbers ++ invalid_unicode lower)
                  end
              | _ => Ok (r1, invalid_unicode numbers)
              end
            else Ok (r1, utf8_encode hex)
        end
      else Err EOther
  end.

Fixpoint parse_string_fuel (fuel : nat) (data : list N) (buf : list N) : res (list N) :=
  match fuel with O => Err EFuel | S f =>
  match data with
  | [] => if utf8_valid buf then Ok buf else Err EOther
  | b :: r =>
      if b =? 92 then
        do (r', chunk) <- parse_escaped_string r;
        parse_string_fuel f r' (buf ++ chunk)
      else parse_string_fuel f r (buf ++ [b])
  end end.
Definition parse_string (data : list N) : res (list N) := parse_string_fuel (S (length data)) data [].

(* parse_json_string: bs is positioned after the opening quote *)
Definition parse_json_string (bs : list N) : res (list N * list N) :=
  match scan_string (S (length bs)) bs [] 0 with
  | None => Err EOther
  | Some (data, esc, rest) =>
      match esc with
      | O => if utf8_valid data then Ok (data, rest) else Err EOther
      | _ => do s <- parse_string data; Ok (s, rest)
      end
  end.

Fixpoint expect (lit : list N) (bs : list N) : option (list N) :=
  match lit with
  | [] => Some bs
  | c :: l => match bs with b :: r => if b =? c then expect l r else None | [] => None end
  end.

(* ---- values ---- *)
Section Loops.
  Variable pv : list N -> res (value * list N).     (* parse_json_value at smaller fuel *)
  Fixpoint arr_loop (k : nat) (first : bool) (acc : list value) (bs : list N) : res (value * list N) :=
    match k with O => Err EFuel | S k' =>
    match skip_unused bs with
    | [] => Err EOther
    | c :: r =>
        if c =? 93 then Ok (VArr (rev acc), r)
        else
          let after := if first then Some (c :: r) else if c =? 44 then Some r else None in
          match after with
          | None => Err EOther
          | Some bs' => do (v, bs'') <- pv bs'; arr_loop k' false (v :: acc) bs''
          end
    end end.
  Fixpoint obj_loop (k : nat) (first : bool) (acc : list (list N * value)) (bs : list N) : res (value * list N) :=
    match k with O => Err EFuel | S k' =>
    match skip_unused bs with
    | [] => Err EOther
    | c :: r =>
        if c =? 125 then Ok (VObj acc, r)
        else
          let after := if first then Some (c :: r) else if c =? 44 then Some r else None in
          match after with
          | None => Err EOther
          | Some bs' =>
              do (key, bs1) <- pv bs';
              match key with
              | VStr ks =>
                  match skip_unused bs1 with
                  | 58 :: bs2 =>
                      do (v, bs3) <- pv bs2;
                      obj_loop k' false (assoc_insert ks v acc) bs3
                  | _ => Err EOther
                  end
              | _ => Err EOther
              end
          end
    end end.
End Loops.

Fixpoint parse_json_value (fuel : nat) (bs : list N) : res (value * list N) :=
  match fuel with O => Err EFuel | S f =>
  match skip_unused bs with
  | [] => Err EOther
  | c :: r =>
      if c =? 110 then match expect [117; 108; 108] r with Some r' => Ok (VNull, r') | None => Err EOther end
      else if c =? 116 then match expect [114; 117; 101] r with Some r' => Ok (VBool true, r') | None => Err EOther end
      else if c =? 102 then match expect [97; 108; 115; 101] r with Some r' => Ok (VBool false, r') | None => Err EOther end
      else if is_digit c || (c =? 45) then parse_json_number (c :: r)
      else if c =? 34 then do (s, r') <- parse_json_string r; Ok (VStr s, r')
      else if c =? 91 then arr_loop (parse_json_value f) f true [] r
      else if c =? 123 then obj_loop (parse_json_value f) f true [] r
      else Err EOther
  end end.

(* Parser::parse: one value, then only skippable bytes *)
Definition parse_value (bs : list N) : res value :=
  do (v, rest) <- parse_json_value (S (length bs)) bs;
  match skip_unused rest with [] => Ok v | _ => Err EOther end.
