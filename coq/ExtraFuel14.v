(* ExtraFuel14.v — fuel independence of the comparable-key walker (ComparableWalk.v), on ARBITRARY input bytes.
   In that model running out of fuel is SILENT (`match fuel with O => Ok buf`, and `rd_words` answers None, which
   object_cmp_w turns into `Ok buf`), so "<> Err EFuel" would say nothing.  The honest statement: copy the model with
   every fuel made a parameter
       g V : the fuel of the count-driven loops (arr_cmp_loop, rd_words), S (length V) in the model,
       f   : the nesting fuel of scalar_cmp_w,                            S (length V) in the model,
   (the copy with the model's fuels IS the model, by reflexivity) and show that any larger fuels give the same answer on
   every buffer: the `O` branches are never the reason for an answer.
     loops:    lb + joff <= lenN V + 4 < lb + joff + 4 * fuel   (an entry word is read 4 bytes further on each round)
     nesting:  off <= lenN V < off + fuel                       (from_ok V off was passed; a nested payload offset is
                                                                  at least 4 larger than its parent's) *)
From Coq Require Import List NArith ZArith Bool Lia.
Import ListNotations.
From JB Require Import Constants Bytes Utf8 Num Value Codec JsonText Order CmpKey Walk CodecProofs WalkProofs
  RenderWalkProofs CompareWalk ComparableWalk.
Open Scope N_scope.
Set Default Timeout 120.

Arguments N.lor : simpl never.
Arguments N.land : simpl never.
Arguments N.add : simpl never.
Arguments N.mul : simpl never.
Arguments N.sub : simpl never.
Arguments N.ltb : simpl never.
Arguments N.leb : simpl never.
Arguments N.eqb : simpl never.
Arguments be32 : simpl never.
Arguments read_u32 : simpl never.
Arguments slice : simpl never.

(* ================================================================ the model with its fuels as parameters *)
Section G.
  Variable g : list N -> nat.
  Definition array_cmp_g (V : list N) (sc : N -> N -> N -> list N -> res (list N)) (depth len base : N) (buf : list N)
    : res (list N) :=
    arr_cmp_loop V sc (g V) depth 0 len base CVA_JOFF (CVA_VOFF len) buf.
  Definition object_cmp_g (V : list N) (sc : N -> N -> N -> list N -> res (list N)) (depth len base : N) (buf : list N)
    : res (list N) :=
    match rd_words (g V) V 0 len (base + CVO_JOFF) with
    | None => Ok buf
    | Some kws => obj_cmp_loop V sc kws depth base (CVO_JOFF + CVO_JSTEP1 * len) (CVO_KOFF len) (CVO_VOFF len + sum_je_len kws) buf
    end.
  Fixpoint scalar_cmp_g (fuel : nat) (V : list N) (depth w off : N) (buf : list N) : res (list N) :=
    match fuel with O => Ok buf | S f =>
    let buf0 := buf ++ [depth] in
    let ty := je_type w in
    if ty =? CONTAINER_TAG then
      match read_u32 V off with
      | None => Ok buf0
      | Some h =>
          let len := hdr_len h in
          if hdr_type h =? ARRAY_CONTAINER_TAG then
            do _ <- from_ok V (off + CVC_ARR_SKIP);
            array_cmp_g V (scalar_cmp_g f V) (sat1 depth) len (off + CVC_ARR_SKIP) (buf0 ++ [ARRAY_LEVEL])
          else if hdr_type h =? OBJECT_CONTAINER_TAG then
            do _ <- from_ok V (off + CVC_OBJ_SKIP);
            object_cmp_g V (scalar_cmp_g f V) (sat1 depth) len (off + CVC_OBJ_SKIP) (buf0 ++ [OBJECT_LEVEL])
          else Ok buf0
      end
    else
      let buf1 := buf0 ++ [level_of_tag ty] in
      if ty =? STRING_TAG then
        do s <- slice_p V off (je_len w); Ok (buf1 ++ s)
      else if ty =? NUMBER_TAG then
        do p <- slice_p V off (je_len w);
        match num_decode p with
        | Ok n => Ok (buf1 ++ be_bytes 8 (f64_key (as_f64 n)))
        | _ => Ok buf1
        end
      else Ok buf1
    end.
  Variable h : list N -> nat.
  Definition comparable_b_g (V : list N) (buf : list N) : res (list N) :=
    let hd := match read_u32 V 0 with Some hd => hd | None => 0 end in
    let fuel := h V in
    if hdr_type hd =? SCALAR_CONTAINER_TAG then
      match read_u32 V 4 with
      | None => Ok buf
      | Some w => do _ <- from_ok V 8; scalar_cmp_g fuel V 0 w 8 buf
      end
    else if hdr_type hd =? ARRAY_CONTAINER_TAG then
      do _ <- from_ok V 4;
      array_cmp_g V (scalar_cmp_g fuel V) (sat1 0) (hdr_len hd) 4 (buf ++ [0; ARRAY_LEVEL])
    else if hdr_type hd =? OBJECT_CONTAINER_TAG then
      do _ <- from_ok V 4;
      object_cmp_g V (scalar_cmp_g fuel V) (sat1 0) (hdr_len hd) 4 (buf ++ [0; OBJECT_LEVEL])
    else Ok buf.
  Definition comparable_w_g (bs : list N) (buf : list N) : res (list N) :=
    if is_jsonb bs then comparable_b_g bs buf
    else match JsonText.parse_value bs with
         | Ok v => comparable_b_g (to_vec v) buf
         | Err _ => Ok (buf ++ 0 :: INVALID_LEVEL :: bs)
         | Panic => Panic
         end.
End G.

Definition model_fuel (V : list N) : nat := S (length V).
(* the copy with the model's fuels is the model *)
Lemma comparable_b_g_model V buf : comparable_b_g model_fuel model_fuel V buf = comparable_b V buf.
Proof. reflexivity. Qed.
Lemma comparable_w_g_model bs buf : comparable_w_g model_fuel model_fuel bs buf = comparable_w bs buf.
Proof. reflexivity. Qed.
(* one number for every fuel *)
Definition comparable_b_fuel (f : nat) (V buf : list N) : res (list N) := comparable_b_g (fun _ => f) (fun _ => f) V buf.

(* ================================================================ the loops *)
Lemma rd_words_indep : forall k k' bs i len j, j <= lenN bs + 4 -> lenN bs + 4 < j + 4 * N.of_nat k ->
  lenN bs + 4 < j + 4 * N.of_nat k' -> rd_words k bs i len j = rd_words k' bs i len j.
Proof.
  induction k as [|k IH]; intros k' bs i len j H0 H1 H2; [lia|]. destruct k' as [|k']; [lia|]. cbn [rd_words].
  destruct (i <? len); [|reflexivity]. destruct (read_u32 bs j) as [w|] eqn:Rw; [|reflexivity].
  pose proof (read_u32_bound _ _ _ Rw) as Bw. rewrite (IH k' bs (i + 1) len (j + 4)); [reflexivity|lia|lia|lia].
Qed.

Section LoopsIndep.
  Variable V : list N.
  Variable sc sc' : N -> N -> N -> list N -> res (list N).
  Variable base : N.
  Hypothesis Hsc : forall depth w off buf, base <= off -> off <= lenN V -> sc depth w off buf = sc' depth w off buf.

  Lemma arr_cmp_loop_indep : forall k k' depth i len joff voff buf,
    base + joff <= lenN V + 4 -> lenN V + 4 < base + joff + 4 * N.of_nat k -> lenN V + 4 < base + joff + 4 * N.of_nat k' ->
    arr_cmp_loop V sc k depth i len base joff voff buf = arr_cmp_loop V sc' k' depth i len base joff voff buf.
  Proof.
    induction k as [|k IH]; intros k' depth i len joff voff buf H0 H1 H2; [lia|]. destruct k' as [|k']; [lia|].
    cbn [arr_cmp_loop]. destruct (i <? len); [|reflexivity].
    destruct (read_u32 V (base + joff)) as [w|] eqn:Rw; [|reflexivity]. pose proof (read_u32_bound _ _ _ Rw) as Bw.
    unfold from_ok. destruct (base + voff <=? lenN V) eqn:Ef; cbn [bind]; [|reflexivity]. apply N.leb_le in Ef.
    rewrite (Hsc depth w (base + voff) buf ltac:(lia) Ef).
    destruct (sc' depth w (base + voff) buf) as [buf'|e|]; cbn [bind]; try reflexivity.
    apply IH; unfold CVA_JSTEP; lia.
  Qed.

  Lemma obj_cmp_loop_ext : forall kws depth joff koff voff buf,
    obj_cmp_loop V sc kws depth base joff koff voff buf = obj_cmp_loop V sc' kws depth base joff koff voff buf.
  Proof.
    induction kws as [|kw r IH]; intros depth joff koff voff buf; cbn [obj_cmp_loop]; [reflexivity|].
    unfold from_ok. destruct (base + koff <=? lenN V) eqn:Ef; cbn [bind]; [|reflexivity]. apply N.leb_le in Ef.
    rewrite (Hsc depth kw (base + koff) buf ltac:(lia) Ef).
    destruct (sc' depth kw (base + koff) buf) as [buf1|e|]; cbn [bind]; try reflexivity.
    destruct (read_u32 V (base + joff)) as [w|]; [|reflexivity].
    destruct (base + voff <=? lenN V) eqn:Ef2; cbn [bind]; [|reflexivity]. apply N.leb_le in Ef2.
    rewrite (Hsc depth w (base + voff) buf1 ltac:(lia) Ef2).
    destruct (sc' depth w (base + voff) buf1) as [buf2|e|]; cbn [bind]; try reflexivity.
    apply IH.
  Qed.
End LoopsIndep.

(* ================================================================ nesting *)
Lemma scalar_cmp_g_indep g g' V : (S (length V) <= g V)%nat -> (S (length V) <= g' V)%nat ->
  forall f f' depth w off buf, off <= lenN V -> lenN V < off + N.of_nat f -> lenN V < off + N.of_nat f' ->
  scalar_cmp_g g f V depth w off buf = scalar_cmp_g g' f' V depth w off buf.
Proof.
  intros Hg Hg'. induction f as [|f IH]; intros f' depth w off buf H0 H1 H2; [lia|]. destruct f' as [|f']; [lia|].
  cbn [scalar_cmp_g]. cbv zeta. unfold CVC_ARR_SKIP, CVC_OBJ_SKIP.
  destruct (je_type w =? CONTAINER_TAG); [|reflexivity].
  destruct (read_u32 V off) as [hd|]; [|reflexivity].
  assert (Hsc : forall depth w off' buf, off + 4 <= off' -> off' <= lenN V ->
                scalar_cmp_g g f V depth w off' buf = scalar_cmp_g g' f' V depth w off' buf).
  { intros d w' off' b A B. apply IH; lia. }
  destruct (hdr_type hd =? ARRAY_CONTAINER_TAG).
  { unfold from_ok. destruct (off + 4 <=? lenN V) eqn:Ef; cbn [bind]; [|reflexivity]. apply N.leb_le in Ef.
    unfold array_cmp_g. apply arr_cmp_loop_indep; unfold CVA_JOFF; [exact Hsc|lia|unfold lenN in *; lia|unfold lenN in *; lia]. }
  destruct (hdr_type hd =? OBJECT_CONTAINER_TAG); [|reflexivity].
  unfold from_ok. destruct (off + 4 <=? lenN V) eqn:Ef; cbn [bind]; [|reflexivity]. apply N.leb_le in Ef.
  unfold object_cmp_g.
  rewrite (rd_words_indep (g V) (g' V) V 0 (hdr_len hd) (off + 4 + CVO_JOFF));
    [|unfold CVO_JOFF; lia|unfold CVO_JOFF, lenN in *; lia|unfold CVO_JOFF, lenN in *; lia].
  destruct (rd_words (g' V) V 0 (hdr_len hd) (off + 4 + CVO_JOFF)) as [kws|]; [|reflexivity].
  apply obj_cmp_loop_ext. exact Hsc.
Qed.

(* ================================================================ top level *)
Theorem comparable_b_g_indep g h g' h' V buf :
  (S (length V) <= g V)%nat -> (S (length V) <= h V)%nat -> (S (length V) <= g' V)%nat -> (S (length V) <= h' V)%nat ->
  comparable_b_g g h V buf = comparable_b_g g' h' V buf.
Proof.
  intros Hg Hh Hg' Hh'. unfold comparable_b_g. cbv zeta.
  assert (Hsc : forall depth w off buf, 4 <= off -> off <= lenN V ->
                scalar_cmp_g g (h V) V depth w off buf = scalar_cmp_g g' (h' V) V depth w off buf).
  { intros d w off b A B. apply scalar_cmp_g_indep; [exact Hg|exact Hg'|exact B|unfold lenN in *; lia|unfold lenN in *; lia]. }
  set (hd := match read_u32 V 0 with Some hd => hd | None => 0 end).
  destruct (hdr_type hd =? SCALAR_CONTAINER_TAG).
  { destruct (read_u32 V 4) as [w|]; [|reflexivity].
    unfold from_ok. destruct (8 <=? lenN V) eqn:Ef; cbn [bind]; [|reflexivity]. apply N.leb_le in Ef.
    apply Hsc; [lia|exact Ef]. }
  destruct (hdr_type hd =? ARRAY_CONTAINER_TAG).
  { unfold from_ok. destruct (4 <=? lenN V) eqn:Ef; cbn [bind]; [|reflexivity]. apply N.leb_le in Ef.
    unfold array_cmp_g. apply arr_cmp_loop_indep; unfold CVA_JOFF; [exact Hsc|lia|unfold lenN in *; lia|unfold lenN in *; lia]. }
  destruct (hdr_type hd =? OBJECT_CONTAINER_TAG); [|reflexivity].
  unfold from_ok. destruct (4 <=? lenN V) eqn:Ef; cbn [bind]; [|reflexivity]. apply N.leb_le in Ef.
  unfold object_cmp_g.
  rewrite (rd_words_indep (g V) (g' V) V 0 (hdr_len hd) (4 + CVO_JOFF));
    [|unfold CVO_JOFF; lia|unfold CVO_JOFF, lenN in *; lia|unfold CVO_JOFF, lenN in *; lia].
  destruct (rd_words (g' V) V 0 (hdr_len hd) (4 + CVO_JOFF)) as [kws|]; [|reflexivity].
  apply obj_cmp_loop_ext. exact Hsc.
Qed.

(* more fuel never changes the answer of the binary branch, on any buffer *)
Theorem comparable_b_fuel_independent : forall V buf f, (S (length V) <= f)%nat ->
  comparable_b_fuel f V buf = comparable_b V buf.
Proof.
  intros V buf f H. rewrite <- comparable_b_g_model. unfold comparable_b_fuel.
  apply comparable_b_g_indep; unfold model_fuel; lia.
Qed.
Corollary comparable_b_fuel_model V buf : comparable_b_fuel (S (length V)) V buf = comparable_b V buf.
Proof. apply comparable_b_fuel_independent. lia. Qed.
Print Assumptions comparable_b_fuel_independent.

(* the public function (text is parsed and re-encoded: the buffer walked is then to_vec v, so the fuels are functions
   of the buffer walked): any fuels at least the model's give the model's answer, on any input *)
Theorem comparable_w_fuel_independent : forall g h, (forall V, (S (length V) <= g V)%nat) -> (forall V, (S (length V) <= h V)%nat) ->
  forall bs buf, comparable_w_g g h bs buf = comparable_w bs buf.
Proof.
  intros g h Hg Hh bs buf. rewrite <- comparable_w_g_model. unfold comparable_w_g.
  destruct (is_jsonb bs); [apply comparable_b_g_indep; unfold model_fuel; auto|].
  destruct (parse_value bs) as [v|e|]; try reflexivity.
  apply comparable_b_g_indep; unfold model_fuel; auto.
Qed.
Print Assumptions comparable_w_fuel_independent.

(* ---- instances ---- *)
Definition fuel14_doc := enc (VArr [VObj [([97], VArr [VNull; VStr [98;99]])]; VBool true]).
Example fuel14_ok : comparable_w fuel14_doc [] = Ok [0; 6; 1; 5; 2; 4; 97; 2; 6; 3; 7; 3; 4; 98; 99; 1; 2].
Proof. vm_compute. reflexivity. Qed.
(* the hypothesis on the fuels is needed: too little fuel silently cuts the key *)
Example fuel14_small_loop_fuel : comparable_w_g (fun _ => 1%nat) (fun _ => 500%nat) fuel14_doc [] = Ok [0; 6; 1; 5].
Proof. vm_compute. reflexivity. Qed.
Example fuel14_small_nesting_fuel :
  comparable_w_g (fun _ => 100%nat) (fun _ => 2%nat) fuel14_doc [] = Ok [0; 6; 1; 5; 2; 4; 97; 2; 6; 1; 2].
Proof. vm_compute. reflexivity. Qed.
(* corrupt buffers: larger fuels, same answer *)
Example fuel14_truncated :
  comparable_w (firstn 30 fuel14_doc) [] = Panic /\
  comparable_w_g (fun _ => 1000%nat) (fun _ => 500%nat) (firstn 30 fuel14_doc) [] = Panic.
Proof. split; vm_compute; reflexivity. Qed.
(* element count replaced by 2^29 - 1: the loop stops at the buffer's end, not at the count, not at the fuel *)
Example fuel14_huge_count :
  comparable_w (128 :: 255 :: 255 :: 255 :: skipn 4 fuel14_doc) [] = Panic /\
  comparable_w_g (fun _ => 1000%nat) (fun _ => 500%nat) (128 :: 255 :: 255 :: 255 :: skipn 4 fuel14_doc) [] = Panic.
Proof. split; vm_compute; reflexivity. Qed.
(* header type of the nested array replaced by an unknown one: the key stops there *)
Example fuel14_bad_nested :
  comparable_w (firstn 25 fuel14_doc ++ 0 :: skipn 26 fuel14_doc) [] = Ok [0; 6; 1; 5; 2; 4; 97; 2; 1; 2] /\
  comparable_w_g (fun _ => 1000%nat) (fun _ => 500%nat) (firstn 25 fuel14_doc ++ 0 :: skipn 26 fuel14_doc) []
  = Ok [0; 6; 1; 5; 2; 4; 97; 2; 1; 2].
Proof. split; vm_compute; reflexivity. Qed.
