(* ContainSpecProofs.v — C12: the executable containment `contains_t` (mirror of the Rust tree function, and by
   ContainWalkProofs the answer of the byte walker) is EXACTLY the declarative relation of ContainSpec.v on documents
   with unique sorted keys (every document the library builds). *)
From Coq Require Import List NArith ZArith Bool Lia.
Import ListNotations.
From JB Require Import Constants Bytes Num Value Order Contain OrderProofs MiscProofs RoundtripProofs ContainProofs ContainSpec.
Open Scope N_scope.
Set Default Timeout 60.

(* ---- inversion facts about the declarative relation ---- *)
Lemma scalar_eq_variant a b : scalar_eq a b -> same_variant a b = true.
Proof. intros (_ & _ & E). apply value_eqb_variant. apply cmp_value_eq_iff. exact E. Qed.

Lemma contained_variant a b : contained a b -> same_variant a b = true.
Proof. intros H. destruct H as [a b E| |]; [apply scalar_eq_variant; exact E|reflexivity|reflexivity]. Qed.

Lemma contained_scalar_r a b : is_scalar b = true -> (contained a b <-> scalar_eq a b).
Proof.
  intros Sb. split; [|apply contained_scalars].
  intros H. destruct H as [a b E| |]; [exact E|discriminate Sb|discriminate Sb].
Qed.

Lemma contained_scalar_l a b : is_scalar a = true -> (contained a b <-> scalar_eq a b).
Proof.
  intros Sa. split; [|apply contained_scalars].
  intros H. destruct H as [a b E| |]; [exact E|discriminate Sa|discriminate Sa].
Qed.

Lemma contained_arr_inv a lb : contained a (VArr lb) ->
  exists la, a = VArr la /\ forall bv, In bv lb -> exists av, In av la /\ contained av bv.
Proof.
  intros H. inversion H as [a' b' E| |la lb' Hall]; subst.
  - destruct E as (_ & Sb & _). discriminate Sb.
  - exists la. split; [reflexivity|exact Hall].
Qed.

Lemma contained_obj_inv a lb : contained a (VObj lb) ->
  exists la, a = VObj la /\ forall k bv, In (k, bv) lb -> exists av, In (k, av) la /\ contained av bv.
Proof.
  intros H. inversion H as [a' b' E|la lb' Hall|]; subst.
  - destruct E as (_ & Sb & _). discriminate Sb.
  - exists la. split; [reflexivity|exact Hall].
Qed.

Lemma scalar_eq_eqb a b : is_scalar b = true -> (scalar_eq a b <-> value_eqb a b = true).
Proof.
  intros Sb. split.
  - intros (_ & _ & E). apply cmp_value_eq_iff. exact E.
  - intros E. pose proof (same_variant_scalar a b (value_eqb_variant a b E)) as Sa.
    split; [rewrite Sa; exact Sb|]. split; [exact Sb|]. apply cmp_value_eq_iff. exact E.
Qed.

(* ---- distinct keys: every key found => not longer ---- *)
Lemma strongly_sorted_nodup {V} (l : list (list N * V)) : strongly_sorted l -> NoDup (map fst l).
Proof.
  induction l as [|[k v] l IH]; intros Hs; cbn [map fst]; [constructor|].
  cbn [strongly_sorted] in Hs. destruct Hs as [Hall Hs]. constructor; [|apply IH; exact Hs].
  intros Hin. apply in_map_iff in Hin. destruct Hin as ([k' v'] & Ek & Hin). cbn [fst] in Ek. subst k'.
  rewrite Forall_forall in Hall. specialize (Hall (k, v') Hin). cbn [fst] in Hall. rewrite bytes_refl in Hall. discriminate Hall.
Qed.

Lemma keys_found_length {V W} (la : list (list N * V)) (lb : list (list N * W)) :
  strongly_sorted lb -> (forall k bv, In (k, bv) lb -> exists av, In (k, av) la) -> (length lb <= length la)%nat.
Proof.
  intros Hs Hall. rewrite <- (map_length fst lb), <- (map_length fst la).
  apply NoDup_incl_length; [apply strongly_sorted_nodup; exact Hs|].
  intros k Hin. apply in_map_iff in Hin. destruct Hin as ([k' bv] & Ek & Hin). cbn [fst] in Ek. subst k'.
  destruct (Hall k bv Hin) as (av & Hav). apply in_map_iff. exists (k, av). split; [reflexivity|exact Hav].
Qed.

(* ---- the core: below the special top-level rule ---- *)
Definition not_arr_scalar (a b : value) : Prop := match a with VArr _ => is_scalar b = false | _ => True end.

Lemma wf_arr_elem l x : wf_shape (VArr l) = true -> In x l -> wf_shape x = true.
Proof. cbn [wf_shape]. intros H Hin. rewrite forallb_forall in H. apply H. exact Hin. Qed.
Lemma wf_obj_elem (o : list (list N * value)) k x : wf_shape (VObj o) = true -> In (k, x) o -> wf_shape x = true.
Proof.
  cbn [wf_shape]. intros H Hin. apply andb_true_iff in H. destruct H as [_ H]. rewrite forallb_forall in H.
  specialize (H (k, x) Hin). cbn [fst snd] in H. apply andb_true_iff in H. apply H.
Qed.
Lemma wf_obj_sorted (o : list (list N * value)) : wf_shape (VObj o) = true -> strongly_sorted o.
Proof. cbn [wf_shape]. intros H. apply andb_true_iff in H. destruct H as [H _]. apply keys_sorted_strong. exact H. Qed.

Lemma container_not_scalar v : is_container v = true <-> is_scalar v = false.
Proof. unfold is_container. destruct (is_scalar v); cbn; split; congruence. Qed.

Lemma contained_core : forall b a, wf_shape a = true -> wf_shape b = true -> not_arr_scalar a b ->
  (contained_in b a = true <-> contained a b).
Proof.
  induction b as [|y|t|m|lb IH|ob IH] using value_ind2; intros a Wa Wb Hn.
  1-4: (rewrite contained_scalar by reflexivity; rewrite contained_scalar_r by reflexivity;
        rewrite scalar_eq_eqb by reflexivity;
        destruct a as [|x|s|n|la|oa]; try discriminate Hn;
        (split; [intros H; apply andb_true_iff in H; apply H|intros H; rewrite (value_eqb_variant _ _ H), H; reflexivity])).
  - (* arrays *)
    rewrite contained_arr. split.
    + intros H. destruct a as [|x|s|n|la|oa]; try discriminate H.
      apply contained_arrays. intros bv Hin. rewrite forallb_forall in H. specialize (H bv Hin).
      destruct (is_scalar bv) eqn:Sb.
      * apply existsb_exists in H. destruct H as (av & Hav & E). exists av. split; [exact Hav|].
        apply contained_scalars. apply scalar_eq_eqb; assumption.
      * apply existsb_exists in H. destruct H as (av & Hav & E). apply andb_true_iff in E. destruct E as [Ca E].
        exists av. split; [exact Hav|]. rewrite Forall_forall in IH.
        apply (IH bv Hin av (wf_arr_elem la av Wa Hav) (wf_arr_elem lb bv Wb Hin)); [|exact E].
        unfold not_arr_scalar. destruct av; try exact I. exact Sb.
    + intros H. apply contained_arr_inv in H. destruct H as (la & -> & H).
      apply forallb_forall. intros bv Hin. destruct (H bv Hin) as (av & Hav & C).
      destruct (is_scalar bv) eqn:Sb.
      * apply existsb_exists. exists av. split; [exact Hav|]. apply scalar_eq_eqb; [exact Sb|].
        apply contained_scalar_r; assumption.
      * apply existsb_exists. exists av. split; [exact Hav|].
        pose proof (same_variant_scalar av bv (contained_variant av bv C)) as Sa. rewrite Sb in Sa.
        apply andb_true_iff. split; [apply container_not_scalar; exact Sa|].
        rewrite Forall_forall in IH.
        apply (IH bv Hin av (wf_arr_elem la av Wa Hav) (wf_arr_elem lb bv Wb Hin)); [|exact C].
        unfold not_arr_scalar. destruct av; try exact I. exact Sb.
  - (* objects *)
    rewrite contained_obj. split.
    + intros H. destruct a as [|x|s|n|la|oa]; try discriminate H.
      apply andb_true_iff in H. destruct H as [_ H].
      apply contained_objects. intros k bv Hin. rewrite forallb_forall in H. specialize (H (k, bv) Hin). cbn [fst snd] in H.
      destruct (assoc_lookup k oa) as [av|] eqn:L; [|discriminate H].
      apply andb_true_iff in H. destruct H as [V H]. pose proof (lookup_In oa k av L) as Hav.
      exists av. split; [exact Hav|].
      pose proof (same_variant_scalar av bv V) as S.
      destruct (is_scalar av) eqn:Sa.
      * apply contained_scalars. apply scalar_eq_eqb; [symmetry; exact S|exact H].
      * rewrite Forall_forall in IH.
        apply (IH (k, bv) Hin av (wf_obj_elem oa k av Wa Hav) (wf_obj_elem ob k bv Wb Hin)); [|exact H].
        unfold not_arr_scalar. destruct av; try exact I. symmetry. exact S.
    + intros H. apply contained_obj_inv in H. destruct H as (oa & -> & H).
      apply andb_true_iff. split.
      * apply Nat.leb_le. apply (keys_found_length oa ob (wf_obj_sorted ob Wb)).
        intros k bv Hin. destruct (H k bv Hin) as (av & Hav & _). exists av. exact Hav.
      * apply forallb_forall. intros [k bv] Hin. cbn [fst snd]. destruct (H k bv Hin) as (av & Hav & C).
        rewrite (lookup_self oa (wf_obj_sorted oa Wa) k av Hav).
        pose proof (contained_variant av bv C) as V. rewrite V. cbn [andb].
        pose proof (same_variant_scalar av bv V) as S.
        destruct (is_scalar av) eqn:Sa.
        -- apply scalar_eq_eqb; [symmetry; exact S|]. apply contained_scalar_l; assumption.
        -- rewrite Forall_forall in IH.
           apply (IH (k, bv) Hin av (wf_obj_elem oa k av Wa Hav) (wf_obj_elem ob k bv Wb Hin)); [|exact C].
           unfold not_arr_scalar. destruct av; try exact I. symmetry. exact S.
Qed.

(* ---- the theorem ---- *)
Theorem contains_t_spec : forall a b, wf_shape a = true -> wf_shape b = true ->
  (contains_t a b = true <-> contains_top a b).
Proof.
  intros a b Wa Wb. unfold contains_t, contains_top.
  destruct (is_scalar b) eqn:Sb.
  - destruct a as [|x|s|n|la|oa].
    1-4, 6: (rewrite (contained_core b _ Wa Wb I); split; [intros H; left; exact H|];
             intros [H|(la & E & _)]; [exact H|discriminate E]).
    rewrite (contained_scalar b (VArr la) Sb). split.
    + intros H. right. exists la. split; [reflexivity|]. split; [reflexivity|].
      apply existsb_exists in H. destruct H as (x & Hx & E). exists x. split; [exact Hx|]. apply scalar_eq_eqb; assumption.
    + intros [H|(la' & E & _ & x & Hx & Ex)].
      * apply contained_variant in H. destruct b; discriminate.
      * injection E as <-. apply existsb_exists. exists x. split; [exact Hx|]. apply scalar_eq_eqb; assumption.
  - rewrite (contained_core b a Wa Wb).
    + split; [intros H; left; exact H|]. intros [H|(la & _ & Sb' & _)]; [exact H|congruence].
    + unfold not_arr_scalar. destruct a; try exact I. exact Sb.
Qed.

(* the declarative relation is decidable on well-formed documents, reflexive and transitive: inherited *)
Corollary contains_top_refl v : wf_shape v = true -> contains_top v v.
Proof. intros W. apply contains_t_spec; [exact W|exact W|]. apply contains_refl. exact W. Qed.

Corollary contains_top_trans a b c : wf_shape a = true -> wf_shape b = true -> wf_shape c = true ->
  contains_top a b -> contains_top b c -> contains_top a c.
Proof.
  intros Wa Wb Wc H1 H2. apply contains_t_spec; [exact Wa|exact Wc|].
  apply (contains_trans c b a); apply contains_t_spec; assumption.
Qed.
