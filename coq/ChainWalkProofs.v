(* ChainWalkProofs.v — chains over byte registers simulate chains over trees (C07).
   One-step lemmas: on the encodings of well-shaped registers within the size bounds every operation of ChainWalk.v
   leaves behind exactly the encodings of the documents the tree operation produces (each case is the `_w_enc`
   refinement theorem of that operation); induction over the operation list gives the simulation; canonicity of every
   intermediate register follows from the tree invariant of TreeWf.v. *)
From Coq Require Import List NArith ZArith Bool Lia ZifyBool ZifyNat ZifyN.
Import ListNotations.
From JB Require Import Constants Bytes Utf8 Num Value Codec TreeOps SetOps Path PathSem Dispatch
  Walk EditWalk EditWalk2 SetWalk SelWalk TreeWf TreeWf2 ChainWalk
  CodecProofs RoundtripProofs DispatchProofs WalkProofs EditWalkProofs EditWalk2Proofs SetWalkProofs SelWalkProofs.
Open Scope N_scope.
Set Default Timeout 60.
Arguments N.land : simpl never. Arguments N.lor : simpl never. Arguments N.eqb : simpl never. Arguments N.ltb : simpl never.
Arguments N.leb : simpl never. Arguments N.add : simpl never. Arguments N.mul : simpl never. Arguments N.sub : simpl never.
Arguments be32 : simpl never. Arguments read_u32 : simpl never.

(* ================================================================ selections keep documents well-shaped *)
Lemma wf_select_indices l ixs : forallb wf_shape l = true -> forallb wf_shape (select_indices l ixs) = true.
Proof.
  intros H. unfold select_indices. destruct l as [|x0 l0]; [reflexivity|].
  set (L := x0 :: l0) in *. generalize (flat_map (index_positions (lenZ L)) ixs). intros ks.
  induction ks as [|k ks IH]; [reflexivity|]. cbn [flat_map]. rewrite forallb_app, IH, andb_true_r.
  destruct (nth_opt L k) as [x|] eqn:E; [|reflexivity]. cbn [forallb]. rewrite (forallb_nth wf_shape L k x H E). reflexivity.
Qed.

Lemma wf_select_step p v l : wf_shape v = true -> select_step p v = Ok l -> forallb wf_shape l = true.
Proof.
  intros Hv H. unfold select_step in H.
  assert (Hs : forallb wf_shape [v] = true) by (cbn [forallb]; rewrite Hv; reflexivity).
  destruct (is_container v) eqn:C.
  - assert (Hlook : forall n o, wf_shape (VObj o) = true ->
                forallb wf_shape (match assoc_lookup n o with Some x => [x] | None => [] end) = true).
    { intros n o Ho. destruct (assoc_lookup n o) as [x|] eqn:E; [|reflexivity]. cbn [forallb]. rewrite andb_true_r.
      cbn [wf_shape] in Ho. apply andb_true_iff in Ho. destruct Ho as [_ M]. apply (members_values o x M). eapply lookup_member; exact E. }
    destruct p; try discriminate H; injection H as <-; destruct v as [| | | |la|o]; try reflexivity; try exact Hs; try exact Hv;
      try (apply Hlook; exact Hv); try (apply wf_select_indices; exact Hv).
    (* .* on an object *)
    cbn [wf_shape] in Hv. apply andb_true_iff in Hv. destruct Hv as [_ M].
    rewrite forallb_forall. intros x Hx. apply (members_values o x M Hx).
  - destruct p; injection H as <-; try reflexivity; exact Hs.
Qed.

Lemma wf_flat_map_res f : (forall v l, wf_shape v = true -> f v = Ok l -> forallb wf_shape l = true) ->
  forall fr out, forallb wf_shape fr = true -> flat_map_res f fr = Ok out -> forallb wf_shape out = true.
Proof.
  intros Hf. induction fr as [|x r IH]; intros out H E; cbn [flat_map_res] in E; [injection E as <-; reflexivity|].
  cbn [forallb] in H. apply andb_true_iff in H. destruct H as [H1 H2].
  destruct (f x) as [a| |] eqn:Ea; cbn [bind] in E; try discriminate E.
  destruct (flat_map_res f r) as [b| |] eqn:Eb; cbn [bind] in E; try discriminate E. injection E as <-.
  rewrite forallb_app, (Hf x a H1 Ea), (IH b H2 eq_refl). reflexivity.
Qed.
Lemma wf_filter_res (f : value -> res bool) : forall fr out, forallb wf_shape fr = true -> filter_res f fr = Ok out -> forallb wf_shape out = true.
Proof.
  induction fr as [|x r IH]; intros out H E; cbn [filter_res] in E; [injection E as <-; reflexivity|].
  cbn [forallb] in H. apply andb_true_iff in H. destruct H as [H1 H2].
  destruct (f x) as [k| |]; cbn [bind] in E; try discriminate E.
  destruct (filter_res f r) as [b| |]; cbn [bind] in E; try discriminate E. injection E as <-.
  specialize (IH b H2 eq_refl). destruct k; cbn [forallb]; rewrite ?H1; exact IH.
Qed.
Lemma wf_walk fe : forall ps fr out, forallb wf_shape fr = true -> walk fe ps fr = Ok out -> forallb wf_shape out = true.
Proof.
  induction ps as [|p r IH]; intros fr out H E; cbn [walk] in E; [injection E as <-; exact H|].
  destruct p; try (apply (IH fr out H E));
    try (destruct (flat_map_res _ fr) as [fr'| |] eqn:Ef; cbn [bind] in E; try discriminate E;
         apply (IH fr' out); [|exact E]; eapply wf_flat_map_res; [|exact H|exact Ef]; intros v0 l0; apply wf_select_step);
    try (destruct (filter_res _ fr) as [fr'| |] eqn:Ef; cbn [bind] in E; try discriminate E;
         apply (IH fr' out); [|exact E]; eapply wf_filter_res; [exact H|exact Ef]).
Qed.
Lemma wf_find_positions root ps items : wf_shape root = true -> find_positions root None ps = Ok items ->
  forallb wf_shape items = true.
Proof.
  intros Hr E. unfold find_positions, find_positions_with in E.
  assert (Hs : forallb wf_shape [root] = true) by (cbn [forallb]; rewrite Hr; reflexivity).
  destruct ps as [|p r]; cbn [bind] in E; [eapply wf_walk; [exact Hs|exact E]|].
  destruct p; cbn [bind] in E; try discriminate E; eapply wf_walk; try exact E; exact Hs.
Qed.
Lemma wf_mode_items m items : forallb wf_shape items = true -> forallb wf_shape (mode_items m items) = true.
Proof.
  intros Hi. assert (Ha : forallb wf_shape [VArr items] = true) by (cbn [forallb wf_shape]; rewrite Hi; reflexivity).
  destruct m; cbn [mode_items]; try exact Hi; try exact Ha.
  - apply forallb_firstn. exact Hi.
  - destruct (1 <? length items)%nat; [exact Ha|exact Hi].
Qed.
Lemma wf_select_items root ps m its : wf_shape root = true -> select_items_t root ps m = Ok its -> forallb wf_shape its = true.
Proof.
  unfold select_items_t. intros Hr E.
  destruct (find_positions root None ps) as [items| |] eqn:F; cbn [bind] in E; try discriminate E.
  pose proof (wf_find_positions _ _ _ Hr F) as Hi.
  destruct (is_predicate ps); injection E as <-; [reflexivity|]. apply wf_mode_items. exact Hi.
Qed.

(* ---- the tree invariant for the extended language ---- *)
Lemma step_docs3_wf regs o : Inv regs -> forallb wf_shape (step_docs3 regs o) = true.
Proof.
  intros HI. destruct o as [b|a ps m|a ps m]; cbn [step_docs3].
  - destruct (step_doc2 regs b) as [d|] eqn:E; [|reflexivity]. cbn [forallb]. rewrite (step_doc2_wf regs b d HI E). reflexivity.
  - destruct (select_items_t _ ps m) as [l| |] eqn:E; try reflexivity. eapply wf_select_items; [|exact E]. apply wf_normalise. apply reg_wf. exact HI.
  - destruct (select_items_t _ ps m) as [l| |] eqn:E; try reflexivity. eapply wf_select_items; [|exact E]. apply wf_normalise. apply reg_wf. exact HI.
Qed.
Lemma step3_inv regs o : Inv regs -> Inv (step3 regs o).
Proof.
  intros H. unfold step3. apply Forall_app. split; [exact H|]. apply Forall_forall. intros x Hx.
  pose proof (step_docs3_wf regs o H) as W. rewrite forallb_forall in W. apply W. exact Hx.
Qed.
Theorem chain3_inv ops : forall regs, Inv regs -> Inv (run3 regs ops).
Proof. induction ops as [|o ops IH]; intros regs H; cbn [run3 fold_left]; [exact H|]. apply IH. apply step3_inv. exact H. Qed.

(* the embeddings of the two smaller languages *)
Lemma step3_lift2 regs o : step3 regs (lift2 o) = step2 regs o.
Proof. unfold step3, step2, lift2. cbn [step_docs3]. destruct (step_doc2 regs o); [reflexivity|apply app_nil_r]. Qed.
Lemma run3_lift2 ops : forall regs, run3 regs (map lift2 ops) = run2 regs ops.
Proof. induction ops as [|o ops IH]; intros regs; [reflexivity|]. cbn [map run3 run2 fold_left]. rewrite step3_lift2. apply IH. Qed.
Lemma step3_lift1 regs o : step3 regs (lift1 o) = step regs o.
Proof. unfold step3, step, lift1. cbn [step_docs3 step_doc2]. destruct (step_doc regs o); [reflexivity|apply app_nil_r]. Qed.
Lemma run3_lift1 ops : forall regs, run3 regs (map lift1 ops) = run regs ops.
Proof. induction ops as [|o ops IH]; intros regs; [reflexivity|]. cbn [map run3 run fold_left]. rewrite step3_lift1. apply IH. Qed.

(* ================================================================ cutting a selection buffer at its offsets *)
Fixpoint ends_from (s : N) (items : list value) : list N :=
  match items with [] => [] | x :: r => (s + lenN (enc x)) :: ends_from (s + lenN (enc x)) r end.

Lemma build_values_eq items : forall buf offs,
  build_values buf items offs = (buf ++ flat_map enc items, offs ++ ends_from (lenN buf) items).
Proof.
  induction items as [|x r IH]; intros buf offs; cbn [build_values flat_map ends_from]; [rewrite !app_nil_r; reflexivity|].
  rewrite IH. rewrite <- !app_assoc. cbn [app]. rewrite lenN_app. reflexivity.
Qed.

Lemma cut_items items : forall A B, cut (A ++ flat_map enc items ++ B) (lenN A) (ends_from (lenN A) items) = map enc items.
Proof.
  induction items as [|x r IH]; intros A B; cbn [ends_from cut map flat_map]; [reflexivity|]. f_equal.
  - replace (N.to_nat (lenN A + lenN (enc x) - lenN A)) with (length (enc x)) by (unfold lenN; lia).
    replace (N.to_nat (lenN A)) with (length A) by (unfold lenN; lia).
    rewrite skipn_app, skipn_all, Nat.sub_diag. cbn [skipn app]. rewrite <- app_assoc.
    rewrite firstn_app, firstn_all, Nat.sub_diag. cbn [firstn]. apply app_nil_r.
  - rewrite <- lenN_app. rewrite <- app_assoc. rewrite app_assoc. apply IH.
Qed.

(* what select_t leaves in the buffer, cut at its offsets, is the list of encodings of the selected documents *)
Lemma mode_cut m pre items :
  let '(buf, offs) := match m with
                      | MAll => build_values pre items []
                      | MFirst => build_values pre (firstn 1 items) []
                      | MArray => build_array_items pre items
                      | MMixed => if (1 <? length items)%nat then build_array_items pre items else build_values pre items []
                      end in
  exists tail, buf = pre ++ tail /\ cut buf (lenN pre) offs = map enc (mode_items m items).
Proof.
  assert (HV : forall its, let '(buf, offs) := build_values pre its [] in
                exists tail, buf = pre ++ tail /\ cut buf (lenN pre) offs = map enc its).
  { intros its. rewrite build_values_eq. cbn [app]. exists (flat_map enc its). split; [reflexivity|].
    pose proof (cut_items its pre []) as C. rewrite app_nil_r in C. exact C. }
  assert (HA : let '(buf, offs) := build_array_items pre items in
                exists tail, buf = pre ++ tail /\ cut buf (lenN pre) offs = map enc [VArr items]).
  { unfold build_array_items. exists (enc (VArr items)). split; [reflexivity|].
    pose proof (cut_items [VArr items] pre []) as C. cbn [flat_map ends_from] in C. rewrite !app_nil_r in C.
    rewrite lenN_app. exact C. }
  destruct m; cbn [mode_items].
  - apply HV.
  - exact HA.
  - apply HV.
  - destruct (1 <? length items)%nat; [exact HA|apply HV].
Qed.

(* what select_t leaves in the buffer, cut at its offsets, is the list of encodings of the selected documents *)
Lemma select_t_cut root ps m pre :
  match select_t root ps m pre with
  | Ok (buf, offs) => exists its tail, select_items_t root ps m = Ok its /\ buf = pre ++ tail /\ cut buf (lenN pre) offs = map enc its
  | Err e => select_items_t root ps m = Err e
  | Panic => select_items_t root ps m = Panic
  end.
Proof.
  unfold select_t, select_items_t.
  destruct (find_positions root None ps) as [items| |]; cbn [bind]; try reflexivity.
  destruct (is_predicate ps).
  - exists [], (enc (VBool match items with [] => false | _ => true end)). repeat split.
  - pose proof (mode_cut m pre items) as C.
    destruct (match m with MAll => _ | MFirst => _ | MArray => _ | MMixed => _ end) as [buf offs].
    destruct C as (tail & E1 & E2). exists (mode_items m items), tail. auto.
Qed.

(* ================================================================ one operation on encodings *)
(* the size side condition: the entry-word / header bounds of the format (payload < 2^28 bytes, count < 2^29) and the
   is_jsonb sniffing bound on the top-level count (< 2^24) *)
Definition size_ok (v : value) : Prop := wf_size v = true /\ top_ok v.
(* every register ever produced along the TREE run is within the bounds (registers are only appended, so the final
   register file holds all of them) *)
Definition sizes_ok (regs : list value) (ops : list op3) : Prop := Forall size_ok (run3 regs ops).

Lemma reg_ok regs a : Inv regs -> Forall size_ok regs -> wfb (reg regs a) = true /\ top_ok (reg regs a).
Proof.
  intros HI HS. unfold wfb. rewrite (reg_wf regs a HI). cbn [andb]. unfold reg.
  destruct (Nat.lt_ge_cases a (length regs)) as [L|L].
  - rewrite Forall_forall in HS. apply (HS (nth a regs VNull)). apply nth_In. exact L.
  - rewrite nth_overflow by lia. split; [reflexivity|]. unfold top_ok. cbn [top_count]. lia.
Qed.
Lemma regb_enc regs a : regb (map enc regs) a = enc (reg regs a).
Proof. unfold regb, reg. apply map_nth. Qed.
Lemma regb_enc_map regs rs : map (regb (map enc regs)) rs = map enc (map (reg regs) rs).
Proof. rewrite map_map. apply map_ext. intros a. apply regb_enc. Qed.
Lemma regs_sizes regs rs : Inv regs -> Forall size_ok regs -> Forall (fun v => wf_size v = true) (map (reg regs) rs).
Proof.
  intros HI HS. apply Forall_forall. intros x Hx. apply in_map_iff in Hx. destruct Hx as (a & <- & _).
  apply wfb_size. apply (reg_ok regs a HI HS).
Qed.

(* what a call leaves behind, against the documents `its` the tree operation produces:
   an editor's buffer is the caller's prefix followed by the encoding of the one new document; an accessor's owned
   result is that encoding; a selection's buffer extends the prefix and its offsets delimit the encodings *)
Inductive out_spec (pre : list N) : outcome -> list value -> Prop :=
| SBufOk d : out_spec pre (OutBuf (Ok (pre ++ enc d))) [d]
| SBufErr e : out_spec pre (OutBuf (Err e)) []
| SOwnedSome d : out_spec pre (OutOwned (Ok (Some (enc d)))) [d]
| SOwnedNone : out_spec pre (OutOwned (Ok None)) []
| SSelOk buf offs tail its : buf = pre ++ tail -> cut buf (lenN pre) offs = map enc its -> out_spec pre (OutSel (Ok (buf, offs))) its
| SSelErr e : out_spec pre (OutSel (Err e)) []
| SSelPanic : out_spec pre (OutSel Panic) []
| SGuard : out_spec pre OutGuard [].

Lemma docs_of_spec pre out its : out_spec pre out its -> docs_of pre out = map enc its.
Proof.
  intros H. destruct H; cbn [docs_of map]; try reflexivity.
  - rewrite skipn_app, skipn_all, Nat.sub_diag. reflexivity.
  - assumption.
Qed.

(* tree editors answer Ok or Err, never Panic *)
Definition no_panic {A} (r : res A) : Prop := match r with Panic => False | _ => True end.
Lemma spec_res_map pre (r : res value) : no_panic r ->
  out_spec pre (OutBuf (res_map (fun x => pre ++ enc x) r)) (match match r with Ok d => Some d | _ => None end with Some d => [d] | None => [] end).
Proof. destruct r; cbn [res_map no_panic]; intros H; [constructor|constructor|destruct H]. Qed.
Lemma spec_owned pre (r : option value) :
  out_spec pre (OutOwned (Ok (option_map enc r))) (match r with Some d => [d] | None => [] end).
Proof. destruct r; cbn [option_map]; constructor. Qed.

Lemma delete_by_name_np v name : no_panic (delete_by_name_t v name).
Proof. destruct v; cbn; exact I. Qed.
Lemma delete_by_index_np v i : no_panic (delete_by_index_t v i).
Proof. destruct v; cbn [delete_by_index_t no_panic]; try exact I. destruct (DBI_T_KEEP _ _); exact I. Qed.
Lemma object_insert_np v k x upd : no_panic (object_insert_t v k x upd).
Proof. destruct v; cbn [object_insert_t no_panic]; try exact I. destruct (assoc_lookup k l); [destruct upd|]; exact I. Qed.
Lemma object_delete_np v ks : no_panic (object_delete_t v ks).
Proof. destruct v; cbn; exact I. Qed.
Lemma object_pick_np v ks : no_panic (object_pick_t v ks).
Proof. destruct v; cbn; exact I. Qed.
Lemma delete_by_keypath_np v ks : no_panic (delete_by_keypath_t v ks).
Proof. unfold delete_by_keypath_t. destruct v; try exact I; destruct (del_keypath _ _ _); exact I. Qed.

Lemma size_one (d : value) (P : value -> Prop) : Forall P [d] -> P d.
Proof. intros H. inversion H; assumption. Qed.

Lemma call_base_spec pre regs o : Inv regs -> Forall size_ok regs ->
  Forall size_ok (match step_doc regs o with Some d => [d] | None => [] end) ->
  out_spec pre (call_base pre (map enc regs) o) (match step_doc regs o with Some d => [d] | None => [] end).
Proof.
  intros HI HS HD. destruct o; cbn [call_base step_doc] in *; rewrite ?regb_enc, ?regb_enc_map.
  - destruct (reg_ok regs a HI HS) as [Wa Ta]. destruct (reg_ok regs b HI HS) as [Wb Tb].
    rewrite (concat_w_enc _ _ pre Wa Ta Wb Tb (proj1 (size_one _ _ HD))). constructor.
  - destruct (reg_ok regs a HI HS) as [Wa Ta]. rewrite (delete_by_name_w_enc _ name pre Wa Ta). apply spec_res_map. apply delete_by_name_np.
  - destruct (reg_ok regs a HI HS) as [Wa Ta]. rewrite (delete_by_index_w_enc _ i pre Wa Ta). apply spec_res_map. apply delete_by_index_np.
  - destruct (reg_ok regs a HI HS) as [Wa Ta]. destruct (reg_ok regs b HI HS) as [Wb Tb].
    rewrite (array_insert_w_enc _ pos _ pre Wa Ta Wb Tb (proj1 (size_one _ _ HD))). constructor.
  - destruct (key_ok k); [|constructor].
    destruct (reg_ok regs a HI HS) as [Wa Ta]. destruct (reg_ok regs b HI HS) as [Wb Tb].
    rewrite (object_insert_w_enc _ _ k upd pre Wa Ta Wb Tb).
    + apply spec_res_map. apply object_insert_np.
    + intros y Ey. rewrite Ey in HD. apply (size_one _ _ HD).
  - destruct (reg_ok regs a HI HS) as [Wa Ta]. rewrite (object_delete_w_enc _ ks pre Wa Ta). apply spec_res_map. apply object_delete_np.
  - destruct (reg_ok regs a HI HS) as [Wa Ta]. rewrite (object_pick_w_enc _ ks pre Wa Ta). apply spec_res_map. apply object_pick_np.
  - destruct (reg_ok regs a HI HS) as [Wa Ta]. rewrite (strip_nulls_w_enc _ pre Wa Ta). constructor.
  - rewrite (build_array_w_enc _ pre (regs_sizes regs rs HI HS)). constructor.
  - destruct (forallb key_ok ks); [|constructor]. rewrite (build_object_w_enc ks _ pre (regs_sizes regs rs HI HS)). constructor.
  - destruct (reg_ok regs a HI HS) as [Wa Ta]. rewrite (get_by_index_w_enc _ i Wa Ta). apply spec_owned.
  - destruct (reg_ok regs a HI HS) as [Wa Ta]. rewrite (get_by_name_w_enc _ name ic Wa Ta). apply spec_owned.
  - destruct (reg_ok regs a HI HS) as [Wa Ta]. rewrite (array_distinct_w_enc _ pre Wa Ta (proj1 (size_one _ _ HD))). constructor.
  - destruct (reg_ok regs a HI HS) as [Wa Ta]. destruct (reg_ok regs b HI HS) as [Wb Tb].
    rewrite (array_intersection_w_enc _ _ pre Wa Ta Wb Tb (proj1 (size_one _ _ HD))). constructor.
  - destruct (reg_ok regs a HI HS) as [Wa Ta]. destruct (reg_ok regs b HI HS) as [Wb Tb].
    rewrite (array_except_w_enc _ _ pre Wa Ta Wb Tb (proj1 (size_one _ _ HD))). constructor.
  - destruct (reg_ok regs a HI HS) as [Wa Ta]. unfold from_slice. rewrite (parse_jsonb_enc _ Wa). cbn [res_map].
    rewrite (write_to_vec_spec _ (proj1 (size_one _ _ HD)) pre). constructor.
Qed.

Theorem call_spec pre regs o : Inv regs -> Forall size_ok regs -> Forall size_ok (step_docs3 regs o) ->
  out_spec pre (call_b pre (map enc regs) o) (step_docs3 regs o).
Proof.
  intros HI HS HD. destruct o as [[b|a ks|a ks|a]|a ps m|a ps m]; cbn [call_b step_docs3 step_doc2] in *; rewrite ?regb_enc.
  - apply call_base_spec; assumption.
  - destruct (reg_ok regs a HI HS) as [Wa Ta]. rewrite (get_by_keypath_w_enc _ ks Wa Ta). apply spec_owned.
  - destruct (reg_ok regs a HI HS) as [Wa Ta]. rewrite (delete_by_keypath_w_enc' _ ks pre Wa Ta). apply spec_res_map. apply delete_by_keypath_np.
  - destruct (reg_ok regs a HI HS) as [Wa Ta]. rewrite (object_keys_w_enc _ Wa Ta). apply spec_owned.
  - destruct (reg_ok regs a HI HS) as [Wa Ta]. rewrite (select_w_enc _ ps m pre Wa).
    pose proof (select_t_cut (normalise (reg regs a)) ps m pre) as C.
    destruct (select_t _ ps m pre) as [[buf offs]|e|].
    + destruct C as (its & tail & E1 & E2 & E3). rewrite E1. econstructor; eassumption.
    + rewrite C. constructor.
    + rewrite C. constructor.
  - destruct (reg_ok regs a HI HS) as [Wa Ta]. rewrite (get_by_path_gen_w_enc m _ ps pre Wa Ta).
    pose proof (select_t_cut (normalise (reg regs a)) ps m pre) as C.
    destruct (select_t _ ps m pre) as [[buf offs]|e|].
    + destruct C as (its & tail & E1 & E2 & E3). rewrite E1. econstructor; eassumption.
    + rewrite C. constructor.
    + rewrite C. constructor.
Qed.

(* one step over byte registers = one step over trees, for any content of the output buffer *)
Theorem step_bp_enc pre regs o : Inv regs -> Forall size_ok regs -> Forall size_ok (step_docs3 regs o) ->
  step_bp pre (map enc regs) o = map enc (step3 regs o).
Proof.
  intros HI HS HD. unfold step_bp, step3. rewrite map_app. f_equal. apply docs_of_spec. apply call_spec; assumption.
Qed.

(* ================================================================ chains *)
Lemma run3_prefix ops : forall regs, exists t, run3 regs ops = regs ++ t.
Proof.
  induction ops as [|o ops IH]; intros regs; cbn [run3 fold_left]; [exists []; symmetry; apply app_nil_r|].
  destruct (IH (step3 regs o)) as [t E]. unfold run3 in E. rewrite E. unfold step3. rewrite <- app_assoc. eexists; reflexivity.
Qed.
Lemma sizes_ok_step regs o ops : sizes_ok regs (o :: ops) ->
  Forall size_ok regs /\ Forall size_ok (step_docs3 regs o) /\ sizes_ok (step3 regs o) ops.
Proof.
  unfold sizes_ok. change (run3 regs (o :: ops)) with (run3 (step3 regs o) ops). intros H.
  split; [|split; [|exact H]]; destruct (run3_prefix ops (step3 regs o)) as [t E]; rewrite E in H;
    apply Forall_app in H; destruct H as [H _]; unfold step3 in H; apply Forall_app in H; destruct H as [H1 H2]; assumption.
Qed.

(* THE SIMULATION: a chain over byte registers, each result feeding the following operations, computes at every step
   the encodings of the registers of the same chain over trees -- whatever the output buffer held before each call *)
Theorem run_bp_enc pre ops : forall regs, Inv regs -> sizes_ok regs ops -> run_bp pre (map enc regs) ops = map enc (run3 regs ops).
Proof.
  induction ops as [|o ops IH]; intros regs HI HS; [reflexivity|].
  destruct (sizes_ok_step regs o ops HS) as (H1 & H2 & H3).
  change (run_bp pre (map enc regs) (o :: ops)) with (run_bp pre (step_bp pre (map enc regs) o) ops).
  change (run3 regs (o :: ops)) with (run3 (step3 regs o) ops).
  rewrite (step_bp_enc pre regs o HI H1 H2). apply IH; [apply step3_inv; exact HI|exact H3].
Qed.
Theorem run_b_enc ops regs : Inv regs -> sizes_ok regs ops -> run_b (map enc regs) ops = map enc (run3 regs ops).
Proof. apply run_bp_enc. Qed.

(* the statement for the operation languages of TreeWf.v (`op`, `run`) and TreeWf2.v (`op2`, `run2`) *)
Theorem run_b_enc1 ops regs : Inv regs -> sizes_ok regs (map lift1 ops) -> run_b (map enc regs) (map lift1 ops) = map enc (run regs ops).
Proof. intros HI HS. rewrite <- run3_lift1. apply run_b_enc; assumption. Qed.
Theorem run_b_enc2 ops regs : Inv regs -> sizes_ok regs (map lift2 ops) -> run_b (map enc regs) (map lift2 ops) = map enc (run2 regs ops).
Proof. intros HI HS. rewrite <- run3_lift2. apply run_b_enc; assumption. Qed.

(* every intermediate state too: the registers after any prefix of the chain *)
Lemma sizes_ok_prefix ops1 : forall regs ops2, sizes_ok regs (ops1 ++ ops2) -> sizes_ok regs ops1.
Proof.
  unfold sizes_ok, run3. intros regs ops2 H. rewrite fold_left_app in H.
  destruct (run3_prefix ops2 (fold_left step3 ops1 regs)) as [t E]. unfold run3 in E. rewrite E in H.
  apply Forall_app in H. apply H.
Qed.
Theorem run_b_enc_every_step ops1 ops2 regs : Inv regs -> sizes_ok regs (ops1 ++ ops2) ->
  run_b (map enc regs) ops1 = map enc (run3 regs ops1).
Proof. intros HI HS. apply run_b_enc; [exact HI|]. eapply sizes_ok_prefix; exact HS. Qed.

(* connection with C17 (functions append to the caller's buffer): in a chain, what any call leaves in the output buffer
   is the caller's prefix followed by new bytes; for an editor exactly the encoding of the tree result *)
Theorem chain_call_appends pre regs o : Inv regs -> Forall size_ok regs -> Forall size_ok (step_docs3 regs o) ->
  match call_b pre (map enc regs) o with
  | OutBuf (Ok buf) => exists d, step_docs3 regs o = [d] /\ buf = pre ++ enc d
  | OutSel (Ok (buf, offs)) => exists tail, buf = pre ++ tail /\ cut buf (lenN pre) offs = map enc (step_docs3 regs o)
  | OutBuf Panic | OutOwned (Err _) | OutOwned Panic => False
  | _ => True
  end.
Proof.
  intros HI HS HD. pose proof (call_spec pre regs o HI HS HD) as H. inversion H; try exact I.
  - exists d. split; reflexivity.
  - exists tail. split; assumption.
Qed.

(* ================================================================ canonicity of every register of a byte chain *)
Theorem enc_identity a b : wfb a = true -> wfb b = true -> (enc a = enc b <-> normalise a = normalise b).
Proof.
  intros Wa Wb. split; intros E.
  - pose proof (parse_jsonb_enc a Wa) as Pa. rewrite E, (parse_jsonb_enc b Wb) in Pa. injection Pa as Pa. symmetry. exact Pa.
  - rewrite <- (enc_normalise a), <- (enc_normalise b), E. reflexivity.
Qed.

Definition canonical (b : list N) : Prop :=
  exists v, b = enc v /\ wf_shape v = true /\ wf_size v = true /\ top_ok v /\
            parse_jsonb b = Ok (normalise v) /\ to_vec (normalise v) = b /\ is_jsonb b = true.

Lemma canonical_enc v : wf_shape v = true -> size_ok v -> canonical (enc v).
Proof.
  intros H1 [H2 H3]. assert (W : wfb v = true) by (unfold wfb; rewrite H1, H2; reflexivity).
  exists v. repeat split; try assumption.
  - apply parse_jsonb_enc. exact W.
  - rewrite to_vec_is_layout by (rewrite SelWalkProofs.wf_size_normalise; exact H2). apply enc_normalise.
  - apply is_jsonb_enc; assumption.
Qed.

Theorem run_b_canonical ops regs : Inv regs -> sizes_ok regs ops -> Forall canonical (run_b (map enc regs) ops).
Proof.
  intros HI HS. rewrite (run_b_enc ops regs HI HS). pose proof (chain3_inv ops regs HI) as HW. unfold sizes_ok in HS.
  apply Forall_forall. intros b Hb. apply in_map_iff in Hb. destruct Hb as (v & <- & Hv).
  rewrite Forall_forall in HS. unfold Inv in HW. rewrite Forall_forall in HW. apply canonical_enc; auto.
Qed.

(* a decidable form of the size condition, to discharge `sizes_ok` on concrete chains by computation *)
Definition size_okb (v : value) : bool := wf_size v && (top_count v <? 16777216).
Lemma sizes_ok_dec regs ops : forallb size_okb (run3 regs ops) = true -> sizes_ok regs ops.
Proof.
  intros H. unfold sizes_ok. apply Forall_forall. intros v Hv. rewrite forallb_forall in H. specialize (H v Hv).
  unfold size_okb in H. apply andb_true_iff in H. destruct H as [H1 H2]. split; [exact H1|]. unfold top_ok. lia.
Qed.
Lemma inv_dec regs : forallb wf_shape regs = true -> Inv regs.
Proof. intros H. unfold Inv. apply Forall_forall. rewrite forallb_forall in H. exact H. Qed.
