(* PathSem.v — JSONPath evaluation on trees: mirrors selector.rs step by step (find_positions, select_path,
   filter_expr, convert_expr_val, compare) with positions replaced by the sub-values they denote, plus the
   result modes (build_values / build_scalar_array / build_predicate_result) producing bytes and offsets. *)
From Coq Require Import List NArith ZArith Bool.
Import ListNotations.
From JB Require Import Constants Bytes Num Value Codec TreeOps Path.
Open Scope N_scope.

(* convert_index / convert_slice (mathematical integers; i32 overflow is treated in I32.v) *)
(* the `Index::LastIndex(idx) => ...` arms of convert_index and of convert_slice (start, end), generated from the source *)
Definition resolve_index (i : index) (len : Z) : Z :=
  match i with IIndex z => z | ILast z => CI_LAST z len end.
Definition resolve_start (i : index) (len : Z) : Z :=
  match i with IIndex z => z | ILast z => CS_START_LAST z len end.
Definition resolve_end (i : index) (len : Z) : Z :=
  match i with IIndex z => z | ILast z => CS_END_LAST z len end.
Fixpoint range_from (start : nat) (count : nat) : list nat :=
  match count with O => [] | S c => start :: range_from (S start) c end.
Definition index_positions (len : Z) (a : array_index) : list nat :=
  match a with
  | AIndex i => let j := resolve_index i len in
                if CI_INRANGE j len then [Z.to_nat j] else []
  | ASlice s e =>
      let s' := resolve_start s len in let e' := resolve_end e len in
      if CS_EMPTY s' e' len then []
      else let lo := CS_LO s' in let hi := CS_HI e' len in
           range_from (Z.to_nat lo) (Z.to_nat (hi - lo + 1))
  end.
Definition select_indices (l : list value) (ixs : list array_index) : list value :=
  match l with
  | [] => []
  | _ => flat_map (fun k => match nth_opt l k with Some x => [x] | None => [] end)
                  (flat_map (index_positions (lenZ l)) ixs)
  end.

(* select_path on one position *)
Definition select_step (p : path) (v : value) : res (list value) :=
  if is_container v then
    match p with
    | PDotWild => Ok (match v with VObj o => map snd o | _ => [] end)
    | PBracketWild => Ok (match v with VArr l => l | _ => [v] end)
    | PDotField n | PColonField n | PObjectField n =>
        Ok (match v with VObj o => match assoc_lookup n o with Some x => [x] | None => [] end | _ => [] end)
    | PIndices ixs => Ok (match v with VArr l => select_indices l ixs | _ => [] end)
    | _ => Panic
    end
  else match p with PBracketWild => Ok [v] | _ => Ok [] end.

Fixpoint flat_map_res {A B} (f : A -> res (list B)) (l : list A) : res (list B) :=
  match l with [] => Ok [] | x :: r => do a <- f x; do b <- flat_map_res f r; Ok (a ++ b) end.
Fixpoint filter_res {A} (f : A -> res bool) (l : list A) : res (list A) :=
  match l with [] => Ok [] | x :: r => do k <- f x; do b <- filter_res f r; Ok (if k then x :: b else b) end.

(* PathValue: derived PartialOrd = variant order, then payload *)
Definition pv_rank (v : pvalue) : N := match v with PVNull => 0 | PVBool _ => 1 | PVNum _ => 2 | PVStr _ => 3 end.
Definition pv_cmp (a b : pvalue) : comparison :=
  match a, b with
  | PVNull, PVNull => Eq
  | PVBool x, PVBool y => match x, y with false, true => Lt | true, false => Gt | _, _ => Eq end
  | PVNum x, PVNum y => num_cmp x y
  | PVStr x, PVStr y => bytes_cmp x y
  | _, _ => N.compare (pv_rank a) (pv_rank b)
  end.
Definition compare_value (op : binop) (a b : pvalue) : res bool :=
  let o := pv_cmp a b in
  match op with
  | OEq => Ok (cmp_eqb o Eq)
  | ONe => Ok (negb (cmp_eqb o Eq))
  | OLt => Ok (cmp_eqb o Lt)
  | OLe => Ok (negb (cmp_eqb o Gt))
  | OGt => Ok (cmp_eqb o Gt)
  | OGe => Ok (negb (cmp_eqb o Lt))
  | _ => Panic
  end.
Definition scalar_pvalue (v : value) : option pvalue :=
  match v with
  | VNull => Some PVNull | VBool b => Some (PVBool b) | VNum n => Some (PVNum n) | VStr s => Some (PVStr s)
  | _ => None
  end.
Fixpoint exists_res {A} (f : A -> res bool) (l : list A) : res bool :=
  match l with [] => Ok false | x :: r => do k <- f x; if k then Ok true else exists_res f r end.

(* the walk over the steps of a path: the frontier of selected positions after each step *)
Section Walk.
  Variable fe : value -> expr -> res bool.        (* filter_expr at the current root *)
  Fixpoint walk (ps : list path) (frontier : list value) : res (list value) :=
    match ps with
    | [] => Ok frontier
    | p :: r =>
        match p with
        | PRoot | PCurrent => walk r frontier
        | PFilter e | PPredicate e => do fr <- filter_res (fun pos => fe pos e) frontier; walk r fr
        | _ => do fr <- flat_map_res (select_step p) frontier; walk r fr
        end
    end.
End Walk.
(* the walk of an operand path (convert_expr_val): only plain steps are possible there *)
Fixpoint walk_operand (ps : list path) (frontier : list value) : res (list value) :=
  match ps with
  | [] => Ok frontier
  | p :: r =>
      match p with
      | PRoot | PCurrent | PFilter _ | PPredicate _ => Panic
      | _ => do fr <- flat_map_res (select_step p) frontier; walk_operand r fr
      end
  end.

(* convert_expr_val: the scalar values an operand denotes *)
Definition expr_values (root pos : value) (e : expr) : res (list pvalue) :=
  match e with
  | EValue v => Ok [v]
  | EPaths ps =>
      let start := match ps with PCurrent :: _ => pos | _ => root end in
      do fr <- walk_operand (tl ps) [start];
      Ok (flat_map (fun x => match scalar_pvalue x with Some v => [v] | None => [] end) fr)
  | _ => Panic
  end.

(* find_positions: the start position, then the frontier walk; `fe` is filter_expr at this root *)
Definition find_positions_with (fe : value -> expr -> res bool) (root : value) (current : option value) (ps : list path)
  : res (list value) :=
  do start <- match ps with
              | PCurrent :: _ => match current with Some c => Ok c | None => Panic end
              | _ => Ok root end;
  walk fe ps [start].
(* filter_expr / eval_exists: structural recursion on the expression (an `exists(paths)` walks paths whose filters are
   sub-expressions); there is no fuel: every path, however long or deeply nested, is evaluated in full *)
Fixpoint filter_expr (root pos : value) (e : expr) {struct e} : res bool :=
  match e with
  | EBin OOr l r => do a <- filter_expr root pos l; do b <- filter_expr root pos r; Ok (a || b)
  | EBin OAnd l r => do a <- filter_expr root pos l; do b <- filter_expr root pos r; Ok (a && b)
  | EBin op l r =>
      do a <- expr_values root pos l;
      do b <- expr_values root pos r;
      exists_res (fun x => exists_res (fun y => compare_value op x y) b) a
  | EExists ps =>
      do fr <- find_positions_with (fun pos' e' => filter_expr root pos' e') root (Some pos) ps;
      Ok (match fr with [] => false | _ => true end)
  | _ => Err EOther           (* after the fix: Err(InvalidJsonPath); was todo!() *)
  end.
Definition find_positions (root : value) (current : option value) (ps : list path) : res (list value) :=
  find_positions_with (fun pos e => filter_expr root pos e) root current ps.

Inductive mode := MFirst | MArray | MAll | MMixed.

(* build_values: items one after the other, offsets = running ends (positions in the same buffer) *)
Fixpoint build_values (buf : list N) (items : list value) (offs : list N) : list N * list N :=
  match items with
  | [] => (buf, offs)
  | x :: r => let buf' := buf ++ enc x in build_values buf' r (offs ++ [lenN buf'])
  end.
Definition build_array_items (buf : list N) (items : list value) : list N * list N :=
  let buf' := buf ++ enc (VArr items) in (buf', [lenN buf']).

Definition select_t (root : value) (ps : list path) (m : mode) (buf : list N) : res (list N * list N) :=
  do items <- find_positions root None ps;
  if is_predicate ps then
    Ok (buf ++ enc (VBool (match items with [] => false | _ => true end)), [])
  else
    Ok (match m with
        | MAll => build_values buf items []
        | MFirst => build_values buf (firstn 1 items) []
        | MArray => build_array_items buf items
        | MMixed => if (1 <? length items)%nat then build_array_items buf items else build_values buf items []
        end).
Definition exists_t (root : value) (ps : list path) : res bool :=
  if is_predicate ps then Ok true
  else do items <- find_positions root None ps; Ok (match items with [] => false | _ => true end).
Definition predicate_match_t (root : value) (ps : list path) : res bool :=
  if negb (is_predicate ps) then Err EInvalidPredicate
  else do items <- find_positions root None ps; Ok (match items with [] => false | _ => true end).
