(* Utf8.v — str::from_utf8 as a predicate on byte lists (RFC 3629: no overlongs, no surrogates, <= U+10FFFF) *)
From Coq Require Import List NArith Bool.
Import ListNotations.
From JB Require Import Bytes.
Open Scope N_scope.

Definition in_rng (lo hi b : N) : bool := (lo <=? b) && (b <=? hi).
Definition cont (b : N) : bool := in_rng 128 191 b.

Fixpoint utf8_valid (bs : list N) : bool :=
  match bs with
  | [] => true
  | b0 :: r =>
      if b0 <? 128 then utf8_valid r
      else if in_rng 194 223 b0 then
        match r with b1 :: r1 => cont b1 && utf8_valid r1 | _ => false end
      else if in_rng 224 239 b0 then
        match r with
        | b1 :: b2 :: r2 =>
            (if b0 =? 224 then in_rng 160 191 b1
             else if b0 =? 237 then in_rng 128 159 b1
             else cont b1) && cont b2 && utf8_valid r2
        | _ => false
        end
      else if in_rng 240 244 b0 then
        match r with
        | b1 :: b2 :: b3 :: r3 =>
            (if b0 =? 240 then in_rng 144 191 b1
             else if b0 =? 244 then in_rng 128 143 b1
             else cont b1) && cont b2 && cont b3 && utf8_valid r3
        | _ => false
        end
      else false
  end.

(* UTF-8 encoding of a code point (char::encode_utf8); callers pass scalar values only *)
Definition utf8_encode (c : N) : list N :=
  if c <? 128 then [c]
  else if c <? 2048 then [192 + c / 64; 128 + c mod 64]
  else if c <? 65536 then [224 + c / 4096; 128 + (c / 64) mod 64; 128 + c mod 64]
  else [240 + c / 262144; 128 + (c / 4096) mod 64; 128 + (c / 64) mod 64; 128 + c mod 64].

(* ---- String::from_utf8_lossy (core::str::lossy::Utf8Chunks): every maximal invalid prefix of an ill-formed
   sequence becomes U+FFFD; `safe_get` past the end reads 0, which is no continuation byte ---- *)
Definition REPLACEMENT : list N := [239; 191; 189].
Definition second3 (b0 b1 : N) : bool :=
  if b0 =? 224 then in_rng 160 191 b1 else if b0 =? 237 then in_rng 128 159 b1 else cont b1.
Definition second4 (b0 b1 : N) : bool :=
  if b0 =? 240 then in_rng 144 191 b1 else if b0 =? 244 then in_rng 128 143 b1 else cont b1.

Fixpoint lossy (bs : list N) : list N :=
  match bs with
  | [] => []
  | b0 :: r =>
      if b0 <? 128 then b0 :: lossy r
      else if in_rng 194 223 b0 then
        match r with
        | b1 :: r1 => if cont b1 then b0 :: b1 :: lossy r1 else REPLACEMENT ++ lossy r
        | [] => REPLACEMENT
        end
      else if in_rng 224 239 b0 then
        match r with
        | b1 :: r1 =>
            if second3 b0 b1 then
              match r1 with
              | b2 :: r2 => if cont b2 then b0 :: b1 :: b2 :: lossy r2 else REPLACEMENT ++ lossy r1
              | [] => REPLACEMENT
              end
            else REPLACEMENT ++ lossy r
        | [] => REPLACEMENT
        end
      else if in_rng 240 244 b0 then
        match r with
        | b1 :: r1 =>
            if second4 b0 b1 then
              match r1 with
              | b2 :: r2 =>
                  if cont b2 then
                    match r2 with
                    | b3 :: r3 => if cont b3 then b0 :: b1 :: b2 :: b3 :: lossy r3 else REPLACEMENT ++ lossy r2
                    | [] => REPLACEMENT
                    end
                  else REPLACEMENT ++ lossy r1
              | [] => REPLACEMENT
              end
            else REPLACEMENT ++ lossy r
        | [] => REPLACEMENT
        end
      else REPLACEMENT ++ lossy r
  end.
