(* KeyContainerProofs.v — C14 for containers: on the class `key_safe` (CmpKey.v) the byte order of the comparable
   keys IS compare's order, and two keys are equal exactly when the documents compare Equal.

   The key of a value at depth d is  d :: level :: body.  Inside a container the keys of the members are simply
   concatenated, so what decides a comparison is a byte of one key against a byte of the other key OR against
   whatever follows that other key (its "continuation": the marker of the next sibling, of a next sibling of an
   ancestor, or the end).  The invariant proved by induction on the value (key_ext) is therefore stated for ALL
   continuations that are empty or begin with a byte <= d:
     cmp_value x y = Eq  ->  the two keys are equal;
     cmp_value x y = o <> Eq  ->  lex (key x ++ t1) (key y ++ t2) = o, whatever t1 and t2 are. *)
From Coq Require Import List NArith ZArith Bool Lia.
Import ListNotations.
From JB Require Import Constants Bytes Num Value Codec Order CmpKey NumProofs OrderProofs KeyProofs RoundtripProofs DispatchProofs
  CompareWalk CompareWalkProofs ComparableWalk ComparableWalkProofs.
Open Scope N_scope.
Set Default Timeout 60.

(* ---------------------------------------------------------------- the key as a total function *)
Definition SL : N := level_of_tag STRING_TAG.
Definition klvl (v : value) : N :=
  match v with VArr _ => ARRAY_LEVEL | VObj _ => OBJECT_LEVEL | other => level_of_tag (tag_of other) end.
Fixpoint kbody (d : N) (v : value) : list N :=
  match v with
  | VArr l =>
      (fix go (l : list value) : list N :=
         match l with [] => [] | x :: r => (sat1 d :: klvl x :: kbody (sat1 d) x) ++ go r end) l
  | VObj o =>
      (fix go (l : list (list N * value)) : list N :=
         match l with
         | [] => []
         | (k, x) :: r => (sat1 d :: SL :: k) ++ (sat1 d :: klvl x :: kbody (sat1 d) x) ++ go r
         end) o
  | VStr s => s
  | VNum n => be_bytes 8 (f64_key (as_f64 n))
  | _ => []
  end.
Definition kb (d : N) (v : value) : list N := d :: klvl v :: kbody d v.
Fixpoint kbs (d : N) (l : list value) : list N :=
  match l with [] => [] | x :: r => kb d x ++ kbs d r end.
Definition mb (d : N) (kv : list N * value) : list N := (d :: SL :: fst kv) ++ kb d (snd kv).
Fixpoint mbs (d : N) (l : list (list N * value)) : list N :=
  match l with [] => [] | kv :: r => mb d kv ++ mbs d r end.

Lemma kbody_arr d l : kbody d (VArr l) = kbs (sat1 d) l.
Proof. cbn [kbody]. induction l as [|x l IH]; [reflexivity|]. cbn [kbs]. rewrite <- IH. reflexivity. Qed.
Lemma kbody_obj d o : kbody d (VObj o) = mbs (sat1 d) o.
Proof.
  cbn [kbody]. induction o as [|[k x] o IH]; [reflexivity|]. cbn [mbs]. rewrite <- IH. unfold mb, kb. cbn [fst snd].
  rewrite <- app_assoc. reflexivity.
Qed.

Lemma key_entry_total v : forall d, key_entry d v = Ok (kb d v).
Proof.
  induction v as [|b|s|n|l IH|o IH] using value_ind2; intros d.
  - reflexivity.
  - destruct b; reflexivity.
  - reflexivity.
  - reflexivity.
  - unfold kb. rewrite kbody_arr. cbn [key_entry klvl].
    assert (E : (fix go (l : list value) : res (list N) :=
                   match l with
                   | [] => Ok []
                   | x :: r => do a <- key_entry (sat1 d) x; do b <- go r; Ok (a ++ b)
                   end) l = Ok (kbs (sat1 d) l)).
    { induction IH as [|x xs Hx _ IHl]; [reflexivity|]. rewrite Hx, IHl. reflexivity. }
    rewrite E. reflexivity.
  - unfold kb. rewrite kbody_obj. cbn [key_entry klvl].
    assert (E : (fix go (l : list (list N * value)) : res (list N) :=
                   match l with
                   | [] => Ok []
                   | (k, x) :: r =>
                       do a <- key_entry (sat1 d) x; do b <- go r;
                       Ok ((sat1 d :: level_of_tag STRING_TAG :: k) ++ a ++ b)
                   end) o = Ok (mbs (sat1 d) o)).
    { induction IH as [|[k x] xs Hx _ IHl]; [reflexivity|]. cbn [snd] in Hx. rewrite Hx, IHl.
      cbn [bind mbs]. unfold mb. cbn [fst snd]. rewrite <- app_assoc. reflexivity. }
    rewrite E. reflexivity.
Qed.

(* the level byte is the rank of the specification *)
Lemma klvl_rank v : klvl v = rank v.
Proof. destruct v as [|[]|s|n|l|o]; vm_compute; reflexivity. Qed.

(* ---------------------------------------------------------------- lexicographic facts *)
Notation blex := (lex N.compare).

Lemma blex_app_prefix p a b : blex (p ++ a) (p ++ b) = blex a b.
Proof. induction p as [|c p IH]; [reflexivity|]. cbn [app lex]. rewrite N.compare_refl. exact IH. Qed.

(* a continuation: nothing, or something that starts with a marker no greater than d *)
Definition tail_ok (d : N) (t : list N) : Prop := match t with [] => True | m :: _ => m <= d end.

Lemma tail_ok_mono d e t : d <= e -> tail_ok d t -> tail_ok e t.
Proof. destruct t; cbn [tail_ok]; [auto|lia]. Qed.
Lemma tail_below c r d t : tail_ok d t -> d < c -> blex t (c :: r) = Lt.
Proof.
  destruct t as [|m t]; cbn [tail_ok lex]; [reflexivity|]. intros H1 H2.
  replace (N.compare m c) with Lt by (symmetry; apply N.compare_lt_iff; lia). reflexivity.
Qed.
Lemma above_tail c r d t : tail_ok d t -> d < c -> blex (c :: r) t = Gt.
Proof.
  destruct t as [|m t]; cbn [tail_ok lex]; [reflexivity|]. intros H1 H2.
  replace (N.compare c m) with Gt by (symmetry; apply N.compare_gt_iff; lia). reflexivity.
Qed.

(* the shape of the invariant, for two byte strings u and v that are the images of two things compared as o *)
Definition ext (d : N) (o : comparison) (u v : list N) : Prop :=
  match o with
  | Eq => u = v
  | _ => forall t1 t2, tail_ok d t1 -> tail_ok d t2 -> blex (u ++ t1) (v ++ t2) = o
  end.

(* strings whose bytes are all above d: the delicate case (one a proper prefix of the other) is decided by a string
   byte against the first byte of a continuation *)
Lemma str_ext d : forall s s', bytes_above d s = true -> bytes_above d s' = true -> ext d (bytes_cmp s s') s s'.
Proof.
  unfold bytes_above, bytes_cmp.
  induction s as [|c s IH]; intros [|c' s'] H1 H2; cbn [forallb] in H1, H2; cbn [lex].
  - reflexivity.
  - apply andb_true_iff in H2. destruct H2 as [H2 _]. apply N.ltb_lt in H2.
    intros t1 t2 T1 T2. cbn [app]. apply (tail_below _ _ d); assumption.
  - apply andb_true_iff in H1. destruct H1 as [H1 _]. apply N.ltb_lt in H1.
    intros t1 t2 T1 T2. cbn [app]. apply (above_tail _ _ d); assumption.
  - apply andb_true_iff in H1. destruct H1 as [_ H1]. apply andb_true_iff in H2. destruct H2 as [_ H2].
    specialize (IH s' H1 H2).
    destruct (N.compare_spec c c') as [E|L|G].
    + subst c'. destruct (lex N.compare s s'); cbn [ext] in *.
      * f_equal. exact IH.
      * intros t1 t2 T1 T2. cbn [app lex]. rewrite N.compare_refl. apply IH; assumption.
      * intros t1 t2 T1 T2. cbn [app lex]. rewrite N.compare_refl. apply IH; assumption.
    + intros t1 t2 T1 T2. cbn [app lex]. replace (N.compare c c') with Lt by (symmetry; apply N.compare_lt_iff; exact L). reflexivity.
    + intros t1 t2 T1 T2. cbn [app lex]. replace (N.compare c c') with Gt by (symmetry; apply N.compare_gt_iff; exact G). reflexivity.
Qed.

(* two images of the same length: no continuation can matter *)
Lemma same_len_ext d u v : length u = length v -> ext d (blex u v) u v.
Proof.
  intros L. destruct (blex u v) eqn:E; cbn [ext].
  - apply bytes_cmp_eq. exact E.
  - intros t1 t2 _ _. rewrite lex_app_same_len by exact L. rewrite E. reflexivity.
  - intros t1 t2 _ _. rewrite lex_app_same_len by exact L. rewrite E. reflexivity.
Qed.

(* sequencing: first (u1, v1) compared as o1, then, if Equal, (u2, v2) compared as o2.  The continuation of the first
   part is the second part followed by the outer continuation: it must itself be a continuation for the first part. *)
Lemma ext_seq d1 d o1 o2 o u1 v1 u2 v2 :
  o = match o1 with Eq => o2 | Lt => Lt | Gt => Gt end ->
  ext d1 o1 u1 v1 -> ext d o2 u2 v2 ->
  (forall t, tail_ok d t -> tail_ok d1 (u2 ++ t)) -> (forall t, tail_ok d t -> tail_ok d1 (v2 ++ t)) ->
  ext d o (u1 ++ u2) (v1 ++ v2).
Proof.
  intros -> E1 E2 Tu Tv. destruct o1; cbn [ext] in E1.
  - subst v1. destruct o2; cbn [ext] in *.
    + subst v2. reflexivity.
    + intros t1 t2 T1 T2. rewrite <- !app_assoc, blex_app_prefix. apply E2; assumption.
    + intros t1 t2 T1 T2. rewrite <- !app_assoc, blex_app_prefix. apply E2; assumption.
  - cbn [ext]. intros t1 t2 T1 T2. rewrite <- !app_assoc. apply E1; [apply Tu|apply Tv]; assumption.
  - cbn [ext]. intros t1 t2 T1 T2. rewrite <- !app_assoc. apply E1; [apply Tu|apply Tv]; assumption.
Qed.

(* a common prefix changes nothing *)
Lemma ext_prefix d o p u v : ext d o u v -> ext d o (p ++ u) (p ++ v).
Proof.
  destruct o; cbn [ext]; intros H.
  - subst v. reflexivity.
  - intros t1 t2 T1 T2. rewrite <- !app_assoc, blex_app_prefix. apply H; assumption.
  - intros t1 t2 T1 T2. rewrite <- !app_assoc, blex_app_prefix. apply H; assumption.
Qed.

(* ---------------------------------------------------------------- the class, unfolded *)
Definition safe_list (d : N) (l : list value) : bool := forallb (key_safe d) l.
Definition safe_members (d : N) (o : list (list N * value)) : bool :=
  forallb (fun kv => bytes_above d (fst kv) && key_safe d (snd kv)) o.
Lemma key_safe_arr d l : key_safe d (VArr l) = match l with [] => true | _ => d <? 255 end && safe_list (d + 1) l.
Proof. reflexivity. Qed.
Lemma key_safe_obj d o : key_safe d (VObj o) = match o with [] => true | _ => d <? 255 end && safe_members (d + 1) o.
Proof.
  cbn [key_safe]. f_equal. induction o as [|[k x] o IH]; [reflexivity|]. cbn [safe_members forallb fst snd]. rewrite IH.
  reflexivity.
Qed.

Lemma float_okb_ok b : float_okb b = true -> float_ok b.
Proof.
  unfold float_okb, float_ok. intros H. apply andb_true_iff in H. destruct H as [H1 H2]. apply N.ltb_lt in H1.
  split; [exact H1|]. intros Hn. rewrite Hn in H2. cbn [negb orb] in H2. apply N.eqb_eq in H2. exact H2.
Qed.
Lemma num_key_exactb_ok n : num_key_exactb n = true -> num_key_exact n.
Proof.
  unfold num_key_exactb, num_key_exact. intros H. apply andb_true_iff in H. destruct H as [H1 H2].
  split; [apply float_okb_ok; exact H1|]. destruct (num_cmp n (NFloat (as_f64 n))); [reflexivity|discriminate|discriminate].
Qed.
Lemma num_key_exactb_iff n : num_key_exactb n = true <-> num_key_exact n.
Proof.
  split; [apply num_key_exactb_ok|]. unfold num_key_exactb, num_key_exact, float_okb, float_ok. intros [[H1 H2] H3].
  rewrite H3. apply andb_true_iff. split; [|reflexivity]. apply andb_true_iff. split; [apply N.ltb_lt; exact H1|].
  destruct (f_is_nan (as_f64 n)); cbn [negb orb]; [apply N.eqb_eq; apply H2; reflexivity|reflexivity].
Qed.

(* the eight bytes of two exact numbers compare as the numbers do *)
Lemma num_bytes_order n m : num_key_exact n -> num_key_exact m ->
  blex (be_bytes 8 (f64_key (as_f64 n))) (be_bytes 8 (f64_key (as_f64 m))) = num_cmp n m.
Proof.
  intros [Fa Ea] [Fb Eb].
  change (blex (be_bytes 8 (f64_key (as_f64 n))) (be_bytes 8 (f64_key (as_f64 m))))
    with (bytes_cmp (be_bytes 8 (f64_key (as_f64 n))) (be_bytes 8 (f64_key (as_f64 m)))).
  rewrite be_bytes_cmp by (apply f64_key_bound; first [apply Fa|apply Fb]).
  rewrite <- (float_order_is_key_order _ _ Fa Fb).
  rewrite (num_cmp_eq_l n (NFloat (as_f64 n)) (NFloat (as_f64 m)) Ea).
  assert (Eb' : num_cmp (NFloat (as_f64 m)) m = Eq) by (rewrite num_cmp_antisym, Eb; reflexivity).
  apply (num_cmp_eq_r n (NFloat (as_f64 m)) m Eb').
Qed.

(* ---------------------------------------------------------------- the invariant *)
Definition key_ext_at (x : value) : Prop :=
  forall d y, key_safe d x = true -> key_safe d y = true -> ext d (cmp_value x y) (kb d x) (kb d y).

(* values of different kinds: the level byte decides, whatever follows *)
Lemma ext_diff_rank d x y : rank x <> rank y -> ext d (cmp_value x y) (kb d x) (kb d y).
Proof.
  intros R. rewrite (cmp_rank x y R). unfold kb. rewrite !klvl_rank.
  destruct (N.compare_spec (rank x) (rank y)) as [E|L|G]; [contradiction| |]; cbn [ext]; intros t1 t2 _ _;
    cbn [app lex]; rewrite N.compare_refl.
  - replace (N.compare (rank x) (rank y)) with Lt by (symmetry; apply N.compare_lt_iff; exact L). reflexivity.
  - replace (N.compare (rank x) (rank y)) with Gt by (symmetry; apply N.compare_gt_iff; exact G). reflexivity.
Qed.

(* same kind: the two header bytes are a common prefix *)
Lemma ext_same_head d o l u v : ext d o u v -> ext d o (d :: l :: u) (d :: l :: v).
Proof. apply (ext_prefix d o [d; l]). Qed.

Lemma tail_ok_kb d x r t : tail_ok d (kb d x ++ r ++ t).
Proof. cbn [kb app tail_ok]. lia. Qed.

(* elements of two arrays, then their lengths *)
Lemma arr_ext d l1 : Forall key_ext_at l1 -> forall l2,
  safe_list (d + 1) l1 = true -> safe_list (d + 1) l2 = true ->
  ext d (lex cmp_value l1 l2) (kbs (d + 1) l1) (kbs (d + 1) l2).
Proof.
  induction 1 as [|x xs Hx _ IH]; intros [|y ys] S1 S2; cbn [safe_list forallb] in S1, S2; cbn [lex kbs].
  - reflexivity.
  - cbn [ext]. intros t1 t2 T1 T2. unfold kb. cbn [app]. apply (tail_below _ _ d); [exact T1|lia].
  - cbn [ext]. intros t1 t2 T1 T2. unfold kb. cbn [app]. apply (above_tail _ _ d); [exact T2|lia].
  - apply andb_true_iff in S1. destruct S1 as [Sx S1]. apply andb_true_iff in S2. destruct S2 as [Sy S2].
    apply (ext_seq (d + 1) d (cmp_value x y) (lex cmp_value xs ys)).
    + destruct (cmp_value x y); reflexivity.
    + apply Hx; assumption.
    + apply IH; assumption.
    + intros t T. destruct xs as [|x2 xs]; cbn [kbs]; [cbn [app]; apply (tail_ok_mono d); [lia|exact T]|].
      rewrite <- app_assoc. apply tail_ok_kb.
    + intros t T. destruct ys as [|y2 ys]; cbn [kbs]; [cbn [app]; apply (tail_ok_mono d); [lia|exact T]|].
      rewrite <- app_assoc. apply tail_ok_kb.
Qed.

Lemma tail_ok_mbs d o t : tail_ok d t -> tail_ok (d + 1) (mbs (d + 1) o ++ t).
Proof.
  intros T. destruct o as [|kv o]; cbn [mbs]; [cbn [app]; apply (tail_ok_mono d); [lia|exact T]|].
  unfold mb. cbn [app tail_ok]. lia.
Qed.

(* members of two objects (key, then value), then their sizes *)
Lemma obj_ext d l1 : Forall (fun kv => key_ext_at (snd kv)) l1 -> forall l2,
  safe_members (d + 1) l1 = true -> safe_members (d + 1) l2 = true ->
  ext d (lex pair_cmp l1 l2) (mbs (d + 1) l1) (mbs (d + 1) l2).
Proof.
  induction 1 as [|[k x] xs Hx _ IH]; intros [|[k2 y] ys] S1 S2; cbn [safe_members forallb fst snd] in S1, S2; cbn [lex mbs].
  - reflexivity.
  - cbn [ext]. intros t1 t2 T1 T2. unfold mb. cbn [app]. apply (tail_below _ _ d); [exact T1|lia].
  - cbn [ext]. intros t1 t2 T1 T2. unfold mb. cbn [app]. apply (above_tail _ _ d); [exact T2|lia].
  - apply andb_true_iff in S1. destruct S1 as [Sx S1]. apply andb_true_iff in Sx. destruct Sx as [Kx Sx].
    apply andb_true_iff in S2. destruct S2 as [Sy S2]. apply andb_true_iff in Sy. destruct Sy as [Ky Sy].
    cbn [snd] in Hx. unfold pair_cmp. cbn [fst snd]. unfold mb. cbn [fst snd].
    (* (d+1 :: SL :: k) ++ kb x ++ rest: regroup as  [d+1; SL] ++ (k ++ (kb x ++ rest)) *)
    change ((d + 1 :: SL :: k) ++ kb (d + 1) x) with ([d + 1; SL] ++ k ++ kb (d + 1) x).
    change ((d + 1 :: SL :: k2) ++ kb (d + 1) y) with ([d + 1; SL] ++ k2 ++ kb (d + 1) y).
    rewrite <- !app_assoc. apply ext_prefix.
    apply (ext_seq (d + 1) d (bytes_cmp k k2) (match cmp_value x y with Eq => lex pair_cmp xs ys | Lt => Lt | Gt => Gt end)).
    + destruct (bytes_cmp k k2); [destruct (cmp_value x y)|..]; reflexivity.
    + apply str_ext; assumption.
    + apply (ext_seq (d + 1) d (cmp_value x y) (lex pair_cmp xs ys)).
      * reflexivity.
      * apply Hx; assumption.
      * apply IH; assumption.
      * intros t T. apply tail_ok_mbs. exact T.
      * intros t T. apply tail_ok_mbs. exact T.
    + intros t T. rewrite <- app_assoc. apply tail_ok_kb.
    + intros t T. rewrite <- app_assoc. apply tail_ok_kb.
Qed.

Lemma safe_nonempty_depth {A} (l : list A) d : l <> [] -> match l with [] => true | _ => d <? 255 end = true -> sat1 d = d + 1.
Proof.
  intros NE H. destruct l; [contradiction|]. apply N.ltb_lt in H. unfold sat1.
  destruct (255 <=? d) eqn:E; [apply N.leb_le in E; lia|reflexivity].
Qed.

Theorem key_ext x : key_ext_at x.
Proof.
  induction x as [|b|s|n|l IH|o IH] using value_ind2; intros d y Sx Sy.
  - destruct y as [|[]|s2|n2|l2|o2]; try (apply ext_diff_rank; cbn [rank]; discriminate). reflexivity.
  - destruct b, y as [|[]|s2|n2|l2|o2]; try (apply ext_diff_rank; cbn [rank]; discriminate); reflexivity.
  - destruct y as [|[]|s2|n2|l2|o2]; try (apply ext_diff_rank; cbn [rank]; discriminate).
    cbn [key_safe] in Sx, Sy. cbn [cmp_value]. unfold kb. cbn [klvl kbody tag_of]. apply ext_same_head.
    apply str_ext; assumption.
  - destruct y as [|[]|s2|n2|l2|o2]; try (apply ext_diff_rank; cbn [rank]; discriminate).
    cbn [key_safe] in Sx, Sy. cbn [cmp_value]. unfold kb. cbn [klvl kbody tag_of]. apply ext_same_head.
    rewrite <- (num_bytes_order n n2) by (apply num_key_exactb_ok; assumption).
    apply same_len_ext. rewrite !be_bytes_length. reflexivity.
  - destruct y as [|[]|s2|n2|l2|o2]; try (apply ext_diff_rank; cbn [rank]; discriminate).
    rewrite key_safe_arr in Sx, Sy. apply andb_true_iff in Sx. destruct Sx as [Dx Sx]. apply andb_true_iff in Sy. destruct Sy as [Dy Sy].
    rewrite cmp_arr. unfold kb. cbn [klvl]. rewrite !kbody_arr. apply ext_same_head.
    assert (E1 : kbs (sat1 d) l = kbs (d + 1) l).
    { destruct l as [|x0 l]; [reflexivity|]. rewrite (safe_nonempty_depth (x0 :: l) d) by (try discriminate; exact Dx). reflexivity. }
    assert (E2 : kbs (sat1 d) l2 = kbs (d + 1) l2).
    { destruct l2 as [|x0 l2]; [reflexivity|]. rewrite (safe_nonempty_depth (x0 :: l2) d) by (try discriminate; exact Dy). reflexivity. }
    rewrite E1, E2. apply arr_ext; assumption.
  - destruct y as [|[]|s2|n2|l2|o2]; try (apply ext_diff_rank; cbn [rank]; discriminate).
    rewrite key_safe_obj in Sx, Sy. apply andb_true_iff in Sx. destruct Sx as [Dx Sx]. apply andb_true_iff in Sy. destruct Sy as [Dy Sy].
    rewrite cmp_obj. unfold kb. cbn [klvl]. rewrite !kbody_obj. apply ext_same_head.
    assert (E1 : mbs (sat1 d) o = mbs (d + 1) o).
    { destruct o as [|x0 o]; [reflexivity|]. rewrite (safe_nonempty_depth (x0 :: o) d) by (try discriminate; exact Dx). reflexivity. }
    assert (E2 : mbs (sat1 d) o2 = mbs (d + 1) o2).
    { destruct o2 as [|x0 o2]; [reflexivity|]. rewrite (safe_nonempty_depth (x0 :: o2) d) by (try discriminate; exact Dy). reflexivity. }
    rewrite E1, E2. apply obj_ext; assumption.
Qed.

(* ---------------------------------------------------------------- the theorems *)
Lemma ext_closed d o u v : ext d o u v -> blex u v = o.
Proof.
  destruct o; cbn [ext]; intros H.
  - subst v. apply bytes_refl.
  - specialize (H [] [] I I). rewrite !app_nil_r in H. exact H.
  - specialize (H [] [] I I). rewrite !app_nil_r in H. exact H.
Qed.

(* at any depth: two members of the class that would sit at depth d have keys ordered as compare orders them *)
Theorem key_order_at_depth d a b : key_safe d a = true -> key_safe d b = true ->
  exists ka kb, key_entry d a = Ok ka /\ key_entry d b = Ok kb /\ bytes_cmp ka kb = cmp_value a b.
Proof.
  intros Sa Sb. exists (kb d a), (kb d b). split; [apply key_entry_total|]. split; [apply key_entry_total|].
  apply (ext_closed d). apply key_ext; assumption.
Qed.

(* whole documents: a top-level string is unrestricted (nothing follows it) *)
Lemma doc_order a b : key_safe_doc a = true -> key_safe_doc b = true -> bytes_cmp (kb 0 a) (kb 0 b) = cmp_value a b.
Proof.
  intros Sa Sb. destruct (N.eq_dec (rank a) (rank b)) as [R|R].
  - pose proof (same_rank_shape a b R) as Sh.
    destruct a as [|[]|s|n|l|o], b as [|[]|s2|n2|l2|o2]; try contradiction;
      try (apply (ext_closed 0); apply key_ext; assumption).
    (* two strings *)
    unfold kb, bytes_cmp. cbn [klvl kbody tag_of lex cmp_value]. rewrite !N.compare_refl. reflexivity.
  - apply (ext_closed 0). apply ext_diff_rank. exact R.
Qed.

Theorem key_order_containers a b : key_safe_doc a = true -> key_safe_doc b = true ->
  exists ka kb, comparable_key a = Ok ka /\ comparable_key b = Ok kb /\ bytes_cmp ka kb = cmp_value a b.
Proof.
  intros Sa Sb. exists (kb 0 a), (kb 0 b). unfold comparable_key. split; [apply key_entry_total|]. split; [apply key_entry_total|].
  apply doc_order; assumption.
Qed.

(* on the class, equal keys mean exactly "compare says Equal" *)
Theorem key_equal_iff_compare_equal a b : key_safe_doc a = true -> key_safe_doc b = true ->
  (comparable_key a = comparable_key b <-> cmp_value a b = Eq).
Proof.
  intros Sa Sb. unfold comparable_key. rewrite !key_entry_total. rewrite <- (doc_order a b Sa Sb). split.
  - intros H. assert (E : kb 0 a = kb 0 b) by congruence. rewrite E. apply bytes_refl.
  - intros H. apply bytes_cmp_eq in H. rewrite H. reflexivity.
Qed.

(* the key order on the class is therefore a total preorder that refines nothing and merges nothing: sorting the keys
   bytewise sorts the documents (stated as: Lt/Gt are preserved both ways) *)
Corollary key_lt_iff_compare_lt a b : key_safe_doc a = true -> key_safe_doc b = true ->
  forall ka kb, comparable_key a = Ok ka -> comparable_key b = Ok kb -> (bytes_cmp ka kb = Lt <-> cmp_value a b = Lt).
Proof.
  intros Sa Sb ka kb' Ha Hb. destruct (key_order_containers a b Sa Sb) as (ka2 & kb2 & H1 & H2 & H3).
  rewrite Ha in H1. rewrite Hb in H2. injection H1 as <-. injection H2 as <-. rewrite H3. reflexivity.
Qed.

(* ---------------------------------------------------------------- the uniform sufficient condition *)
Lemma bytes_above_mono d e s : d <= e -> bytes_above e s = true -> bytes_above d s = true.
Proof.
  intros L. unfold bytes_above. induction s as [|c s IH]; cbn [forallb]; [reflexivity|]. intros H.
  apply andb_true_iff in H. destruct H as [H1 H2]. apply andb_true_iff. split; [|apply IH; exact H2].
  apply N.ltb_lt in H1. apply N.ltb_lt. lia.
Qed.

Definition plain_list (D : N) (f : nat) (l : list value) : bool := forallb (key_plain D f) l.
Definition plain_members (D : N) (f : nat) (o : list (list N * value)) : bool :=
  forallb (fun kv => bytes_above D (fst kv) && key_plain D f (snd kv)) o.
Lemma key_plain_arr D f l : key_plain D (S f) (VArr l) = plain_list D f l.
Proof. reflexivity. Qed.
Lemma key_plain_obj D f o : key_plain D (S f) (VObj o) = plain_members D f o.
Proof. cbn [key_plain]. induction o as [|[k x] o IH]; [reflexivity|]. cbn [plain_members forallb fst snd]. rewrite IH. reflexivity. Qed.

Lemma key_plain_safe D v : D <= 255 -> forall f d, d + N.of_nat f <= D -> key_plain D f v = true -> key_safe d v = true.
Proof.
  intros HD. induction v as [|b|s|n|l IH|o IH] using value_ind2; intros f d Hd H.
  - reflexivity.
  - reflexivity.
  - cbn [key_plain key_safe] in *. apply (bytes_above_mono d D); [lia|exact H].
  - exact H.
  - rewrite key_safe_arr. destruct f as [|f].
    + destruct l; [reflexivity|discriminate H].
    + rewrite key_plain_arr in H. apply andb_true_iff. split; [destruct l; [reflexivity|apply N.ltb_lt; lia]|].
      unfold plain_list, safe_list in *. rewrite forallb_forall in *. intros x Hx.
      rewrite Forall_forall in IH. apply (IH x Hx f); [lia|apply H; exact Hx].
  - rewrite key_safe_obj. destruct f as [|f].
    + destruct o; [reflexivity|discriminate H].
    + rewrite key_plain_obj in H. apply andb_true_iff. split; [destruct o; [reflexivity|apply N.ltb_lt; lia]|].
      unfold plain_members, safe_members in *. rewrite forallb_forall in *. intros kv Hkv.
      rewrite Forall_forall in IH. specialize (H kv Hkv). apply andb_true_iff in H. destruct H as [H1 H2].
      apply andb_true_iff. split; [apply (bytes_above_mono (d + 1) D); [lia|exact H1]|].
      apply (IH kv Hkv f); [lia|exact H2].
Qed.

(* documents nested at most D <= 255 levels whose strings and keys have every byte above D, numbers exact *)
Theorem key_plain_in_class D v : D <= 255 -> key_plain D (N.to_nat D) v = true -> key_safe_doc v = true.
Proof.
  intros HD H. assert (S0 : key_safe 0 v = true) by (apply (key_plain_safe D v HD (N.to_nat D) 0); [lia|exact H]).
  destruct v; try exact S0. reflexivity.
Qed.

Theorem key_order_plain D a b : D <= 255 -> key_plain D (N.to_nat D) a = true -> key_plain D (N.to_nat D) b = true ->
  exists ka kb, comparable_key a = Ok ka /\ comparable_key b = Ok kb /\ bytes_cmp ka kb = cmp_value a b.
Proof. intros HD Ha Hb. apply key_order_containers; apply (key_plain_in_class D); assumption. Qed.

(* ---------------------------------------------------------------- the class is neither empty nor tiny *)
(* {"a": ["ab", "abc", -3, 7, 1.5, true, null, {"k": []}], "ab": {"x": "", "y": false}} : arrays, objects, strings one
   a prefix of another, an empty string, the three kinds of numbers, booleans, null, empty containers *)
Definition sample_doc : value :=
  VObj [ ([97], VArr [VStr [97; 98]; VStr [97; 98; 99]; VNum (NInt (-3)); VNum (NUInt 7); VNum (NFloat 4609434218613702656);
                      VBool true; VNull; VObj [([107], VArr [])]]);
         ([97; 98], VObj [([120], VStr []); ([121], VBool false)]) ].
Example sample_doc_in_class : key_safe_doc sample_doc = true /\ key_plain 31 31 sample_doc = true.
Proof. split; vm_compute; reflexivity. Qed.

(* [{"k": ["ab", {"m": 1, "n": "x"}]}, "z"]  against  [{"k": ["ab", {"m": 1, "n": "xy"}]}, "a"] : after a long equal
   prefix the order is decided three levels down, inside a nested object, by a string that is a proper prefix of the
   other (its last byte is followed by a marker in one key and by the byte 'y' in the other) *)
Definition deep_left : value :=
  VArr [VObj [([107], VArr [VStr [97; 98]; VObj [([109], VNum (NUInt 1)); ([110], VStr [120])]])]; VStr [122]].
Definition deep_right : value :=
  VArr [VObj [([107], VArr [VStr [97; 98]; VObj [([109], VNum (NUInt 1)); ([110], VStr [120; 121])]])]; VStr [97]].
Example deep_pair_in_class :
  key_safe_doc deep_left = true /\ key_safe_doc deep_right = true /\ cmp_value deep_left deep_right = Lt /\
  (do ka <- comparable_key deep_left; do kb <- comparable_key deep_right; Ok (bytes_cmp ka kb)) = Ok Lt.
Proof. repeat split; vm_compute; reflexivity. Qed.

(* ---------------------------------------------------------------- the bounds of the class are sharp *)
(* a string byte EQUAL to the depth of the string (here 1) already inverts the order: ["a", null] < ["a\001\006"] by
   compare, but the keys say Greater (null's level 7 against the string byte 6 after the "marker" 1) *)
Example string_bound_sharp :
  let a := VArr [VStr [97]; VNull] in let b := VArr [VStr [97; 1; 6]] in
  cmp_value a b = Lt /\ (do ka <- comparable_key a; do kb <- comparable_key b; Ok (bytes_cmp ka kb)) = Ok Gt /\
  key_safe_doc a = true /\ key_safe_doc b = false /\ key_safe_doc (VArr [VStr [97; 2; 6]]) = true.
Proof. repeat split; vm_compute; reflexivity. Qed.
(* an object-key byte EQUAL to depth + 1 (here 1, in a top-level object) inverts the order as well *)
Example object_key_bound_sharp :
  let a := VObj [([97], VNull)] in let b := VObj [([97; 1; 6], VNull)] in
  cmp_value a b = Lt /\ (do ka <- comparable_key a; do kb <- comparable_key b; Ok (bytes_cmp ka kb)) = Ok Gt /\
  key_safe_doc a = true /\ key_safe_doc b = false /\ key_safe_doc (VObj [([97; 2; 6], VNull)]) = true.
Proof. repeat split; vm_compute; reflexivity. Qed.

(* a NON-EMPTY container at depth 255 (a document nested 257 levels) is a third way to collide: the marker of its
   members saturates at 255, so [[], []] and [[[]]] placed at depth 254 get one key although compare tells them apart *)
Definition nest (n : nat) (v : value) : value := Nat.iter n (fun x => VArr [x]) v.
Example depth_bound_sharp :
  let a := nest 254 (VArr [VArr []; VArr []]) in let b := nest 254 (VArr [VArr [VArr []]]) in
  comparable_key a = comparable_key b /\ cmp_value a b = Lt /\ key_safe_doc a = true /\ key_safe_doc b = false.
Proof. repeat split; vm_compute; reflexivity. Qed.

(* ---------------------------------------------------------------- the two byte walkers on encodings *)
(* decoding canonicalises numbers (an integer zero, a NaN of any pattern): this never leaves the class *)
Lemma num_exact_normalise n : num_key_exactb n = true -> num_key_exactb (normalise_num n) = true.
Proof.
  intros H. destruct n as [z|u|b]; cbn [normalise_num].
  - destruct (z =? 0)%Z; [vm_compute; reflexivity|exact H].
  - exact H.
  - destruct (f_is_nan b); [vm_compute; reflexivity|exact H].
Qed.
Lemma key_safe_normalise v : forall d, key_safe d v = true -> key_safe d (normalise v) = true.
Proof.
  induction v as [|b|s|n|l IH|o IH] using value_ind2; intros d H; cbn [normalise]; try exact H.
  - cbn [key_safe] in *. apply num_exact_normalise. exact H.
  - rewrite key_safe_arr in *. apply andb_true_iff in H. destruct H as [H1 H2]. apply andb_true_iff. split.
    + destruct l; [reflexivity|exact H1].
    + unfold safe_list in *. rewrite forallb_forall in *. intros x Hx. apply in_map_iff in Hx. destruct Hx as (x0 & <- & Hx0).
      rewrite Forall_forall in IH. apply (IH x0 Hx0). apply H2. exact Hx0.
  - rewrite key_safe_obj in *. apply andb_true_iff in H. destruct H as [H1 H2]. apply andb_true_iff. split.
    + destruct o; [reflexivity|exact H1].
    + unfold safe_members in *. rewrite forallb_forall in *. intros kv Hkv. apply in_map_iff in Hkv. destruct Hkv as (kv0 & <- & Hkv0).
      cbn [fst snd]. specialize (H2 kv0 Hkv0). apply andb_true_iff in H2. destruct H2 as [K S0]. apply andb_true_iff. split; [exact K|].
      rewrite Forall_forall in IH. apply (IH kv0 Hkv0). exact S0.
Qed.
Lemma key_safe_doc_normalise v : key_safe_doc v = true -> key_safe_doc (normalise v) = true.
Proof.
  intros H. destruct v as [|b|s|n|l|o]; try exact H; unfold key_safe_doc in *.
  - apply (key_safe_normalise (VNum n)). exact H.
  - apply (key_safe_normalise (VArr l)). exact H.
  - apply (key_safe_normalise (VObj o)). exact H.
Qed.

(* convert_to_comparable and compare, both as offset-faithful byte walkers, on the encodings of two documents whose
   decoded trees are in the class: both keys are produced, and compare returns exactly the byte order of the keys *)
Theorem key_order_on_encodings_norm a b : wfb a = true -> top_ok a -> wfb b = true -> top_ok b ->
  key_safe_doc (normalise a) = true -> key_safe_doc (normalise b) = true ->
  exists ka kb, comparable_w (enc a) [] = Ok ka /\ comparable_w (enc b) [] = Ok kb /\
                compare_w (enc a) (enc b) = Ok (bytes_cmp ka kb).
Proof.
  intros Wa Ta Wb Tb Sa Sb.
  destruct (key_order_containers (normalise a) (normalise b) Sa Sb) as (ka & kb' & Ha & Hb & Hc).
  exists ka, kb'. rewrite (comparable_w_enc a [] Wa Ta), (comparable_w_enc b [] Wb Tb), Ha, Hb.
  split; [reflexivity|]. split; [reflexivity|].
  rewrite (compare_w_enc a b Wa Ta Wb Tb). f_equal. rewrite Hc.
  rewrite <- (cmp_value_eq_l (normalise a) a (normalise b) (normalise_equal a)).
  symmetry. apply (cmp_value_eq_r a (normalise b) b (normalise_equal b)).
Qed.
Theorem key_order_on_encodings a b : wfb a = true -> top_ok a -> wfb b = true -> top_ok b ->
  key_safe_doc a = true -> key_safe_doc b = true ->
  exists ka kb, comparable_w (enc a) [] = Ok ka /\ comparable_w (enc b) [] = Ok kb /\
                compare_w (enc a) (enc b) = Ok (bytes_cmp ka kb).
Proof.
  intros Wa Ta Wb Tb Sa Sb. apply key_order_on_encodings_norm; try assumption; apply key_safe_doc_normalise; assumption.
Qed.

Example sample_docs_encodable :
  wfb sample_doc = true /\ wfb deep_left = true /\ wfb deep_right = true /\
  (do ka <- comparable_w (enc deep_left) []; do kb <- comparable_w (enc deep_right) []; Ok (bytes_cmp ka kb)) = Ok Lt /\
  compare_w (enc deep_left) (enc deep_right) = Ok Lt.
Proof. repeat split; vm_compute; reflexivity. Qed.
