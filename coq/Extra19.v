(* C19 additions.
   (a) the reverse direction of "mutually inverse": for every serde_json value s of the serde_json data model
       (`sj_wf s`: a NegInt is negative, a Float is finite -- serde_json::Number's own invariants -- and a Map is its
       key-ordered list of distinct keys), converting s to a jsonb Value and back gives s, identically.
   (b) From<Value> for serde_json::Value (`value_to_serde`) and to_serde_json on the tree (`to_serde_json_t`) are one
       function wherever the latter succeeds; where it fails (a NaN or an infinity somewhere) the former is a PANIC of the
       model (`from_f64(v).unwrap()`), never an error. *)
From Coq Require Import List NArith ZArith Bool Lia.
Import ListNotations.
From JB Require Import Constants Bytes Utf8 Num Value Codec Order RoundtripProofs TreeWf Serde SerdeProofs SerdeWalkProofs
  RenderRfc SerdeRfc.
Open Scope N_scope.
Set Default Timeout 60.

Section sj_ind2.
  Variable P : sj -> Prop.
  Hypothesis Hnull : P SNull.
  Hypothesis Hbool : forall b, P (SBool b).
  Hypothesis Hnum : forall n, P (SNum n).
  Hypothesis Hstr : forall s, P (SStr s).
  Hypothesis Harr : forall l, Forall P l -> P (SArr l).
  Hypothesis Hobj : forall o, Forall (fun kv => P (snd kv)) o -> P (SObj o).
  Fixpoint sj_ind2 (s : sj) : P s :=
    match s with
    | SNull => Hnull | SBool b => Hbool b | SNum n => Hnum n | SStr x => Hstr x
    | SArr l => Harr l ((fix go (l : list sj) : Forall P l :=
                           match l with [] => Forall_nil _ | x :: xs => Forall_cons _ (sj_ind2 x) (go xs) end) l)
    | SObj o => Hobj o ((fix go (o : list (list N * sj)) : Forall (fun kv => P (snd kv)) o :=
                           match o with [] => Forall_nil _ | kv :: xs => Forall_cons kv (sj_ind2 (snd kv)) (go xs) end) o)
    end.
End sj_ind2.

(* the serde_json data model *)
Definition snum_wf (n : snum) : bool :=
  match n with
  | SPos _ => true
  | SNeg z => (z <? 0)%Z                                   (* N::NegInt: "always less than zero" *)
  | SFloat b => negb (f_is_nan b) && negb (f_is_inf b)      (* N::Float: "always finite" *)
  end.
Fixpoint sj_wf (s : sj) : bool :=
  match s with
  | SNum n => snum_wf n
  | SArr l => forallb sj_wf l
  | SObj o => keys_sorted o && forallb (fun kv => sj_wf (snd kv)) o     (* Map = BTreeMap: distinct keys, in order *)
  | _ => true
  end.

Lemma serde_to_value_obj o : keys_sorted o = true ->
  serde_to_value (SObj o) = VObj (map (fun kv => (fst kv, serde_to_value (snd kv))) o).
Proof.
  intros Hs. cbn [serde_to_value]. f_equal.
  apply (fold_insert_sorted serde_to_value o []); [apply sorted_iff; exact Hs|constructor].
Qed.

(* (a) *)
Theorem serde_value_roundtrip e s : sj_wf s = true -> to_serde e (serde_to_value s) = Ok s.
Proof.
  induction s as [|b|n|x|l IH|o IH] using sj_ind2; intros Hw; try reflexivity.
  - destruct n as [u|z|b]; cbn [serde_to_value to_serde sj_wf snum_wf] in *; try reflexivity.
    + unfold snum_of_i64. rewrite Hw. reflexivity.
    + apply andb_true_iff in Hw. destruct Hw as [Hn Hi]. apply negb_true_iff in Hn. apply negb_true_iff in Hi.
      unfold snum_of_f64. rewrite Hn, Hi. reflexivity.
  - cbn [serde_to_value]. rewrite to_serde_arr. cbn [sj_wf] in Hw.
    assert (E : ser_list e (map serde_to_value l) = Ok l).
    { induction IH as [|y ys Hy _ IHl]; cbn [map ser_list]; [reflexivity|].
      cbn [forallb] in Hw. apply andb_true_iff in Hw. destruct Hw as [W1 W2].
      rewrite (Hy W1). cbn [bind]. rewrite (IHl W2). reflexivity. }
    rewrite E. reflexivity.
  - cbn [sj_wf] in Hw. apply andb_true_iff in Hw. destruct Hw as [Hs Hw].
    rewrite (serde_to_value_obj o Hs), to_serde_obj.
    assert (E : ser_members e (map (fun kv => (fst kv, serde_to_value (snd kv))) o) = Ok o).
    { clear Hs. induction IH as [|[k y] ys Hy _ IHl]; cbn [map ser_members fst snd] in *; [reflexivity|].
      cbn [forallb snd] in Hw. apply andb_true_iff in Hw. destruct Hw as [W1 W2].
      rewrite (Hy W1). cbn [bind]. rewrite (IHl W2). reflexivity. }
    rewrite E. reflexivity.
Qed.

Corollary serde_value_roundtrip_both s : sj_wf s = true ->
  to_serde_json_t (serde_to_value s) = Ok s /\ value_to_serde (serde_to_value s) = Ok s.
Proof. intros H. split; apply serde_value_roundtrip; exact H. Qed.

(* the value that Value::from(s) builds is a document of the jsonb data model when s is one of serde_json's: strings
   and keys are Rust Strings (bytes, UTF-8), PosInt is a u64, NegInt an i64, Float an f64 bit pattern *)
Definition snum_range (n : snum) : bool :=
  match n with SPos u => u <? two64 | SNeg z => (- two63 <=? z)%Z | SFloat b => b <? two64 end.
Fixpoint sj_strings (s : sj) : bool :=
  match s with
  | SStr x => bytes_okb x && utf8_valid x
  | SNum n => snum_range n
  | SArr l => forallb sj_strings l
  | SObj o => forallb (fun kv => bytes_okb (fst kv) && utf8_valid (fst kv) && sj_strings (snd kv)) o
  | _ => true
  end.

Theorem serde_to_value_wf s : sj_wf s = true -> sj_strings s = true -> wf_shape (serde_to_value s) = true.
Proof.
  induction s as [|b|n|x|l IH|o IH] using sj_ind2; intros Hw Hs; try reflexivity.
  - destruct n as [u|z|b]; cbn [serde_to_value wf_shape num_in_range sj_wf snum_wf sj_strings snum_range] in *; try exact Hs.
    apply andb_true_iff. split; [exact Hs|]. apply Z.ltb_lt. apply Z.ltb_lt in Hw. unfold two63. lia.
  - exact Hs.
  - cbn [serde_to_value wf_shape]. cbn [sj_wf] in Hw. cbn [sj_strings] in Hs.
    induction IH as [|y ys Hy _ IHl]; cbn [map forallb] in *; [reflexivity|].
    apply andb_true_iff in Hw. destruct Hw as [W1 W2]. apply andb_true_iff in Hs. destruct Hs as [S1 S2].
    rewrite (Hy W1 S1). exact (IHl W2 S2).
  - cbn [sj_wf] in Hw. apply andb_true_iff in Hw. destruct Hw as [Hk Hw]. cbn [sj_strings] in Hs.
    rewrite (serde_to_value_obj o Hk). cbn [wf_shape]. apply andb_true_iff. split.
    + apply sorted_iff. apply sorted_iff in Hk. clear -Hk. induction o as [|[k y] o IHo]; [exact I|].
      cbn [map strongly_sorted fst snd] in *. destruct Hk as [H1 H2]. split; [|apply IHo; exact H2].
      apply Forall_forall. intros kv Hin. apply in_map_iff in Hin. destruct Hin as (kv0 & <- & Hin0). cbn [fst].
      rewrite Forall_forall in H1. apply (H1 kv0 Hin0).
    + clear Hk. induction IH as [|[k y] ys Hy _ IHl]; cbn [map forallb fst snd] in *; [reflexivity|].
      apply andb_true_iff in Hw. destruct Hw as [W1 W2]. apply andb_true_iff in Hs. destruct Hs as [S1 S2].
      apply andb_true_iff in S1. destruct S1 as [S0 S1]. rewrite S0, (Hy W1 S1). exact (IHl W2 S2).
Qed.

(* and what the forward conversion produces is always in the data model: together with C19_roundtrip
   (serde_to_value s = unsign v) the two conversions are mutually inverse bijections between the finite documents in
   reader's representation (unsign v = v) and the serde_json values *)
Lemma ser_members_keys e o : forall o', ser_members e o = Ok o' -> map fst o' = map fst o.
Proof.
  induction o as [|[k x] o IH]; intros o' H; cbn [ser_members] in H; [injection H as <-; reflexivity|].
  destruct (to_serde e x) as [a| |]; cbn [bind] in H; try discriminate.
  destruct (ser_members e o) as [b| |] eqn:E; cbn [bind] in H; try discriminate.
  injection H as <-. cbn [map fst]. f_equal. apply IH. reflexivity.
Qed.
Lemma strongly_sorted_keys {V W} (a : list (list N * V)) (b : list (list N * W)) :
  map fst a = map fst b -> strongly_sorted a -> strongly_sorted b.
Proof.
  revert b. induction a as [|[k x] a IH]; intros [|[k' y] b] E; try discriminate; [intros _; exact I|].
  cbn [map fst] in E. injection E as -> E. cbn [strongly_sorted]. intros [H1 H2]. split; [|apply IH; assumption].
  apply Forall_forall. intros kv Hin. assert (Hk : In (fst kv) (map fst a)) by (rewrite E; apply in_map; exact Hin).
  apply in_map_iff in Hk. destruct Hk as (kv0 & Ek & Hin0). rewrite Forall_forall in H1. rewrite <- Ek. apply (H1 kv0 Hin0).
Qed.

Theorem to_serde_json_image_wf v : wf_shape v = true -> forall s, to_serde_json_t v = Ok s -> sj_wf s = true.
Proof.
  unfold to_serde_json_t.
  induction v as [|b|x|n|l IH|o IH] using value_ind2; intros Hwf s H.
  - injection H as <-. reflexivity.
  - injection H as <-. reflexivity.
  - injection H as <-. reflexivity.
  - destruct n as [z|u|b]; cbn [to_serde] in H.
    + injection H as <-. cbn [sj_wf]. unfold snum_of_i64. destruct (z <? 0)%Z eqn:E; cbn [snum_wf]; [exact E|reflexivity].
    + injection H as <-. reflexivity.
    + unfold snum_of_f64 in H. destruct (f_is_nan b || f_is_inf b) eqn:E; [discriminate|].
      injection H as <-. cbn [sj_wf snum_wf]. apply orb_false_iff in E. destruct E as [-> ->]. reflexivity.
  - rewrite to_serde_arr in H. destruct (ser_list (Err EOther) l) as [l'| |] eqn:E; cbn [bind] in H; try discriminate.
    injection H as <-. cbn [sj_wf]. cbn [wf_shape] in Hwf. revert l' E.
    induction IH as [|y ys Hy _ IHl]; intros l' E; cbn [ser_list] in E; [injection E as <-; reflexivity|].
    cbn [forallb] in Hwf. apply andb_true_iff in Hwf. destruct Hwf as [W1 W2].
    destruct (to_serde (Err EOther) y) as [a| |] eqn:Ea; cbn [bind] in E; try discriminate.
    destruct (ser_list (Err EOther) ys) as [bs| |] eqn:Eb; cbn [bind] in E; try discriminate.
    injection E as <-. cbn [forallb]. rewrite (Hy W1 a eq_refl). exact (IHl W2 bs eq_refl).
  - rewrite to_serde_obj in H. destruct (ser_members (Err EOther) o) as [o'| |] eqn:E; cbn [bind] in H; try discriminate.
    injection H as <-. cbn [sj_wf]. cbn [wf_shape] in Hwf. apply andb_true_iff in Hwf. destruct Hwf as [Hk Hm].
    apply andb_true_iff. split.
    + apply sorted_iff. apply (strongly_sorted_keys o o'); [symmetry; eapply ser_members_keys; exact E|apply sorted_iff; exact Hk].
    + clear Hk. revert o' E. induction IH as [|[k y] ys Hy _ IHl]; intros o' E; cbn [ser_members] in E; [injection E as <-; reflexivity|].
      cbn [forallb fst snd] in Hm, Hy. apply andb_true_iff in Hm. destruct Hm as [W1 W2]. apply andb_true_iff in W1. destruct W1 as [_ W1].
      destruct (to_serde (Err EOther) y) as [a| |] eqn:Ea; cbn [bind] in E; try discriminate.
      destruct (ser_members (Err EOther) ys) as [bs| |] eqn:Eb; cbn [bind] in E; try discriminate.
      injection E as <-. cbn [forallb snd]. rewrite (Hy W1 a eq_refl). exact (IHl W2 bs eq_refl).
Qed.

(* (b) From<Value> and to_serde_json: the same answer wherever to_serde_json answers; its error (a non-finite float) is
   From<Value>'s panic.  to_serde_json_t itself never panics. *)
Definition err_to_panic {A} (r : res A) : res A := match r with Ok a => Ok a | _ => Panic end.

Theorem value_to_serde_is_to_serde_json v : value_to_serde v = err_to_panic (to_serde_json_t v).
Proof.
  unfold value_to_serde, to_serde_json_t.
  induction v as [|b|x|n|l IH|o IH] using value_ind2; try reflexivity.
  - destruct n as [z|u|b]; cbn [to_serde]; try reflexivity. destruct (snum_of_f64 b); reflexivity.
  - rewrite !to_serde_arr.
    assert (E : ser_list Panic l = err_to_panic (ser_list (Err EOther) l)).
    { induction IH as [|y ys Hy _ IHl]; cbn [ser_list]; [reflexivity|]. rewrite Hy, IHl.
      destruct (to_serde (Err EOther) y) as [a| |]; cbn [bind err_to_panic]; try reflexivity.
      destruct (ser_list (Err EOther) ys) as [bs| |]; reflexivity. }
    rewrite E. destruct (ser_list (Err EOther) l); reflexivity.
  - rewrite !to_serde_obj.
    assert (E : ser_members Panic o = err_to_panic (ser_members (Err EOther) o)).
    { induction IH as [|[k y] ys Hy _ IHl]; cbn [ser_members]; [reflexivity|]. cbn [snd] in Hy. rewrite Hy, IHl.
      destruct (to_serde (Err EOther) y) as [a| |]; cbn [bind err_to_panic]; try reflexivity.
      destruct (ser_members (Err EOther) ys) as [bs| |]; reflexivity. }
    rewrite E. destruct (ser_members (Err EOther) o); reflexivity.
Qed.

Theorem to_serde_json_t_no_panic v : to_serde_json_t v <> Panic.
Proof.
  unfold to_serde_json_t.
  induction v as [|b|x|n|l IH|o IH] using value_ind2; try discriminate.
  - destruct n as [z|u|b]; cbn [to_serde]; try discriminate. destruct (snum_of_f64 b); discriminate.
  - rewrite to_serde_arr.
    assert (E : ser_list (Err EOther) l <> Panic).
    { induction IH as [|y ys Hy _ IHl]; cbn [ser_list]; [discriminate|].
      destruct (to_serde (Err EOther) y) as [a| |]; cbn [bind]; try discriminate; [|exfalso; apply Hy; reflexivity].
      destruct (ser_list (Err EOther) ys) as [bs| |]; cbn [bind]; try discriminate. exact IHl. }
    destruct (ser_list (Err EOther) l); cbn [bind]; try discriminate. exfalso; apply E; reflexivity.
  - rewrite to_serde_obj.
    assert (E : ser_members (Err EOther) o <> Panic).
    { induction IH as [|[k y] ys Hy _ IHl]; cbn [ser_members]; [discriminate|]. cbn [snd] in Hy.
      destruct (to_serde (Err EOther) y) as [a| |]; cbn [bind]; try discriminate; [|exfalso; apply Hy; reflexivity].
      destruct (ser_members (Err EOther) ys) as [bs| |]; cbn [bind]; try discriminate. exact IHl. }
    destruct (ser_members (Err EOther) o); cbn [bind]; try discriminate. exfalso; apply E; reflexivity.
Qed.

Corollary value_to_serde_finite v : finite_numbers v = true -> value_to_serde v = to_serde_json_t v.
Proof.
  intros Hf. unfold value_to_serde, to_serde_json_t. rewrite !(to_serde_is_sj_of_value _ v Hf). reflexivity.
Qed.

(* exactly: From<Value> panics iff the document holds a non-finite float; to_serde_json errs there *)
Corollary value_to_serde_panics_iff v : value_to_serde v = Panic <-> exists e, to_serde_json_t v = Err e.
Proof.
  rewrite value_to_serde_is_to_serde_json. pose proof (to_serde_json_t_no_panic v) as NP.
  destruct (to_serde_json_t v) as [s|e|]; cbn [err_to_panic].
  - split; [discriminate|]. intros [e H]. discriminate.
  - split; [|reflexivity]. intros _. exists e. reflexivity.
  - exfalso. apply NP. reflexivity.
Qed.

(* not vacuous *)
Definition x19_sj : sj :=
  SObj [([97], SArr [SNum (SNeg (-5)); SNum (SPos 18446744073709551615); SNum (SFloat 4609434218613702656); SStr [104; 105]; SNull; SArr []]);
        ([98], SObj [([99], SBool true); ([100], SNum (SPos 0))])].
Example serde_value_roundtrip_example :
  sj_wf x19_sj = true /\ sj_strings x19_sj = true /\
  to_serde_json_t (serde_to_value x19_sj) = Ok x19_sj /\
  (* outside the data model the trip is not the identity: an unordered member list, a NegInt that is not negative *)
  to_serde_json_t (serde_to_value (SObj [([98], SNull); ([97], SNull)])) = Ok (SObj [([97], SNull); ([98], SNull)]) /\
  to_serde_json_t (serde_to_value (SNum (SNeg 5))) = Ok (SNum (SPos 5)) /\
  (* a non-finite float: to_serde_json errs, From<Value> panics *)
  to_serde_json_t (VArr [VNum (NFloat F_INF)]) = Err EOther /\ value_to_serde (VArr [VNum (NFloat F_INF)]) = Panic.
Proof. vm_compute. repeat split. Qed.
