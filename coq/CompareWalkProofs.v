(* CompareWalkProofs.v — the offset-faithful compare walkers return compare's answer on canonical encodings (C04). *)
From Coq Require Import List NArith ZArith Bool Lia.
Import ListNotations.
From JB Require Import Constants Bytes Utf8 Num Value Codec Order NumProofs OrderProofs CodecProofs RoundtripProofs DispatchProofs Walk WalkProofs CompareWalk.
Open Scope N_scope.
Set Default Timeout 300.

Lemma rd_word_at A ws B done t rest off : words_ok ws -> ws = done ++ t :: rest -> off = lenN A + 4 * lenN done ->
  rd (A ++ flat_map be32 ws ++ B) off = Ok t.
Proof. intros H1 H2 H3. unfold rd. rewrite (read_word_at A ws B done t rest off H1 H2 H3). reflexivity. Qed.

Lemma from_ok_in A p B off : off = lenN A -> from_ok (A ++ p ++ B) off = Ok tt.
Proof. intros ->. unfold from_ok. rewrite !lenN_app. destruct (lenN A <=? lenN A + (lenN p + lenN B)) eqn:E; [reflexivity|apply N.leb_gt in E; lia]. Qed.

Lemma slice_p_in A p B off len : off = lenN A -> len = lenN p -> slice_p (A ++ p ++ B) off len = Ok p.
Proof. intros -> ->. unfold slice_p. rewrite slice_mid. reflexivity. Qed.

(* strings and keys *)
Lemma scalar_w_str f L R s1 s2 A1 B1 A2 B2 : lenN s1 < 268435456 -> lenN s2 < 268435456 ->
  L = A1 ++ s1 ++ B1 -> R = A2 ++ s2 ++ B2 ->
  compare_scalar_w (S f) L R (key_word s1) (lenN A1) (key_word s2) (lenN A2) = Ok (bytes_cmp s1 s2).
Proof.
  intros H1 H2 -> ->. cbn [compare_scalar_w]. unfold jlevel. rewrite !key_word_type, !key_word_len by assumption.
  rewrite N.eqb_refl. cbn [negb].
  change (STRING_TAG =? NULL_TAG) with false. change (STRING_TAG =? CONTAINER_TAG) with false. change (STRING_TAG =? STRING_TAG) with true.
  cbn [andb]. rewrite !slice_p_in by reflexivity. reflexivity.
Qed.

Lemma num_cmp_normalise x y : num_cmp (normalise_num x) (normalise_num y) = num_cmp x y.
Proof.
  assert (E1 : num_cmp x (normalise_num x) = Eq) by (rewrite num_cmp_antisym, normalise_num_eq; reflexivity).
  rewrite (num_cmp_eq_l x (normalise_num x) (normalise_num y) E1).
  apply (num_cmp_eq_r x (normalise_num y) y (normalise_num_eq y)).
Qed.

(* ---------------------------------------------------------------- the view-level loops, named *)
Definition goA : list value -> list value -> res comparison :=
  fix go (l1 l2 : list value) : res comparison :=
    match l1, l2 with
    | [], [] => Ok Eq | [], _ => Ok Lt | _, [] => Ok Gt
    | x :: xs, y :: ys => ok_then (compare_entry x y) (fun _ => go xs ys)
    end.
Definition goO : list (list N * value) -> list (list N * value) -> res comparison :=
  fix go (l1 l2 : list (list N * value)) : res comparison :=
    match l1, l2 with
    | [], [] => Ok Eq | [], _ => Ok Lt | _, [] => Ok Gt
    | (k1, x) :: xs, (k2, y) :: ys =>
        match bytes_cmp k1 k2 with
        | Eq => ok_then (compare_entry x y) (fun _ => go xs ys)
        | o => Ok o
        end
    end.
Lemma entry_arr l1 l2 : compare_entry (VArr l1) (VArr l2) = goA l1 l2.
Proof. cbn [compare_entry tag_of]. rewrite N.eqb_refl. reflexivity. Qed.
Lemma entry_obj o1 o2 : compare_entry (VObj o1) (VObj o2) = goO o1 o2.
Proof. cbn [compare_entry tag_of]. rewrite N.eqb_refl. reflexivity. Qed.

Definition placed (bs : list N) (x : value) (off : N) : Prop := exists A B, bs = A ++ payload x ++ B /\ off = lenN A.

Lemma placed_elem bs l off n x : placed bs (VArr l) off -> nth_opt l n = Some x ->
  placed bs x (off + 4 + 4 * lenN l + sum_len (firstn n l)).
Proof.
  intros (A & B & -> & ->) Hn. destruct (arr_elem_loc A l B n x Hn) as (A' & B' & E & L'). exists A', B'. split; [exact E|lia].
Qed.

Section Loops.
  Variables L R : list N.
  Variable f : nat.
  Notation sc := (compare_scalar_w f L R).

  (* one array against another, from element number |d1| = |d2| on *)
  Lemma arr_loop_entry l1 l2 lo ro : placed L (VArr l1) lo -> placed R (VArr l2) ro ->
    Forall (fun v => wf_size v = true) l1 -> Forall (fun v => wf_size v = true) l2 ->
    (forall x, In x l1 -> forall y lo' ro', In y l2 -> placed L x lo' -> placed R y ro' -> sc (word x) lo' (word y) ro' = compare_entry x y) ->
    forall t1 d1 t2 d2, l1 = d1 ++ t1 -> l2 = d2 ++ t2 -> length d1 = length d2 ->
    forall fuel, (length t1 < fuel)%nat ->
    arr_loop_w L R sc fuel (lenN d1) (if lenN l1 <=? lenN l2 then lenN l1 else lenN l2) (4 * lenN d1) (lo + 4) (ro + 4)
               (4 * lenN l1 + sum_len d1) (4 * lenN l2 + sum_len d2) (lenN l1) (lenN l2)
    = goA t1 t2.
  Proof.
    intros PL PR W1 W2 Hsc. induction t1 as [|x t1 IH]; intros d1 t2 d2 E1 E2 Ed fuel Hf;
      (destruct fuel as [|fuel]; [cbn [length] in Hf; lia|]); cbn [arr_loop_w]; unfold CMA_JSTEP.
    - (* the left array is exhausted *)
      rewrite app_nil_r in E1. subst d1.
      assert (Hlen : lenN l2 = lenN l1 + lenN t2) by (rewrite E2, lenN_app; unfold lenN; rewrite Ed; reflexivity).
      destruct (lenN l1 <=? lenN l2) eqn:Ele; [|apply N.leb_gt in Ele; lia].
      rewrite N.ltb_irrefl. destruct t2 as [|y t2]; cbn [goA].
      + rewrite lenN_nil, N.add_0_r in Hlen. rewrite Hlen, N.compare_refl. reflexivity.
      + rewrite lenN_cons in Hlen. replace (lenN l1 ?= lenN l2) with Lt by (symmetry; apply N.compare_lt_iff; lia). reflexivity.
    - destruct t2 as [|y t2].
      + (* the right array is exhausted *)
        rewrite app_nil_r in E2. subst d2.
        assert (Hlen : lenN l1 = lenN l2 + lenN (x :: t1)) by (rewrite E1, lenN_app; unfold lenN; rewrite Ed; reflexivity).
        rewrite lenN_cons in Hlen.
        destruct (lenN l1 <=? lenN l2) eqn:Ele; [apply N.leb_le in Ele; lia|].
        replace (lenN d1 <? lenN l2) with false by (symmetry; apply N.ltb_ge; unfold lenN; rewrite Ed; lia).
        cbn [goA]. replace (lenN l1 ?= lenN l2) with Gt by (symmetry; apply N.compare_gt_iff; lia). reflexivity.
      + (* one more pair *)
        assert (H1 : lenN l1 = lenN d1 + (1 + lenN t1)) by (rewrite E1, lenN_app, lenN_cons; reflexivity).
        assert (H2 : lenN l2 = lenN d2 + (1 + lenN t2)) by (rewrite E2, lenN_app, lenN_cons; reflexivity).
        assert (Hd : lenN d1 = lenN d2) by (unfold lenN; rewrite Ed; reflexivity).
        replace (lenN d1 <? (if lenN l1 <=? lenN l2 then lenN l1 else lenN l2)) with true
          by (symmetry; apply N.ltb_lt; destruct (lenN l1 <=? lenN l2); lia).
        destruct PL as (A1 & B1 & EL & ELo). destruct PR as (A2 & B2 & ER & ERo).
        (* the two entry words *)
        assert (RL : rd L (lo + 4 + 4 * lenN d1) = Ok (word x)).
        { rewrite EL, payload_arr.
          replace (A1 ++ (be32 (arr_hdr l1) ++ flat_map be32 (map word l1) ++ flat_map payload l1) ++ B1)
            with ((A1 ++ be32 (arr_hdr l1)) ++ flat_map be32 (map word l1) ++ (flat_map payload l1 ++ B1)) by (rewrite <- !app_assoc; reflexivity).
          apply (rd_word_at _ (map word l1) _ (map word d1) (word x) (map word t1)).
          - apply words_of_values_ok. exact W1.
          - rewrite E1, map_app. reflexivity.
          - rewrite lenN_app, lenN_be32, lenN_map. lia. }
        assert (RR : rd R (ro + 4 + 4 * lenN d1) = Ok (word y)).
        { rewrite ER, payload_arr.
          replace (A2 ++ (be32 (arr_hdr l2) ++ flat_map be32 (map word l2) ++ flat_map payload l2) ++ B2)
            with ((A2 ++ be32 (arr_hdr l2)) ++ flat_map be32 (map word l2) ++ (flat_map payload l2 ++ B2)) by (rewrite <- !app_assoc; reflexivity).
          apply (rd_word_at _ (map word l2) _ (map word d2) (word y) (map word t2)).
          - apply words_of_values_ok. exact W2.
          - rewrite E2, map_app. reflexivity.
          - rewrite lenN_app, lenN_be32, lenN_map. lia. }
        rewrite RL, RR. cbn [bind].
        (* where the two payloads are *)
        assert (N1 : nth_opt l1 (length d1) = Some x) by (rewrite E1; clear; induction d1 as [|d d1 IHd]; cbn [nth_opt app length]; [reflexivity|exact IHd]).
        assert (N2 : nth_opt l2 (length d2) = Some y) by (rewrite E2; clear; induction d2 as [|d d2 IHd]; cbn [nth_opt app length]; [reflexivity|exact IHd]).
        assert (F1 : firstn (length d1) l1 = d1) by (rewrite E1, firstn_app, Nat.sub_diag, firstn_all; cbn [firstn]; apply app_nil_r).
        assert (F2 : firstn (length d2) l2 = d2) by (rewrite E2, firstn_app, Nat.sub_diag, firstn_all; cbn [firstn]; apply app_nil_r).
        pose proof (placed_elem L l1 lo _ x (ex_intro _ A1 (ex_intro _ B1 (conj EL ELo))) N1) as P1. rewrite F1 in P1.
        pose proof (placed_elem R l2 ro _ y (ex_intro _ A2 (ex_intro _ B2 (conj ER ERo))) N2) as P2. rewrite F2 in P2.
        replace (lo + 4 + (4 * lenN l1 + sum_len d1)) with (lo + 4 + 4 * lenN l1 + sum_len d1) by lia.
        replace (ro + 4 + (4 * lenN l2 + sum_len d2)) with (ro + 4 + 4 * lenN l2 + sum_len d2) by lia.
        assert (FO1 : from_ok L (lo + 4 + 4 * lenN l1 + sum_len d1) = Ok tt) by (destruct P1 as (A' & B' & E' & ->); rewrite E'; apply from_ok_in; reflexivity).
        assert (FO2 : from_ok R (ro + 4 + 4 * lenN l2 + sum_len d2) = Ok tt) by (destruct P2 as (A' & B' & E' & ->); rewrite E'; apply from_ok_in; reflexivity).
        rewrite FO1, FO2. cbn [bind].
        rewrite (Hsc x ltac:(rewrite E1; apply in_or_app; right; left; reflexivity) y _ _ ltac:(rewrite E2; apply in_or_app; right; left; reflexivity) P1 P2).
        cbn [goA]. unfold ok_then.
        assert (Wx : wf_size x = true) by (rewrite Forall_forall in W1; apply W1; rewrite E1; apply in_or_app; right; left; reflexivity).
        assert (Wy : wf_size y = true) by (rewrite Forall_forall in W2; apply W2; rewrite E2; apply in_or_app; right; left; reflexivity).
        destruct (compare_entry x y) as [[| |]| |]; cbn [bind]; try reflexivity.
        rewrite (word_len x Wx), (word_len y Wy).
        specialize (IH (d1 ++ [x]) t2 (d2 ++ [y])). rewrite lenN_app, lenN_cons, lenN_nil, !sum_len_app in IH. cbn [sum_len fold_right] in IH.
        replace (lenN d1 + 1) with (lenN d1 + (1 + 0)) by lia.
        replace (4 * lenN d1 + 4) with (4 * (lenN d1 + (1 + 0))) by lia.
        replace (4 * lenN l1 + sum_len d1 + lenN (payload x)) with (4 * lenN l1 + (sum_len d1 + (lenN (payload x) + 0))) by lia.
        replace (4 * lenN l2 + sum_len d2 + lenN (payload y)) with (4 * lenN l2 + (sum_len d2 + (lenN (payload y) + 0))) by lia.
        apply IH; [rewrite E1, <- app_assoc; reflexivity|rewrite E2, <- app_assoc; reflexivity|rewrite !app_length; cbn [length]; lia|cbn [length] in Hf; lia].
  Qed.
End Loops.

Lemma placed_key bs o off d k x t : placed bs (VObj o) off -> o = d ++ (k, x) :: t ->
  exists A B, bs = A ++ k ++ B /\ lenN A = off + 4 + 8 * lenN o + sum_keys d.
Proof.
  intros (A & B & -> & ->) Eo. destruct (obj_key_loc A o B d k x t Eo) as (A' & B' & E & L'). exists A', B'. split; [exact E|lia].
Qed.
Lemma placed_val bs o off d k x t : placed bs (VObj o) off -> o = d ++ (k, x) :: t ->
  placed bs x (off + 4 + 8 * lenN o + sum_keys o + sum_len (vals d)).
Proof.
  intros (A & B & -> & ->) Eo. destruct (obj_val_loc A o B d k x t Eo) as (A' & B' & E & L'). exists A', B'. split; [exact E|lia].
Qed.

Section LoopsObj.
  Variables L R : list N.
  Variable f : nat.
  Notation sc := (compare_scalar_w (S f) L R).

  Lemma obj_loop_entry o1 o2 lo ro : placed L (VObj o1) lo -> placed R (VObj o2) ro -> obj_ok o1 -> obj_ok o2 ->
    (forall kv, In kv o1 -> forall kv' lo' ro', In kv' o2 -> placed L (snd kv) lo' -> placed R (snd kv') ro' ->
       sc (word (snd kv)) lo' (word (snd kv')) ro' = compare_entry (snd kv) (snd kv')) ->
    forall t1 d1 t2 d2, o1 = d1 ++ t1 -> o2 = d2 ++ t2 -> length d1 = length d2 ->
    obj_loop_w L R sc (kws t1) (kws t2) (4 * lenN o1 + 4 * lenN d1) (4 * lenN o2 + 4 * lenN d2) (lo + 4) (ro + 4)
               (8 * lenN o1 + sum_keys d1) (8 * lenN o2 + sum_keys d2)
               (8 * lenN o1 + sum_keys o1 + sum_len (vals d1)) (8 * lenN o2 + sum_keys o2 + sum_len (vals d2))
               (lenN o1) (lenN o2)
    = goO t1 t2.
  Proof.
    intros PL PR W1 W2 Hsc. induction t1 as [|[k1 x] t1 IH]; intros d1 t2 d2 E1 E2 Ed.
    - rewrite app_nil_r in E1. subst d1. cbn [kws map obj_loop_w].
      assert (Hlen : lenN o2 = lenN o1 + lenN t2) by (rewrite E2, lenN_app; unfold lenN; rewrite Ed; reflexivity).
      destruct t2 as [|[k2 y] t2]; cbn [goO].
      + rewrite lenN_nil, N.add_0_r in Hlen. rewrite Hlen, N.compare_refl. reflexivity.
      + rewrite lenN_cons in Hlen. replace (lenN o1 ?= lenN o2) with Lt by (symmetry; apply N.compare_lt_iff; lia). reflexivity.
    - destruct t2 as [|[k2 y] t2].
      + rewrite app_nil_r in E2. subst d2. cbn [kws map obj_loop_w goO].
        assert (Hlen : lenN o1 = lenN o2 + lenN ((k1, x) :: t1)) by (rewrite E1, lenN_app; unfold lenN; rewrite Ed; reflexivity).
        rewrite lenN_cons in Hlen. replace (lenN o1 ?= lenN o2) with Gt by (symmetry; apply N.compare_gt_iff; lia). reflexivity.
      + cbn [kws map fst obj_loop_w goO]. unfold CMO_LJSTEP2, CMO_RJSTEP2. fold (kws t1). fold (kws t2).
        assert (Hk1 : wf_size x = true /\ lenN k1 < 268435456).
        { unfold obj_ok in W1. rewrite E1 in W1. apply Forall_app in W1. destruct W1 as [_ W1]. inversion W1 as [|? ? Hh ?]. exact Hh. }
        assert (Hk2 : wf_size y = true /\ lenN k2 < 268435456).
        { unfold obj_ok in W2. rewrite E2 in W2. apply Forall_app in W2. destruct W2 as [_ W2]. inversion W2 as [|? ? Hh ?]. exact Hh. }
        destruct Hk1 as [Wx Hk1]. destruct Hk2 as [Wy Hk2].
        (* keys *)
        destruct (placed_key L o1 lo d1 k1 x t1 PL E1) as (Ak1 & Bk1 & EK1 & LK1).
        destruct (placed_key R o2 ro d2 k2 y t2 PR E2) as (Ak2 & Bk2 & EK2 & LK2).
        replace (lo + 4 + (8 * lenN o1 + sum_keys d1)) with (lenN Ak1) by lia.
        replace (ro + 4 + (8 * lenN o2 + sum_keys d2)) with (lenN Ak2) by lia.
        assert (FK1 : from_ok L (lenN Ak1) = Ok tt) by (rewrite EK1; apply from_ok_in; reflexivity).
        assert (FK2 : from_ok R (lenN Ak2) = Ok tt) by (rewrite EK2; apply from_ok_in; reflexivity).
        rewrite FK1, FK2. cbn [bind].
        rewrite (scalar_w_str f L R k1 k2 Ak1 Bk1 Ak2 Bk2 Hk1 Hk2 EK1 EK2). cbn [bind].
        destruct (bytes_cmp k1 k2); try reflexivity.
        (* value entry words *)
        destruct PL as (A1 & B1 & EL & ELo). destruct PR as (A2 & B2 & ER & ERo).
        assert (RL : rd L (lo + 4 + (4 * lenN o1 + 4 * lenN d1)) = Ok (word x)).
        { rewrite EL, obj_regroup. apply (rd_word_at _ (kws o1 ++ vws o1) _ (kws o1 ++ vws d1) (word x) (vws t1)).
          - apply obj_words_ok. exact W1.
          - rewrite <- app_assoc. f_equal. rewrite E1 at 1. unfold vws. rewrite map_app. reflexivity.
          - rewrite !lenN_app, lenN_be32, len_kws, len_vws. lia. }
        assert (RR : rd R (ro + 4 + (4 * lenN o2 + 4 * lenN d2)) = Ok (word y)).
        { rewrite ER, obj_regroup. apply (rd_word_at _ (kws o2 ++ vws o2) _ (kws o2 ++ vws d2) (word y) (vws t2)).
          - apply obj_words_ok. exact W2.
          - rewrite <- app_assoc. f_equal. rewrite E2 at 1. unfold vws. rewrite map_app. reflexivity.
          - rewrite !lenN_app, lenN_be32, len_kws, len_vws. lia. }
        rewrite RL, RR. cbn [bind].
        pose proof (placed_val L o1 lo d1 k1 x t1 (ex_intro _ A1 (ex_intro _ B1 (conj EL ELo))) E1) as P1.
        pose proof (placed_val R o2 ro d2 k2 y t2 (ex_intro _ A2 (ex_intro _ B2 (conj ER ERo))) E2) as P2.
        replace (lo + 4 + (8 * lenN o1 + sum_keys o1 + sum_len (vals d1))) with (lo + 4 + 8 * lenN o1 + sum_keys o1 + sum_len (vals d1)) by lia.
        replace (ro + 4 + (8 * lenN o2 + sum_keys o2 + sum_len (vals d2))) with (ro + 4 + 8 * lenN o2 + sum_keys o2 + sum_len (vals d2)) by lia.
        assert (FO1 : from_ok L (lo + 4 + 8 * lenN o1 + sum_keys o1 + sum_len (vals d1)) = Ok tt) by (destruct P1 as (A' & B' & E' & ->); rewrite E'; apply from_ok_in; reflexivity).
        assert (FO2 : from_ok R (ro + 4 + 8 * lenN o2 + sum_keys o2 + sum_len (vals d2)) = Ok tt) by (destruct P2 as (A' & B' & E' & ->); rewrite E'; apply from_ok_in; reflexivity).
        rewrite FO1, FO2. cbn [bind].
        pose proof (Hsc (k1, x) ltac:(rewrite E1; apply in_or_app; right; left; reflexivity) (k2, y) _ _ ltac:(rewrite E2; apply in_or_app; right; left; reflexivity) P1 P2) as HS.
        cbn [snd] in HS. rewrite HS. unfold ok_then.
        destruct (compare_entry x y) as [[| |]| |]; cbn [bind]; try reflexivity.
        rewrite (word_len x Wx), (word_len y Wy), (key_word_len k1 Hk1), (key_word_len k2 Hk2).
        specialize (IH (d1 ++ [(k1, x)]) t2 (d2 ++ [(k2, y)])).
        rewrite !lenN_app, !lenN_cons, !lenN_nil, !sum_keys_app in IH. unfold vals in IH. rewrite !map_app, !sum_len_app in IH.
        cbn [map snd fst sum_len sum_keys fold_right] in IH. fold (vals d1) in IH. fold (vals d2) in IH.
        replace (4 * lenN o1 + 4 * lenN d1 + 4) with (4 * lenN o1 + 4 * (lenN d1 + (1 + 0))) by lia.
        replace (4 * lenN o2 + 4 * lenN d2 + 4) with (4 * lenN o2 + 4 * (lenN d2 + (1 + 0))) by lia.
        replace (8 * lenN o1 + sum_keys d1 + lenN k1) with (8 * lenN o1 + (sum_keys d1 + (lenN k1 + 0))) by lia.
        replace (8 * lenN o2 + sum_keys d2 + lenN k2) with (8 * lenN o2 + (sum_keys d2 + (lenN k2 + 0))) by lia.
        replace (8 * lenN o1 + sum_keys o1 + sum_len (vals d1) + lenN (payload x)) with (8 * lenN o1 + sum_keys o1 + (sum_len (vals d1) + (lenN (payload x) + 0))) by lia.
        replace (8 * lenN o2 + sum_keys o2 + sum_len (vals d2) + lenN (payload y)) with (8 * lenN o2 + sum_keys o2 + (sum_len (vals d2) + (lenN (payload y) + 0))) by lia.
        apply IH; [rewrite E1, <- app_assoc; reflexivity|rewrite E2, <- app_assoc; reflexivity|rewrite !app_length; cbn [length]; lia].
  Qed.
End LoopsObj.

(* ---------------------------------------------------------------- one entry against another *)
Lemma depth_elem (l : list value) x : In x l -> (depth x <= fold_right (fun x acc => Nat.max (depth x) acc) 0 l)%nat.
Proof. apply fold_max_le. Qed.

Lemma rd_hdr_arr L l lo : placed L (VArr l) lo -> lenN l < 536870912 -> rd L lo = Ok (arr_hdr l).
Proof. intros (A & B & -> & ->) Hn. unfold rd. rewrite (read_hdr_arr A l B Hn). reflexivity. Qed.
Lemma rd_hdr_obj L o lo : placed L (VObj o) lo -> lenN o < 536870912 -> rd L lo = Ok (obj_hdr o).
Proof. intros (A & B & -> & ->) Hn. unfold rd. rewrite (read_hdr_obj A o B Hn). reflexivity. Qed.

Lemma placed_len L x lo : placed L x lo -> (length (payload x) <= length L)%nat.
Proof. intros (A & B & -> & _). rewrite !app_length. lia. Qed.
Lemma payload_arr_len l : (4 * length l <= length (payload (VArr l)))%nat.
Proof. rewrite payload_arr, !app_length, length_flat_words, map_length. lia. Qed.
Lemma payload_obj_len o : (8 * length o <= length (payload (VObj o)))%nat.
Proof. rewrite payload_obj, !app_length, length_flat_words, app_length. unfold kws, vws. rewrite !map_length. lia. Qed.

Lemma rd_kws L o lo : placed L (VObj o) lo -> obj_ok o -> rd_words_res L (lenN o) (lo + 4) = Ok (kws o).
Proof.
  intros (A & B & -> & ->) Ho. unfold rd_words_res. rewrite (rd_key_words A o B _ Ho); [reflexivity|].
  rewrite !app_length. pose proof (payload_obj_len o). lia.
Qed.

Theorem scalar_w_entry L R : forall x, wfb x = true -> forall y fuel lo ro, wfb y = true -> (depth x <= fuel)%nat ->
  placed L x lo -> placed R y ro -> compare_scalar_w fuel L R (word x) lo (word y) ro = compare_entry x y.
Proof.
  induction x as [|bx|sx|nx|l1 IH|o1 IH] using value_ind2; intros Wx y fuel lo ro Wy Hf PL PR;
    (destruct fuel as [|f]; [cbn [depth] in Hf; lia|]);
    pose proof (wfb_size _ Wx) as Sx; pose proof (wfb_size _ Wy) as Sy;
    cbn [compare_scalar_w]; unfold jlevel; rewrite (word_type _ Sx), (word_type _ Sy);
    match goal with |- _ = compare_entry ?a ?b => cbn [compare_entry] end;
    (destruct (level_of_tag (tag_of _) =? level_of_tag (tag_of y)) eqn:EL; cbn [negb]; [|reflexivity]).
  - (* null *)
    destruct y as [|by_|sy|ny|l2|o2]; try (destruct by_); cbn [tag_of]; try reflexivity; try (vm_compute in EL; discriminate EL).
  - (* booleans *)
    destruct bx; destruct y as [|by_|sy|ny|l2|o2]; try (destruct by_); cbn [tag_of]; try reflexivity; try (vm_compute in EL; discriminate EL).
  - (* strings *)
    destruct y as [|by_|sy|ny|l2|o2]; try (destruct by_); cbn [tag_of]; try (vm_compute in EL; discriminate EL).
    change (STRING_TAG =? NULL_TAG) with false. change (STRING_TAG =? CONTAINER_TAG) with false. change (STRING_TAG =? STRING_TAG) with true. cbn [andb].
    rewrite (word_len _ Sx), (word_len _ Sy).
    destruct PL as (A1 & B1 & -> & ->). destruct PR as (A2 & B2 & -> & ->).
    rewrite !slice_p_in by reflexivity. reflexivity.
  - (* numbers *)
    destruct y as [|by_|sy|ny|l2|o2]; try (destruct by_); cbn [tag_of]; try (vm_compute in EL; discriminate EL).
    change (NUMBER_TAG =? NULL_TAG) with false. change (NUMBER_TAG =? CONTAINER_TAG) with false. change (NUMBER_TAG =? STRING_TAG) with false.
    change (NUMBER_TAG =? NUMBER_TAG) with true. cbn [andb].
    rewrite (word_len _ Sx), (word_len _ Sy).
    destruct PL as (A1 & B1 & -> & ->). destruct PR as (A2 & B2 & -> & ->).
    rewrite !slice_p_in by reflexivity. cbn [bind].
    change (payload (VNum nx)) with (compact_encode nx). change (payload (VNum ny)) with (compact_encode ny).
    assert (Rx : num_in_range nx = true) by (unfold wfb in Wx; apply andb_true_iff in Wx; apply Wx).
    assert (Ry : num_in_range ny = true) by (unfold wfb in Wy; apply andb_true_iff in Wy; apply Wy).
    rewrite (num_roundtrip nx Rx), (num_roundtrip ny Ry). cbn [bind]. rewrite num_cmp_normalise. reflexivity.
  - (* arrays *)
    destruct (wf_arr l1 Wx) as [Hall1 Hn1].
    assert (W1 : Forall (fun v => wf_size v = true) l1) by (eapply Forall_impl; [|exact Hall1]; intros v; apply wfb_size).
    destruct y as [|by_|sy|ny|l2|o2]; try (destruct by_); cbn [tag_of]; try (vm_compute in EL; discriminate EL).
    + (* array / array *)
      destruct (wf_arr l2 Wy) as [Hall2 Hn2].
      assert (W2 : Forall (fun v => wf_size v = true) l2) by (eapply Forall_impl; [|exact Hall2]; intros v; apply wfb_size).
      change (CONTAINER_TAG =? NULL_TAG) with false. change (CONTAINER_TAG =? CONTAINER_TAG) with true. cbn [andb].
      unfold compare_container_w, CMP_ARR_LSKIP, CMP_ARR_RSKIP, CMP_OBJ_LSKIP, CMP_OBJ_RSKIP. rewrite (rd_hdr_arr L l1 lo PL Hn1), (rd_hdr_arr R l2 ro PR Hn2). cbn [bind].
      destruct (arr_hdr_facts l1 Hn1) as (_ & T1 & L1). destruct (arr_hdr_facts l2 Hn2) as (_ & T2 & L2). rewrite T1, T2.
      rewrite N.eqb_refl. cbn [andb]. unfold compare_array_w, CMA_LEN, CMA_JOFF, CMA_LVOFF, CMA_RVOFF. rewrite L1, L2.
      pose proof (arr_loop_entry L R f l1 l2 lo ro PL PR W1 W2) as AL.
      specialize (AL ltac:(intros x Hx y0 lo' ro' Hy P1 P2; rewrite Forall_forall in IH; apply (IH x Hx);
                           [rewrite Forall_forall in Hall1; apply Hall1; exact Hx|rewrite Forall_forall in Hall2; apply Hall2; exact Hy
                           |cbn [depth] in Hf; pose proof (depth_elem l1 x Hx); lia|exact P1|exact P2])).
      specialize (AL l1 [] l2 [] eq_refl eq_refl eq_refl (S (length L))).
      cbn [sum_len fold_right] in AL. rewrite lenN_nil, N.mul_0_r, !N.add_0_r in AL.
      rewrite AL; [reflexivity|]. pose proof (placed_len L _ lo PL). pose proof (payload_arr_len l1). lia.
    + (* array / object *)
      destruct (obj_ok_of_wf o2 Wy) as [Ho2 Hn2].
      change (CONTAINER_TAG =? NULL_TAG) with false. change (CONTAINER_TAG =? CONTAINER_TAG) with true. cbn [andb].
      unfold compare_container_w, CMP_ARR_LSKIP, CMP_ARR_RSKIP, CMP_OBJ_LSKIP, CMP_OBJ_RSKIP. rewrite (rd_hdr_arr L l1 lo PL Hn1), (rd_hdr_obj R o2 ro PR Hn2). cbn [bind].
      destruct (arr_hdr_facts l1 Hn1) as (_ & T1 & _). destruct (obj_hdr_facts o2 Hn2) as (_ & T2 & _). rewrite T1, T2. reflexivity.
  - (* objects *)
    destruct (obj_ok_of_wf o1 Wx) as [Ho1 Hn1].
    destruct y as [|by_|sy|ny|l2|o2]; try (destruct by_); cbn [tag_of]; try (vm_compute in EL; discriminate EL).
    + (* object / array *)
      destruct (wf_arr l2 Wy) as [_ Hn2].
      change (CONTAINER_TAG =? NULL_TAG) with false. change (CONTAINER_TAG =? CONTAINER_TAG) with true. cbn [andb].
      unfold compare_container_w, CMP_ARR_LSKIP, CMP_ARR_RSKIP, CMP_OBJ_LSKIP, CMP_OBJ_RSKIP. rewrite (rd_hdr_obj L o1 lo PL Hn1), (rd_hdr_arr R l2 ro PR Hn2). cbn [bind].
      destruct (obj_hdr_facts o1 Hn1) as (_ & T1 & _). destruct (arr_hdr_facts l2 Hn2) as (_ & T2 & _). rewrite T1, T2. reflexivity.
    + (* object / object *)
      destruct (obj_ok_of_wf o2 Wy) as [Ho2 Hn2].
      change (CONTAINER_TAG =? NULL_TAG) with false. change (CONTAINER_TAG =? CONTAINER_TAG) with true. cbn [andb].
      unfold compare_container_w, CMP_ARR_LSKIP, CMP_ARR_RSKIP, CMP_OBJ_LSKIP, CMP_OBJ_RSKIP. rewrite (rd_hdr_obj L o1 lo PL Hn1), (rd_hdr_obj R o2 ro PR Hn2). cbn [bind].
      destruct (obj_hdr_facts o1 Hn1) as (_ & T1 & L1). destruct (obj_hdr_facts o2 Hn2) as (_ & T2 & L2). rewrite T1, T2.
      change (OBJECT_CONTAINER_TAG =? ARRAY_CONTAINER_TAG) with false. rewrite N.eqb_refl. cbn [andb].
      unfold compare_object_w, CMO_LJOFF, CMO_RJOFF, CMO_LJSTEP1, CMO_RJSTEP1, CMO_LKOFF, CMO_RKOFF, CMO_LVOFF, CMO_RVOFF. rewrite L1, L2, ?N.add_0_r, ?N.add_0_l. rewrite (rd_kws L o1 lo PL Ho1), (rd_kws R o2 ro PR Ho2). cbn [bind].
      rewrite (sum_je_len_kws o1 Ho1), (sum_je_len_kws o2 Ho2).
      destruct (wf_obj o1 Wx) as (Hall1 & _ & _). destruct (wf_obj o2 Wy) as (Hall2 & _ & _).
      destruct f as [|f'].
      * (* no fuel left for members: the left object is empty *)
        assert (o1 = []).
        { destruct o1 as [|[k x] r]; [reflexivity|]. cbn [depth fold_right snd] in Hf. destruct x; cbn [depth] in Hf; lia. }
        subst o1. cbn [kws map obj_loop_w]. transitivity (goO [] o2); [|reflexivity]. destruct o2 as [|[k2 y2] r2]; cbn [goO kws map obj_loop_w]; [reflexivity|].
        rewrite lenN_cons, lenN_nil. replace (0 ?= 1 + lenN r2) with Lt by (symmetry; apply N.compare_lt_iff; lia). reflexivity.
      * pose proof (obj_loop_entry L R f' o1 o2 lo ro PL PR Ho1 Ho2) as OL.
        specialize (OL ltac:(intros kv Hx kv' lo' ro' Hy P1 P2; rewrite Forall_forall in IH; apply (IH kv Hx);
                             [rewrite Forall_forall in Hall1; apply (Hall1 kv Hx)|rewrite Forall_forall in Hall2; apply (Hall2 kv' Hy)
                             |cbn [depth] in Hf; pose proof (fold_max_le_obj o1 kv Hx); lia|exact P1|exact P2])).
        specialize (OL o1 [] o2 [] eq_refl eq_refl eq_refl).
        cbn [vals map sum_len sum_keys fold_right] in OL. change (lenN (@nil (list N * value))) with 0 in OL. rewrite ?N.mul_0_r, ?N.add_0_r in OL.
        rewrite OL. reflexivity.
Qed.

(* ---------------------------------------------------------------- the top level *)
Lemma depth_le_len v : (depth v <= S (length (payload v)))%nat.
Proof. pose proof (depth_bound v). lia. Qed.

Lemma scalar_doc v : is_container v = false -> enc v = be32 SCALAR_CONTAINER_TAG ++ be32 (word v) ++ payload v.
Proof. destruct v; intros H; try discriminate H; reflexivity. Qed.
Lemma container_doc v : is_container v = true -> enc v = payload v.
Proof. destruct v; intros H; try discriminate H; reflexivity. Qed.

Lemma rd_scalar_word v : is_container v = false -> wf_size v = true -> rd (enc v) 4 = Ok (word v).
Proof.
  intros Hs Hw. rewrite (scalar_doc v Hs). unfold rd. change 4 with (lenN (be32 SCALAR_CONTAINER_TAG)).
  rewrite read_u32_mid by (apply word_bound; exact Hw). reflexivity.
Qed.
Lemma rd_scalar_hdr v : is_container v = false -> rd (enc v) 0 = Ok SCALAR_CONTAINER_TAG.
Proof. intros Hs. unfold rd. rewrite (scalar_hdr v Hs). reflexivity. Qed.
Lemma placed_scalar_doc v : is_container v = false -> placed (enc v) v 8.
Proof. intros Hs. exists (be32 SCALAR_CONTAINER_TAG ++ be32 (word v)), []. split; [rewrite (scalar_doc v Hs), <- !app_assoc, app_nil_r; reflexivity|reflexivity]. Qed.
Lemma placed_container_doc v : is_container v = true -> placed (enc v) v 0.
Proof. intros Hc. exists [], []. split; [rewrite (container_doc v Hc), app_nil_r; reflexivity|reflexivity]. Qed.

Lemma enc_len_ge v : (length (payload v) <= length (enc v))%nat.
Proof. destruct v; cbn [enc]; rewrite ?app_length; fold (payload VNull); try lia; unfold payload; cbn [enc_item snd]; rewrite ?app_length; lia. Qed.

Theorem compare_b_enc a b : wfb a = true -> wfb b = true -> compare_b (enc a) (enc b) = Ok (cmp_value a b).
Proof.
  intros Wa Wb. rewrite <- (compare_m_correct a b).
  pose proof (wfb_size _ Wa) as Sa. pose proof (wfb_size _ Wb) as Sb.
  assert (Fuel : forall x, In x [a; b] -> (depth x <= S (length (enc a) + length (enc b)))%nat).
  { intros x [<-|[<-|[]]]; [pose proof (depth_le_len a); pose proof (enc_len_ge a)|pose proof (depth_le_len b); pose proof (enc_len_ge b)]; lia. }
  unfold compare_b, compare_m, CPR_SC_LJOFF, CPR_SC_RJOFF, CPR_SC_LSKIP, CPR_SC_RSKIP, CPR_ARR_LSKIP, CPR_ARR_RSKIP, CPR_OBJ_LSKIP, CPR_OBJ_RSKIP, CPR_MIX_LJOFF, CPR_MIX_RJOFF.
  destruct (is_container a) eqn:Ca, (is_container b) eqn:Cb;
    unfold is_container in Ca, Cb; destruct (is_scalar a) eqn:Sca; try discriminate Ca; destruct (is_scalar b) eqn:Scb; try discriminate Cb; clear Ca Cb.
  - (* container / container *)
    assert (Ca : is_container a = true) by (unfold is_container; rewrite Sca; reflexivity).
    assert (Cb : is_container b = true) by (unfold is_container; rewrite Scb; reflexivity).
    pose proof (placed_container_doc a Ca) as PA. pose proof (placed_container_doc b Cb) as PB.
    set (F := (length (enc a) + length (enc b))%nat) in *.
    assert (Elem : forall x y lo' ro', wfb x = true -> wfb y = true -> (depth x <= S F)%nat -> placed (enc a) x lo' -> placed (enc b) y ro' ->
              compare_scalar_w (S F) (enc a) (enc b) (word x) lo' (word y) ro' = compare_entry x y).
    { intros x y lo' ro' Hx Hy Hd P1 P2. apply (scalar_w_entry (enc a) (enc b) x Hx y (S F) lo' ro' Hy Hd P1 P2). }
    destruct a as [| | | |l1|o1]; try discriminate Sca; destruct b as [| | | |l2|o2]; try discriminate Scb.
    + destruct (wf_arr l1 Wa) as [Hall1 Hn1]. destruct (wf_arr l2 Wb) as [Hall2 Hn2].
      assert (W1 : Forall (fun v => wf_size v = true) l1) by (eapply Forall_impl; [|exact Hall1]; intros v; apply wfb_size).
      assert (W2 : Forall (fun v => wf_size v = true) l2) by (eapply Forall_impl; [|exact Hall2]; intros v; apply wfb_size).
      rewrite (rd_hdr_arr _ l1 0 PA Hn1), (rd_hdr_arr _ l2 0 PB Hn2). cbn [bind].
      destruct (arr_hdr_facts l1 Hn1) as (_ & T1 & L1). destruct (arr_hdr_facts l2 Hn2) as (_ & T2 & L2). rewrite T1, T2.
      change (ARRAY_CONTAINER_TAG =? SCALAR_CONTAINER_TAG) with false. rewrite N.eqb_refl. cbn [andb orb].
      unfold compare_array_w, CMA_LEN, CMA_JOFF, CMA_LVOFF, CMA_RVOFF. rewrite L1, L2.
      pose proof (arr_loop_entry (enc (VArr l1)) (enc (VArr l2)) (S F) l1 l2 0 0 PA PB W1 W2) as AL.
      specialize (AL ltac:(intros x Hx y0 lo' ro' Hy P1 P2; apply Elem;
                           [rewrite Forall_forall in Hall1; apply Hall1; exact Hx|rewrite Forall_forall in Hall2; apply Hall2; exact Hy
                           |pose proof (Fuel _ (or_introl eq_refl)) as FF; cbn [depth] in FF; pose proof (depth_elem l1 x Hx); lia|exact P1|exact P2])).
      specialize (AL l1 [] l2 [] eq_refl eq_refl eq_refl (S (length (enc (VArr l1))))).
      cbn [sum_len fold_right] in AL. rewrite lenN_nil, N.mul_0_r, !N.add_0_r in AL. change (0 + 4) with 4 in AL.
      rewrite AL; [symmetry; apply entry_arr|]. pose proof (placed_len _ _ 0 PA). pose proof (payload_arr_len l1). lia.
    + destruct (wf_arr l1 Wa) as [_ Hn1]. destruct (obj_ok_of_wf o2 Wb) as [_ Hn2].
      rewrite (rd_hdr_arr _ l1 0 PA Hn1), (rd_hdr_obj _ o2 0 PB Hn2). cbn [bind].
      destruct (arr_hdr_facts l1 Hn1) as (_ & T1 & _). destruct (obj_hdr_facts o2 Hn2) as (_ & T2 & _). rewrite T1, T2. reflexivity.
    + destruct (obj_ok_of_wf o1 Wa) as [_ Hn1]. destruct (wf_arr l2 Wb) as [_ Hn2].
      rewrite (rd_hdr_obj _ o1 0 PA Hn1), (rd_hdr_arr _ l2 0 PB Hn2). cbn [bind].
      destruct (obj_hdr_facts o1 Hn1) as (_ & T1 & _). destruct (arr_hdr_facts l2 Hn2) as (_ & T2 & _). rewrite T1, T2. reflexivity.
    + destruct (obj_ok_of_wf o1 Wa) as [Ho1 Hn1]. destruct (obj_ok_of_wf o2 Wb) as [Ho2 Hn2].
      destruct (wf_obj o1 Wa) as (Hall1 & _ & _). destruct (wf_obj o2 Wb) as (Hall2 & _ & _).
      rewrite (rd_hdr_obj _ o1 0 PA Hn1), (rd_hdr_obj _ o2 0 PB Hn2). cbn [bind].
      destruct (obj_hdr_facts o1 Hn1) as (_ & T1 & L1). destruct (obj_hdr_facts o2 Hn2) as (_ & T2 & L2). rewrite T1, T2.
      change (OBJECT_CONTAINER_TAG =? SCALAR_CONTAINER_TAG) with false. change (OBJECT_CONTAINER_TAG =? ARRAY_CONTAINER_TAG) with false.
      rewrite N.eqb_refl. cbn [andb orb].
      unfold compare_object_w, CMO_LJOFF, CMO_RJOFF, CMO_LJSTEP1, CMO_RJSTEP1, CMO_LKOFF, CMO_RKOFF, CMO_LVOFF, CMO_RVOFF. rewrite L1, L2, ?N.add_0_r, ?N.add_0_l.
      pose proof (rd_kws _ o1 0 PA Ho1) as K1. pose proof (rd_kws _ o2 0 PB Ho2) as K2. change (0 + 4) with 4 in K1, K2. rewrite K1, K2. cbn [bind].
      rewrite (sum_je_len_kws o1 Ho1), (sum_je_len_kws o2 Ho2).
      pose proof (obj_loop_entry (enc (VObj o1)) (enc (VObj o2)) F o1 o2 0 0 PA PB Ho1 Ho2) as OL.
      specialize (OL ltac:(intros kv Hx kv' lo' ro' Hy P1 P2; apply Elem;
                           [rewrite Forall_forall in Hall1; apply (Hall1 kv Hx)|rewrite Forall_forall in Hall2; apply (Hall2 kv' Hy)
                           |pose proof (Fuel _ (or_introl eq_refl)) as FF; cbn [depth] in FF; pose proof (fold_max_le_obj o1 kv Hx); lia|exact P1|exact P2])).
      specialize (OL o1 [] o2 [] eq_refl eq_refl eq_refl).
      cbn [vals map sum_len sum_keys fold_right] in OL. change (lenN (@nil (list N * value))) with 0 in OL. rewrite ?N.mul_0_r, ?N.add_0_r in OL. change (0 + 4) with 4 in OL.
      rewrite OL. symmetry. apply entry_obj.
  - (* container / scalar *)
    assert (Ca : is_container a = true) by (unfold is_container; rewrite Sca; reflexivity).
    assert (Cb : is_container b = false) by (unfold is_container; rewrite Scb; reflexivity).
    pose proof (placed_container_doc a Ca) as PA.
    rewrite (rd_scalar_hdr b Cb).
    assert (HA : exists h, rd (enc a) 0 = Ok h /\ (hdr_type h = ARRAY_CONTAINER_TAG \/ hdr_type h = OBJECT_CONTAINER_TAG)).
    { destruct a as [| | | |l1|o1]; try discriminate Sca.
      - destruct (wf_arr l1 Wa) as [_ Hn1]. exists (arr_hdr l1). split; [apply (rd_hdr_arr _ l1 0 PA Hn1)|left; apply (arr_hdr_facts l1 Hn1)].
      - destruct (obj_ok_of_wf o1 Wa) as [_ Hn1]. exists (obj_hdr o1). split; [apply (rd_hdr_obj _ o1 0 PA Hn1)|right; apply (obj_hdr_facts o1 Hn1)]. }
    destruct HA as (h & -> & Ht). cbn [bind]. change (hdr_type SCALAR_CONTAINER_TAG) with SCALAR_CONTAINER_TAG.
    rewrite (rd_scalar_word b Cb Sb).
    destruct Ht as [-> | ->]; cbn [N.eqb]; change (SCALAR_CONTAINER_TAG =? SCALAR_CONTAINER_TAG) with true;
      [change (ARRAY_CONTAINER_TAG =? SCALAR_CONTAINER_TAG) with false; change (ARRAY_CONTAINER_TAG =? ARRAY_CONTAINER_TAG) with true; change (SCALAR_CONTAINER_TAG =? ARRAY_CONTAINER_TAG) with false; change (SCALAR_CONTAINER_TAG =? OBJECT_CONTAINER_TAG) with false
      |change (OBJECT_CONTAINER_TAG =? SCALAR_CONTAINER_TAG) with false; change (OBJECT_CONTAINER_TAG =? ARRAY_CONTAINER_TAG) with false; change (OBJECT_CONTAINER_TAG =? OBJECT_CONTAINER_TAG) with true; change (SCALAR_CONTAINER_TAG =? ARRAY_CONTAINER_TAG) with false; change (SCALAR_CONTAINER_TAG =? OBJECT_CONTAINER_TAG) with false];
      cbn [andb orb bind]; rewrite (word_type b Sb); destruct b as [|[]| | | |]; try discriminate Scb; reflexivity.
  - (* scalar / container *)
    assert (Ca : is_container a = false) by (unfold is_container; rewrite Sca; reflexivity).
    assert (Cb : is_container b = true) by (unfold is_container; rewrite Scb; reflexivity).
    pose proof (placed_container_doc b Cb) as PB.
    rewrite (rd_scalar_hdr a Ca).
    assert (HB : exists h, rd (enc b) 0 = Ok h /\ (hdr_type h = ARRAY_CONTAINER_TAG \/ hdr_type h = OBJECT_CONTAINER_TAG)).
    { destruct b as [| | | |l1|o1]; try discriminate Scb.
      - destruct (wf_arr l1 Wb) as [_ Hn1]. exists (arr_hdr l1). split; [apply (rd_hdr_arr _ l1 0 PB Hn1)|left; apply (arr_hdr_facts l1 Hn1)].
      - destruct (obj_ok_of_wf o1 Wb) as [_ Hn1]. exists (obj_hdr o1). split; [apply (rd_hdr_obj _ o1 0 PB Hn1)|right; apply (obj_hdr_facts o1 Hn1)]. }
    destruct HB as (h & -> & Ht). cbn [bind]. change (hdr_type SCALAR_CONTAINER_TAG) with SCALAR_CONTAINER_TAG.
    rewrite (rd_scalar_word a Ca Sa).
    destruct Ht as [-> | ->]; change (SCALAR_CONTAINER_TAG =? SCALAR_CONTAINER_TAG) with true;
      [change (ARRAY_CONTAINER_TAG =? SCALAR_CONTAINER_TAG) with false; change (ARRAY_CONTAINER_TAG =? ARRAY_CONTAINER_TAG) with true; change (SCALAR_CONTAINER_TAG =? ARRAY_CONTAINER_TAG) with false; change (SCALAR_CONTAINER_TAG =? OBJECT_CONTAINER_TAG) with false
      |change (OBJECT_CONTAINER_TAG =? SCALAR_CONTAINER_TAG) with false; change (OBJECT_CONTAINER_TAG =? ARRAY_CONTAINER_TAG) with false; change (OBJECT_CONTAINER_TAG =? OBJECT_CONTAINER_TAG) with true; change (SCALAR_CONTAINER_TAG =? ARRAY_CONTAINER_TAG) with false; change (SCALAR_CONTAINER_TAG =? OBJECT_CONTAINER_TAG) with false];
      cbn [andb orb bind]; rewrite (word_type a Sa); destruct a as [|[]| | | |]; try discriminate Sca; reflexivity.
  - (* scalar / scalar *)
    assert (Ca : is_container a = false) by (unfold is_container; rewrite Sca; reflexivity).
    assert (Cb : is_container b = false) by (unfold is_container; rewrite Scb; reflexivity).
    rewrite (rd_scalar_hdr a Ca), (rd_scalar_hdr b Cb). cbn [bind]. change (hdr_type SCALAR_CONTAINER_TAG) with SCALAR_CONTAINER_TAG.
    change (SCALAR_CONTAINER_TAG =? SCALAR_CONTAINER_TAG) with true. cbn [andb].
    rewrite (rd_scalar_word a Ca Sa), (rd_scalar_word b Cb Sb). cbn [bind].
    pose proof (placed_scalar_doc a Ca) as PA. pose proof (placed_scalar_doc b Cb) as PB.
    assert (F1 : from_ok (enc a) 8 = Ok tt) by (destruct PA as (A & B & E & L'); rewrite E at 1; rewrite L'; apply from_ok_in; reflexivity).
    assert (F2 : from_ok (enc b) 8 = Ok tt) by (destruct PB as (A & B & E & L'); rewrite E at 1; rewrite L'; apply from_ok_in; reflexivity).
    rewrite F1, F2. cbn [bind].
    apply (scalar_w_entry (enc a) (enc b) a Wa b _ 8 8 Wb (Fuel a (or_introl eq_refl)) PA PB).
Qed.

(* the public function on two encodings *)
Theorem compare_w_enc v w : wfb v = true -> top_ok v -> wfb w = true -> top_ok w ->
  compare_w (enc v) (enc w) = Ok (cmp_value v w).
Proof.
  intros Hv Tv Hw Tw. unfold compare_w. rewrite (is_jsonb_enc v Hv Tv), (is_jsonb_enc w Hw Tw). apply compare_b_enc; assumption.
Qed.
