(* SetWalk.v — offset-faithful models of array_distinct / array_intersection / array_except / array_overlap of
   src/functions.rs (the `_jsonb` workers and the public dispatch): both headers are read, arrays are walked with
   ArrayIterator (Iter.v), a document that is not an array counts as one item, the items are keyed by
   (JEntry, payload bytes) in a BTreeSet / BTreeMap, the survivors are pushed raw into an ArrayBuilder (Builder.v) and
   written with build_into.
     read_u32(..)?         -> Err (nothing is appended to the output buffer)
     &value[8..]           -> Panic when shorter than 8 bytes
     the iterator's slice  -> Panic (Iter.v)
   The ordered collections: the code only asks `contains` / `insert` of the set and `get_mut` (+1, or -1 when > 0) /
   `insert(.., 1)` / `contains_key` of the map; the derived Ord of (JEntry, &[u8]) is a total order consistent with the
   derived Eq, so all that is observable is equality of (type_code, length, bytes) and the counts.  The set is a list
   of keys, the map an association list key -> count, both searched with that equality.
   JSON-text arguments are parsed and re-encoded first, as the code does.  Executable definitions only;
   SetWalkProofs.v proves that on encodings the walkers return the tree answers of SetOps.v. *)
From Coq Require Import List NArith ZArith Bool.
Import ListNotations.
From JB Require Import Constants Bytes Utf8 Num Value Codec JsonText Dispatch Walk Iter Builder BufSt.
Open Scope N_scope.

(* (JEntry, &[u8]) with the derived PartialEq *)
Definition ikey := (je * list N)%type.
Definition ikey_eqb (a b : ikey) : bool :=
  (fst (fst a) =? fst (fst b)) && (snd (fst a) =? snd (fst b)) && bytes_eqb (snd a) (snd b).

(* BTreeSet<(JEntry, &[u8])>::contains *)
Definition iset_mem (k : ikey) (s : list ikey) : bool := existsb (ikey_eqb k) s.
(* `if !set.contains(k) { set.insert(k) }` *)
Definition iset_add (k : ikey) (s : list ikey) : list ikey := if iset_mem k s then s else k :: s.

(* BTreeMap<(JEntry, &[u8]), usize> *)
(* `if let Some(cnt) = map.get_mut(k) { *cnt += 1 } else { map.insert(k, 1) }` *)
Fixpoint imap_incr (k : ikey) (m : list (ikey * N)) : list (ikey * N) :=
  match m with
  | [] => [(k, 1)]
  | (k', c) :: r => if ikey_eqb k k' then (k', c + 1) :: r else (k', c) :: imap_incr k r
  end.
(* `if let Some(cnt) = map.get_mut(k) { if *cnt > 0 { *cnt -= 1; .. } }`: the map afterwards when the inner block ran *)
Fixpoint imap_take (k : ikey) (m : list (ikey * N)) : option (list (ikey * N)) :=
  match m with
  | [] => None
  | (k', c) :: r =>
      if ikey_eqb k k' then (if 0 <? c then Some ((k', c - 1) :: r) else None)
      else match imap_take k r with Some r' => Some ((k', c) :: r') | None => None end
  end.
(* contains_key *)
Definition imap_has (k : ikey) (m : list (ikey * N)) : bool := existsb (fun kc => ikey_eqb k (fst kc)) m.

(* the one item a document that is not an array stands for: an object is a container entry over the whole buffer,
   anything else is the scalar's entry word with `&value[8..]` *)
Definition single_item (bs : list N) (hdr : N) : res ikey :=
  if hdr_type hdr =? OBJECT_CONTAINER_TAG then Ok ((CONTAINER_TAG, u32 (lenN bs)), bs)
  else
    match read_u32 bs 4 with
    | None => Err EOther
    | Some w =>
        match slice_from bs 8 with
        | None => Panic
        | Some d => Ok (decode_je w, d)
        end
    end.

Definition raw_entry (k : ikey) : entry := ERaw (fst k) (snd k).

(* ---- array_distinct_jsonb ----  the caller's buffer is state (BufSt.v): reads and the iterator are `spure`, the one
   write is builder.build_into(buf) at the end *)
Definition array_distinct_b_st (bs : list N) : stm unit :=
  sdo hdr <- spure (of_option EOther (read_u32 bs 0));
  sdo es <- spure (if hdr_type hdr =? ARRAY_CONTAINER_TAG then
                     iterate_array bs hdr
                       (fun (st : list ikey * list entry) j p =>
                          if iset_mem (j, p) (fst st) then Ok (inl st)
                          else Ok (inl ((j, p) :: fst st, snd st ++ [ERaw j p])))
                       (fun st => Ok (snd st)) ([], [])
                   else do k <- single_item bs hdr; Ok [raw_entry k]);
  swrite (fun buf => build_arr_into buf es).
Definition array_distinct_b (bs buf : list N) : res (list N) := view (array_distinct_b_st bs buf).

(* the count map of the second argument (array_intersection_jsonb, array_except_jsonb) *)
Definition count_items (bs : list N) (hdr : N) : res (list (ikey * N)) :=
  if hdr_type hdr =? ARRAY_CONTAINER_TAG then
    iterate_array bs hdr (fun (m : list (ikey * N)) j p => Ok (inl (imap_incr (j, p) m))) (fun m => Ok m) []
  else do k <- single_item bs hdr; Ok [(k, 1)].

(* ---- array_intersection_jsonb ---- *)
Definition array_intersection_b_st (bs1 bs2 : list N) : stm unit :=
  sdo h1 <- spure (of_option EOther (read_u32 bs1 0));
  sdo h2 <- spure (of_option EOther (read_u32 bs2 0));
  sdo m <- spure (count_items bs2 h2);
  sdo es <- spure (if hdr_type h1 =? ARRAY_CONTAINER_TAG then
                     iterate_array bs1 h1
                       (fun (st : list (ikey * N) * list entry) j p =>
                          match imap_take (j, p) (fst st) with
                          | Some m' => Ok (inl (m', snd st ++ [ERaw j p]))
                          | None => Ok (inl st)
                          end)
                       (fun st => Ok (snd st)) (m, [])
                   else do k <- single_item bs1 h1; Ok (if imap_has k m then [raw_entry k] else []));
  swrite (fun buf => build_arr_into buf es).
Definition array_intersection_b (bs1 bs2 buf : list N) : res (list N) := view (array_intersection_b_st bs1 bs2 buf).

(* ---- array_except_jsonb ---- *)
Definition array_except_b_st (bs1 bs2 : list N) : stm unit :=
  sdo h1 <- spure (of_option EOther (read_u32 bs1 0));
  sdo h2 <- spure (of_option EOther (read_u32 bs2 0));
  sdo m <- spure (count_items bs2 h2);
  sdo es <- spure (if hdr_type h1 =? ARRAY_CONTAINER_TAG then
                     iterate_array bs1 h1
                       (fun (st : list (ikey * N) * list entry) j p =>
                          match imap_take (j, p) (fst st) with
                          | Some m' => Ok (inl (m', snd st))
                          | None => Ok (inl (fst st, snd st ++ [ERaw j p]))
                          end)
                       (fun st => Ok (snd st)) (m, [])
                   else do k <- single_item bs1 h1; Ok (if imap_has k m then [] else [raw_entry k]));
  swrite (fun buf => build_arr_into buf es).
Definition array_except_b (bs1 bs2 buf : list N) : res (list N) := view (array_except_b_st bs1 bs2 buf).

(* ---- array_overlap_jsonb ---- *)
Definition array_overlap_b (bs1 bs2 : list N) : res bool :=
  match read_u32 bs1 0 with None => Err EOther | Some h1 =>
  match read_u32 bs2 0 with None => Err EOther | Some h2 =>
  do s <- (if hdr_type h2 =? ARRAY_CONTAINER_TAG then
             iterate_array bs2 h2 (fun (s : list ikey) j p => Ok (inl (iset_add (j, p) s))) (fun s => Ok s) []
           else do k <- single_item bs2 h2; Ok [k]);
  if hdr_type h1 =? ARRAY_CONTAINER_TAG then
    iterate_array bs1 h1 (fun (_ : unit) j p => if iset_mem (j, p) s then Ok (inr true) else Ok (inl tt))
      (fun _ => Ok false) tt
  else do k <- single_item bs1 h1; Ok (iset_mem k s)
  end end.

(* ---- the public functions: a JSON-text argument is parsed and re-encoded (value1 first) ---- *)
Definition as_jsonb (bs : list N) : res (list N) :=
  if is_jsonb bs then Ok bs else do v <- parse_value bs; Ok (to_vec v).

Definition array_distinct_st (bs : list N) : stm unit :=
  sdo b <- spure (as_jsonb bs); array_distinct_b_st b.
Definition array_intersection_st (l r : list N) : stm unit :=
  sdo a <- spure (as_jsonb l); sdo b <- spure (as_jsonb r); array_intersection_b_st a b.
Definition array_except_st (l r : list N) : stm unit :=
  sdo a <- spure (as_jsonb l); sdo b <- spure (as_jsonb r); array_except_b_st a b.
Definition array_distinct_w (bs buf : list N) : res (list N) := view (array_distinct_st bs buf).
Definition array_intersection_w (l r buf : list N) : res (list N) := view (array_intersection_st l r buf).
Definition array_except_w (l r buf : list N) : res (list N) := view (array_except_st l r buf).
Definition array_overlap_w (l r : list N) : res bool :=
  do a <- as_jsonb l; do b <- as_jsonb r; array_overlap_b a b.
