(* SerdeWalkProofs.v — the byte walker of SerdeWalk.v (to_serde_json / to_serde_json_object on JSONB bytes) returns, on the
   encoding of a well-formed value, exactly the tree conversion of Serde.v: every element / member is visited once, in
   order, with its own entry and payload slice; no read fails, no slice panics, no tag is unknown, the fuel is enough;
   the only error is the one of the tree conversion (a NaN / infinity below). *)
From Coq Require Import List NArith ZArith Bool Lia.
Import ListNotations.
From JB Require Import Constants Bytes Utf8 Num NumProofs Value Codec Order OrderProofs CodecProofs RoundtripProofs TreeOps JsonText
  Serde Dispatch DispatchProofs Walk WalkProofs Iter IterProofs SerdeWalk.
Open Scope N_scope.
Set Default Timeout 120.

Arguments N.lor : simpl never.
Arguments N.land : simpl never.
Arguments N.add : simpl never.
Arguments N.mul : simpl never.
Arguments N.ltb : simpl never.
Arguments N.leb : simpl never.
Arguments N.eqb : simpl never.
Arguments be32 : simpl never.
Arguments read_u32 : simpl never.
Arguments slice : simpl never.

(* ---- the tree conversion with its two loops named ---- *)
Fixpoint ser_list (e : res sj) (l : list value) : res (list sj) :=
  match l with [] => Ok [] | x :: r => do a <- to_serde e x; do b <- ser_list e r; Ok (a :: b) end.
Fixpoint ser_members (e : res sj) (o : list (list N * value)) : res (list (list N * sj)) :=
  match o with [] => Ok [] | (k, x) :: r => do a <- to_serde e x; do b <- ser_members e r; Ok ((k, a) :: b) end.
Lemma to_serde_arr e l : to_serde e (VArr l) = do l' <- ser_list e l; Ok (SArr l').
Proof. cbn [to_serde]. f_equal. induction l as [|x r IH]; [reflexivity|]. cbn [ser_list]. rewrite <- IH. reflexivity. Qed.
Lemma to_serde_obj e o : to_serde e (VObj o) = do o' <- ser_members e o; Ok (SObj o').
Proof. cbn [to_serde]. f_equal. induction o as [|[k x] r IH]; [reflexivity|]. cbn [ser_members]. rewrite <- IH. reflexivity. Qed.

(* the representation change of a decode / encode round trip is invisible to the conversion *)
Lemma to_serde_normalise e v : to_serde e (normalise v) = to_serde e v.
Proof.
  induction v as [|b|s|n|l IH|o IH] using value_ind2; try reflexivity.
  - destruct n as [z|u|b]; cbn [normalise normalise_num].
    + destruct (z =? 0)%Z eqn:E; [|reflexivity]. apply Z.eqb_eq in E. subst z. reflexivity.
    + reflexivity.
    + destruct (f_is_nan b) eqn:E; [|reflexivity]. cbn [to_serde]. unfold snum_of_f64. rewrite E. cbn [orb].
      change (f_is_nan F_NAN || f_is_inf F_NAN) with true. reflexivity.
  - cbn [normalise]. rewrite !to_serde_arr. f_equal.
    induction IH as [|x xs Hx _ IHl]; [reflexivity|]. cbn [map ser_list]. rewrite Hx, IHl. reflexivity.
  - cbn [normalise]. rewrite !to_serde_obj. f_equal.
    induction IH as [|[k x] xs Hx _ IHl]; [reflexivity|]. cbn [map ser_members fst snd] in *. rewrite Hx, IHl. reflexivity.
Qed.

(* ---- the two loops on the list level ---- *)
Lemma elements_fold e (F : je -> list N -> res sj) l :
  Forall (fun x => F (ent x) (payload x) = to_serde e x) l ->
  forall acc,
  fold_exit (fun (acc : list sj) x => do y <- F (ent x) (payload x); Ok (inl (acc ++ [y]))) (fun acc => Ok acc) l acc
  = do l' <- ser_list e l; Ok (acc ++ l').
Proof.
  induction 1 as [|x xs Hx _ IH]; intros acc; cbn [fold_exit ser_list bind].
  - rewrite app_nil_r. reflexivity.
  - rewrite Hx. destruct (to_serde e x) as [a| |]; cbn [bind]; try reflexivity.
    rewrite IH. destruct (ser_list e xs) as [b| |]; cbn [bind]; try reflexivity.
    rewrite <- app_assoc. reflexivity.
Qed.

Lemma members_fold e (F : je -> list N -> res sj) o :
  Forall (fun kv => F (ent (snd kv)) (payload (snd kv)) = to_serde e (snd kv)) o ->
  strongly_sorted o ->
  forall acc : list (list N * sj),
  Forall (fun a => Forall (fun kv : list N * value => bytes_cmp (fst a) (fst kv) = Lt) o) acc ->
  fold_exit (fun (acc : list (list N * sj)) (kv : list N * value) =>
               do y <- F (ent (snd kv)) (payload (snd kv)); Ok (inl (assoc_insert (fst kv) y acc)))
            (fun acc => Ok acc) o acc
  = do o' <- ser_members e o; Ok (acc ++ o').
Proof.
  induction 1 as [|[k x] xs Hx _ IH]; intros HS acc HA; cbn [fold_exit ser_members bind fst snd] in *.
  - rewrite app_nil_r. reflexivity.
  - destruct HS as [HS1 HS2].
    rewrite Hx. destruct (to_serde e x) as [a| |]; cbn [bind]; try reflexivity.
    rewrite assoc_insert_append.
    + rewrite IH.
      * destruct (ser_members e xs) as [b| |]; cbn [bind]; try reflexivity. rewrite <- app_assoc. reflexivity.
      * exact HS2.
      * apply Forall_app. split.
        -- eapply Forall_impl; [|exact HA]. intros a0 Ha. inversion Ha; subst. assumption.
        -- constructor; [exact HS1|constructor].
    + eapply Forall_impl; [|exact HA]. intros a0 Ha. inversion Ha as [|? ? Hak _]; subst. cbn [fst] in Hak.
      rewrite bytes_antisym, Hak. reflexivity.
Qed.

(* ---- small layout facts ---- *)
Lemma slice_all p : slice p 0 (lenN p) = Some p.
Proof. pose proof (slice_mid [] p []) as H. cbn [app] in H. rewrite app_nil_r in H. exact H. Qed.
Lemma slice_from_8 a b p : slice_from (be32 a ++ be32 b ++ p) 8 = Some p.
Proof.
  unfold slice_from. rewrite !lenN_app, !lenN_be32.
  destruct (8 <=? 4 + (4 + lenN p)) eqn:E; [|apply N.leb_gt in E; lia]. reflexivity.
Qed.
Lemma hdr_arr l : lenN l < 536870912 -> header_or_default (payload (VArr l)) = arr_hdr l.
Proof.
  intros Hn. unfold header_or_default. pose proof (read_hdr_arr [] l [] Hn) as R. cbn [app] in R. rewrite app_nil_r in R.
  change (lenN (@nil N)) with 0 in R. rewrite R. reflexivity.
Qed.
Lemma hdr_obj o : lenN o < 536870912 -> header_or_default (payload (VObj o)) = obj_hdr o.
Proof.
  intros Hn. unfold header_or_default. pose proof (read_hdr_obj [] o [] Hn) as R. cbn [app] in R. rewrite app_nil_r in R.
  change (lenN (@nil N)) with 0 in R. rewrite R. reflexivity.
Qed.

(* ---- one entry: scalar_to_serde_json on (entry, payload) of a well-formed value ---- *)
Definition conv_ok (f : nat) (v : value) : Prop :=
  scalar_to_serde_w (container_to_serde_w f) (ent v) (payload v) = to_serde_json_t v.

Lemma num_to_serde_ok n : num_in_range n = true ->
  (do m <- num_decode (compact_encode n); num_to_serde_w m) = to_serde_json_t (VNum n).
Proof.
  intros H. rewrite (num_roundtrip n H). cbn [bind]. destruct n as [z|u|b]; cbn [normalise_num].
  - destruct (z =? 0)%Z eqn:E; [|reflexivity]. apply Z.eqb_eq in E. subst z. reflexivity.
  - reflexivity.
  - destruct (f_is_nan b) eqn:E; [|reflexivity].
    unfold to_serde_json_t. cbn [to_serde]. unfold snum_of_f64. rewrite E. cbn [orb].
    vm_compute. reflexivity.
Qed.

(* a container entry is handed to containter_to_serde_json as it is *)
Lemma scalar_container rec v : is_container v = true -> scalar_to_serde_w rec (ent v) (payload v) = rec (payload v).
Proof.
  intros Hc. unfold scalar_to_serde_w, ent. cbn [fst snd].
  destruct (tag_tests v) as (T1 & T2 & T3 & T4 & T5 & T6). rewrite T1, T2, T3, T4, T5, T6.
  destruct v; try discriminate Hc; reflexivity.
Qed.

Lemma elements_walk l f : Forall (fun v => wf_size v = true) l -> lenN l < 536870912 ->
  Forall (conv_ok f) l ->
  elements_to_serde_w (container_to_serde_w f) (payload (VArr l)) (arr_hdr l) = ser_list (Err EOther) l.
Proof.
  intros Hl Hn HF. unfold elements_to_serde_w.
  pose proof (iterate_array_arr (fun (acc : list sj) j p => do x <- scalar_to_serde_w (container_to_serde_w f) j p; Ok (inl (acc ++ [x])))
                (fun acc => Ok acc) l [] [] Hl Hn) as E.
  rewrite app_nil_r in E. rewrite E. clear E.
  etransitivity; [exact (elements_fold (Err EOther) (scalar_to_serde_w (container_to_serde_w f)) l HF [])|].
  destruct (ser_list (Err EOther) l); reflexivity.
Qed.

Lemma members_walk o f : obj_ok o -> lenN o < 536870912 -> keys_sorted o = true ->
  Forall (fun kv => conv_ok f (snd kv)) o ->
  members_to_serde_w (container_to_serde_w f) (payload (VObj o)) (obj_hdr o) = ser_members (Err EOther) o.
Proof.
  intros Ho Hn Hs HF. unfold members_to_serde_w.
  pose proof (iterate_object_entries_obj
                (fun (acc : list (list N * sj)) k j p => do x <- scalar_to_serde_w (container_to_serde_w f) j p; Ok (inl (assoc_insert k x acc)))
                (fun acc => Ok acc) o [] [] Ho Hn) as E.
  rewrite app_nil_r in E. rewrite E. clear E.
  etransitivity; [exact (members_fold (Err EOther) (scalar_to_serde_w (container_to_serde_w f)) o HF (keys_sorted_strong o Hs) [] (Forall_nil _))|].
  destruct (ser_members (Err EOther) o); reflexivity.
Qed.

Lemma len_payload_arr l x : In x l -> (length (payload x) + 4 <= length (payload (VArr l)))%nat.
Proof.
  intros Hx. rewrite payload_arr, !app_length, be32_len. pose proof (payload_in_sum l x Hx). lia.
Qed.
Lemma len_payload_obj o kv : In kv o -> (length (payload (snd kv)) + 4 <= length (payload (VObj o)))%nat.
Proof.
  intros Hx. rewrite payload_obj, !app_length, be32_len.
  pose proof (payload_in_sum (vals o) (snd kv) (in_map snd o kv Hx)). lia.
Qed.

Theorem conv_entry v : wfb v = true -> forall f, (length (payload v) < f)%nat -> conv_ok f v.
Proof.
  induction v as [|b|s|n|l IH|o IH] using value_ind2; intros Hwf f Hf.
  - reflexivity.
  - destruct b; reflexivity.
  - pose proof (wfb_size _ Hwf) as Hsz. pose proof (payload_small _ Hsz) as Hps.
    unfold conv_ok, scalar_to_serde_w, ent. cbn [fst snd]. rewrite u32_small by lia.
    destruct (tag_tests (VStr s)) as (T1 & T2 & T3 & T4 & T5 & T6). rewrite T1, T2, T3, T4, T5.
    rewrite slice_all. reflexivity.
  - pose proof (wfb_size _ Hwf) as Hsz. pose proof (payload_small _ Hsz) as Hps.
    unfold conv_ok, scalar_to_serde_w, ent. cbn [fst snd]. rewrite u32_small by lia.
    destruct (tag_tests (VNum n)) as (T1 & T2 & T3 & T4 & T5 & T6). rewrite T1, T2, T3, T5.
    rewrite slice_all. apply num_to_serde_ok.
    unfold wfb in Hwf. apply andb_true_iff in Hwf. apply Hwf.
  - unfold conv_ok. rewrite (scalar_container _ (VArr l) eq_refl).
    destruct f as [|f]; [lia|]. cbn [container_to_serde_w].
    destruct (wf_arr l Hwf) as [Hall Hn].
    rewrite (hdr_arr l Hn). destruct (arr_hdr_facts l Hn) as (_ & HT & _). rewrite HT.
    change (ARRAY_CONTAINER_TAG =? OBJECT_CONTAINER_TAG) with false.
    change (ARRAY_CONTAINER_TAG =? ARRAY_CONTAINER_TAG) with true. cbv iota.
    rewrite elements_walk.
    + unfold to_serde_json_t. rewrite to_serde_arr. reflexivity.
    + eapply Forall_impl; [|exact Hall]. intros x Hx. apply wfb_size. exact Hx.
    + exact Hn.
    + apply Forall_forall. intros x Hx. rewrite Forall_forall in IH, Hall.
      apply (IH x Hx (Hall x Hx)). pose proof (len_payload_arr l x Hx). lia.
  - unfold conv_ok. rewrite (scalar_container _ (VObj o) eq_refl).
    destruct f as [|f]; [lia|]. cbn [container_to_serde_w].
    destruct (wf_obj o Hwf) as (Hall & Hn & Hs). destruct (obj_ok_of_wf o Hwf) as [Ho _].
    rewrite (hdr_obj o Hn). destruct (obj_hdr_facts o Hn) as (_ & HT & _). rewrite HT.
    change (OBJECT_CONTAINER_TAG =? OBJECT_CONTAINER_TAG) with true. cbv iota.
    rewrite members_walk.
    + unfold to_serde_json_t. rewrite to_serde_obj. reflexivity.
    + exact Ho.
    + exact Hn.
    + exact Hs.
    + apply Forall_forall. intros kv Hx. rewrite Forall_forall in IH, Hall.
      apply (IH kv Hx (proj1 (Hall kv Hx))). pose proof (len_payload_obj o kv Hx). lia.
Qed.

(* ---- the public functions on encodings ---- *)
Theorem container_to_serde_w_enc v : wfb v = true -> forall f, (length (enc v) < f)%nat ->
  container_to_serde_w f (enc v) = to_serde_json_t v.
Proof.
  intros Hwf f Hf. pose proof (wfb_size _ Hwf) as Hsz.
  destruct (is_container v) eqn:Hc.
  - assert (E : enc v = payload v) by (destruct v; try discriminate Hc; reflexivity). rewrite E in *.
    rewrite <- (scalar_container (container_to_serde_w f) v Hc). apply (conv_entry v Hwf f Hf).
  - assert (E : enc v = be32 SCALAR_CONTAINER_TAG ++ be32 (word v) ++ payload v) by (destruct v; try discriminate Hc; reflexivity).
    rewrite E in *. destruct f as [|f]; [lia|]. cbn [container_to_serde_w].
    assert (H0 : header_or_default (be32 SCALAR_CONTAINER_TAG ++ be32 (word v) ++ payload v) = SCALAR_CONTAINER_TAG).
    { unfold header_or_default.
      pose proof (read_u32_mid [] SCALAR_CONTAINER_TAG (be32 (word v) ++ payload v)) as R. cbn [app] in R.
      change (lenN (@nil N)) with 0 in R. rewrite R by (vm_compute; reflexivity). reflexivity. }
    rewrite H0.
    change (hdr_type SCALAR_CONTAINER_TAG =? OBJECT_CONTAINER_TAG) with false.
    change (hdr_type SCALAR_CONTAINER_TAG =? ARRAY_CONTAINER_TAG) with false.
    change (hdr_type SCALAR_CONTAINER_TAG =? SCALAR_CONTAINER_TAG) with true. cbv iota.
    pose proof (read_u32_mid (be32 SCALAR_CONTAINER_TAG) (word v) (payload v) (word_bound v Hsz)) as R4.
    rewrite lenN_be32 in R4. rewrite R4, slice_from_8, (decode_je_word v Hsz).
    apply (conv_entry v Hwf f). rewrite !app_length, !be32_len in Hf. lia.
Qed.

Theorem to_serde_json_w_enc v : wfb v = true -> top_ok v -> to_serde_json_w (enc v) = to_serde_json_t v.
Proof.
  intros Hwf Ht. unfold to_serde_json_w. rewrite (is_jsonb_enc v Hwf Ht).
  apply (container_to_serde_w_enc v Hwf). lia.
Qed.

Theorem to_serde_json_object_w_enc v : wfb v = true -> top_ok v ->
  to_serde_json_object_w (enc v) = to_serde_json_object_t v.
Proof.
  intros Hwf Ht. unfold to_serde_json_object_w. rewrite (is_jsonb_enc v Hwf Ht). unfold container_to_serde_object_w.
  pose proof (wfb_size _ Hwf) as Hsz.
  assert (Sc : is_container v = false -> to_serde_json_object_t v = Ok None ->
               (let hdr := header_or_default (enc v) in
                if hdr_type hdr =? OBJECT_CONTAINER_TAG
                then do o <- members_to_serde_w (container_to_serde_w (S (length (enc v)))) (enc v) hdr; Ok (Some (SObj o))
                else if (hdr_type hdr =? ARRAY_CONTAINER_TAG) || (hdr_type hdr =? SCALAR_CONTAINER_TAG) then Ok None else Err EOther)
               = to_serde_json_object_t v).
  { intros Hc Hn. rewrite Hn.
    assert (E : enc v = be32 SCALAR_CONTAINER_TAG ++ be32 (word v) ++ payload v) by (destruct v; try discriminate Hc; reflexivity).
    rewrite E. cbv zeta.
    assert (H0 : header_or_default (be32 SCALAR_CONTAINER_TAG ++ be32 (word v) ++ payload v) = SCALAR_CONTAINER_TAG).
    { unfold header_or_default.
      pose proof (read_u32_mid [] SCALAR_CONTAINER_TAG (be32 (word v) ++ payload v)) as R. cbn [app] in R.
      change (lenN (@nil N)) with 0 in R. rewrite R by (vm_compute; reflexivity). reflexivity. }
    rewrite H0.
    change (hdr_type SCALAR_CONTAINER_TAG =? OBJECT_CONTAINER_TAG) with false.
    change (hdr_type SCALAR_CONTAINER_TAG =? ARRAY_CONTAINER_TAG) with false.
    change (hdr_type SCALAR_CONTAINER_TAG =? SCALAR_CONTAINER_TAG) with true. reflexivity. }
  destruct v as [|b|s|n|l|o]; try (apply Sc; reflexivity).
  - change (enc (VArr l)) with (payload (VArr l)). cbv zeta.
    destruct (wf_arr l Hwf) as [_ Hn]. rewrite (hdr_arr l Hn). destruct (arr_hdr_facts l Hn) as (_ & HT & _). rewrite HT.
    change (ARRAY_CONTAINER_TAG =? OBJECT_CONTAINER_TAG) with false.
    change (ARRAY_CONTAINER_TAG =? ARRAY_CONTAINER_TAG) with true. reflexivity.
  - change (enc (VObj o)) with (payload (VObj o)). cbv zeta.
    destruct (wf_obj o Hwf) as (Hall & Hn & Hs). destruct (obj_ok_of_wf o Hwf) as [Ho _].
    rewrite (hdr_obj o Hn). destruct (obj_hdr_facts o Hn) as (_ & HT & _). rewrite HT.
    change (OBJECT_CONTAINER_TAG =? OBJECT_CONTAINER_TAG) with true. cbv iota.
    rewrite members_walk.
    + unfold to_serde_json_object_t, to_serde_json_t. rewrite to_serde_obj.
      destruct (ser_members (Err EOther) o); reflexivity.
    + exact Ho.
    + exact Hn.
    + exact Hs.
    + apply Forall_forall. intros kv Hx. rewrite Forall_forall in Hall.
      apply (conv_entry (snd kv) (proj1 (Hall kv Hx))). pose proof (len_payload_obj o kv Hx). lia.
Qed.

(* the same, stated against the decoded tree (what DispatchProofs.v establishes for the view-level `_m`) *)
Corollary to_serde_json_w_enc_norm v : wfb v = true -> top_ok v -> to_serde_json_w (enc v) = to_serde_json_t (normalise v).
Proof. intros Hwf Ht. rewrite (to_serde_json_w_enc v Hwf Ht). unfold to_serde_json_t. symmetry. apply to_serde_normalise. Qed.
Corollary to_serde_json_object_w_enc_norm v : wfb v = true -> top_ok v ->
  to_serde_json_object_w (enc v) = to_serde_json_object_t (normalise v).
Proof.
  intros Hwf Ht. rewrite (to_serde_json_object_w_enc v Hwf Ht).
  destruct v; try reflexivity. unfold to_serde_json_object_t, to_serde_json_t.
  rewrite (to_serde_normalise (Err EOther) (VObj l)). reflexivity.
Qed.
Corollary to_serde_json_w_agrees_m v : wfb v = true -> top_ok v -> to_serde_json_w (enc v) = to_serde_json_m (enc v).
Proof. intros Hwf Ht. rewrite (to_serde_json_w_enc_norm v Hwf Ht). unfold to_serde_json_m. rewrite (doc_of_enc v Hwf Ht). reflexivity. Qed.
Corollary to_serde_json_object_w_agrees_m v : wfb v = true -> top_ok v ->
  to_serde_json_object_w (enc v) = to_serde_json_object_m (enc v).
Proof. intros Hwf Ht. rewrite (to_serde_json_object_w_enc_norm v Hwf Ht). unfold to_serde_json_object_m. rewrite (doc_of_enc v Hwf Ht). reflexivity. Qed.
