(* ChainWalk.v — chains of library operations over BYTE registers (C07).
   The operation language is the one of TreeWf.v / TreeWf2.v (`op`, `op2`: 16 + 3 operation families over a register
   file of documents) extended with the JSONPath selections (`op3`).  Here the registers are byte buffers and every
   operation calls the offset-faithful walker model `*_w` of the library function (Walk.v, EditWalk.v, EditWalk2.v,
   SetWalk.v, SelWalk.v; `from_slice` + `write_to_vec` for the re-encode), handing it the caller's output buffer `pre`
   (empty for `step_b` / `run_b`).  What the call leaves behind is cut into documents exactly as a caller does it:
     - an editor / builder returns the buffer: the new document is what follows `pre`;
     - an accessor returns an owned document or None;
     - a selection returns the buffer and the offsets pushed by build_values / build_scalar_array: the new documents
       are the pieces of the buffer between consecutive offsets, starting at the length of `pre` (several documents for
       mode All, one for First / Array; a predicate path pushes no offset, so it yields no document: selector.rs
       build_predicate_result writes the boolean but no offset).
   An error, a panic, an absent element or a failed guard of the operation language appends nothing: the same as
   `step` of TreeWf.v on trees.  No proofs in this file (ChainWalkProofs.v). *)
From Coq Require Import List NArith ZArith Bool.
Import ListNotations.
From JB Require Import Constants Bytes Utf8 Num Value Codec TreeOps SetOps Path PathSem Dispatch
  Walk EditWalk EditWalk2 SetWalk SelWalk TreeWf TreeWf2.
Open Scope N_scope.

(* ---------------------------------------------------------------- the operation language, on trees *)
Inductive op3 :=
| OOp2 (o : op2)                                         (* everything of TreeWf.v / TreeWf2.v *)
| OSelect (a : nat) (ps : list path) (m : mode)          (* Selector::new(path, mode).select: All / First / Array / Mixed *)
| OGetByPath (a : nat) (ps : list path) (m : mode).      (* get_by_path (Mixed) / get_by_path_first (First) / get_by_path_array (Array) *)

(* the documents a selection delimits by its offsets, as values; evaluated on the decoded document *)
Definition mode_items (m : mode) (items : list value) : list value :=
  match m with
  | MAll => items
  | MFirst => firstn 1 items
  | MArray => [VArr items]
  | MMixed => if (1 <? length items)%nat then [VArr items] else items
  end.
Definition select_items_t (root : value) (ps : list path) (m : mode) : res (list value) :=
  do items <- find_positions root None ps;
  if is_predicate ps then Ok [] else Ok (mode_items m items).

Definition step_docs3 (regs : list value) (o : op3) : list value :=
  match o with
  | OOp2 b => match step_doc2 regs b with Some d => [d] | None => [] end
  | OSelect a ps m | OGetByPath a ps m =>
      match select_items_t (normalise (reg regs a)) ps m with Ok l => l | _ => [] end
  end.
Definition step3 (regs : list value) (o : op3) : list value := regs ++ step_docs3 regs o.
Definition run3 (regs : list value) (ops : list op3) : list value := fold_left step3 ops regs.

Definition lift1 (o : op) : op3 := OOp2 (OBase o).
Definition lift2 (o : op2) : op3 := OOp2 o.

(* ---------------------------------------------------------------- the same language on byte registers *)
(* a register that does not exist reads as the null document, as `reg` does on trees *)
Definition regb (regs : list (list N)) (a : nat) : list N := nth a regs (enc VNull).

(* what a library call hands back *)
Inductive outcome :=
| OutBuf (r : res (list N))                 (* editor / builder: Result<()> and the caller's buffer after the call *)
| OutOwned (r : res (option (list N)))      (* accessor: Option<Vec<u8>> *)
| OutSel (r : res (list N * list N))        (* selection: Result<()>, the buffer and the offsets *)
| OutGuard.                                 (* the operation language refuses the arguments (a key that is not a str) *)

Definition call_base (pre : list N) (regs : list (list N)) (o : op) : outcome :=
  let r := regb regs in
  match o with
  | OConcat a b => OutBuf (concat_w (r a) (r b) pre)
  | ODeleteByName a name => OutBuf (delete_by_name_w (r a) name pre)
  | ODeleteByIndex a i => OutBuf (delete_by_index_w (r a) i pre)
  | OArrayInsert a pos b => OutBuf (array_insert_w (r a) pos (r b) pre)
  | OObjectInsert a k b upd => if key_ok k then OutBuf (object_insert_w (r a) k (r b) upd pre) else OutGuard
  | OObjectDelete a ks => OutBuf (object_delete_w (r a) ks pre)
  | OObjectPick a ks => OutBuf (object_pick_w (r a) ks pre)
  | OStripNulls a => OutBuf (strip_nulls_w (r a) pre)
  | OBuildArray rs => OutBuf (build_array_w (map r rs) pre)
  | OBuildObject ks rs => if forallb key_ok ks then OutBuf (build_object_w ks (map r rs) pre) else OutGuard
  | OGetByIndex a i => OutOwned (get_by_index_w (r a) i)
  | OGetByName a name ic => OutOwned (get_by_name_w (r a) name ic)
  | ODistinct a => OutBuf (array_distinct_w (r a) pre)
  | OIntersection a b => OutBuf (array_intersection_w (r a) (r b) pre)
  | OExcept a b => OutBuf (array_except_w (r a) (r b) pre)
  | OReencode a => OutBuf (res_map (write_to_vec pre) (from_slice (r a)))      (* from_slice(b)?.write_to_vec(&mut buf) *)
  end.

Definition call_b (pre : list N) (regs : list (list N)) (o : op3) : outcome :=
  let r := regb regs in
  match o with
  | OOp2 (OBase b) => call_base pre regs b
  | OOp2 (OGetByKeypath a ks) => OutOwned (get_by_keypath_w (r a) ks)
  | OOp2 (ODeleteByKeypath a ks) => OutBuf (delete_by_keypath_w (r a) ks pre)
  | OOp2 (OObjectKeys a) => OutOwned (object_keys_w (r a))
  | OSelect a ps m => OutSel (select_w (r a) ps m pre)
  | OGetByPath a ps m => OutSel (get_by_path_gen_w m (r a) ps pre)
  end.

(* data[start .. o1], data[o1 .. o2], ... *)
Fixpoint cut (buf : list N) (start : N) (offs : list N) : list (list N) :=
  match offs with
  | [] => []
  | o :: r => firstn (N.to_nat (o - start)) (skipn (N.to_nat start) buf) :: cut buf o r
  end.

Definition docs_of (pre : list N) (out : outcome) : list (list N) :=
  match out with
  | OutBuf (Ok buf) => [skipn (length pre) buf]
  | OutOwned (Ok (Some d)) => [d]
  | OutSel (Ok (buf, offs)) => cut buf (lenN pre) offs
  | _ => []
  end.

(* one operation, the output buffer holding `pre` before the call *)
Definition step_bp (pre : list N) (regs : list (list N)) (o : op3) : list (list N) := regs ++ docs_of pre (call_b pre regs o).
Definition run_bp (pre : list N) (regs : list (list N)) (ops : list op3) : list (list N) := fold_left (step_bp pre) ops regs.
(* a fresh output buffer for every call *)
Definition step_b : list (list N) -> op3 -> list (list N) := step_bp [].
Definition run_b : list (list N) -> list op3 -> list (list N) := run_bp [].
