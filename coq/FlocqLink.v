(* FlocqLink.v — the model's two hand-written roundings (Num.round_ne = `i64/u64 as f64`, Decimal.round_dec = the decimal
   reader) are Flocq's round-to-nearest-even in binary64.  Proofs only; nothing here is extracted, and Num.v / Decimal.v
   do not depend on Flocq. *)
From Coq Require Import ZArith NArith Bool Lia List Reals Psatz ZifyBool.
From Flocq Require Import Core.Core IEEE754.BinarySingleNaN IEEE754.Binary IEEE754.Bits.
From JB Require Import Num Decimal.
Set Default Timeout 60.
Ltac Zify.zify_post_hook ::= Z.div_mod_to_equations.
Open Scope Z_scope.

Notation fexp64 := (FLT_exp (-1074) 53).
Notation rndNE := (round radix2 fexp64 ZnearestE).

(* ---------- nearest-even of a quotient of integers ---------- *)
Definition rne_q (n d : Z) : Z :=
  let q := n / d in let r := n - q * d in
  if (d <? 2 * r) || ((2 * r =? d) && Z.odd q) then q + 1 else q.

Lemma ZnearestE_div n d : 0 < d -> ZnearestE (IZR n / IZR d) = rne_q n d.
Proof.
  intros Hd. unfold rne_q, ZnearestE, Znearest.
  rewrite Zfloor_div by lia.
  set (q := n / d). set (r := n - q * d).
  assert (Hr : 0 <= r < d) by (unfold r, q; lia).
  assert (Hd' : (0 < IZR d)%R) by (apply IZR_lt; lia).
  assert (Hx : (IZR n / IZR d - IZR q = IZR r / IZR d)%R).
  { unfold r. rewrite minus_IZR, mult_IZR. field. lra. }
  rewrite Hx.
  assert (Hc : Rcompare (IZR r / IZR d) (/ 2) = Z.compare (2 * r) d).
  { destruct (Z.compare_spec (2 * r) d) as [E|L|G].
    - apply Rcompare_Eq. apply (f_equal IZR) in E. rewrite mult_IZR in E.
      apply Rmult_eq_reg_r with (IZR d); [|lra]. unfold Rdiv. rewrite Rmult_assoc, Rinv_l by lra. lra.
    - apply Rcompare_Lt. apply IZR_lt in L. rewrite mult_IZR in L.
      apply Rmult_lt_reg_r with (IZR d); [lra|]. unfold Rdiv. rewrite Rmult_assoc, Rinv_l by lra. lra.
    - apply Rcompare_Gt. apply IZR_lt in G. rewrite mult_IZR in G.
      apply Rmult_lt_reg_r with (IZR d); [lra|]. unfold Rdiv. rewrite Rmult_assoc, Rinv_l by lra. lra. }
  rewrite Hc.
  assert (Hceil : r <> 0 -> Zceil (IZR n / IZR d) = q + 1).
  { intros Hr0. rewrite Zceil_floor_neq; rewrite Zfloor_div by lia; [reflexivity|].
    fold q. intros E. rewrite <- E in Hx. replace (IZR q - IZR q)%R with 0%R in Hx by ring.
    apply Hr0. apply eq_IZR. apply Rmult_eq_reg_r with (/ IZR d)%R.
    - unfold Rdiv in Hx. rewrite <- Hx. ring.
    - apply Rinv_neq_0_compat. lra. }
  destruct (Z.compare_spec (2 * r) d) as [E|L|G].
  - replace (d <? 2 * r) with false by lia. replace (2 * r =? d) with true by lia.
    cbn [orb andb]. rewrite Z.negb_even. destruct (Z.odd q); [apply Hceil; lia|reflexivity].
  - replace (d <? 2 * r) with false by lia. replace (2 * r =? d) with false by lia. reflexivity.
  - replace (d <? 2 * r) with true by lia. cbn [orb]. apply Hceil. lia.
Qed.

Lemma div_ge n d c : 0 < d -> c * d <= n -> (IZR c <= IZR n / IZR d)%R.
Proof.
  intros Hd H. assert (Hd' : (0 < IZR d)%R) by (apply IZR_lt; lia).
  apply Rmult_le_reg_r with (IZR d); [lra|]. unfold Rdiv. rewrite Rmult_assoc, Rinv_l, Rmult_1_r by lra.
  rewrite <- mult_IZR. apply IZR_le. lia.
Qed.
Lemma div_lt n d c : 0 < d -> n < c * d -> (IZR n / IZR d < IZR c)%R.
Proof.
  intros Hd H. assert (Hd' : (0 < IZR d)%R) by (apply IZR_lt; lia).
  apply Rmult_lt_reg_r with (IZR d); [lra|]. unfold Rdiv. rewrite Rmult_assoc, Rinv_l, Rmult_1_r by lra.
  rewrite <- mult_IZR. apply IZR_lt. lia.
Qed.
Lemma bpow52 : bpow radix2 52 = IZR (2 ^ 52). Proof. reflexivity. Qed.
Lemma bpow53 : bpow radix2 53 = IZR (2 ^ 53). Proof. reflexivity. Qed.

(* x = (n/d) * 2^-k with the quotient already scaled into [2^52, 2^53) (or below 2^52 at the smallest exponent):
   rounding x to nearest-even in binary64 is rounding the quotient to an integer *)
Lemma rndNE_div n d k :
  0 < n -> 0 < d -> k <= 1074 ->
  (2 ^ 52 * d <= n < 2 ^ 53 * d) \/ (k = 1074 /\ n < 2 ^ 52 * d) ->
  rndNE (IZR n / IZR d * bpow radix2 (- k)) = F2R (Float radix2 (rne_q n d) (- k)).
Proof.
  intros Hn Hd Hk Hb.
  set (y := (IZR n / IZR d)%R). set (x := (y * bpow radix2 (- k))%R).
  assert (Hy : (0 < y)%R).
  { unfold y. apply Rdiv_lt_0_compat; apply IZR_lt; lia. }
  assert (Hx : (0 < x)%R) by (apply Rmult_lt_0_compat; [exact Hy|apply bpow_gt_0]).
  assert (Hc : cexp radix2 fexp64 x = - k).
  { unfold cexp, FLT_exp. destruct Hb as [[H1 H2]|[-> H2]].
    - rewrite (mag_unique_pos radix2 x (53 - k)); [lia|]. split.
      + replace (53 - k - 1) with (52 + - k) by lia. rewrite bpow_plus, bpow52.
        apply Rmult_le_compat_r; [apply bpow_ge_0|]. apply div_ge; lia.
      + replace (53 - k) with (53 + - k) by lia. rewrite bpow_plus, bpow53.
        apply Rmult_lt_compat_r; [apply bpow_gt_0|]. apply div_lt; lia.
    - assert (H : mag radix2 x <= 52 - 1074).
      { apply mag_le_bpow; [lra|]. rewrite Rabs_pos_eq by lra.
        replace (52 - 1074) with (52 + - 1074) by lia. rewrite bpow_plus, bpow52.
        apply Rmult_lt_compat_r; [apply bpow_gt_0|]. apply div_lt; lia. }
      lia. }
  unfold round, scaled_mantissa. rewrite Hc.
  replace (x * bpow radix2 (- - k))%R with y.
  - unfold y. rewrite ZnearestE_div by lia. reflexivity.
  - unfold x. rewrite Rmult_assoc, <- bpow_plus. replace (- k + - - k) with 0 by lia. cbn [bpow]. ring.
Qed.

(* ---------- binary64 bit patterns ---------- *)
Definition sgn (s : bool) : Z := if s then 2 ^ 63 else 0.
Definition P52 : Z := 2 ^ 52.
Definition P53 : Z := 2 ^ 53.
Lemma P52_eq : P52 = 4503599627370496. Proof. reflexivity. Qed.
Lemma P53_eq : P53 = 9007199254740992. Proof. reflexivity. Qed.

Lemma bits_finite s m e pf :
  bits_of_b64 (B754_finite 53 1024 s m e pf) =
  sgn s + (if Z.pos m <? P52 then Z.pos m else (e + 1075) * P52 + (Z.pos m - P52)).
Proof.
  unfold bits_of_b64, bits_of_binary_float, join_bits.
  rewrite !Z.shiftl_mul_pow2 by lia.
  change (2 ^ 52) with P52. change (2 ^ 11) with 2048.
  change (SpecFloat.emin (52 + 1) (2 ^ (11 - 1))) with (-1074).
  unfold sgn. change (2 ^ 63) with (2048 * P52).
  destruct (Z.leb_spec 0 (Z.pos m - P52)); destruct (Z.ltb_spec (Z.pos m) P52); destruct s; try lia.
Qed.

Lemma bounded_normal m e :
  P52 <= Z.pos m < P53 -> -1074 <= e <= 971 -> SpecFloat.bounded 53 1024 m e = true.
Proof.
  intros Hm He. unfold SpecFloat.bounded, SpecFloat.canonical_mantissa.
  rewrite Zpos_digits2_pos.
  rewrite (Zdigits_unique radix2 (Z.pos m) 53) by (rewrite Z.abs_eq by lia; exact Hm).
  unfold SpecFloat.fexp, SpecFloat.emin.
  apply andb_true_intro; split; [apply Zeq_bool_true|apply Zle_bool_true]; lia.
Qed.
Lemma bounded_subnormal m : Z.pos m < P52 -> SpecFloat.bounded 53 1024 m (-1074) = true.
Proof.
  intros Hm. unfold SpecFloat.bounded, SpecFloat.canonical_mantissa.
  rewrite Zpos_digits2_pos.
  assert (H : Zdigits radix2 (Z.pos m) <= 52).
  { apply Zdigits_le_Zpower. rewrite Z.abs_eq by lia. exact Hm. }
  assert (H0 : 0 < Zdigits radix2 (Z.pos m)) by (apply Zdigits_gt_0; lia).
  unfold SpecFloat.fexp, SpecFloat.emin.
  apply andb_true_intro; split; [apply Zeq_bool_true|apply Zle_bool_true]; lia.
Qed.

Lemma rne_q_ge n d c : 0 < d -> c * d <= n -> c <= rne_q n d.
Proof.
  intros Hd H. assert (c <= n / d) by (apply Z.div_le_lower_bound; lia).
  unfold rne_q. destruct (_ || _); lia.
Qed.
Lemma rne_q_le n d c : 0 < d -> n < c * d -> rne_q n d <= c.
Proof.
  intros Hd H. assert (n / d < c) by (apply Z.div_lt_upper_bound; lia).
  unfold rne_q. destruct (_ || _); lia.
Qed.

Definition pack_pos (q' k : Z) : Z :=
  let '(q'', k') := if q' =? 2 ^ 53 then (2 ^ 52, k - 1) else (q', k) in
  if q'' <? 2 ^ 52 then q''
  else let biased := 1075 - k' in
       if 2047 <=? biased then 2047 * 2 ^ 52 else biased * 2 ^ 52 + (q'' - 2 ^ 52).

Lemma b64_of_bits_of_b64 f : b64_of_bits (bits_of_b64 f) = f.
Proof. exact (binary_float_of_bits_of_binary_float 52 11 eq_refl eq_refl eq_refl f). Qed.
Lemma b64_zero s : b64_of_bits (sgn s) = B754_zero 53 1024 s.
Proof. destruct s; reflexivity. Qed.
Lemma b64_inf s : b64_of_bits (sgn s + 2047 * P52) = B754_infinity 53 1024 s.
Proof. destruct s; reflexivity. Qed.

(* "bits" is the pattern of the double nearest (ties to even) to +-x, infinite exactly when that rounding, computed with
   unbounded exponent, reaches 2^1024: the same shape as Flocq's binary_normalize_correct / Bdiv_correct *)
Definition is_rounding (s : bool) (x : R) (bits : Z) : Prop :=
  let r := rndNE (cond_Ropp s x) in
  let f := b64_of_bits bits in
  0 <= bits < 2 ^ 64 /\
  if Rlt_bool (Rabs r) (bpow radix2 1024)
  then B2R 53 1024 f = r /\ is_finite 53 1024 f = true /\ Bsign 53 1024 f = s
  else f = B754_infinity 53 1024 s.

Lemma rndNE_cond_Ropp s x : rndNE (cond_Ropp s x) = cond_Ropp s (rndNE x).
Proof. destruct s; [apply round_NE_opp|reflexivity]. Qed.

Lemma is_rounding_finite s x (m : positive) e :
  SpecFloat.bounded 53 1024 m e = true ->
  rndNE x = F2R (Float radix2 (Z.pos m) e) ->
  is_rounding s x (sgn s + (if Z.pos m <? P52 then Z.pos m else (e + 1075) * P52 + (Z.pos m - P52))).
Proof.
  intros pf Hr. unfold is_rounding. rewrite rndNE_cond_Ropp, Hr, abs_cond_Ropp.
  rewrite <- (bits_finite s m e pf), b64_of_bits_of_b64.
  rewrite Rabs_pos_eq by (apply F2R_ge_0; cbn; lia).
  rewrite Rlt_bool_true by (apply (bounded_lt_emax 53 1024); exact pf).
  split; [|split; [|split]].
  - rewrite (bits_finite s m e pf).
    unfold SpecFloat.bounded, SpecFloat.canonical_mantissa in pf.
    apply andb_prop in pf. destruct pf as [pf1 pf2]. apply Zeq_bool_eq in pf1. apply Zle_bool_imp_le in pf2.
    rewrite Zpos_digits2_pos in pf1. unfold SpecFloat.fexp, SpecFloat.emin in pf1.
    assert (Hd : Zdigits radix2 (Z.pos m) <= 53) by lia.
    assert (Hm : Z.pos m < P53).
    { apply (Zpower_gt_Zdigits radix2 53 (Z.pos m)). exact Hd. }
    assert (He : -1074 <= e <= 971) by lia.
    rewrite P53_eq in Hm. unfold sgn. change (2 ^ 63) with 9223372036854775808. change (2 ^ 64) with 18446744073709551616.
    rewrite P52_eq. destruct s; destruct (Z.ltb_spec (Z.pos m) 4503599627370496); lia.
  - cbn [B2R]. rewrite <- F2R_cond_Zopp. reflexivity.
  - reflexivity.
  - reflexivity.
Qed.

Lemma is_rounding_zero s x : rndNE x = 0%R -> is_rounding s x (sgn s).
Proof.
  intros Hr. unfold is_rounding. rewrite rndNE_cond_Ropp, Hr, abs_cond_Ropp, Rabs_R0, b64_zero.
  rewrite Rlt_bool_true by apply bpow_gt_0.
  split; [destruct s; cbv; intuition discriminate|].
  split; [|split; reflexivity].
  cbn [B2R]. destruct s; cbn [cond_Ropp]; ring.
Qed.

Lemma is_rounding_inf s x : (bpow radix2 1024 <= rndNE x)%R -> is_rounding s x (sgn s + 2047 * P52).
Proof.
  intros Hr. unfold is_rounding. rewrite rndNE_cond_Ropp, abs_cond_Ropp, b64_inf.
  assert (H0 : (0 < bpow radix2 1024)%R) by apply bpow_gt_0.
  rewrite Rabs_pos_eq by lra.
  rewrite Rlt_bool_false by exact Hr.
  split; [destruct s; cbv; intuition discriminate|reflexivity].
Qed.

Lemma is_rounding_finite' s x (m : positive) e bits :
  SpecFloat.bounded 53 1024 m e = true ->
  rndNE x = F2R (Float radix2 (Z.pos m) e) ->
  bits = sgn s + (if Z.pos m <? P52 then Z.pos m else (e + 1075) * P52 + (Z.pos m - P52)) ->
  is_rounding s x bits.
Proof. intros pf Hr ->. apply is_rounding_finite; assumption. Qed.

Lemma pack_is_rounding s n d k :
  0 < n -> 0 < d -> k <= 1074 ->
  (2 ^ 52 * d <= n < 2 ^ 53 * d) \/ (k = 1074 /\ n < 2 ^ 52 * d) ->
  is_rounding s (IZR n / IZR d * bpow radix2 (- k)) (sgn s + pack_pos (rne_q n d) k).
Proof.
  intros Hn Hd Hk Hb.
  pose proof (rndNE_div n d k Hn Hd Hk Hb) as Hr.
  set (q := rne_q n d) in *.
  assert (Hq0 : 0 <= q) by (apply rne_q_ge; lia).
  assert (Hq : (P52 <= q <= P53) \/ (k = 1074 /\ q <= P52)).
  { destruct Hb as [[H1 H2]|[H1 H2]]; [left; split|right; split; [exact H1|]].
    - apply rne_q_ge; unfold P52; lia.
    - apply rne_q_le; unfold P53; lia.
    - apply rne_q_le; unfold P52; lia. }
  clearbody q.
  assert (HP : P52 = 4503599627370496 /\ P53 = 9007199254740992) by (split; reflexivity).
  unfold pack_pos. change (2 ^ 53) with P53. change (2 ^ 52) with P52.
  destruct (Z.eqb_spec q P53) as [E|NE].
  - (* carry into the next binade *)
    assert (Hr' : rndNE (IZR n / IZR d * bpow radix2 (- k)) = F2R (Float radix2 (Z.pos 4503599627370496) (- (k - 1)))).
    { rewrite Hr, E. unfold F2R; cbn [Fnum Fexp]. replace (- (k - 1)) with (1 + - k) by lia.
      rewrite bpow_plus. unfold P53. change (bpow radix2 1) with 2%R.
      change (2 ^ 53) with (4503599627370496 * 2). rewrite mult_IZR. ring. }
    replace (P52 <? P52) with false by lia.
    destruct (Z.leb_spec 2047 (1075 - (k - 1))) as [Ho|Hf].
    + apply is_rounding_inf. rewrite Hr'. unfold F2R; cbn [Fnum Fexp].
      change (IZR (Z.pos 4503599627370496)) with (bpow radix2 52). rewrite <- bpow_plus.
      apply bpow_le. lia.
    + apply (is_rounding_finite' s _ 4503599627370496%positive (- (k - 1))); [apply bounded_normal; lia|exact Hr'|].
      destruct (Z.ltb_spec (Z.pos 4503599627370496) P52); lia.
  - destruct (Z.ltb_spec q P52) as [Hs|Hn52].
    + (* subnormal or zero *)
      assert (Hk' : k = 1074) by lia. subst k.
      destruct q as [|m|m]; [| |lia].
      * rewrite Z.add_0_r. apply is_rounding_zero. rewrite Hr. apply F2R_0.
      * apply (is_rounding_finite' s _ m (-1074)); [apply bounded_subnormal; exact Hs|exact Hr|].
        destruct (Z.ltb_spec (Z.pos m) P52); lia.
    + destruct (Z.leb_spec 2047 (1075 - k)) as [Ho|Hf].
      * apply is_rounding_inf. rewrite Hr. unfold F2R; cbn [Fnum Fexp].
        apply Rle_trans with (IZR P52 * bpow radix2 (- k))%R.
        -- change (IZR P52) with (bpow radix2 52). rewrite <- bpow_plus. apply bpow_le. lia.
        -- apply Rmult_le_compat_r; [apply bpow_ge_0|apply IZR_le; exact Hn52].
      * destruct q as [|m|m]; [lia| |lia].
        apply (is_rounding_finite' s _ m (- k)); [apply bounded_normal; lia|exact Hr|].
        destruct (Z.ltb_spec (Z.pos m) P52); lia.
Qed.

Lemma bits_of_b64_of_bits bits : 0 <= bits < 2 ^ 64 -> bits_of_b64 (b64_of_bits bits) = bits.
Proof. intros H. exact (bits_of_binary_float_of_bits 52 11 eq_refl eq_refl eq_refl bits H). Qed.

(* a pattern that is_rounding of the value of a binary float z * 2^ez is what Flocq's binary_normalize produces *)
Lemma normalize_of_is_rounding z ez szero x bits :
  z <> 0 -> cond_Ropp (z <? 0) x = F2R (Float radix2 z ez) ->
  is_rounding (z <? 0) x bits ->
  bits_of_b64 (binary_normalize 53 1024 eq_refl eq_refl mode_NE z ez szero) = bits.
Proof.
  intros Hz Hx [Hrange H]. rewrite Hx in H.
  pose proof (binary_normalize_correct 53 1024 eq_refl eq_refl mode_NE z ez szero) as C.
  change (round radix2 (SpecFloat.fexp 53 1024) (round_mode mode_NE)) with rndNE in C.
  set (bn := binary_normalize 53 1024 eq_refl eq_refl mode_NE z ez szero) in *.
  rewrite <- (bits_of_b64_of_bits bits Hrange). f_equal.
  assert (Hsign : Rlt_bool (F2R (Float radix2 z ez)) 0 = (z <? 0)).
  { destruct (Z.ltb_spec z 0) as [Hlt|Hge].
    - apply Rlt_bool_true. apply F2R_lt_0. exact Hlt.
    - apply Rlt_bool_false. apply F2R_ge_0. exact Hge. }
  destruct (Rlt_bool (Rabs (rndNE (F2R (Float radix2 z ez)))) (bpow radix2 1024)).
  - destruct H as [H1 [H2 H3]]. destruct C as [C1 [C2 C3]].
    apply B2R_Bsign_inj; [exact C2|exact H2|congruence|].
    rewrite C3, H3. destruct (Z.ltb_spec z 0) as [Hlt|Hge].
    + rewrite Rcompare_Lt; [reflexivity|]. apply F2R_lt_0. exact Hlt.
    + rewrite Rcompare_Gt; [reflexivity|]. apply F2R_gt_0. cbn [Fnum]. lia.
  - rewrite H. rewrite Hsign in C. clear - C. destruct bn; try discriminate C.
    cbn in C. congruence.
Qed.

(* ---------- Num.round_ne ---------- *)
Lemma is_rounding_pack s x bits n d k :
  0 < n -> 0 < d -> k <= 1074 ->
  (2 ^ 52 * d <= n < 2 ^ 53 * d) \/ (k = 1074 /\ n < 2 ^ 52 * d) ->
  x = (IZR n / IZR d * bpow radix2 (- k))%R ->
  bits = sgn s + pack_pos (rne_q n d) k ->
  is_rounding s x bits.
Proof. intros Hn Hd Hk Hb -> ->. apply pack_is_rounding; assumption. Qed.

Lemma rne_q_1 n : rne_q n 1 = n.
Proof.
  unfold rne_q. rewrite Z.div_1_r. replace (n - n * 1) with 0 by lia. reflexivity.
Qed.

Lemma N_odd_Z n : N.odd n = Z.odd (Z.of_N n).
Proof. destruct n as [|[p|p|]]; reflexivity. Qed.

Lemma pow2_split (k : N) : (k <= 52)%N -> (2 ^ k * 2 ^ (52 - k) = two52)%N.
Proof.
  intros H. rewrite <- N.pow_add_r. replace (k + (52 - k))%N with 52%N by lia. reflexivity.
Qed.
Lemma pow2_split' (k : N) : (52 < k)%N -> (2 ^ k = two52 * 2 ^ (k - 52))%N.
Proof.
  intros H. change two52 with (2 ^ 52)%N. rewrite <- N.pow_add_r. f_equal. lia.
Qed.

Lemma IZR_pow2 e : 0 <= e -> IZR (2 ^ e) = bpow radix2 e.
Proof. intros H. rewrite <- IZR_Zpower by exact H. reflexivity. Qed.

Lemma round_ne_is_rounding z :
  z <> 0 -> - 2 ^ 63 <= z < 2 ^ 64 ->
  is_rounding (z <? 0) (IZR (Z.abs z)) (Z.of_N (round_ne z)).
Proof.
  intros Hz Hrange. unfold round_ne.
  replace (z =? 0) with false by lia.
  set (aN := Z.to_N (Z.abs z)). set (kN := N.log2 aN).
  assert (Ha : Z.of_N aN = Z.abs z) by (unfold aN; lia).
  assert (Ha0 : (0 < aN)%N) by lia.
  assert (Ha64 : (aN < 2 ^ 64)%N) by (change (2 ^ 64)%N with 18446744073709551616%N; lia).
  pose proof (N.log2_spec aN Ha0) as Hk. fold kN in Hk. rewrite <- N.add_1_r in Hk.
  assert (Hk63 : (kN <= 63)%N).
  { apply N.lt_succ_r. rewrite <- N.add_1_r. apply (N.pow_lt_mono_r_iff 2); [lia|].
    change (63 + 1)%N with 64%N. lia. }
  rewrite <- Ha. clearbody aN kN.
  set (s := z <? 0). clearbody s. clear z Hz Hrange Ha.
  assert (Hsgn : Z.of_N (if s then 9223372036854775808 else 0) = sgn s) by (destruct s; reflexivity).
  destruct (N.leb_spec kN 52) as [Hle|Hgt].
  - (* exact *)
    pose proof (pow2_split kN Hle) as Hp.
    set (pN := (2 ^ (52 - kN))%N) in *.
    assert (Hq : (two52 <= aN * pN < 2 * two52)%N).
    { rewrite <- Hp. rewrite N.pow_add_r in Hk. change (2 ^ 1)%N with 2%N in Hk. nia. }
    apply (is_rounding_pack s _ _ (Z.of_N (aN * pN)) 1 (52 - Z.of_N kN)); try lia.
    + left. unfold two52 in Hq. change (2 ^ 52) with 4503599627370496.
      change (2 ^ 53) with 9007199254740992. lia.
    + rewrite N2Z.inj_mul, mult_IZR. unfold pN. rewrite N2Z.inj_pow, N2Z.inj_sub by exact Hle.
      change (Z.of_N 2) with 2. change (Z.of_N 52) with 52.
      rewrite IZR_pow2 by lia. unfold Rdiv. rewrite Rinv_1, Rmult_1_r, Rmult_assoc, <- bpow_plus.
      replace (52 - Z.of_N kN + - (52 - Z.of_N kN)) with 0 by lia. cbn [bpow]. ring.
    + rewrite rne_q_1. rewrite <- Hsgn. clearbody pN. unfold two52 in *.
      set (q := (aN * pN)%N) in *. clearbody q.
      unfold pack_pos. change (2 ^ 53) with 9007199254740992. change (2 ^ 52) with 4503599627370496.
      replace (Z.of_N q =? 9007199254740992) with false by lia.
      replace (Z.of_N q <? 4503599627370496) with false by lia.
      replace (2047 <=? 1075 - (52 - Z.of_N kN)) with false by lia.
      destruct s; lia.
  - (* shift right by sh = k - 52 bits and round the remainder *)
    pose proof (pow2_split' kN Hgt) as Hp.
    assert (Hd2 : (2 ^ (kN - 52) = 2 * 2 ^ (kN - 52 - 1))%N).
    { rewrite <- N.pow_succ_r'. f_equal. lia. }
    assert (HdZ : IZR (Z.of_N (2 ^ (kN - 52))) = bpow radix2 (Z.of_N kN - 52)).
    { rewrite N2Z.inj_pow, N2Z.inj_sub by lia. change (Z.of_N 2) with 2. change (Z.of_N 52) with 52.
      apply IZR_pow2. lia. }
    assert (Hh0 : (0 < 2 ^ (kN - 52 - 1))%N).
    { apply N.neq_0_lt_0. apply N.pow_nonzero. lia. }
    set (dN := (2 ^ (kN - 52))%N) in *. set (half := (2 ^ (kN - 52 - 1))%N) in *.
    clearbody dN half.
    assert (Hd0 : dN <> 0%N) by lia.
    pose proof (N.div_mod' aN dN) as Hdm. pose proof (N.mod_lt aN dN Hd0) as Hr.
    assert (Hdiv : Z.of_N aN / Z.of_N dN = Z.of_N (aN / dN)) by (rewrite <- N2Z.inj_div; reflexivity).
    set (q := (aN / dN)%N) in *. set (r := (aN mod dN)%N) in *. clearbody q r.
    rewrite N.pow_add_r, Hp in Hk. change (2 ^ 1)%N with 2%N in Hk.
    assert (Hq : (two52 <= q < 2 * two52)%N) by (unfold two52 in *; nia).
    apply (is_rounding_pack s _ _ (Z.of_N aN) (Z.of_N dN) (52 - Z.of_N kN)); try lia.
    + left. unfold two52 in Hk. change (2 ^ 52) with 4503599627370496.
      change (2 ^ 53) with 9007199254740992. lia.
    + rewrite HdZ. replace (- (52 - Z.of_N kN)) with (Z.of_N kN - 52) by lia.
      field. apply Rgt_not_eq. apply bpow_gt_0.
    + unfold rne_q. rewrite Hdiv.
      replace (Z.of_N aN - Z.of_N q * Z.of_N dN) with (Z.of_N r) by lia.
      rewrite N_odd_Z, <- Hsgn.
      replace (Z.of_N dN <? 2 * Z.of_N r) with (half <? r)%N by lia.
      replace (2 * Z.of_N r =? Z.of_N dN) with (r =? half)%N by lia.
      destruct ((half <? r)%N || (r =? half)%N && Z.odd (Z.of_N q)).
      * unfold pack_pos. change (2 ^ 53) with 9007199254740992. change (2 ^ 52) with 4503599627370496.
        unfold two52 in *.
        destruct (N.eqb_spec (q + 1) (2 * 4503599627370496)) as [E|NE].
        -- replace (Z.of_N q + 1 =? 9007199254740992) with true by lia.
           replace (4503599627370496 <? 4503599627370496) with false by lia.
           replace (2047 <=? 1075 - (52 - Z.of_N kN - 1)) with false by lia.
           destruct s; lia.
        -- replace (Z.of_N q + 1 =? 9007199254740992) with false by lia.
           replace (Z.of_N q + 1 <? 4503599627370496) with false by lia.
           replace (2047 <=? 1075 - (52 - Z.of_N kN)) with false by lia.
           destruct s; lia.
      * unfold pack_pos. change (2 ^ 53) with 9007199254740992. change (2 ^ 52) with 4503599627370496.
        unfold two52 in *.
        replace (q =? 2 * 4503599627370496)%N with false by lia.
        replace (Z.of_N q =? 9007199254740992) with false by lia.
        replace (Z.of_N q <? 4503599627370496) with false by lia.
        replace (2047 <=? 1075 - (52 - Z.of_N kN)) with false by lia.
        destruct s; lia.
Qed.

(* Statement 1, computational form: the integer -> double cast of the model is Flocq's binary_normalize (mode_NE) *)
Theorem round_ne_is_flocq_binary_normalize z :
  - 2 ^ 63 <= z < 2 ^ 64 ->
  Z.of_N (round_ne z) = bits_of_b64 (binary_normalize 53 1024 eq_refl eq_refl mode_NE z 0 false).
Proof.
  intros Hrange. destruct (Z.eq_dec z 0) as [->|Hz]; [reflexivity|].
  symmetry. apply (normalize_of_is_rounding z 0 false (IZR (Z.abs z))); [exact Hz| |apply round_ne_is_rounding; assumption].
  unfold F2R; cbn [Fnum Fexp bpow]. rewrite Rmult_1_r.
  destruct (Z.ltb_spec z 0) as [Hlt|Hge]; cbn [cond_Ropp].
  - rewrite Z.abs_neq by lia. rewrite opp_IZR. ring.
  - rewrite Z.abs_eq by lia. reflexivity.
Qed.

(* Statement 1, through the reals: the double denoted by the pattern is the IEEE-754 round-to-nearest-even of z *)
Theorem round_ne_is_nearest_even z :
  - 2 ^ 63 <= z < 2 ^ 64 ->
  let f := b64_of_bits (Z.of_N (round_ne z)) in
  B2R 53 1024 f = round radix2 (FLT_exp (-1074) 53) ZnearestE (IZR z) /\
  is_finite 53 1024 f = true /\
  (z <> 0 -> Bsign 53 1024 f = (z <? 0)).
Proof.
  intros Hrange f. unfold f. rewrite round_ne_is_flocq_binary_normalize by exact Hrange.
  rewrite b64_of_bits_of_b64.
  pose proof (binary_normalize_correct 53 1024 eq_refl eq_refl mode_NE z 0 false) as C.
  change (round radix2 (SpecFloat.fexp 53 1024) (round_mode mode_NE)) with rndNE in C.
  assert (Hx : F2R (Float radix2 z 0) = IZR z) by (unfold F2R; cbn [Fnum Fexp bpow]; ring).
  rewrite Hx in C.
  rewrite Rlt_bool_true in C.
  - destruct C as [C1 [C2 C3]]. split; [exact C1|split; [exact C2|]].
    intros Hz. rewrite C3. destruct (Z.ltb_spec z 0) as [Hlt|Hge].
    + rewrite Rcompare_Lt; [reflexivity|apply IZR_lt; exact Hlt].
    + rewrite Rcompare_Gt; [reflexivity|apply IZR_lt; lia].
  - (* |z| <= 2^64, which is representable, so the rounding stays below 2^1024 *)
    apply Rle_lt_trans with (bpow radix2 64).
    + apply abs_round_le_generic; [apply FLT_exp_valid; reflexivity|apply valid_rnd_N| |].
      * apply generic_format_bpow. unfold FLT_exp. lia.
      * rewrite <- abs_IZR. change (bpow radix2 64) with (IZR (2 ^ 64)). apply IZR_le. lia.
    + apply bpow_lt. lia.
Qed.

(* every view: Int64 / UInt64 payloads in their Rust ranges go through the cast, a Float64 is returned as is *)
Theorem as_f64_is_flocq x :
  num_in_range x = true ->
  match x with
  | NInt z => Z.of_N (as_f64 x) = bits_of_b64 (binary_normalize 53 1024 eq_refl eq_refl mode_NE z 0 false)
  | NUInt n => Z.of_N (as_f64 x) = bits_of_b64 (binary_normalize 53 1024 eq_refl eq_refl mode_NE (Z.of_N n) 0 false)
  | NFloat b => as_f64 x = b
  end.
Proof.
  destruct x as [z|n|b]; cbn [num_in_range as_f64]; intros H; [| |reflexivity].
  - apply round_ne_is_flocq_binary_normalize. unfold two63 in H. change (2 ^ 63) with 9223372036854775808.
    change (2 ^ 64) with 18446744073709551616. lia.
  - apply round_ne_is_flocq_binary_normalize. unfold two64 in H. change (2 ^ 63) with 9223372036854775808.
    change (2 ^ 64) with 18446744073709551616. lia.
Qed.

Example round_ne_tie_down : Z.of_N (round_ne (2 ^ 53 + 1)) = bits_of_b64 (binary_normalize 53 1024 eq_refl eq_refl mode_NE (2 ^ 53 + 1) 0 false)
  /\ round_ne (2 ^ 53 + 1) = round_ne (2 ^ 53) /\ round_ne (2 ^ 53 + 3) = round_ne (2 ^ 53 + 4)
  /\ round_ne (2 ^ 64 - 1) = 4895412794951729152%N /\ round_ne (- 2 ^ 63) = 14114281232179134464%N.
Proof. vm_compute. repeat split. Qed.
