(* FlocqLink.v — the model's two hand-written roundings (Num.round_ne = `i64/u64 as f64`, Decimal.round_dec = the decimal
   reader) are Flocq's round-to-nearest-even in binary64.  Proofs only; nothing here is extracted, and Num.v / Decimal.v
   do not depend on Flocq. *)
From Coq Require Import ZArith NArith Bool Lia List Reals Psatz ZifyBool.
From Flocq Require Import Core.Core IEEE754.BinarySingleNaN IEEE754.Binary IEEE754.Bits.
From JB Require Import Num Decimal.
Set Default Timeout 60.
Ltac Zify.zify_post_hook ::= Z.div_mod_to_equations.
Open Scope Z_scope.

Notation fexp64 := (FLT_exp (-1074) 53).
Notation rndNE := (round radix2 fexp64 ZnearestE).

(* ---------- nearest-even of a quotient of integers ---------- *)
Definition rne_q (n d : Z) : Z :=
  let q := n / d in let r := n - q * d in
  if (d <? 2 * r) || ((2 * r =? d) && Z.odd q) then q + 1 else q.

Lemma ZnearestE_div n d : 0 < d -> ZnearestE (IZR n / IZR d) = rne_q n d.
Proof.
  intros Hd. unfold rne_q, ZnearestE, Znearest.
  rewrite Zfloor_div by lia.
  set (q := n / d). set (r := n - q * d).
  assert (Hr : 0 <= r < d) by (unfold r, q; lia).
  assert (Hd' : (0 < IZR d)%R) by (apply IZR_lt; lia).
  assert (Hx : (IZR n / IZR d - IZR q = IZR r / IZR d)%R).
  { unfold r. rewrite minus_IZR, mult_IZR. field. lra. }
  rewrite Hx.
  assert (Hc : Rcompare (IZR r / IZR d) (/ 2) = Z.compare (2 * r) d).
  { destruct (Z.compare_spec (2 * r) d) as [E|L|G].
    - apply Rcompare_Eq. apply (f_equal IZR) in E. rewrite mult_IZR in E.
      apply Rmult_eq_reg_r with (IZR d); [|lra]. unfold Rdiv. rewrite Rmult_assoc, Rinv_l by lra. lra.
    - apply Rcompare_Lt. apply IZR_lt in L. rewrite mult_IZR in L.
      apply Rmult_lt_reg_r with (IZR d); [lra|]. unfold Rdiv. rewrite Rmult_assoc, Rinv_l by lra. lra.
    - apply Rcompare_Gt. apply IZR_lt in G. rewrite mult_IZR in G.
      apply Rmult_lt_reg_r with (IZR d); [lra|]. unfold Rdiv. rewrite Rmult_assoc, Rinv_l by lra. lra. }
  rewrite Hc.
  assert (Hceil : r <> 0 -> Zceil (IZR n / IZR d) = q + 1).
  { intros Hr0. rewrite Zceil_floor_neq; rewrite Zfloor_div by lia; [reflexivity|].
    fold q. intros E. rewrite <- E in Hx. replace (IZR q - IZR q)%R with 0%R in Hx by ring.
    apply Hr0. apply eq_IZR. apply Rmult_eq_reg_r with (/ IZR d)%R.
    - unfold Rdiv in Hx. rewrite <- Hx. ring.
    - apply Rinv_neq_0_compat. lra. }
  destruct (Z.compare_spec (2 * r) d) as [E|L|G].
  - replace (d <? 2 * r) with false by lia. replace (2 * r =? d) with true by lia.
    cbn [orb andb]. rewrite Z.negb_even. destruct (Z.odd q); [apply Hceil; lia|reflexivity].
  - replace (d <? 2 * r) with false by lia. replace (2 * r =? d) with false by lia. reflexivity.
  - replace (d <? 2 * r) with true by lia. cbn [orb]. apply Hceil. lia.
Qed.

Lemma div_ge n d c : 0 < d -> c * d <= n -> (IZR c <= IZR n / IZR d)%R.
Proof.
  intros Hd H. assert (Hd' : (0 < IZR d)%R) by (apply IZR_lt; lia).
  apply Rmult_le_reg_r with (IZR d); [lra|]. unfold Rdiv. rewrite Rmult_assoc, Rinv_l, Rmult_1_r by lra.
  rewrite <- mult_IZR. apply IZR_le. lia.
Qed.
Lemma div_lt n d c : 0 < d -> n < c * d -> (IZR n / IZR d < IZR c)%R.
Proof.
  intros Hd H. assert (Hd' : (0 < IZR d)%R) by (apply IZR_lt; lia).
  apply Rmult_lt_reg_r with (IZR d); [lra|]. unfold Rdiv. rewrite Rmult_assoc, Rinv_l, Rmult_1_r by lra.
  rewrite <- mult_IZR. apply IZR_lt. lia.
Qed.
Lemma bpow52 : bpow radix2 52 = IZR (2 ^ 52). Proof. reflexivity. Qed.
Lemma bpow53 : bpow radix2 53 = IZR (2 ^ 53). Proof. reflexivity. Qed.

(* x = (n/d) * 2^-k with the quotient already scaled into [2^52, 2^53) (or below 2^52 at the smallest exponent):
   rounding x to nearest-even in binary64 is rounding the quotient to an integer *)
Lemma rndNE_div n d k :
  0 < n -> 0 < d -> k <= 1074 ->
  (2 ^ 52 * d <= n < 2 ^ 53 * d) \/ (k = 1074 /\ n < 2 ^ 52 * d) ->
  rndNE (IZR n / IZR d * bpow radix2 (- k)) = F2R (Float radix2 (rne_q n d) (- k)).
Proof.
  intros Hn Hd Hk Hb.
  set (y := (IZR n / IZR d)%R). set (x := (y * bpow radix2 (- k))%R).
  assert (Hy : (0 < y)%R).
  { unfold y. apply Rdiv_lt_0_compat; apply IZR_lt; lia. }
  assert (Hx : (0 < x)%R) by (apply Rmult_lt_0_compat; [exact Hy|apply bpow_gt_0]).
  assert (Hc : cexp radix2 fexp64 x = - k).
  { unfold cexp, FLT_exp. destruct Hb as [[H1 H2]|[-> H2]].
    - rewrite (mag_unique_pos radix2 x (53 - k)); [lia|]. split.
      + replace (53 - k - 1) with (52 + - k) by lia. rewrite bpow_plus, bpow52.
        apply Rmult_le_compat_r; [apply bpow_ge_0|]. apply div_ge; lia.
      + replace (53 - k) with (53 + - k) by lia. rewrite bpow_plus, bpow53.
        apply Rmult_lt_compat_r; [apply bpow_gt_0|]. apply div_lt; lia.
    - assert (H : mag radix2 x <= 52 - 1074).
      { apply mag_le_bpow; [lra|]. rewrite Rabs_pos_eq by lra.
        replace (52 - 1074) with (52 + - 1074) by lia. rewrite bpow_plus, bpow52.
        apply Rmult_lt_compat_r; [apply bpow_gt_0|]. apply div_lt; lia. }
      lia. }
  unfold round, scaled_mantissa. rewrite Hc.
  replace (x * bpow radix2 (- - k))%R with y.
  - unfold y. rewrite ZnearestE_div by lia. reflexivity.
  - unfold x. rewrite Rmult_assoc, <- bpow_plus. replace (- k + - - k) with 0 by lia. cbn [bpow]. ring.
Qed.

(* ---------- binary64 bit patterns ---------- *)
Definition sgn (s : bool) : Z := if s then 2 ^ 63 else 0.
Definition P52 : Z := 2 ^ 52.
Definition P53 : Z := 2 ^ 53.
Lemma P52_eq : P52 = 4503599627370496. Proof. reflexivity. Qed.
Lemma P53_eq : P53 = 9007199254740992. Proof. reflexivity. Qed.

Lemma bits_finite s m e pf :
  bits_of_b64 (B754_finite 53 1024 s m e pf) =
  sgn s + (if Z.pos m <? P52 then Z.pos m else (e + 1075) * P52 + (Z.pos m - P52)).
Proof.
  unfold bits_of_b64, bits_of_binary_float, join_bits.
  rewrite !Z.shiftl_mul_pow2 by lia.
  change (2 ^ 52) with P52. change (2 ^ 11) with 2048.
  change (SpecFloat.emin (52 + 1) (2 ^ (11 - 1))) with (-1074).
  unfold sgn. change (2 ^ 63) with (2048 * P52).
  destruct (Z.leb_spec 0 (Z.pos m - P52)); destruct (Z.ltb_spec (Z.pos m) P52); destruct s; try lia.
Qed.

Lemma bounded_normal m e :
  P52 <= Z.pos m < P53 -> -1074 <= e <= 971 -> SpecFloat.bounded 53 1024 m e = true.
Proof.
  intros Hm He. unfold SpecFloat.bounded, SpecFloat.canonical_mantissa.
  rewrite Zpos_digits2_pos.
  rewrite (Zdigits_unique radix2 (Z.pos m) 53) by (rewrite Z.abs_eq by lia; exact Hm).
  unfold SpecFloat.fexp, SpecFloat.emin.
  apply andb_true_intro; split; [apply Zeq_bool_true|apply Zle_bool_true]; lia.
Qed.
Lemma bounded_subnormal m : Z.pos m < P52 -> SpecFloat.bounded 53 1024 m (-1074) = true.
Proof.
  intros Hm. unfold SpecFloat.bounded, SpecFloat.canonical_mantissa.
  rewrite Zpos_digits2_pos.
  assert (H : Zdigits radix2 (Z.pos m) <= 52).
  { apply Zdigits_le_Zpower. rewrite Z.abs_eq by lia. exact Hm. }
  assert (H0 : 0 < Zdigits radix2 (Z.pos m)) by (apply Zdigits_gt_0; lia).
  unfold SpecFloat.fexp, SpecFloat.emin.
  apply andb_true_intro; split; [apply Zeq_bool_true|apply Zle_bool_true]; lia.
Qed.

Lemma rne_q_ge n d c : 0 < d -> c * d <= n -> c <= rne_q n d.
Proof.
  intros Hd H. assert (c <= n / d) by (apply Z.div_le_lower_bound; lia).
  unfold rne_q. destruct (_ || _); lia.
Qed.
Lemma rne_q_le n d c : 0 < d -> n < c * d -> rne_q n d <= c.
Proof.
  intros Hd H. assert (n / d < c) by (apply Z.div_lt_upper_bound; lia).
  unfold rne_q. destruct (_ || _); lia.
Qed.

Definition pack_pos (q' k : Z) : Z :=
  let '(q'', k') := if q' =? 2 ^ 53 then (2 ^ 52, k - 1) else (q', k) in
  if q'' <? 2 ^ 52 then q''
  else let biased := 1075 - k' in
       if 2047 <=? biased then 2047 * 2 ^ 52 else biased * 2 ^ 52 + (q'' - 2 ^ 52).

Lemma b64_of_bits_of_b64 f : b64_of_bits (bits_of_b64 f) = f.
Proof. exact (binary_float_of_bits_of_binary_float 52 11 eq_refl eq_refl eq_refl f). Qed.
Lemma b64_zero s : b64_of_bits (sgn s) = B754_zero 53 1024 s.
Proof. destruct s; reflexivity. Qed.
Lemma b64_inf s : b64_of_bits (sgn s + 2047 * P52) = B754_infinity 53 1024 s.
Proof. destruct s; reflexivity. Qed.

(* "bits" is the pattern of the double nearest (ties to even) to +-x, infinite exactly when that rounding, computed with
   unbounded exponent, reaches 2^1024: the same shape as Flocq's binary_normalize_correct / Bdiv_correct *)
Definition is_rounding (s : bool) (x : R) (bits : Z) : Prop :=
  let r := rndNE (cond_Ropp s x) in
  let f := b64_of_bits bits in
  0 <= bits < 2 ^ 64 /\
  if Rlt_bool (Rabs r) (bpow radix2 1024)
  then B2R 53 1024 f = r /\ is_finite 53 1024 f = true /\ Bsign 53 1024 f = s
  else f = B754_infinity 53 1024 s.

Lemma rndNE_cond_Ropp s x : rndNE (cond_Ropp s x) = cond_Ropp s (rndNE x).
Proof. destruct s; [apply round_NE_opp|reflexivity]. Qed.

Lemma is_rounding_finite s x (m : positive) e :
  SpecFloat.bounded 53 1024 m e = true ->
  rndNE x = F2R (Float radix2 (Z.pos m) e) ->
  is_rounding s x (sgn s + (if Z.pos m <? P52 then Z.pos m else (e + 1075) * P52 + (Z.pos m - P52))).
Proof.
  intros pf Hr. unfold is_rounding. rewrite rndNE_cond_Ropp, Hr, abs_cond_Ropp.
  rewrite <- (bits_finite s m e pf), b64_of_bits_of_b64.
  rewrite Rabs_pos_eq by (apply F2R_ge_0; cbn; lia).
  rewrite Rlt_bool_true by (apply (bounded_lt_emax 53 1024); exact pf).
  split; [|split; [|split]].
  - rewrite (bits_finite s m e pf).
    unfold SpecFloat.bounded, SpecFloat.canonical_mantissa in pf.
    apply andb_prop in pf. destruct pf as [pf1 pf2]. apply Zeq_bool_eq in pf1. apply Zle_bool_imp_le in pf2.
    rewrite Zpos_digits2_pos in pf1. unfold SpecFloat.fexp, SpecFloat.emin in pf1.
    assert (Hd : Zdigits radix2 (Z.pos m) <= 53) by lia.
    assert (Hm : Z.pos m < P53).
    { apply (Zpower_gt_Zdigits radix2 53 (Z.pos m)). exact Hd. }
    assert (He : -1074 <= e <= 971) by lia.
    rewrite P53_eq in Hm. unfold sgn. change (2 ^ 63) with 9223372036854775808. change (2 ^ 64) with 18446744073709551616.
    rewrite P52_eq. destruct s; destruct (Z.ltb_spec (Z.pos m) 4503599627370496); lia.
  - cbn [B2R]. rewrite <- F2R_cond_Zopp. reflexivity.
  - reflexivity.
  - reflexivity.
Qed.

Lemma is_rounding_zero s x : rndNE x = 0%R -> is_rounding s x (sgn s).
Proof.
  intros Hr. unfold is_rounding. rewrite rndNE_cond_Ropp, Hr, abs_cond_Ropp, Rabs_R0, b64_zero.
  rewrite Rlt_bool_true by apply bpow_gt_0.
  split; [destruct s; cbv; intuition discriminate|].
  split; [|split; reflexivity].
  cbn [B2R]. destruct s; cbn [cond_Ropp]; ring.
Qed.

Lemma is_rounding_inf s x : (bpow radix2 1024 <= rndNE x)%R -> is_rounding s x (sgn s + 2047 * P52).
Proof.
  intros Hr. unfold is_rounding. rewrite rndNE_cond_Ropp, abs_cond_Ropp, b64_inf.
  assert (H0 : (0 < bpow radix2 1024)%R) by apply bpow_gt_0.
  rewrite Rabs_pos_eq by lra.
  rewrite Rlt_bool_false by exact Hr.
  split; [destruct s; cbv; intuition discriminate|reflexivity].
Qed.

Lemma is_rounding_finite' s x (m : positive) e bits :
  SpecFloat.bounded 53 1024 m e = true ->
  rndNE x = F2R (Float radix2 (Z.pos m) e) ->
  bits = sgn s + (if Z.pos m <? P52 then Z.pos m else (e + 1075) * P52 + (Z.pos m - P52)) ->
  is_rounding s x bits.
Proof. intros pf Hr ->. apply is_rounding_finite; assumption. Qed.

Lemma pack_is_rounding s n d k :
  0 < n -> 0 < d -> k <= 1074 ->
  (2 ^ 52 * d <= n < 2 ^ 53 * d) \/ (k = 1074 /\ n < 2 ^ 52 * d) ->
  is_rounding s (IZR n / IZR d * bpow radix2 (- k)) (sgn s + pack_pos (rne_q n d) k).
Proof.
  intros Hn Hd Hk Hb.
  pose proof (rndNE_div n d k Hn Hd Hk Hb) as Hr.
  set (q := rne_q n d) in *.
  assert (Hq0 : 0 <= q) by (apply rne_q_ge; lia).
  assert (Hq : (P52 <= q <= P53) \/ (k = 1074 /\ q <= P52)).
  { destruct Hb as [[H1 H2]|[H1 H2]]; [left; split|right; split; [exact H1|]].
    - apply rne_q_ge; unfold P52; lia.
    - apply rne_q_le; unfold P53; lia.
    - apply rne_q_le; unfold P52; lia. }
  clearbody q.
  assert (HP : P52 = 4503599627370496 /\ P53 = 9007199254740992) by (split; reflexivity).
  unfold pack_pos. change (2 ^ 53) with P53. change (2 ^ 52) with P52.
  destruct (Z.eqb_spec q P53) as [E|NE].
  - (* carry into the next binade *)
    assert (Hr' : rndNE (IZR n / IZR d * bpow radix2 (- k)) = F2R (Float radix2 (Z.pos 4503599627370496) (- (k - 1)))).
    { rewrite Hr, E. unfold F2R; cbn [Fnum Fexp]. replace (- (k - 1)) with (1 + - k) by lia.
      rewrite bpow_plus. unfold P53. change (bpow radix2 1) with 2%R.
      change (2 ^ 53) with (4503599627370496 * 2). rewrite mult_IZR. ring. }
    replace (P52 <? P52) with false by lia.
    destruct (Z.leb_spec 2047 (1075 - (k - 1))) as [Ho|Hf].
    + apply is_rounding_inf. rewrite Hr'. unfold F2R; cbn [Fnum Fexp].
      change (IZR (Z.pos 4503599627370496)) with (bpow radix2 52). rewrite <- bpow_plus.
      apply bpow_le. lia.
    + apply (is_rounding_finite' s _ 4503599627370496%positive (- (k - 1))); [apply bounded_normal; lia|exact Hr'|].
      destruct (Z.ltb_spec (Z.pos 4503599627370496) P52); lia.
  - destruct (Z.ltb_spec q P52) as [Hs|Hn52].
    + (* subnormal or zero *)
      assert (Hk' : k = 1074) by lia. subst k.
      destruct q as [|m|m]; [| |lia].
      * rewrite Z.add_0_r. apply is_rounding_zero. rewrite Hr. apply F2R_0.
      * apply (is_rounding_finite' s _ m (-1074)); [apply bounded_subnormal; exact Hs|exact Hr|].
        destruct (Z.ltb_spec (Z.pos m) P52); lia.
    + destruct (Z.leb_spec 2047 (1075 - k)) as [Ho|Hf].
      * apply is_rounding_inf. rewrite Hr. unfold F2R; cbn [Fnum Fexp].
        apply Rle_trans with (IZR P52 * bpow radix2 (- k))%R.
        -- change (IZR P52) with (bpow radix2 52). rewrite <- bpow_plus. apply bpow_le. lia.
        -- apply Rmult_le_compat_r; [apply bpow_ge_0|apply IZR_le; exact Hn52].
      * destruct q as [|m|m]; [lia| |lia].
        apply (is_rounding_finite' s _ m (- k)); [apply bounded_normal; lia|exact Hr|].
        destruct (Z.ltb_spec (Z.pos m) P52); lia.
Qed.

Lemma bits_of_b64_of_bits bits : 0 <= bits < 2 ^ 64 -> bits_of_b64 (b64_of_bits bits) = bits.
Proof. intros H. exact (bits_of_binary_float_of_bits 52 11 eq_refl eq_refl eq_refl bits H). Qed.

(* a pattern that is_rounding of the value of a binary float z * 2^ez is what Flocq's binary_normalize produces *)
Lemma normalize_of_is_rounding z ez szero x bits :
  z <> 0 -> cond_Ropp (z <? 0) x = F2R (Float radix2 z ez) ->
  is_rounding (z <? 0) x bits ->
  bits_of_b64 (binary_normalize 53 1024 eq_refl eq_refl mode_NE z ez szero) = bits.
Proof.
  intros Hz Hx [Hrange H]. rewrite Hx in H.
  pose proof (binary_normalize_correct 53 1024 eq_refl eq_refl mode_NE z ez szero) as C.
  change (round radix2 (SpecFloat.fexp 53 1024) (round_mode mode_NE)) with rndNE in C.
  set (bn := binary_normalize 53 1024 eq_refl eq_refl mode_NE z ez szero) in *.
  rewrite <- (bits_of_b64_of_bits bits Hrange). f_equal.
  assert (Hsign : Rlt_bool (F2R (Float radix2 z ez)) 0 = (z <? 0)).
  { destruct (Z.ltb_spec z 0) as [Hlt|Hge].
    - apply Rlt_bool_true. apply F2R_lt_0. exact Hlt.
    - apply Rlt_bool_false. apply F2R_ge_0. exact Hge. }
  destruct (Rlt_bool (Rabs (rndNE (F2R (Float radix2 z ez)))) (bpow radix2 1024)).
  - destruct H as [H1 [H2 H3]]. destruct C as [C1 [C2 C3]].
    apply B2R_Bsign_inj; [exact C2|exact H2|congruence|].
    rewrite C3, H3. destruct (Z.ltb_spec z 0) as [Hlt|Hge].
    + rewrite Rcompare_Lt; [reflexivity|]. apply F2R_lt_0. exact Hlt.
    + rewrite Rcompare_Gt; [reflexivity|]. apply F2R_gt_0. cbn [Fnum]. lia.
  - rewrite H. rewrite Hsign in C. clear - C. destruct bn; try discriminate C.
    cbn in C. congruence.
Qed.

(* ---------- Num.round_ne ---------- *)
Lemma is_rounding_pack s x bits n d k :
  0 < n -> 0 < d -> k <= 1074 ->
  (2 ^ 52 * d <= n < 2 ^ 53 * d) \/ (k = 1074 /\ n < 2 ^ 52 * d) ->
  x = (IZR n / IZR d * bpow radix2 (- k))%R ->
  bits = sgn s + pack_pos (rne_q n d) k ->
  is_rounding s x bits.
Proof. intros Hn Hd Hk Hb -> ->. apply pack_is_rounding; assumption. Qed.

Lemma rne_q_1 n : rne_q n 1 = n.
Proof.
  unfold rne_q. rewrite Z.div_1_r. replace (n - n * 1) with 0 by lia. reflexivity.
Qed.

Lemma N_odd_Z n : N.odd n = Z.odd (Z.of_N n).
Proof. destruct n as [|[p|p|]]; reflexivity. Qed.

Lemma pow2_split (k : N) : (k <= 52)%N -> (2 ^ k * 2 ^ (52 - k) = two52)%N.
Proof.
  intros H. rewrite <- N.pow_add_r. replace (k + (52 - k))%N with 52%N by lia. reflexivity.
Qed.
Lemma pow2_split' (k : N) : (52 < k)%N -> (2 ^ k = two52 * 2 ^ (k - 52))%N.
Proof.
  intros H. change two52 with (2 ^ 52)%N. rewrite <- N.pow_add_r. f_equal. lia.
Qed.

Lemma IZR_pow2 e : 0 <= e -> IZR (2 ^ e) = bpow radix2 e.
Proof. intros H. rewrite <- IZR_Zpower by exact H. reflexivity. Qed.

Lemma round_ne_is_rounding z :
  z <> 0 -> - 2 ^ 63 <= z < 2 ^ 64 ->
  is_rounding (z <? 0) (IZR (Z.abs z)) (Z.of_N (round_ne z)).
Proof.
  intros Hz Hrange. unfold round_ne.
  replace (z =? 0) with false by lia.
  set (aN := Z.to_N (Z.abs z)). set (kN := N.log2 aN).
  assert (Ha : Z.of_N aN = Z.abs z) by (unfold aN; lia).
  assert (Ha0 : (0 < aN)%N) by lia.
  assert (Ha64 : (aN < 2 ^ 64)%N) by (change (2 ^ 64)%N with 18446744073709551616%N; lia).
  pose proof (N.log2_spec aN Ha0) as Hk. fold kN in Hk. rewrite <- N.add_1_r in Hk.
  assert (Hk63 : (kN <= 63)%N).
  { apply N.lt_succ_r. rewrite <- N.add_1_r. apply (N.pow_lt_mono_r_iff 2); [lia|].
    change (63 + 1)%N with 64%N. lia. }
  rewrite <- Ha. clearbody aN kN.
  set (s := z <? 0). clearbody s. clear z Hz Hrange Ha.
  assert (Hsgn : Z.of_N (if s then 9223372036854775808 else 0) = sgn s) by (destruct s; reflexivity).
  destruct (N.leb_spec kN 52) as [Hle|Hgt].
  - (* exact *)
    pose proof (pow2_split kN Hle) as Hp.
    set (pN := (2 ^ (52 - kN))%N) in *.
    assert (Hq : (two52 <= aN * pN < 2 * two52)%N).
    { rewrite <- Hp. rewrite N.pow_add_r in Hk. change (2 ^ 1)%N with 2%N in Hk. nia. }
    apply (is_rounding_pack s _ _ (Z.of_N (aN * pN)) 1 (52 - Z.of_N kN)); try lia.
    + left. unfold two52 in Hq. change (2 ^ 52) with 4503599627370496.
      change (2 ^ 53) with 9007199254740992. lia.
    + rewrite N2Z.inj_mul, mult_IZR. unfold pN. rewrite N2Z.inj_pow, N2Z.inj_sub by exact Hle.
      change (Z.of_N 2) with 2. change (Z.of_N 52) with 52.
      rewrite IZR_pow2 by lia. unfold Rdiv. rewrite Rinv_1, Rmult_1_r, Rmult_assoc, <- bpow_plus.
      replace (52 - Z.of_N kN + - (52 - Z.of_N kN)) with 0 by lia. cbn [bpow]. ring.
    + rewrite rne_q_1. rewrite <- Hsgn. clearbody pN. unfold two52 in *.
      set (q := (aN * pN)%N) in *. clearbody q.
      unfold pack_pos. change (2 ^ 53) with 9007199254740992. change (2 ^ 52) with 4503599627370496.
      replace (Z.of_N q =? 9007199254740992) with false by lia.
      replace (Z.of_N q <? 4503599627370496) with false by lia.
      replace (2047 <=? 1075 - (52 - Z.of_N kN)) with false by lia.
      destruct s; lia.
  - (* shift right by sh = k - 52 bits and round the remainder *)
    pose proof (pow2_split' kN Hgt) as Hp.
    assert (Hd2 : (2 ^ (kN - 52) = 2 * 2 ^ (kN - 52 - 1))%N).
    { rewrite <- N.pow_succ_r'. f_equal. lia. }
    assert (HdZ : IZR (Z.of_N (2 ^ (kN - 52))) = bpow radix2 (Z.of_N kN - 52)).
    { rewrite N2Z.inj_pow, N2Z.inj_sub by lia. change (Z.of_N 2) with 2. change (Z.of_N 52) with 52.
      apply IZR_pow2. lia. }
    assert (Hh0 : (0 < 2 ^ (kN - 52 - 1))%N).
    { apply N.neq_0_lt_0. apply N.pow_nonzero. lia. }
    set (dN := (2 ^ (kN - 52))%N) in *. set (half := (2 ^ (kN - 52 - 1))%N) in *.
    clearbody dN half.
    assert (Hd0 : dN <> 0%N) by lia.
    pose proof (N.div_mod' aN dN) as Hdm. pose proof (N.mod_lt aN dN Hd0) as Hr.
    assert (Hdiv : Z.of_N aN / Z.of_N dN = Z.of_N (aN / dN)) by (rewrite <- N2Z.inj_div; reflexivity).
    set (q := (aN / dN)%N) in *. set (r := (aN mod dN)%N) in *. clearbody q r.
    rewrite N.pow_add_r, Hp in Hk. change (2 ^ 1)%N with 2%N in Hk.
    assert (Hq : (two52 <= q < 2 * two52)%N) by (unfold two52 in *; nia).
    apply (is_rounding_pack s _ _ (Z.of_N aN) (Z.of_N dN) (52 - Z.of_N kN)); try lia.
    + left. unfold two52 in Hk. change (2 ^ 52) with 4503599627370496.
      change (2 ^ 53) with 9007199254740992. lia.
    + rewrite HdZ. replace (- (52 - Z.of_N kN)) with (Z.of_N kN - 52) by lia.
      field. apply Rgt_not_eq. apply bpow_gt_0.
    + unfold rne_q. rewrite Hdiv.
      replace (Z.of_N aN - Z.of_N q * Z.of_N dN) with (Z.of_N r) by lia.
      rewrite N_odd_Z, <- Hsgn.
      replace (Z.of_N dN <? 2 * Z.of_N r) with (half <? r)%N by lia.
      replace (2 * Z.of_N r =? Z.of_N dN) with (r =? half)%N by lia.
      destruct ((half <? r)%N || (r =? half)%N && Z.odd (Z.of_N q)).
      * unfold pack_pos. change (2 ^ 53) with 9007199254740992. change (2 ^ 52) with 4503599627370496.
        unfold two52 in *.
        destruct (N.eqb_spec (q + 1) (2 * 4503599627370496)) as [E|NE].
        -- replace (Z.of_N q + 1 =? 9007199254740992) with true by lia.
           replace (4503599627370496 <? 4503599627370496) with false by lia.
           replace (2047 <=? 1075 - (52 - Z.of_N kN - 1)) with false by lia.
           destruct s; lia.
        -- replace (Z.of_N q + 1 =? 9007199254740992) with false by lia.
           replace (Z.of_N q + 1 <? 4503599627370496) with false by lia.
           replace (2047 <=? 1075 - (52 - Z.of_N kN)) with false by lia.
           destruct s; lia.
      * unfold pack_pos. change (2 ^ 53) with 9007199254740992. change (2 ^ 52) with 4503599627370496.
        unfold two52 in *.
        replace (q =? 2 * 4503599627370496)%N with false by lia.
        replace (Z.of_N q =? 9007199254740992) with false by lia.
        replace (Z.of_N q <? 4503599627370496) with false by lia.
        replace (2047 <=? 1075 - (52 - Z.of_N kN)) with false by lia.
        destruct s; lia.
Qed.

(* Statement 1, computational form: the integer -> double cast of the model is Flocq's binary_normalize (mode_NE) *)
Theorem round_ne_is_flocq_binary_normalize z :
  - 2 ^ 63 <= z < 2 ^ 64 ->
  Z.of_N (round_ne z) = bits_of_b64 (binary_normalize 53 1024 eq_refl eq_refl mode_NE z 0 false).
Proof.
  intros Hrange. destruct (Z.eq_dec z 0) as [->|Hz]; [reflexivity|].
  symmetry. apply (normalize_of_is_rounding z 0 false (IZR (Z.abs z))); [exact Hz| |apply round_ne_is_rounding; assumption].
  unfold F2R; cbn [Fnum Fexp bpow]. rewrite Rmult_1_r.
  destruct (Z.ltb_spec z 0) as [Hlt|Hge]; cbn [cond_Ropp].
  - rewrite Z.abs_neq by lia. rewrite opp_IZR. ring.
  - rewrite Z.abs_eq by lia. reflexivity.
Qed.

(* Statement 1, through the reals: the double denoted by the pattern is the IEEE-754 round-to-nearest-even of z *)
Theorem round_ne_is_nearest_even z :
  - 2 ^ 63 <= z < 2 ^ 64 ->
  let f := b64_of_bits (Z.of_N (round_ne z)) in
  B2R 53 1024 f = round radix2 (FLT_exp (-1074) 53) ZnearestE (IZR z) /\
  is_finite 53 1024 f = true /\
  (z <> 0 -> Bsign 53 1024 f = (z <? 0)).
Proof.
  intros Hrange f. unfold f. rewrite round_ne_is_flocq_binary_normalize by exact Hrange.
  rewrite b64_of_bits_of_b64.
  pose proof (binary_normalize_correct 53 1024 eq_refl eq_refl mode_NE z 0 false) as C.
  change (round radix2 (SpecFloat.fexp 53 1024) (round_mode mode_NE)) with rndNE in C.
  assert (Hx : F2R (Float radix2 z 0) = IZR z) by (unfold F2R; cbn [Fnum Fexp bpow]; ring).
  rewrite Hx in C.
  rewrite Rlt_bool_true in C.
  - destruct C as [C1 [C2 C3]]. split; [exact C1|split; [exact C2|]].
    intros Hz. rewrite C3. destruct (Z.ltb_spec z 0) as [Hlt|Hge].
    + rewrite Rcompare_Lt; [reflexivity|apply IZR_lt; exact Hlt].
    + rewrite Rcompare_Gt; [reflexivity|apply IZR_lt; lia].
  - (* |z| <= 2^64, which is representable, so the rounding stays below 2^1024 *)
    apply Rle_lt_trans with (bpow radix2 64).
    + apply abs_round_le_generic; [apply FLT_exp_valid; reflexivity|apply valid_rnd_N| |].
      * apply generic_format_bpow. unfold FLT_exp. lia.
      * rewrite <- abs_IZR. change (bpow radix2 64) with (IZR (2 ^ 64)). apply IZR_le. lia.
    + apply bpow_lt. lia.
Qed.

(* every view: Int64 / UInt64 payloads in their Rust ranges go through the cast, a Float64 is returned as is *)
Theorem as_f64_is_flocq x :
  num_in_range x = true ->
  match x with
  | NInt z => Z.of_N (as_f64 x) = bits_of_b64 (binary_normalize 53 1024 eq_refl eq_refl mode_NE z 0 false)
  | NUInt n => Z.of_N (as_f64 x) = bits_of_b64 (binary_normalize 53 1024 eq_refl eq_refl mode_NE (Z.of_N n) 0 false)
  | NFloat b => as_f64 x = b
  end.
Proof.
  destruct x as [z|n|b]; cbn [num_in_range as_f64]; intros H; [| |reflexivity].
  - apply round_ne_is_flocq_binary_normalize. unfold two63 in H. change (2 ^ 63) with 9223372036854775808.
    change (2 ^ 64) with 18446744073709551616. lia.
  - apply round_ne_is_flocq_binary_normalize. unfold two64 in H. change (2 ^ 63) with 9223372036854775808.
    change (2 ^ 64) with 18446744073709551616. lia.
Qed.

Example round_ne_tie_down : Z.of_N (round_ne (2 ^ 53 + 1)) = bits_of_b64 (binary_normalize 53 1024 eq_refl eq_refl mode_NE (2 ^ 53 + 1) 0 false)
  /\ round_ne (2 ^ 53 + 1) = round_ne (2 ^ 53) /\ round_ne (2 ^ 53 + 3) = round_ne (2 ^ 53 + 4)
  /\ round_ne (2 ^ 64 - 1) = 4895412794951729152%N /\ round_ne (- 2 ^ 63) = 14114281232179134464%N.
Proof. vm_compute. repeat split. Qed.

(* ---------- Decimal.round_dec ---------- *)
Definition radix10 : radix := Build_radix 10 eq_refl.

Definition dscale (num den k : Z) : Z * Z :=
  if 0 <=? k then (num * 2 ^ k, den) else (num, den * 2 ^ (- k)).
Definition dq (num den k : Z) : Z := let '(n, d) := dscale num den k in n / d.
Definition dnum (m10 e10 : Z) : Z := if 0 <=? e10 then m10 * 10 ^ e10 else m10.
Definition dden (e10 : Z) : Z := if 0 <=? e10 then 1 else 10 ^ (- e10).
Definition dk1 (num den : Z) : Z :=
  let k0 := 52 - (Z.log2 num - Z.log2 den) in
  if dq num den k0 <? 2 ^ 52 then k0 + 1 else if 2 ^ 53 <=? dq num den k0 then k0 - 1 else k0.

Lemma round_dec_pos_unfold m10 e10 :
  m10 <> 0 ->
  round_dec_pos m10 e10 =
  let num := dnum m10 e10 in let den := dden e10 in
  let k := Z.min (dk1 num den) 1074 in
  let '(n, d) := dscale num den k in pack_pos (rne_q n d) k.
Proof.
  intros H. unfold round_dec_pos. replace (m10 =? 0) with false by lia. reflexivity.
Qed.

Lemma ndigits_fuel_spec fuel : forall m,
  0 < m < 2 ^ Z.of_nat fuel ->
  1 <= ndigits_fuel fuel m /\ 10 ^ (ndigits_fuel fuel m - 1) <= m < 10 ^ ndigits_fuel fuel m.
Proof.
  induction fuel as [|f IH]; intros m Hm.
  - change (2 ^ Z.of_nat 0) with 1 in Hm. lia.
  - cbn [ndigits_fuel]. destruct (Z.ltb_spec m 10) as [Hlt|Hge].
    + change (10 ^ (1 - 1)) with 1. change (10 ^ 1) with 10. lia.
    + assert (Hm' : 0 < m / 10 < 2 ^ Z.of_nat f).
      { rewrite Nat2Z.inj_succ, Z.pow_succ_r in Hm by lia. lia. }
      destruct (IH _ Hm') as [H1 [H2 H3]].
      set (nd := ndigits_fuel f (m / 10)) in *. clearbody nd.
      replace (1 + nd - 1) with (Z.succ (nd - 1)) by lia.
      replace (1 + nd) with (Z.succ nd) by lia.
      rewrite !Z.pow_succ_r by lia. lia.
Qed.

Lemma ndigits_spec m : 0 < m -> 1 <= ndigits m /\ 10 ^ (ndigits m - 1) <= m < 10 ^ ndigits m.
Proof.
  intros Hm. unfold ndigits. apply ndigits_fuel_spec.
  rewrite Nat2Z.inj_succ, Z2Nat.id by apply Z.log2_nonneg.
  pose proof (Z.log2_spec m Hm). lia.
Qed.

Lemma dscale_spec num den k :
  0 < num -> 0 < den ->
  0 < fst (dscale num den k) /\ 0 < snd (dscale num den k) /\
  (IZR (fst (dscale num den k)) / IZR (snd (dscale num den k)) = IZR num / IZR den * bpow radix2 k)%R.
Proof.
  intros Hn Hd. unfold dscale.
  assert (Hd' : (IZR den <> 0)%R) by (apply IZR_neq; lia).
  destruct (Z.leb_spec 0 k) as [Hk|Hk]; cbn [fst snd].
  - assert (0 < 2 ^ k) by (apply Z.pow_pos_nonneg; lia).
    split; [nia|split; [lia|]]. rewrite mult_IZR, IZR_pow2 by lia. field. exact Hd'.
  - assert (0 < 2 ^ (- k)) by (apply Z.pow_pos_nonneg; lia).
    split; [lia|split; [nia|]]. rewrite mult_IZR, IZR_pow2 by lia.
    replace k with (- (- k)) at 2 by lia. rewrite (bpow_opp radix2 (- k)). field.
    split; [apply Rgt_not_eq; apply bpow_gt_0|exact Hd'].
Qed.

Lemma log2_bpow n : 0 < n -> (bpow radix2 (Z.log2 n) <= IZR n < bpow radix2 (Z.log2 n + 1))%R.
Proof.
  intros Hn. pose proof (Z.log2_spec n Hn) as [H1 H2]. pose proof (Z.log2_nonneg n).
  rewrite <- !IZR_pow2 by lia. split; [apply IZR_le; exact H1|apply IZR_lt; exact H2].
Qed.

(* the quotient lies strictly between 2^(l-1) and 2^(l+1), l = log2 num - log2 den *)
Lemma ratio_bounds num den :
  0 < num -> 0 < den ->
  let l := Z.log2 num - Z.log2 den in
  (bpow radix2 (l - 1) < IZR num / IZR den < bpow radix2 (l + 1))%R.
Proof.
  intros Hn Hd l.
  pose proof (log2_bpow num Hn) as [N1 N2]. pose proof (log2_bpow den Hd) as [D1 D2].
  assert (HD : (0 < IZR den)%R) by (apply IZR_lt; lia).
  replace (Z.log2 num) with ((l - 1) + (Z.log2 den + 1)) in N1 by (unfold l; lia).
  replace (Z.log2 num + 1) with ((l + 1) + Z.log2 den) in N2 by (unfold l; lia).
  rewrite bpow_plus in N1, N2.
  pose proof (bpow_gt_0 radix2 (l - 1)) as P1. pose proof (bpow_gt_0 radix2 (l + 1)) as P2.
  split.
  - apply Rmult_lt_reg_r with (IZR den); [exact HD|]. unfold Rdiv. rewrite Rmult_assoc, Rinv_l, Rmult_1_r by lra.
    apply Rlt_le_trans with (bpow radix2 (l - 1) * bpow radix2 (Z.log2 den + 1))%R; [|exact N1].
    apply Rmult_lt_compat_l; assumption.
  - apply Rmult_lt_reg_r with (IZR den); [exact HD|]. unfold Rdiv. rewrite Rmult_assoc, Rinv_l, Rmult_1_r by lra.
    apply Rlt_le_trans with (1 := N2). apply Rmult_le_compat_l; [lra|exact D1].
Qed.

Lemma dq_floor num den k :
  0 < num -> 0 < den -> dq num den k = Zfloor (IZR num / IZR den * bpow radix2 k).
Proof.
  intros Hn Hd. destruct (dscale_spec num den k Hn Hd) as [H1 [H2 H3]].
  rewrite <- H3. unfold dq. destruct (dscale num den k) as [n d]; cbn [fst snd] in *.
  rewrite Zfloor_div by lia. reflexivity.
Qed.

Lemma dk1_spec num den :
  0 < num -> 0 < den ->
  (bpow radix2 52 <= IZR num / IZR den * bpow radix2 (dk1 num den) < bpow radix2 53)%R.
Proof.
  intros Hn Hd. unfold dk1. rewrite (dq_floor num den _ Hn Hd).
  pose proof (ratio_bounds num den Hn Hd) as [B1 B2]. cbv zeta in B1, B2.
  set (l := Z.log2 num - Z.log2 den) in *. set (x := (IZR num / IZR den)%R) in *.
  set (k0 := 52 - l).
  assert (R0 : (bpow radix2 51 < x * bpow radix2 k0 < bpow radix2 53)%R).
  { replace 51 with ((l - 1) + k0) by (unfold k0; lia). replace 53 with ((l + 1) + k0) by (unfold k0; lia).
    rewrite (bpow_plus radix2 (l - 1) k0), (bpow_plus radix2 (l + 1) k0). split; apply Rmult_lt_compat_r; try apply bpow_gt_0; assumption. }
  set (y := (x * bpow radix2 k0)%R) in *.
  pose proof (Zfloor_lb y) as F1. pose proof (Zfloor_ub y) as F2.
  change (2 ^ 52) with P52. change (2 ^ 53) with P53.
  destruct (Z.ltb_spec (Zfloor y) P52) as [Hlt|Hge].
  - replace (x * bpow radix2 (k0 + 1))%R with (y * 2)%R
      by (unfold y; rewrite bpow_plus; change (bpow radix2 1) with 2%R; ring).
    assert (y < bpow radix2 52)%R.
    { rewrite bpow52. fold P52. apply Rlt_le_trans with (1 := F2). rewrite <- plus_IZR. apply IZR_le. lia. }
    assert (E53 : bpow radix2 53 = (bpow radix2 52 * 2)%R) by (change 53 with (52 + 1); rewrite bpow_plus; reflexivity).
    assert (E52 : bpow radix2 52 = (bpow radix2 51 * 2)%R) by (change 52 with (51 + 1); rewrite bpow_plus; reflexivity).
    lra.
  - destruct (Z.leb_spec P53 (Zfloor y)) as [Hbig|Hok].
    + exfalso. apply IZR_le in Hbig. change (IZR P53) with (bpow radix2 53) in Hbig. lra.
    + fold y. split; [|apply R0]. apply IZR_le in Hge. change (IZR P52) with (bpow radix2 52) in Hge. lra.
Qed.

Lemma div_ge_inv n d c : 0 < d -> (IZR c <= IZR n / IZR d)%R -> c * d <= n.
Proof.
  intros Hd H. assert (Hd' : (0 < IZR d)%R) by (apply IZR_lt; lia).
  apply le_IZR. rewrite mult_IZR.
  apply Rmult_le_compat_r with (r := IZR d) in H; [|lra].
  unfold Rdiv in H. rewrite Rmult_assoc, Rinv_l, Rmult_1_r in H by lra. exact H.
Qed.
Lemma div_lt_inv n d c : 0 < d -> (IZR n / IZR d < IZR c)%R -> n < c * d.
Proof.
  intros Hd H. assert (Hd' : (0 < IZR d)%R) by (apply IZR_lt; lia).
  apply lt_IZR. rewrite mult_IZR.
  apply Rmult_lt_compat_r with (r := IZR d) in H; [|lra].
  unfold Rdiv in H. rewrite Rmult_assoc, Rinv_l, Rmult_1_r in H by lra. exact H.
Qed.

Lemma IZR_pow10 e : 0 <= e -> IZR (10 ^ e) = bpow radix10 e.
Proof. intros H. rewrite <- IZR_Zpower by exact H. reflexivity. Qed.

Lemma dvalue m10 e10 :
  0 < m10 ->
  0 < dnum m10 e10 /\ 0 < dden e10 /\
  F2R (Float radix10 m10 e10) = (IZR (dnum m10 e10) / IZR (dden e10))%R.
Proof.
  intros Hm. unfold dnum, dden, F2R; cbn [Fnum Fexp].
  destruct (Z.leb_spec 0 e10) as [He|He].
  - assert (0 < 10 ^ e10) by (apply Z.pow_pos_nonneg; lia).
    split; [nia|split; [lia|]]. rewrite mult_IZR, IZR_pow10 by lia. unfold Rdiv. rewrite Rinv_1. ring.
  - assert (0 < 10 ^ (- e10)) by (apply Z.pow_pos_nonneg; lia).
    split; [lia|split; [lia|]]. rewrite IZR_pow10 by lia.
    replace e10 with (- (- e10)) at 1 by lia. rewrite (bpow_opp radix10 (- e10)). reflexivity.
Qed.

Lemma round_dec_pos_is_rounding s m10 e10 :
  0 < m10 -> is_rounding s (F2R (Float radix10 m10 e10)) (sgn s + round_dec_pos m10 e10).
Proof.
  intros Hm. rewrite round_dec_pos_unfold by lia. cbv zeta.
  destruct (dvalue m10 e10 Hm) as [Hn [Hd Hx]]. rewrite Hx.
  set (num := dnum m10 e10) in *. set (den := dden e10) in *. clearbody num den.
  pose proof (dk1_spec num den Hn Hd) as [K1 K2].
  set (k1 := dk1 num den) in *. clearbody k1.
  set (k := Z.min k1 1074).
  destruct (dscale_spec num den k Hn Hd) as [S1 [S2 S3]].
  destruct (dscale num den k) as [n d]. cbn [fst snd] in *.
  set (x := (IZR num / IZR den)%R) in *.
  apply (is_rounding_pack s _ _ n d k); try assumption; try reflexivity; [lia| |].
  - destruct (Z.le_gt_cases k1 1074) as [Hle|Hgt].
    + left. replace k with k1 in S3 by lia. rewrite <- S3 in K1, K2.
      split; [apply div_ge_inv|apply div_lt_inv]; assumption.
    + right. split; [lia|]. apply div_lt_inv; [lia|]. rewrite S3. change (IZR (2 ^ 52)) with (bpow radix2 52).
      replace k with (k1 + (k - k1)) by lia. rewrite bpow_plus, <- Rmult_assoc.
      apply Rlt_le_trans with (bpow radix2 53 * bpow radix2 (k - k1))%R.
      * apply Rmult_lt_compat_r; [apply bpow_gt_0|exact K2].
      * rewrite <- bpow_plus. apply bpow_le. lia.
  - rewrite S3, Rmult_assoc, <- bpow_plus. replace (k + - k) with 0 by lia. cbn [bpow]. ring.
Qed.

Lemma fexp64_valid : Valid_exp fexp64.
Proof. apply FLT_exp_valid. reflexivity. Qed.

Lemma huge_rounds_to_inf x : (bpow radix10 400 <= x)%R -> (bpow radix2 1024 <= rndNE x)%R.
Proof.
  intros H. apply round_ge_generic; [apply fexp64_valid|apply valid_rnd_N| |].
  - apply generic_format_bpow. unfold FLT_exp. lia.
  - apply Rle_trans with (2 := H). change (bpow radix2 1024) with (IZR (2 ^ 1024)).
    change (bpow radix10 400) with (IZR (10 ^ 400)). apply IZR_le. apply Z.leb_le. vm_compute. reflexivity.
Qed.

Lemma tiny_rounds_to_zero x : (0 <= x < bpow radix10 (-401))%R -> rndNE x = 0%R.
Proof.
  intros [H0 H]. apply Rle_antisym.
  - rewrite <- (round_N_small_pos radix2 fexp64 (fun z => negb (Z.even z)) (bpow radix2 (-1076)) (-1075)).
    + apply round_le; [apply fexp64_valid|apply valid_rnd_N|].
      apply Rle_trans with (1 := Rlt_le _ _ H).
      change (-401) with (- (401)). change (-1076) with (- (1076)). rewrite !bpow_opp.
      apply Rinv_le_contravar; [apply bpow_gt_0|].
      change (bpow radix2 1076) with (IZR (2 ^ 1076)). change (bpow radix10 401) with (IZR (10 ^ 401)).
      apply IZR_le. apply Z.leb_le. vm_compute. reflexivity.
    + split; [apply Rle_refl|apply bpow_lt; lia].
    + reflexivity.
  - apply round_ge_generic; [apply fexp64_valid|apply valid_rnd_N|apply generic_format_0|exact H0].
Qed.

(* Statement 2, master form: for every sign, decimal mantissa m10 >= 0 and decimal exponent e10, the pattern computed by the
   decimal reader denotes the binary64 round-to-nearest-even of +-m10 * 10^e10, and is the infinity of that sign exactly
   when that rounding (taken with unbounded exponent range) reaches 2^1024 *)
Theorem round_dec_is_rounding neg m10 e10 :
  0 <= m10 -> is_rounding neg (F2R (Float radix10 m10 e10)) (Z.of_N (round_dec neg m10 e10)).
Proof.
  intros Hm. unfold round_dec.
  assert (Hmag : forall mag, 0 <= mag -> Z.of_N (Z.to_N (if neg then 2 ^ 63 + mag else mag)) = sgn neg + mag).
  { intros mag Hmag. unfold sgn. change (2 ^ 63) with 9223372036854775808. destruct neg; lia. }
  destruct (Z.eqb_spec m10 0) as [->|Hnz].
  - rewrite Hmag by lia. rewrite Z.add_0_r. apply is_rounding_zero. rewrite F2R_0. apply round_0. apply valid_rnd_N.
  - assert (Hpos : 0 < m10) by lia.
    destruct (ndigits_spec m10 Hpos) as [N1 [N2 N3]]. set (nd := ndigits m10) in *. clearbody nd.
    assert (Hx : (bpow radix10 (nd - 1 + e10) <= F2R (Float radix10 m10 e10) < bpow radix10 (nd + e10))%R).
    { unfold F2R; cbn [Fnum Fexp]. rewrite (bpow_plus radix10 (nd - 1) e10), (bpow_plus radix10 nd e10), <- (IZR_pow10 (nd - 1)), <- (IZR_pow10 nd) by lia.
      split; [apply Rmult_le_compat_r; [apply bpow_ge_0|apply IZR_le; exact N2]
             |apply Rmult_lt_compat_r; [apply bpow_gt_0|apply IZR_lt; exact N3]]. }
    destruct (Z.ltb_spec 400 (e10 + nd)) as [Hbig|Hnb].
    + rewrite Hmag by (change (2 ^ 52) with P52; rewrite P52_eq; lia).
      change (2 ^ 52) with P52. apply is_rounding_inf. apply huge_rounds_to_inf.
      apply Rle_trans with (2 := proj1 Hx). apply bpow_le. lia.
    + destruct (Z.ltb_spec (e10 + nd) (-400)) as [Hsmall|Hns].
      * rewrite Hmag by lia. rewrite Z.add_0_r. apply is_rounding_zero. apply tiny_rounds_to_zero.
        split.
        -- apply Rle_trans with (2 := proj1 Hx). apply bpow_ge_0.
        -- apply Rlt_le_trans with (1 := proj2 Hx). apply bpow_le. lia.
      * pose proof (round_dec_pos_is_rounding neg m10 e10 Hpos) as H.
        assert (H0 : 0 <= round_dec_pos m10 e10).
        { clear H.
          rewrite round_dec_pos_unfold by lia. cbv zeta.
          destruct (dvalue m10 e10 Hpos) as [Hn [Hd _]].
          destruct (dscale_spec (dnum m10 e10) (dden e10) (Z.min (dk1 (dnum m10 e10) (dden e10)) 1074) Hn Hd) as [S1 [S2 _]].
          destruct (dscale _ _ _) as [n d]. cbn [fst snd] in *.
          assert (0 <= rne_q n d) by (apply rne_q_ge; lia).
          unfold pack_pos. change (2 ^ 52) with P52. change (2 ^ 53) with P53.
          pose proof P52_eq. pose proof P53_eq.
          destruct (_ =? P53); destruct (_ <? P52); try destruct (2047 <=? _); lia. }
        rewrite Hmag by exact H0. exact H.
Qed.

(* the same, spelled out (the shape of Flocq's binary_normalize_correct / Bdiv_correct) *)
Theorem round_dec_is_nearest_even neg m10 e10 :
  0 <= m10 ->
  let x := F2R (Float radix10 (cond_Zopp neg m10) e10) in
  let r := round radix2 (FLT_exp (-1074) 53) ZnearestE x in
  let f := b64_of_bits (Z.of_N (round_dec neg m10 e10)) in
  if Rlt_bool (Rabs r) (bpow radix2 1024)
  then B2R 53 1024 f = r /\ is_finite 53 1024 f = true /\ Bsign 53 1024 f = neg
  else f = B754_infinity 53 1024 neg.
Proof.
  intros Hm x r f. destruct (round_dec_is_rounding neg m10 e10 Hm) as [_ H].
  unfold r, x. rewrite F2R_cond_Zopp. exact H.
Qed.

(* Statement 2 for non-negative decimal exponents: +-m10 * 10^e10 is an integer, and the reader returns exactly what Flocq's
   binary_normalize (mode_NE) makes of that integer -- including the overflow to the infinities, for every m10 and e10 *)
Theorem round_dec_is_flocq_binary_normalize neg m10 e10 :
  0 <= m10 -> 0 <= e10 ->
  Z.of_N (round_dec neg m10 e10) =
  bits_of_b64 (binary_normalize 53 1024 eq_refl eq_refl mode_NE (cond_Zopp neg m10 * 10 ^ e10) 0 neg).
Proof.
  intros Hm He. destruct (Z.eq_dec m10 0) as [->|Hnz].
  - replace (cond_Zopp neg 0 * 10 ^ e10) with 0 by (destruct neg; cbn [cond_Zopp]; lia).
    destruct neg; reflexivity.
  - assert (Hp : 0 < 10 ^ e10) by (apply Z.pow_pos_nonneg; lia).
    set (z := cond_Zopp neg m10 * 10 ^ e10).
    assert (Hs : (z <? 0) = neg) by (unfold z; destruct neg; cbn [cond_Zopp]; nia).
    symmetry. apply (normalize_of_is_rounding z 0 neg (F2R (Float radix10 m10 e10))).
    + unfold z; destruct neg; cbn [cond_Zopp]; nia.
    + rewrite Hs. unfold z, F2R; cbn [Fnum Fexp]. rewrite mult_IZR, IZR_pow10 by lia. cbn [bpow].
      destruct neg; cbn [cond_Zopp cond_Ropp]; rewrite ?opp_IZR; ring.
    + rewrite Hs. apply round_dec_is_rounding. exact Hm.
Qed.

Example round_dec_examples :
  round_dec false 1 0 = 4607182418800017408%N (* 1.0 *) /\
  round_dec true 0 0 = 9223372036854775808%N (* -0.0 *) /\
  round_dec false 1 (-1) = 4591870180066957722%N (* 0.1 = 0x3FB999999999999A *) /\
  round_dec false 9007199254740993 0 = 4845873199050653696%N (* 2^53+1 ties to even 2^53 *) /\
  round_dec false 17976931348623157 292 = 9218868437227405311%N (* f64::MAX *) /\
  round_dec false 2 308 = 9218868437227405312%N (* overflow: +inf *) /\
  round_dec false 49406564584124654 (-340) = 1%N (* 4.94e-324: the smallest subnormal *) /\
  round_dec false 2 (-324) = 0%N (* below half of it: 0.0 *).
Proof. vm_compute. repeat split. Qed.

(* ---------- the model's reading of a bit pattern (Num.f_ext, on which the order of numbers is defined) is Flocq's ---------- *)
Lemma b64_of_bits_aux x :
  exists pf, b64_of_bits x = FF2B 53 1024 (binary_float_of_bits_aux 52 11 x) pf.
Proof. unfold b64_of_bits, binary_float_of_bits. eexists. reflexivity. Qed.

Lemma f_ext_aux (b : N) :
  let ff := binary_float_of_bits_aux 52 11 (Z.of_N b) in
  sign_FF ff = f_sign b /\
  match f_ext b with
  | ENaN => is_nan_FF ff = true
  | EPosInf => ff = F754_infinity false
  | ENegInf => ff = F754_infinity true
  | EFin z => is_finite_FF ff = true /\ FF2R radix2 ff = (IZR z * bpow radix2 (-1074))%R
  end.
Proof.
  cbv zeta.
  unfold f_ext, f_is_nan, f_is_inf, f_scaled, f_sign.
  unfold binary_float_of_bits_aux, split_bits.
  change (2 ^ 52 * 2 ^ 11) with 9223372036854775808. change (2 ^ 11 - 1) with 2047.
  change (2 ^ 11) with 2048. change (2 ^ 52) with P52.
  change (SpecFloat.emin (52 + 1) (2 ^ (11 - 1))) with (-1074).
  assert (He : Z.of_N (f_exp b) = (Z.of_N b / P52) mod 2048).
  { unfold f_exp. rewrite N2Z.inj_mod, N2Z.inj_div. reflexivity. }
  assert (Hm : Z.of_N (f_man b) = Z.of_N b mod P52).
  { unfold f_man. rewrite N2Z.inj_mod. reflexivity. }
  assert (Hs : (9223372036854775808 <=? b)%N = (9223372036854775808 <=? Z.of_N b)) by lia.
  rewrite <- He, <- Hm, Hs.
  assert (Hmr : 0 <= Z.of_N (f_man b) < P52) by (rewrite Hm; apply Z.mod_pos_bound; reflexivity).
  assert (Her : 0 <= Z.of_N (f_exp b) < 2048) by (rewrite He; apply Z.mod_pos_bound; reflexivity).
  set (eN := f_exp b) in *. set (mN := f_man b) in *. set (sx := 9223372036854775808 <=? Z.of_N b) in *.
  clearbody eN mN sx. clear He Hm Hs.
  assert (HP : P52 = 4503599627370496) by reflexivity.
  destruct (N.eqb_spec eN 0) as [E0|E0].
  - (* zero and subnormal *)
    subst eN. change (Zeq_bool (Z.of_N 0) 0) with true. cbn [N.eqb andb].
    destruct (Z.of_N mN) as [|px|px] eqn:Em; [| |lia].
    + split; [reflexivity|split; [reflexivity|]]. cbn [FF2R]. destruct sx; cbn; ring.
    + split; [reflexivity|split; [reflexivity|]]. cbn [FF2R]. unfold F2R; cbn [Fnum Fexp].
      destruct sx; cbn [cond_Zopp]; reflexivity.
  - replace (Zeq_bool (Z.of_N eN) 0) with false by (symmetry; apply Zeq_bool_false; lia).
    destruct (N.eqb_spec eN 2047) as [E1|E1].
    + subst eN. change (Zeq_bool (Z.of_N 2047) 2047) with true. cbn [andb].
      destruct (N.eqb_spec mN 0) as [M0|M0]; cbn [negb].
      * subst mN. cbn [Z.of_N] in *. cbn [sign_FF]. destruct sx; split; reflexivity.
      * destruct (Z.of_N mN) as [|px|px] eqn:Em; [lia| |lia]. split; reflexivity.
    + replace (Zeq_bool (Z.of_N eN) 2047) with false by (symmetry; apply Zeq_bool_false; lia).
      cbn [andb]. replace (eN =? 0)%N with false by lia.
      destruct (Z.of_N mN + P52) as [|px|px] eqn:Em; [lia| |lia].
      split; [reflexivity|split; [reflexivity|]]. cbn [FF2R]. unfold F2R; cbn [Fnum Fexp].
      assert (Hv : IZR (Z.of_N (two52 + mN) * 2 ^ (Z.of_N eN - 1)) = (IZR (Z.pos px) * bpow radix2 (Z.of_N eN - 1))%R).
      { rewrite mult_IZR, IZR_pow2 by lia. rewrite <- Em. f_equal. f_equal. unfold two52. lia. }
      replace (Z.of_N eN + -1074 - 1) with ((Z.of_N eN - 1) + -1074) by lia. rewrite bpow_plus.
      destruct sx; cbn [cond_Zopp]; rewrite ?opp_IZR, Hv; ring.
Qed.

Theorem f_ext_is_flocq (b : N) :
  let f := b64_of_bits (Z.of_N b) in
  Bsign 53 1024 f = f_sign b /\
  match f_ext b with
  | ENaN => is_nan 53 1024 f = true
  | EPosInf => f = B754_infinity 53 1024 false
  | ENegInf => f = B754_infinity 53 1024 true
  | EFin z => is_finite 53 1024 f = true /\ B2R 53 1024 f = (IZR z * bpow radix2 (-1074))%R
  end.
Proof.
  intros f. destruct (b64_of_bits_aux (Z.of_N b)) as [pf Hf]. unfold f. rewrite Hf. clear f Hf.
  pose proof (f_ext_aux b) as [H1 H2]. cbv zeta in H1, H2.
  assert (Hinf : forall s, binary_float_of_bits_aux 52 11 (Z.of_N b) = F754_infinity s ->
                 FF2B 53 1024 (binary_float_of_bits_aux 52 11 (Z.of_N b)) pf = B754_infinity 53 1024 s).
  { intros s H. rewrite <- (B2FF_FF2B 53 1024 _ pf) in H.
    destruct (FF2B _ _ _ _); try discriminate H. cbn in H. congruence. }
  rewrite Bsign_FF2B, is_nan_FF2B, is_finite_FF2B, B2R_FF2B.
  split; [exact H1|]. destruct (f_ext b); auto.
Qed.

(* the real number a model number denotes: an integer, or Flocq's B2R of the Float64 pattern *)
Definition num_R (x : num) : R :=
  match x with
  | NInt z => IZR z
  | NUInt n => IZR (Z.of_N n)
  | NFloat b => B2R 53 1024 (b64_of_bits (Z.of_N b))
  end.

(* the line on which Num.num_cmp compares (Num.scaled: value * 2^1074) carries that real number *)
Theorem scaled_is_real_value x v : scaled x = EFin v -> num_R x = (IZR v * bpow radix2 (-1074))%R.
Proof.
  assert (H2 : (IZR two1074 * bpow radix2 (-1074) = 1)%R).
  { change (IZR two1074) with (bpow radix2 1074). rewrite <- bpow_plus. reflexivity. }
  destruct x as [z|n|b]; cbn [scaled num_R]; intros H.
  - injection H as <-. rewrite mult_IZR, Rmult_assoc, H2. ring.
  - injection H as <-. rewrite mult_IZR, Rmult_assoc, H2. ring.
  - pose proof (f_ext_is_flocq b) as [_ Hb]. cbv zeta in Hb. rewrite H in Hb. apply Hb.
Qed.

(* hence the order of numbers (C18) is the order of the real numbers they denote, whenever both are finite *)
Theorem num_cmp_is_real_order a b va vb :
  scaled a = EFin va -> scaled b = EFin vb -> num_cmp a b = Rcompare (num_R a) (num_R b).
Proof.
  intros Ha Hb. rewrite (scaled_is_real_value a va Ha), (scaled_is_real_value b vb Hb).
  rewrite Rcompare_mult_r by apply bpow_gt_0. rewrite Rcompare_IZR.
  unfold num_cmp. rewrite Ha, Hb. reflexivity.
Qed.

(* ---------- Flocq's binary_normalize under mode_NE is the standard library's SpecFloat.binary_normalize ---------- *)
(* (SpecFloatLink.v proves Statement 1 against the latter without any axiom; this is the bridge between the two.) *)
From JB Require SpecFloatLink.
From Flocq Require Calc.Round.

Lemma flocq_round_aux_NE prec emax s m e l :
  BinarySingleNaN.binary_round_aux prec emax mode_NE s m e l = SpecFloat.binary_round_aux prec emax s m e l.
Proof.
  unfold BinarySingleNaN.binary_round_aux, SpecFloat.binary_round_aux.
  destruct (SpecFloat.shr_fexp prec emax m e l) as [mrs' e'].
  assert (Hc : forall mx lx, choice_mode mode_NE s mx lx = SpecFloat.round_nearest_even mx lx).
  { intros mx lx. unfold choice_mode, Round.cond_incr, Round.round_N, SpecFloat.round_nearest_even.
    destruct lx as [|[| |]]; try reflexivity. destruct (Z.even mx); reflexivity. }
  rewrite Hc. destruct (SpecFloat.shr_fexp prec emax _ e' SpecFloat.loc_Exact) as [mrs'' e''].
  destruct (SpecFloat.shr_m mrs''); reflexivity.
Qed.

Theorem flocq_binary_normalize_is_specfloat m e szero :
  BinarySingleNaN.B2SF (BinarySingleNaN.binary_normalize 53 1024 eq_refl eq_refl mode_NE m e szero) =
  SpecFloat.binary_normalize 53 1024 m e szero.
Proof.
  unfold BinarySingleNaN.binary_normalize, SpecFloat.binary_normalize.
  destruct m as [|p|p]; [reflexivity| |]; rewrite BinarySingleNaN.B2SF_SF2B;
    unfold BinarySingleNaN.binary_round, SpecFloat.binary_round, BinarySingleNaN.shl_align_fexp;
    destruct (SpecFloat.shl_align _ _ _) as [mz ez]; apply flocq_round_aux_NE.
Qed.

Lemma bits_of_b64_SF f :
  is_nan 53 1024 f = false -> bits_of_b64 f = SpecFloatLink.bits_of_SF64 (B2SF 53 1024 f).
Proof.
  destruct f as [s|s|s pl pf|s m e pf]; intros Hn; try discriminate Hn;
    unfold bits_of_b64, bits_of_binary_float, join_bits, SpecFloatLink.bits_of_SF64; cbn [B2SF];
    rewrite ?Z.shiftl_mul_pow2 by lia; try reflexivity.
  change (SpecFloat.emin (52 + 1) (2 ^ (11 - 1))) with (-1074).
  destruct (0 <=? Z.pos m - 2 ^ 52); [f_equal; f_equal; lia|reflexivity].
Qed.

Theorem flocq_normalize_bits_specfloat z e szero :
  bits_of_b64 (binary_normalize 53 1024 eq_refl eq_refl mode_NE z e szero) =
  SpecFloatLink.bits_of_SF64 (SpecFloat.binary_normalize 53 1024 z e szero).
Proof.
  rewrite bits_of_b64_SF by apply is_nan_BSN2B'.
  rewrite <- B2SF_B2BSN. unfold binary_normalize. rewrite B2BSN_BSN2B'.
  rewrite flocq_binary_normalize_is_specfloat. reflexivity.
Qed.

(* second, independent derivation of Statement 1 from the axiom-free SpecFloatLink.round_ne_is_specfloat *)
Corollary round_ne_is_flocq_binary_normalize_via_specfloat z :
  - 2 ^ 63 <= z < 2 ^ 64 ->
  Z.of_N (round_ne z) = bits_of_b64 (binary_normalize 53 1024 eq_refl eq_refl mode_NE z 0 false).
Proof.
  intros Hz. rewrite flocq_normalize_bits_specfloat. symmetry. apply SpecFloatLink.round_ne_is_specfloat. exact Hz.
Qed.

(* the way the readers call it (JsonText.parse_number, PathParse, Dispatch): integer digits ids, fraction digits fds, exponent e;
   the mantissa read from ASCII digits is never negative, so the theorem applies to every literal *)
Lemma digits_val_nonneg ds :
  Forall (fun d => (48 <= d)%N) ds -> forall acc, 0 <= acc -> 0 <= digits_val ds acc.
Proof.
  induction 1 as [|d ds Hd _ IH]; intros acc Hacc; cbn [digits_val]; [exact Hacc|].
  apply IH. lia.
Qed.

Theorem decimal_literal_is_nearest_even neg ids fds e :
  Forall (fun d => (48 <= d)%N) ids -> Forall (fun d => (48 <= d)%N) fds ->
  let m10 := digits_val fds (digits_val ids 0) in
  let e10 := e - Z.of_nat (length fds) in
  let r := round radix2 (FLT_exp (-1074) 53) ZnearestE (F2R (Float radix10 (cond_Zopp neg m10) e10)) in
  let f := b64_of_bits (Z.of_N (round_dec neg m10 e10)) in
  if Rlt_bool (Rabs r) (bpow radix2 1024)
  then B2R 53 1024 f = r /\ is_finite 53 1024 f = true /\ Bsign 53 1024 f = neg
  else f = B754_infinity 53 1024 neg.
Proof.
  intros Hi Hf m10 e10. apply round_dec_is_nearest_even.
  apply digits_val_nonneg; [exact Hf|]. apply digits_val_nonneg; [exact Hi|lia].
Qed.
