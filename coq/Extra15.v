(* C15: the selection modes agree on FAILURE too.  Whether select fails (and with which error, or with a panic of the
   model) is decided by the path evaluation alone, before the mode and the caller's buffer are looked at. *)
From Coq Require Import List NArith ZArith Bool Lia.
Import ListNotations.
From JB Require Import Constants Bytes Num Value Codec TreeOps Path PathSem ModeProofs SelWalk SelWalkProofs.
Open Scope N_scope.
Set Default Timeout 30.

(* the outcome class of a result: which error, or panic, or success *)
Definition failure {A} (r : res A) : option (option err) :=
  match r with Ok _ => None | Err e => Some (Some e) | Panic => Some None end.

Lemma select_t_failure root ps m buf :
  failure (select_t root ps m buf) = failure (find_positions root None ps).
Proof.
  unfold select_t. destruct (find_positions root None ps) as [items|e|]; cbn [bind failure]; try reflexivity.
  destruct (is_predicate ps); reflexivity.
Qed.

Theorem select_t_modes_agree_on_errors root ps m m' buf buf' :
  (forall e, select_t root ps m buf = Err e -> select_t root ps m' buf' = Err e) /\
  (select_t root ps m buf = Panic -> select_t root ps m' buf' = Panic) /\
  (forall r, select_t root ps m buf = Ok r -> exists r', select_t root ps m' buf' = Ok r').
Proof.
  pose proof (select_t_failure root ps m buf) as F1. pose proof (select_t_failure root ps m' buf') as F2.
  rewrite <- F1 in F2. clear F1.
  destruct (select_t root ps m buf) as [r|e|], (select_t root ps m' buf') as [r'|e'|]; cbn [failure] in F2; try discriminate.
  - repeat split; try discriminate. intros r0 _. exists r'. reflexivity.
  - injection F2 as ->. repeat split; try discriminate. intros e0 H. exact H.
  - repeat split; discriminate.
Qed.

(* the same for the selector on the bytes of a valid document *)
Theorem select_w_modes_agree_on_errors v ps m m' buf buf' : wfb v = true ->
  (forall e, select_w (enc v) ps m buf = Err e -> select_w (enc v) ps m' buf' = Err e) /\
  (select_w (enc v) ps m buf = Panic -> select_w (enc v) ps m' buf' = Panic) /\
  (forall r, select_w (enc v) ps m buf = Ok r -> exists r', select_w (enc v) ps m' buf' = Ok r').
Proof. intros W. rewrite !(select_w_enc v ps _ _ W). apply select_t_modes_agree_on_errors. Qed.

(* exists_path / the predicate form fail exactly when select does (exists answers true for a predicate path without
   evaluating it, so only the non-predicate direction is an equivalence) *)
Theorem exists_t_fails_with_select root ps m buf : is_predicate ps = false ->
  failure (exists_t root ps) = failure (select_t root ps m buf).
Proof.
  intros Hp. rewrite select_t_failure. unfold exists_t. rewrite Hp.
  destruct (find_positions root None ps); reflexivity.
Qed.

(* not vacuous: a filter whose expression is not a condition fails with the same error in every mode, at tree and byte
   level; a path starting at `@` outside a filter is a panic of the selector in every mode *)
Example modes_agree_on_errors_example :
  let d := VArr [VNum (NUInt 1)] in
  map (fun m => select_t d [PRoot; PBracketWild; PFilter (EPaths [])] m [7]) [MAll; MFirst; MArray; MMixed] = repeat (Err EOther) 4 /\
  map (fun m => select_w (enc d) [PRoot; PBracketWild; PFilter (EPaths [])] m []) [MAll; MFirst; MArray; MMixed] = repeat (Err EOther) 4 /\
  map (fun m => select_w (enc d) [PCurrent] m []) [MAll; MFirst; MArray; MMixed] = repeat Panic 4.
Proof. vm_compute. repeat split. Qed.
