(* KeyPathGrammarProofs.v — the key-path parser model (PathParse.parse_key_paths) accepts exactly the language of
   KeyPathGrammar.v, with its meaning:
     completeness  kp_text t ks -> parse_key_paths t = Ok ks
     soundness     parse_key_paths t = Ok ks -> kp_text t ks
   Layout: spacing, signed integers, the scanner shared by `string` and `raw_string`, quoted names, bare names,
   one element, the list, top level.  The scanner / name / integer parts are reused by PathGrammarProofs.v. *)
From Coq Require Import List NArith ZArith Bool Lia.
Import ListNotations.
From JB Require Import Constants Bytes Utf8 Num Value Decimal JsonText TreeOps Path PathParse TextProofs TextRoundtrip
  PathParseProofs KeyPathRoundtrip JsonGrammar JsonGrammarProofs KeyPathGrammar.
Open Scope N_scope.
Set Default Timeout 60.

(* ================================================================== spacing *)
Definition nsp (rest : list N) : Prop := match rest with [] => True | c :: _ => is_space c = false end.

Lemma pws_cons_space c w : is_space c = true -> pws w -> pws (c :: w).
Proof.
  unfold is_space. intros H Hw. apply RWS_char; [|exact Hw].
  repeat (apply orb_true_iff in H; destruct H as [H|H]); apply N.eqb_eq in H; subst c; tauto.
Qed.
Lemma multispace0_pws w : pws w -> forall rest, nsp rest -> multispace0 (w ++ rest) = rest.
Proof.
  induction 1 as [|c w Hc Hw IH]; intros rest Hr.
  - cbn [app]. destruct rest as [|c r]; [reflexivity|]. cbn [multispace0]. cbn [nsp] in Hr. rewrite Hr. reflexivity.
  - cbn [app multispace0]. replace (is_space c) with true by (destruct Hc as [->|[->|[->| ->]]]; reflexivity). apply IH. exact Hr.
Qed.
Lemma multispace0_all w : pws w -> multispace0 w = [].
Proof. intros Hw. pose proof (multispace0_pws w Hw [] I) as E. rewrite app_nil_r in E. exact E. Qed.
Lemma multispace0_split bs : exists w, bs = w ++ multispace0 bs /\ pws w /\ nsp (multispace0 bs).
Proof.
  induction bs as [|c r IH]; [exists []; repeat split; constructor|].
  cbn [multispace0]. destruct (is_space c) eqn:Ec.
  - destruct IH as (w & E & Hw & Hn). exists (c :: w). split; [cbn [app]; rewrite <- E; reflexivity|]. split; [apply pws_cons_space; assumption|exact Hn].
  - exists []. split; [reflexivity|]. split; [constructor|exact Ec].
Qed.
Lemma multispace0_nil_pws bs : multispace0 bs = [] -> pws bs.
Proof. intros H. destruct (multispace0_split bs) as (w & E & Hw & _). rewrite H, app_nil_r in E. subst w. exact Hw. Qed.
Lemma pws_app w1 w2 : pws w1 -> pws w2 -> pws (w1 ++ w2).
Proof. unfold pws. induction 1 as [|c w Hc Hw IH]; intros H2; cbn [app]; [exact H2|apply RWS_char; [exact Hc|exact (IH H2)]]. Qed.

(* ================================================================== delimiters *)
Lemma is_delim_In c : is_delim c = true <-> name_delimiter c.
Proof.
  unfold is_delim, name_delimiter. rewrite existsb_exists. split.
  - intros (x & Hx & E). apply N.eqb_eq in E. subst x. exact Hx.
  - intros H. exists c. split; [exact H|apply N.eqb_refl].
Qed.
Lemma is_delim_false c : is_delim c = false <-> ~ name_delimiter c.
Proof. rewrite <- is_delim_In. destruct (is_delim c); split; intros H; try reflexivity; try discriminate; exfalso; apply H; reflexivity. Qed.
Lemma delim_backslash : is_delim 92 = false. Proof. vm_compute. reflexivity. Qed.
Ltac not_delim H := let X := fresh in intros X; subst; vm_compute in H; discriminate H.
Lemma nondelim_facts c : is_delim c = false -> c <> 34 /\ c <> 43 /\ c <> 45 /\ is_space c = false.
Proof.
  intros H. repeat split; try (not_delim H).
  unfold is_space. repeat (apply orb_false_iff; split); apply N.eqb_neq; not_delim H.
Qed.

(* ================================================================== signed integers *)
Lemma digits_digit_list ds : digits ds <-> digit_list ds. Proof. reflexivity. Qed.

Lemma int_digits_sound neg lo hi : forall bs acc any rest v,
  int_digits neg lo hi bs acc any = POk rest v ->
  exists ds, bs = ds ++ rest /\ digit_list ds /\ no_digit_next rest /\ (ds <> [] \/ any = true) /\
    v = (if neg then ndigits_val ds acc else digits_val ds acc) /\ ((lo <= acc <= hi)%Z -> (lo <= v <= hi)%Z).
Proof.
  induction bs as [|b r IH]; intros acc any rest v H; cbn [int_digits] in H.
  - destruct any; [|discriminate H]. injection H as <- <-. exists []. split; [reflexivity|]. split; [constructor|]. split; [exact I|].
    split; [right; reflexivity|]. split; [destruct neg; reflexivity|destruct neg; cbn [ndigits_val digits_val]; lia].
  - destruct (is_digit b) eqn:Eb.
    + cbv zeta in H.
      set (acc' := if neg then (acc * 10 - (Z.of_N b - 48))%Z else (acc * 10 + (Z.of_N b - 48))%Z) in *.
      destruct ((acc' <? lo) || (hi <? acc'))%Z eqn:Er; [discriminate H|].
      apply orb_false_iff in Er. destruct Er as [E1 E2]. apply Z.ltb_ge in E1. apply Z.ltb_ge in E2.
      destruct (IH _ _ _ _ H) as (ds & -> & Hd & Hn & _ & Hv & Hr).
      exists (b :: ds). split; [reflexivity|]. split; [constructor; assumption|]. split; [exact Hn|]. split; [left; discriminate|].
      split; [|intros _; apply Hr; lia].
      subst acc'. destruct neg; exact Hv.
    + destruct any; [|discriminate H]. injection H as <- <-. exists []. split; [reflexivity|]. split; [constructor|]. split; [exact Eb|].
      split; [right; reflexivity|]. split; [destruct neg; reflexivity|destruct neg; cbn [ndigits_val digits_val]; lia].
Qed.

Lemma pint_sound lo hi bs rest v : (lo <= 0 <= hi)%Z -> pint lo hi bs = POk rest v ->
  exists t, bs = t ++ rest /\ signed_int t v /\ (lo <= v <= hi)%Z /\ no_digit_next rest.
Proof.
  intros Hb H. unfold pint in H. destruct bs as [|c r].
  - cbn in H. discriminate H.
  - destruct (c =? 43) eqn:E43.
    + apply N.eqb_eq in E43. subst c. destruct (int_digits_sound _ _ _ _ _ _ _ _ H) as (ds & -> & Hd & Hn & [Hne|X] & Hv & Hr); [|discriminate X].
      exists (43 :: ds). split; [reflexivity|]. split; [subst v; apply X_SI_plus; assumption|]. split; [apply Hr; lia|exact Hn].
    + destruct (c =? 45) eqn:E45.
      * apply N.eqb_eq in E45. subst c. destruct (int_digits_sound _ _ _ _ _ _ _ _ H) as (ds & -> & Hd & Hn & [Hne|X] & Hv & Hr); [|discriminate X].
        exists (45 :: ds). split; [reflexivity|]. split; [|split; [apply Hr; lia|exact Hn]].
        subst v. change 0%Z with (- 0)%Z. rewrite ndigits_val_neg. apply SI_minus; assumption.
      * destruct (int_digits_sound _ _ _ _ _ _ _ _ H) as (ds & E & Hd & Hn & [Hne|X] & Hv & Hr); [|discriminate X].
        exists ds. split; [exact E|]. split; [subst v; apply SI_unsigned; assumption|]. split; [apply Hr; lia|exact Hn].
Qed.

Lemma digits_head ds : ds <> [] -> digits ds -> exists d r, ds = d :: r /\ is_digit d = true.
Proof. intros Hne Hd. destruct ds as [|d r]; [contradiction Hne; reflexivity|]. inversion Hd; subst. eauto. Qed.

Lemma pint_complete lo hi t v rest : (lo <= 0 <= hi)%Z -> signed_int t v -> (lo <= v <= hi)%Z -> no_digit_next rest ->
  pint lo hi (t ++ rest) = POk rest v.
Proof.
  intros Hb Hs Hv Hr. unfold pint. destruct Hs as [ds Hne Hd|ds Hne Hd|ds Hne Hd].
  - destruct (digits_head ds Hne Hd) as (d & r & -> & Hdd). destruct (digit_not_sign d Hdd) as [S1 S2].
    cbn [app]. rewrite S1, S2. change (d :: r ++ rest) with ((d :: r) ++ rest).
    apply int_digits_pos; try assumption; try lia. left; discriminate.
  - cbn [app]. change (45 =? 43) with false. change (45 =? 45) with true. cbv iota.
    change 0%Z with (- 0)%Z in Hv |- * at 2. rewrite <- ndigits_val_neg in Hv |- *.
    apply int_digits_neg; try assumption; try lia. left; exact Hne.
  - cbn [app]. change (43 =? 43) with true. cbv iota.
    apply int_digits_pos; try assumption; try lia. left; exact Hne.
Qed.

Lemma pint_nonstart lo hi c r : is_digit c = false -> c <> 43 -> c <> 45 -> pint lo hi (c :: r) = PErr.
Proof.
  intros Hd H1 H2. unfold pint. apply N.eqb_neq in H1. apply N.eqb_neq in H2. rewrite H1, H2. apply int_digits_nondigit. exact Hd.
Qed.
Lemma pint_nil lo hi : pint lo hi [] = PErr. Proof. reflexivity. Qed.

(* ================================================================== the scanner shared by `string` and `raw_string` *)
(* the token shapes the scanner steps over; a byte standing for itself is not a stop byte *)
Inductive nscanned (stop : N -> bool) : list N -> Prop :=
| ns_nil : nscanned stop []
| ns_plain c r : c <> 92 -> stop c = false -> nscanned stop r -> nscanned stop (c :: r)
| ns_short n r : n <> 117 -> nscanned stop r -> nscanned stop (92 :: n :: r)
| ns_u4 d r : length d = 4%nat -> hd 0 d <> 123 -> nscanned stop r -> nscanned stop (92 :: 117 :: d ++ r)
| ns_u6 d r : length d = 5%nat -> nscanned stop r -> nscanned stop (92 :: 117 :: 123 :: d ++ r).

Definition quote_stop (c : N) : bool := c =? 34.
Lemma scanned_nscanned b : scanned b -> nscanned quote_stop b.
Proof.
  induction 1; [constructor|apply ns_plain; [assumption|apply N.eqb_neq; assumption|assumption]
               |apply ns_short; assumption|apply ns_u4; assumption|apply ns_u6; assumption].
Qed.
Lemma nscanned_scanned stop b : (forall c, stop c = false -> c <> 34) -> nscanned stop b -> scanned b.
Proof.
  intros Hs. induction 1; [constructor|apply sc_plain; auto|apply sc_short; assumption|apply sc_u4; assumption|apply sc_u6; assumption].
Qed.

Lemma check_escaped_short n r : n <> 117 -> check_escaped (92 :: n :: r) = Some ([92; n], r).
Proof. intros H. apply N.eqb_neq in H. unfold check_escaped. rewrite H. reflexivity. Qed.
Lemma check_escaped_u4 a b c d r : a <> 123 -> check_escaped (92 :: 117 :: a :: b :: c :: d :: r) = Some ([92; 117; a; b; c; d], r).
Proof. intros H. apply N.eqb_neq in H. unfold check_escaped. change (117 =? 117) with true. cbv iota. rewrite H. reflexivity. Qed.
Lemma check_escaped_u6 a b c d e r :
  check_escaped (92 :: 117 :: 123 :: a :: b :: c :: d :: e :: r) = Some ([92; 117; 123; a; b; c; d; e], r).
Proof. reflexivity. Qed.

(* what follows the scanned text: the end of the input, or a stop byte *)
Definition stops (stop : N -> bool) (rest : list N) : Prop :=
  match rest with [] => True | c :: _ => stop c = true /\ c <> 92 end.
Definition stopped_flag (rest : list N) : bool := match rest with [] => false | _ :: _ => true end.

Lemma scan_name_complete stop body : nscanned stop body -> forall fuel acc esc rest, (length body < fuel)%nat -> stops stop rest ->
  exists k, scan_name fuel stop (body ++ rest) acc esc = Some (rev acc ++ body, (esc + k)%nat, rest, stopped_flag rest) /\
            (k = 0%nat -> Forall (fun c => c <> 92) body).
Proof.
  induction 1 as [|c r N92 Hst Hr IH|n r Nu Hr IH|d r Hl Hh Hr IH|d r Hl Hr IH]; intros fuel acc esc rest Hf Hs;
    (destruct fuel as [|fuel]; [cbn [length] in Hf; lia|]).
  - exists 0%nat. cbn [app]. rewrite app_nil_r, Nat.add_0_r. split; [|constructor].
    destruct rest as [|c r]; [reflexivity|]. destruct Hs as [Hc H92]. cbn [scan_name]. apply N.eqb_neq in H92. rewrite H92, Hc. reflexivity.
  - cbn [app scan_name]. apply N.eqb_neq in N92. rewrite N92, Hst.
    destruct (IH fuel (c :: acc) esc rest ltac:(cbn [length] in Hf; lia) Hs) as (k & E & K). exists k. rewrite E.
    cbn [rev]. rewrite <- app_assoc. split; [reflexivity|]. intros K0. constructor; [apply N.eqb_neq; exact N92|auto].
  - cbn [app scan_name]. change (92 =? 92) with true. cbv iota. rewrite (check_escaped_short n _ Nu).
    destruct (IH fuel (rev [92; n] ++ acc) (S esc) rest ltac:(cbn [length] in Hf; lia) Hs) as (k & E & K). exists (S k). rewrite E.
    cbn [rev app]. rewrite <- !app_assoc. cbn [app]. split; [rewrite Nat.add_succ_r; reflexivity|intros; discriminate].
  - do 4 (destruct d as [|? d]; [discriminate Hl|]). destruct d; [|discriminate Hl]. cbn [hd] in Hh.
    cbn [app scan_name]. change (92 =? 92) with true. cbv iota. rewrite (check_escaped_u4 _ _ _ _ _ Hh).
    destruct (IH fuel (rev [92; 117; n; n0; n1; n2] ++ acc) (S esc) rest ltac:(cbn [length app] in Hf; lia) Hs) as (k & E & K). exists (S k). rewrite E.
    cbn [rev app]. rewrite <- !app_assoc. cbn [app]. split; [rewrite Nat.add_succ_r; reflexivity|intros; discriminate].
  - do 5 (destruct d as [|? d]; [discriminate Hl|]). destruct d; [|discriminate Hl].
    cbn [app scan_name]. change (92 =? 92) with true. cbv iota. rewrite check_escaped_u6.
    destruct (IH fuel (rev [92; 117; 123; n; n0; n1; n2; n3] ++ acc) (S esc) rest ltac:(cbn [length app] in Hf; lia) Hs) as (k & E & K). exists (S k). rewrite E.
    cbn [rev app]. rewrite <- !app_assoc. cbn [app]. split; [rewrite Nat.add_succ_r; reflexivity|intros; discriminate].
Qed.

Lemma scan_name_sound fuel stop : forall bs acc esc data e rest st,
  scan_name fuel stop bs acc esc = Some (data, e, rest, st) ->
  exists body, data = rev acc ++ body /\ bs = body ++ rest /\ nscanned stop body /\ (esc <= e)%nat /\
     (e = esc -> Forall (fun c => c <> 92) body) /\ st = stopped_flag rest /\ stops stop rest.
Proof.
  induction fuel as [|fuel IH]; intros bs acc esc data e rest st H; cbn [scan_name] in H; [discriminate|].
  destruct bs as [|c r].
  - inversion H; subst. exists []. rewrite app_nil_r. repeat split; try constructor; lia.
  - destruct (c =? 92) eqn:Ec.
    + apply N.eqb_eq in Ec. subst c. unfold check_escaped in H.
      destruct r as [|b1 r]; [discriminate|].
      destruct (b1 =? 117) eqn:E1.
      * apply N.eqb_eq in E1. subst b1.
        destruct r as [|c2 [|c3 [|c4 [|c5 r5]]]]; try discriminate.
        destruct (c2 =? 123) eqn:E2.
        -- destruct (6 <=? length (c2 :: c3 :: c4 :: c5 :: r5))%nat eqn:E6; [|discriminate].
           apply Nat.leb_le in E6. apply N.eqb_eq in E2. subst c2.
           apply IH in H. destruct H as (body & Hd & Hbs & Hb & Hle & _ & Hst & Hss).
           destruct r5 as [|c6 [|c7 r7]]; try (cbn [length] in E6; lia).
           cbn [firstn skipn rev app] in Hd, Hbs. rewrite <- !app_assoc in Hd. cbn [app] in Hd.
           exists (92 :: 117 :: 123 :: [c3; c4; c5; c6; c7] ++ body). split; [exact Hd|].
           split; [cbn [app]; rewrite <- Hbs; reflexivity|]. split; [apply ns_u6; [reflexivity|exact Hb]|].
           split; [lia|]. split; [intros; lia|]. split; assumption.
        -- apply IH in H. destruct H as (body & Hd & Hbs & Hb & Hle & _ & Hst & Hss).
           cbn [firstn skipn rev app] in Hd, Hbs. rewrite <- !app_assoc in Hd. cbn [app] in Hd.
           exists (92 :: 117 :: [c2; c3; c4; c5] ++ body). split; [exact Hd|].
           split; [cbn [app]; rewrite <- Hbs; reflexivity|].
           split; [apply ns_u4; [reflexivity|cbn [hd]; apply N.eqb_neq; exact E2|exact Hb]|].
           split; [lia|]. split; [intros; lia|]. split; assumption.
      * apply IH in H. destruct H as (body & Hd & Hbs & Hb & Hle & _ & Hst & Hss). cbn [rev app] in Hd. rewrite <- !app_assoc in Hd. cbn [app] in Hd.
        exists (92 :: b1 :: body). split; [exact Hd|]. split; [cbn [app]; rewrite <- Hbs; reflexivity|].
        split; [apply ns_short; [apply N.eqb_neq; exact E1|exact Hb]|]. split; [lia|]. split; [intros; lia|]. split; assumption.
    + destruct (stop c) eqn:Es.
      * inversion H; subst. exists []. rewrite app_nil_r. split; [reflexivity|]. split; [reflexivity|]. split; [constructor|].
        split; [lia|]. split; [intros; constructor|]. split; [reflexivity|]. split; [exact Es|apply N.eqb_neq; exact Ec].
      * apply IH in H. destruct H as (body & Hd & Hbs & Hb & Hle & Hne & Hst & Hss). cbn [rev] in Hd. rewrite <- app_assoc in Hd. cbn [app] in Hd.
        exists (c :: body). split; [exact Hd|]. split; [cbn [app]; rewrite <- Hbs; reflexivity|].
        split; [apply ns_plain; [apply N.eqb_neq; exact Ec|exact Es|exact Hb]|]. split; [exact Hle|].
        split; [|split; assumption]. intros E. constructor; [apply N.eqb_neq; exact Ec|auto].
Qed.

(* ================================================================== quoted names: `string` *)
Lemma pstring_eq body : pstring (34 :: body) =
  match scan_name (S (length body)) (fun c => c =? 34) body [] 0 with
  | None => PErr
  | Some (data, esc, rest, stopped) =>
      if negb stopped then PErr else
      match esc with
      | O => if utf8_valid data then POk (tl rest) data else PErr
      | _ => res_to_pres (tl rest) (parse_string data)
      end
  end.
Proof. reflexivity. Qed.
Lemma pstring_not_quote c r : c <> 34 -> pstring (c :: r) = PErr.
Proof. intros H. unfold pstring. kill_lit c. exfalso; apply H; reflexivity. Qed.
Lemma pstring_nil : pstring [] = PErr. Proof. reflexivity. Qed.

Theorem pstring_complete t s rest : quoted_name t s -> pstring (t ++ rest) = POk rest s.
Proof.
  intros [b s' Hb Hu]. cbn [app]. rewrite <- app_assoc. cbn [app]. rewrite pstring_eq.
  destruct (scan_name_complete quote_stop b (scanned_nscanned b (body_scanned b s' Hb)) (S (length (b ++ 34 :: rest))) [] 0%nat (34 :: rest)
              ltac:(rewrite app_length; lia) ltac:(split; [reflexivity|discriminate])) as (k & E & K).
  unfold quote_stop in E. rewrite E. cbn [rev app Nat.add stopped_flag negb tl]. destruct k as [|k].
  - rewrite (body_without_escapes b s' Hb (K eq_refl)), Hu. reflexivity.
  - unfold parse_string. rewrite (parse_string_complete b s' Hb) by lia. cbn [app]. rewrite Hu. reflexivity.
Qed.

Theorem pstring_sound bs rest s : pstring bs = POk rest s -> exists t, bs = t ++ rest /\ quoted_name t s.
Proof.
  intros H. destruct bs as [|q body]; [discriminate H|].
  destruct (N.eq_dec q 34) as [->|Nq]; [|rewrite (pstring_not_quote q body Nq) in H; discriminate H].
  rewrite pstring_eq in H.
  destruct (scan_name (S (length body)) (fun c => c =? 34) body [] 0) as [[[[data esc] rest0] st]|] eqn:E; [|discriminate H].
  destruct (scan_name_sound _ _ _ _ _ _ _ _ _ E) as (b & Hd & Hbs & Sb & _ & F & Hst & Hss). cbn [rev app] in Hd. subst data.
  destruct st; [|discriminate H]. cbn [negb] in H.
  destruct rest0 as [|c rest1]; [discriminate Hst|]. destruct Hss as [Hc _]. apply N.eqb_eq in Hc. subst c. cbn [tl] in H.
  assert (Sc : scanned b) by (apply (nscanned_scanned _ b) in Sb; [exact Sb|intros c Hc; apply N.eqb_neq; exact Hc]).
  assert (G : jstring_body b s /\ utf8_valid s = true /\ rest = rest1).
  { destruct esc as [|esc].
    - destruct (utf8_valid b) eqn:V; [|discriminate H]. injection H as <- <-.
      split; [apply plain_body; [exact Sc|apply F; reflexivity]|split; [exact V|reflexivity]].
    - unfold parse_string in H. destruct (parse_string_fuel (S (length b)) b []) as [s0| |] eqn:P; try discriminate H.
      cbn [res_to_pres] in H. injection H as <- <-.
      destruct (parse_string_sound _ _ _ _ Sc P) as (s' & E' & Hs & V). cbn [app] in E'. subst s'. repeat split; assumption. }
  destruct G as (Hb & Hu & ->). exists (34 :: b ++ [34]). split; [cbn [app]; rewrite <- app_assoc; cbn [app]; rewrite Hbs; reflexivity|].
  apply Str; assumption.
Qed.

(* ================================================================== bare names: `raw_string` *)
Lemma name_char_delim c : name_char c <-> is_delim c = false /\ c <> 92.
Proof. unfold name_char. rewrite is_delim_false. tauto. Qed.

Lemma name_body_jbody b s : name_body b s -> jstring_body b s.
Proof.
  induction 1 as [|c t s Hc Hb IH| | | | | |]; try (econstructor; eassumption).
  apply name_char_delim in Hc. destruct Hc as [Hd H92]. apply B_raw; [apply (nondelim_facts c Hd)|exact H92|exact IH].
Qed.

Lemma uescape_nscanned stop e d n r : uescape e d n -> nscanned stop r -> nscanned stop (e ++ r).
Proof.
  intros [d0 n0 H|d0 n0 H] Hr; pose proof (proj1 (hex4_decode _ _) H) as [Hl _].
  - cbn [app]. apply ns_u4; [exact Hl|eapply hex4_head; eauto|exact Hr].
  - cbn [app]. apply (ns_u6 stop (d0 ++ [125]) r); [rewrite app_length; cbn [length]; lia|exact Hr].
Qed.
Lemma name_body_nscanned b s : name_body b s -> nscanned is_delim b.
Proof.
  induction 1 as [|c t s Hc Hb IH| | | | | |]; try (constructor; assumption).
  - apply name_char_delim in Hc. apply ns_plain; tauto.
  - apply ns_short; [eapply short_escape_not_u; eauto|assumption].
  - eapply uescape_nscanned; eauto.
  - eapply uescape_nscanned; eauto. eapply uescape_nscanned; eauto.
  - eapply uescape_nscanned; eauto.
  - eapply uescape_nscanned; eauto.
  - eapply uescape_nscanned; eauto. eapply uescape_nscanned; eauto.
Qed.

(* inversion of the scanner invariant along the tokens of a string body *)
Lemma app_eq_length {A} (a c b d : list A) : length a = length c -> a ++ b = c ++ d -> a = c /\ b = d.
Proof.
  revert c. induction a as [|x a IH]; intros [|y c] Hl H; try discriminate Hl; [split; [reflexivity|exact H]|].
  cbn [app] in H. injection H as -> H. cbn [length] in Hl. destruct (IH c ltac:(lia) H) as [-> ->]. split; reflexivity.
Qed.
Lemma nscanned_plain_inv stop c t : c <> 92 -> nscanned stop (c :: t) -> stop c = false /\ nscanned stop t.
Proof. intros N92 H. inversion H; subst; try (exfalso; apply N92; reflexivity). split; assumption. Qed.
Lemma nscanned_short_inv stop x t : x <> 117 -> nscanned stop (92 :: x :: t) -> nscanned stop t.
Proof. intros Nu H. inversion H; subst; try assumption; exfalso; auto. Qed.
Lemma nscanned_uescape_inv stop e d n t : uescape e d n -> nscanned stop (e ++ t) -> nscanned stop t.
Proof.
  intros [d0 n0 Hx|d0 n0 Hx] H; pose proof (proj1 (hex4_decode _ _) Hx) as [Hl _]; pose proof (hex4_head _ _ Hx) as Hh.
  - cbn [app] in H. inversion H as [|c r N92 _ _|x r Nu _|d' r Hl' Hh' Hr E|d' r Hl' Hr E]; subst.
    + exfalso; apply N92; reflexivity.
    + exfalso; apply Nu; reflexivity.
    + destruct (app_eq_length d' d0 r t ltac:(lia) E) as [_ ->]. exact Hr.
    + exfalso. destruct d0 as [|a d0]; [discriminate Hl|]. cbn [app] in E. injection E as E1 _. apply Hh. cbn [hd]. congruence.
  - cbn [app] in H. inversion H as [|c r N92 _ _|x r Nu _|d' r Hl' Hh' Hr E|d' r Hl' Hr E]; subst.
    + exfalso; apply N92; reflexivity.
    + exfalso; apply Nu; reflexivity.
    + exfalso. destruct d' as [|a d']; [discriminate Hl'|]. cbn [app] in E. injection E as E1 _. apply Hh'. cbn [hd]. congruence.
    + destruct (app_eq_length d' (d0 ++ [125]) r t ltac:(rewrite app_length; cbn [length]; lia) E) as [_ ->]. exact Hr.
Qed.

Lemma jbody_name_body b s : jstring_body b s -> nscanned is_delim b -> name_body b s.
Proof.
  induction 1 as [|c t s N34 N92 Hb IH|x b t s Hx Hb IH|e d n t s U NH NL Hb IH|e1 d1 hi e2 d2 lo t s U1 H1 U2 L2 Hb IH
                  |e d n t s U L Hb IH|e d n t s U H NU Hb IH|e1 d1 hi e2 d2 x t s U1 H1 U2 NL2 Hb IH]; intros S.
  - constructor.
  - destruct (nscanned_plain_inv _ c t N92 S) as [Hd St]. apply NB_char; [apply name_char_delim; split; assumption|apply IH; exact St].
  - apply X_NB_short; [exact Hx|]. apply IH. eapply nscanned_short_inv; [eapply short_escape_not_u; eauto|exact S].
  - eapply X_NB_unicode; eauto. apply IH. eapply nscanned_uescape_inv; eauto.
  - eapply X_NB_pair; eauto. apply IH. apply (nscanned_uescape_inv _ _ _ _ _ U2). apply (nscanned_uescape_inv _ _ _ _ _ U1). exact S.
  - eapply X_NB_lone_low; eauto. apply IH. eapply nscanned_uescape_inv; eauto.
  - eapply X_NB_lone_high; eauto. apply IH. eapply nscanned_uescape_inv; eauto.
  - eapply X_NB_high_then_not_low; eauto. apply IH. apply (nscanned_uescape_inv _ _ _ _ _ U2). apply (nscanned_uescape_inv _ _ _ _ _ U1). exact S.
Qed.

(* what may follow a bare name: the end of the input or a delimiter *)
Definition name_end (rest : list N) : Prop := match rest with [] => True | c :: _ => is_delim c = true end.
Lemma name_end_stops rest : name_end rest -> stops is_delim rest.
Proof. destruct rest as [|c r]; [trivial|]. intros H. cbn [name_end] in H. split; [exact H|]. intros ->. rewrite delim_backslash in H. discriminate H. Qed.

Theorem raw_string_complete t s rest : bare_name t s -> name_end rest -> raw_string (t ++ rest) = POk rest s.
Proof.
  intros [b s' Hne Hb Hu] Hr. unfold raw_string.
  destruct (scan_name_complete is_delim b (name_body_nscanned b s' Hb) (S (length (b ++ rest))) [] 0%nat rest
              ltac:(rewrite app_length; lia) (name_end_stops rest Hr)) as (k & E & K).
  rewrite E. cbn [rev app Nat.add]. destruct b as [|b0 b]; [contradiction Hne; reflexivity|]. destruct k as [|k].
  - rewrite (body_without_escapes _ s' (name_body_jbody _ _ Hb) (K eq_refl)), Hu. reflexivity.
  - unfold parse_string. rewrite (parse_string_complete _ s' (name_body_jbody _ _ Hb)) by lia. cbn [app]. rewrite Hu. reflexivity.
Qed.

Lemma plain_name_body stop body : nscanned stop body -> Forall (fun c => c <> 92) body -> (forall c, stop c = false -> c <> 92 -> name_char c) ->
  name_body body body.
Proof.
  intros S F Hs. induction S as [|c r N92 Hst Hr IH|n r Nu Hr IH|d r Hl Hh Hr IH|d r Hl Hr IH];
    try (inversion F as [|? ? F1 _]; exfalso; apply F1; reflexivity).
  - constructor.
  - inversion F; subst. apply NB_char; auto.
Qed.

Theorem raw_string_sound bs rest s : raw_string bs = POk rest s -> exists t, bs = t ++ rest /\ bare_name t s /\ name_end rest.
Proof.
  unfold raw_string. intros H.
  destruct (scan_name (S (length bs)) is_delim bs [] 0) as [[[[data esc] rest0] st]|] eqn:E; [|discriminate H].
  destruct (scan_name_sound _ _ _ _ _ _ _ _ _ E) as (b & Hd & Hbs & Sb & _ & F & _ & Hss). cbn [rev app] in Hd. subst data.
  assert (Hend : name_end rest0) by (destruct rest0; [exact I|exact (proj1 Hss)]).
  destruct b as [|b0 b]; [discriminate H|].
  assert (Sc : scanned (b0 :: b)) by (apply (nscanned_scanned _ _) in Sb; [exact Sb|intros c Hc; apply (nondelim_facts c Hc)]).
  destruct esc as [|esc].
  - destruct (utf8_valid (b0 :: b)) eqn:V; [|discriminate H]. injection H as <- <-.
    exists (b0 :: b). split; [exact Hbs|]. split; [|exact Hend]. apply Bare; [discriminate| |exact V].
    apply (plain_name_body is_delim); [exact Sb|apply F; reflexivity|]. intros c H1 H2. apply name_char_delim. split; assumption.
  - unfold parse_string in H. destruct (parse_string_fuel (S (length (b0 :: b))) (b0 :: b) []) as [s0| |] eqn:P; try discriminate H.
    cbn [res_to_pres] in H. injection H as <- <-.
    destruct (parse_string_sound _ _ _ _ Sc P) as (s' & E' & Hs & V). cbn [app] in E'. subst s'.
    exists (b0 :: b). split; [exact Hbs|]. split; [|exact Hend]. apply Bare; [discriminate|apply jbody_name_body; assumption|exact V].
Qed.

Lemma raw_string_delim c r : is_delim c = true -> raw_string (c :: r) = PErr.
Proof.
  intros H. unfold raw_string. cbn [length scan_name].
  assert (E : (c =? 92) = false) by (apply N.eqb_neq; intros ->; rewrite delim_backslash in H; discriminate H).
  rewrite E, H. reflexivity.
Qed.
Lemma raw_string_nil : raw_string [] = PErr. Proof. reflexivity. Qed.

(* the first byte of a bare name: a name character or the backslash of an escape *)
Lemma bare_name_head t s : bare_name t s -> exists c r, t = c :: r /\ (c = 92 \/ is_delim c = false).
Proof.
  intros [b s' Hne Hb _]. destruct b as [|c r]; [contradiction Hne; reflexivity|]. exists c, r. split; [reflexivity|].
  pose proof (name_body_nscanned _ _ Hb) as S. inversion S; subst; auto.
Qed.
Lemma bare_head_facts c : c = 92 \/ is_delim c = false -> c <> 34 /\ c <> 43 /\ c <> 45 /\ is_space c = false.
Proof. intros [->|H]; [repeat split; discriminate|apply nondelim_facts; exact H]. Qed.

(* ================================================================== one key-path element *)
(* what follows an element inside the braces: spacing, a comma or the closing brace *)
Definition after_element (rest : list N) : Prop :=
  match rest with [] => False | c :: _ => is_space c = true \/ c = 44 \/ c = 125 end.
Lemma after_element_facts rest : after_element rest -> no_digit_next rest /\ name_end rest.
Proof.
  destruct rest as [|c r]; [contradiction|]. cbn [after_element no_digit_next name_end]. intros H.
  assert (G : c = 32 \/ c = 9 \/ c = 13 \/ c = 10 \/ c = 44 \/ c = 125).
  { destruct H as [H|[H|H]]; [|tauto|tauto]. unfold is_space in H.
    repeat (apply orb_true_iff in H; destruct H as [H|H]); apply N.eqb_eq in H; tauto. }
  destruct G as [->|[->|[->|[->|[->| ->]]]]]; split; reflexivity.
Qed.

Lemma key_path_eq bs : key_path bs =
  palt (pmap KIndex (pi32 bs)) (fun _ => palt (pmap KQuoted (pstring bs)) (fun _ =>
    match bs with c :: _ => if is_digit c then PErr else pmap KName (raw_string bs) | [] => pmap KName (raw_string bs) end)).
Proof. reflexivity. Qed.

Theorem key_path_complete t k rest : kp_element t k -> after_element rest -> key_path (t ++ rest) = POk rest k.
Proof.
  intros Hk Hr. destruct (after_element_facts rest Hr) as [Hnd Hne]. rewrite key_path_eq.
  destruct Hk as [t i Hs Hi|t s Hq|t s Hb Hd].
  - unfold pi32. rewrite (pint_complete (-2147483648) 2147483647 t i rest ltac:(lia) Hs Hi Hnd). reflexivity.
  - rewrite (pstring_complete t s rest Hq). destruct Hq as [b s Hb Hu]. cbn [app].
    unfold pi32. rewrite (pint_nonstart _ _ 34 _ eq_refl ltac:(discriminate) ltac:(discriminate)). reflexivity.
  - destruct (bare_name_head t s Hb) as (c & r & -> & Hc). destruct (bare_head_facts c Hc) as (N34 & N43 & N45 & _).
    assert (Hdg : is_digit c = false) by (cbn [starts_with_digit] in Hd; destruct (is_digit c); [contradiction Hd; reflexivity|reflexivity]).
    rewrite (raw_string_complete (c :: r) s rest Hb Hne). cbn [app].
    unfold pi32. rewrite (pint_nonstart _ _ c _ Hdg N43 N45), (pstring_not_quote c _ N34). cbn [pmap pbind palt]. rewrite Hdg. reflexivity.
Qed.

Theorem key_path_sound bs rest k : key_path bs = POk rest k -> exists t, bs = t ++ rest /\ kp_element t k.
Proof.
  rewrite key_path_eq. intros H.
  destruct (pi32 bs) as [r1 i| | |] eqn:E1; cbn [pmap pbind palt] in H; try discriminate H.
  - injection H as <- <-. unfold pi32 in E1. destruct (pint_sound (-2147483648) 2147483647 _ _ _ ltac:(lia) E1) as (t & -> & Hs & Hr & _).
    exists t. split; [reflexivity|]. apply KE_index; [exact Hs|exact Hr].
  - destruct (pstring bs) as [r2 s| | |] eqn:E2; cbn [pmap pbind palt] in H; try discriminate H.
    + injection H as <- <-. destruct (pstring_sound _ _ _ E2) as (t & -> & Hq). exists t. split; [reflexivity|]. apply KE_quoted. exact Hq.
    + destruct bs as [|c r]; [rewrite raw_string_nil in H; discriminate H|].
      destruct (is_digit c) eqn:Ed; [discriminate H|].
      destruct (raw_string (c :: r)) as [r3 s| | |] eqn:E3; cbn [pmap pbind] in H; try discriminate H.
      injection H as <- <-. destruct (raw_string_sound _ _ _ E3) as (t & E & Hb & _).
      exists t. split; [exact E|]. apply KE_name; [exact Hb|].
      destruct Hb as [b s' Hne _ _]. destruct b as [|b0 b]; [contradiction Hne; reflexivity|]. cbn [app] in E. injection E as <- _.
      cbn [starts_with_digit]. rewrite Ed. discriminate.
Qed.

(* an element does not start with a space, so the spacing before it is skipped exactly *)
Lemma kp_element_head t k : kp_element t k -> exists c r, t = c :: r /\ is_space c = false.
Proof.
  intros [t0 i Hs _|t0 s Hq|t0 s Hb _].
  - assert (D : forall d, is_digit d = true -> is_space d = false).
    { intros d Hd. unfold is_digit in Hd. apply andb_true_iff in Hd. destruct Hd as [H1 _]. apply N.leb_le in H1.
      unfold is_space. repeat (apply orb_false_iff; split); apply N.eqb_neq; lia. }
    destruct Hs as [ds Hne Hd|ds Hne Hd|ds Hne Hd]; try (eexists; eexists; split; reflexivity).
    destruct (digits_head ds Hne Hd) as (d & r & -> & Hdd). exists d, r. split; [reflexivity|apply D; exact Hdd].
  - destruct Hq. eexists; eexists; split; reflexivity.
  - destruct (bare_name_head t0 s Hb) as (c & r & -> & Hc). exists c, r. split; [reflexivity|apply (bare_head_facts c Hc)].
Qed.

(* ================================================================== the list *)
Lemma pws_after w X : pws w -> stop X -> after_element (w ++ X) /\ multispace0 (w ++ X) = X.
Proof.
  intros Hw (c & r & -> & Hc). split.
  - destruct Hw as [|c0 w Hc0 Hw]; cbn [app after_element]; [tauto|]. left. destruct Hc0 as [->|[->|[->| ->]]]; reflexivity.
  - apply multispace0_pws; [exact Hw|]. destruct Hc as [->| ->]; reflexivity.
Qed.

Lemma ws_element_complete w1 t k w2 X : pws w1 -> kp_element t k -> pws w2 -> stop X ->
  ws_around key_path (w1 ++ t ++ w2 ++ X) = POk X k.
Proof.
  intros H1 Hk H2 HX. unfold ws_around. destruct (kp_element_head t k Hk) as (c & r & E & Hsp).
  rewrite (multispace0_pws w1 H1) by (rewrite E; exact Hsp).
  destruct (pws_after w2 X H2 HX) as [Ha Hm]. rewrite (key_path_complete t k _ Hk Ha). cbn [pbind]. rewrite Hm. reflexivity.
Qed.

Lemma ws_element_sound bs r k : ws_around key_path bs = POk r k ->
  exists w1 t w2, bs = w1 ++ t ++ w2 ++ r /\ pws w1 /\ kp_element t k /\ pws w2 /\ nsp r.
Proof.
  unfold ws_around. intros H. destruct (multispace0_split bs) as (w1 & E1 & H1 & _).
  destruct (key_path (multispace0 bs)) as [r1 k1| | |] eqn:Ek; cbn [pbind] in H; try discriminate H. injection H as <- <-.
  destruct (key_path_sound _ _ _ Ek) as (t & Et & Hk). destruct (multispace0_split r1) as (w2 & E2 & H2 & Hn).
  exists w1, t, w2. split; [rewrite <- E2, <- Et; exact E1|]. repeat split; assumption.
Qed.

Lemma kp_elements_nonempty ts ks : kp_elements ts ks -> (0 < length ts)%nat.
Proof.
  assert (L : forall t k, kp_element t k -> (0 < length t)%nat) by (intros t k Hk; destruct (kp_element_head t k Hk) as (c & r & -> & _); cbn [length]; lia).
  intros [w1 t k w2 _ Hk _|w1 t k w2 ts0 ks0 _ Hk _ _]; specialize (L t k Hk); rewrite !app_length; lia.
Qed.

Lemma sep_loop_complete ts ks : kp_elements ts ks -> forall fuel acc tail, (length ts < fuel)%nat ->
  sep_loop (ws_around key_path) (pchar 44) fuel (44 :: ts ++ 125 :: tail) acc = POk (125 :: tail) (rev acc ++ ks).
Proof.
  induction 1 as [w1 t k w2 H1 Hk H2|w1 t k w2 ts ks H1 Hk H2 Hs IH]; intros fuel acc tail Hf.
  - pose proof (kp_elements_nonempty _ _ (KEs_one w1 t k w2 H1 Hk H2)) as L.
    destruct fuel as [|[|fuel]]; try lia. cbn [sep_loop pchar]. change (44 =? 44) with true. cbv iota. rewrite length_neq_succ.
    rewrite <- !app_assoc.
    rewrite (ws_element_complete w1 t k w2 (125 :: tail) H1 Hk H2 ltac:(eexists; eexists; split; [reflexivity|right; reflexivity])).
    change (125 =? 44) with false. cbv iota. cbn [rev]. reflexivity.
  - destruct fuel as [|fuel]; [lia|]. cbn [sep_loop pchar]. change (44 =? 44) with true. cbv iota. rewrite length_neq_succ.
    rewrite <- !app_assoc. cbn [app].
    rewrite (ws_element_complete w1 t k w2 (44 :: ts ++ 125 :: tail) H1 Hk H2 ltac:(eexists; eexists; split; [reflexivity|left; reflexivity])).
    rewrite IH by (rewrite !app_length in Hf; cbn [length] in Hf; lia). cbn [rev]. rewrite <- app_assoc. reflexivity.
Qed.

(* the text after the first element, as the loop reads it *)
Inductive kp_tail : list N -> list keypath -> Prop :=
| KT_nil : kp_tail [] []
| KT_cons w1 t k w2 ts ks : pws w1 -> kp_element t k -> pws w2 -> kp_tail ts ks -> kp_tail (44 :: w1 ++ t ++ w2 ++ ts) (k :: ks).
Lemma elements_of_tail X ks : kp_tail X ks -> forall w1 t k w2, pws w1 -> kp_element t k -> pws w2 ->
  kp_elements (w1 ++ t ++ w2 ++ X) (k :: ks).
Proof.
  induction 1 as [|v1 u j v2 ts ks G1 Gk G2 Ht IH]; intros w1 t k w2 H1 Hk H2.
  - rewrite app_nil_r. apply KEs_one; assumption.
  - apply KEs_cons; try assumption. apply IH; assumption.
Qed.

Lemma sep_loop_sound fuel : forall bs acc r l,
  sep_loop (ws_around key_path) (pchar 44) fuel bs acc = POk r l ->
  exists ts ks, l = rev acc ++ ks /\ bs = ts ++ r /\ kp_tail ts ks.
Proof.
  induction fuel as [|fuel IH]; intros bs acc r l H; cbn [sep_loop] in H; [discriminate H|].
  destruct (pchar 44 bs) as [r1 u| | |] eqn:Ec; try discriminate H.
  - destruct (length r1 =? length bs)%nat; [discriminate H|].
    assert (Eb : bs = 44 :: r1).
    { unfold pchar in Ec. destruct bs as [|b r0]; [discriminate Ec|]. destruct (b =? 44) eqn:E; [|discriminate Ec].
      apply N.eqb_eq in E. injection Ec as <-. subst b. reflexivity. }
    destruct (ws_around key_path r1) as [r2 k| | |] eqn:Ek; try discriminate H.
    + destruct (IH _ _ _ _ H) as (ts & ks & -> & -> & Ht). destruct (ws_element_sound _ _ _ Ek) as (w1 & t & w2 & -> & H1 & Hk & H2 & _).
      exists (44 :: w1 ++ t ++ w2 ++ ts), (k :: ks). split; [cbn [rev]; rewrite <- app_assoc; reflexivity|].
      split; [rewrite Eb; cbn [app]; rewrite <- !app_assoc; reflexivity|]. apply KT_cons; assumption.
    + injection H as <- <-. exists [], []. rewrite app_nil_r. repeat split. constructor.
  - injection H as <- <-. exists [], []. rewrite app_nil_r. repeat split. constructor.
Qed.

Lemma separated_list1_sound bs r l : separated_list1 (ws_around key_path) (pchar 44) bs = POk r l ->
  exists ts, bs = ts ++ r /\ kp_elements ts l.
Proof.
  unfold separated_list1. intros H. destruct (ws_around key_path bs) as [r1 k| | |] eqn:Ek; cbn [pbind] in H; try discriminate H.
  destruct (sep_loop_sound _ _ _ _ _ H) as (ts & ks & -> & -> & Ht). destruct (ws_element_sound _ _ _ Ek) as (w1 & t & w2 & -> & H1 & Hk & H2 & _).
  exists (w1 ++ t ++ w2 ++ ts). split; [rewrite <- !app_assoc; reflexivity|]. cbn [rev app]. apply elements_of_tail; assumption.
Qed.

Lemma separated_list1_complete ts ks tail : kp_elements ts ks ->
  separated_list1 (ws_around key_path) (pchar 44) (ts ++ 125 :: tail) = POk (125 :: tail) ks.
Proof.
  intros H. unfold separated_list1. destruct H as [w1 t k w2 H1 Hk H2|w1 t k w2 ts ks H1 Hk H2 Hs].
  - rewrite <- !app_assoc.
    rewrite (ws_element_complete w1 t k w2 (125 :: tail) H1 Hk H2 ltac:(eexists; eexists; split; [reflexivity|right; reflexivity])).
    cbn [pbind length sep_loop pchar]. change (125 =? 44) with false. cbv iota. reflexivity.
  - rewrite <- !app_assoc. cbn [app].
    rewrite (ws_element_complete w1 t k w2 (44 :: ts ++ 125 :: tail) H1 Hk H2 ltac:(eexists; eexists; split; [reflexivity|left; reflexivity])).
    cbn [pbind]. rewrite (sep_loop_complete ts ks Hs) by (cbn [length]; rewrite app_length; lia). reflexivity.
Qed.

(* ================================================================== top level *)
Lemma key_paths_eq bs : key_paths bs =
  palt (pdo (r1, _) <- pchar 123 (multispace0 bs);
        pdo (r2, l) <- separated_list1 (ws_around key_path) (pchar 44) r1;
        pdo (r3, _) <- pchar 125 r2;
        POk (multispace0 r3) l) (fun _ =>
        pdo (r1, _) <- pchar 123 (multispace0 bs);
        pdo (r2, _) <- pchar 125 (multispace0 r1);
        POk (multispace0 r2) []).
Proof. reflexivity. Qed.

Lemma key_path_brace r : key_path (125 :: r) = PErr.
Proof.
  rewrite key_path_eq. unfold pi32. rewrite (pint_nonstart _ _ 125 r eq_refl ltac:(discriminate) ltac:(discriminate)).
  rewrite (pstring_not_quote 125 r ltac:(discriminate)). cbn [pmap pbind palt]. change (is_digit 125) with false. cbv iota.
  rewrite (raw_string_delim 125 r eq_refl). reflexivity.
Qed.

Theorem key_path_grammar_complete t ks : kp_text t ks -> parse_key_paths t = Ok ks.
Proof.
  intros H. unfold parse_key_paths. rewrite key_paths_eq. destruct H as [w0 w w3 H0 Hw H3|w0 ts ks w3 H0 Hs H3].
  - rewrite (multispace0_pws w0 H0) by reflexivity. cbn [pchar]. change (123 =? 123) with true. cbv iota. cbn [pbind].
    unfold separated_list1, ws_around. rewrite (multispace0_pws w Hw) by reflexivity. rewrite key_path_brace. cbn [pbind palt pchar].
    change (125 =? 125) with true. cbv iota. cbn [pbind]. rewrite (multispace0_all w3 H3). reflexivity.
  - rewrite (multispace0_pws w0 H0) by reflexivity. cbn [pchar]. change (123 =? 123) with true. cbv iota. cbn [pbind].
    rewrite (separated_list1_complete ts ks w3 Hs). cbn [pbind pchar]. change (125 =? 125) with true. cbv iota. cbn [pbind palt].
    rewrite (multispace0_all w3 H3). reflexivity.
Qed.

Lemma pchar_sound c bs r u : pchar c bs = POk r u -> bs = c :: r.
Proof.
  unfold pchar. destruct bs as [|b r0]; [discriminate|]. destruct (b =? c) eqn:E; [|discriminate].
  apply N.eqb_eq in E. intros H. injection H as <-. subst b. reflexivity.
Qed.

Theorem key_path_grammar_sound t ks : parse_key_paths t = Ok ks -> kp_text t ks.
Proof.
  unfold parse_key_paths. intros H.
  destruct (key_paths t) as [rest l| | |] eqn:E; try discriminate H. destruct rest; [|discriminate H]. injection H as ->.
  rewrite key_paths_eq in E. destruct (multispace0_split t) as (w0 & Et & H0 & _).
  destruct (pchar 123 (multispace0 t)) as [r1 u| | |] eqn:E1; cbn [pbind palt] in E; try discriminate E.
  apply pchar_sound in E1. rewrite E1 in Et.
  destruct (separated_list1 (ws_around key_path) (pchar 44) r1) as [r2 l| | |] eqn:E2; cbn [pbind palt] in E; try discriminate E.
  - destruct (pchar 125 r2) as [r3 u3| | |] eqn:E3; cbn [pbind palt] in E.
    + injection E as E4 <-. apply pchar_sound in E3. subst r2. destruct (separated_list1_sound _ _ _ E2) as (ts & -> & Hs).
      rewrite Et. apply KP_list; [exact H0|exact Hs|apply multispace0_nil_pws; exact E4].
    + (* the element list is not followed by the closing brace: the empty-list alternative is tried *)
      destruct (pchar 125 (multispace0 r1)) as [r4 u4| | |] eqn:E5; cbn [pbind] in E; try discriminate E.
      injection E as E6 <-. apply pchar_sound in E5. destruct (multispace0_split r1) as (w & Er & Hw & _). rewrite E5 in Er.
      rewrite Et, Er. apply KP_empty; [exact H0|exact Hw|apply multispace0_nil_pws; exact E6].
    + discriminate E.
    + discriminate E.
  - destruct (pchar 125 (multispace0 r1)) as [r4 u4| | |] eqn:E5; cbn [pbind] in E; try discriminate E.
    injection E as E6 <-. apply pchar_sound in E5. destruct (multispace0_split r1) as (w & Er & Hw & _). rewrite E5 in Er.
    rewrite Et, Er. apply KP_empty; [exact H0|exact Hw|apply multispace0_nil_pws; exact E6].
Qed.

Corollary key_path_grammar_exact t ks : parse_key_paths t = Ok ks <-> kp_text t ks.
Proof. split; [apply key_path_grammar_sound|apply key_path_grammar_complete]. Qed.

(* everything outside the grammar is an error (never a panic: PathParseProofs.parse_key_paths_total) *)
Corollary key_path_rejected t : (forall ks, ~ kp_text t ks) -> exists e, parse_key_paths t = Err e.
Proof.
  intros H. destruct (parse_key_paths t) as [ks|e|] eqn:E.
  - exfalso. apply (H ks). apply key_path_grammar_sound. exact E.
  - exists e. reflexivity.
  - exfalso. exact (parse_key_paths_total t E).
Qed.

Corollary kp_text_functional t k1 k2 : kp_text t k1 -> kp_text t k2 -> k1 = k2.
Proof. intros H1 H2. apply key_path_grammar_complete in H1. apply key_path_grammar_complete in H2. congruence. Qed.
