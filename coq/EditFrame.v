(* EditFrame.v — C17: every editor of EditWalk.v / EditWalk2.v only appends to the caller's buffer, on ANY input bytes
   (valid encodings, truncated or corrupted buffers, JSON text, garbage) and any prior buffer content:
       f args buf = res_map (app buf) (f args [])
   i.e. if the call on an empty buffer returns `out`, the call on buf returns buf ++ out; if it fails with an error it
   fails with the same error, if it panics it panics -- the outcome never depends on what the buffer holds.
   The proofs are by unfolding: nothing that is read, compared or branched on mentions the buffer; it only reaches
   build_into (BuilderFrame.build_arr_into_frame / build_obj_into_frame, valid for ARBITRARY entries, which is what the
   iterators hand out on a corrupt input), `extend_from_slice`, or the header-slot patching of build_array /
   build_object (patch at `start` = the buffer length on entry). *)
From Coq Require Import List NArith ZArith Bool Lia.
Import ListNotations.
From JB Require Import Constants Bytes Utf8 Num Value Codec TreeOps JsonText Dispatch Walk Iter Builder BuilderProofs
  BuilderFrame EditWalk EditWalk2.
Open Scope N_scope.
Set Default Timeout 120.

Arguments N.lor : simpl never.
Arguments N.land : simpl never.
Arguments N.eqb : simpl never.
Arguments be32 : simpl never.
Arguments u32 : simpl never.
Arguments read_u32 : simpl never.

Lemma append_enc_res_map buf r : append_enc buf r = res_map (app buf) (append_enc [] r).
Proof. destruct r; reflexivity. Qed.

(* peel one layer that does not mention the buffer: a bind, a conditional, a match, a destructuring let *)
Ltac frame_step buf :=
  match goal with
  | |- bind ?e _ = res_map _ (bind ?e _) => destruct e; cbn [bind res_map]; try reflexivity
  | |- (if ?c then _ else _) = res_map _ (if ?c then _ else _) => destruct c; try reflexivity
  | |- match ?x with _ => _ end = res_map _ (match ?x with _ => _ end) => destruct x; try reflexivity
  | |- Ok (build_arr_into buf ?es) = _ =>
      cbn [res_map]; rewrite (build_arr_into_frame buf es); reflexivity
  | |- Ok (build_obj_into buf ?es) = _ =>
      cbn [res_map]; rewrite (build_obj_into_frame buf es); reflexivity
  | |- append_enc buf ?r = res_map _ (append_enc [] ?r) => apply append_enc_res_map
  end.
Ltac frame buf := repeat (frame_step buf).

(* ================================================================ EditWalk.v *)
Theorem concat_w_frame l r buf : concat_w l r buf = res_map (app buf) (concat_w l r []).
Proof. unfold concat_w, concat_m, concat_b. frame buf. Qed.

Theorem delete_by_name_w_frame bs name buf : delete_by_name_w bs name buf = res_map (app buf) (delete_by_name_w bs name []).
Proof. unfold delete_by_name_w, delete_by_name_m, delete_by_name_b. frame buf. Qed.

Theorem delete_by_index_w_frame bs i buf : delete_by_index_w bs i buf = res_map (app buf) (delete_by_index_w bs i []).
Proof. unfold delete_by_index_w, delete_by_index_m, delete_by_index_b. frame buf. Qed.

Lemma array_insert_b_frame bs pos nv buf : array_insert_b bs pos nv buf = res_map (app buf) (array_insert_b bs pos nv []).
Proof. unfold array_insert_b. frame buf. Qed.
Theorem array_insert_w_frame bs pos nv buf : array_insert_w bs pos nv buf = res_map (app buf) (array_insert_w bs pos nv []).
Proof. unfold array_insert_w. frame buf; apply array_insert_b_frame. Qed.

(* build_array / build_object write into the caller's buffer directly: header slot reserved at `start`, entries
   appended in the loop, header patched at `start`, data appended *)
Lemma patch_prefix pre b w : patch (pre ++ b) (length pre) w = pre ++ patch b 0 w.
Proof. induction pre as [|p pre IH]; cbn [app length patch]; [reflexivity|]. f_equal. exact IH. Qed.

Lemma ba_loop_frame items : forall buf x data len,
  ba_loop items (buf ++ x) data len = (buf ++ fst (ba_loop items x data len), snd (ba_loop items x data len)).
Proof.
  induction items as [|value r IH]; intros buf x data len; cbn [ba_loop]; [reflexivity|].
  destruct (item_pieces value) as [[j d]|e|]; [|reflexivity|reflexivity].
  rewrite <- app_assoc. apply IH.
Qed.
Lemma bo_loop_frame members : forall buf x kd vd vj len,
  bo_loop members (buf ++ x) kd vd vj len = (buf ++ fst (bo_loop members x kd vd vj len), snd (bo_loop members x kd vd vj len)).
Proof.
  induction members as [|[key value] r IH]; intros buf x kd vd vj len; cbn [bo_loop]; [reflexivity|].
  destruct (item_pieces value) as [[j d]|e|]; rewrite <- app_assoc; [apply IH|reflexivity|reflexivity].
Qed.

(* the buffer as the function leaves it, error or not: the prefix is never touched, even when the call fails half way *)
Theorem build_array_st_frame items buf :
  build_array_st items buf = (buf ++ fst (build_array_st items []), snd (build_array_st items [])).
Proof.
  unfold build_array_st. cbn [length app]. rewrite ba_loop_frame.
  destruct (ba_loop items (repeat 0 4) [] 0) as [b2 [[data len]|e|]]; cbn [fst snd]; try reflexivity.
  rewrite patch_prefix, <- app_assoc. reflexivity.
Qed.
Theorem build_object_st_frame keys items buf :
  build_object_st keys items buf = (buf ++ fst (build_object_st keys items []), snd (build_object_st keys items [])).
Proof.
  unfold build_object_st, build_object_kv_st. cbn [length app]. rewrite bo_loop_frame.
  destruct (bo_loop (assoc_of_list (combine keys items)) (repeat 0 4) [] [] [] 0) as [b2 [[[[kd vd] vj] len]|e|]]; cbn [fst snd]; try reflexivity.
  rewrite patch_prefix, <- app_assoc. reflexivity.
Qed.

Theorem build_array_w_frame items buf : build_array_w items buf = res_map (app buf) (build_array_w items []).
Proof.
  unfold build_array_w. rewrite (build_array_st_frame items buf).
  destruct (build_array_st items []) as [b r]. cbn [fst snd]. destruct r as [[]|e|]; reflexivity.
Qed.
Theorem build_object_w_frame keys items buf : build_object_w keys items buf = res_map (app buf) (build_object_w keys items []).
Proof.
  unfold build_object_w. rewrite (build_object_st_frame keys items buf).
  destruct (build_object_st keys items []) as [b r]. cbn [fst snd]. destruct r as [[]|e|]; reflexivity.
Qed.

(* ================================================================ EditWalk2.v *)
Lemma object_insert_b_frame value key nv upd buf :
  object_insert_b value key nv upd buf = res_map (app buf) (object_insert_b value key nv upd []).
Proof. unfold object_insert_b. frame buf. Qed.
Theorem object_insert_w_frame bs key nv upd buf :
  object_insert_w bs key nv upd buf = res_map (app buf) (object_insert_w bs key nv upd []).
Proof. unfold object_insert_w. frame buf. apply object_insert_b_frame. Qed.

Lemma object_filter_b_frame keep value buf : object_filter_b keep value buf = res_map (app buf) (object_filter_b keep value []).
Proof. unfold object_filter_b. frame buf. Qed.
Theorem object_delete_w_frame bs ks buf : object_delete_w bs ks buf = res_map (app buf) (object_delete_w bs ks []).
Proof. unfold object_delete_w, object_delete_b. frame buf. apply object_filter_b_frame. Qed.
Theorem object_pick_w_frame bs ks buf : object_pick_w bs ks buf = res_map (app buf) (object_pick_w bs ks []).
Proof. unfold object_pick_w, object_pick_b. frame buf. apply object_filter_b_frame. Qed.

Theorem strip_nulls_w_frame bs buf : strip_nulls_w bs buf = res_map (app buf) (strip_nulls_w bs []).
Proof. unfold strip_nulls_w, strip_nulls_m, strip_nulls_b. frame buf. Qed.

Theorem delete_by_keypath_w_frame bs ks buf : delete_by_keypath_w bs ks buf = res_map (app buf) (delete_by_keypath_w bs ks []).
Proof. unfold delete_by_keypath_w, delete_by_keypath_m, delete_by_keypath_b. frame buf. Qed.

(* ================================================================ SetWalk.v (array_distinct / intersection / except) *)
From JB Require SetWalk.
Theorem array_distinct_w_frame bs buf : SetWalk.array_distinct_w bs buf = res_map (app buf) (SetWalk.array_distinct_w bs []).
Proof. unfold SetWalk.array_distinct_w, SetWalk.array_distinct_b. frame buf. Qed.
Theorem array_intersection_w_frame l r buf :
  SetWalk.array_intersection_w l r buf = res_map (app buf) (SetWalk.array_intersection_w l r []).
Proof. unfold SetWalk.array_intersection_w, SetWalk.array_intersection_b. frame buf. Qed.
Theorem array_except_w_frame l r buf :
  SetWalk.array_except_w l r buf = res_map (app buf) (SetWalk.array_except_w l r []).
Proof. unfold SetWalk.array_except_w, SetWalk.array_except_b. frame buf. Qed.

(* ================================================================ all of them, in the form the property states *)
Definition appends_only (f : list N -> res (list N)) : Prop :=
  forall buf, match f [] with
              | Ok out => f buf = Ok (buf ++ out)
              | Err e => f buf = Err e
              | Panic => f buf = Panic
              end.
Lemma appends_only_of_res_map f : (forall buf, f buf = res_map (app buf) (f [])) -> appends_only f.
Proof. intros H buf. rewrite (H buf). destruct (f []); reflexivity. Qed.

Theorem editors_append_on_any_input :
  (forall l r, appends_only (concat_w l r)) /\
  (forall bs name, appends_only (delete_by_name_w bs name)) /\
  (forall bs i, appends_only (delete_by_index_w bs i)) /\
  (forall bs pos nv, appends_only (array_insert_w bs pos nv)) /\
  (forall items, appends_only (build_array_w items)) /\
  (forall keys items, appends_only (build_object_w keys items)) /\
  (forall bs key nv upd, appends_only (object_insert_w bs key nv upd)) /\
  (forall bs ks, appends_only (object_delete_w bs ks)) /\
  (forall bs ks, appends_only (object_pick_w bs ks)) /\
  (forall bs, appends_only (strip_nulls_w bs)) /\
  (forall bs ks, appends_only (delete_by_keypath_w bs ks)) /\
  (forall bs, appends_only (SetWalk.array_distinct_w bs)) /\
  (forall l r, appends_only (SetWalk.array_intersection_w l r)) /\
  (forall l r, appends_only (SetWalk.array_except_w l r)).
Proof.
  repeat split; intros; apply appends_only_of_res_map; intros buf.
  - apply concat_w_frame.
  - apply delete_by_name_w_frame.
  - apply delete_by_index_w_frame.
  - apply array_insert_w_frame.
  - apply build_array_w_frame.
  - apply build_object_w_frame.
  - apply object_insert_w_frame.
  - apply object_delete_w_frame.
  - apply object_pick_w_frame.
  - apply strip_nulls_w_frame.
  - apply delete_by_keypath_w_frame.
  - apply array_distinct_w_frame.
  - apply array_intersection_w_frame.
  - apply array_except_w_frame.
Qed.
