(* EditFrame.v — C17: every editor of EditWalk.v / EditWalk2.v / SetWalk.v only appends to the caller's buffer, on ANY
   input bytes (valid encodings, truncated or corrupted buffers, JSON text, garbage) and any prior buffer content.
   The editors are state functions over the buffer (BufSt.v): `f_st args buf = (buffer as left, outcome)`.
       framed:  f_st args buf = (buf ++ fst (f_st args []), snd (f_st args []))
   the buffer as left -- after Ok, after Err, at a panic -- is the buffer on entry followed by what the call leaves when
   started on the empty buffer, and the outcome never depends on what the buffer holds (EditStProofs.v, by walking over
   the bodies: nothing that is read, compared or branched on mentions the buffer; it only reaches build_into
   (BuilderFrame.build_arr_into_frame / build_obj_into_frame, valid for ARBITRARY entries, which is what the iterators
   hand out on a corrupt input), `extend_from_slice`, write_to_vec, or the header-slot patching of build_array /
   build_object (patch at `start` = the buffer length on entry)).
       quiet:   snd (f_st args buf) = Err e -> fst (f_st args buf) = buf
   an error return leaves the buffer exactly as it was (every editor's only write is its last step, after every `?`).
   build_array / build_object are framed but NOT quiet: `build_st_error_leaves` says what they leave.
   The view-level corollaries `f_w args buf = res_map (app buf) (f_w args [])` are kept. *)
From Coq Require Import List NArith ZArith Bool Lia.
Import ListNotations.
From JB Require Import Constants Bytes Utf8 Num Value Codec TreeOps JsonText Dispatch Walk Iter Builder BuilderProofs
  BuilderFrame BufSt EditWalk EditWalk2 EditStProofs.
Open Scope N_scope.
Set Default Timeout 120.

Arguments N.lor : simpl never.
Arguments N.land : simpl never.
Arguments N.eqb : simpl never.
Arguments be32 : simpl never.
Arguments u32 : simpl never.
Arguments read_u32 : simpl never.

Lemma append_enc_res_map buf r : append_enc buf r = res_map (app buf) (append_enc [] r).
Proof. destruct r; reflexivity. Qed.

(* ================================================================ EditWalk.v: the views *)
Theorem concat_w_frame l r buf : concat_w l r buf = res_map (app buf) (concat_w l r []).
Proof. apply (view_framed _ (concat_st_framed l r)). Qed.

Theorem delete_by_name_w_frame bs name buf : delete_by_name_w bs name buf = res_map (app buf) (delete_by_name_w bs name []).
Proof. apply (view_framed _ (delete_by_name_st_framed bs name)). Qed.

Theorem delete_by_index_w_frame bs i buf : delete_by_index_w bs i buf = res_map (app buf) (delete_by_index_w bs i []).
Proof. apply (view_framed _ (delete_by_index_st_framed bs i)). Qed.

Lemma array_insert_b_frame bs pos nv buf : array_insert_b bs pos nv buf = res_map (app buf) (array_insert_b bs pos nv []).
Proof. apply (view_framed _ (array_insert_b_st_framed bs pos nv)). Qed.
Theorem array_insert_w_frame bs pos nv buf : array_insert_w bs pos nv buf = res_map (app buf) (array_insert_w bs pos nv []).
Proof. apply (view_framed _ (array_insert_st_framed bs pos nv)). Qed.

(* build_array / build_object write into the caller's buffer directly: header slot reserved at `start`, entries
   appended in the loop, header patched at `start`, data appended *)
Lemma patch_prefix pre b w : patch (pre ++ b) (length pre) w = pre ++ patch b 0 w.
Proof. induction pre as [|p pre IH]; cbn [app length patch]; [reflexivity|]. f_equal. exact IH. Qed.

Lemma ba_loop_frame items : forall buf x data len,
  ba_loop items (buf ++ x) data len = (buf ++ fst (ba_loop items x data len), snd (ba_loop items x data len)).
Proof.
  induction items as [|value r IH]; intros buf x data len; cbn [ba_loop]; [reflexivity|].
  destruct (item_pieces value) as [[j d]|e|]; [|reflexivity|reflexivity].
  rewrite <- app_assoc. apply IH.
Qed.
Lemma bo_loop_frame members : forall buf x kd vd vj len,
  bo_loop members (buf ++ x) kd vd vj len = (buf ++ fst (bo_loop members x kd vd vj len), snd (bo_loop members x kd vd vj len)).
Proof.
  induction members as [|[key value] r IH]; intros buf x kd vd vj len; cbn [bo_loop]; [reflexivity|].
  destruct (item_pieces value) as [[j d]|e|]; rewrite <- app_assoc; [apply IH|reflexivity|reflexivity].
Qed.

(* the buffer as the function leaves it, error or not: the prefix is never touched, even when the call fails half way *)
Theorem build_array_st_frame items buf :
  build_array_st items buf = (buf ++ fst (build_array_st items []), snd (build_array_st items [])).
Proof.
  unfold build_array_st. cbn [length app]. rewrite ba_loop_frame.
  destruct (ba_loop items (repeat 0 4) [] 0) as [b2 [[data len]|e|]]; cbn [fst snd]; try reflexivity.
  rewrite patch_prefix, <- app_assoc. reflexivity.
Qed.
Theorem build_object_st_frame keys items buf :
  build_object_st keys items buf = (buf ++ fst (build_object_st keys items []), snd (build_object_st keys items [])).
Proof.
  unfold build_object_st, build_object_kv_st. cbn [length app]. rewrite bo_loop_frame.
  destruct (bo_loop (assoc_of_list (combine keys items)) (repeat 0 4) [] [] [] 0) as [b2 [[[[kd vd] vj] len]|e|]]; cbn [fst snd]; try reflexivity.
  rewrite patch_prefix, <- app_assoc. reflexivity.
Qed.

(* what an error return of build_array / build_object leaves behind the caller's bytes: the reserved header slot
   (four zero bytes, never patched) and the entry words written so far -- for build_array those of the items before the
   failing one, for build_object the key entries of the members up to AND INCLUDING the failing one (its key entry is
   pushed before its value's header is read).  No payload byte: `data` / `key_data` / `val_data` are local. *)
Fixpoint ba_entries (items : list (list N)) : list N :=
  match items with
  | [] => []
  | value :: r => match item_pieces value with Ok (j, _) => j ++ ba_entries r | _ => [] end
  end.
Fixpoint bo_entries (members : list (list N * list N)) : list N :=
  match members with
  | [] => []
  | (key, value) :: r =>
      be32 (jentry_word STRING_TAG (lenN key)) ++ match item_pieces value with Ok _ => bo_entries r | _ => [] end
  end.
Lemma ba_loop_buf items : forall buf data len, fst (ba_loop items buf data len) = buf ++ ba_entries items.
Proof.
  induction items as [|value r IH]; intros buf data len; cbn [ba_loop ba_entries fst]; [symmetry; apply app_nil_r|].
  destruct (item_pieces value) as [[j d]|e|]; cbn [fst]; [|symmetry; apply app_nil_r|symmetry; apply app_nil_r].
  rewrite IH, <- app_assoc. reflexivity.
Qed.
Lemma bo_loop_buf members : forall buf kd vd vj len, fst (bo_loop members buf kd vd vj len) = buf ++ bo_entries members.
Proof.
  induction members as [|[key value] r IH]; intros buf kd vd vj len; cbn [bo_loop bo_entries fst]; [symmetry; apply app_nil_r|].
  destruct (item_pieces value) as [[j d]|e|]; cbn [fst]; [|rewrite app_nil_r; reflexivity|rewrite app_nil_r; reflexivity].
  rewrite IH, <- app_assoc. reflexivity.
Qed.
Theorem build_array_st_error_leaves items buf e :
  snd (build_array_st items buf) = Err e ->
  fst (build_array_st items buf) = buf ++ repeat 0 4 ++ ba_entries items.
Proof.
  unfold build_array_st. pose proof (ba_loop_buf items (buf ++ repeat 0 4) [] 0) as H.
  destruct (ba_loop items (buf ++ repeat 0 4) [] 0) as [b2 [[data len]|e'|]]; cbn [fst snd] in *; try discriminate.
  intros _. rewrite H, <- app_assoc. reflexivity.
Qed.
Theorem build_object_st_error_leaves keys items buf e :
  snd (build_object_st keys items buf) = Err e ->
  fst (build_object_st keys items buf) = buf ++ repeat 0 4 ++ bo_entries (assoc_of_list (combine keys items)).
Proof.
  unfold build_object_st, build_object_kv_st.
  pose proof (bo_loop_buf (assoc_of_list (combine keys items)) (buf ++ repeat 0 4) [] [] [] 0) as H.
  destruct (bo_loop (assoc_of_list (combine keys items)) (buf ++ repeat 0 4) [] [] [] 0) as [b2 [[[[kd vd] vj] len]|e'|]];
    cbn [fst snd] in *; try discriminate.
  intros _. rewrite H, <- app_assoc. reflexivity.
Qed.
(* so they are not `quiet`: an error always leaves at least the four bytes of the header slot *)
Corollary build_array_st_error_appends items buf e :
  snd (build_array_st items buf) = Err e -> fst (build_array_st items buf) <> buf.
Proof.
  intros H E. rewrite (build_array_st_error_leaves items buf e H) in E.
  apply (f_equal (@length N)) in E. rewrite !app_length in E. cbn [repeat length] in E. lia.
Qed.

Theorem build_array_w_frame items buf : build_array_w items buf = res_map (app buf) (build_array_w items []).
Proof.
  unfold build_array_w. rewrite (build_array_st_frame items buf).
  destruct (build_array_st items []) as [b r]. cbn [fst snd]. destruct r as [[]|e|]; reflexivity.
Qed.
Theorem build_object_w_frame keys items buf : build_object_w keys items buf = res_map (app buf) (build_object_w keys items []).
Proof.
  unfold build_object_w. rewrite (build_object_st_frame keys items buf).
  destruct (build_object_st keys items []) as [b r]. cbn [fst snd]. destruct r as [[]|e|]; reflexivity.
Qed.

(* ================================================================ EditWalk2.v: the views *)
Lemma object_insert_b_frame value key nv upd buf :
  object_insert_b value key nv upd buf = res_map (app buf) (object_insert_b value key nv upd []).
Proof. apply (view_framed _ (object_insert_b_st_framed value key nv upd)). Qed.
Theorem object_insert_w_frame bs key nv upd buf :
  object_insert_w bs key nv upd buf = res_map (app buf) (object_insert_w bs key nv upd []).
Proof. apply (view_framed _ (object_insert_st_framed bs key nv upd)). Qed.

Lemma object_filter_b_frame keep value buf : object_filter_b keep value buf = res_map (app buf) (object_filter_b keep value []).
Proof. apply (view_framed _ (object_filter_b_st_framed keep value)). Qed.
Theorem object_delete_w_frame bs ks buf : object_delete_w bs ks buf = res_map (app buf) (object_delete_w bs ks []).
Proof. apply (view_framed _ (object_delete_st_framed bs ks)). Qed.
Theorem object_pick_w_frame bs ks buf : object_pick_w bs ks buf = res_map (app buf) (object_pick_w bs ks []).
Proof. apply (view_framed _ (object_pick_st_framed bs ks)). Qed.

Theorem strip_nulls_w_frame bs buf : strip_nulls_w bs buf = res_map (app buf) (strip_nulls_w bs []).
Proof. apply (view_framed _ (strip_nulls_st_framed bs)). Qed.

Theorem delete_by_keypath_w_frame bs ks buf : delete_by_keypath_w bs ks buf = res_map (app buf) (delete_by_keypath_w bs ks []).
Proof. apply (view_framed _ (delete_by_keypath_st_framed bs ks)). Qed.

(* ================================================================ SetWalk.v (array_distinct / intersection / except) *)
From JB Require SetWalk.
Theorem array_distinct_w_frame bs buf : SetWalk.array_distinct_w bs buf = res_map (app buf) (SetWalk.array_distinct_w bs []).
Proof. apply (view_framed _ (array_distinct_st_framed bs)). Qed.
Theorem array_intersection_w_frame l r buf :
  SetWalk.array_intersection_w l r buf = res_map (app buf) (SetWalk.array_intersection_w l r []).
Proof. apply (view_framed _ (array_intersection_st_framed l r)). Qed.
Theorem array_except_w_frame l r buf :
  SetWalk.array_except_w l r buf = res_map (app buf) (SetWalk.array_except_w l r []).
Proof. apply (view_framed _ (array_except_st_framed l r)). Qed.

(* ================================================================ the state functions: all of them, any input *)
Lemma build_array_st_framed items : framed (build_array_st items).
Proof. intros buf. apply build_array_st_frame. Qed.
Lemma build_object_st_framed keys items : framed (build_object_st keys items).
Proof. intros buf. apply build_object_st_frame. Qed.

(* the prefix is preserved in all three outcomes, and the outcome does not depend on it *)
Theorem editors_leave_prefix_on_any_input :
  (forall l r, framed (concat_st l r)) /\
  (forall bs name, framed (delete_by_name_st bs name)) /\
  (forall bs i, framed (delete_by_index_st bs i)) /\
  (forall bs pos nv, framed (array_insert_st bs pos nv)) /\
  (forall items, framed (build_array_st items)) /\
  (forall keys items, framed (build_object_st keys items)) /\
  (forall bs key nv upd, framed (object_insert_st bs key nv upd)) /\
  (forall bs ks, framed (object_delete_st bs ks)) /\
  (forall bs ks, framed (object_pick_st bs ks)) /\
  (forall bs, framed (strip_nulls_st bs)) /\
  (forall bs ks, framed (delete_by_keypath_st bs ks)) /\
  (forall bs, framed (SetWalk.array_distinct_st bs)) /\
  (forall l r, framed (SetWalk.array_intersection_st l r)) /\
  (forall l r, framed (SetWalk.array_except_st l r)).
Proof.
  repeat match goal with |- _ /\ _ => split end; intros.
  - apply concat_st_framed.
  - apply delete_by_name_st_framed.
  - apply delete_by_index_st_framed.
  - apply array_insert_st_framed.
  - apply build_array_st_framed.
  - apply build_object_st_framed.
  - apply object_insert_st_framed.
  - apply object_delete_st_framed.
  - apply object_pick_st_framed.
  - apply strip_nulls_st_framed.
  - apply delete_by_keypath_st_framed.
  - apply array_distinct_st_framed.
  - apply array_intersection_st_framed.
  - apply array_except_st_framed.
Qed.

(* an error return (and a panic) leaves the buffer exactly as it was: the twelve editors, any input, any buffer *)
Definition err_leaves {A} (m : stm A) : Prop :=
  forall buf, (forall e, snd (m buf) = Err e -> fst (m buf) = buf) /\ (snd (m buf) = Panic -> fst (m buf) = buf).
Lemma err_leaves_of_quiet {A} (m : stm A) : quiet m -> err_leaves m.
Proof. intros Q buf. split; [apply (quiet_err m Q)|apply (quiet_panic m Q)]. Qed.

Theorem editors_errors_leave_buffer_on_any_input :
  (forall l r, err_leaves (concat_st l r)) /\
  (forall bs name, err_leaves (delete_by_name_st bs name)) /\
  (forall bs i, err_leaves (delete_by_index_st bs i)) /\
  (forall bs pos nv, err_leaves (array_insert_st bs pos nv)) /\
  (forall bs key nv upd, err_leaves (object_insert_st bs key nv upd)) /\
  (forall bs ks, err_leaves (object_delete_st bs ks)) /\
  (forall bs ks, err_leaves (object_pick_st bs ks)) /\
  (forall bs, err_leaves (strip_nulls_st bs)) /\
  (forall bs ks, err_leaves (delete_by_keypath_st bs ks)) /\
  (forall bs, err_leaves (SetWalk.array_distinct_st bs)) /\
  (forall l r, err_leaves (SetWalk.array_intersection_st l r)) /\
  (forall l r, err_leaves (SetWalk.array_except_st l r)).
Proof.
  repeat match goal with |- _ /\ _ => split end; intros; apply err_leaves_of_quiet.
  - apply concat_st_quiet.
  - apply delete_by_name_st_quiet.
  - apply delete_by_index_st_quiet.
  - apply array_insert_st_quiet.
  - apply object_insert_st_quiet.
  - apply object_delete_st_quiet.
  - apply object_pick_st_quiet.
  - apply strip_nulls_st_quiet.
  - apply delete_by_keypath_st_quiet.
  - apply array_distinct_st_quiet.
  - apply array_intersection_st_quiet.
  - apply array_except_st_quiet.
Qed.

(* ================================================================ all of them, in the form the property states *)
Definition appends_only (f : list N -> res (list N)) : Prop :=
  forall buf, match f [] with
              | Ok out => f buf = Ok (buf ++ out)
              | Err e => f buf = Err e
              | Panic => f buf = Panic
              end.
Lemma appends_only_of_res_map f : (forall buf, f buf = res_map (app buf) (f [])) -> appends_only f.
Proof. intros H buf. rewrite (H buf). destruct (f []); reflexivity. Qed.

Theorem editors_append_on_any_input :
  (forall l r, appends_only (concat_w l r)) /\
  (forall bs name, appends_only (delete_by_name_w bs name)) /\
  (forall bs i, appends_only (delete_by_index_w bs i)) /\
  (forall bs pos nv, appends_only (array_insert_w bs pos nv)) /\
  (forall items, appends_only (build_array_w items)) /\
  (forall keys items, appends_only (build_object_w keys items)) /\
  (forall bs key nv upd, appends_only (object_insert_w bs key nv upd)) /\
  (forall bs ks, appends_only (object_delete_w bs ks)) /\
  (forall bs ks, appends_only (object_pick_w bs ks)) /\
  (forall bs, appends_only (strip_nulls_w bs)) /\
  (forall bs ks, appends_only (delete_by_keypath_w bs ks)) /\
  (forall bs, appends_only (SetWalk.array_distinct_w bs)) /\
  (forall l r, appends_only (SetWalk.array_intersection_w l r)) /\
  (forall l r, appends_only (SetWalk.array_except_w l r)).
Proof.
  repeat split; intros; apply appends_only_of_res_map; intros buf.
  - apply concat_w_frame.
  - apply delete_by_name_w_frame.
  - apply delete_by_index_w_frame.
  - apply array_insert_w_frame.
  - apply build_array_w_frame.
  - apply build_object_w_frame.
  - apply object_insert_w_frame.
  - apply object_delete_w_frame.
  - apply object_pick_w_frame.
  - apply strip_nulls_w_frame.
  - apply delete_by_keypath_w_frame.
  - apply array_distinct_w_frame.
  - apply array_intersection_w_frame.
  - apply array_except_w_frame.
Qed.
