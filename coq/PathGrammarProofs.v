(* PathGrammarProofs.v — the JSONPath parser model (PathParse.parse_json_path) against the grammar of PathGrammar.v.
   completeness: every text of the grammar is accepted with the meaning the grammar gives it (the ordered choices of the
   parser never commit to a wrong alternative); layout: keywords, indices, index lists, steps, runs of steps, numbers,
   literals, operands, the three expression levels with filters and exists (one mutual induction), whole paths. *)
From Coq Require Import List NArith ZArith Bool Lia.
Import ListNotations.
From JB Require Import Constants Bytes Utf8 Num Value Decimal JsonText TreeOps Path PathParse TextProofs TextRoundtrip
  PathParseProofs KeyPathRoundtrip PathSafe PathRoundtrip JsonGrammar JsonGrammarProofs KeyPathGrammar KeyPathGrammarProofs PathGrammar.
Open Scope N_scope.
Set Default Timeout 60.

Ltac len_all H := repeat (progress cbn [length app] in H || rewrite app_length in H).
Ltac norm := repeat (progress (rewrite <- ?app_assoc; cbn [app])).
Ltac norm_in H := repeat (progress (rewrite <- ?app_assoc in H; cbn [app] in H)).

(* ================================================================== generic facts *)
Definition head_nonspace (t : list N) : Prop := exists c r, t = c :: r /\ is_space c = false.
Lemma ms_item w t x : pws w -> head_nonspace t -> multispace0 (w ++ t ++ x) = t ++ x.
Proof. intros Hw (c & r & -> & Hc). apply multispace0_pws; [exact Hw|exact Hc]. Qed.
Lemma ms_item0 t x : head_nonspace t -> multispace0 (t ++ x) = t ++ x.
Proof. intros H. apply (ms_item [] t x); [constructor|exact H]. Qed.
Lemma ms_pws_cons w c x : pws w -> is_space c = false -> multispace0 (w ++ c :: x) = c :: x.
Proof. intros Hw Hc. apply multispace0_pws; [exact Hw|exact Hc]. Qed.

(* X starts with one of two given bytes *)
Definition closes (a b : N) (X : list N) : Prop := exists c r, X = c :: r /\ (c = a \/ c = b).

(* ================================================================== keywords *)
Lemma ascii_lower_inv a x : ascii_lower a = x -> 97 <= x <= 122 -> a = x \/ a = x - 32.
Proof.
  unfold ascii_lower. destruct ((65 <=? a) && (a <=? 90)) eqn:E; intros H Hx; [right|left; exact H].
  apply andb_true_iff in E. destruct E as [E1 E2]. apply N.leb_le in E1. apply N.leb_le in E2. lia.
Qed.
Lemma ascii_lower_fix x : 97 <= x <= 122 -> ascii_lower x = x.
Proof. intros H. unfold ascii_lower. replace (x <=? 90) with false by (symmetry; apply N.leb_gt; lia). rewrite andb_false_r. reflexivity. Qed.

Lemma ptag_nc_complete word : Forall (fun c => 97 <= c <= 122) word -> forall t rest, keyword word t ->
  ptag_no_case word (t ++ rest) = POk rest tt.
Proof.
  unfold keyword. induction 1 as [|c word Hc _ IH]; intros t rest H; destruct t as [|a t]; try discriminate H; [reflexivity|].
  cbn [map] in H. injection H as Ha Ht. cbn [app ptag_no_case]. rewrite Ha, (ascii_lower_fix c Hc), N.eqb_refl. apply IH. exact Ht.
Qed.
Lemma ptag_nc_sound word : Forall (fun c => 97 <= c <= 122) word -> forall bs r u, ptag_no_case word bs = POk r u ->
  exists t, bs = t ++ r /\ keyword word t.
Proof.
  unfold keyword. induction 1 as [|c word Hc _ IH]; intros bs r u H; cbn [ptag_no_case] in H.
  - injection H as <-. exists []. split; reflexivity.
  - destruct bs as [|a bs]; [discriminate H|]. destruct (ascii_lower a =? ascii_lower c) eqn:E; [|discriminate H].
    apply N.eqb_eq in E. rewrite (ascii_lower_fix c Hc) in E. destruct (IH _ _ _ H) as (t & -> & Ht).
    exists (a :: t). split; [reflexivity|]. cbn [map]. rewrite E, Ht. reflexivity.
Qed.
Lemma kw_last_ok : Forall (fun c => 97 <= c <= 122) KW_LAST. Proof. repeat constructor; lia. Qed.
Lemma kw_to_ok : Forall (fun c => 97 <= c <= 122) KW_TO. Proof. repeat constructor; lia. Qed.
Lemma kw_nan_ok : Forall (fun c => 97 <= c <= 122) KW_NAN. Proof. repeat constructor; lia. Qed.
Lemma kw_inf_ok : Forall (fun c => 97 <= c <= 122) KW_INF. Proof. repeat constructor; lia. Qed.

(* the first byte of a keyword spelling *)
Lemma keyword_head c word t : keyword (c :: word) t -> 97 <= c <= 122 -> exists a r, t = a :: r /\ (a = c \/ a = c - 32) /\ keyword word r.
Proof.
  unfold keyword. intros H Hc. destruct t as [|a r]; [discriminate H|]. cbn [map] in H. injection H as Ha Hr.
  exists a, r. split; [reflexivity|]. split; [apply ascii_lower_inv; assumption|exact Hr].
Qed.

(* ================================================================== signed integers, again *)
Lemma signed_int_head t v : signed_int t v ->
  exists c r, t = c :: r /\ is_space c = false /\ (is_digit c = true \/ c = 43 \/ c = 45) /\ c <> 42.
Proof.
  intros [ds Hne Hd|ds Hne Hd|ds Hne Hd]; try (eexists; eexists; split; [reflexivity|split; [reflexivity|split; [tauto|discriminate]]]).
  destruct (digits_head ds Hne Hd) as (d & r & -> & Hdd). exists d, r. split; [reflexivity|].
  destruct (digit_head_facts d Hdd) as [H1 H2]. split; [exact H1|]. split; [tauto|]. apply N.eqb_neq. exact H2.
Qed.

(* ================================================================== one index *)
Definition index_follow (rest : list N) : Prop :=
  no_digit_next rest /\ match multispace0 rest with [] => True | c :: _ => c <> 45 /\ c <> 43 end.
Lemma index_follow_sign rest k : index_follow rest -> k = 45 \/ k = 43 -> pchar k (multispace0 rest) = PErr.
Proof.
  intros [_ H] Hk. destruct (multispace0 rest) as [|c r]; [reflexivity|]. cbn [pchar]. destruct H as [H1 H2].
  replace (c =? k) with false; [reflexivity|]. symmetry. apply N.eqb_neq. destruct Hk; subst; assumption.
Qed.

Lemma last_head k : keyword KW_LAST k -> exists a r, k = a :: r /\ (a = 108 \/ a = 76).
Proof. intros H. destruct (keyword_head 108 _ k H ltac:(lia)) as (a & r & -> & Ha & _). exists a, r. split; [reflexivity|exact Ha]. Qed.
Lemma pi32_last k x : keyword KW_LAST k -> pi32 (k ++ x) = PErr.
Proof.
  intros H. destruct (last_head k H) as (a & r & -> & Ha). cbn [app]. unfold pi32.
  destruct Ha as [-> | ->]; apply pint_nonstart; try reflexivity; discriminate.
Qed.

Lemma pindex_eq bs : pindex bs =
  palt (pmap IIndex (pi32 bs)) (fun _ =>
  palt (pdo (r1, _) <- ptag_no_case KW_LAST bs;
        pdo (r2, _) <- pchar 45 (multispace0 r1);
        pdo (r3, v) <- pi64 (multispace0 r2);
        match last_minus v with Some n => POk r3 (ILast n) | None => PErr end) (fun _ =>
  palt (pdo (r1, _) <- ptag_no_case KW_LAST bs;
        pdo (r2, _) <- pchar 43 (multispace0 r1);
        pdo (r3, v) <- pi32 (multispace0 r2);
        POk r3 (ILast v)) (fun _ =>
        pmap (fun _ => ILast 0) (ptag_no_case KW_LAST bs)))).
Proof. reflexivity. Qed.

Lemma last_minus_ok v : in_i32 (- v) -> last_minus v = Some (- v)%Z.
Proof.
  unfold in_i32, last_minus. intros H. replace (v =? - two63)%Z with false by (symmetry; apply Z.eqb_neq; unfold two63; lia).
  replace ((-2147483648 <=? - v) && (- v <=? 2147483647))%Z with true; [reflexivity|].
  symmetry. apply andb_true_iff. split; apply Z.leb_le; lia.
Qed.

Theorem pindex_complete t i rest : index_text t i -> index_follow rest -> pindex (t ++ rest) = POk rest i.
Proof.
  intros Ht Hr. pose proof (proj1 Hr) as Hnd. rewrite pindex_eq. destruct Ht as [t i Hs Hi|k Hk|k w1 w2 t v Hk H1 H2 Hs Hv|k w1 w2 t v Hk H1 H2 Hs Hv].
  - unfold pi32. rewrite (pint_complete (-2147483648) 2147483647 t i rest ltac:(lia) Hs Hi Hnd). reflexivity.
  - rewrite (pi32_last k rest Hk), (ptag_nc_complete _ kw_last_ok k rest Hk). cbn [pmap pbind palt].
    rewrite (index_follow_sign rest 45 Hr ltac:(tauto)), (index_follow_sign rest 43 Hr ltac:(tauto)). reflexivity.
  - norm. rewrite (pi32_last k _ Hk), (ptag_nc_complete _ kw_last_ok k _ Hk). cbn [pmap pbind palt].
    rewrite (ms_pws_cons w1 45 _ H1 eq_refl). cbn [pchar]. change (45 =? 45) with true. cbv iota. cbn [pbind].
    destruct (signed_int_head t v Hs) as (c & r & E & Hc & _).
    rewrite (ms_item w2 t rest H2 ltac:(exists c, r; split; assumption)).
    unfold pi64. rewrite (pint_complete (- two63) (two63 - 1) t v rest ltac:(unfold two63; lia) Hs ltac:(unfold in_i32 in Hv; unfold two63; lia) Hnd).
    cbn [pbind]. rewrite (last_minus_ok v Hv). reflexivity.
  - norm. rewrite (pi32_last k _ Hk), (ptag_nc_complete _ kw_last_ok k _ Hk). cbn [pmap pbind palt].
    rewrite (ms_pws_cons w1 43 _ H1 eq_refl). cbn [pchar]. change (43 =? 45) with false. change (43 =? 43) with true. cbv iota. cbn [pbind palt].
    destruct (signed_int_head t v Hs) as (c & r & E & Hc & _).
    rewrite (ms_item w2 t rest H2 ltac:(exists c, r; split; assumption)).
    unfold pi32. rewrite (pint_complete (-2147483648) 2147483647 t v rest ltac:(lia) Hs Hv Hnd). reflexivity.
Qed.

Lemma index_text_head t i : index_text t i -> exists c r, t = c :: r /\ is_space c = false /\ c <> 42 /\ c <> 34.
Proof.
  assert (K : forall k x, keyword KW_LAST k -> exists c r, k ++ x = c :: r /\ is_space c = false /\ c <> 42 /\ c <> 34).
  { intros k x Hk. destruct (last_head k Hk) as (a & r & -> & Ha). exists a, (r ++ x). split; [reflexivity|].
    destruct Ha as [-> | ->]; repeat split; discriminate. }
  intros [t0 i0 Hs _|k Hk|k w1 w2 t0 v Hk _ _ _ _|k w1 w2 t0 v Hk _ _ _ _]; try apply K; try assumption.
  - destruct (signed_int_head t0 i0 Hs) as (c & r & -> & H1 & H2 & H3). exists c, r. split; [reflexivity|]. split; [exact H1|]. split; [exact H3|].
    destruct H2 as [H2|[->| ->]]; try discriminate. intros ->. discriminate H2.
  - destruct (K k [] Hk) as (c & r & E & H). rewrite app_nil_r in E. exists c, r. split; assumption.
Qed.

(* ================================================================== one array index, possibly a range *)
(* what follows an item of a bracketed list: spacing, then a comma or the closing bracket *)
Definition after_item (close : N) (rest : list N) : Prop := exists w X, rest = w ++ X /\ pws w /\ closes 44 close X.
Lemma closes_nonspace a b X : is_space a = false -> is_space b = false -> closes a b X -> exists c r, X = c :: r /\ is_space c = false /\ (c = a \/ c = b).
Proof. intros Ha Hb (c & r & -> & Hc). exists c, r. split; [reflexivity|]. split; [destruct Hc as [-> | ->]; assumption|exact Hc]. Qed.

Lemma after_item_facts rest : after_item 93 rest ->
  index_follow rest /\ ptag_no_case KW_TO (multispace0 rest) = PErr /\ closes 44 93 (multispace0 rest).
Proof.
  intros (w & X & -> & Hw & HX). destruct (closes_nonspace 44 93 X eq_refl eq_refl HX) as (c & r & -> & Hsp & Hc).
  rewrite (ms_pws_cons w c r Hw Hsp).
  split; [split|split].
  - destruct Hw as [|c0 w Hc0 Hw]; cbn [app no_digit_next]; [destruct Hc as [-> | ->]; reflexivity|destruct Hc0 as [->|[->|[->| ->]]]; reflexivity].
  - rewrite (ms_pws_cons w c r Hw Hsp). destruct Hc as [-> | ->]; split; discriminate.
  - destruct Hc as [-> | ->]; reflexivity.
  - exists c, r. split; [reflexivity|exact Hc].
Qed.

Lemma parray_index_eq bs : parray_index bs =
  palt (pdo (r1, s) <- pindex bs;
        pdo (r2, _) <- ptag_no_case KW_TO (multispace0 r1);
        pdo (r3, e) <- pindex (multispace0 r2);
        POk r3 (ASlice s e)) (fun _ => pmap AIndex (pindex bs)).
Proof. reflexivity. Qed.

Lemma to_head k : keyword KW_TO k -> exists a r, k = a :: r /\ (a = 116 \/ a = 84).
Proof. intros H. destruct (keyword_head 116 _ k H ltac:(lia)) as (a & r & -> & Ha & _). exists a, r. split; [reflexivity|exact Ha]. Qed.

Theorem parray_index_complete t a rest : array_index_text t a -> after_item 93 rest -> parray_index (t ++ rest) = POk rest a.
Proof.
  intros Ht Hr. destruct (after_item_facts rest Hr) as (Hf & Hto & _). rewrite parray_index_eq.
  destruct Ht as [t i Hi|t1 s w1 k w2 t2 e Hs H1 Hk H2 He].
  - rewrite (pindex_complete t i rest Hi Hf). cbn [pbind]. rewrite Hto. reflexivity.
  - rewrite <- !app_assoc. destruct (to_head k Hk) as (a & r & Ek & Ha).
    assert (F1 : index_follow (w1 ++ k ++ w2 ++ t2 ++ rest)).
    { assert (Hsa : is_space a = false) by (destruct Ha as [-> | ->]; reflexivity).
      rewrite Ek. cbn [app]. split.
      - destruct H1 as [|c0 w Hc0 Hw]; cbn [app no_digit_next]; [destruct Ha as [-> | ->]; reflexivity|destruct Hc0 as [->|[->|[->| ->]]]; reflexivity].
      - rewrite (ms_pws_cons w1 a _ H1 Hsa). destruct Ha as [-> | ->]; split; discriminate. }
    rewrite (pindex_complete t1 s _ Hs F1). cbn [pbind].
    assert (Hk' : head_nonspace k) by (exists a, r; split; [exact Ek|destruct Ha as [-> | ->]; reflexivity]).
    rewrite (ms_item w1 k _ H1 Hk'), (ptag_nc_complete _ kw_to_ok k _ Hk). cbn [pbind].
    destruct (index_text_head t2 e He) as (c & r2 & E2 & Hc & _).
    rewrite (ms_item w2 t2 rest H2 ltac:(exists c, r2; split; assumption)), (pindex_complete t2 e rest He Hf). reflexivity.
Qed.

Lemma array_index_text_head t a : array_index_text t a -> exists c r, t = c :: r /\ is_space c = false /\ c <> 42 /\ c <> 34.
Proof.
  intros [t0 i Hi|t1 s w1 k w2 t2 e Hs _ _ _ _]; [apply (index_text_head t0 i Hi)|].
  destruct (index_text_head t1 s Hs) as (c & r & -> & H). exists c, (r ++ w1 ++ k ++ w2 ++ t2). split; [reflexivity|exact H].
Qed.

Lemma array_index_text_nonspace t a : array_index_text t a -> head_nonspace t.
Proof. intros H. destruct (array_index_text_head t a H) as (c & r & E & Hc & _). exists c, r. split; assumption. Qed.

(* ================================================================== comma-separated lists in brackets *)
Section CommaList.
  Context {A : Type}.
  Variable f : list N -> pres A.
  Variable item : list N -> A -> Prop.
  Variable close : N.
  Hypothesis Hclose : is_space close = false /\ close <> 44.
  Hypothesis Hf : forall t a rest, item t a -> after_item close rest -> f (t ++ rest) = POk rest a.
  Hypothesis Hhead : forall t a, item t a -> head_nonspace t.

  Lemma ws_item_complete w1 t a w2 X : pws w1 -> item t a -> pws w2 -> closes 44 close X ->
    ws_around f (w1 ++ t ++ w2 ++ X) = POk X a.
  Proof.
    intros H1 Ht H2 HX. unfold ws_around. rewrite (ms_item w1 t _ H1 (Hhead t a Ht)).
    rewrite (Hf t a (w2 ++ X) Ht ltac:(exists w2, X; repeat split; assumption)). cbn [pbind].
    destruct (closes_nonspace 44 close X eq_refl (proj1 Hclose) HX) as (c & r & -> & Hsp & _). rewrite (ms_pws_cons w2 c r H2 Hsp). reflexivity.
  Qed.

  Lemma comma_list_nonempty ts l : comma_list item ts l -> (0 < length ts)%nat.
  Proof.
    assert (L : forall t a, item t a -> (0 < length t)%nat) by (intros t a Ht; destruct (Hhead t a Ht) as (c & r & -> & _); cbn [length]; lia).
    intros [w1 t a w2 _ Ht _|w1 t a w2 ts0 l0 _ Ht _ _]; specialize (L t a Ht); rewrite !app_length; lia.
  Qed.

  Lemma comma_loop_complete ts l : comma_list item ts l -> forall fuel acc tail, (length ts < fuel)%nat ->
    sep_loop (ws_around f) (pchar 44) fuel (44 :: ts ++ close :: tail) acc = POk (close :: tail) (rev acc ++ l).
  Proof.
    assert (Hc : (close =? 44) = false) by (apply N.eqb_neq; exact (proj2 Hclose)).
    induction 1 as [w1 t a w2 H1 Ht H2|w1 t a w2 ts l H1 Ht H2 Hs IH]; intros fuel acc tail Hfu.
    - pose proof (comma_list_nonempty _ _ (CL_one item w1 t a w2 H1 Ht H2)) as L.
      destruct fuel as [|[|fuel]]; try lia. cbn [sep_loop pchar]. change (44 =? 44) with true. cbv iota. rewrite length_neq_succ.
      rewrite <- !app_assoc.
      rewrite (ws_item_complete w1 t a w2 (close :: tail) H1 Ht H2 ltac:(eexists; eexists; split; [reflexivity|right; reflexivity])).
      cbn [sep_loop pchar]. rewrite Hc. cbn [rev]. reflexivity.
    - destruct fuel as [|fuel]; [lia|]. cbn [sep_loop pchar]. change (44 =? 44) with true. cbv iota. rewrite length_neq_succ.
      rewrite <- !app_assoc. cbn [app].
      rewrite (ws_item_complete w1 t a w2 (44 :: ts ++ close :: tail) H1 Ht H2 ltac:(eexists; eexists; split; [reflexivity|left; reflexivity])).
      rewrite IH by (len_all Hfu; lia). cbn [rev]. rewrite <- app_assoc. reflexivity.
  Qed.

  Lemma comma_list_complete ts l tail : comma_list item ts l ->
    separated_list1 (ws_around f) (pchar 44) (ts ++ close :: tail) = POk (close :: tail) l.
  Proof.
    assert (Hc : (close =? 44) = false) by (apply N.eqb_neq; exact (proj2 Hclose)).
    intros H. unfold separated_list1. destruct H as [w1 t a w2 H1 Ht H2|w1 t a w2 ts l H1 Ht H2 Hs].
    - rewrite <- !app_assoc.
      rewrite (ws_item_complete w1 t a w2 (close :: tail) H1 Ht H2 ltac:(eexists; eexists; split; [reflexivity|right; reflexivity])).
      cbn [pbind length sep_loop pchar]. rewrite Hc. reflexivity.
    - rewrite <- !app_assoc. cbn [app].
      rewrite (ws_item_complete w1 t a w2 (44 :: ts ++ close :: tail) H1 Ht H2 ltac:(eexists; eexists; split; [reflexivity|left; reflexivity])).
      cbn [pbind]. rewrite (comma_loop_complete ts l Hs) by (cbn [length]; rewrite app_length; lia). reflexivity.
  Qed.

  (* the list starts, after spacing, with the first byte of an item *)
  Lemma comma_list_head ts l x : comma_list item ts l -> exists t a y, item t a /\ multispace0 (ts ++ x) = t ++ y.
  Proof.
    intros [w1 t a w2 H1 Ht H2|w1 t a w2 ts0 l0 H1 Ht H2 _]; exists t, a; eexists; (split; [exact Ht|]);
      rewrite <- !app_assoc; apply ms_item; try assumption; apply (Hhead t a Ht).
  Qed.
End CommaList.

Theorem array_indices_complete ts l rest : index_list_text ts l -> array_indices (91 :: ts ++ 93 :: rest) = POk rest l.
Proof.
  intros H. unfold array_indices. cbn [pchar]. change (91 =? 91) with true. cbv iota. cbn [pbind].
  rewrite (comma_list_complete parray_index array_index_text 93 ltac:(split; [reflexivity|discriminate])
             parray_index_complete array_index_text_nonspace ts l rest H).
  cbn [pbind pchar]. change (93 =? 93) with true. cbv iota. reflexivity.
Qed.

(* ================================================================== one step *)
Lemma inner_path_bracket x : inner_path (91 :: x) =
  palt (pmap (fun _ => PBracketWild) (bracket_wildcard (91 :: x))) (fun _ =>
  palt (pmap PIndices (array_indices (91 :: x))) (fun _ => pmap PObjectField (object_field (91 :: x)))).
Proof. reflexivity. Qed.
Lemma bracket_wildcard_not w c y : pws w -> is_space c = false -> c <> 42 -> bracket_wildcard (91 :: w ++ c :: y) = PErr.
Proof.
  intros Hw Hs Hc. unfold bracket_wildcard. cbn [pchar]. change (91 =? 91) with true. cbv iota. cbn [pbind].
  rewrite (ms_pws_cons w c y Hw Hs). cbn [pchar]. apply N.eqb_neq in Hc. rewrite Hc. reflexivity.
Qed.
Lemma array_indices_not_quote w y : pws w -> array_indices (91 :: w ++ 34 :: y) = PErr.
Proof.
  intros Hw. unfold array_indices. cbn [pchar]. change (91 =? 91) with true. cbv iota. cbn [pbind].
  unfold separated_list1, ws_around. rewrite (ms_pws_cons w 34 y Hw eq_refl). reflexivity.
Qed.

Lemma bare_name_first t s : bare_name t s -> exists c r, t = c :: r /\ c <> 34 /\ c <> 42 /\ is_space c = false.
Proof.
  intros H. destruct (bare_name_head t s H) as (c & r & -> & Hc). exists c, r. split; [reflexivity|].
  destruct (bare_head_facts c Hc) as (N34 & _ & _ & Hsp). split; [exact N34|]. split; [|exact Hsp].
  destruct Hc as [-> | Hd]; [discriminate|]. not_delim Hd.
Qed.
Lemma quoted_name_first t s : quoted_name t s -> exists r, t = 34 :: r.
Proof. intros [b s' _ _]. eexists. reflexivity. Qed.

Lemma field_bare t s rest : bare_name t s -> name_end rest ->
  palt (pstring (t ++ rest)) (fun _ => raw_string (t ++ rest)) = POk rest s /\ exists b r, t = b :: r /\ (b =? 42) = false.
Proof.
  intros Hb Hr. destruct (bare_name_first t s Hb) as (c & r & E & N34 & N42 & _). split; [|exists c, r; split; [exact E|apply N.eqb_neq; exact N42]].
  rewrite (raw_string_complete t s rest Hb Hr). rewrite E. cbn [app]. rewrite (pstring_not_quote c _ N34). reflexivity.
Qed.
Lemma field_quoted t s rest : quoted_name t s ->
  palt (pstring (t ++ rest)) (fun _ => raw_string (t ++ rest)) = POk rest s.
Proof. intros Hq. rewrite (pstring_complete t s rest Hq). reflexivity. Qed.

Theorem step_complete t p rest : step_text t p -> name_end rest -> inner_path (t ++ rest) = POk rest p.
Proof.
  intros Ht Hr. destruct Ht as [|w1 w2 H1 H2|t s Hb|t s Hq|t s Hb|t s Hq|w1 t s w2 H1 Hq H2|t l Hl].
  - reflexivity.
  - norm. rewrite inner_path_bracket. unfold bracket_wildcard. cbn [pchar]. change (91 =? 91) with true. cbv iota. cbn [pbind].
    rewrite (ms_pws_cons w1 42 _ H1 eq_refl). cbn [pchar]. change (42 =? 42) with true. cbv iota. cbn [pbind].
    rewrite (ms_pws_cons w2 93 _ H2 eq_refl). reflexivity.
  - destruct (field_bare t s rest Hb Hr) as (F & b & r & E & Hb42). cbn [app]. rewrite E in *. cbn [app] in *. apply inner_path_dot; assumption.
  - pose proof (field_quoted t s rest Hq) as F. destruct (quoted_name_first t s Hq) as (r & E). cbn [app]. rewrite E in *. cbn [app] in *.
    apply inner_path_dot; [reflexivity|exact F].
  - destruct (field_bare t s rest Hb Hr) as (F & _). cbn [app]. apply inner_path_colon. exact F.
  - cbn [app]. apply inner_path_colon. apply field_quoted. exact Hq.
  - norm. destruct (quoted_name_first t s Hq) as (r & E).
    rewrite inner_path_bracket. rewrite E. cbn [app]. rewrite (bracket_wildcard_not w1 34 _ H1 eq_refl ltac:(discriminate)).
    rewrite (array_indices_not_quote w1 _ H1). cbn [pmap pbind palt].
    unfold object_field. cbn [pchar]. change (91 =? 91) with true. cbv iota. cbn [pbind].
    rewrite (ms_pws_cons w1 34 _ H1 eq_refl). change (34 :: r ++ w2 ++ 93 :: rest) with ((34 :: r) ++ w2 ++ 93 :: rest). rewrite <- E.
    rewrite (pstring_complete t s _ Hq). cbn [pbind]. rewrite (ms_pws_cons w2 93 _ H2 eq_refl). cbn [pchar]. change (93 =? 93) with true. reflexivity.
  - norm. rewrite inner_path_bracket.
    destruct (comma_list_head array_index_text array_index_text_nonspace t l (93 :: rest) Hl) as (t0 & a0 & y & Ht0 & M).
    destruct (array_index_text_head t0 a0 Ht0) as (c & r & -> & Hsp & N42 & _).
    assert (B : bracket_wildcard (91 :: t ++ 93 :: rest) = PErr).
    { unfold bracket_wildcard. cbn [pchar]. change (91 =? 91) with true. cbv iota. cbn [pbind]. rewrite M. cbn [app pchar].
      apply N.eqb_neq in N42. rewrite N42. reflexivity. }
    rewrite B, (array_indices_complete t l rest Hl). reflexivity.
Qed.

Lemma step_text_head t p : step_text t p -> exists c r, t = c :: r /\ (c = 46 \/ c = 58 \/ c = 91).
Proof. intros []; eexists; eexists; (split; [reflexivity|tauto]). Qed.
Lemma step_head_nonspace t p : step_text t p -> head_nonspace t.
Proof. intros H. destruct (step_text_head t p H) as (c & r & -> & [->|[->| ->]]); eexists; eexists; split; reflexivity. Qed.

(* ================================================================== runs of items, each preceded by spacing *)
Section Spaced.
  Context {A : Type}.
  Variable f : list N -> pres A.
  Variable item : list N -> A -> Prop.
  Variable follow : list N -> Prop.
  Hypothesis Hf : forall t a rest x, item t a -> follow rest -> multispace0 x = t ++ rest -> f x = POk (multispace0 rest) a.
  Hypothesis Hhead : forall t a, item t a -> head_nonspace t.
  Hypothesis Hfollow : forall w t a y, pws w -> item t a -> follow (w ++ t ++ y).

  Lemma many0_spaced ts l : spaced item ts l -> forall rest, follow rest -> (forall x, multispace0 x = multispace0 rest -> f x = PErr) ->
    forall x acc fuel, multispace0 x = multispace0 (ts ++ rest) -> (length l < fuel)%nat ->
    exists r', many0 f fuel x acc = POk r' (rev acc ++ l) /\ multispace0 r' = multispace0 rest.
  Proof.
    induction 1 as [|w t a ts l Hw Ht Hs IH]; intros rest Hr Hstop x acc fuel Hx Hfu; (destruct fuel as [|fuel]; [cbn [length] in Hfu; lia|]); cbn [many0].
    - cbn [app] in Hx. rewrite (Hstop x Hx). exists x. rewrite app_nil_r. split; [reflexivity|exact Hx].
    - rewrite <- !app_assoc in Hx. rewrite (ms_item w t _ Hw (Hhead t a Ht)) in Hx.
      assert (Fo : follow (ts ++ rest)) by (destruct Hs as [|w' t' a' ts' l' Hw' Ht' _]; [exact Hr|rewrite <- !app_assoc; apply (Hfollow w' t' a'); assumption]).
      rewrite (Hf t a (ts ++ rest) x Ht Fo Hx).
      assert (L : (length (multispace0 (ts ++ rest)) =? length x)%nat = false).
      { apply Nat.eqb_neq. pose proof (ms_len (ts ++ rest)) as L1. pose proof (ms_len x) as L2. rewrite Hx in L2.
        destruct (Hhead t a Ht) as (c & r & -> & _). rewrite app_length in L2. cbn [length] in L2. lia. }
      rewrite L.
      destruct (IH rest Hr Hstop (multispace0 (ts ++ rest)) (a :: acc) fuel (ms_idem _)) as (r' & E & M).
      { cbn [length] in Hfu. lia. }
      exists r'. rewrite E. cbn [rev]. rewrite <- app_assoc. split; [reflexivity|exact M].
  Qed.

End Spaced.

(* every item has at least one byte that is not leading spacing *)
Lemma spaced_count {A} (item : list N -> A -> Prop) (Hhead : forall t a, item t a -> head_nonspace t) ts l rest :
  spaced item ts l -> (length l <= length (multispace0 (ts ++ rest)))%nat.
Proof.
  induction 1 as [|w t a ts l Hw Ht Hs IH]; [cbn [length]; lia|].
  rewrite <- !app_assoc, (ms_item w t _ Hw (Hhead t a Ht)). destruct (Hhead t a Ht) as (c & r & -> & _).
  pose proof (ms_len (ts ++ rest)) as L. cbn [length app]. rewrite !app_length. rewrite app_length in L. lia.
Qed.
Lemma spaced_len {A} (item : list N -> A -> Prop) (Hhead : forall t a, item t a -> head_nonspace t) ts l :
  spaced item ts l -> (length l <= length ts)%nat.
Proof. intros H. pose proof (spaced_count item Hhead ts l [] H) as C. pose proof (ms_len (ts ++ [])) as L. rewrite app_nil_r in *. lia. Qed.


Lemma name_end_spaced w t y : pws w -> (exists c r, t = c :: r /\ is_delim c = true) -> name_end (w ++ t ++ y).
Proof.
  intros Hw (c & r & -> & Hc). destruct Hw as [|c0 w Hc0 Hw]; cbn [app name_end]; [exact Hc|]. destruct Hc0 as [->|[->|[->| ->]]]; reflexivity.
Qed.

Theorem steps_complete ts ps : steps_text ts ps -> forall rest, name_end rest -> inner_path (multispace0 rest) = PErr ->
  forall x acc fuel, multispace0 x = multispace0 (ts ++ rest) -> (length ts < fuel)%nat ->
  exists r', many0 (ws_around inner_path) fuel x acc = POk r' (rev acc ++ ps) /\ multispace0 r' = multispace0 rest.
Proof.
  intros Hs rest Hr Hstop x acc fuel Hx Hfu.
  assert (Hfu' : (length ps < fuel)%nat) by (pose proof (spaced_len step_text step_head_nonspace ts ps Hs); lia).
  revert x acc fuel Hx Hfu' Hfu. intros x acc fuel Hx Hfu' _. revert x acc fuel Hx Hfu'.
  apply (many0_spaced (ws_around inner_path) step_text name_end); try assumption.
  - intros t a r x Ht Hfo Hx. unfold ws_around. rewrite Hx, (step_complete t a r Ht Hfo). reflexivity.
  - apply step_head_nonspace.
  - intros w t a y Hw Ht. apply name_end_spaced; [exact Hw|]. destruct (step_text_head t a Ht) as (c & r & -> & [->|[->| ->]]); eexists; eexists; split; reflexivity.
  - intros x Hx. unfold ws_around. rewrite Hx, Hstop. reflexivity.
Qed.

(* ================================================================== numbers *)
Lemma ends_number_facts rest : ends_number rest -> no_digit_next rest /\ not_float_tail rest = true.
Proof.
  destruct rest as [|c r]; [intros _; split; [exact I|reflexivity]|]. cbn [ends_number no_digit_next not_float_tail].
  intros (H1 & H2 & H3 & H4). split; [exact H1|]. apply N.eqb_neq in H2. apply N.eqb_neq in H3. apply N.eqb_neq in H4. rewrite H2, H3, H4. reflexivity.
Qed.

(* a maximal run of digits is read completely, or the reader overflows *)
Lemma int_digits_total neg lo hi ds T : digit_list ds -> no_digit_next T -> forall acc any, ds <> [] \/ any = true ->
  int_digits neg lo hi (ds ++ T) acc any = PErr \/
  int_digits neg lo hi (ds ++ T) acc any = POk T (if neg then ndigits_val ds acc else digits_val ds acc).
Proof.
  intros Hd HT. induction Hd as [|d ds Hdd Hds IH]; intros acc any Hne.
  - destruct Hne as [Hne | ->]; [contradiction Hne; reflexivity|]. right. cbn [app ndigits_val digits_val].
    destruct T as [|c r]; cbn [int_digits]; [destruct neg; reflexivity|]. cbn [no_digit_next] in HT. rewrite HT. destruct neg; reflexivity.
  - cbn [app int_digits]. rewrite Hdd. cbv zeta.
    match goal with |- context [if ?c then PErr else _] => destruct c end; [left; reflexivity|]. cbn [ndigits_val digits_val].
    destruct neg; apply IH; right; reflexivity.
Qed.
Lemma int_digits_none neg lo hi T : no_digit_next T -> int_digits neg lo hi T 0 false = PErr.
Proof. destruct T as [|c r]; [reflexivity|]. cbn [no_digit_next int_digits]. intros ->. reflexivity. Qed.

Lemma digits_then (neg : bool) (lo hi : Z) (ids T : list N) (g : Z -> pvalue) : digit_list ids -> no_digit_next T -> (lo <= 0 <= hi)%Z ->
  (not_float_tail T = false \/ ids = [] \/ ~ (lo <= (if neg then - digits_val ids 0 else digits_val ids 0) <= hi)%Z) ->
  (pdo (r, v) <- int_digits neg lo hi (ids ++ T) 0 false; if not_float_tail r then POk r (g v) else PErr) = PErr.
Proof.
  intros Hd HT Hb Hc. destruct ids as [|d ids].
  - cbn [app]. rewrite (int_digits_none neg lo hi T HT). reflexivity.
  - destruct (int_digits_total neg lo hi (d :: ids) T Hd HT 0%Z false ltac:(left; discriminate)) as [E|E]; rewrite E; [reflexivity|].
    cbn [pbind]. destruct Hc as [Hc|[Hc|Hc]]; [rewrite Hc; reflexivity|discriminate Hc|].
    exfalso. apply Hc. destruct (int_digits_sound _ _ _ _ _ _ _ _ E) as (ds' & _ & _ & _ & _ & _ & R). specialize (R ltac:(lia)).
    destruct neg; [change 0%Z with (- 0)%Z in R; rewrite ndigits_val_neg in R|]; exact R.
Qed.

(* the pieces of float_parts *)
Definition fsign (bs : list N) : bool * list N := match bs with 43 :: r => (false, r) | 45 :: r => (true, r) | _ => (false, bs) end.
Definition fmant (bs1 : list N) : pres (list N * list N) :=
  let '(ids, bs2) := take_digits bs1 [] in
  match ids with
  | _ :: _ => match bs2 with 46 :: r => let '(fds, r') := take_digits r [] in POk r' (ids, fds) | _ => POk bs2 (ids, []) end
  | [] => match bs2 with
          | 46 :: r => let '(fds, r') := take_digits r [] in match fds with [] => PErr | _ => POk r' ([], fds) end
          | _ => PErr
          end
  end.
Definition fexp (neg : bool) (bs3 : list N) (m : list N * list N) : pres (bool * list N * list N * option (bool * list N)) :=
  match bs3 with
  | c :: r =>
      if (c =? 101) || (c =? 69) then
        let '(eneg, r1) := fsign r in
        let '(eds, r2) := take_digits r1 [] in
        match eds with [] => PFail | _ => POk r2 (neg, fst m, snd m, Some (eneg, eds)) end
      else POk bs3 (neg, fst m, snd m, None)
  | [] => POk [] (neg, fst m, snd m, None)
  end.
Lemma float_parts_eq bs : float_parts bs = let '(neg, bs1) := fsign bs in pbind (fmant bs1) (fexp neg).
Proof.
  unfold float_parts. change (match bs with 43 :: r => (false, r) | 45 :: r => (true, r) | _ => (false, bs) end) with (fsign bs).
  destruct (fsign bs) as [neg bs1]. unfold fmant. destruct (take_digits bs1 []) as [ids bs2]. reflexivity.
Qed.

Lemma fsign_other c r : c <> 43 -> c <> 45 -> fsign (c :: r) = (false, c :: r).
Proof. intros H1 H2. unfold fsign. kill_lit c; exfalso; [apply H1|apply H2]; reflexivity. Qed.
Lemma match_dot_other {B} c r (f : list N -> B) (g : B) : c <> 46 -> match c :: r with 46 :: r' => f r' | _ => g end = g.
Proof. intros H. kill_lit c. exfalso; apply H; reflexivity. Qed.

Lemma fmant_complete m ids fds pt T : mantissa m ids fds pt -> no_digit_next T -> (match T with c :: _ => c <> 46 | [] => True end) ->
  fmant (m ++ T) = POk T (ids, fds).
Proof.
  intros Hm HT Hdot. unfold fmant.
  assert (D : forall B (f : list N -> B) g, match T with 46 :: r' => f r' | _ => g end = g).
  { intros B f g. destruct T as [|c r]; [reflexivity|]. apply match_dot_other. exact Hdot. }
  destruct Hm as [ids Hne Hd|ids fds Hne Hd Hnf Hf|ids Hne Hd|fds Hnf Hf].
  - rewrite (take_digits_stop ids T Hd HT). cbn [rev app]. destruct ids as [|d ids]; [contradiction Hne; reflexivity|]. apply D.
  - norm. rewrite (take_digits_stop ids (46 :: fds ++ T) Hd eq_refl). cbn [rev app]. destruct ids as [|d ids]; [contradiction Hne; reflexivity|].
    rewrite (take_digits_stop fds T Hf HT). reflexivity.
  - norm. rewrite (take_digits_stop ids (46 :: T) Hd eq_refl). cbn [rev app]. destruct ids as [|d ids]; [contradiction Hne; reflexivity|].
    rewrite (take_digits_stop [] T ltac:(constructor) HT). reflexivity.
  - cbn [app take_digits]. change (is_digit 46) with false. cbv iota. cbn [rev].
    rewrite (take_digits_stop fds T Hf HT). cbn [rev app]. destruct fds as [|d fds]; [contradiction Hnf; reflexivity|]. reflexivity.
Qed.

Definition exp_parts (te : list N) (ex : option (bool * list N)) : Prop :=
  match ex with
  | None => te = []
  | Some (eneg, eds) => exists ec sg, te = ec :: sg ++ eds /\ (ec = 69 \/ ec = 101) /\ jsign sg eneg /\ eds <> [] /\ digits eds
  end.
Definition exp_value (ex : option (bool * list N)) : Z :=
  match ex with Some (eneg, ds) => let x := digits_val ds 0 in if eneg then (- x)%Z else x | None => 0%Z end.

Lemma fexp_complete neg te e rest m : jexp te e -> ends_number rest ->
  exists ex, fexp neg (te ++ rest) m = POk rest (neg, fst m, snd m, ex) /\ exp_value ex = e /\ exp_parts te ex.
Proof.
  intros He Hr. destruct (ends_number_facts rest Hr) as [Hnd _]. destruct He as [|ec sg eneg ed Hec Hsg Hne Hd].
  - exists None. split; [|split; reflexivity]. cbn [app]. unfold fexp. destruct rest as [|c r]; [reflexivity|].
    destruct Hr as (_ & _ & H69 & H101). apply N.eqb_neq in H69. apply N.eqb_neq in H101. rewrite H69, H101. reflexivity.
  - exists (Some (eneg, ed)). split; [|split; [reflexivity|exists ec, sg; repeat split; assumption]].
    norm. unfold fexp. replace ((ec =? 101) || (ec =? 69)) with true by (destruct Hec as [-> | ->]; reflexivity).
    assert (S : fsign (sg ++ ed ++ rest) = (eneg, ed ++ rest)).
    { destruct Hsg; cbn [app]; try reflexivity. destruct (digits_head ed Hne Hd) as (d & r' & -> & Hdd). cbn [app].
      destruct (digit_not_sign d Hdd) as [S1 S2]. apply fsign_other; apply N.eqb_neq; assumption. }
    rewrite S, (take_digits_stop ed rest Hd Hnd). cbn [rev app]. destruct ed as [|d ed]; [contradiction Hne; reflexivity|]. reflexivity.
Qed.

Lemma mantissa_split m ids fds pt : mantissa m ids fds pt ->
  digits ids /\ exists mt, m = ids ++ mt /\ (pt = false -> mt = [] /\ ids <> []) /\ (pt = true -> exists y, mt = 46 :: y).
Proof.
  intros [ids0 Hne Hd|ids0 fds0 Hne Hd Hnf Hf|ids0 Hne Hd|fds0 Hnf Hf].
  - split; [exact Hd|]. exists []. rewrite app_nil_r. repeat split; try discriminate; assumption.
  - split; [exact Hd|]. exists (46 :: fds0). repeat split; try discriminate. eauto.
  - split; [exact Hd|]. exists [46]. repeat split; try discriminate. eauto.
  - split; [constructor|]. exists (46 :: fds0). repeat split; try discriminate. eauto.
Qed.
Lemma mantissa_head m ids fds pt x : mantissa m ids fds pt -> exists c r, m ++ x = c :: r /\ (is_digit c = true \/ c = 46).
Proof.
  intros [ids0 Hne Hd|ids0 fds0 Hne Hd Hnf Hf|ids0 Hne Hd|fds0 Hnf Hf];
    try (destruct (digits_head ids0 Hne Hd) as (d & r & -> & Hdd); eexists; eexists; split; [reflexivity|left; exact Hdd]).
  eexists; eexists; split; [reflexivity|right; reflexivity].
Qed.

Lemma float_parts_complete sg neg m ids fds pt te e rest : jsign sg neg -> mantissa m ids fds pt -> jexp te e -> ends_number rest ->
  exists ex, float_parts (sg ++ m ++ te ++ rest) = POk rest (neg, ids, fds, ex) /\ exp_value ex = e /\ exp_parts te ex.
Proof.
  intros Hsg Hm He Hr. rewrite float_parts_eq.
  assert (S : fsign (sg ++ m ++ te ++ rest) = (neg, m ++ te ++ rest)).
  { destruct Hsg; cbn [app]; try reflexivity. destruct (mantissa_head m ids fds pt (te ++ rest) Hm) as (c & r & -> & Hc).
    apply fsign_other; destruct Hc as [Hc | ->]; try discriminate; intros ->; discriminate Hc. }
  rewrite S.
  assert (HT : no_digit_next (te ++ rest) /\ match te ++ rest with c :: _ => c <> 46 | [] => True end).
  { destruct He as [|ec sg' eneg ed Hec _ _ _]; cbn [app].
    - destruct rest as [|c r]; [split; exact I|]. destruct Hr as (H1 & H2 & _). split; assumption.
    - destruct Hec as [-> | ->]; split; try reflexivity; discriminate. }
  rewrite (fmant_complete m ids fds pt _ Hm (proj1 HT) (proj2 HT)). cbn [pbind].
  apply (fexp_complete neg te e rest (ids, fds) He Hr).
Qed.

Definition int_reading (p : pres Z) (g : Z -> pvalue) : pres pvalue :=
  pdo (r, v) <- p; if not_float_tail r then POk r (g v) else PErr.
Lemma ascii_lower_other c x : 97 <= x <= 122 -> c <> x -> c <> x - 32 -> (ascii_lower c =? x) = false.
Proof. intros Hx H1 H2. apply N.eqb_neq. intros E. destruct (ascii_lower_inv c x E Hx); contradiction. Qed.
(* the alternative added by the fix of `-inf`: preceded(char('-'), tag_no_case("inf")) *)
Definition neg_inf_reading (bs : list N) : pres pvalue :=
  pmap (fun _ => PVNum (NFloat F_NEG_INF)) (pdo (r, _) <- pchar 45 bs; ptag_no_case [105; 110; 102] r).
Lemma neg_inf_reading_other c x : c <> 45 -> neg_inf_reading (c :: x) = PErr.
Proof. intros H. apply N.eqb_neq in H. unfold neg_inf_reading. cbn [pchar]. rewrite H. reflexivity. Qed.
Lemma path_value_nokw c x : c <> 110 -> c <> 116 -> c <> 102 ->
  path_value (c :: x) =
  palt (int_reading (pu64 (c :: x)) (fun v => PVNum (NUInt (Z.to_N v)))) (fun _ =>
  palt (int_reading (pi64 (c :: x)) (fun v => PVNum (NInt v))) (fun _ =>
  palt (pmap (fun b => PVNum (NFloat b)) (pdouble (c :: x))) (fun _ =>
  palt (neg_inf_reading (c :: x)) (fun _ => pmap PVStr (pstring (c :: x)))))).
Proof.
  intros H1 H2 H3. apply N.eqb_neq in H1. apply N.eqb_neq in H2. apply N.eqb_neq in H3.
  unfold path_value, int_reading, neg_inf_reading. cbn [ptag]. rewrite H1, H2, H3. reflexivity.
Qed.

(* the integer alternatives decline a number that is to be read as a double *)
Lemma integers_decline sg neg m ids fds pt te e rest : jsign sg neg -> mantissa m ids fds pt -> jexp te e -> ends_number rest ->
  ~ exact_integer sg ids pt te ->
  int_reading (pu64 (sg ++ m ++ te ++ rest)) (fun v => PVNum (NUInt (Z.to_N v))) = PErr /\
  int_reading (pi64 (sg ++ m ++ te ++ rest)) (fun v => PVNum (NInt v)) = PErr.
Proof.
  intros Hsg Hm He Hr Hne. destruct (mantissa_split m ids fds pt Hm) as (Hd & mt & -> & Hpf & Hpt).
  destruct (ends_number_facts rest Hr) as [Hnd Hnf].
  set (T := mt ++ te ++ rest).
  assert (HT : no_digit_next T /\ (pt = true \/ te <> [] -> not_float_tail T = false) /\ (pt = false -> te = [] -> T = rest)).
  { subst T. destruct pt.
    - destruct (Hpt eq_refl) as (y & ->). cbn [app]. repeat split; try reflexivity; discriminate.
    - destruct (Hpf eq_refl) as [-> _]. cbn [app]. destruct He as [|ec sg' eneg ed Hec _ _ _]; cbn [app].
      + repeat split; try assumption; try reflexivity. intros [H|H]; [discriminate H|contradiction H; reflexivity].
      + split; [destruct Hec as [-> | ->]; reflexivity|]. split; [intros _; destruct Hec as [-> | ->]; reflexivity|discriminate]. }
  destruct HT as (HT1 & HT2 & HT3).
  assert (Range : forall lo hi (ng : bool), (pt = false -> te = [] -> ~ (lo <= (if ng then - digits_val ids 0 else digits_val ids 0) <= hi)%Z) ->
            not_float_tail T = false \/ ids = [] \/ ~ (lo <= (if ng then - digits_val ids 0 else digits_val ids 0) <= hi)%Z).
  { intros lo hi ng H. destruct pt; [left; apply HT2; left; reflexivity|]. destruct te as [|x te']; [right; right; apply H; reflexivity|left; apply HT2; right; discriminate]. }
  assert (Pos : (0 <= digits_val ids 0)%Z) by (apply (digits_val_ge ids Hd 0%Z); lia).
  unfold int_reading, pu64, pi64, pint. rewrite <- !app_assoc. fold T.
  destruct Hsg.
  - (* no sign *) cbn [app].
    assert (U : forall lo hi, (lo <= 0 <= hi)%Z -> (hi < Z.of_N two64)%Z ->
              (pdo (r, v) <- int_digits false lo hi (ids ++ T) 0 false; if not_float_tail r then POk r ((fun v => PVNum (NInt v)) v) else PErr) = PErr).
    { intros lo hi Hb Hhi. apply (digits_then false lo hi ids T _ Hd HT1 Hb). apply (Range lo hi false). intros E1 E2 R. apply Hne.
      split; [exact E1|]. split; [exact E2|]. left. split; [reflexivity|]. lia. }
    split.
    + apply (digits_then false 0 (Z.of_N two64 - 1) ids T _ Hd HT1 ltac:(unfold two64; lia)). apply (Range 0 (Z.of_N two64 - 1) false)%Z. intros E1 E2 R. apply Hne.
      split; [exact E1|]. split; [exact E2|]. left. split; [reflexivity|]. lia.
    + destruct ids as [|d ids'].
      * destruct pt; [|destruct (Hpf eq_refl) as [_ X]; contradiction X; reflexivity]. destruct (Hpt eq_refl) as (y & Ey). subst T. rewrite Ey. reflexivity.
      * inversion Hd as [|? ? Hdd _]; subst. destruct (digit_not_sign d Hdd) as [S1 S2]. cbn [app]. rewrite S1, S2.
        apply (U (- two63)%Z (two63 - 1)%Z); unfold two63, two64; lia.
  - (* plus *) cbn [app]. change (43 =? 43) with true. cbv iota. split.
    + change (int_digits false 0 (Z.of_N two64 - 1) (43 :: ids ++ T) 0 false) with (@PErr Z). reflexivity.
    + apply (digits_then false (- two63) (two63 - 1) ids T _ Hd HT1 ltac:(unfold two63; lia)). apply (Range (- two63) (two63 - 1) false)%Z. intros E1 E2 R. apply Hne.
      split; [exact E1|]. split; [exact E2|]. right. right. split; [reflexivity|]. lia.
  - (* minus *) cbn [app]. change (45 =? 43) with false. change (45 =? 45) with true. cbv iota. split.
    + change (int_digits false 0 (Z.of_N two64 - 1) (45 :: ids ++ T) 0 false) with (@PErr Z). reflexivity.
    + apply (digits_then true (- two63) (two63 - 1) ids T _ Hd HT1 ltac:(unfold two63; lia)). apply (Range (- two63) (two63 - 1) true)%Z. intros E1 E2 R. apply Hne.
      split; [exact E1|]. split; [exact E2|]. right. left. split; [reflexivity|]. lia.
Qed.

Lemma number_text_head t n : number_text t n -> exists c r, t = c :: r /\ is_space c = false /\ c <> 36 /\ c <> 64 /\ c <> 61 /\ c <> 62 /\ c <> 116 /\ c <> 102 /\
  (c = 110 -> exists r', r = 97 :: r' \/ r = 65 :: r').
Proof.
  assert (D : forall d, is_digit d = true -> is_space d = false /\ d <> 36 /\ d <> 64 /\ d <> 61 /\ d <> 62 /\ d <> 116 /\ d <> 102 /\ d <> 110).
  { intros d Hd. split; [apply digit_not_space; exact Hd|]. unfold is_digit in Hd. apply andb_true_iff in Hd. destruct Hd as [H1 H2].
    apply N.leb_le in H1. apply N.leb_le in H2. repeat split; lia. }
  assert (G : forall c r, (is_digit c = true \/ c = 46 \/ c = 43 \/ c = 45) -> exists c0 r0, c :: r = c0 :: r0 /\ is_space c0 = false /\ c0 <> 36 /\ c0 <> 64 /\ c0 <> 61 /\ c0 <> 62 /\ c0 <> 116 /\ c0 <> 102 /\
            (c0 = 110 -> exists r', r0 = 97 :: r' \/ r0 = 65 :: r')).
  { intros c r Hc. exists c, r. split; [reflexivity|]. destruct Hc as [Hc|[->|[->| ->]]]; try (repeat split; try reflexivity; discriminate).
    destruct (D c Hc) as (A1 & A2 & A3 & A4 & A5 & A6 & A7 & A8). repeat split; try assumption. intros X. contradiction (A8 X). }
  intros [ds Hne Hd|ds Hne Hd|ds Hne Hd|sg neg m ids fds pt te e Hsg Hm He _|t0 Hk|t0 Hk|t0 Hk]; [| | | | | |apply G; tauto].
  - destruct (digits_head ds Hne Hd) as (d & r & -> & Hdd). apply G. tauto.
  - apply G. tauto.
  - apply G. tauto.
  - destruct Hsg; cbn [app]; try (apply G; tauto). destruct (mantissa_head m ids fds pt te Hm) as (c & r & -> & Hc). apply G. tauto.
  - destruct (keyword_head 110 _ t0 Hk ltac:(lia)) as (a & r & -> & Ha & Hk').
    destruct (keyword_head 97 _ r Hk' ltac:(lia)) as (b & r2 & -> & Hb & _).
    exists a, (b :: r2). split; [reflexivity|]. destruct Ha as [-> | ->]; repeat split; try reflexivity; try discriminate.
    intros _. exists r2. destruct Hb as [-> | ->]; tauto.
  - destruct (keyword_head 105 _ t0 Hk ltac:(lia)) as (a & r & -> & Ha & _). exists a, r. split; [reflexivity|].
    destruct Ha as [-> | ->]; repeat split; try reflexivity; discriminate.
Qed.

Lemma keyword3 x y z t : keyword [x; y; z] t -> 97 <= x <= 122 -> 97 <= y <= 122 -> 97 <= z <= 122 ->
  exists a b c, t = [a; b; c] /\ (a = x \/ a = x - 32) /\ (b = y \/ b = y - 32) /\ (c = z \/ c = z - 32).
Proof.
  intros H Hx Hy Hz. destruct (keyword_head x _ t H Hx) as (a & r & -> & Ha & H1). destruct (keyword_head y _ r H1 Hy) as (b & r2 & -> & Hb & H2).
  destruct (keyword_head z _ r2 H2 Hz) as (c & r3 & -> & Hc & H3). destruct r3; [|discriminate H3]. exists a, b, c. repeat split; assumption.
Qed.

Theorem number_complete t n rest : number_text t n -> ends_number rest -> path_value (t ++ rest) = POk rest (PVNum n).
Proof.
  intros Hn Hr. destruct (ends_number_facts rest Hr) as [Hnd Hnf].
  destruct (number_text_head t n Hn) as (c0 & r0 & E0 & _ & _ & _ & _ & _ & N116 & N102 & Hn110).
  destruct Hn as [ds Hne Hd|ds Hne Hd Hv|ds Hne Hd Hv|sg neg m ids fds pt te e Hsg Hm He Hx|t0 Hk|t0 Hk|t0 Hk].
  - assert (N110 : c0 <> 110) by (intros ->; destruct (digits_head ds Hne Hd) as (d & r & E & Hdd); rewrite E in E0; injection E0 as -> _; discriminate Hdd).
    rewrite E0. cbn [app]. rewrite (path_value_nokw c0 _ N110 N116 N102). change (c0 :: r0 ++ rest) with ((c0 :: r0) ++ rest). rewrite <- E0.
    unfold int_reading, pu64.
    rewrite (int_digits_pos 0 (Z.of_N two64 - 1) ds rest Hd Hnd ltac:(lia) 0%Z false ltac:(lia) ltac:(lia) ltac:(left; exact Hne)).
    cbn [pbind]. rewrite Hnf. reflexivity.
  - cbn [app]. rewrite (path_value_nokw 45 _ ltac:(discriminate) ltac:(discriminate) ltac:(discriminate)).
    unfold int_reading at 1. change (pu64 (45 :: ds ++ rest)) with (@PErr Z). cbn [pbind palt].
    unfold int_reading, pi64. change (45 :: ds ++ rest) with ((45 :: ds) ++ rest).
    rewrite (pint_complete (- two63) (two63 - 1) (45 :: ds) (- digits_val ds 0) rest ltac:(unfold two63; lia) (SI_minus ds Hne Hd)
               ltac:(pose proof (digits_val_ge ds Hd 0%Z ltac:(lia)); unfold two63 in *; lia) Hnd).
    cbn [pbind]. rewrite Hnf. reflexivity.
  - cbn [app]. rewrite (path_value_nokw 43 _ ltac:(discriminate) ltac:(discriminate) ltac:(discriminate)).
    unfold int_reading at 1. change (pu64 (43 :: ds ++ rest)) with (@PErr Z). cbn [pbind palt].
    unfold int_reading, pi64. change (43 :: ds ++ rest) with ((43 :: ds) ++ rest).
    rewrite (pint_complete (- two63) (two63 - 1) (43 :: ds) (digits_val ds 0) rest ltac:(unfold two63; lia) (X_SI_plus ds Hne Hd)
               ltac:(pose proof (digits_val_ge ds Hd 0%Z ltac:(lia)); unfold two63 in *; lia) Hnd).
    cbn [pbind]. rewrite Hnf. reflexivity.
  - assert (N110 : c0 <> 110).
    { intros ->. destruct Hsg; cbn [app] in E0; try discriminate E0. destruct (mantissa_head m ids fds pt te Hm) as (c & r & E & Hc).
      rewrite E in E0. injection E0 as -> _. destruct Hc as [Hc|Hc]; discriminate Hc. }
    destruct (integers_decline sg neg m ids fds pt te e rest Hsg Hm He Hr Hx) as [U I].
    destruct (float_parts_complete sg neg m ids fds pt te e rest Hsg Hm He Hr) as (ex & F & Ev & _).
    rewrite <- !app_assoc.
    assert (E1 : exists r1, sg ++ m ++ te ++ rest = c0 :: r1).
    { exists (r0 ++ rest). change (c0 :: r0 ++ rest) with ((c0 :: r0) ++ rest). rewrite <- E0, <- !app_assoc. reflexivity. }
    destruct E1 as (r1 & E1). rewrite E1 in *. rewrite (path_value_nokw c0 _ N110 N116 N102), U, I. cbn [palt].
    unfold pdouble. rewrite F. cbn [pmap pbind palt]. unfold float_of_parts, nearest. fold (exp_value ex). rewrite Ev. reflexivity.
  - destruct (keyword3 110 97 110 t0 Hk ltac:(lia) ltac:(lia) ltac:(lia)) as (a & b & c & -> & Ha & Hb & Hc).
    destruct Ha as [-> | ->], Hb as [-> | ->], Hc as [-> | ->]; reflexivity.
  - destruct (keyword3 105 110 102 t0 Hk ltac:(lia) ltac:(lia) ltac:(lia)) as (a & b & c & -> & Ha & Hb & Hc).
    destruct Ha as [-> | ->], Hb as [-> | ->], Hc as [-> | ->]; reflexivity.
  - (* -inf: u64 and i64 find no digit after the sign, double finds no mantissa and reads nan / inf only without a sign;
       the alternative added by the fix is reached and takes it *)
    destruct (keyword3 105 110 102 t0 Hk ltac:(lia) ltac:(lia) ltac:(lia)) as (a & b & c & -> & Ha & Hb & Hc).
    destruct Ha as [-> | ->], Hb as [-> | ->], Hc as [-> | ->]; reflexivity.
Qed.

(* ================================================================== literals *)
Theorem literal_complete t v rest : literal_text t v -> ends_number rest -> path_value (t ++ rest) = POk rest v.
Proof.
  intros Hl Hr. destruct Hl as [| | |t n Hn|t s Hq]; try reflexivity.
  - apply number_complete; assumption.
  - destruct (quoted_name_first t s Hq) as (r & E). pose proof (pstring_complete t s rest Hq) as P. rewrite E in *. cbn [app] in *.
    rewrite path_value_quote, P. reflexivity.
Qed.

(* ================================================================== operands *)
Definition opchar (c : N) : Prop := In c [41; 38; 124; 61; 33; 60; 62; 43; 45; 42; 47; 37].
(* what follows an operand, after spacing: nothing, an operator, or a closing parenthesis *)
Definition operand_follow (rest : list N) : Prop := match multispace0 rest with [] => True | c :: _ => opchar c end.

Lemma space_cases c : is_space c = true -> c = 32 \/ c = 9 \/ c = 13 \/ c = 10.
Proof. unfold is_space. intros H. repeat (apply orb_true_iff in H; destruct H as [H|H]); apply N.eqb_eq in H; tauto. Qed.

Lemma operand_follow_facts rest : operand_follow rest ->
  ends_number rest /\ name_end rest /\ inner_path (multispace0 rest) = PErr.
Proof.
  unfold operand_follow. intros H.
  assert (S : inner_path (multispace0 rest) = PErr).
  { destruct (multispace0 rest) as [|c r]; [reflexivity|]. apply inner_path_stop. cbn [hd_notin]. unfold opchar in H. cbn [In] in H.
    repeat (destruct H as [<-|H]; [reflexivity|]). contradiction. }
  split; [|split; [|exact S]].
  - destruct rest as [|c r]; [exact I|]. cbn [multispace0] in H. destruct (is_space c) eqn:Ec.
    + destruct (space_cases c Ec) as [->|[->|[->| ->]]]; repeat split; discriminate.
    + unfold opchar in H. cbn [In] in H. repeat (destruct H as [<-|H]; [repeat split; discriminate|]). contradiction.
  - destruct rest as [|c r]; [exact I|]. cbn [multispace0] in H. cbn [name_end]. destruct (is_space c) eqn:Ec.
    + destruct (space_cases c Ec) as [->|[->|[->| ->]]]; reflexivity.
    + unfold opchar in H. cbn [In] in H. repeat (destruct H as [<-|H]; [reflexivity|]). contradiction.
Qed.

Lemma literal_text_head t v : literal_text t v ->
  exists c r, t = c :: r /\ is_space c = false /\ c <> 36 /\ c <> 64 /\ c <> 61 /\ c <> 62.
Proof.
  intros [| | |t0 n Hn|t0 s Hq]; try (eexists; eexists; split; [reflexivity|repeat split; discriminate]).
  - destruct (number_text_head t0 n Hn) as (c & r & -> & H1 & H2 & H3 & H4 & H5 & _). exists c, r. repeat split; assumption.
  - destruct (quoted_name_first t0 s Hq) as (r & ->). eexists; eexists; split; [reflexivity|repeat split; discriminate].
Qed.
Lemma operand_text_head c t e : operand_text c t e -> exists a r, t = a :: r /\ is_space a = false /\ a <> 61 /\ a <> 62.
Proof.
  intros [ts ps _|ts ps _ _|t0 v Hl]; try (eexists; eexists; split; [reflexivity|repeat split; discriminate]).
  destruct (literal_text_head t0 v Hl) as (a & r & -> & H1 & _ & _ & H4 & H5). exists a, r. repeat split; assumption.
Qed.
Lemma operand_head_nonspace c t e : operand_text c t e -> head_nonspace t.
Proof. intros H. destruct (operand_text_head c t e H) as (a & r & E & Ha & _). exists a, r. split; assumption. Qed.

Theorem operand_complete c t e rest : operand_text c t e -> operand_follow rest ->
  forall x, multispace0 x = t ++ rest -> ws_around (inner_expr (negb c)) x = POk (multispace0 rest) e.
Proof.
  intros Ho Hr x Hx. destruct (operand_follow_facts rest Hr) as (Hen & Hne & Hst). unfold ws_around. rewrite Hx.
  destruct Ho as [ts ps Hs|ts ps Hc Hs|t v Hl].
  - destruct (steps_complete ts ps Hs rest Hne Hst (ts ++ rest) [] (S (length (ts ++ rest))) eq_refl ltac:(rewrite app_length; lia)) as (r' & E & M).
    cbn [app]. unfold inner_expr, expr_paths. cbn [pchar]. change (36 =? 36) with true. cbv iota. cbn [pmap pbind palt].
    rewrite E. cbn [pmap pbind palt rev app]. rewrite M. reflexivity.
  - subst c. destruct (steps_complete ts ps Hs rest Hne Hst (ts ++ rest) [] (S (length (ts ++ rest))) eq_refl ltac:(rewrite app_length; lia)) as (r' & E & M).
    cbn [app negb]. unfold inner_expr, expr_paths. cbn [pchar]. change (64 =? 36) with false. change (64 =? 64) with true. cbv iota. cbn [pmap pbind palt].
    rewrite E. cbn [pmap pbind palt rev app]. rewrite M. reflexivity.
  - destruct (literal_text_head t v Hl) as (a & r & E & _ & N36 & N64 & _). unfold inner_expr. rewrite E. cbn [app].
    rewrite (expr_paths_fail (negb c) a _ N36 N64). cbn [pmap pbind palt]. change (a :: r ++ rest) with ((a :: r) ++ rest). rewrite <- E.
    rewrite (literal_complete t v rest Hl Hen). reflexivity.
Qed.

(* ================================================================== operators *)
Lemma pop_complete o op X : compare_op o op -> (match X with c :: _ => c <> 61 /\ c <> 62 | [] => True end) ->
  pop (o ++ X) = POk X op /\ pbarith (o ++ X) = PErr.
Proof.
  intros Ho HX. split; [|destruct Ho; reflexivity].
  destruct Ho; try reflexivity; destruct X as [|c r]; try reflexivity; destruct HX as [H1 H2];
    apply N.eqb_neq in H1; apply N.eqb_neq in H2; unfold pop; cbn [app ptag pchar];
    repeat match goal with |- context [?a =? ?b] => first [change (a =? b) with true | change (a =? b) with false] end; cbv iota; rewrite ?H1, ?H2; reflexivity.
Qed.
Lemma pbarith_complete o op X : arith_op o op -> pbarith (o ++ X) = POk X op.
Proof. intros []; reflexivity. Qed.

Lemma spaced_operand_head w c t e y : pws w -> operand_text c t e ->
  match w ++ t ++ y with a :: _ => a <> 61 /\ a <> 62 | [] => True end.
Proof.
  intros Hw Ho. destruct Hw as [|c0 w Hc0 Hw]; cbn [app].
  - destruct (operand_text_head c t e Ho) as (a & r & -> & _ & H1 & H2). cbn [app]. split; assumption.
  - destruct Hc0 as [->|[->|[->| ->]]]; split; discriminate.
Qed.

(* ================================================================== atoms that do not nest *)
Definition atom_follow (rest : list N) : Prop := match multispace0 rest with [] => True | c :: _ => c = 41 \/ c = 38 \/ c = 124 end.
Lemma atom_operand_follow rest : atom_follow rest -> operand_follow rest.
Proof.
  unfold atom_follow, operand_follow. destruct (multispace0 rest) as [|c r]; [trivial|]. unfold opchar. cbn [In]. intros [->|[->| ->]]; tauto.
Qed.
Lemma atom_follow_no_op rest : atom_follow rest -> pbarith (multispace0 rest) = PErr /\ pop (multispace0 rest) = PErr.
Proof. unfold atom_follow. destruct (multispace0 rest) as [|c r]; [split; reflexivity|]. intros [->|[->| ->]]; split; reflexivity. Qed.
Lemma op_operand_follow w o y : pws w -> (exists c r, o = c :: r /\ opchar c /\ is_space c = false) -> operand_follow (w ++ o ++ y).
Proof. intros Hw (c & r & -> & Hc & Hs). unfold operand_follow. cbn [app]. rewrite (ms_pws_cons w c _ Hw Hs). exact Hc. Qed.
Lemma compare_op_head o op : compare_op o op -> exists c r, o = c :: r /\ opchar c /\ is_space c = false.
Proof. intros []; eexists; eexists; (split; [reflexivity|split; [unfold opchar; cbn [In]; tauto|reflexivity]]). Qed.
Lemma arith_op_head o op : arith_op o op -> exists c r, o = c :: r /\ opchar c /\ is_space c = false.
Proof. intros []; eexists; eexists; (split; [reflexivity|split; [unfold opchar; cbn [In]; tauto|reflexivity]]). Qed.

Section Atoms.
  Variable c : bool.
  Variable prec : list N -> pres path.
  Variable orec : list N -> pres expr.
  Notation rp := (negb c).
  Notation atom := (expr_atom rp prec orec).

  Lemma expr_atom_eq bs : atom bs =
    palt (pdo (r1, l) <- ws_around (inner_expr rp) bs; pdo (r2, o) <- pbarith r1; pdo (r3, r) <- ws_around (inner_expr rp) r2; POk r3 (EArithB o l r)) (fun _ =>
    palt (pdo (r1, l) <- ws_around (inner_expr rp) bs; pdo (r2, o) <- pop r1; pdo (r3, r) <- ws_around (inner_expr rp) r2; POk r3 (EBin o l r)) (fun _ =>
    palt (pdo (r1, o) <- punary bs; pdo (r2, x) <- ws_around (inner_expr rp) r1; POk r2 (EArithU o x)) (fun _ =>
    palt (pdo (r1, _) <- pchar 40 bs; pdo (r2, e) <- orec (multispace0 r1); pdo (r3, _) <- pchar 41 (multispace0 r2); POk r3 e) (fun _ =>
          pexists prec bs)))).
  Proof. reflexivity. Qed.

  Lemma atom_compare tl l w1 o op w2 tr r rest : operand_text c tl l -> pws w1 -> compare_op o op -> pws w2 -> operand_text c tr r ->
    atom_follow rest -> atom ((tl ++ w1 ++ o ++ w2 ++ tr) ++ rest) = POk (multispace0 rest) (EBin op l r).
  Proof.
    intros Hl H1 Ho H2 Hr Hf. norm. rewrite expr_atom_eq.
    rewrite (operand_complete c tl l _ Hl (op_operand_follow w1 o _ H1 (compare_op_head o op Ho)) _ (ms_item0 tl _ (operand_head_nonspace c tl l Hl))).
    destruct (compare_op_head o op Ho) as (a & ro & Eo & _ & Hsa).
    rewrite (ms_item w1 o _ H1 ltac:(exists a, ro; split; assumption)).
    destruct (pop_complete o op (w2 ++ tr ++ rest) Ho (spaced_operand_head w2 c tr r rest H2 Hr)) as [P B].
    cbn [pbind]. rewrite B, P. cbn [pbind palt].
    rewrite (operand_complete c tr r rest Hr (atom_operand_follow rest Hf) _ (ms_item w2 tr rest H2 (operand_head_nonspace c tr r Hr))). reflexivity.
  Qed.

  Lemma atom_arith tl l w1 o op w2 tr r rest : operand_text c tl l -> pws w1 -> arith_op o op -> pws w2 -> operand_text c tr r ->
    atom_follow rest -> atom ((tl ++ w1 ++ o ++ w2 ++ tr) ++ rest) = POk (multispace0 rest) (EArithB op l r).
  Proof.
    intros Hl H1 Ho H2 Hr Hf. norm. rewrite expr_atom_eq.
    rewrite (operand_complete c tl l _ Hl (op_operand_follow w1 o _ H1 (arith_op_head o op Ho)) _ (ms_item0 tl _ (operand_head_nonspace c tl l Hl))).
    destruct (arith_op_head o op Ho) as (a & ro & Eo & _ & Hsa).
    rewrite (ms_item w1 o _ H1 ltac:(exists a, ro; split; assumption)).
    cbn [pbind]. rewrite (pbarith_complete o op _ Ho). cbn [pbind palt].
    rewrite (operand_complete c tr r rest Hr (atom_operand_follow rest Hf) _ (ms_item w2 tr rest H2 (operand_head_nonspace c tr r Hr))). reflexivity.
  Qed.
End Atoms.

(* ================================================================== a sign in front of an operand *)
Lemma signed_not_literal rp s a y : s = 43 \/ s = 45 -> is_digit a = false -> a <> 46 -> (s = 45 -> a <> 105 /\ a <> 73) ->
  inner_expr rp (s :: a :: y) = PErr.
Proof.
  intros Hs Ha Hd Hi. unfold inner_expr. rewrite expr_paths_fail by (destruct Hs; subst; discriminate). cbn [pmap pbind palt].
  assert (M : fmant (a :: y) = PErr).
  { unfold fmant. cbn [take_digits]. rewrite Ha. cbn [rev]. kill_lit a. exfalso; apply Hd; reflexivity. }
  destruct Hs as [-> | ->]; rewrite path_value_nokw by discriminate; unfold int_reading, pu64, pi64, pint, pdouble; rewrite float_parts_eq;
    cbn [fsign int_digits]; change (is_digit 43) with false; change (is_digit 45) with false; cbv iota;
    change (43 =? 43) with true; change (45 =? 43) with false; change (45 =? 45) with true; cbv iota;
    rewrite Ha, M; [reflexivity|].
  (* a minus sign: the new alternative declines as well, the next byte is not an i or I *)
  destruct (Hi eq_refl) as [N105 N73]. unfold neg_inf_reading. cbn [pchar pbind pmap palt ptag_no_case]. change (45 =? 45) with true. cbv iota.
  cbn [pbind ptag_no_case]. change (ascii_lower 105) with 105.
  rewrite (ascii_lower_other a 105 ltac:(lia) N105 N73). reflexivity.
Qed.

(* an unsigned number spelling with a sign in front is again a number spelling *)
Lemma signed_number t n s : number_text t n -> (exists c r, t = c :: r /\ (is_digit c = true \/ c = 46)) -> s = 43 \/ s = 45 ->
  exists n', number_text (s :: t) n'.
Proof.
  intros Hn (c & r & E & Hc) Hs.
  assert (NS : c <> 43 /\ c <> 45 /\ c <> 110 /\ c <> 78 /\ c <> 105 /\ c <> 73).
  { destruct Hc as [Hc | ->]; [|repeat split; discriminate]. unfold is_digit in Hc. apply andb_true_iff in Hc. destruct Hc as [H1 H2].
    apply N.leb_le in H1. apply N.leb_le in H2. repeat split; lia. }
  destruct NS as (N43 & N45 & N110 & N78 & N105 & N73).
  destruct Hn as [ds Hne Hd Hv|ds Hne Hd Hv|ds Hne Hd Hv|sg neg m ids fds pt te e Hsg Hm He Hx|t0 Hk|t0 Hk|t0 Hk];
    [| | | | | |exfalso; injection E as E _; apply N45; symmetry; exact E].
  - destruct Hs as [-> | ->].
    + destruct (Z_lt_dec (digits_val ds 0) two63) as [L|L]; [eexists; apply (X_N_plus ds); assumption|].
      eexists. replace (43 :: ds) with ([43] ++ ds ++ []) by (cbn [app]; rewrite app_nil_r; reflexivity).
      apply (N_double [43] false ds ds [] false [] 0%Z Sign_plus (M_int ds Hne Hd) Exp_none).
      intros (_ & _ & [[X _]|[[X _]|[_ X]]]); try discriminate X. contradiction.
    + destruct (Z_le_dec (digits_val ds 0) two63) as [L|L]; [eexists; apply (N_negative ds); assumption|].
      eexists. replace (45 :: ds) with ([45] ++ ds ++ []) by (cbn [app]; rewrite app_nil_r; reflexivity).
      apply (N_double [45] true ds ds [] false [] 0%Z Sign_minus (M_int ds Hne Hd) Exp_none).
      intros (_ & _ & [[X _]|[[_ X]|[X _]]]); try discriminate X. contradiction.
  - exfalso. injection E as E _. apply N45. symmetry. exact E.
  - exfalso. injection E as E _. apply N43. symmetry. exact E.
  - destruct Hsg; cbn [app] in E; try (exfalso; injection E as E _; first [apply N43; symmetry; exact E|apply N45; symmetry; exact E]).
    assert (X : ~ exact_integer [s] ids pt te).
    { intros (E1 & E2 & [[X _]|[[X L]|[X L]]]); [destruct Hs; subst; discriminate X| |];
        apply Hx; (split; [exact E1|]); (split; [exact E2|]); left; (split; [reflexivity|]); unfold two63, two64 in *; lia. }
    destruct Hs as [-> | ->]; eexists.
    + apply (N_double [43] false m ids fds pt te e Sign_plus Hm He X).
    + apply (N_double [45] true m ids fds pt te e Sign_minus Hm He X).
  - exfalso. destruct (keyword_head 110 _ t0 Hk ltac:(lia)) as (a & r1 & E1 & Ha & _). rewrite E1 in E. injection E as E _. subst a.
    destruct Ha; [apply N110|apply N78]; assumption.
  - exfalso. destruct (keyword_head 105 _ t0 Hk ltac:(lia)) as (a & r1 & E1 & Ha & _). rewrite E1 in E. injection E as E _. subst a.
    destruct Ha; [apply N105|apply N73]; assumption.
Qed.

(* the word inf with a minus sign in front is again a number spelling (since the fix of `-inf`) *)
Lemma signed_inf t n : number_text t n -> (exists c r, t = c :: r /\ (c = 105 \/ c = 73)) -> exists n', number_text (45 :: t) n'.
Proof.
  intros Hn (c & r & E & Hc).
  assert (NS : is_digit c = false /\ c <> 43 /\ c <> 45 /\ c <> 46 /\ c <> 110 /\ c <> 78) by (destruct Hc as [-> | ->]; repeat split; discriminate).
  destruct NS as (Nd & N43 & N45 & N46 & N110 & N78).
  destruct Hn as [ds Hne Hd Hv|ds Hne Hd Hv|ds Hne Hd Hv|sg neg m ids fds pt te e Hsg Hm He Hx|t0 Hk|t0 Hk|t0 Hk].
  - exfalso. destruct (digits_head ds Hne Hd) as (d & r' & E' & Hdd). rewrite E' in E. injection E as -> _. rewrite Hdd in Nd. discriminate Nd.
  - exfalso. injection E as E _. apply N45. symmetry. exact E.
  - exfalso. injection E as E _. apply N43. symmetry. exact E.
  - exfalso. destruct Hsg; cbn [app] in E; try (injection E as E _; first [apply N43; symmetry; exact E|apply N45; symmetry; exact E]).
    destruct (mantissa_head m ids fds pt te Hm) as (c' & r' & E' & Hc'). rewrite E' in E. injection E as -> _.
    destruct Hc' as [Hc'|Hc']; [rewrite Hc' in Nd; discriminate Nd|contradiction].
  - exfalso. destruct (keyword_head 110 _ t0 Hk ltac:(lia)) as (a & r1 & E1 & Ha & _). rewrite E1 in E. injection E as E _. subst a.
    destruct Ha; [apply N110|apply N78]; assumption.
  - eexists. apply X_N_neg_inf. exact Hk.
  - exfalso. injection E as E _. apply N45. symmetry. exact E.
Qed.

Section Atoms2.
  Variable c : bool.
  Variable prec : list N -> pres path.
  Variable orec : list N -> pres expr.
  Notation rp := (negb c).
  Notation atom := (expr_atom rp prec orec).

  Lemma declined_of_error X : ws_around (inner_expr rp) X = PErr ->
    (pdo (r1, l) <- ws_around (inner_expr rp) X; pdo (r2, o) <- pbarith r1; pdo (r3, r) <- ws_around (inner_expr rp) r2; POk r3 (EArithB o l r)) = PErr /\
    (pdo (r1, l) <- ws_around (inner_expr rp) X; pdo (r2, o) <- pop r1; pdo (r3, r) <- ws_around (inner_expr rp) r2; POk r3 (EBin o l r)) = PErr.
  Proof. intros ->. split; reflexivity. Qed.

  (* the first two alternatives of an atom decline a text that starts with a sign followed by an operand *)
  Lemma sign_declined s w tx x rest : s = 43 \/ s = 45 -> pws w -> operand_text c tx x -> atom_follow rest ->
    (pdo (r1, l) <- ws_around (inner_expr rp) (s :: w ++ tx ++ rest); pdo (r2, o) <- pbarith r1; pdo (r3, r) <- ws_around (inner_expr rp) r2; POk r3 (EArithB o l r)) = PErr /\
    (pdo (r1, l) <- ws_around (inner_expr rp) (s :: w ++ tx ++ rest); pdo (r2, o) <- pop r1; pdo (r3, r) <- ws_around (inner_expr rp) r2; POk r3 (EBin o l r)) = PErr.
  Proof.
    intros Hs Hw Hx Hf.
    assert (Hss : is_space s = false) by (destruct Hs; subst; reflexivity).
    assert (A : forall a y, w ++ tx ++ rest = a :: y -> is_digit a = false -> a <> 46 -> (s = 45 -> a <> 105 /\ a <> 73) ->
                ws_around (inner_expr rp) (s :: w ++ tx ++ rest) = PErr).
    { intros a y E Ha Hd Hi. unfold ws_around. cbn [multispace0]. rewrite Hss, E, (signed_not_literal rp s a y Hs Ha Hd Hi). reflexivity. }
    destruct Hw as [|c0 w Hc0 Hw].
    2:{ apply declined_of_error. apply (A c0 (w ++ tx ++ rest) eq_refl); destruct Hc0 as [->|[->|[->| ->]]]; try reflexivity; try discriminate; intros _; split; discriminate. }
    cbn [app]. cbn [app] in A.
    destruct Hx as [ts ps _|ts ps _ _|t v Hl]; try (apply declined_of_error; apply (A _ _ eq_refl); [reflexivity|discriminate|intros _; split; discriminate]).
    destruct Hl as [| | |t n Hn|t q Hq]; try (apply declined_of_error; apply (A _ _ eq_refl); [reflexivity|discriminate|intros _; split; discriminate]).
    2:{ destruct (quoted_name_first t q Hq) as (r & ->). apply declined_of_error. apply (A _ _ eq_refl); [reflexivity|discriminate|intros _; split; discriminate]. }
    destruct (number_text_head t n Hn) as (a & r & E & _).
    (* the sign and the number spelling after it form a number spelling again (a digit or a point follows; or, since the
       fix of `-inf`, a minus sign and the word inf), or no literal starts here at all *)
    assert (Hnum : ((is_digit a = true \/ a = 46) \/ (s = 45 /\ (a = 105 \/ a = 73))) \/ (is_digit a = false /\ a <> 46 /\ (s = 45 -> a <> 105 /\ a <> 73))).
    { destruct (is_digit a); [left; left; left; reflexivity|]. destruct (N.eq_dec a 46); [left; left; right; assumption|].
      destruct (N.eq_dec s 45) as [Es|Es]; [|right; repeat split; try assumption; intros X; contradiction].
      destruct (N.eq_dec a 105); [left; right; tauto|]. destruct (N.eq_dec a 73); [left; right; tauto|]. right. repeat split; assumption. }
    destruct Hnum as [Hnum|(Ea & Na & Ni)]; [|apply declined_of_error; apply (A a (r ++ rest)); [rewrite E; reflexivity|exact Ea|exact Na|exact Ni]].
    assert (Hsn : exists n', number_text (s :: t) n').
    { destruct Hnum as [Hnum|[-> Hi]]; [apply (signed_number t n s Hn ltac:(exists a, r; split; [exact E|exact Hnum]) Hs)|].
      apply (signed_inf t n Hn). exists a, r. split; [exact E|exact Hi]. }
    destruct Hsn as (n' & Hn').
    pose proof (operand_complete c (s :: t) (EValue (PVNum n')) rest (OP_literal c _ _ (L_number _ _ Hn')) (atom_operand_follow rest Hf)
                  (s :: t ++ rest) ltac:(cbn [multispace0]; rewrite Hss; reflexivity)) as L.
    rewrite L. cbn [pbind]. destruct (atom_follow_no_op rest Hf) as [B P]. rewrite B, P. split; reflexivity.
  Qed.

  Lemma atom_signed o op w tx x rest : sign_op o op -> pws w -> operand_text c tx x -> atom_follow rest ->
    atom ((o ++ w ++ tx) ++ rest) = POk (multispace0 rest) (EArithU op x).
  Proof.
    intros Ho Hw Hx Hf. norm. rewrite expr_atom_eq.
    pose proof (operand_complete c tx x rest Hx (atom_operand_follow rest Hf) (w ++ tx ++ rest) (ms_item w tx rest Hw (operand_head_nonspace c tx x Hx))) as R.
    destruct Ho; cbn [app].
    - destruct (sign_declined 43 w tx x rest ltac:(tauto) Hw Hx Hf) as [D1 D2]. rewrite D1, D2. cbn [palt].
      change (punary (43 :: w ++ tx ++ rest)) with (POk (w ++ tx ++ rest) UAdd). cbn [pbind]. rewrite R. reflexivity.
    - destruct (sign_declined 45 w tx x rest ltac:(tauto) Hw Hx Hf) as [D1 D2]. rewrite D1, D2. cbn [palt].
      change (punary (45 :: w ++ tx ++ rest)) with (POk (w ++ tx ++ rest) USub). cbn [pbind]. rewrite R. reflexivity.
  Qed.

  (* parenthesised expression, given the parser of the nested expression *)
  Lemma atom_paren w1 t e w2 rest : pws w1 -> head_nonspace t -> pws w2 ->
    (exists r2, orec (t ++ w2 ++ 41 :: rest) = POk r2 e /\ multispace0 r2 = multispace0 (w2 ++ 41 :: rest)) ->
    atom ((40 :: w1 ++ t ++ w2 ++ [41]) ++ rest) = POk rest e.
  Proof.
    intros H1 Ht H2 (r2 & E & M). norm. rewrite expr_atom_eq.
    assert (W : ws_around (inner_expr rp) (40 :: w1 ++ t ++ w2 ++ 41 :: rest) = PErr) by (destruct c; reflexivity).
    rewrite W. cbn [pbind palt]. change (punary (40 :: w1 ++ t ++ w2 ++ 41 :: rest)) with (@PErr uarith). cbn [pbind palt pchar].
    change (40 =? 40) with true. cbv iota. cbn [pbind]. rewrite (ms_item w1 t _ H1 Ht), E. cbn [pbind]. rewrite M, (ms_pws_cons w2 41 rest H2 eq_refl).
    cbn [pchar]. change (41 =? 41) with true. reflexivity.
  Qed.

  (* exists( ... ), given the result of reading its steps *)
  Lemma atom_exists w1 w2 r p ts ps w3 rest : pws w1 -> pws w2 -> (r = 36 /\ p = PRoot \/ r = 64 /\ p = PCurrent) ->
    (exists r3, many0 prec (S (length (ts ++ w3 ++ 41 :: rest))) (ts ++ w3 ++ 41 :: rest) [] = POk r3 ps /\ multispace0 r3 = 41 :: rest) ->
    atom ((KW_EXISTS ++ w1 ++ 40 :: w2 ++ r :: ts ++ w3 ++ [41]) ++ rest) = POk rest (EExists (p :: ps)).
  Proof.
    intros H1 H2 Hr (r3 & E & M). norm. rewrite expr_atom_eq. unfold KW_EXISTS. cbn [app].
    assert (W : forall X, ws_around (inner_expr rp) (101 :: 120 :: X) = PErr) by (intros X; destruct c; reflexivity).
    rewrite W. cbn [pbind palt].
    unfold pexists. cbn [ptag]. repeat match goal with |- context [?a =? ?b] => first [change (a =? b) with true | change (a =? b) with false] end. cbv iota. cbn [pbind].
    rewrite (ms_pws_cons w1 40 _ H1 eq_refl). cbn [pchar]. change (40 =? 40) with true. cbv iota. cbn [pbind].
    assert (Hrs : is_space r = false) by (destruct Hr as [[-> _]|[-> _]]; reflexivity).
    rewrite (ms_pws_cons w2 r _ H2 Hrs). unfold exists_paths.
    destruct Hr as [[-> ->]|[-> ->]]; cbn [pchar];
      repeat match goal with |- context [?a =? ?b] => first [change (a =? b) with true | change (a =? b) with false] end; cbv iota; cbn [pmap pbind palt];
      rewrite E; cbn [pbind]; rewrite M; cbn [pchar]; change (41 =? 41) with true; reflexivity.
  Qed.
End Atoms2.

(* ================================================================== lists separated by && or || *)
Inductive wtail (lit : list N) (Q : list N -> expr -> Prop) : list N -> list expr -> Prop :=
| WT_nil : wtail lit Q [] []
| WT_cons w1 w2 t x ts l : pws w1 -> pws w2 -> Q t x -> wtail lit Q ts l -> wtail lit Q (w1 ++ lit ++ w2 ++ t ++ ts) (x :: l).

Definition elem_ok (f : list N -> pres expr) (follow : list N -> Prop) (t : list N) (x : expr) : Prop :=
  forall rest, follow rest -> exists r', f (t ++ rest) = POk r' x /\ multispace0 r' = multispace0 rest.

Section SepWs.
  Variable f : list N -> pres expr.
  Variable a1 a2 : N.
  Hypothesis Ha1 : is_space a1 = false.
  Notation lit := [a1; a2].
  Definition wsep (b : list N) : pres unit := pdo (r, _) <- ptag lit (multispace0 b); POk (multispace0 r) tt.
  Variable Q : list N -> expr -> Prop.
  Variable follow : list N -> Prop.
  Variable n : nat.
  Hypothesis HQ : forall t x, Q t x -> (length t <= n)%nat -> head_nonspace t /\ elem_ok f follow t x.
  Hypothesis Hfollow : forall w y, pws w -> follow (w ++ lit ++ y).

  Lemma ptag_lit y : ptag lit (lit ++ y) = POk y tt.
  Proof. cbn [app ptag]. rewrite !N.eqb_refl. reflexivity. Qed.

  Lemma wtail_len ts l rest : wtail lit Q ts l -> (length l <= length (multispace0 (ts ++ rest)))%nat.
  Proof.
    induction 1 as [|w1 w2 t x ts l H1 H2 Hq Ht IH]; [cbn [length]; lia|].
    norm. rewrite (ms_pws_cons w1 a1 _ H1 Ha1). pose proof (ms_len (ts ++ rest)) as L. cbn [length]. rewrite !app_length. rewrite app_length in L. lia.
  Qed.

  Lemma sep_loop_ws ts l : wtail lit Q ts l -> (length ts <= n)%nat -> forall rest, follow rest -> ptag lit (multispace0 rest) = PErr ->
    forall b acc fuel, multispace0 b = multispace0 (ts ++ rest) -> (length l < fuel)%nat ->
    exists r', sep_loop f wsep fuel b acc = POk r' (rev acc ++ l) /\ multispace0 r' = multispace0 rest.
  Proof.
    induction 1 as [|w1 w2 t x ts l H1 H2 Hq Ht IH]; intros Hn rest Hr Hstop b acc fuel Hb Hfu; (destruct fuel as [|fuel]; [cbn [length] in Hfu; lia|]); cbn [sep_loop].
    - cbn [app] in Hb. unfold wsep. rewrite Hb, Hstop. cbn [pbind]. exists b. rewrite app_nil_r. split; [reflexivity|exact Hb].
    - len_all Hn. destruct (HQ t x Hq ltac:(lia)) as [Hh He].
      assert (Hb' : multispace0 b = lit ++ w2 ++ t ++ ts ++ rest) by (rewrite Hb; norm; apply (ms_pws_cons w1 a1 _ H1 Ha1)).
      unfold wsep at 1. rewrite Hb', ptag_lit. cbn [pbind]. rewrite (ms_item w2 t _ H2 Hh).
      assert (L : (length (t ++ ts ++ rest) =? length b)%nat = false).
      { apply Nat.eqb_neq. pose proof (ms_len b) as L. rewrite Hb' in L. len_all L. rewrite !app_length. lia. }
      rewrite L.
      assert (Fo : follow (ts ++ rest)) by (destruct Ht as [|v1 v2 t' x' ts' l' G1 G2 _ _]; [exact Hr|norm; apply (Hfollow v1 _ G1)]).
      destruct (He (ts ++ rest) Fo) as (r2 & E & M). rewrite E.
      destruct (IH ltac:(lia) rest Hr Hstop r2 (x :: acc) fuel M ltac:(cbn [length] in Hfu; lia)) as (r' & E' & M').
      exists r'. rewrite E'. cbn [rev]. rewrite <- app_assoc. split; [reflexivity|exact M'].
  Qed.

  Lemma seplist_ws t x ts l : Q t x -> wtail lit Q ts l -> (length (t ++ ts) <= n)%nat -> forall rest, follow rest ->
    ptag lit (multispace0 rest) = PErr ->
    exists r', separated_list1 f wsep ((t ++ ts) ++ rest) = POk r' (x :: l) /\ multispace0 r' = multispace0 rest.
  Proof.
    intros Hq Ht Hn rest Hr Hstop. len_all Hn. destruct (HQ t x Hq ltac:(lia)) as [Hh He]. norm. unfold separated_list1.
    assert (Fo : follow (ts ++ rest)) by (destruct Ht as [|v1 v2 t' x' ts' l' G1 G2 _ _]; [exact Hr|norm; apply (Hfollow v1 _ G1)]).
    destruct (He (ts ++ rest) Fo) as (r2 & E & M). rewrite E. cbn [pbind].
    apply (sep_loop_ws ts l Ht ltac:(lia) rest Hr Hstop r2 [x] (S (length r2)) M).
    pose proof (wtail_len ts l rest Ht) as L1. pose proof (ms_len r2) as L2. rewrite M in L2. lia.
  Qed.
End SepWs.

Lemma left_nested_fold op l : forall x, left_nested op x l = fold_bin op (x :: l).
Proof. induction l as [|y l IH]; intros x; [reflexivity|]. cbn [left_nested]. rewrite IH. reflexivity. Qed.

Definition and_follow (rest : list N) : Prop := match multispace0 rest with [] => True | c :: _ => c = 41 \/ c = 124 end.
Definition or_follow (rest : list N) : Prop := match multispace0 rest with [] => True | c :: _ => c = 41 end.
Lemma and_follow_facts rest : and_follow rest -> atom_follow rest /\ ptag [38; 38] (multispace0 rest) = PErr.
Proof. unfold and_follow, atom_follow. destruct (multispace0 rest) as [|c r]; [split; [exact I|reflexivity]|]. intros [-> | ->]; split; try tauto; reflexivity. Qed.
Lemma or_follow_facts rest : or_follow rest -> and_follow rest /\ ptag [124; 124] (multispace0 rest) = PErr.
Proof. unfold or_follow, and_follow. destruct (multispace0 rest) as [|c r]; [split; [exact I|reflexivity]|]. intros ->; split; try tauto; reflexivity. Qed.

(* ================================================================== the expression levels, filters and exists: one induction *)
Definition head_delim (t : list N) : Prop := exists a r, t = a :: r /\ is_delim a = true /\ is_space a = false.
Definition P_atom (c : bool) (t : list N) (e : expr) : Prop :=
  head_nonspace t /\ forall m, (length t <= m)%nat -> elem_ok (expr_atom (negb c) (path_fuel m) (expr_or_fuel m (negb c))) atom_follow t e.
Definition P_and (c : bool) (t : list N) (e : expr) : Prop :=
  head_nonspace t /\ forall m, (length t <= m)%nat -> elem_ok (expr_and (negb c) (path_fuel m) (expr_or_fuel m (negb c))) and_follow t e.
Definition P_or (c : bool) (t : list N) (e : expr) : Prop :=
  head_nonspace t /\ forall m, (length t <= m)%nat -> elem_ok (expr_or (negb c) (path_fuel m) (expr_or_fuel m (negb c))) or_follow t e.
Definition P_fstep (t : list N) (p : path) : Prop :=
  head_delim t /\ forall m, (length t <= m)%nat -> forall rest x, name_end rest -> multispace0 x = t ++ rest -> path_fuel m x = POk (multispace0 rest) p.

Scheme atom_text_mind := Minimality for atom_text Sort Prop
  with and_text_mind := Minimality for and_text Sort Prop
  with and_tail_mind := Minimality for and_tail Sort Prop
  with or_text_mind := Minimality for or_text Sort Prop
  with or_tail_mind := Minimality for or_tail Sort Prop
  with fstep_text_mind := Minimality for fstep_text Sort Prop
  with fsteps_text_mind := Minimality for fsteps_text Sort Prop.
Combined Scheme expr_text_mutind from atom_text_mind, and_text_mind, and_tail_mind, or_text_mind, or_tail_mind, fstep_text_mind, fsteps_text_mind.

Lemma path_fuel_stop m x : hd_notin [46; 58; 91; 63] (multispace0 x) = true -> path_fuel m x = PErr.
Proof.
  intros H. destruct m as [|m]; [reflexivity|]. rewrite path_fuel_S. unfold ws_around.
  assert (I : inner_path (multispace0 x) = PErr).
  { apply inner_path_stop. destruct (multispace0 x) as [|c r]; [reflexivity|]. cbn [hd_notin] in *. apply negb_true_iff in H. apply negb_true_iff.
    cbn [existsb] in *. repeat (apply orb_false_iff in H; destruct H as [? H]). repeat (apply orb_false_iff; split); assumption. }
  rewrite I. cbn [pbind palt]. destruct (multispace0 x) as [|c r]; [reflexivity|]. cbn [hd_notin existsb] in H. apply negb_true_iff in H.
  repeat (apply orb_false_iff in H; destruct H as [? H]). cbn [pchar]. replace (c =? 63) with false by (symmetry; assumption). reflexivity.
Qed.

Lemma spaced_bound {A} (Q : list N -> A -> Prop) ts l n : spaced Q ts l -> (length ts <= n)%nat -> spaced (fun t a => Q t a /\ (length t <= n)%nat) ts l.
Proof.
  induction 1 as [|w t a ts l Hw Ht Hs IH]; intros Hn; [constructor|]. len_all Hn. constructor; [exact Hw|split; [exact Ht|lia]|apply IH; lia].
Qed.

Lemma P_fstep_nonspace t p : P_fstep t p -> head_nonspace t.
Proof. intros [(c & r & -> & _ & Hc) _]. exists c, r. split; [reflexivity|exact Hc]. Qed.

Lemma fsteps_many0 m ts ps : spaced P_fstep ts ps -> (length ts <= m)%nat -> forall rest, name_end rest ->
  hd_notin [46; 58; 91; 63] (multispace0 rest) = true ->
  forall x, multispace0 x = multispace0 (ts ++ rest) -> forall fuel, (length ps < fuel)%nat ->
  exists r', many0 (path_fuel m) fuel x [] = POk r' ps /\ multispace0 r' = multispace0 rest.
Proof.
  intros Hs Hm rest Hr Hstop x Hx fuel Hfu.
  apply (many0_spaced (path_fuel m) (fun t p => P_fstep t p /\ (length t <= m)%nat) name_end) with (ts := ts) (rest := rest) (acc := []); try assumption.
  - intros t a r y [[_ Hp] Hl] Hf Hy. apply (Hp m Hl r y Hf Hy).
  - intros t a [[(c & r & -> & _ & Hc) _] _]. exists c, r. split; [reflexivity|exact Hc].
  - intros w t a y Hw [[(c & r & -> & Hc & _) _] _]. apply name_end_spaced; [exact Hw|]. exists c, r. split; [reflexivity|exact Hc].
  - apply spaced_bound; assumption.
  - intros y Hy. apply path_fuel_stop. rewrite Hy. exact Hstop.
Qed.

Theorem expr_text_complete :
  (forall c t e, atom_text c t e -> P_atom c t e) /\
  (forall c t e, and_text c t e -> P_and c t e) /\
  (forall c ts l, and_tail c ts l -> wtail [38; 38] (P_atom c) ts l) /\
  (forall c t e, or_text c t e -> P_or c t e) /\
  (forall c ts l, or_tail c ts l -> wtail [124; 124] (P_and c) ts l) /\
  (forall t p, fstep_text t p -> P_fstep t p) /\
  (forall ts ps, fsteps_text ts ps -> spaced P_fstep ts ps).
Proof.
  apply expr_text_mutind.
  - (* comparison *) intros c tl l w1 o op w2 tr r Hl H1 Ho H2 Hr. split.
    + destruct (operand_head_nonspace c tl l Hl) as (a & y & -> & Ha). exists a, (y ++ w1 ++ o ++ w2 ++ tr). split; [reflexivity|exact Ha].
    + intros m _ rest Hf. exists (multispace0 rest). split; [apply atom_compare; assumption|apply ms_idem].
  - (* arithmetic *) intros c tl l w1 o op w2 tr r Hl H1 Ho H2 Hr. split.
    + destruct (operand_head_nonspace c tl l Hl) as (a & y & -> & Ha). exists a, (y ++ w1 ++ o ++ w2 ++ tr). split; [reflexivity|exact Ha].
    + intros m _ rest Hf. exists (multispace0 rest). split; [apply atom_arith; assumption|apply ms_idem].
  - (* signed operand *) intros c o op w tx x Ho Hw Hx. split.
    + destruct Ho; eexists; eexists; split; reflexivity.
    + intros m _ rest Hf. exists (multispace0 rest). split; [apply atom_signed; assumption|apply ms_idem].
  - (* parentheses *) intros c w1 t e w2 H1 _ [Hh IH] H2. split; [eexists; eexists; split; reflexivity|].
    intros m Hm rest Hf. exists rest. split; [|reflexivity]. len_all Hm. destruct m as [|m]; [lia|].
    apply atom_paren; try assumption. rewrite expr_or_fuel_S.
    apply (IH m ltac:(lia) (w2 ++ 41 :: rest)). unfold or_follow. rewrite (ms_pws_cons w2 41 rest H2 eq_refl). reflexivity.
  - (* exists *) intros c w1 w2 r p ts ps w3 H1 H2 Hr _ IH H3. split; [eexists; eexists; split; reflexivity|].
    intros m Hm rest Hf. exists rest. split; [|reflexivity]. apply atom_exists; try assumption.
    unfold KW_EXISTS in Hm. len_all Hm.
    assert (M41 : multispace0 (w3 ++ 41 :: rest) = 41 :: rest) by apply (ms_pws_cons w3 41 rest H3 eq_refl).
    destruct (fsteps_many0 m ts ps IH ltac:(lia) (w3 ++ 41 :: rest)
                ltac:(destruct H3 as [|c0 w Hc0 Hw]; cbn [app name_end]; [reflexivity|destruct Hc0 as [->|[->|[->| ->]]]; reflexivity])
                ltac:(rewrite M41; reflexivity) (ts ++ w3 ++ 41 :: rest) eq_refl (S (length (ts ++ w3 ++ 41 :: rest)))
                ltac:(pose proof (spaced_len P_fstep P_fstep_nonspace ts ps IH); rewrite app_length; lia)) as (r3 & E & M).
    exists r3. split; [exact E|rewrite M; exact M41].
  - (* && list *) intros c t x ts l _ Hq _ Ht. split.
    + destruct Hq as [(a & y & -> & Ha) _]. exists a, (y ++ ts). split; [reflexivity|exact Ha].
    + intros m Hm rest Hf. destruct (and_follow_facts rest Hf) as [Haf Hstop].
      destruct (seplist_ws (expr_atom (negb c) (path_fuel m) (expr_or_fuel m (negb c))) 38 38 eq_refl (P_atom c) atom_follow m
                  (fun t0 x0 Hq0 Hl0 => conj (proj1 Hq0) (proj2 Hq0 m Hl0))
                  ltac:(intros w y Hw; unfold atom_follow; cbn [app]; rewrite (ms_pws_cons w 38 _ Hw eq_refl); tauto)
                  t x ts l Hq Ht Hm rest Haf Hstop) as (r' & E & M).
      exists r'. split; [|exact M]. unfold expr_and. unfold wsep in E. rewrite E. cbn [pmap pbind]. rewrite left_nested_fold. reflexivity.
  - constructor.
  - intros c w1 w2 t x ts l H1 H2 _ Hq _ Ht. apply (WT_cons [38; 38]); assumption.
  - (* || list *) intros c t x ts l _ Hq _ Ht. split.
    + destruct Hq as [(a & y & -> & Ha) _]. exists a, (y ++ ts). split; [reflexivity|exact Ha].
    + intros m Hm rest Hf. destruct (or_follow_facts rest Hf) as [Haf Hstop].
      destruct (seplist_ws (expr_and (negb c) (path_fuel m) (expr_or_fuel m (negb c))) 124 124 eq_refl (P_and c) and_follow m
                  (fun t0 x0 Hq0 Hl0 => conj (proj1 Hq0) (proj2 Hq0 m Hl0))
                  ltac:(intros w y Hw; unfold and_follow; cbn [app]; rewrite (ms_pws_cons w 124 _ Hw eq_refl); tauto)
                  t x ts l Hq Ht Hm rest Haf Hstop) as (r' & E & M).
      exists r'. split; [|exact M]. unfold expr_or. unfold wsep in E. rewrite E. cbn [pmap pbind]. rewrite left_nested_fold. reflexivity.
  - constructor.
  - intros c w1 w2 t x ts l H1 H2 _ Hq _ Ht. apply (WT_cons [124; 124]); assumption.
  - (* plain step *) intros t p Hs. split.
    + destruct (step_text_head t p Hs) as (a & r & -> & [->|[->| ->]]); eexists; eexists; (split; [reflexivity|split; reflexivity]).
    + intros m Hm rest x Hr Hx. destruct m as [|m]; [destruct (step_text_head t p Hs) as (a & r & -> & _); cbn [length] in Hm; lia|].
      rewrite path_fuel_S. unfold ws_around. rewrite Hx, (step_complete t p rest Hs Hr). reflexivity.
  - (* filter *) intros w1 w2 t e w3 H1 H2 _ [Hh IH] H3. split; [eexists; eexists; (split; [reflexivity|split; reflexivity])|].
    intros m Hm rest x Hr Hx. len_all Hm. destruct m as [|[|m]]; try lia. norm_in Hx.
    rewrite path_fuel_S. unfold ws_around. rewrite Hx.
    change (inner_path (63 :: w1 ++ 40 :: w2 ++ t ++ w3 ++ 41 :: rest)) with (@PErr path). cbn [pbind palt pchar].
    change (63 =? 63) with true. cbv iota. cbn [pbind]. rewrite (ms_pws_cons w1 40 _ H1 eq_refl). cbn [pchar]. change (40 =? 40) with true. cbv iota. cbn [pbind].
    rewrite (ms_item w2 t _ H2 Hh), expr_or_fuel_S.
    destruct (IH m ltac:(lia) (w3 ++ 41 :: rest) ltac:(unfold or_follow; rewrite (ms_pws_cons w3 41 rest H3 eq_refl); reflexivity)) as (r3 & E & M).
    cbn [negb] in E. rewrite E. cbn [pbind]. rewrite M, (ms_pws_cons w3 41 rest H3 eq_refl). cbn [pchar]. change (41 =? 41) with true. reflexivity.
  - constructor.
  - intros w t p ts ps Hw _ Hp _ Hs. constructor; assumption.
Qed.

Corollary or_text_complete c t e : or_text c t e -> P_or c t e.
Proof. apply expr_text_complete. Qed.
Corollary fsteps_text_complete ts ps : fsteps_text ts ps -> spaced P_fstep ts ps.
Proof. apply expr_text_complete. Qed.
Corollary fstep_text_complete t p : fstep_text t p -> P_fstep t p.
Proof. apply expr_text_complete. Qed.

(* ================================================================== whole paths *)
Lemma json_path_fuel_ms fuel bs : json_path_fuel fuel bs = json_path_fuel fuel (multispace0 bs).
Proof. unfold json_path_fuel. cbv zeta. rewrite ms_idem. reflexivity. Qed.
Lemma pws_name_end w : pws w -> name_end w.
Proof. intros [|c0 w0 Hc0 _]; [exact I|]. destruct Hc0 as [->|[->|[->| ->]]]; reflexivity. Qed.

Theorem predicate_complete w0 t e w1 : pws w0 -> or_text false t e -> pws w1 -> parse_json_path (w0 ++ t ++ w1) = Ok [PPredicate e].
Proof.
  intros H0 Ho H1. destruct (or_text_complete false t e Ho) as [Hh IH].
  unfold parse_json_path. rewrite json_path_fuel_ms, (ms_item w0 t w1 H0 Hh).
  destruct (IH (length (w0 ++ t ++ w1)) ltac:(rewrite !app_length; lia) w1 ltac:(unfold or_follow; rewrite (multispace0_all w1 H1); exact I)) as (r' & E & M).
  rewrite (multispace0_all w1 H1) in M.
  unfold json_path_fuel. cbv zeta. unfold ws_around. rewrite !(ms_item0 t w1 Hh), expr_or_fuel_S. cbn [negb] in E. rewrite E.
  cbn [pmap pbind palt]. rewrite M. reflexivity.
Qed.

Lemma fstep_text_head t p : fstep_text t p -> exists c r, t = c :: r /\ (c = 46 \/ c = 58 \/ c = 91 \/ c = 63).
Proof.
  intros [t0 p0 Hs|w1 w2 t0 e w3 _ _ _ _]; [|eexists; eexists; split; [reflexivity|tauto]].
  destruct (step_text_head t0 p0 Hs) as (c & r & -> & Hc). exists c, r. split; [reflexivity|tauto].
Qed.

(* the steps in front of the first filter are read by the operand reader, which then stops *)
Lemma inner_prefix ts ps : fsteps_text ts ps -> forall w1, pws w1 -> forall x acc fuel, multispace0 x = multispace0 (ts ++ w1) -> (length ps < fuel)%nat ->
  exists r' l, many0 (ws_around inner_path) fuel x acc = POk r' l /\ hd_in [63] (multispace0 r') = true.
Proof.
  induction 1 as [|w t p ts ps Hw Hp Hs IH]; intros w1 H1 x acc fuel Hx Hfu; (destruct fuel as [|fuel]; [cbn [length] in Hfu; lia|]); cbn [many0].
  - cbn [app] in Hx. rewrite (multispace0_all w1 H1) in Hx. unfold ws_around. rewrite Hx. cbn [pbind]. change (inner_path []) with (@PErr path). cbv iota.
    exists x, (rev acc). rewrite Hx. split; reflexivity.
  - destruct (fstep_text_head t p Hp) as (c & r & Et & Hc).
    assert (Hh : head_nonspace t) by (exists c, r; split; [exact Et|destruct Hc as [->|[->|[->| ->]]]; reflexivity]).
    rewrite <- !app_assoc, (ms_item w t _ Hw Hh) in Hx. unfold ws_around at 1. rewrite Hx.
    destruct Hp as [t p Hst|v1 v2 t e v3 G1 G2 Ho G3].
    + assert (Ne : name_end (ts ++ w1)).
      { destruct Hs as [|w' t' p' ts' ps' Hw' Hp' _]; [apply pws_name_end; exact H1|]. rewrite <- !app_assoc. apply name_end_spaced; [exact Hw'|].
        destruct (fstep_text_head t' p' Hp') as (c' & r' & -> & Hc'). exists c', r'. split; [reflexivity|destruct Hc' as [->|[->|[->| ->]]]; reflexivity]. }
      rewrite (step_complete t p (ts ++ w1) Hst Ne). cbn [pbind].
      assert (L : (length (multispace0 (ts ++ w1)) =? length x)%nat = false).
      { apply Nat.eqb_neq. pose proof (ms_len (ts ++ w1)) as L1. pose proof (ms_len x) as L2. rewrite Hx, Et in L2. rewrite app_length in L2. cbn [length] in L2. lia. }
      rewrite L. apply (IH w1 H1 _ (p :: acc) fuel (ms_idem _)). cbn [length] in Hfu. lia.
    + cbn [app]. change (inner_path (63 :: (v1 ++ 40 :: v2 ++ t ++ v3 ++ [41]) ++ ts ++ w1)) with (@PErr path). cbn [pbind]. cbv iota.
      exists x, (rev acc). rewrite Hx. split; reflexivity.
Qed.

Lemma rooted_not_predicate k ts ps w1 : fsteps_text ts ps -> pws w1 ->
  expr_atom true (path_fuel k) (expr_or_fuel k true) (36 :: ts ++ w1) = PErr.
Proof.
  intros Hs H1. rewrite (expr_atom_eq false).
  destruct (inner_prefix ts ps Hs w1 H1 (ts ++ w1) [] (S (length (ts ++ w1))) eq_refl
              ltac:(pose proof (spaced_len P_fstep P_fstep_nonspace ts ps (fsteps_text_complete ts ps Hs)); rewrite app_length; lia)) as (r' & l & E & Hq).
  assert (W : ws_around (inner_expr (negb false)) (36 :: ts ++ w1) = POk (multispace0 r') (EPaths (PRoot :: l))).
  { unfold ws_around. cbn [multispace0 negb]. change (is_space 36) with false. cbv iota. unfold inner_expr, expr_paths. cbn [pchar].
    change (36 =? 36) with true. cbv iota. cbn [pmap pbind palt]. rewrite E. reflexivity. }
  rewrite W. cbn [pbind].
  assert (Q : pbarith (multispace0 r') = PErr /\ pop (multispace0 r') = PErr).
  { destruct (multispace0 r') as [|c y]; [split; reflexivity|]. cbn [hd_in existsb] in Hq. rewrite orb_false_r in Hq. apply N.eqb_eq in Hq. subst c. split; reflexivity. }
  destruct Q as [Q1 Q2]. rewrite Q1, Q2. reflexivity.
Qed.

Theorem rooted_path_complete w0 ts ps w1 : pws w0 -> fsteps_text ts ps -> pws w1 -> parse_json_path (w0 ++ 36 :: ts ++ w1) = Ok (PRoot :: ps).
Proof.
  intros H0 Hs H1. unfold parse_json_path. rewrite json_path_fuel_ms, (ms_pws_cons w0 36 _ H0 eq_refl).
  set (k := length (w0 ++ 36 :: ts ++ w1)).
  pose proof (fsteps_text_complete ts ps Hs) as Sp.
  destruct (fsteps_many0 (S k) ts ps Sp ltac:(subst k; rewrite !app_length; cbn [length]; rewrite app_length; lia) w1 (pws_name_end w1 H1)
              ltac:(rewrite (multispace0_all w1 H1); reflexivity) (ts ++ w1) eq_refl (S (length (ts ++ w1)))
              ltac:(pose proof (spaced_len P_fstep P_fstep_nonspace ts ps Sp); rewrite app_length; lia)) as (r' & E & M).
  rewrite (multispace0_all w1 H1) in M.
  rewrite (json_path_rooted (S k) (ts ++ w1) r' ps (pred_fails k _ (rooted_not_predicate k ts ps w1 Hs H1)) E M). reflexivity.
Qed.

Theorem rooted_complete t ps : jp_rooted_text t ps -> parse_json_path t = Ok ps.
Proof. intros [w0 ts ps0 w1 H0 Hs H1|w0 t0 e w1 H0 Ho H1]; [apply rooted_path_complete|apply predicate_complete]; assumption. Qed.

(* ---- the unrooted forms, outside the texts that start like an expression *)

Lemma path_value_unlike c y : ~ starts_like_an_expression (c :: y) -> c <> 43 -> c <> 45 -> c <> 34 -> path_value (c :: y) = PErr.
Proof.
  intros Hn N43 N45 N34. cbn [starts_like_an_expression In] in Hn.
  assert (Hd : is_digit c = false) by (destruct (is_digit c); [exfalso; apply Hn; tauto|reflexivity]).
  assert (NK : c <> 110 /\ c <> 116 /\ c <> 102 /\ c <> 78 /\ c <> 105 /\ c <> 73) by (repeat split; intros ->; apply Hn; tauto).
  destruct NK as (K1 & K2 & K3 & K4 & K5 & K6).
  rewrite (path_value_nokw c y K1 K2 K3). unfold int_reading, pu64, pi64. rewrite (int_digits_nondigit _ _ _ c y Hd), (pint_nonstart _ _ c y Hd N43 N45).
  cbn [pbind palt].
  assert (F : float_parts (c :: y) = PErr).
  { rewrite float_parts_eq, (fsign_other c y N43 N45). unfold fmant. cbn [take_digits]. rewrite Hd. cbn [rev].
    destruct (N.eq_dec c 46) as [->|N46]; [|kill_lit c; exfalso; apply N46; reflexivity].
    destruct y as [|d y']; [reflexivity|]. cbn [take_digits].
    assert (Hdd : is_digit d = false) by (destruct (is_digit d) eqn:Ed; [exfalso; apply Hn; right; right; split; reflexivity|reflexivity]).
    rewrite Hdd. reflexivity. }
  unfold pdouble. rewrite F. cbn [pmap pbind palt ptag_no_case].
  change (ascii_lower 110) with 110. change (ascii_lower 105) with 105.
  rewrite (ascii_lower_other c 110 ltac:(lia) K1 K4), (ascii_lower_other c 105 ltac:(lia) K5 K6). cbn [pmap pbind palt].
  rewrite (neg_inf_reading_other c y N45). cbn [palt].
  rewrite (pstring_not_quote c y N34). reflexivity.
Qed.

Lemma unrooted_not_predicate k T :
  (match T with [] => True | c :: _ => is_space c = false /\ ~ In c [36; 64; 40; 43; 45; 34] end) -> ~ starts_like_an_expression T ->
  expr_atom true (path_fuel k) (expr_or_fuel k true) T = PErr.
Proof.
  intros HT Hn. destruct T as [|c y]; [reflexivity|]. destruct HT as [Hsp HT]. cbn [In] in HT.
  assert (NN : c <> 36 /\ c <> 64 /\ c <> 40 /\ c <> 43 /\ c <> 45 /\ c <> 34) by (repeat split; intros ->; apply HT; tauto).
  destruct NN as (N36 & N64 & N40 & N43 & N45 & N34).
  assert (N101 : c <> 101) by (intros ->; apply Hn; cbn [starts_like_an_expression In]; tauto).
  rewrite (expr_atom_eq false).
  assert (W : ws_around (inner_expr (negb false)) (c :: y) = PErr).
  { unfold ws_around. cbn [multispace0]. rewrite Hsp. unfold inner_expr. rewrite (expr_paths_fail _ c y N36 N64), (path_value_unlike c y Hn N43 N45 N34). reflexivity. }
  rewrite W. cbn [pbind palt]. unfold punary, pexists. cbn [pchar ptag].
  apply N.eqb_neq in N43. apply N.eqb_neq in N45. apply N.eqb_neq in N40. apply N.eqb_neq in N101. rewrite N43, N45, N40, N101. reflexivity.
Qed.

Lemma nil_or_step_head T : (T = [] \/ exists c r, T = c :: r /\ (c = 46 \/ c = 58 \/ c = 91 \/ c = 63)) ->
  (match T with [] => True | c :: _ => is_space c = false /\ ~ In c [36; 64; 40; 43; 45; 34] end) /\ pre_path T = PErr /\ multispace0 T = T.
Proof.
  intros [->|(c & r & -> & Hc)]; [repeat split; reflexivity|].
  split; [destruct Hc as [->|[->|[->| ->]]]; (split; [reflexivity|cbn [In]; intuition discriminate])|].
  split; [|destruct Hc as [->|[->|[->| ->]]]; reflexivity].
  unfold pre_path, ws_around. assert (M : multispace0 (c :: r) = c :: r) by (destruct Hc as [->|[->|[->| ->]]]; reflexivity). rewrite M.
  rewrite (raw_string_delim c r ltac:(destruct Hc as [->|[->|[->| ->]]]; reflexivity)). destruct Hc as [->|[->|[->| ->]]]; reflexivity.
Qed.

Theorem unrooted_complete_partial t ps : jp_unrooted_text t ps -> ~ starts_like_an_expression (multispace0 t) -> parse_json_path t = Ok ps.
Proof.
  intros Ht Hn. unfold parse_json_path. rewrite json_path_fuel_ms. set (k := length t). destruct Ht as [w0 ts ps w1 H0 Hs H1|w0 t s ts ps w1 H0 Hb Hs H1].
  - pose proof (fsteps_text_complete ts ps Hs) as Sp.
    assert (E0 : multispace0 (w0 ++ ts ++ w1) = multispace0 (ts ++ w1)).
    { destruct (multispace0_split (ts ++ w1)) as (v & Ev & Hv & Hnsp). rewrite Ev at 1. rewrite app_assoc. apply multispace0_pws; [apply pws_app; assumption|exact Hnsp]. }
    rewrite E0 in *. set (T := multispace0 (ts ++ w1)) in *.
    assert (HT : T = [] \/ exists c r, T = c :: r /\ (c = 46 \/ c = 58 \/ c = 91 \/ c = 63)).
    { subst T. destruct Hs as [|w t p ts ps Hw Hp _]; [left; apply (multispace0_all w1 H1)|right].
      destruct (fstep_text_head t p Hp) as (c & r & -> & Hc). exists c, (r ++ ts ++ w1). split; [|exact Hc].
      rewrite <- !app_assoc. apply (ms_pws_cons w c _ Hw). destruct Hc as [->|[->|[->| ->]]]; reflexivity. }
    destruct (nil_or_step_head T HT) as (C1 & C2 & C3).
    destruct (fsteps_many0 (S k) ts ps Sp ltac:(subst k; rewrite !app_length; lia) w1 (pws_name_end w1 H1)
                ltac:(rewrite (multispace0_all w1 H1); reflexivity) T ltac:(subst T; apply ms_idem) (S (length T))
                ltac:(pose proof (spaced_count P_fstep P_fstep_nonspace ts ps w1 Sp); fold T in H; lia)) as (r' & E & M).
    rewrite (multispace0_all w1 H1) in M.
    rewrite (json_path_unrooted (S k) T r' ps C3 (pred_fails k T (unrooted_not_predicate k T C1 Hn)) C2 E M). reflexivity.
  - pose proof (fsteps_text_complete ts ps Hs) as Sp.
    destruct (bare_name_head t s Hb) as (c & r & Et & Hc). destruct (bare_head_facts c Hc) as (N34 & N43 & N45 & Hsp).
    assert (Hh : head_nonspace t) by (exists c, r; split; assumption).
    assert (Hk : (length ts <= S k)%nat) by (subst k; rewrite !app_length; lia).
    rewrite (ms_item w0 t _ H0 Hh) in *. set (T := t ++ ts ++ w1) in *.
    assert (C1 : match T with [] => True | a :: _ => is_space a = false /\ ~ In a [36; 64; 40; 43; 45; 34] end).
    { subst T. rewrite Et. cbn [app]. split; [exact Hsp|]. cbn [In]. destruct Hc as [-> | Hd]; [intuition discriminate|].
      intros [<-|[<-|[<-|[<-|[<-|[<-|[]]]]]]]; vm_compute in Hd; discriminate Hd. }
    assert (Ne : name_end (ts ++ w1)).
    { destruct Hs as [|w' t' p' ts' ps' Hw' Hp' _]; [apply pws_name_end; exact H1|]. rewrite <- !app_assoc. apply name_end_spaced; [exact Hw'|].
      destruct (fstep_text_head t' p' Hp') as (c' & r' & -> & Hc'). exists c', r'. split; [reflexivity|destruct Hc' as [->|[->|[->| ->]]]; reflexivity]. }
    destruct (fsteps_many0 (S k) ts ps Sp Hk w1 (pws_name_end w1 H1)
                ltac:(rewrite (multispace0_all w1 H1); reflexivity) (multispace0 (ts ++ w1)) (ms_idem _) (S (length (multispace0 (ts ++ w1))))
                ltac:(pose proof (spaced_count P_fstep P_fstep_nonspace ts ps w1 Sp); lia)) as (r' & E & M).
    rewrite (multispace0_all w1 H1) in M.
    assert (PP : pre_path T = POk (multispace0 (ts ++ w1)) (PDotField s)).
    { unfold pre_path, ws_around. subst T.
      assert (PC : pchar 36 (t ++ ts ++ w1) = PErr).
      { rewrite Et. cbn [app pchar].
        replace (c =? 36) with false by (symmetry; apply N.eqb_neq; intros ->; destruct Hc as [X|X]; [discriminate X|vm_compute in X; discriminate X]). reflexivity. }
      rewrite PC. cbn [pmap pbind palt]. rewrite (ms_item0 t _ Hh), (raw_string_complete t s _ Hb Ne). reflexivity. }
    assert (MT : multispace0 T = T) by (subst T; apply (ms_item0 t _ Hh)).
    unfold json_path_fuel. cbv zeta. unfold ws_around at 1. rewrite !MT.
    rewrite (pred_fails k T (unrooted_not_predicate k T C1 Hn)). cbn [pmap pbind palt]. rewrite PP. cbv iota beta. rewrite E. cbn [pbind]. rewrite M. reflexivity.
Qed.

(* ================================================================== soundness, first fragment: the steps other than index lists *)
Lemma ptag_sound lit : forall bs r u, ptag lit bs = POk r u -> bs = lit ++ r.
Proof.
  induction lit as [|c lit IH]; intros bs r u H; cbn [ptag] in H; [injection H as ->; reflexivity|].
  destruct bs as [|b bs]; [discriminate H|]. destruct (b =? c) eqn:E; [|discriminate H]. apply N.eqb_eq in E. subst b.
  cbn [app]. f_equal. apply (IH _ _ _ H).
Qed.
Lemma ms_split_cons bs c r : multispace0 bs = c :: r -> exists w, bs = w ++ c :: r /\ pws w.
Proof. intros H. destruct (multispace0_split bs) as (w & E & Hw & _). rewrite H in E. exists w. split; assumption. Qed.

Lemma field_sound x r s : palt (pstring x) (fun _ => raw_string x) = POk r s ->
  exists t, x = t ++ r /\ (quoted_name t s \/ bare_name t s).
Proof.
  intros H. destruct (pstring x) as [r1 s1| | |] eqn:E; cbn [palt] in H; try discriminate H.
  - injection H as <- <-. destruct (pstring_sound _ _ _ E) as (t & -> & Hq). exists t. split; [reflexivity|left; exact Hq].
  - destruct (raw_string_sound _ _ _ H) as (t & -> & Hb & _). exists t. split; [reflexivity|right; exact Hb].
Qed.

Theorem inner_path_sound_partial bs r p : inner_path bs = POk r p -> (forall l, p <> PIndices l) ->
  exists t, bs = t ++ r /\ step_text t p.
Proof.
  unfold inner_path. intros H Hp.
  destruct (ptag [46; 42] bs) as [r1 u1| | |] eqn:E1; cbn [pmap pbind palt] in H; try discriminate H.
  { injection H as <- <-. apply ptag_sound in E1. exists [46; 42]. split; [exact E1|constructor]. }
  destruct (bracket_wildcard bs) as [r2 u2| | |] eqn:E2; cbn [pmap pbind palt] in H; try discriminate H.
  { injection H as <- <-. unfold bracket_wildcard in E2.
    destruct (pchar 91 bs) as [q1 v1| | |] eqn:P1; cbn [pbind] in E2; try discriminate E2. apply pchar_sound in P1.
    destruct (pchar 42 (multispace0 q1)) as [q2 v2| | |] eqn:P2; cbn [pbind] in E2; try discriminate E2. apply pchar_sound in P2.
    apply pchar_sound in E2. destruct (ms_split_cons _ _ _ P2) as (w1 & -> & H1). destruct (ms_split_cons _ _ _ E2) as (w2 & -> & H2).
    exists (91 :: w1 ++ 42 :: w2 ++ [93]). split; [rewrite P1; norm; reflexivity|apply ST_bracket_wildcard; assumption]. }
  destruct (colon_field bs) as [r3 s3| | |] eqn:E3; cbn [pmap pbind palt] in H; try discriminate H.
  { injection H as <- <-. unfold colon_field, field_after in E3.
    destruct (pchar 58 bs) as [q1 v1| | |] eqn:P1; cbn [pbind palt] in E3; try discriminate E3. apply pchar_sound in P1. subst bs.
    destruct (field_sound q1 r3 s3 E3) as (t & -> & [Hq|Hb]); exists (58 :: t); (split; [reflexivity|]); [apply ST_colon_quoted|apply ST_colon_name]; assumption. }
  destruct (dot_field bs) as [r4 s4| | |] eqn:E4; cbn [pmap pbind palt] in H; try discriminate H.
  { injection H as <- <-. unfold dot_field, field_after in E4.
    destruct (pchar 46 bs) as [q1 v1| | |] eqn:P1; cbn [pbind palt] in E4; try discriminate E4. apply pchar_sound in P1. subst bs.
    destruct (field_sound q1 r4 s4 E4) as (t & -> & [Hq|Hb]); exists (46 :: t); (split; [reflexivity|]); [apply ST_dot_quoted|apply ST_dot_name]; assumption. }
  destruct (array_indices bs) as [r5 l5| | |] eqn:E5; cbn [pmap pbind palt] in H; try discriminate H.
  { injection H as <- <-. exfalso. apply (Hp l5). reflexivity. }
  destruct (object_field bs) as [r6 s6| | |] eqn:E6; cbn [pmap pbind] in H; try discriminate H.
  injection H as <- <-. unfold object_field in E6.
  destruct (pchar 91 bs) as [q1 v1| | |] eqn:P1; cbn [pbind] in E6; try discriminate E6. apply pchar_sound in P1.
  destruct (pstring (multispace0 q1)) as [q2 s2| | |] eqn:P2; cbn [pbind] in E6; try discriminate E6.
  destruct (pchar 93 (multispace0 q2)) as [q3 v3| | |] eqn:P3; cbn [pbind] in E6; try discriminate E6. injection E6 as <- <-.
  apply pchar_sound in P3. destruct (pstring_sound _ _ _ P2) as (t & Et & Hq). destruct (quoted_name_first t s2 Hq) as (y & Ey).
  rewrite Ey in Et. cbn [app] in Et. destruct (ms_split_cons _ _ _ Et) as (w1 & -> & H1). destruct (ms_split_cons _ _ _ P3) as (w2 & -> & H2).
  exists (91 :: w1 ++ t ++ w2 ++ [93]). split; [rewrite P1, Ey; norm; reflexivity|apply ST_bracket_name; assumption].
Qed.
