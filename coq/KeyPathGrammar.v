(* KeyPathGrammar.v — the documented key-path syntax, as a declarative grammar with denotations.
   Written from the text of property C16 and the documented forms (tests/it/testdata/key_path.txt: ` {  } `, ` { 1, a } `,
   `{1,a,-2}`, `{a,"b","c"} `), not from the parser model:
     "Every brace-delimited list of path elements is accepted with any spacing: a signed integer is an index, a quoted
      string is a quoted name with its escapes decoded, anything else made of name characters is a plain name (plain names
      do not start with a digit or sign), and the empty list is the empty path."
   Every production that goes beyond that text carries a name starting with X_ and a comment; each was confirmed on the
   real crate (Props/C16.v, final report).
   Definitions only.  The two inclusion theorems (grammar <= parser, parser <= grammar) are in KeyPathGrammarProofs.v.
   The relations for whitespace, names and quoted strings are shared with the JSONPath grammar (PathGrammar.v). *)
From Coq Require Import List NArith ZArith Bool.
Import ListNotations.
From JB Require Import Constants Bytes Utf8 Num Value Decimal TreeOps JsonGrammar.
Open Scope N_scope.

(* ------------------------------------------------------------------ spacing *)
(* "any spacing": any run of space, tab, line feed, carriage return (JsonGrammar.rfc_ws is exactly that) *)
Definition pws : list N -> Prop := rfc_ws.

(* ------------------------------------------------------------------ integers *)
(* an optionally signed run of decimal digits (leading zeros allowed) and its value *)
Inductive signed_int : list N -> Z -> Prop :=
| SI_unsigned ds : ds <> [] -> digits ds -> signed_int ds (digits_val ds 0)
| SI_minus ds : ds <> [] -> digits ds -> signed_int (45 :: ds) (- digits_val ds 0)
(* beyond the documented forms (only `1` and `-2` are shown): an explicit plus sign *)
| X_SI_plus ds : ds <> [] -> digits ds -> signed_int (43 :: ds) (digits_val ds 0).

Definition in_i32 (z : Z) : Prop := (-2147483648 <= z <= 2147483647)%Z.
Definition in_i64 (z : Z) : Prop := (- two63 <= z <= two63 - 1)%Z.

(* ------------------------------------------------------------------ names *)
(* the bytes that end a plain name (the translator's copy of the list in raw_string): white space, the
   two quote characters and  ! $ % & ( ) * + , - . / : < = > ? @ [ ] { | }  (bytes 33 34 36..47 58 60..64 91 93 123..125);
   in particular the signs, so a plain name cannot start with one *)
Definition name_delimiter (c : N) : Prop := In c RAW_STRING_DELIMS.
(* a name character: any other byte except the backslash (which starts an escape); non-ASCII bytes included *)
Definition name_char (c : N) : Prop := ~ name_delimiter c /\ c <> 92.

(* name_body t s: t is the text of a plain name, s the bytes of the name denoted.
   NB_char is the documented part.  Beyond the property text: a plain name may contain backslash escapes, the same ones
   as a JSON string literal (JsonGrammar.jstring_body) with the same decoding; delimiters inside an escape (the quote of
   backslash-quote, the solidus of backslash-solidus, the braces of \u{XXXX}) do not end the name. *)
Inductive name_body : list N -> list N -> Prop :=
| NB_end : name_body [] []
| NB_char c t s : name_char c -> name_body t s -> name_body (c :: t) (c :: s)
| X_NB_short x b t s : short_escape x = Some b -> name_body t s -> name_body (92 :: x :: t) (b :: s)
| X_NB_unicode e d n t s : uescape e d n -> is_high n = false -> is_low n = false -> name_body t s ->
    name_body (e ++ t) (utf8_encode n ++ s)
| X_NB_pair e1 d1 hi e2 d2 lo t s : uescape e1 d1 hi -> is_high hi = true -> uescape e2 d2 lo -> is_low lo = true ->
    name_body t s -> name_body (e1 ++ e2 ++ t) (utf8_encode (pair_code_point hi lo) ++ s)
| X_NB_lone_low e d n t s : uescape e d n -> is_low n = true -> name_body t s ->
    name_body (e ++ t) (kept_literally d ++ s)
| X_NB_lone_high e d n t s : uescape e d n -> is_high n = true -> starts_u_escape t = false -> name_body t s ->
    name_body (e ++ t) (kept_literally d ++ s)
| X_NB_high_then_not_low e1 d1 hi e2 d2 x t s : uescape e1 d1 hi -> is_high hi = true -> uescape e2 d2 x -> is_low x = false ->
    name_body t s -> name_body (e1 ++ e2 ++ t) (kept_literally d1 ++ kept_literally d2 ++ s).

(* a bare (unquoted) name: non-empty, the name denoted is UTF-8 *)
Inductive bare_name : list N -> list N -> Prop :=
| Bare t s : t <> [] -> name_body t s -> utf8_valid s = true -> bare_name t s.

(* a quoted name: a JSON string literal in double quotes, escapes decoded (JsonGrammar.jstring: RFC 8259 section 7 plus
   the relaxations listed there — raw control characters, \u{XXXX}, unpaired surrogate escapes kept as text) *)
Definition quoted_name : list N -> list N -> Prop := jstring.

(* ------------------------------------------------------------------ key paths *)
Definition starts_with_digit (t : list N) : Prop := match t with c :: _ => is_digit c = true | [] => False end.

Inductive kp_element : list N -> keypath -> Prop :=
| KE_index t i : signed_int t i -> in_i32 i -> kp_element t (KIndex i)
| KE_quoted t s : quoted_name t s -> kp_element t (KQuoted s)
(* plain names do not start with a digit (nor with a sign: the signs are not name characters) *)
| KE_name t s : bare_name t s -> ~ starts_with_digit t -> kp_element t (KName s).

(* element *( "," element ), each with any spacing around it *)
Inductive kp_elements : list N -> list keypath -> Prop :=
| KEs_one w1 t k w2 : pws w1 -> kp_element t k -> pws w2 -> kp_elements (w1 ++ t ++ w2) [k]
| KEs_cons w1 t k w2 ts ks : pws w1 -> kp_element t k -> pws w2 -> kp_elements ts ks ->
    kp_elements (w1 ++ t ++ w2 ++ 44 :: ts) (k :: ks).

(* ws "{" elements "}" ws ; the empty list is the empty path *)
Inductive kp_text : list N -> list keypath -> Prop :=
| KP_empty w0 w w3 : pws w0 -> pws w -> pws w3 -> kp_text (w0 ++ 123 :: w ++ 125 :: w3) []
| KP_list w0 ts ks w3 : pws w0 -> kp_elements ts ks -> pws w3 -> kp_text (w0 ++ 123 :: ts ++ 125 :: w3) ks.
