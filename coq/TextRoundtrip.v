(* TextRoundtrip.v — parsing the compact rendering of a document gives the document back (C02, C03):
   strings with every escape the printer emits, integers, the three literals, arrays and objects. *)
From Coq Require Import List NArith ZArith Bool Lia.
Import ListNotations.
From JB Require Import Constants Bytes Utf8 Num Value Decimal JsonText Render MiscProofs OrderProofs RoundtripProofs SerdeProofs.
Open Scope N_scope.
Set Default Timeout 300.

(* ---------------------------------------------------------------- one byte of a string and its escape *)
Lemma in_seq_N b lo n : N.of_nat lo <= b -> b < N.of_nat (lo + n) -> In b (map N.of_nat (seq lo n)).
Proof.
  intros H1 H2. apply in_map_iff. exists (N.to_nat b). split; [apply N2Nat.id|]. apply in_seq. lia.
Qed.

Inductive esc_form (b : N) : Prop :=
| ef_plain : escape_byte b = [b] -> b <> 92 -> b <> 34 -> esc_form b
| ef_short x : escape_byte b = [92; x] -> x <> 117 -> (forall tail, parse_escaped_string (x :: tail) = Ok (tail, [b])) -> esc_form b
| ef_u4 h1 h2 : escape_byte b = [92; 117; 48; 48; h1; h2] ->
    (forall tail, parse_escaped_string (117 :: 48 :: 48 :: h1 :: h2 :: tail) = Ok (tail, [b])) -> esc_form b.

Lemma escape_byte_form b : b < 256 -> esc_form b.
Proof.
  intros Hb. destruct (N.lt_ge_cases b 32) as [Hc|Hc].
  - assert (Hin : In b (map N.of_nat (seq 0 32))) by (apply (in_seq_N b 0 32); cbn; lia).
    cbn in Hin.
    repeat (destruct Hin as [<-|Hin];
            [first [ eapply ef_short; [reflexivity|discriminate|intros tail; reflexivity]
                   | eapply ef_u4; [reflexivity|intros tail; reflexivity] ]|]).
    destruct Hin.
  - destruct (N.eq_dec b 34) as [->|N34]; [eapply ef_short; [reflexivity|discriminate|intros tail; reflexivity]|].
    destruct (N.eq_dec b 92) as [->|N92]; [eapply ef_short; [reflexivity|discriminate|intros tail; reflexivity]|].
    apply ef_plain; [|exact N92|exact N34].
    apply other_bytes_copied; [apply (in_seq_N b 32 224); cbn; lia|exact N34|exact N92].
Qed.

Definition escaped (b : N) : bool := (1 <? length (escape_byte b))%nat.
Definition n_esc (s : list N) : nat := length (filter escaped s).

(* ---------------------------------------------------------------- first pass *)
Lemma scan_escaped s : bytes_ok s -> forall fuel acc esc rest, (length s < fuel)%nat ->
  scan_string fuel (flat_map escape_byte s ++ 34 :: rest) acc esc
  = Some (rev acc ++ flat_map escape_byte s, (esc + n_esc s)%nat, rest).
Proof.
  induction 1 as [|b s Hb Hs IH]; intros fuel acc esc rest Hf; (destruct fuel as [|fuel]; [cbn [length] in Hf; lia|]).
  - cbn [flat_map app scan_string]. change (34 =? 92) with false. change (34 =? 34) with true. cbv iota.
    unfold n_esc. cbn [filter length]. rewrite app_nil_r, Nat.add_0_r. reflexivity.
  - cbn [flat_map]. unfold n_esc. cbn [filter]. fold (n_esc s). unfold escaped at 1.
    destruct (escape_byte_form b Hb) as [E N1 N2|x E Nx _|h1 h2 E _]; rewrite E; cbn [app length Nat.ltb Nat.leb scan_string].
    + apply N.eqb_neq in N1. apply N.eqb_neq in N2. rewrite N1, N2.
      rewrite IH by (cbn [length] in Hf; lia). cbn [rev]. rewrite <- app_assoc. reflexivity.
    + change (92 =? 92) with true. cbv iota. apply N.eqb_neq in Nx. rewrite Nx.
      rewrite IH by (cbn [length] in Hf; lia). cbn [rev length]. rewrite <- !app_assoc. cbn [app]. f_equal. f_equal. f_equal. unfold n_esc. cbn [length]. lia.
    + change (92 =? 92) with true. change (117 =? 117) with true. change (48 =? 123) with false. cbv iota.
      cbn [skipn firstn rev app].
      rewrite IH by (cbn [length] in Hf; lia). cbn [rev length]. rewrite <- !app_assoc. cbn [app]. f_equal. f_equal. f_equal. unfold n_esc. cbn [length]. lia.
Qed.

(* ---------------------------------------------------------------- second pass *)
Lemma parse_escaped_body s : bytes_ok s -> forall fuel buf, (length s < fuel)%nat ->
  parse_string_fuel fuel (flat_map escape_byte s) buf = if utf8_valid (buf ++ s) then Ok (buf ++ s) else Err EOther.
Proof.
  induction 1 as [|b s Hb Hs IH]; intros fuel buf Hf; (destruct fuel as [|fuel]; [cbn [length] in Hf; lia|]).
  - cbn [flat_map parse_string_fuel]. rewrite app_nil_r. reflexivity.
  - cbn [flat_map].
    assert (A : buf ++ b :: s = (buf ++ [b]) ++ s) by (rewrite <- app_assoc; reflexivity).
    destruct (escape_byte_form b Hb) as [E N1 N2|x E Nx P|h1 h2 E P]; rewrite E; cbn [app parse_string_fuel].
    + apply N.eqb_neq in N1. rewrite N1. rewrite IH by (cbn [length] in Hf; lia). rewrite A. reflexivity.
    + change (92 =? 92) with true. cbv iota. rewrite P. cbn [bind]. rewrite IH by (cbn [length] in Hf; lia). rewrite A. reflexivity.
    + change (92 =? 92) with true. cbv iota. rewrite P. cbn [bind]. rewrite IH by (cbn [length] in Hf; lia). rewrite A. reflexivity.
Qed.

Lemma no_escapes_identity s : bytes_ok s -> n_esc s = 0%nat -> flat_map escape_byte s = s.
Proof.
  induction 1 as [|b s Hb Hs IH]; [reflexivity|]. unfold n_esc. cbn [filter flat_map]. fold (n_esc s). unfold escaped at 1.
  destruct (escape_byte_form b Hb) as [E N1 N2|x E Nx P|h1 h2 E P]; rewrite E; cbn [length Nat.ltb Nat.leb]; intros H;
    [|discriminate H|discriminate H].
  cbn [app]. rewrite IH by exact H. reflexivity.
Qed.

Lemma length_flat_escape_ge s : bytes_ok s -> (length s <= length (flat_map escape_byte s))%nat.
Proof.
  induction 1 as [|b s Hb Hs IH]; [cbn; lia|]. cbn [flat_map length]. rewrite app_length.
  destruct (escape_byte_form b Hb) as [E _ _|x E _ _|h1 h2 E _]; rewrite E; cbn [length]; lia.
Qed.

(* a rendered string literal (after its opening quote) reads back as the string *)
Theorem string_roundtrip s rest : bytes_ok s -> utf8_valid s = true ->
  parse_json_string (flat_map escape_byte s ++ 34 :: rest) = Ok (s, rest).
Proof.
  intros Hs Hu. unfold parse_json_string.
  rewrite (scan_escaped s Hs) by (rewrite app_length; cbn [length]; pose proof (length_flat_escape_ge s Hs); lia).
  cbn [rev app Nat.add].
  destruct (n_esc s) eqn:En.
  - rewrite (no_escapes_identity s Hs En), Hu. reflexivity.
  - unfold parse_string. rewrite (parse_escaped_body s Hs) by (pose proof (length_flat_escape_ge s Hs); lia). cbn [app]. rewrite Hu. reflexivity.
Qed.

(* ---------------------------------------------------------------- integers *)
Lemma digits_val_app a b acc : digits_val (a ++ b) acc = digits_val b (digits_val a acc).
Proof. revert acc. induction a as [|d a IH]; intros acc; [reflexivity|]. cbn [app digits_val]. apply IH. Qed.

Definition digit_list (ds : list N) : Prop := Forall (fun d => is_digit d = true) ds.

(* itoa: the digits of n, most significant first, no leading zero *)
Lemma digits_fuel_spec fuel : forall n acc, (0 < fuel)%nat -> n < 10 ^ N.of_nat fuel ->
  exists ds, digits_fuel fuel n acc = ds ++ acc /\ digit_list ds /\
             (forall a, digits_val ds a = (a * 10 ^ Z.of_nat (length ds) + Z.of_N n)%Z) /\
             (n = 0 -> ds = [48]) /\ (0 < n -> exists d r, ds = d :: r /\ d <> 48).
Proof.
  induction fuel as [|fuel IH]; intros n acc Hf Hn; [lia|]. cbn [digits_fuel].
  assert (D := N.div_mod n 10 ltac:(lia)). assert (M := N.mod_lt n 10 ltac:(lia)).
  rewrite Nat2N.inj_succ, N.pow_succ_r' in Hn.
  remember (n mod 10) as r eqn:Er. remember (n / 10) as q eqn:Eq. clear Er Eq.
  assert (Hdig : is_digit (48 + r) = true) by (unfold is_digit; apply andb_true_iff; split; apply N.leb_le; lia).
  destruct (n <? 10) eqn:E; [apply N.ltb_lt in E|apply N.ltb_ge in E].
  - assert (Q : q = 0) by lia. subst q.
    exists [48 + r]. split; [reflexivity|]. split; [constructor; [exact Hdig|constructor]|].
    split; [intros a; cbn [digits_val length]; change (10 ^ Z.of_nat 1)%Z with 10%Z; lia|]. split.
    + intros ->. assert (r = 0) by lia. subst r. reflexivity.
    + intros Hp. exists (48 + r), []. split; [reflexivity|]. lia.
  - assert (Hq : q < 10 ^ N.of_nat fuel) by (generalize dependent (10 ^ N.of_nat fuel); intros; lia).
    assert (Hq1 : 0 < q) by lia.
    assert (Hfuel : (0 < fuel)%nat).
    { destruct fuel; [|lia]. change (10 ^ N.of_nat 0) with 1 in Hq. lia. }
    destruct (IH q ((48 + r) :: acc) Hfuel Hq) as (ds & E1 & E2 & E3 & _ & E5).
    exists (ds ++ [48 + r]). split; [rewrite E1, <- app_assoc; reflexivity|]. split.
    + apply Forall_app. split; [exact E2|]. constructor; [exact Hdig|constructor].
    + split.
      * intros a. rewrite digits_val_app, E3. cbn [digits_val]. rewrite app_length. cbn [length].
        replace (Z.of_nat (length ds + 1)) with (Z.of_nat (length ds) + 1)%Z by lia.
        rewrite Z.pow_add_r by lia. change (10 ^ 1)%Z with 10%Z. generalize dependent (10 ^ Z.of_nat (length ds))%Z. intros. nia.
      * split; [intros ->; lia|].
        intros _. destruct (E5 Hq1) as (d & r0 & -> & Hd). exists d, (r0 ++ [48 + r]). split; [reflexivity|exact Hd].
Qed.

Lemma dec_digits_spec n : n < two64 ->
  digit_list (dec_digits n) /\ digits_val (dec_digits n) 0 = Z.of_N n /\
  (n = 0 -> dec_digits n = [48]) /\ (0 < n -> exists d r, dec_digits n = d :: r /\ d <> 48).
Proof.
  intros Hn. unfold dec_digits.
  destruct (digits_fuel_spec 40 n [] ltac:(lia)) as (ds & E1 & E2 & E3 & E4 & E5).
  { unfold two64 in Hn. change (10 ^ N.of_nat 40) with 10000000000000000000000000000000000000000. lia. }
  rewrite app_nil_r in E1. rewrite E1. split; [exact E2|]. split; [rewrite E3; lia|]. split; assumption.
Qed.

Lemma dec_digits_cons n : n < two64 -> exists d r, dec_digits n = d :: r /\ is_digit d = true.
Proof.
  intros Hn. destruct (dec_digits_spec n Hn) as (Hd & _ & H0 & Hp).
  destruct (N.eq_dec n 0) as [E0|E0].
  - rewrite (H0 E0). exists 48, []. split; reflexivity.
  - destruct Hp as (d & r & E2 & _); [lia|]. exists d, r. split; [exact E2|]. rewrite E2 in Hd. inversion Hd. assumption.
Qed.

(* what may follow a number token: nothing, or a byte that is not part of a number *)
Definition ends_number (rest : list N) : Prop :=
  match rest with [] => True | c :: _ => is_digit c = false /\ c <> 46 /\ c <> 69 /\ c <> 101 end.

Definition no_digit_next (rest : list N) : Prop := match rest with [] => True | c :: _ => is_digit c = false end.
Lemma take_digits_stop ds rest : digit_list ds -> no_digit_next rest -> forall acc, take_digits (ds ++ rest) acc = (rev acc ++ ds, rest).
Proof.
  intros Hd Hr. induction Hd as [|d ds Hd _ IH]; intros acc; cbn [app take_digits].
  - rewrite app_nil_r. destruct rest as [|c r]; [reflexivity|]. cbn [take_digits]. cbn in Hr. rewrite Hr. reflexivity.
  - rewrite Hd, IH. cbn [rev]. rewrite <- app_assoc. reflexivity.
Qed.
Lemma take_digits_all ds rest : digit_list ds -> ends_number rest -> forall acc, take_digits (ds ++ rest) acc = (rev acc ++ ds, rest).
Proof. intros Hd Hr. apply take_digits_stop; [exact Hd|]. destruct rest as [|c r]; [exact I|apply Hr]. Qed.

Lemma ends_number_tests rest : ends_number rest ->
  match rest with c :: _ => is_digit c = false /\ (c =? 46) = false /\ ((c =? 69) || (c =? 101)) = false | [] => True end.
Proof.
  destruct rest as [|c r]; [trivial|]. intros (H1 & H2 & H3 & H4). split; [exact H1|]. split; [apply N.eqb_neq; exact H2|].
  apply orb_false_iff. split; apply N.eqb_neq; assumption.
Qed.

(* an integer token: optional minus, then "0" or digits without a leading zero, then something that ends a number *)
Lemma parse_int_token (neg : bool) ds rest : digit_list ds -> (ds = [48] \/ exists d r, ds = d :: r /\ d <> 48) -> ends_number rest ->
  parse_json_number ((if neg then [45] else []) ++ ds ++ rest)
  = let iv := digits_val ds 0 in
    if neg then (if (iv <=? two63)%Z then Ok (VNum (NInt (- iv)), rest)
                 else Ok (VNum (NFloat (round_dec true iv 0)), rest))
    else (if (iv <? Z.of_N two64)%Z then Ok (VNum (NUInt (Z.to_N iv)), rest)
          else Ok (VNum (NFloat (round_dec false iv 0)), rest)).
Proof.
  intros Hd Hz Hr. pose proof (ends_number_tests rest Hr) as T.
  assert (Hhead : forall d r, ds = d :: r -> (d =? 45) = false).
  { intros d r ->. inversion Hd as [|? ? Hdd _]. unfold is_digit in Hdd. apply andb_true_iff in Hdd. destruct Hdd as [L1 L2].
    apply N.leb_le in L1. apply N.eqb_neq. lia. }
  unfold parse_json_number.
  (* the sign *)
  assert (S1 : (match (if neg then [45] else []) ++ ds ++ rest with
                | c :: r => if c =? 45 then (true, r) else (false, (if neg then [45] else []) ++ ds ++ rest)
                | [] => (false, (if neg then [45] else []) ++ ds ++ rest) end) = (neg, ds ++ rest)).
  { destruct neg; [reflexivity|]. cbn [app]. destruct Hz as [->|(d & r & -> & _)]; [reflexivity|].
    cbn [app]. rewrite (Hhead d r eq_refl). reflexivity. }
  rewrite S1. clear S1.
  (* the integer part *)
  assert (S2 : (match ds ++ rest with
                | [] => Err EOther
                | d :: r => if d =? 48 then match r with c :: _ => if is_digit c then Err EOther else Ok ([48], r) | [] => Ok ([48], r) end
                            else let '(ds0, r') := take_digits (ds ++ rest) [] in match ds0 with [] => Err EOther | _ => Ok (ds0, r') end
                end) = Ok (ds, rest)).
  { destruct Hz as [->|(d & r & -> & Hd48)].
    - cbn [app]. change (48 =? 48) with true. cbv iota. destruct rest as [|c r]; [reflexivity|]. destruct T as [T1 _]. rewrite T1. reflexivity.
    - cbn [app]. apply N.eqb_neq in Hd48. rewrite Hd48.
      change (d :: r ++ rest) with ((d :: r) ++ rest). rewrite (take_digits_all (d :: r) rest Hd Hr []). reflexivity. }
  rewrite S2. clear S2. cbn [bind].
  (* no fraction, no exponent *)
  assert (S3 : (match rest with
                | c :: r => if c =? 46 then match r with [] => Err EOther | _ => let '(ds0, r') := take_digits r [] in match ds0 with [] => Err EOther | _ => Ok (Some ds0, r') end end
                            else Ok (None, rest)
                | [] => Ok (None, rest) end) = Ok (@None (list N), rest)).
  { destruct rest as [|c r]; [reflexivity|]. destruct T as (_ & T2 & _). rewrite T2. reflexivity. }
  rewrite S3. clear S3. cbn [bind].
  destruct rest as [|c r]; [cbn [bind]; destruct neg; reflexivity|].
  destruct T as (_ & _ & T3). rewrite T3. cbn [bind]. destruct neg; reflexivity.
Qed.

Lemma parse_uint_token n rest : n < two64 -> ends_number rest ->
  parse_json_number (dec_digits n ++ rest) = Ok (VNum (NUInt n), rest).
Proof.
  intros Hn Hr. destruct (dec_digits_spec n Hn) as (Hd & Hv & H0 & Hp).
  pose proof (parse_int_token false (dec_digits n) rest Hd) as P. cbn [app] in P. rewrite P; [|
    destruct (N.eq_dec n 0) as [->|Hnz]; [left; apply H0; reflexivity|right; apply Hp; lia] | exact Hr].
  cbv zeta. rewrite Hv.
  replace (Z.of_N n <? Z.of_N two64)%Z with true by (symmetry; apply Z.ltb_lt; lia).
  rewrite N2Z.id. reflexivity.
Qed.

Lemma parse_negint_token z rest : (- two63 <= z < 0)%Z -> ends_number rest ->
  parse_json_number (dec_Z z ++ rest) = Ok (VNum (NInt z), rest).
Proof.
  intros Hz Hr. unfold dec_Z. replace (z <? 0)%Z with true by (symmetry; apply Z.ltb_lt; lia).
  assert (Hn : Z.to_N (- z) < two64) by (unfold two64, two63 in *; lia).
  destruct (dec_digits_spec _ Hn) as (Hd & Hv & H0 & Hp).
  pose proof (parse_int_token true (dec_digits (Z.to_N (- z))) rest Hd) as P. cbn [app] in P. cbn [app]. rewrite P; [|
    right; apply Hp; lia | exact Hr].
  cbv zeta. rewrite Hv, Z2N.id by lia.
  replace (- z <=? two63)%Z with true by (symmetry; apply Z.leb_le; lia).
  rewrite Z.opp_involutive. reflexivity.
Qed.

(* ---------------------------------------------------------------- whole values *)
Definition ws_list (w : list N) : Prop := Forall (fun b => is_ws b = true) w.

Lemma skip_unused_fuel_ws : forall w fuel c r, ws_list w -> (length w < fuel)%nat -> is_ws c = false -> c <> 92 ->
  skip_unused_fuel fuel (w ++ c :: r) = c :: r.
Proof.
  induction w as [|b w IH]; intros fuel c r Hw Hf H1 H2; (destruct fuel as [|fuel]; [cbn [length] in Hf; lia|]); cbn [app skip_unused_fuel].
  - rewrite H1. apply N.eqb_neq in H2. rewrite H2. reflexivity.
  - inversion Hw as [|? ? Hb Hw']; subst. rewrite Hb. apply IH; [exact Hw'|cbn [length] in Hf; lia|exact H1|exact H2].
Qed.
Lemma skip_unused_ws w c r : ws_list w -> is_ws c = false -> c <> 92 -> skip_unused (w ++ c :: r) = c :: r.
Proof. intros Hw H1 H2. unfold skip_unused. apply skip_unused_fuel_ws; [exact Hw|rewrite app_length; cbn [length]; lia|exact H1|exact H2]. Qed.
Lemma skip_unused_head c r : is_ws c = false -> c <> 92 -> skip_unused (c :: r) = c :: r.
Proof. apply (skip_unused_ws [] c r). constructor. Qed.
Lemma ws_indent k : ws_list (indent k).
Proof. unfold indent. induction k as [|k IH]; [constructor|]. cbn [repeat]. constructor; [reflexivity|exact IH]. Qed.

(* which floats may occur: those accepted by `ok` (a parameter; `fun _ => false` = none) *)
Fixpoint floats_ok (ok : N -> bool) (v : value) : bool :=
  match v with
  | VNum (NFloat b) => ok b
  | VArr l => forallb (floats_ok ok) l
  | VObj o => forallb (fun kv => floats_ok ok (snd kv)) o
  | _ => true
  end.
Definition no_float (v : value) : bool := floats_ok (fun _ => false) v.

(* what the round trip needs from the float printer for one float: its text starts like a number and the number
   lexer reads it back as that float (ryu prints the shortest text that rounds to b; the lexer rounds correctly) *)
Definition float_reads_back (pf : N -> list N) (b : N) : Prop :=
  (exists d r, pf b = d :: r /\ (is_digit d = true \/ d = 45)) /\
  forall rest, ends_number rest -> parse_json_number (pf b ++ rest) = Ok (VNum (NFloat b), rest).

(* a measure that bounds the fuel the parser needs and is itself bounded by the length of the text *)
Fixpoint tlen (v : value) : nat :=
  match v with
  | VArr l => S (length l + fold_right (fun x a => tlen x + a) 0 l)%nat
  | VObj o => S (length o + fold_right (fun kv a => tlen (snd kv) + a) 0 o)%nat
  | _ => 1%nat
  end.

(* what may follow a value inside a rendering: a comma, a closing bracket, or the line break before one *)
Definition after_value (rest : list N) : Prop :=
  match rest with [] => True | c :: _ => c = 44 \/ c = 93 \/ c = 125 \/ c = 10 end.
Lemma after_value_ends rest : after_value rest -> ends_number rest.
Proof. destruct rest as [|c r]; [trivial|]. intros [-> | [-> | [-> | ->]]]; repeat split; (reflexivity || discriminate). Qed.

Section Roundtrip.
  Variable pf : N -> list N.
  Variable pretty : bool.
  Variable ok : N -> bool.
  Hypothesis Hok : forall b, ok b = true -> float_reads_back pf b.
  Notation no_float := (floats_ok ok).

  Definition sep : list N := if pretty then [44; 10] else [44].
  Definition pad (k : nat) : list N := if pretty then indent k else [].
  Definition opening (c : N) : list N := if pretty then [c; 10] else [c].
  Definition closing (ind : nat) : list N := if pretty then 10 :: indent ind else [].
  Definition colon : list N := if pretty then [58; 32] else [58].

  (* the element and member lists of a rendering, named *)
  Definition ritems (ind : nat) : bool -> list value -> list N :=
    fix go (first : bool) (l : list value) : list N :=
      match l with
      | [] => []
      | x :: r => (if first then [] else sep) ++ pad (ind + 2) ++ render pf pretty (ind + 2) x ++ go false r
      end.
  Definition rmembers (ind : nat) : bool -> list (list N * value) -> list N :=
    fix go (first : bool) (o : list (list N * value)) : list N :=
      match o with
      | [] => []
      | (k, x) :: r => (if first then [] else sep) ++ pad (ind + 2) ++ escape_string k ++ colon ++ render pf pretty (ind + 2) x ++ go false r
      end.
  Lemma ritems_cons ind first x r :
    ritems ind first (x :: r) = (if first then [] else sep) ++ pad (ind + 2) ++ render pf pretty (ind + 2) x ++ ritems ind false r.
  Proof. reflexivity. Qed.
  Lemma rmembers_cons ind first k x r :
    rmembers ind first ((k, x) :: r)
    = (if first then [] else sep) ++ pad (ind + 2) ++ escape_string k ++ colon ++ render pf pretty (ind + 2) x ++ rmembers ind false r.
  Proof. reflexivity. Qed.
  Lemma render_arr ind l : render pf pretty ind (VArr l) = opening 91 ++ ritems ind true l ++ closing ind ++ [93].
  Proof. unfold opening, closing, ritems, sep, pad. destruct pretty; reflexivity. Qed.
  Lemma render_obj ind o : render pf pretty ind (VObj o) = opening 123 ++ rmembers ind true o ++ closing ind ++ [125].
  Proof. unfold opening, closing, rmembers, sep, pad, colon. destruct pretty; reflexivity. Qed.

  Lemma ws_pad k : ws_list (pad k).
  Proof. unfold pad. destruct pretty; [apply ws_indent|constructor]. Qed.
  Lemma ws_closing k : ws_list (closing k).
  Proof. unfold closing. destruct pretty; [constructor; [reflexivity|apply ws_indent]|constructor]. Qed.
  Lemma opening_cons c : exists w, opening c = c :: w /\ ws_list w.
  Proof. unfold opening. destruct pretty; [exists [10]; split; [reflexivity|constructor; [reflexivity|constructor]]|exists []; split; [reflexivity|constructor]]. Qed.
  Lemma sep_cons : exists w, sep = 44 :: w /\ ws_list w.
  Proof. unfold sep. destruct pretty; [exists [10]; split; [reflexivity|constructor; [reflexivity|constructor]]|exists []; split; [reflexivity|constructor]]. Qed.
  Lemma colon_cons : exists w, colon = 58 :: w /\ ws_list w.
  Proof. unfold colon. destruct pretty; [exists [32]; split; [reflexivity|constructor; [reflexivity|constructor]]|exists []; split; [reflexivity|constructor]]. Qed.

  (* the first byte of a rendering starts a value: not whitespace, not a backslash, none of , ] } *)
  Definition value_start (c : N) : Prop := is_ws c = false /\ c <> 92 /\ c <> 93 /\ c <> 44 /\ c <> 125.
  Lemma digit_start d : is_digit d = true -> value_start d /\ (d =? 110) = false /\ (d =? 116) = false /\ (d =? 102) = false.
  Proof.
    unfold is_digit. intros H. apply andb_true_iff in H. destruct H as [H1 H2]. apply N.leb_le in H1. apply N.leb_le in H2.
    assert (Hin : In d (map N.of_nat (seq 48 10))) by (apply (in_seq_N d 48 10); cbn; lia).
    cbn in Hin. repeat (destruct Hin as [<-|Hin]; [repeat split; (reflexivity || discriminate)|]). destruct Hin.
  Qed.

  Lemma render_head v ind : wf_shape v = true -> no_float v = true ->
    exists c r, render pf pretty ind v = c :: r /\ value_start c.
  Proof.
    intros Hw Hn. destruct v as [|bb|s|nn|l|o]; [|destruct bb| |destruct nn as [z|n|b]| |];
      try (eexists; eexists; split; [reflexivity|repeat split; (reflexivity || discriminate)]).
    - cbn [render number_text]. unfold dec_Z. destruct (z <? 0)%Z.
      + eexists; eexists; split; [reflexivity|repeat split; (reflexivity || discriminate)].
      + cbn [wf_shape num_in_range] in Hw. apply andb_true_iff in Hw. destruct Hw as [_ Hw]. apply Z.ltb_lt in Hw.
        assert (Hn2 : Z.to_N z < two64) by (unfold two64, two63 in *; lia).
        destruct (dec_digits_cons _ Hn2) as (d & r & E & Hdd). rewrite E. exists d, r. split; [reflexivity|]. apply digit_start. exact Hdd.
    - cbn [render number_text]. cbn [wf_shape num_in_range] in Hw. apply N.ltb_lt in Hw.
      destruct (dec_digits_cons _ Hw) as (d & r & E & Hdd). rewrite E. exists d, r. split; [reflexivity|]. apply digit_start. exact Hdd.
    - cbn [render number_text]. cbn [floats_ok] in Hn. destruct (Hok b Hn) as ((d & r & E & Hd) & _). rewrite E. exists d, r. split; [reflexivity|].
      destruct Hd as [Hd| ->]; [apply digit_start; exact Hd|repeat split; (reflexivity || discriminate)].
    - rewrite render_arr. destruct (opening_cons 91) as (w & -> & _). eexists; eexists; split; [reflexivity|repeat split; (reflexivity || discriminate)].
    - rewrite render_obj. destruct (opening_cons 123) as (w & -> & _). eexists; eexists; split; [reflexivity|repeat split; (reflexivity || discriminate)].
  Qed.

  (* a string literal as a value, after any whitespace *)
  Lemma string_value_rt w s rest fuel : ws_list w -> bytes_ok s -> utf8_valid s = true -> (0 < fuel)%nat ->
    parse_json_value fuel (w ++ escape_string s ++ rest) = Ok (VStr s, rest).
  Proof.
    intros Hw Hs Hu Hf. destruct fuel as [|f]; [lia|]. unfold escape_string. cbn [app parse_json_value].
    rewrite (skip_unused_ws w) by (assumption || reflexivity || discriminate).
    change (34 =? 110) with false. change (34 =? 116) with false. change (34 =? 102) with false.
    change (is_digit 34 || (34 =? 45)) with false. change (34 =? 34) with true. cbv iota.
    rewrite <- app_assoc. cbn [app]. rewrite (string_roundtrip s rest Hs Hu). reflexivity.
  Qed.

  Lemma number_value_rt w n ind rest fuel : ws_list w -> num_in_range n = true -> no_float (VNum n) = true -> after_value rest -> (0 < fuel)%nat ->
    parse_json_value fuel (w ++ render pf pretty ind (VNum n) ++ rest) = Ok (unsign (VNum n), rest).
  Proof.
    intros Hw Hr Hn Ha Hf. destruct fuel as [|f]; [lia|]. pose proof (after_value_ends rest Ha) as He.
    destruct n as [z|u|b]; cbn [render number_text unsign unsign_num].
    - cbn [num_in_range] in Hr. apply andb_true_iff in Hr. destruct Hr as [R1 R2]. apply Z.leb_le in R1. apply Z.ltb_lt in R2.
      destruct (z <? 0)%Z eqn:Ez; [apply Z.ltb_lt in Ez|apply Z.ltb_ge in Ez].
      + pose proof (parse_negint_token z rest ltac:(lia) He) as P.
        unfold dec_Z in *. replace (z <? 0)%Z with true in * by (symmetry; apply Z.ltb_lt; lia).
        cbn [app parse_json_value]. rewrite (skip_unused_ws w) by (assumption || reflexivity || discriminate).
        change (45 =? 110) with false. change (45 =? 116) with false. change (45 =? 102) with false.
        change (is_digit 45 || (45 =? 45)) with true. cbv iota. exact P.
      + assert (Hu : Z.to_N z < two64) by (unfold two64, two63 in *; lia).
        pose proof (parse_uint_token (Z.to_N z) rest Hu He) as P.
        unfold dec_Z. replace (z <? 0)%Z with false by (symmetry; apply Z.ltb_ge; lia).
        destruct (dec_digits_cons _ Hu) as (d & r & E & Hdd). rewrite E in *. destruct (digit_start d Hdd) as ((W & N92 & _) & T1 & T2 & T3).
        cbn [app parse_json_value]. rewrite (skip_unused_ws w) by assumption. rewrite T1, T2, T3, Hdd. cbn [orb]. exact P.
    - cbn [num_in_range] in Hr. apply N.ltb_lt in Hr.
      pose proof (parse_uint_token u rest Hr He) as P.
      destruct (dec_digits_cons _ Hr) as (d & r & E & Hdd). rewrite E in *. destruct (digit_start d Hdd) as ((W & N92 & _) & T1 & T2 & T3).
      cbn [app parse_json_value]. rewrite (skip_unused_ws w) by assumption. rewrite T1, T2, T3, Hdd. cbn [orb]. exact P.
    - cbn [floats_ok] in Hn. destruct (Hok b Hn) as ((d & r & E & Hd) & P). specialize (P rest He). rewrite E in *.
      destruct Hd as [Hdd| ->].
      + destruct (digit_start d Hdd) as ((W & N92 & _) & T1 & T2 & T3).
        cbn [app parse_json_value]. rewrite (skip_unused_ws w) by assumption. rewrite T1, T2, T3, Hdd. cbn [orb]. exact P.
      + cbn [app parse_json_value]. rewrite (skip_unused_ws w) by (assumption || reflexivity || discriminate).
        change (45 =? 110) with false. change (45 =? 116) with false. change (45 =? 102) with false.
        change (is_digit 45 || (45 =? 45)) with true. cbv iota. exact P.
  Qed.

  Lemma after_items ind r rest : after_value (ritems ind false r ++ closing ind ++ 93 :: rest).
  Proof.
    destruct r as [|x r].
    - cbn [ritems app]. unfold closing. destruct pretty; cbn [app]; [right; right; right; reflexivity|right; left; reflexivity].
    - rewrite ritems_cons. destruct sep_cons as (w & -> & _). left. reflexivity.
  Qed.
  Lemma after_members ind r rest : after_value (rmembers ind false r ++ closing ind ++ 125 :: rest).
  Proof.
    destruct r as [|[k x] r].
    - cbn [rmembers app]. unfold closing. destruct pretty; cbn [app]; [right; right; right; reflexivity|right; right; left; reflexivity].
    - rewrite rmembers_cons. destruct sep_cons as (w & -> & _). left. reflexivity.
  Qed.

  (* the array loop, given that the element parser reads each remaining element back *)
  Lemma arr_loop_rt f ind rest : forall todo acc first k, (length todo < k)%nat ->
    Forall (fun x => wf_shape x = true /\ no_float x = true /\
                     forall w rest', ws_list w -> after_value rest' ->
                       parse_json_value f (w ++ render pf pretty (ind + 2) x ++ rest') = Ok (unsign x, rest')) todo ->
    arr_loop (parse_json_value f) k first acc (ritems ind first todo ++ closing ind ++ 93 :: rest)
    = Ok (VArr (rev acc ++ map unsign todo), rest).
  Proof.
    induction todo as [|x r IH]; intros acc first k Hk HF; (destruct k as [|k]; [cbn [length] in Hk; lia|]); cbn [arr_loop].
    - cbn [ritems app]. rewrite (skip_unused_ws (closing ind)) by (apply ws_closing || reflexivity || discriminate).
      change (93 =? 93) with true. cbv iota. rewrite app_nil_r. reflexivity.
    - inversion HF as [|? ? (Hw & Hn & Hx) HF']; subst. rewrite ritems_cons.
      destruct (render_head x (ind + 2) Hw Hn) as (c & r0 & Ec & (W & N92 & N93 & N44 & N125)).
      pose proof (after_items ind r rest) as AT.
      repeat rewrite <- app_assoc.
      destruct first.
      + cbn [app]. rewrite Ec at 1. cbn [app]. rewrite (skip_unused_ws (pad (ind + 2))) by (apply ws_pad || assumption).
        apply N.eqb_neq in N93. rewrite N93.
        pose proof (Hx [] _ ltac:(constructor) AT) as P. cbn [app] in P. rewrite Ec in P at 1. cbn [app] in P. rewrite P. cbn [bind].
        rewrite IH by (cbn [length] in Hk; try lia; exact HF'). cbn [rev map]. rewrite <- app_assoc. reflexivity.
      + destruct sep_cons as (ws & -> & Hws). cbn [app]. rewrite skip_unused_head by (reflexivity || discriminate).
        change (44 =? 93) with false. change (44 =? 44) with true. cbv iota.
        rewrite app_assoc. rewrite (Hx (ws ++ pad (ind + 2)) _ ltac:(apply Forall_app; split; [exact Hws|apply ws_pad]) AT). cbn [bind].
        rewrite IH by (cbn [length] in Hk; try lia; exact HF'). cbn [rev map]. rewrite <- app_assoc. reflexivity.
  Qed.

  Definition unsign_members (o : list (list N * value)) := map (fun kv => (fst kv, unsign (snd kv))) o.

  Lemma obj_loop_rt f ind rest : (0 < f)%nat -> forall todo acc first k, (length todo < k)%nat ->
    Forall (fun kv => bytes_ok (fst kv) /\ utf8_valid (fst kv) = true /\ wf_shape (snd kv) = true /\ no_float (snd kv) = true /\
                      forall w rest', ws_list w -> after_value rest' ->
                        parse_json_value f (w ++ render pf pretty (ind + 2) (snd kv) ++ rest') = Ok (unsign (snd kv), rest')) todo ->
    strongly_sorted todo ->
    Forall (fun a => Forall (fun kv => bytes_cmp (fst a) (fst kv) = Lt) todo) acc ->
    obj_loop (parse_json_value f) k first acc (rmembers ind first todo ++ closing ind ++ 125 :: rest)
    = Ok (VObj (acc ++ unsign_members todo), rest).
  Proof.
    intros Hf. induction todo as [|[key x] r IH]; intros acc first k Hk HF HS HA; (destruct k as [|k]; [cbn [length] in Hk; lia|]); cbn [obj_loop].
    - cbn [rmembers app]. rewrite (skip_unused_ws (closing ind)) by (apply ws_closing || reflexivity || discriminate).
      change (125 =? 125) with true. cbv iota. unfold unsign_members. cbn [map]. rewrite app_nil_r. reflexivity.
    - inversion HF as [|? ? (Hkb & Hku & Hw & Hn & Hx) HF']; subst. cbn [fst snd] in *. rewrite rmembers_cons.
      destruct HS as [HS1 HS2].
      destruct colon_cons as (wc & EC & Hwc).
      pose proof (after_members ind r rest) as AT.
      assert (Step : forall w, ws_list w ->
                (do (key0, bs1) <- parse_json_value f (w ++ escape_string key ++ colon ++ render pf pretty (ind + 2) x ++ rmembers ind false r ++ closing ind ++ 125 :: rest);
                 match key0 with
                 | VStr ks => match skip_unused bs1 with
                              | 58 :: bs2 => do (v, bs3) <- parse_json_value f bs2; obj_loop (parse_json_value f) k false (assoc_insert ks v acc) bs3
                              | _ => Err EOther end
                 | _ => Err EOther end)
                = obj_loop (parse_json_value f) k false (assoc_insert key (unsign x) acc) (rmembers ind false r ++ closing ind ++ 125 :: rest)).
      { intros w Hww. rewrite (string_value_rt w key _ f Hww Hkb Hku Hf). cbn [bind]. rewrite EC. cbn [app].
        rewrite skip_unused_head by (reflexivity || discriminate).
        rewrite (Hx wc _ Hwc AT). reflexivity. }
      assert (Ins : assoc_insert key (unsign x) acc = acc ++ [(key, unsign x)]).
      { apply assoc_insert_append. eapply Forall_impl; [|exact HA]. intros a Ha. inversion Ha as [|? ? Hak _]; subst. cbn [fst] in Hak.
        rewrite bytes_antisym, Hak. reflexivity. }
      assert (Next : obj_loop (parse_json_value f) k false (acc ++ [(key, unsign x)]) (rmembers ind false r ++ closing ind ++ 125 :: rest)
                     = Ok (VObj (acc ++ unsign_members ((key, x) :: r)), rest)).
      { rewrite IH; [unfold unsign_members; cbn [map fst snd]; rewrite <- app_assoc; reflexivity|cbn [length] in Hk; lia|exact HF'|exact HS2|].
        apply Forall_app. split.
        - eapply Forall_impl; [|exact HA]. intros a Ha. inversion Ha; subst. assumption.
        - constructor; [exact HS1|constructor]. }
      assert (EK : forall t, escape_string key ++ t = 34 :: flat_map escape_byte key ++ 34 :: t)
        by (intros t; unfold escape_string; cbn [app]; rewrite <- app_assoc; reflexivity).
      repeat rewrite <- app_assoc.
      destruct first.
      + cbn [app]. rewrite EK. rewrite (skip_unused_ws (pad (ind + 2))) by (apply ws_pad || reflexivity || discriminate).
        change (34 =? 125) with false. cbv iota.
        pose proof (Step [] ltac:(constructor)) as S0. cbn [app] in S0. rewrite EK in S0. rewrite S0, Ins. exact Next.
      + destruct sep_cons as (ws & -> & Hws). cbn [app]. rewrite skip_unused_head by (reflexivity || discriminate).
        change (44 =? 125) with false. change (44 =? 44) with true. cbv iota.
        rewrite app_assoc. rewrite (Step (ws ++ pad (ind + 2)) ltac:(apply Forall_app; split; [exact Hws|apply ws_pad])), Ins. exact Next.
  Qed.

  Lemma sum_tlen_ge (l : list value) x : In x l -> (tlen x <= fold_right (fun x a => tlen x + a) 0 l)%nat.
  Proof. induction l as [|y l IH]; [intros []|]. cbn [fold_right]. intros [->|H]; [lia|]. specialize (IH H). lia. Qed.
  Lemma sum_tlen_ge_obj (o : list (list N * value)) kv : In kv o -> (tlen (snd kv) <= fold_right (fun kv a => tlen (snd kv) + a) 0 o)%nat.
  Proof. induction o as [|y o IH]; [intros []|]. cbn [fold_right]. intros [->|H]; [lia|]. specialize (IH H). lia. Qed.

  Theorem value_rt : forall v, wf_shape v = true -> no_float v = true -> forall ind w rest fuel, ws_list w -> after_value rest -> (tlen v < fuel)%nat ->
    parse_json_value fuel (w ++ render pf pretty ind v ++ rest) = Ok (unsign v, rest).
  Proof.
    induction v as [|b|s|n|l IH|o IH] using value_ind2; intros Hw Hn ind w rest fuel Hws Ha Hf.
    - destruct fuel as [|f]; [cbn [tlen] in Hf; lia|]. cbn [render app parse_json_value].
      rewrite (skip_unused_ws w) by (assumption || reflexivity || discriminate). reflexivity.
    - destruct fuel as [|f]; [cbn [tlen] in Hf; lia|]. destruct b; cbn [render app parse_json_value];
        rewrite (skip_unused_ws w) by (assumption || reflexivity || discriminate); reflexivity.
    - cbn [wf_shape] in Hw. apply andb_true_iff in Hw. destruct Hw as [Hb Hu].
      cbn [render unsign]. apply string_value_rt; [exact Hws|unfold bytes_ok; apply Forall_forall; unfold bytes_okb in Hb; rewrite forallb_forall in Hb; intros x Hx; apply N.ltb_lt; apply Hb; exact Hx|exact Hu|cbn [tlen] in Hf; lia].
    - apply number_value_rt; [exact Hws|exact Hw|exact Hn|exact Ha|cbn [tlen] in Hf; lia].
    - destruct fuel as [|f]; [lia|]. rewrite render_arr. destruct (opening_cons 91) as (wo & -> & Hwo).
      replace (w ++ ((91 :: wo) ++ ritems ind true l ++ closing ind ++ [93]) ++ rest)
        with (w ++ 91 :: (wo ++ ritems ind true l ++ closing ind ++ 93 :: rest))
        by (cbn [app]; repeat (rewrite <- app_assoc || rewrite <- app_comm_cons); cbn [app]; reflexivity).
      cbn [parse_json_value].
      rewrite (skip_unused_ws w) by (assumption || reflexivity || discriminate).
      change (91 =? 110) with false. change (91 =? 116) with false. change (91 =? 102) with false.
      change (is_digit 91 || (91 =? 45)) with false. change (91 =? 34) with false. change (91 =? 91) with true. cbv iota.
      cbn [tlen] in Hf. cbn [wf_shape] in Hw. cbn [floats_ok] in Hn. rewrite forallb_forall in Hw, Hn. rewrite Forall_forall in IH.
      destruct l as [|x0 l0].
      + (* the empty array: nothing but the closing bracket, after whatever whitespace there is *)
        cbn [ritems app]. destruct f as [|f]; [cbn [length] in Hf; lia|]. cbn [arr_loop].
        rewrite app_assoc.
        rewrite (skip_unused_ws (wo ++ closing ind)) by (try (apply Forall_app; split; [exact Hwo|apply ws_closing]); reflexivity || discriminate).
        change (93 =? 93) with true. reflexivity.
      + (* the first element follows the opening bracket (and, when pretty, a line break and the indentation) *)
        assert (HF : Forall (fun x => wf_shape x = true /\ no_float x = true /\
                     forall w0 rest', ws_list w0 -> after_value rest' ->
                       parse_json_value f (w0 ++ render pf pretty (ind + 2) x ++ rest') = Ok (unsign x, rest')) (x0 :: l0)).
        { apply Forall_forall. intros x Hx. split; [apply Hw; exact Hx|]. split; [apply Hn; exact Hx|].
          intros w0 rest' Hw0 Hr. apply IH; [exact Hx|apply Hw; exact Hx|apply Hn; exact Hx|exact Hw0|exact Hr|].
          pose proof (sum_tlen_ge (x0 :: l0) x Hx). lia. }
        inversion HF as [|? ? (Hw0 & Hn0 & Hx0) HF']; subst.
        destruct (render_head x0 (ind + 2) Hw0 Hn0) as (c & r0 & Ec & (W & N92 & N93 & N44 & N125)).
        rewrite ritems_cons.
        replace (wo ++ ([] ++ pad (ind + 2) ++ render pf pretty (ind + 2) x0 ++ ritems ind false l0) ++ closing ind ++ 93 :: rest)
          with ((wo ++ pad (ind + 2)) ++ c :: (r0 ++ ritems ind false l0 ++ closing ind ++ 93 :: rest))
          by (rewrite Ec; cbn [app]; repeat (rewrite <- app_assoc || rewrite <- app_comm_cons); reflexivity).
        destruct f as [|f']; [cbn [length] in Hf; lia|]. cbn [arr_loop].
        rewrite (skip_unused_ws (wo ++ pad (ind + 2))) by (try (apply Forall_app; split; [exact Hwo|apply ws_pad]); assumption).
        apply N.eqb_neq in N93. rewrite N93.
        pose proof (Hx0 [] _ ltac:(constructor) (after_items ind l0 rest)) as P. cbn [app] in P. rewrite Ec in P. cbn [app] in P. rewrite P. cbn [bind].
        rewrite (arr_loop_rt (S f') ind rest l0 [unsign x0] false f'); [cbn [rev app map unsign]; reflexivity|cbn [length] in Hf; lia|exact HF'].
    - destruct fuel as [|f]; [lia|]. rewrite render_obj. destruct (opening_cons 123) as (wo & -> & Hwo).
      replace (w ++ ((123 :: wo) ++ rmembers ind true o ++ closing ind ++ [125]) ++ rest)
        with (w ++ 123 :: (wo ++ rmembers ind true o ++ closing ind ++ 125 :: rest))
        by (cbn [app]; repeat (rewrite <- app_assoc || rewrite <- app_comm_cons); cbn [app]; reflexivity).
      cbn [parse_json_value].
      rewrite (skip_unused_ws w) by (assumption || reflexivity || discriminate).
      change (123 =? 110) with false. change (123 =? 116) with false. change (123 =? 102) with false.
      change (is_digit 123 || (123 =? 45)) with false. change (123 =? 34) with false. change (123 =? 91) with false. change (123 =? 123) with true. cbv iota.
      cbn [tlen] in Hf. cbn [wf_shape] in Hw. apply andb_true_iff in Hw. destruct Hw as [Hs Hw].
      cbn [floats_ok] in Hn. rewrite forallb_forall in Hw, Hn. rewrite Forall_forall in IH.
      assert (HF : Forall (fun kv => bytes_ok (fst kv) /\ utf8_valid (fst kv) = true /\ wf_shape (snd kv) = true /\ no_float (snd kv) = true /\
                      forall w0 rest', ws_list w0 -> after_value rest' ->
                        parse_json_value f (w0 ++ render pf pretty (ind + 2) (snd kv) ++ rest') = Ok (unsign (snd kv), rest')) o).
      { apply Forall_forall. intros [k x] Hx. cbn [fst snd]. specialize (Hw _ Hx). cbn [fst snd] in Hw.
        apply andb_true_iff in Hw. destruct Hw as [Hw Hwx]. apply andb_true_iff in Hw. destruct Hw as [Hkb Hku].
        split; [unfold bytes_ok; apply Forall_forall; unfold bytes_okb in Hkb; rewrite forallb_forall in Hkb; intros y Hy; apply N.ltb_lt; apply Hkb; exact Hy|].
        split; [exact Hku|]. split; [exact Hwx|]. split; [apply (Hn _ Hx)|].
        intros w0 rest' Hw0 Hr. apply (IH _ Hx); [exact Hwx|apply (Hn _ Hx)|exact Hw0|exact Hr|].
        pose proof (sum_tlen_ge_obj o (k, x) Hx) as G. cbn [snd] in *. lia. }
      pose proof (keys_sorted_strong o Hs) as HS.
      destruct o as [|[k0 x0] o0].
      + cbn [rmembers app]. destruct f as [|f]; [cbn [length] in Hf; lia|]. cbn [obj_loop].
        rewrite app_assoc.
        rewrite (skip_unused_ws (wo ++ closing ind)) by (try (apply Forall_app; split; [exact Hwo|apply ws_closing]); reflexivity || discriminate).
        change (125 =? 125) with true. reflexivity.
      + inversion HF as [|? ? (Hkb & Hku & Hw0 & Hn0 & Hx0) HF']; subst. cbn [fst snd] in *.
        destruct HS as [HS1 HS2].
        destruct colon_cons as (wc & EC & Hwc).
        rewrite rmembers_cons.
        replace (wo ++ ([] ++ pad (ind + 2) ++ escape_string k0 ++ colon ++ render pf pretty (ind + 2) x0 ++ rmembers ind false o0) ++ closing ind ++ 125 :: rest)
          with ((wo ++ pad (ind + 2)) ++ 34 :: (flat_map escape_byte k0 ++ 34 :: (colon ++ render pf pretty (ind + 2) x0 ++ rmembers ind false o0 ++ closing ind ++ 125 :: rest)))
          by (unfold escape_string; cbn [app]; repeat (rewrite <- app_assoc || rewrite <- app_comm_cons); cbn [app]; reflexivity).
        destruct f as [|f']; [cbn [length] in Hf; lia|]. cbn [obj_loop].
        rewrite (skip_unused_ws (wo ++ pad (ind + 2))) by (try (apply Forall_app; split; [exact Hwo|apply ws_pad]); reflexivity || discriminate).
        change (34 =? 125) with false. cbv iota.
        pose proof (string_value_rt [] k0 (colon ++ render pf pretty (ind + 2) x0 ++ rmembers ind false o0 ++ closing ind ++ 125 :: rest) (S f') ltac:(constructor) Hkb Hku ltac:(lia)) as PS.
        unfold escape_string in PS. cbn [app] in PS. rewrite <- app_assoc in PS. cbn [app] in PS. rewrite PS. cbn [bind]. rewrite EC. cbn [app].
        rewrite skip_unused_head by (reflexivity || discriminate).
        rewrite (Hx0 wc _ Hwc (after_members ind o0 rest)). cbn [bind assoc_insert].
        rewrite (obj_loop_rt (S f') ind rest ltac:(lia) o0 [(k0, unsign x0)] false f');
          [cbn [app unsign map fst snd]; reflexivity|cbn [length] in Hf; lia|exact HF'|exact HS2|constructor; [exact HS1|constructor]].
  Qed.

  (* the measure is bounded by the length of the text, so the fuel parse_value hands over is enough *)
  Lemma ritems_len ind : forall l first, Forall (fun x => (tlen x <= length (render pf pretty (ind + 2) x))%nat) l ->
    (length l + fold_right (fun x a => tlen x + a) 0 l <= length (ritems ind first l) + (if first then 1 else 0))%nat.
  Proof.
    induction l as [|x r IH]; intros first HF; [cbn; lia|]. inversion HF as [|? ? Hx HF']; subst.
    rewrite ritems_cons. cbn [length fold_right]. rewrite !app_length. specialize (IH false HF'). cbv iota in IH.
    destruct first; [cbn [length]; lia|]. destruct sep_cons as (ws & -> & _). cbn [length]. lia.
  Qed.
  Lemma rmembers_len ind : forall o first, Forall (fun kv => (tlen (snd kv) <= length (render pf pretty (ind + 2) (snd kv)))%nat) o ->
    (length o + fold_right (fun kv a => tlen (snd kv) + a) 0 o <= length (rmembers ind first o) + (if first then 1 else 0))%nat.
  Proof.
    induction o as [|[k x] r IH]; intros first HF; [cbn; lia|]. inversion HF as [|? ? Hx HF']; subst. cbn [snd] in Hx.
    rewrite rmembers_cons. cbn [length fold_right snd]. rewrite !app_length. specialize (IH false HF'). cbv iota in IH.
    destruct first; [cbn [length]; lia|]. destruct sep_cons as (ws & -> & _). cbn [length]. lia.
  Qed.
  Lemma tlen_le_len : forall v ind, wf_shape v = true -> no_float v = true -> (tlen v <= length (render pf pretty ind v))%nat.
  Proof.
    induction v as [|b|s|n|l IH|o IH] using value_ind2; intros ind Hw Hn;
      try (destruct (render_head _ ind Hw Hn) as (c & r & E & _); rewrite E; cbn [tlen length]; lia).
    - rewrite render_arr. destruct (opening_cons 91) as (wo & -> & _). cbn [tlen length app]. rewrite !app_length. cbn [length].
      cbn [wf_shape] in Hw. cbn [floats_ok] in Hn. rewrite forallb_forall in Hw, Hn.
      assert (HF : Forall (fun x => (tlen x <= length (render pf pretty (ind + 2) x))%nat) l).
      { rewrite Forall_forall in *. intros x Hx. apply IH; [exact Hx|apply Hw; exact Hx|apply Hn; exact Hx]. }
      pose proof (ritems_len ind l true HF) as G. cbv iota in G. lia.
    - rewrite render_obj. destruct (opening_cons 123) as (wo & -> & _). cbn [tlen length app]. rewrite !app_length. cbn [length].
      cbn [wf_shape] in Hw. apply andb_true_iff in Hw. destruct Hw as [_ Hw]. cbn [floats_ok] in Hn. rewrite forallb_forall in Hw, Hn.
      assert (HF : Forall (fun kv => (tlen (snd kv) <= length (render pf pretty (ind + 2) (snd kv)))%nat) o).
      { rewrite Forall_forall in *. intros kv Hx. apply (IH kv Hx); [|apply (Hn kv Hx)].
        specialize (Hw kv Hx). apply andb_true_iff in Hw. apply Hw. }
      pose proof (rmembers_len ind o true HF) as G. cbv iota in G. lia.
  Qed.

  Theorem parse_rendering v : wf_shape v = true -> no_float v = true -> parse_value (render pf pretty 0 v) = Ok (unsign v).
  Proof.
    intros Hw Hn. unfold parse_value.
    pose proof (value_rt v Hw Hn 0 [] [] (S (length (render pf pretty 0 v))) ltac:(constructor) I) as R. cbn [app] in R. rewrite app_nil_r in R.
    rewrite R by (pose proof (tlen_le_len v 0 Hw Hn); lia). cbn [bind]. reflexivity.
  Qed.
End Roundtrip.

(* C02 / C03: both renderings of a document parse back to the document (non-negative integers come back unsigned, as
   the text parser types them), for every document all of whose floats the printer/lexer pair reads back ... *)
Theorem parse_rendering_floats pf pretty ok : (forall b, ok b = true -> float_reads_back pf b) ->
  forall v, wf_shape v = true -> floats_ok ok v = true -> parse_value (render pf pretty 0 v) = Ok (unsign v).
Proof. intros Hok v. exact (parse_rendering pf pretty ok Hok v). Qed.

(* ... in particular, with no assumption at all, for every document without floats *)
Theorem parse_render_roundtrip pf v : wf_shape v = true -> no_float v = true -> parse_value (to_string_t pf v) = Ok (unsign v).
Proof. apply (parse_rendering pf false (fun _ => false)). intros b H. discriminate H. Qed.
Theorem parse_pretty_roundtrip pf v : wf_shape v = true -> no_float v = true -> parse_value (to_pretty_string_t pf v) = Ok (unsign v).
Proof. apply (parse_rendering pf true (fun _ => false)). intros b H. discriminate H. Qed.

(* a decimal token without exponent: digits '.' digits *)
Lemma parse_decimal_token ids fds rest : digit_list ids -> (ids = [48] \/ exists d r, ids = d :: r /\ d <> 48) ->
  digit_list fds -> fds <> [] -> ends_number rest ->
  parse_json_number (ids ++ 46 :: fds ++ rest)
  = Ok (VNum (NFloat (round_dec false (digits_val fds (digits_val ids 0)) (0 - Z.of_nat (length fds)))), rest).
Proof.
  intros Hi Hz Hfd Hne Hr. pose proof (ends_number_tests rest Hr) as T.
  assert (E46 : no_digit_next (46 :: fds ++ rest)) by reflexivity.
  unfold parse_json_number.
  assert (S1 : (match ids ++ 46 :: fds ++ rest with
                | c :: r => if c =? 45 then (true, r) else (false, ids ++ 46 :: fds ++ rest)
                | [] => (false, ids ++ 46 :: fds ++ rest) end) = (false, ids ++ 46 :: fds ++ rest)).
  { destruct Hz as [->|(d & r & -> & _)]; [reflexivity|]. cbn [app].
    inversion Hi as [|? ? Hdd _]. unfold is_digit in Hdd. apply andb_true_iff in Hdd. destruct Hdd as [L1 L2]. apply N.leb_le in L1.
    replace (d =? 45) with false by (symmetry; apply N.eqb_neq; lia). reflexivity. }
  rewrite S1. clear S1.
  assert (S2 : (match ids ++ 46 :: fds ++ rest with
                | [] => Err EOther
                | d :: r => if d =? 48 then match r with c :: _ => if is_digit c then Err EOther else Ok ([48], r) | [] => Ok ([48], r) end
                            else let '(ds0, r') := take_digits (ids ++ 46 :: fds ++ rest) [] in match ds0 with [] => Err EOther | _ => Ok (ds0, r') end
                end) = Ok (ids, 46 :: fds ++ rest)).
  { destruct Hz as [->|(d & r & -> & Hd48)].
    - reflexivity.
    - cbn [app]. apply N.eqb_neq in Hd48. rewrite Hd48.
      change (d :: r ++ 46 :: fds ++ rest) with ((d :: r) ++ 46 :: fds ++ rest). rewrite (take_digits_stop (d :: r) _ Hi E46 []). reflexivity. }
  rewrite S2. clear S2. cbn [bind]. change (46 =? 46) with true. cbv iota.
  destruct fds as [|f0 fr]; [contradiction Hne; reflexivity|]. cbn [app].
  change (f0 :: fr ++ rest) with ((f0 :: fr) ++ rest). rewrite (take_digits_all (f0 :: fr) rest Hfd Hr []). cbn [rev app bind].
  destruct rest as [|c r]; [reflexivity|]. destruct T as (_ & _ & T3). rewrite T3. reflexivity.
Qed.

(* the assumption is satisfiable: 1.5 printed as "1.5" reads back as the double 0x3FF8000000000000 *)
Example float_reads_back_example : float_reads_back (fun _ => [49; 46; 53]) 4609434218613702656.
Proof.
  split; [exists 49, [46; 53]; split; [reflexivity|left; reflexivity]|].
  intros rest He. cbv beta. cbn [app].
  pose proof (parse_decimal_token [49] [53] rest) as P. cbn [app] in P. rewrite P; try assumption.
  - vm_compute. reflexivity.
  - constructor; [reflexivity|constructor].
  - right. exists 49, []. split; [reflexivity|discriminate].
  - constructor; [reflexivity|constructor].
  - discriminate.
Qed.
