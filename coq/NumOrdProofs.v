(* NumOrdProofs.v — the algorithm of `impl Ord for Number` (NumOrd.num_cmp_rs_res: match arms, OrderedFloat::cmp,
   cmp_int_float with guards, trunc, `as i128`, fractional tie-break) computes the order of the exact values (Num.num_cmp),
   and its `unwrap` never panics.  Proofs only. *)
From Coq Require Import List NArith ZArith Bool Lia ZifyBool ZifyNat ZifyN.
Import ListNotations.
From JB Require Import Constants Bytes Num NumProofs NumOrd.
Open Scope N_scope.
Set Default Timeout 60.

Arguments N.pow : simpl never.
Arguments Z.pow : simpl never.
Arguments N.div : simpl never.
Arguments N.modulo : simpl never.
Arguments Z.mul : simpl never.
Arguments N.mul : simpl never.

(* ---------- the three fields of a 64-bit pattern ---------- *)
Ltac Zify.zify_post_hook ::= Z.div_mod_to_equations.
Lemma f_fields b : b < two64 ->
  b = f_signbit b + f_exp b * two52 + f_man b /\ f_exp b < 2048 /\ f_man b < two52.
Proof.
  unfold two64, f_signbit, f_exp, f_man, f_sign, two63N, two52. intros Hb.
  destruct (9223372036854775808 <=? b) eqn:Es; lia.
Qed.

(* a pattern assembled from fields has these fields *)
Lemma f_fields_of (s : bool) e m : e < 2048 -> m < two52 ->
  let b := (if s then two63N else 0) + e * two52 + m in
  b < two64 /\ f_sign b = s /\ f_exp b = e /\ f_man b = m.
Proof.
  unfold two64, f_exp, f_man, f_sign, two63N, two52. intros He Hm. destruct s; cbv zeta; lia.
Qed.
Ltac Zify.zify_post_hook ::= idtac.

(* magnitude of a finite pattern, in units of 2^-1074 *)
Definition f_mag (b : N) : Z :=
  if f_exp b =? 0 then Z.of_N (f_man b) else (Z.of_N (two52 + f_man b) * 2 ^ (Z.of_N (f_exp b) - 1))%Z.
Definition sgn (s : bool) (z : Z) : Z := if s then (- z)%Z else z.

Lemma f_scaled_sgn b : f_scaled b = sgn (f_sign b) (f_mag b).
Proof. reflexivity. Qed.

Lemma f_mag_nonneg b : (0 <= f_mag b)%Z.
Proof.
  unfold f_mag. destruct (f_exp b =? 0); [lia|].
  apply Z.mul_nonneg_nonneg; [lia|]. apply Z.pow_nonneg. lia.
Qed.

Lemma two1074_eq : two1074 = (2 ^ 1074)%Z.
Proof. reflexivity. Qed.

Lemma sgn_quot s z : (0 <= z)%Z -> Z.quot (sgn s z) two1074 = sgn s (z / two1074).
Proof.
  intros Hz. pose proof two1074_pos as HT. destruct s; cbn [sgn].
  - rewrite Z.quot_opp_l by lia. rewrite Z.quot_div_nonneg by lia. reflexivity.
  - apply Z.quot_div_nonneg; lia.
Qed.

(* ---------- f_ext by cases ---------- *)
Lemma f_ext_nan b : f_is_nan b = true -> f_ext b = ENaN.
Proof. unfold f_ext. intros ->. reflexivity. Qed.
Lemma f_ext_not_nan b : f_is_nan b = false -> f_ext b <> ENaN.
Proof. unfold f_ext. intros ->. destruct (f_is_inf b); [destruct (f_sign b)|]; discriminate. Qed.
Lemma f_ext_fin b : f_exp b <> 2047 -> f_ext b = EFin (f_scaled b).
Proof.
  intros He. unfold f_ext, f_is_nan, f_is_inf. apply N.eqb_neq in He. rewrite He. reflexivity.
Qed.
Lemma f_ext_fin_inv b x : f_ext b = EFin x -> f_exp b <> 2047 /\ x = f_scaled b.
Proof.
  unfold f_ext, f_is_nan, f_is_inf. destruct (f_exp b =? 2047) eqn:E.
  - cbn [andb]. destruct (f_man b =? 0); cbn [negb]; [destruct (f_sign b)|]; discriminate.
  - cbn [andb]. intros H. inversion H. split; [apply N.eqb_neq in E; exact E|reflexivity].
Qed.

(* ---------- magnitude against the unit 2^1074 ---------- *)
Lemma pow2_split (a b : Z) : (0 <= a)%Z -> (0 <= b)%Z -> (2 ^ (a + b) = 2 ^ a * 2 ^ b)%Z.
Proof. intros. apply Z.pow_add_r; assumption. Qed.

Lemma T_split (e : Z) : (1 <= e <= 1075)%Z -> two1074 = (2 ^ (1075 - e) * 2 ^ (e - 1))%Z.
Proof. intros He. rewrite <- Z.pow_add_r by lia. rewrite two1074_eq. f_equal. lia. Qed.

Lemma of_N_pow2 (k : N) : Z.of_N (2 ^ k) = (2 ^ Z.of_N k)%Z.
Proof. rewrite N2Z.inj_pow. reflexivity. Qed.

(* |x| < 1 *)
Lemma f_mag_small b : f_exp b < 1023 -> f_man b < two52 -> (f_mag b < two1074)%Z.
Proof.
  intros He Hm. unfold f_mag. destruct (f_exp b =? 0) eqn:E0.
  - rewrite two1074_eq. apply Z.lt_le_trans with (2 ^ 52)%Z; [unfold two52 in Hm; lia|].
    apply Z.pow_le_mono_r; lia.
  - apply N.eqb_neq in E0. set (e := Z.of_N (f_exp b)). assert (He' : (1 <= e < 1023)%Z) by lia.
    rewrite (T_split e) by lia.
    assert (Hp : (0 < 2 ^ (e - 1))%Z) by (apply Z.pow_pos_nonneg; lia).
    apply Z.mul_lt_mono_pos_r; [exact Hp|].
    apply Z.lt_le_trans with (2 ^ 53)%Z; [unfold two52 in *; lia|].
    apply Z.pow_le_mono_r; lia.
Qed.

(* 1 <= |x| < 2^52: the integral part is the significand shifted right *)
Lemma f_mag_mid b : 1023 <= f_exp b -> f_exp b < 1075 ->
  (f_mag b / two1074)%Z = Z.of_N ((two52 + f_man b) / 2 ^ (1075 - f_exp b)).
Proof.
  intros H1 H2. unfold f_mag. destruct (f_exp b =? 0) eqn:E0; [apply N.eqb_eq in E0; lia|].
  set (e := Z.of_N (f_exp b)). rewrite (T_split e) by lia.
  assert (Hp : (0 < 2 ^ (e - 1))%Z) by (apply Z.pow_pos_nonneg; lia).
  assert (Hk : (0 < 2 ^ (1075 - e))%Z) by (apply Z.pow_pos_nonneg; lia).
  rewrite Z.div_mul_cancel_r by lia.
  rewrite N2Z.inj_div, of_N_pow2. f_equal. f_equal. lia.
Qed.

(* 2^52 <= |x|: an integer *)
Lemma f_mag_big b : 1075 <= f_exp b ->
  f_mag b = (Z.of_N (two52 + f_man b) * 2 ^ (Z.of_N (f_exp b) - 1075) * two1074)%Z.
Proof.
  intros H1. unfold f_mag. destruct (f_exp b =? 0) eqn:E0; [apply N.eqb_eq in E0; lia|].
  rewrite <- Z.mul_assoc. f_equal. rewrite two1074_eq, <- Z.pow_add_r by lia. f_equal. lia.
Qed.

(* ---------- `as i128` is truncation toward zero ---------- *)
Lemma f_to_i128_quot b : b < two64 -> f_exp b < 1150 -> f_to_i128 b = Z.quot (f_scaled b) two1074.
Proof.
  intros Hb He. destruct (f_fields b Hb) as (_ & _ & Hm).
  rewrite f_scaled_sgn, sgn_quot by apply f_mag_nonneg.
  unfold f_to_i128, f_is_nan.
  destruct (f_exp b =? 2047) eqn:E1; [apply N.eqb_eq in E1; lia|]. cbn [andb].
  destruct (f_exp b <? 1023) eqn:E2.
  - apply N.ltb_lt in E2. rewrite Z.div_small by (split; [apply f_mag_nonneg|apply f_mag_small; assumption]).
    destruct (f_sign b); reflexivity.
  - apply N.ltb_ge in E2.
    destruct (1150 <=? f_exp b) eqn:E3; [apply N.leb_le in E3; lia|].
    destruct (f_exp b <? 1075) eqn:E4.
    + apply N.ltb_lt in E4. rewrite f_mag_mid by assumption. reflexivity.
    + apply N.ltb_ge in E4. rewrite f_mag_big by assumption. pose proof two1074_pos.
      rewrite Z.div_mul by lia. reflexivity.
Qed.

(* ---------- f64::trunc keeps the sign and keeps exactly the integral part of the magnitude ---------- *)
Lemma two52_pow : two52 = 2 ^ 52.
Proof. reflexivity. Qed.
Lemma two63N_pow : two63N = 2 ^ 63.
Proof. reflexivity. Qed.

Lemma f_trunc_spec b : b < two64 ->
  let t := f_trunc b in
  t < two64 /\ f_sign t = f_sign b /\ f_exp t <= f_exp b /\ f_mag t = (f_mag b / two1074 * two1074)%Z.
Proof.
  intros Hb. destruct (f_fields b Hb) as (Hdec & He & Hm). cbv zeta. unfold f_trunc.
  destruct (f_exp b <? 1023) eqn:E2.
  - apply N.ltb_lt in E2.
    destruct (f_fields_of (f_sign b) 0 0) as (Q1 & Q2 & Q3 & Q4); [lia|unfold two52; lia|].
    cbv zeta in Q1, Q2, Q3, Q4. rewrite N.mul_0_l, !N.add_0_r in Q1, Q2, Q3, Q4. fold (f_signbit b) in Q1, Q2, Q3, Q4.
    repeat split; [exact Q1|exact Q2|rewrite Q3; lia|].
    unfold f_mag at 1. rewrite Q3, Q4. change (0 =? 0) with true. cbv iota.
    rewrite Z.div_small by (split; [apply f_mag_nonneg|apply f_mag_small; assumption]). reflexivity.
  - apply N.ltb_ge in E2. destruct (1075 <=? f_exp b) eqn:E3.
    + apply N.leb_le in E3. repeat split; [exact Hb|lia|].
      rewrite f_mag_big by assumption. pose proof two1074_pos. rewrite Z.div_mul by lia. reflexivity.
    + apply N.leb_gt in E3. set (k := 1075 - f_exp b). assert (Hk : 1 <= k <= 52) by lia.
      set (K := 2 ^ k). assert (HK : K <> 0) by (apply N.pow_nonzero; lia).
      assert (H52 : two52 = 2 ^ (52 - k) * K) by (unfold K; rewrite <- N.pow_add_r, two52_pow; f_equal; lia).
      assert (H63 : two63N = 2 ^ (63 - k) * K) by (unfold K; rewrite <- N.pow_add_r, two63N_pow; f_equal; lia).
      set (m := f_man b) in *. set (e := f_exp b) in *.
      assert (Hbm : b mod K = m mod K).
      { rewrite Hdec at 1. unfold f_signbit. destruct (f_sign b).
        - rewrite H63, H52.
          replace (2 ^ (63 - k) * K + e * (2 ^ (52 - k) * K) + m) with (m + (2 ^ (63 - k) + e * 2 ^ (52 - k)) * K) by ring.
          apply N.mod_add; exact HK.
        - rewrite H52. replace (0 + e * (2 ^ (52 - k) * K) + m) with (m + (e * 2 ^ (52 - k)) * K) by ring.
          apply N.mod_add; exact HK. }
      assert (Hmk : m mod K <= m) by (apply N.mod_le; exact HK).
      assert (Ht : b - b mod K = (if f_sign b then two63N else 0) + e * two52 + (m - m mod K)).
      { rewrite Hbm. rewrite Hdec at 1. unfold f_signbit. lia. }
      destruct (f_fields_of (f_sign b) e (m - m mod K)) as (Q1 & Q2 & Q3 & Q4); [exact He|lia|].
      cbv zeta in Q1, Q2, Q3, Q4. rewrite <- Ht in Q1, Q2, Q3, Q4.
      repeat split; [exact Q1|exact Q2|rewrite Q3; lia|].
      rewrite f_mag_mid by (fold e; lia). fold e m k K.
      unfold f_mag. rewrite Q3, Q4. destruct (e =? 0) eqn:E0; [apply N.eqb_eq in E0; lia|].
      assert (Hsig : two52 + (m - m mod K) = (two52 + m) / K * K).
      { assert (Hmod : (two52 + m) mod K = m mod K).
        { rewrite H52. rewrite N.add_comm. apply N.mod_add; exact HK. }
        pose proof (N.div_mod (two52 + m) K HK) as Hdm. rewrite Hmod in Hdm. lia. }
      rewrite Hsig, N2Z.inj_mul. unfold K at 2. rewrite of_N_pow2.
      rewrite (T_split (Z.of_N e)) by lia. unfold k. rewrite N2Z.inj_sub by lia. change (Z.of_N 1075) with 1075%Z. ring.
Qed.

(* ---------- the sign of a float difference is the sign of the exact difference ---------- *)
Lemma f_round_mag_bounds a : 0 < a -> 0 < f_round_mag a <= F_INF.
Proof.
  intros Ha. unfold f_round_mag. destruct (N.log2_spec a Ha) as [Hlo Hhi].
  destruct (N.log2 a <=? 52) eqn:Ek.
  - apply N.leb_le in Ek. split; [exact Ha|].
    assert (H53 : 2 ^ N.succ (N.log2 a) <= 2 ^ 53) by (apply N.pow_le_mono_r; lia).
    change (2 ^ 53) with 9007199254740992 in H53. unfold F_INF. lia.
  - apply N.leb_gt in Ek. cbv zeta.
    match goal with |- context [F_INF <=? ?x] => set (bits := x) end.
    assert (Hb : two52 <= bits).
    { unfold bits. assert (1 <= N.log2 a - 52) by lia.
      assert (two52 <= (N.log2 a - 52) * two52) by (unfold two52; lia). lia. }
    destruct (F_INF <=? bits) eqn:Eo.
    + unfold F_INF. lia.
    + apply N.leb_gt in Eo. unfold two52 in Hb. lia.
Qed.

Ltac Zify.zify_post_hook ::= Z.div_mod_to_equations.
Lemma pattern_of_mag (s : bool) R : 0 < R -> R < F_INF ->
  let p := (if s then two63N else 0) + R in
  f_sign p = s /\ f_exp p <> 2047 /\ (0 < f_mag p)%Z.
Proof.
  intros H0 H1. cbv zeta.
  assert (Hdm : R = R / two52 * two52 + R mod two52) by (unfold two52; lia).
  assert (He : R / two52 < 2047) by (unfold F_INF, two52 in *; lia).
  assert (Hm : R mod two52 < two52) by (unfold two52; lia).
  destruct (f_fields_of s (R / two52) (R mod two52)) as (_ & Q2 & Q3 & Q4); [lia|exact Hm|].
  cbv zeta in Q2, Q3, Q4. rewrite <- N.add_assoc, <- Hdm in Q2, Q3, Q4.
  repeat split; [exact Q2|rewrite Q3; lia|].
  unfold f_mag. rewrite Q3, Q4. destruct (R / two52 =? 0) eqn:E0.
  - apply N.eqb_eq in E0. rewrite E0 in Hdm. lia.
  - apply Z.mul_pos_pos; [unfold two52; lia|]. apply Z.pow_pos_nonneg; lia.
Qed.
Ltac Zify.zify_post_hook ::= idtac.

Lemma not_nan_of_exp b : f_exp b <> 2047 -> f_is_nan b = false /\ f_is_inf b = false.
Proof. intros H. apply N.eqb_neq in H. unfold f_is_nan, f_is_inf. rewrite H. split; reflexivity. Qed.

Lemma f_sub_sign a b : a < two64 -> b < two64 -> f_exp a <> 2047 -> f_exp b <> 2047 ->
  f_partial_cmp F_ZERO (f_sub a b) = Some (Z.compare 0 (f_scaled a - f_scaled b)).
Proof.
  intros Ha Hb Ea Eb. destruct (not_nan_of_exp a Ea) as [Na Ia]. destruct (not_nan_of_exp b Eb) as [Nb Ib].
  unfold f_sub. rewrite Na, Nb, Ia, Ib. cbn [orb]. cbv zeta.
  set (d := (f_scaled a - f_scaled b)%Z).
  destruct (d =? 0)%Z eqn:Ed.
  - apply Z.eqb_eq in Ed. rewrite Ed. destruct (f_sign a && negb (f_sign b)); vm_compute; reflexivity.
  - apply Z.eqb_neq in Ed.
    assert (Hpos : 0 < Z.to_N (Z.abs d)) by lia.
    destruct (f_round_mag_bounds _ Hpos) as [R0 R1]. set (R := f_round_mag (Z.to_N (Z.abs d))) in *.
    destruct (N.eq_dec R F_INF) as [Ei|Ei].
    + rewrite Ei. destruct (d <? 0)%Z eqn:Es.
      * apply Z.ltb_lt in Es. replace (0 ?= d)%Z with Gt by (symmetry; apply Z.compare_gt_iff; lia). vm_compute. reflexivity.
      * apply Z.ltb_ge in Es. replace (0 ?= d)%Z with Lt by (symmetry; apply Z.compare_lt_iff; lia). vm_compute. reflexivity.
    + destruct (pattern_of_mag (d <? 0)%Z R R0) as (P1 & P2 & P3); [lia|]. cbv zeta in P1, P2, P3.
      set (p := (if (d <? 0)%Z then two63N else 0) + R) in *.
      destruct (not_nan_of_exp p P2) as [Np _].
      unfold f_partial_cmp. rewrite Np. change (f_is_nan F_ZERO) with false. cbn [orb].
      rewrite (f_ext_fin p P2). change (f_ext F_ZERO) with (EFin 0). cbn [ext_cmp]. f_equal.
      rewrite f_scaled_sgn, P1. destruct (d <? 0)%Z eqn:Es; cbn [sgn].
      * apply Z.ltb_lt in Es. transitivity Gt; [apply Z.compare_gt_iff; lia|symmetry; apply Z.compare_gt_iff; lia].
      * apply Z.ltb_ge in Es. transitivity Lt; [apply Z.compare_lt_iff; lia|symmetry; apply Z.compare_lt_iff; lia].
Qed.

(* ---------- cmp_int_float ---------- *)
Lemma f_ext_two64 : f_ext F_TWO64 = EFin (Z.of_N two64 * two1074).
Proof. vm_compute. reflexivity. Qed.
Lemma f_ext_neg_two64 : f_ext F_NEG_TWO64 = EFin (- Z.of_N two64 * two1074).
Proof. vm_compute. reflexivity. Qed.

(* inside the two guards the exponent is small: the cast `as i128` is far from saturating *)
Lemma f_mag_guard b : f_man b < two52 -> (f_mag b < Z.of_N two64 * two1074)%Z -> f_exp b < 1087.
Proof.
  intros Hm H. destruct (N.lt_ge_cases (f_exp b) 1087) as [Hlt|Hge]; [exact Hlt|exfalso].
  rewrite f_mag_big in H by lia. pose proof two1074_pos as HT.
  assert (Hp : (2 ^ 12 <= 2 ^ (Z.of_N (f_exp b) - 1075))%Z) by (apply Z.pow_le_mono_r; lia).
  change (2 ^ 12)%Z with 4096%Z in Hp. set (P := (2 ^ (Z.of_N (f_exp b) - 1075))%Z) in *.
  assert (HA : (4503599627370496 <= Z.of_N (two52 + f_man b))%Z) by (unfold two52; lia).
  set (A := Z.of_N (two52 + f_man b)) in *. unfold two64 in H. set (T := two1074) in *.
  assert (HAP : (18446744073709551616 <= A * P)%Z) by nia.
  assert (HAPT : (18446744073709551616 * T <= A * P * T)%Z) by (apply Z.mul_le_mono_nonneg_r; lia).
  change (Z.of_N 18446744073709551616) with 18446744073709551616%Z in H. lia.
Qed.

Lemma sgn_abs_lt s z c : (0 <= z)%Z -> (- c < sgn s z < c)%Z -> (z < c)%Z.
Proof. destruct s; cbn [sgn]; lia. Qed.

Theorem cmp_int_float_spec l r : r < two64 -> (- Z.of_N two64 < l < Z.of_N two64)%Z ->
  cmp_int_float l r = Ok (ext_cmp (EFin (l * two1074)) (f_ext r)).
Proof.
  intros Hr Hl. unfold cmp_int_float.
  destruct (f_is_nan r) eqn:Nr; [rewrite f_ext_nan by exact Nr; reflexivity|].
  unfold f_ge, f_le. unfold f_partial_cmp at 1 2. rewrite Nr.
  change (f_is_nan F_TWO64) with false. change (f_is_nan F_NEG_TWO64) with false. cbn [orb].
  rewrite f_ext_two64, f_ext_neg_two64.
  pose proof two1074_pos as HT.
  destruct (f_ext r) as [|x| |] eqn:Er.
  - reflexivity.
  - apply f_ext_fin_inv in Er. destruct Er as [Er Hx]. cbn [ext_cmp].
    set (T := two1074) in *. set (C := Z.of_N two64) in *.
    destruct (Z.compare_spec x (C * T)) as [H1|H1|H1].
    + f_equal. symmetry. apply Z.compare_lt_iff. nia.
    + destruct (Z.compare_spec x (- C * T)) as [H2|H2|H2].
      * f_equal. symmetry. apply Z.compare_gt_iff. nia.
      * f_equal. symmetry. apply Z.compare_gt_iff. nia.
      * (* -2^64 < r < 2^64 *)
        destruct (f_fields r Hr) as (_ & _ & Hm).
        destruct (f_trunc_spec r Hr) as (Ht & Hs & He & Hmag). cbv zeta in Ht, Hs, He, Hmag.
        set (t := f_trunc r) in *.
        rewrite f_scaled_sgn in Hx.
        pose proof (f_mag_nonneg r) as Hnn.
        assert (Hlt : (f_mag r < C * T)%Z) by (apply (sgn_abs_lt (f_sign r)); [exact Hnn|rewrite <- Hx; lia]).
        pose proof (f_mag_guard r Hm Hlt) as Hexp.
        rewrite (f_to_i128_quot t Ht) by lia.
        assert (Et : f_exp t <> 2047) by lia.
        rewrite (f_sub_sign r t Hr Ht Er Et). cbn [or_panic].
        rewrite !f_scaled_sgn, Hs, Hmag. fold T.
        rewrite sgn_quot by (apply Z.mul_nonneg_nonneg; [apply Z.div_pos; lia|lia]). fold T.
        rewrite Z.div_mul by lia.
        pose proof (Z.div_mod (f_mag r) T ltac:(lia)) as Hdm.
        pose proof (Z.mod_pos_bound (f_mag r) T HT) as Hrem.
        set (q := (f_mag r / T)%Z) in *. set (rem := (f_mag r mod T)%Z) in *.
        rewrite Hx, Hdm. clear Hx Hmag Hlt Hdm H1 H2.
        destruct (f_sign r); cbn [sgn].
        -- destruct (Z.compare_spec l (- q)) as [G|G|G].
           ++ f_equal. subst l.
              destruct (Z.compare_spec 0 (- (T * q + rem) - - (q * T))); destruct (Z.compare_spec (- q * T) (- (T * q + rem)));
                try reflexivity; exfalso; nia.
           ++ f_equal. symmetry. apply Z.compare_lt_iff. nia.
           ++ f_equal. symmetry. apply Z.compare_gt_iff. nia.
        -- destruct (Z.compare_spec l q) as [G|G|G].
           ++ f_equal. subst l.
              destruct (Z.compare_spec 0 (T * q + rem - q * T)); destruct (Z.compare_spec (q * T) (T * q + rem));
                try reflexivity; exfalso; nia.
           ++ f_equal. symmetry. apply Z.compare_lt_iff. nia.
           ++ f_equal. symmetry. apply Z.compare_gt_iff. nia.
    + f_equal. symmetry. apply Z.compare_lt_iff. nia.
  - reflexivity.
  - exfalso. exact (f_ext_not_nan r Nr Er).
Qed.

(* ---------- OrderedFloat::cmp ---------- *)
Lemma of_cmp_rs_spec a b : of_cmp_rs a b = ext_cmp (f_ext a) (f_ext b).
Proof.
  unfold of_cmp_rs, of_lt, of_gt, of_ge, f_ge, f_partial_cmp.
  destruct (f_is_nan a) eqn:Na, (f_is_nan b) eqn:Nb; cbn [orb negb].
  - rewrite (f_ext_nan a Na), (f_ext_nan b Nb). reflexivity.
  - rewrite (f_ext_nan a Na). pose proof (f_ext_not_nan b Nb). destruct (f_ext b); try reflexivity; congruence.
  - rewrite (f_ext_nan b Nb). pose proof (f_ext_not_nan a Na). destruct (f_ext a); try reflexivity; congruence.
  - rewrite (ext_cmp_antisym (f_ext b) (f_ext a)). destruct (ext_cmp (f_ext a) (f_ext b)); reflexivity.
Qed.
(* the specification `Num.of_cmp` of OrderedFloat is what the code computes *)
Lemma of_cmp_rs_is_of_cmp a b : of_cmp_rs a b = of_cmp a b.
Proof. apply of_cmp_rs_spec. Qed.

(* ---------- impl Ord for Number ---------- *)
Lemma cmp_scale x y : ((x * two1074 ?= y * two1074) = (x ?= y))%Z.
Proof. symmetry. apply Zmult_compare_compat_r. pose proof two1074_pos. lia. Qed.

Lemma i64_as_u64_nonneg z : (0 <= z < two63)%Z -> i64_as_u64 z = Z.to_N z.
Proof. intros H. unfold i64_as_u64. rewrite Z.mod_small; [reflexivity|unfold two63 in H; lia]. Qed.

(* the ranges that make the `as i128` casts of the integer operands exact and inside the guards *)
Lemma i64_in_guard z : ((- two63 <=? z) && (z <? two63))%Z = true -> (- Z.of_N two64 < z < Z.of_N two64)%Z.
Proof. unfold two63, two64. lia. Qed.
Lemma u64_in_guard n : (n <? two64) = true -> (- Z.of_N two64 < Z.of_N n < Z.of_N two64)%Z.
Proof. unfold two64. lia. Qed.

Theorem num_cmp_rs_res_correct a b :
  num_in_range a = true -> num_in_range b = true -> num_cmp_rs_res a b = Ok (num_cmp a b).
Proof.
  destruct a as [x|x|x], b as [y|y|y]; cbn [num_in_range num_cmp_rs_res]; intros Ha Hb;
    unfold num_cmp; cbn [scaled ext_cmp].
  - rewrite cmp_scale. reflexivity.
  - rewrite cmp_scale. destruct (x <? 0)%Z eqn:Ex.
    + f_equal. symmetry. apply Z.compare_lt_iff. lia.
    + rewrite i64_as_u64_nonneg by lia. rewrite <- N2Z.inj_compare, Z2N.id by lia. reflexivity.
  - apply cmp_int_float_spec; [apply N.ltb_lt; exact Hb|apply i64_in_guard; exact Ha].
  - rewrite cmp_scale. destruct (y <? 0)%Z eqn:Ey.
    + f_equal. symmetry. apply Z.compare_gt_iff. lia.
    + rewrite i64_as_u64_nonneg by lia. rewrite <- N2Z.inj_compare, Z2N.id by lia. reflexivity.
  - rewrite cmp_scale, N2Z.inj_compare. reflexivity.
  - apply cmp_int_float_spec; [apply N.ltb_lt; exact Hb|apply u64_in_guard; exact Ha].
  - rewrite cmp_int_float_spec; [|apply N.ltb_lt; exact Ha|apply i64_in_guard; exact Hb].
    cbn [res_map]. rewrite <- ext_cmp_antisym. reflexivity.
  - rewrite cmp_int_float_spec; [|apply N.ltb_lt; exact Ha|apply u64_in_guard; exact Hb].
    cbn [res_map]. rewrite <- ext_cmp_antisym. reflexivity.
  - rewrite of_cmp_rs_spec. reflexivity.
Qed.

Theorem num_cmp_rs_correct a b :
  num_in_range a = true -> num_in_range b = true -> num_cmp_rs a b = num_cmp a b.
Proof. intros Ha Hb. unfold num_cmp_rs. rewrite num_cmp_rs_res_correct by assumption. reflexivity. Qed.

Theorem num_eqb_rs_res_correct a b :
  num_in_range a = true -> num_in_range b = true -> num_eqb_rs_res a b = Ok (num_eqb a b).
Proof. intros Ha Hb. unfold num_eqb_rs_res. rewrite num_cmp_rs_res_correct by assumption. reflexivity. Qed.

Theorem num_eqb_rs_correct a b :
  num_in_range a = true -> num_in_range b = true -> num_eqb_rs a b = num_eqb a b.
Proof. intros Ha Hb. unfold num_eqb_rs, num_eqb. rewrite num_cmp_rs_correct by assumption. reflexivity. Qed.

(* the `unwrap` of cmp_int_float never panics and the algorithm never fails *)
Corollary num_cmp_rs_no_panic a b :
  num_in_range a = true -> num_in_range b = true -> num_cmp_rs_res a b <> Panic.
Proof. intros Ha Hb. rewrite num_cmp_rs_res_correct by assumption. discriminate. Qed.

(* the order laws therefore hold of the algorithm *)
Corollary num_cmp_rs_trans a b c o :
  num_in_range a = true -> num_in_range b = true -> num_in_range c = true ->
  num_cmp_rs a b = o -> num_cmp_rs b c = o -> num_cmp_rs a c = o.
Proof. intros Ha Hb Hc. rewrite !num_cmp_rs_correct by assumption. apply num_cmp_trans. Qed.
Corollary num_cmp_rs_antisym a b :
  num_in_range a = true -> num_in_range b = true -> num_cmp_rs a b = CompOpp (num_cmp_rs b a).
Proof. intros Ha Hb. rewrite !num_cmp_rs_correct by assumption. apply num_cmp_antisym. Qed.
Corollary num_cmp_rs_eq_iff a b :
  num_in_range a = true -> num_in_range b = true -> (num_cmp_rs a b = Eq <-> scaled a = scaled b).
Proof. intros Ha Hb. rewrite num_cmp_rs_correct by assumption. apply num_cmp_eq_iff. Qed.

(* ---------- non-vacuity: the boundaries the old order got wrong, signed zeros, NaN ---------- *)
(* 2^53+1 (Int64) against 2^53 as a double: the old order said Equal *)
Example ord_2p53 :
  num_cmp_rs_res (NInt 9007199254740993) (NFloat 4845873199050653696) = Ok Gt /\
  num_cmp_rs_res (NFloat 4845873199050653696) (NInt 9007199254740992) = Ok Eq /\
  num_cmp_rs_res (NUInt 9007199254740991) (NFloat 4845873199050653696) = Ok Lt.
Proof. vm_compute. repeat split. Qed.
(* 2^63 as a double (0x43E0000000000000) against i64::MAX, i64::MIN against -2^63, u64 2^63 *)
Example ord_2p63 :
  num_cmp_rs_res (NInt 9223372036854775807) (NFloat 4890909195324358656) = Ok Lt /\
  num_cmp_rs_res (NUInt 9223372036854775808) (NFloat 4890909195324358656) = Ok Eq /\
  num_cmp_rs_res (NInt (-9223372036854775808)) (NFloat 14114281232179134464) = Ok Eq /\
  num_cmp_rs_res (NFloat 14114281232179134464) (NInt (-9223372036854775807)) = Ok Lt.
Proof. vm_compute. repeat split. Qed.
(* 2^64 as a double (the guard) and the largest double below it against u64::MAX *)
Example ord_2p64 :
  num_cmp_rs_res (NUInt 18446744073709551615) (NFloat F_TWO64) = Ok Lt /\
  num_cmp_rs_res (NUInt 18446744073709551615) (NFloat 4895412794951729151) = Ok Gt /\
  num_cmp_rs_res (NFloat F_NEG_TWO64) (NInt (-9223372036854775808)) = Ok Lt /\
  num_cmp_rs_res (NUInt 18446744073709549568) (NFloat 4895412794951729151) = Ok Eq.
Proof. vm_compute. repeat split. Qed.
(* -0.0 = 0.0 = 0 = 0u; fractions; NaN greatest and equal to itself (any payload); infinities *)
Example ord_zero_nan :
  num_cmp_rs_res (NFloat two63N) (NFloat 0) = Ok Eq /\
  num_cmp_rs_res (NFloat two63N) (NInt 0) = Ok Eq /\
  num_cmp_rs_res (NUInt 0) (NFloat two63N) = Ok Eq /\
  num_cmp_rs_res (NInt (-1)) (NFloat 13829653735729319117) = Ok Lt /\      (* -1 < -0.9 *)
  num_cmp_rs_res (NInt 0) (NFloat 1) = Ok Lt /\                             (* 0 < the least subnormal *)
  num_cmp_rs_res (NFloat F_NAN) (NFloat 18444492273895866369) = Ok Eq /\
  num_cmp_rs_res (NFloat F_INF) (NFloat F_NAN) = Ok Lt /\
  num_cmp_rs_res (NUInt 18446744073709551615) (NFloat F_NAN) = Ok Lt /\
  num_cmp_rs_res (NFloat F_NAN) (NInt 5) = Ok Gt /\
  num_cmp_rs_res (NFloat F_NEG_INF) (NInt (-9223372036854775808)) = Ok Lt /\
  num_cmp_rs_res (NUInt 18446744073709551615) (NFloat F_INF) = Ok Lt.
Proof. vm_compute. repeat split. Qed.

(* ---------- the IEEE primitives of NumOrd.v against values computed by an independent IEEE-754 implementation
   (CPython floats, struct.pack): (a, b, a - b) with rounding, cancellation, overflow, subnormals, signed zeros and
   infinities; (x, trunc x); (x, x as i128) with Rust's saturation ---------- *)
Example f_sub_examples :
  forallb (fun t => match t with (a, b, c) => f_sub a b =? c end)
    [(4609434218613702656, 4607182418800017408, 4602678819172646912); (4591870180066957722, 4599075939470750515, 13819745816549104025); (9214871658872686752, 18438243695727462560, 9218868437227405312); (18438243695727462560, 9214871658872686752, 18442240474082181120); (1, 2, 9223372036854775809); (4845873199050653696, 4607182418800017408, 4845873199050653695); (4845873199050653697, 13830554455654793216, 4845873199050653698); (0, 9223372036854775808, 0); (9223372036854775808, 0, 9223372036854775808); (9223372036854775808, 9223372036854775808, 0); (4613937818241073152, 4613937818241073152, 0); (13837309855095848960, 13837309855095848960, 0); (4846369599423283200, 4602678819172646912, 4846369599423283200); (4607182418800017408, 4368491638549381120, 4607182418800017407); (4607182418800017408, 4363988038922010624, 4607182418800017408); (1, 9223372036854775809, 2); (4503599627370496, 1, 4503599627370495); (9218868437227405312, 4607182418800017408, 9218868437227405312); (4607182418800017408, 9218868437227405312, 18442240474082181120); (18442240474082181120, 13830554455654793216, 18442240474082181120); (17485029721327973432, 7283207964119141687, 17485029721327973432); (6011500591619714867, 15220287784085211640, 6012348562256393273); (16781078052021535861, 3960482443532127989, 16781078052021535861); (348660451904808794, 340251664675567577, 346914128842271076); (1090396360377453094, 10430779633273967791, 1207407596494127690); (10370126428944871513, 10372068547548220841, 1139286403739266020); (10801332806156616911, 914761360679426580, 10801332806156616911); (9009706248826574768, 18223451727416513942, 9011304057502289174); (9973894190648387236, 10531498782278263232, 1308126745423487424); (12072718469115521071, 2835336643070902161, 12073602978750799905); (3465608723044488519, 1797276903956378115, 3465608723044488519); (14278952507665477687, 5059778033158305247, 14286045366148241149); (9808507260218814804, 14337340360533389438, 5113968323678613630); (2904476970784350673, 2896933374897522605, 2901665763721518586); (3316111241534796839, 14385317585936796820, 5161945549082021012); (2253152017886047919, 11476718729720038087, 2257752955003025595); (8279529517580348704, 11233311162323323400, 8279529517580348704); (9045533590711537424, 9035761335972134143, 9044022569937965008); (17215796697752958293, 7778961656703135618, 17215796697752958334); (9588513176929972688, 9596220972075176946, 370422350277622538); (15095954672103411799, 6274150083463332300, 15497522120318108108); (6415362695191109581, 15650318387098804074, 6427788903424389988); (1726541358694932734, 4979500703817309910, 14202872740672085718); (13596660009970032922, 4383396784397155126, 13607967904893399932)]
  = true.
Proof. vm_compute. reflexivity. Qed.

Example f_trunc_examples :
  forallb (fun t => match t with (a, c) => f_trunc a =? c end)
    [(4609434218613702656, 4607182418800017408); (13832806255468478464, 13830554455654793216); (4606281698874543309, 0); (13829653735729319117, 9223372036854775808); (9223372036854775808, 9223372036854775808); (4841369599423283199, 4841369599423283198); (14064741636278059007, 14064741636278059006); (9094988921128908188, 9094988921128908188); (4683220299150161609, 4683220244930494464); (4890909195324358656, 4890909195324358656); (9218868437227405312, 9218868437227405312); (18442240474082181120, 18442240474082181120); (1, 0); (4607182418800017408, 4607182418800017408); (4611686018427387903, 4607182418800017408); (4616187366254944715, 4613937818241073152); (13836183955189006336, 13835058055282163712)]
  = true.
Proof. vm_compute. reflexivity. Qed.

Example f_to_i128_examples :
  forallb (fun t : Z * Z => match t with (a, c) => (f_to_i128 (Z.to_N a) =? c)%Z end)
    [(4609434218613702656, 1); (13832806255468478464, -1); (13829653735729319117, 0); (4890909195324358656, 9223372036854775808); (14118784831806504960, -18446744073709551616); (5174635971848699904, 85070591730234615865843651857942052864); (5179139571476070400, 170141183460469231731687303715884105727); (14402511608330846208, -170141183460469231731687303715884105728); (14407015207958216704, -170141183460469231731687303715884105728); (9094988921128908188, 170141183460469231731687303715884105727); (9218868437227405312, 170141183460469231731687303715884105727); (18442240474082181120, -170141183460469231731687303715884105728); (4895412794951729150, 18446744073709547520); (5179139571476070399, 170141183460469212842221372237303250944); (9221120237041090560, 0)]%Z
  = true.
Proof. vm_compute. reflexivity. Qed.
