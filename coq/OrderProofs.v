(* OrderProofs.v — cmp_value is a total preorder on all values (C04): reflexive, antisymmetric, transitive,
   and "Equal" is a congruence for the order.  Generic lexicographic lemmas, then nested induction. *)
From Coq Require Import List NArith ZArith Bool Lia.
Import ListNotations.
From JB Require Import Constants Bytes Num NumProofs Value Order.
Open Scope N_scope.
Set Default Timeout 120.

Section Lex.
  Context {A : Type} (c : A -> A -> comparison).
  Definition trans_at x := forall y z o, c x y = o -> c y z = o -> c x z = o.
  Definition eq_l x := forall y z, c x y = Eq -> c y z = c x z.
  Definition eq_r x := forall y z, c y z = Eq -> c x y = c x z.
  Lemma lex_refl l : Forall (fun x => c x x = Eq) l -> lex c l l = Eq.
  Proof. induction 1 as [|x xs Hx _ IH]; cbn [lex]; auto. rewrite Hx. auto. Qed.
  Lemma lex_antisym l1 : Forall (fun x => forall y, c x y = CompOpp (c y x)) l1 ->
    forall l2, lex c l1 l2 = CompOpp (lex c l2 l1).
  Proof.
    induction 1 as [|x xs Hx _ IH]; intros [|y ys]; cbn [lex]; auto.
    rewrite Hx. destruct (c y x); cbn [CompOpp]; auto.
  Qed.
  Lemma lex_trans l1 : Forall (fun x => trans_at x /\ eq_l x /\ eq_r x) l1 ->
    forall l2 l3 o, lex c l1 l2 = o -> lex c l2 l3 = o -> lex c l1 l3 = o.
  Proof.
    induction 1 as [|x xs (Ht & Hl & Hr) _ IH]; intros l2 l3 o H1 H2.
    - destruct l2, l3; cbn [lex] in *; congruence.
    - destruct l2 as [|y ys]; [destruct l3; cbn [lex] in *; congruence|].
      destruct l3 as [|z zs]; cbn [lex] in *.
      + destruct (c x y); congruence.
      + destruct (c x y) eqn:Exy.
        * rewrite <- (Hl y z Exy). destruct (c y z) eqn:Eyz; auto. eapply IH; eauto.
        * destruct (c y z) eqn:Eyz.
          -- rewrite <- (Hr y z Eyz), Exy. auto.
          -- rewrite (Ht y z Lt Exy Eyz). auto.
          -- congruence.
        * destruct (c y z) eqn:Eyz.
          -- rewrite <- (Hr y z Eyz), Exy. auto.
          -- congruence.
          -- rewrite (Ht y z Gt Exy Eyz). auto.
  Qed.
  Lemma lex_eq_l l1 : Forall (fun x => eq_l x) l1 -> forall l2 l3, lex c l1 l2 = Eq -> lex c l2 l3 = lex c l1 l3.
  Proof.
    induction 1 as [|x xs Hx _ IH]; intros l2 l3 H.
    - destruct l2; cbn [lex] in H; [reflexivity|discriminate].
    - destruct l2 as [|y ys]; cbn [lex] in H; [discriminate|]. destruct (c x y) eqn:E; try discriminate.
      destruct l3 as [|z zs]; cbn [lex]; [reflexivity|]. rewrite <- (Hx y z E). destruct (c y z); auto.
  Qed.
  Lemma lex_eq_r l1 : Forall (fun x => eq_r x) l1 -> forall l2 l3, lex c l2 l3 = Eq -> lex c l1 l2 = lex c l1 l3.
  Proof.
    induction 1 as [|x xs Hx _ IH]; intros l2 l3 H.
    - destruct l2, l3; cbn [lex] in *; try reflexivity; try discriminate.
    - destruct l2 as [|y ys], l3 as [|z zs]; cbn [lex] in *; try reflexivity; try discriminate.
      destruct (c y z) eqn:E; try discriminate. rewrite (Hx y z E). destruct (c x z); auto.
  Qed.
End Lex.

Definition pair_cmp (p q : list N * value) : comparison :=
  match bytes_cmp (fst p) (fst q) with Eq => cmp_value (snd p) (snd q) | o => o end.

Lemma cmp_arr l1 l2 : cmp_value (VArr l1) (VArr l2) = lex cmp_value l1 l2.
Proof. cbn [cmp_value]. revert l2. induction l1; destruct l2; cbn [lex]; auto. rewrite IHl1. reflexivity. Qed.
Lemma cmp_obj l1 l2 : cmp_value (VObj l1) (VObj l2) = lex pair_cmp l1 l2.
Proof.
  cbn [cmp_value]. revert l2. induction l1 as [|[k1 x] l1 IH]; destruct l2 as [|[k2 y] l2]; cbn [lex]; auto.
  unfold pair_cmp at 1. cbn [fst snd]. rewrite IH. destruct (bytes_cmp k1 k2); auto.
Qed.

(* N / bytes are total orders in the trio form *)
Lemma Ncmp_trio x : trans_at N.compare x /\ eq_l N.compare x /\ eq_r N.compare x.
Proof.
  repeat split; red; intros.
  - subst o. destruct (N.compare x y) eqn:E1.
    + apply N.compare_eq_iff in E1. apply N.compare_eq_iff in H0. subst. apply N.compare_refl.
    + rewrite N.compare_lt_iff in *. lia.
    + rewrite N.compare_gt_iff in *. lia.
  - apply N.compare_eq_iff in H; subst; reflexivity.
  - apply N.compare_eq_iff in H; subst; reflexivity.
Qed.
Lemma bytes_refl s : bytes_cmp s s = Eq.
Proof. apply lex_refl. induction s; constructor; auto. apply N.compare_refl. Qed.
Lemma bytes_antisym s t : bytes_cmp s t = CompOpp (bytes_cmp t s).
Proof. apply lex_antisym. induction s; constructor; auto. intros. apply N.compare_antisym. Qed.
Lemma bytes_trio s : trans_at bytes_cmp s /\ eq_l bytes_cmp s /\ eq_r bytes_cmp s.
Proof.
  assert (F : Forall (fun x => trans_at N.compare x /\ eq_l N.compare x /\ eq_r N.compare x) s)
    by (induction s; constructor; auto using Ncmp_trio).
  repeat split.
  - red; intros. eapply lex_trans; eauto.
  - red. apply lex_eq_l. eapply Forall_impl; [|exact F]. intros a H; apply H.
  - red. apply lex_eq_r. eapply Forall_impl; [|exact F]. intros a H; apply H.
Qed.
Lemma bytes_cmp_eq s t : bytes_cmp s t = Eq <-> s = t.
Proof.
  split; [|intros ->; apply bytes_refl].
  revert t. induction s as [|a s IH]; intros [|b t]; cbn; try discriminate; auto.
  destruct (N.compare_spec a b); try discriminate. intros H1. subst. f_equal. apply IH. exact H1.
Qed.
Lemma num_trio n : trans_at num_cmp n /\ eq_l num_cmp n /\ eq_r num_cmp n.
Proof.
  repeat split; red; intros.
  - eapply num_cmp_trans; eauto.
  - apply num_cmp_eq_l; auto.
  - apply num_cmp_eq_r; auto.
Qed.
Lemma rank_trio a : trans_at (fun x y : value => N.compare (rank x) (rank y)) a.
Proof. red; intros. eapply (proj1 (Ncmp_trio (rank a))); eauto. Qed.

Theorem cmp_value_refl v : cmp_value v v = Eq.
Proof.
  induction v using value_ind2.
  - reflexivity.
  - destruct b; reflexivity.
  - apply bytes_refl.
  - apply num_cmp_refl.
  - rewrite cmp_arr. apply lex_refl. exact H.
  - rewrite cmp_obj. apply lex_refl. eapply Forall_impl; [|exact H]. intros p Hp. unfold pair_cmp. rewrite bytes_refl. exact Hp.
Qed.

Theorem cmp_value_antisym a : forall b, cmp_value a b = CompOpp (cmp_value b a).
Proof.
  induction a using value_ind2; intros b0; destruct b0; try reflexivity;
    try (destruct b; reflexivity); try (destruct b1; reflexivity).
  - destruct b, b0; reflexivity.
  - apply bytes_antisym.
  - apply num_cmp_antisym.
  - rewrite !cmp_arr. apply lex_antisym. exact H.
  - rewrite !cmp_obj. apply lex_antisym. eapply Forall_impl; [|exact H]. intros p Hp q. unfold pair_cmp.
    rewrite (bytes_antisym (fst p) (fst q)). destruct (bytes_cmp (fst q) (fst p)); cbn [CompOpp]; auto.
Qed.

(* cross-kind comparisons are decided by the rank alone *)
Lemma cmp_rank a b : rank a <> rank b -> cmp_value a b = N.compare (rank a) (rank b).
Proof.
  destruct a, b; cbn [cmp_value rank]; intros H; try reflexivity; try (exfalso; apply H; reflexivity).
Qed.
Lemma cmp_eq_rank a b : cmp_value a b = Eq -> rank a = rank b.
Proof.
  intros H. destruct (N.eq_dec (rank a) (rank b)) as [E|E]; [exact E|].
  rewrite (cmp_rank a b E) in H. apply N.compare_eq_iff in H. exact H.
Qed.
Lemma same_rank_shape a b : rank a = rank b ->
  match a, b with
  | VNull, VNull | VBool true, VBool true | VBool false, VBool false | VStr _, VStr _ | VNum _, VNum _
  | VArr _, VArr _ | VObj _, VObj _ => True
  | _, _ => False
  end.
Proof. destruct a as [|[]| | | |], b as [|[]| | | |]; cbn [rank]; intros H; try exact I; discriminate. Qed.

(* cross-rank situations are settled by the ranks *)
Lemma cmp_cases a b :
  (rank a < rank b /\ cmp_value a b = Lt) \/ (rank b < rank a /\ cmp_value a b = Gt) \/ rank a = rank b.
Proof.
  destruct (N.lt_trichotomy (rank a) (rank b)) as [H|[H|H]].
  - left. split; [exact H|]. rewrite cmp_rank by lia. apply N.compare_lt_iff. exact H.
  - right. right. exact H.
  - right. left. split; [exact H|]. rewrite cmp_rank by lia. apply N.compare_gt_iff. exact H.
Qed.

Lemma trio_by_rank a :
  (forall y z o, rank a = rank y -> rank y = rank z -> cmp_value a y = o -> cmp_value y z = o -> cmp_value a z = o) ->
  (forall y z, rank a = rank y -> rank y = rank z -> cmp_value a y = Eq -> cmp_value y z = cmp_value a z) ->
  (forall y z, rank a = rank y -> rank y = rank z -> cmp_value y z = Eq -> cmp_value a y = cmp_value a z) ->
  trans_at cmp_value a /\ eq_l cmp_value a /\ eq_r cmp_value a.
Proof.
  intros T L R. repeat split; red.
  - intros y z o H1 H2.
    destruct (cmp_cases a y) as [[R1 C1]|[[R1 C1]|R1]]; destruct (cmp_cases y z) as [[R2 C2]|[[R2 C2]|R2]];
      destruct (cmp_cases a z) as [[R3 C3]|[[R3 C3]|R3]]; try congruence; try (exfalso; lia); try (exact (T y z o R1 R2 H1 H2)).
  - intros y z H. pose proof (cmp_eq_rank _ _ H) as R1.
    destruct (cmp_cases y z) as [[R2 C2]|[[R2 C2]|R2]]; destruct (cmp_cases a z) as [[R3 C3]|[[R3 C3]|R3]];
      try congruence; try (exfalso; lia). apply L; auto.
  - intros y z H. pose proof (cmp_eq_rank _ _ H) as R2.
    destruct (cmp_cases a y) as [[R1 C1]|[[R1 C1]|R1]]; destruct (cmp_cases a z) as [[R3 C3]|[[R3 C3]|R3]];
      try congruence; try (exfalso; lia). apply R; auto.
Qed.

Ltac same_kind y z Ry Rz :=
  destruct y as [|[]| | | |]; cbn [rank] in Ry; try discriminate Ry;
  destruct z as [|[]| | | |]; cbn [rank] in Rz; try discriminate Rz.

(* the trio for values: by induction, kind by kind *)
Lemma pair_trio (l : list (list N * value)) :
  Forall (fun kv => trans_at cmp_value (snd kv) /\ eq_l cmp_value (snd kv) /\ eq_r cmp_value (snd kv)) l ->
  Forall (fun p => trans_at pair_cmp p /\ eq_l pair_cmp p /\ eq_r pair_cmp p) l.
Proof.
  intros IH. eapply Forall_impl; [|exact IH]. intros [k v] (Ht & Hl & Hr). cbn [snd] in *.
  destruct (bytes_trio k) as (Bt & Bl & Br).
  repeat split; red; unfold pair_cmp; cbn [fst snd]; intros [k2 v2] [k3 v3]; cbn [fst snd].
  - intros o H1 H2. destruct (bytes_cmp k k2) eqn:E1.
    + rewrite <- (Bl k2 k3 E1). destruct (bytes_cmp k2 k3) eqn:E2; try congruence. eapply Ht; eauto.
    + destruct (bytes_cmp k2 k3) eqn:E2; subst.
      * rewrite <- (Br k2 k3 E2), E1. reflexivity.
      * rewrite (Bt k2 k3 Lt E1 E2). reflexivity.
      * congruence.
    + destruct (bytes_cmp k2 k3) eqn:E2; subst.
      * rewrite <- (Br k2 k3 E2), E1. reflexivity.
      * congruence.
      * rewrite (Bt k2 k3 Gt E1 E2). reflexivity.
  - intros H1. destruct (bytes_cmp k k2) eqn:E1; try discriminate. rewrite <- (Bl k2 k3 E1).
    destruct (bytes_cmp k2 k3); auto.
  - intros H1. destruct (bytes_cmp k2 k3) eqn:E2; try discriminate. rewrite <- (Br k2 k3 E2).
    destruct (bytes_cmp k k2); auto.
Qed.

Theorem cmp_value_trio a : trans_at cmp_value a /\ eq_l cmp_value a /\ eq_r cmp_value a.
Proof.
  induction a as [|ab|s|n|l IH|l IH] using value_ind2; apply trio_by_rank.
  - intros y z o Ry Rz. same_kind y z Ry Rz. cbn. congruence.
  - intros y z Ry Rz. same_kind y z Ry Rz. reflexivity.
  - intros y z Ry Rz. same_kind y z Ry Rz. reflexivity.
  - intros y z o Ry Rz. destruct ab; same_kind y z Ry Rz; cbn; congruence.
  - intros y z Ry Rz. destruct ab; same_kind y z Ry Rz; reflexivity.
  - intros y z Ry Rz. destruct ab; same_kind y z Ry Rz; reflexivity.
  - intros y z o Ry Rz. same_kind y z Ry Rz. cbn [cmp_value]. apply (proj1 (bytes_trio s)).
  - intros y z Ry Rz. same_kind y z Ry Rz. cbn [cmp_value]. apply (proj1 (proj2 (bytes_trio s))).
  - intros y z Ry Rz. same_kind y z Ry Rz. cbn [cmp_value]. apply (proj2 (proj2 (bytes_trio s))).
  - intros y z o Ry Rz. same_kind y z Ry Rz. cbn [cmp_value]. apply (proj1 (num_trio n)).
  - intros y z Ry Rz. same_kind y z Ry Rz. cbn [cmp_value]. apply (proj1 (proj2 (num_trio n))).
  - intros y z Ry Rz. same_kind y z Ry Rz. cbn [cmp_value]. apply (proj2 (proj2 (num_trio n))).
  - intros y z o Ry Rz. same_kind y z Ry Rz. rewrite !cmp_arr. apply lex_trans. exact IH.
  - intros y z Ry Rz. same_kind y z Ry Rz. rewrite !cmp_arr. apply lex_eq_l.
    eapply Forall_impl; [|exact IH]. intros a Ha; apply Ha.
  - intros y z Ry Rz. same_kind y z Ry Rz. rewrite !cmp_arr. apply lex_eq_r.
    eapply Forall_impl; [|exact IH]. intros a Ha; apply Ha.
  - intros y z o Ry Rz. same_kind y z Ry Rz. rewrite !cmp_obj. apply lex_trans. apply pair_trio. exact IH.
  - intros y z Ry Rz. same_kind y z Ry Rz. rewrite !cmp_obj. apply lex_eq_l.
    eapply Forall_impl; [|exact (pair_trio l IH)]. intros a Ha; apply Ha.
  - intros y z Ry Rz. same_kind y z Ry Rz. rewrite !cmp_obj. apply lex_eq_r.
    eapply Forall_impl; [|exact (pair_trio l IH)]. intros a Ha; apply Ha.
Qed.

Theorem cmp_value_trans a b c o : cmp_value a b = o -> cmp_value b c = o -> cmp_value a c = o.
Proof. apply (proj1 (cmp_value_trio a)). Qed.
Theorem cmp_value_eq_l a b c : cmp_value a b = Eq -> cmp_value b c = cmp_value a c.
Proof. apply (proj1 (proj2 (cmp_value_trio a))). Qed.
Theorem cmp_value_eq_r a b c : cmp_value b c = Eq -> cmp_value a b = cmp_value a c.
Proof. apply (proj2 (proj2 (cmp_value_trio a))). Qed.

(* the documented ranking, on arbitrary representatives of each kind *)
Theorem ranking n b1 s x l o :
  cmp_value VNull (VArr l) = Gt /\ cmp_value (VArr l) (VObj o) = Gt /\ cmp_value (VObj o) (VStr s) = Gt /\
  cmp_value (VStr s) (VNum x) = Gt /\ cmp_value (VNum x) (VBool true) = Gt /\ cmp_value (VBool true) (VBool false) = Gt /\
  cmp_value (VBool b1) VNull = Lt /\ cmp_value (VNum n) VNull = Lt.
Proof. repeat split; try reflexivity. destruct b1; reflexivity. Qed.

(* ---- Equal exactly for equal JSON values (numbers by numeric value) ---- *)
Lemma bytes_eqb_cmp s t : bytes_eqb s t = match bytes_cmp s t with Eq => true | _ => false end.
Proof. reflexivity. Qed.

Theorem cmp_value_eq_iff a : forall b, cmp_value a b = Eq <-> value_eqb a b = true.
Proof.
  induction a as [|ab|s|n|l IH|l IH] using value_ind2; intros b.
  - destruct b as [|[]| | | |]; cbn; split; intros H; try reflexivity; try discriminate.
  - destruct ab, b as [|[]| | | |]; cbn; split; intros H; try reflexivity; try discriminate.
  - destruct b as [|[]| | | |]; cbn [cmp_value value_eqb rank]; try (split; intros H; discriminate).
    unfold bytes_eqb. destruct (bytes_cmp s s0); split; intros H; try reflexivity; try discriminate.
  - destruct b as [|[]| | | |]; cbn [cmp_value value_eqb rank]; try (split; intros H; discriminate).
    unfold num_eqb. destruct (num_cmp n n0); split; intros H; try reflexivity; try discriminate.
  - destruct b as [|[]| | |l2|o2]; try (cbn; split; intros H; discriminate).
    cbn [cmp_value value_eqb]. revert l2. induction IH as [|x xs Hx _ IHl]; intros [|y ys]; try (cbn; split; intros H; try reflexivity; discriminate).
      specialize (Hx y). specialize (IHl ys).
      destruct (cmp_value x y) eqn:E.
      * rewrite (proj1 Hx eq_refl). cbn [andb]. exact IHl.
      * destruct (value_eqb x y) eqn:E2; [discriminate (proj2 Hx eq_refl)|]. cbn [andb]. split; discriminate.
      * destruct (value_eqb x y) eqn:E2; [discriminate (proj2 Hx eq_refl)|]. cbn [andb]. split; discriminate.
  - destruct b as [|[]| | |a2|l2]; try (cbn; split; intros H; discriminate).
    cbn [cmp_value value_eqb]. revert l2. induction IH as [|[k x] xs Hx _ IHl]; intros [|[k2 y] ys]; try (cbn; split; intros H; try reflexivity; discriminate).
      cbn [snd] in Hx. specialize (Hx y). specialize (IHl ys). unfold bytes_eqb.
      destruct (bytes_cmp k k2) eqn:Ek; cbn [andb]; try (split; discriminate).
      destruct (cmp_value x y) eqn:E.
      * rewrite (proj1 Hx eq_refl). cbn [andb]. exact IHl.
      * destruct (value_eqb x y) eqn:E2; [discriminate (proj2 Hx eq_refl)|]. cbn [andb]. split; discriminate.
      * destruct (value_eqb x y) eqn:E2; [discriminate (proj2 Hx eq_refl)|]. cbn [andb]. split; discriminate.
Qed.

(* ---- the mirror of the code computes the specified order (given the generated level table) ---- *)
Definition lvl (v : value) : N := level_of_tag (tag_of v).
Definition kind_repr : list value :=
  [VNull; VBool true; VBool false; VStr []; VNum (NUInt 0); VArr []; VObj []].
Definition same_ctor (a b : value) : bool :=
  match a, b with
  | VNull, VNull | VBool true, VBool true | VBool false, VBool false | VStr _, VStr _ | VNum _, VNum _ => true
  | VArr _, VArr _ | VObj _, VObj _ | VArr _, VObj _ | VObj _, VArr _ => true
  | _, _ => false
  end.
(* the fact about the generated LEVEL_TABLE on which everything rests: checked by computation on the 49 kind pairs *)
Lemma levels_table_ok :
  forallb (fun a => forallb (fun b =>
     if lvl a =? lvl b then same_ctor a b
     else cmp_eqb (N.compare (lvl a) (lvl b)) (N.compare (rank a) (rank b)) && negb (same_ctor a b)) kind_repr) kind_repr = true.
Proof. vm_compute. reflexivity. Qed.

Definition kind_of (v : value) : value :=
  match v with
  | VNull => VNull | VBool b => VBool b | VStr _ => VStr [] | VNum _ => VNum (NUInt 0) | VArr _ => VArr [] | VObj _ => VObj []
  end.
Lemma kind_in v : In (kind_of v) kind_repr.
Proof. destruct v as [|[]| | | |]; cbn; auto 10. Qed.
Lemma kind_facts a b :
  if lvl a =? lvl b then same_ctor a b = true
  else N.compare (lvl a) (lvl b) = N.compare (rank a) (rank b) /\ same_ctor a b = false.
Proof.
  pose proof levels_table_ok as H. rewrite forallb_forall in H. specialize (H _ (kind_in a)).
  rewrite forallb_forall in H. specialize (H _ (kind_in b)).
  replace (lvl (kind_of a)) with (lvl a) in H by (destruct a as [|[]| | | |]; reflexivity).
  replace (lvl (kind_of b)) with (lvl b) in H by (destruct b as [|[]| | | |]; reflexivity).
  replace (rank (kind_of a)) with (rank a) in H by (destruct a as [|[]| | | |]; reflexivity).
  replace (rank (kind_of b)) with (rank b) in H by (destruct b as [|[]| | | |]; reflexivity).
  replace (same_ctor (kind_of a) (kind_of b)) with (same_ctor a b) in H
    by (destruct a as [|[]| | | |], b as [|[]| | | |]; reflexivity).
  destruct (lvl a =? lvl b); [exact H|].
  apply andb_true_iff in H. destruct H as [H1 H2]. split.
  - destruct (N.compare (lvl a) (lvl b)), (N.compare (rank a) (rank b)); try reflexivity; discriminate.
  - destruct (same_ctor a b); [discriminate|reflexivity].
Qed.

Lemma cmp_diff_ctor a b : same_ctor a b = false -> cmp_value a b = N.compare (rank a) (rank b).
Proof. destruct a as [|[]| | | |], b as [|[]| | | |]; cbn; intros H; try reflexivity; discriminate. Qed.

Theorem compare_entry_correct a : forall b, compare_entry a b = Ok (cmp_value a b).
Proof.
  induction a as [|ab|s|n|l IH|l IH] using value_ind2; intros b;
    match goal with |- compare_entry ?x b = _ => pose proof (kind_facts x b) as K end.
  all: unfold lvl in K.
  1-4: cbn [compare_entry]; destruct (level_of_tag (tag_of _) =? level_of_tag (tag_of b)) eqn:E; cbn [negb];
       [ destruct b as [|[]| | | |]; try discriminate K; try reflexivity; try (destruct ab; try discriminate K; reflexivity)
       | destruct K as [K1 K2]; rewrite K1, cmp_diff_ctor by exact K2; reflexivity ].
  - cbn [compare_entry]. destruct (level_of_tag (tag_of (VArr l)) =? level_of_tag (tag_of b)) eqn:E; cbn [negb].
    + destruct b as [|[]| | |l2|o2]; try discriminate K; [|reflexivity].
      rewrite cmp_arr. clear K E. revert l2. induction IH as [|x xs Hx _ IHl]; intros [|y ys]; try reflexivity.
      rewrite Hx. cbn [ok_then lex]. destruct (cmp_value x y); try reflexivity. apply IHl.
    + destruct K as [K1 K2]. rewrite K1, cmp_diff_ctor by exact K2. reflexivity.
  - cbn [compare_entry]. destruct (level_of_tag (tag_of (VObj l)) =? level_of_tag (tag_of b)) eqn:E; cbn [negb].
    + destruct b as [|[]| | |a2|l2]; try discriminate K; [reflexivity|].
      rewrite cmp_obj. clear K E. revert l2. induction IH as [|[k x] xs Hx _ IHl]; intros [|[k2 y] ys]; try reflexivity.
      cbn [snd] in Hx. cbn [lex]. unfold pair_cmp at 1. cbn [fst snd]. destruct (bytes_cmp k k2); try reflexivity.
      rewrite Hx. cbn [ok_then]. destruct (cmp_value x y); try reflexivity. apply IHl.
    + destruct K as [K1 K2]. rewrite K1, cmp_diff_ctor by exact K2. reflexivity.
Qed.

Theorem compare_m_correct a b : compare_m a b = Ok (cmp_value a b).
Proof.
  unfold compare_m. destruct (is_scalar a) eqn:Sa, (is_scalar b) eqn:Sb; try apply compare_entry_correct.
  - destruct a as [|[]| | | |], b as [|[]| | | |]; try discriminate Sa; try discriminate Sb; reflexivity.
  - destruct a as [|[]| | | |], b as [|[]| | | |]; try discriminate Sa; try discriminate Sb; reflexivity.
Qed.
