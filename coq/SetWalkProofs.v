(* SetWalkProofs.v — the offset-faithful set-function walkers (SetWalk.v: array_distinct_jsonb, array_intersection_jsonb,
   array_except_jsonb, array_overlap_jsonb) return the tree answers of SetOps.v on canonical encodings: no error, no
   panic; "same element" at byte level -- equal (JEntry, payload bytes) -- is "same element" of SetOps.v -- equal entry
   word and payload; the count map of the code represents the multiset of SetOps.v.  (C13) *)
From Coq Require Import List NArith ZArith Bool Lia.
Import ListNotations.
From JB Require Import Constants Bytes Utf8 Num NumProofs Value Codec Order OrderProofs CodecProofs RoundtripProofs TreeOps
  JsonText SetOps Dispatch DispatchProofs MiscProofs Walk WalkProofs Iter IterProofs Builder BuilderProofs CompareWalk
  CompareWalkProofs ContainWalk ContainWalkProofs SetWalk.
From JB Require Import BufSt EditStProofs.
Open Scope N_scope.
Set Default Timeout 120.

Arguments N.lor : simpl never.
Arguments N.land : simpl never.
Arguments N.add : simpl never.
Arguments N.mul : simpl never.
Arguments N.sub : simpl never.
Arguments N.ltb : simpl never.
Arguments N.leb : simpl never.
Arguments N.eqb : simpl never.
Arguments be32 : simpl never.
Arguments read_u32 : simpl never.
Arguments slice : simpl never.

(* ---------------------------------------------------------------- identity of items *)
Definition key (x : value) : ikey := (ent x, payload x).

Lemma bytes_eqb_eq a b : bytes_eqb a b = true <-> a = b.
Proof. rewrite bytes_eqb_cmp. rewrite <- bytes_cmp_eq. destruct (bytes_cmp a b); split; congruence. Qed.
Lemma ikey_eqb_eq a b : ikey_eqb a b = true <-> a = b.
Proof.
  destruct a as [[t1 l1] p1], b as [[t2 l2] p2]. unfold ikey_eqb. cbn [fst snd].
  rewrite !andb_true_iff, !N.eqb_eq, bytes_eqb_eq. split; [intros [[-> ->] ->]; reflexivity|intros E; injection E; auto].
Qed.
Lemma ikey_eqb_refl a : ikey_eqb a a = true. Proof. apply ikey_eqb_eq. reflexivity. Qed.

(* the bridge: equal (JEntry, payload) <-> identical element of SetOps.v *)
Lemma key_eq_iff x y : wf_size x = true -> wf_size y = true -> (key x = key y <-> enc_item x = enc_item y).
Proof.
  intros Hx Hy. unfold key. split; intros E.
  - injection E as E1 E2 E3.
    assert (W : word x = word y).
    { unfold word. rewrite <- (ent_word x), <- (ent_word y). unfold ent. fold (payload x) (payload y). rewrite E1, E3. reflexivity. }
    unfold word, payload in *. destruct (enc_item x), (enc_item y). cbn [fst snd] in *. subst. reflexivity.
  - assert (P : payload x = payload y) by (unfold payload; rewrite E; reflexivity).
    assert (W : word x = word y) by (unfold word; rewrite E; reflexivity).
    unfold ent. rewrite P. f_equal. f_equal. rewrite <- (word_type x Hx), <- (word_type y Hy), W. reflexivity.
Qed.
Theorem key_bridge x y : wf_size x = true -> wf_size y = true -> ikey_eqb (key x) (key y) = item_eqb x y.
Proof.
  intros Hx Hy. apply eq_true_iff_eq. rewrite ikey_eqb_eq, item_eqb_spec. apply key_eq_iff; assumption.
Qed.

Lemma existsb_map {A B} (f : B -> bool) (g : A -> B) l : existsb f (map g l) = existsb (fun x => f (g x)) l.
Proof. induction l as [|x l IH]; cbn [map existsb]; [reflexivity|]. rewrite IH. reflexivity. Qed.
Lemma existsb_ext_in {A} (p q : A -> bool) l : (forall x, In x l -> p x = q x) -> existsb p l = existsb q l.
Proof.
  induction l as [|x l IH]; intros H; cbn [existsb]; [reflexivity|].
  rewrite (H x (or_introl eq_refl)), IH; [reflexivity|]. intros y Hy. apply H. right. exact Hy.
Qed.
Lemma mem_bridge x seen : wf_size x = true -> Forall (fun v => wf_size v = true) seen ->
  iset_mem (key x) (map key seen) = existsb (item_eqb x) seen.
Proof.
  intros Hx Hs. unfold iset_mem. rewrite existsb_map. apply existsb_ext_in. intros y Hy.
  rewrite Forall_forall in Hs. apply key_bridge; [exact Hx|apply Hs; exact Hy].
Qed.

(* ---------------------------------------------------------------- the single item of a non-array document *)
Lemma top_type_not_arr a : (forall l, a <> VArr l) -> (top_type a =? ARRAY_CONTAINER_TAG) = false.
Proof. intros H. destruct a; try reflexivity. exfalso. apply (H l). reflexivity. Qed.

Lemma single_item_enc a h : wfb a = true -> (forall l, a <> VArr l) -> hdr_type h = top_type a ->
  single_item (enc a) h = Ok (key a).
Proof.
  intros W Hn Ht. unfold single_item. rewrite Ht.
  destruct (is_scalar a) eqn:Sa.
  - assert (Ca : is_container a = false) by (unfold is_container; rewrite Sa; reflexivity).
    assert (E : (top_type a =? OBJECT_CONTAINER_TAG) = false) by (destruct a; try discriminate Sa; reflexivity).
    rewrite E, (rd_some _ _ _ (rd_scalar_word a Ca (wfb_size a W))), (scalar_from8 a Ca), (decode_je_word a (wfb_size a W)).
    reflexivity.
  - destruct a as [| | | |l|o]; try discriminate Sa; [exfalso; apply (Hn l); reflexivity|].
    cbn [top_type]. rewrite N.eqb_refl. reflexivity.
Qed.

(* ---------------------------------------------------------------- array_distinct *)
Lemma distinct_fold l : Forall (fun v => wf_size v = true) l -> forall seen out, Forall (fun v => wf_size v = true) seen ->
  fold_exit (fun (st : list ikey * list entry) x =>
               if iset_mem (ent x, payload x) (fst st) then Ok (inl st)
               else Ok (inl ((ent x, payload x) :: fst st, snd st ++ [ERaw (ent x) (payload x)])))
            (fun st => Ok (snd st)) l (map key seen, out)
  = Ok (out ++ map raw_of (distinct_acc seen l)) :> res (list entry).
Proof.
  induction 1 as [|x l Hx Hl IH]; intros seen out Hs; cbn [fold_exit distinct_acc map snd]; [rewrite app_nil_r; reflexivity|].
  cbn [fst snd]. change (ent x, payload x) with (key x). rewrite (mem_bridge x seen Hx Hs).
  destruct (existsb (item_eqb x) seen); cbn [bind].
  - apply IH. exact Hs.
  - change (key x :: map key seen) with (map key (x :: seen)). rewrite (IH (x :: seen) _ (Forall_cons x Hx Hs)).
    cbn [map]. rewrite <- app_assoc. reflexivity.
Qed.

Theorem array_distinct_b_enc a buf : wfb a = true -> wf_size (array_distinct_t a) = true ->
  array_distinct_b (enc a) buf = Ok (buf ++ enc (array_distinct_t a)).
Proof.
  intros W Hr. rewrite ?array_distinct_b_eq in *. unfold array_distinct_t in *.
  destruct (doc_hdr a W) as (h & Rh & Th). rewrite Rh, Th.
  assert (Cases : (exists l, a = VArr l) \/ (forall l, a <> VArr l)) by (destruct a; try (right; intros l0 E; discriminate E); left; eexists; reflexivity).
  destruct Cases as [[l ->]|Hn].
  - cbn [top_type items_of] in *. rewrite N.eqb_refl. destruct (wf_arr l W) as [Hall Hl].
    rewrite enc_arr_nil in Rh |- *. rewrite (read_hdr_arr0 l [] Hl) in Rh. injection Rh as <-.
    rewrite (iterate_array_arr _ _ l [] _ (wfb_sizes l Hall) Hl).
    pose proof (distinct_fold l (wfb_sizes l Hall) [] [] (Forall_nil _)) as DF. cbn [map] in DF. rewrite DF. cbn [bind app].
    rewrite (build_arr_raw _ buf Hr). reflexivity.
  - rewrite (top_type_not_arr a Hn), (single_item_enc a h W Hn Th). cbn [bind].
    assert (E : items_of a = [a]) by (destruct a; try reflexivity; exfalso; apply (Hn l); reflexivity).
    rewrite E in *. cbn [distinct_acc existsb] in *. change [raw_entry (key a)] with (map raw_of [a]).
    rewrite (build_arr_raw _ buf Hr). reflexivity.
Qed.

(* ---------------------------------------------------------------- the count map represents a multiset *)
Fixpoint cnt (k : ikey) (m : list (ikey * N)) : N :=
  match m with [] => 0 | (k', c) :: r => if ikey_eqb k k' then c else cnt k r end.
Fixpoint countk (k : ikey) (ks : list ikey) : N :=
  match ks with [] => 0 | k' :: r => (if ikey_eqb k k' then 1 else 0) + countk k r end.
Definition ind (b : bool) : N := if b then 1 else 0.

Lemma ikey_eqb_subst k k1 k2 : ikey_eqb k1 k2 = true -> ikey_eqb k k1 = ikey_eqb k k2.
Proof. intros E. apply ikey_eqb_eq in E. subst. reflexivity. Qed.

Lemma cnt_incr k k' m : cnt k (imap_incr k' m) = cnt k m + ind (ikey_eqb k k').
Proof.
  induction m as [|[k0 c] r IH]; cbn [imap_incr cnt].
  - unfold ind. destruct (ikey_eqb k k'); reflexivity.
  - destruct (ikey_eqb k' k0) eqn:E; cbn [cnt].
    + rewrite (ikey_eqb_subst k k' k0 E). unfold ind. destruct (ikey_eqb k k0); lia.
    + destruct (ikey_eqb k k0) eqn:E1; [|exact IH].
      assert (E2 : ikey_eqb k k' = false).
      { destruct (ikey_eqb k k') eqn:E2; [|reflexivity]. apply ikey_eqb_eq in E2. subst k'. congruence. }
      rewrite E2. unfold ind. lia.
Qed.

Lemma ikey_neq_trans k2 k k0 : ikey_eqb k k0 = false -> ikey_eqb k2 k0 = true -> ikey_eqb k2 k = false.
Proof.
  intros E E2. destruct (ikey_eqb k2 k) eqn:E3; [|reflexivity]. apply ikey_eqb_eq in E3. subst k2. congruence.
Qed.

Lemma take_some k m : forall m', imap_take k m = Some m' -> forall k2, cnt k2 m = cnt k2 m' + ind (ikey_eqb k2 k).
Proof.
  induction m as [|[k0 c] r IH]; intros m' H k2; cbn [imap_take] in H; [discriminate H|].
  destruct (ikey_eqb k k0) eqn:E.
  - destruct (0 <? c) eqn:Ec; [|discriminate H]. injection H as <-. cbn [cnt]. apply N.ltb_lt in Ec.
    rewrite (ikey_eqb_subst k2 k k0 E). unfold ind. destruct (ikey_eqb k2 k0); lia.
  - destruct (imap_take k r) as [r'|] eqn:Er; [|discriminate H]. injection H as <-. cbn [cnt].
    destruct (ikey_eqb k2 k0) eqn:E2.
    + rewrite (ikey_neq_trans k2 k k0 E E2). unfold ind. lia.
    + apply IH. reflexivity.
Qed.
Lemma take_none k m : imap_take k m = None -> cnt k m = 0.
Proof.
  induction m as [|[k0 c] r IH]; intros H; cbn [imap_take cnt] in *; [reflexivity|].
  destruct (ikey_eqb k k0) eqn:E.
  - destruct (0 <? c) eqn:Ec; [discriminate H|]. apply N.ltb_ge in Ec. lia.
  - destruct (imap_take k r) as [r'|] eqn:Er; [discriminate H|]. apply IH. reflexivity.
Qed.

Lemma take_one_some x mt : wf_size x = true -> Forall (fun v => wf_size v = true) mt -> forall mt', take_one x mt = Some mt' ->
  Forall (fun v => wf_size v = true) mt' /\
  forall k, countk k (map key mt) = countk k (map key mt') + ind (ikey_eqb k (key x)).
Proof.
  intros Hx. induction 1 as [|y r Hy Hr IH]; intros mt' H; cbn [take_one] in H; [discriminate H|].
  rewrite <- (key_bridge x y Hx Hy) in H. destruct (ikey_eqb (key x) (key y)) eqn:E.
  - injection H as <-. split; [exact Hr|]. intros k. cbn [map countk]. rewrite (ikey_eqb_subst k _ _ E). unfold ind.
    destruct (ikey_eqb k (key y)); lia.
  - destruct (take_one x r) as [r'|] eqn:Er; [|discriminate H]. injection H as <-.
    destruct (IH r' eq_refl) as [W C]. split; [constructor; assumption|]. intros k. cbn [map countk]. rewrite (C k). lia.
Qed.
Lemma take_one_none x mt : wf_size x = true -> Forall (fun v => wf_size v = true) mt -> take_one x mt = None ->
  countk (key x) (map key mt) = 0.
Proof.
  intros Hx. induction 1 as [|y r Hy Hr IH]; intros H; cbn [take_one map countk] in *; [reflexivity|].
  rewrite <- (key_bridge x y Hx Hy) in H. destruct (ikey_eqb (key x) (key y)) eqn:E; [discriminate H|].
  destruct (take_one x r) as [r'|] eqn:Er; [discriminate H|]. rewrite (IH eq_refl). reflexivity.
Qed.

Definition Rel (m : list (ikey * N)) (mt : list value) : Prop := forall k, cnt k m = countk k (map key mt).

Lemma take_rel m mt x : wf_size x = true -> Forall (fun v => wf_size v = true) mt -> Rel m mt ->
  match imap_take (key x) m, take_one x mt with
  | Some m', Some mt' => Rel m' mt' /\ Forall (fun v => wf_size v = true) mt'
  | None, None => True
  | _, _ => False
  end.
Proof.
  intros Hx Hm R. destruct (imap_take (key x) m) as [m'|] eqn:E1; destruct (take_one x mt) as [mt'|] eqn:E2.
  - destruct (take_one_some x mt Hx Hm mt' E2) as [W C]. split; [|exact W].
    intros k. pose proof (take_some _ _ _ E1 k). pose proof (C k). pose proof (R k). lia.
  - pose proof (take_some _ _ _ E1 (key x)) as H1. rewrite ikey_eqb_refl in H1. pose proof (take_one_none x mt Hx Hm E2).
    pose proof (R (key x)). unfold ind in H1. lia.
  - pose proof (take_none _ _ E1) as H1. destruct (take_one_some x mt Hx Hm mt' E2) as [_ C]. pose proof (C (key x)) as H2.
    rewrite ikey_eqb_refl in H2. pose proof (R (key x)). unfold ind in H2. lia.
  - exact I.
Qed.

(* the loops of intersection and except over the first array *)
Lemma inter_fold l : Forall (fun v => wf_size v = true) l -> forall m mt out, Forall (fun v => wf_size v = true) mt -> Rel m mt ->
  fold_exit (fun (st : list (ikey * N) * list entry) x =>
               match imap_take (ent x, payload x) (fst st) with
               | Some m' => Ok (inl (m', snd st ++ [ERaw (ent x) (payload x)]))
               | None => Ok (inl st)
               end)
            (fun st => Ok (snd st)) l (m, out)
  = Ok (out ++ map raw_of (inter_acc l mt)) :> res (list entry).
Proof.
  induction 1 as [|x l Hx Hl IH]; intros m mt out Hm R; cbn [fold_exit inter_acc map snd]; [rewrite app_nil_r; reflexivity|].
  cbn [fst snd]. change (ent x, payload x) with (key x). pose proof (take_rel m mt x Hx Hm R) as T.
  destruct (imap_take (key x) m) as [m'|]; destruct (take_one x mt) as [mt'|]; try contradiction; cbn [bind].
  - destruct T as [R' W']. rewrite (IH m' mt' _ W' R'). cbn [map]. rewrite <- app_assoc. reflexivity.
  - apply IH; assumption.
Qed.
Lemma except_fold l : Forall (fun v => wf_size v = true) l -> forall m mt out, Forall (fun v => wf_size v = true) mt -> Rel m mt ->
  fold_exit (fun (st : list (ikey * N) * list entry) x =>
               match imap_take (ent x, payload x) (fst st) with
               | Some m' => Ok (inl (m', snd st))
               | None => Ok (inl (fst st, snd st ++ [ERaw (ent x) (payload x)]))
               end)
            (fun st => Ok (snd st)) l (m, out)
  = Ok (out ++ map raw_of (except_acc l mt)) :> res (list entry).
Proof.
  induction 1 as [|x l Hx Hl IH]; intros m mt out Hm R; cbn [fold_exit except_acc map snd]; [rewrite app_nil_r; reflexivity|].
  cbn [fst snd]. change (ent x, payload x) with (key x). pose proof (take_rel m mt x Hx Hm R) as T.
  destruct (imap_take (key x) m) as [m'|]; destruct (take_one x mt) as [mt'|]; try contradiction; cbn [bind].
  - destruct T as [R' W']. apply IH; assumption.
  - rewrite (IH m mt _ Hm R). cbn [map]. rewrite <- app_assoc. reflexivity.
Qed.

(* the count map built from the second argument *)
Lemma countk_app k a b : countk k (a ++ b) = countk k a + countk k b.
Proof. induction a as [|x a IH]; cbn [app countk]; [reflexivity|]. rewrite IH. lia. Qed.
Definition all_pos (m : list (ikey * N)) : Prop := Forall (fun kc => 0 < snd kc) m.
Lemma incr_pos k m : all_pos m -> all_pos (imap_incr k m).
Proof.
  unfold all_pos. induction 1 as [|[k0 c] r H0 Hr IH]; cbn [imap_incr]; [repeat constructor|].
  destruct (ikey_eqb k k0); constructor; cbn [snd] in *; try assumption. lia.
Qed.
Lemma count_fold l : forall m done, Rel m done -> all_pos m ->
  exists m', fold_exit (fun (m : list (ikey * N)) x => Ok (inl (imap_incr (ent x, payload x) m))) (fun m => Ok m) l m = Ok m'
             /\ Rel m' (done ++ l) /\ all_pos m'.
Proof.
  induction l as [|x l IH]; intros m done R P; cbn [fold_exit bind].
  - exists m. rewrite app_nil_r. auto.
  - destruct (IH (imap_incr (ent x, payload x) m) (done ++ [x])) as (m' & E & R' & P').
    + intros k. rewrite cnt_incr, map_app, countk_app, (R k). cbn [map countk]. unfold ind, key.
      destruct (ikey_eqb k (ent x, payload x)); lia.
    + apply incr_pos. exact P.
    + exists m'. rewrite <- app_assoc in R'. auto.
Qed.
Lemma has_pos k m : all_pos m -> imap_has k m = (0 <? cnt k m).
Proof.
  unfold all_pos, imap_has. induction 1 as [|[k0 c] r H0 Hr IH]; cbn [existsb cnt fst]; [reflexivity|].
  destruct (ikey_eqb k k0); cbn [orb]; [|exact IH]. cbn [snd] in H0. symmetry. apply N.ltb_lt. exact H0.
Qed.

(* ---------------------------------------------------------------- the two arguments *)
Lemma arr_or_not (a : value) : (exists l, a = VArr l) \/ (forall l, a <> VArr l).
Proof. destruct a; try (right; intros l0 E; discriminate E). left. eexists. reflexivity. Qed.
Lemma items_single a : (forall l, a <> VArr l) -> items_of a = [a].
Proof. intros Hn. destruct a; try reflexivity. exfalso. apply (Hn l). reflexivity. Qed.
Lemma items_wf b : wfb b = true -> Forall (fun v => wf_size v = true) (items_of b).
Proof.
  intros W. destruct (arr_or_not b) as [[l ->]|Hn].
  - cbn [items_of]. apply wfb_sizes. apply (wf_arr l W).
  - rewrite (items_single b Hn). repeat constructor. apply wfb_size. exact W.
Qed.
Lemma arr_hdr_read l h : lenN l < 536870912 -> read_u32 (enc (VArr l)) 0 = Some h -> h = arr_hdr l.
Proof. intros Hl R. rewrite enc_arr_nil, (read_hdr_arr0 l [] Hl) in R. congruence. Qed.

Lemma count_items_enc b h : wfb b = true -> read_u32 (enc b) 0 = Some h -> hdr_type h = top_type b ->
  exists m, count_items (enc b) h = Ok m /\ Rel m (items_of b) /\ all_pos m.
Proof.
  intros W Rh Th. unfold count_items. rewrite Th. destruct (arr_or_not b) as [[l ->]|Hn].
  - cbn [top_type items_of]. rewrite N.eqb_refl. destruct (wf_arr l W) as [Hall Hl].
    rewrite (arr_hdr_read l h Hl Rh), enc_arr_nil, (iterate_array_arr _ _ l [] _ (wfb_sizes l Hall) Hl).
    destruct (count_fold l [] []) as (m & E & R & P); [intros k; reflexivity|constructor|].
    exists m. cbn [app] in R. auto.
  - rewrite (top_type_not_arr b Hn), (single_item_enc b h W Hn Th), (items_single b Hn). cbn [bind].
    exists [(key b, 1)]. split; [reflexivity|]. split.
    + intros k. cbn [cnt map countk]. destruct (ikey_eqb k (key b)); reflexivity.
    + repeat constructor.
Qed.

Lemma has_take a m mt : wf_size a = true -> Forall (fun v => wf_size v = true) mt -> Rel m mt -> all_pos m ->
  imap_has (key a) m = match take_one a mt with Some _ => true | None => false end.
Proof.
  intros Ha Hm R P. rewrite (has_pos _ _ P), (R (key a)). destruct (take_one a mt) as [mt'|] eqn:E.
  - destruct (take_one_some a mt Ha Hm mt' E) as [_ C]. rewrite (C (key a)), ikey_eqb_refl. apply N.ltb_lt. unfold ind. lia.
  - rewrite (take_one_none a mt Ha Hm E). reflexivity.
Qed.

(* ---------------------------------------------------------------- array_intersection / array_except *)
Theorem array_intersection_b_enc a b buf : wfb a = true -> wfb b = true -> wf_size (array_intersection_t a b) = true ->
  array_intersection_b (enc a) (enc b) buf = Ok (buf ++ enc (array_intersection_t a b)).
Proof.
  intros Wa Wb Hr. rewrite ?array_intersection_b_eq in *. unfold array_intersection_t in *.
  destruct (doc_hdr a Wa) as (h1 & R1 & T1). destruct (doc_hdr b Wb) as (h2 & R2 & T2). rewrite R1, R2.
  destruct (count_items_enc b h2 Wb R2 T2) as (m & Em & Rm & Pm). rewrite Em. cbn [bind]. rewrite T1.
  pose proof (items_wf b Wb) as Wm.
  destruct (arr_or_not a) as [[l ->]|Hn].
  - cbn [top_type items_of] in *. rewrite N.eqb_refl. destruct (wf_arr l Wa) as [Hall Hl].
    rewrite (arr_hdr_read l h1 Hl R1), enc_arr_nil, (iterate_array_arr _ _ l [] _ (wfb_sizes l Hall) Hl).
    rewrite (inter_fold l (wfb_sizes l Hall) m (items_of b) [] Wm Rm). cbn [bind app].
    rewrite (build_arr_raw _ buf Hr). reflexivity.
  - rewrite (top_type_not_arr a Hn), (single_item_enc a h1 Wa Hn T1). cbn [bind].
    rewrite (items_single a Hn) in *. cbn [inter_acc] in *.
    rewrite (has_take a m (items_of b) (wfb_size a Wa) Wm Rm Pm).
    destruct (take_one a (items_of b)).
    + change [raw_entry (key a)] with (map raw_of [a]). rewrite (build_arr_raw _ buf Hr). reflexivity.
    + change (@nil entry) with (map raw_of []). rewrite (build_arr_raw _ buf Hr). reflexivity.
Qed.

Theorem array_except_b_enc a b buf : wfb a = true -> wfb b = true -> wf_size (array_except_t a b) = true ->
  array_except_b (enc a) (enc b) buf = Ok (buf ++ enc (array_except_t a b)).
Proof.
  intros Wa Wb Hr. rewrite ?array_except_b_eq in *. unfold array_except_t in *.
  destruct (doc_hdr a Wa) as (h1 & R1 & T1). destruct (doc_hdr b Wb) as (h2 & R2 & T2). rewrite R1, R2.
  destruct (count_items_enc b h2 Wb R2 T2) as (m & Em & Rm & Pm). rewrite Em. cbn [bind]. rewrite T1.
  pose proof (items_wf b Wb) as Wm.
  destruct (arr_or_not a) as [[l ->]|Hn].
  - cbn [top_type items_of] in *. rewrite N.eqb_refl. destruct (wf_arr l Wa) as [Hall Hl].
    rewrite (arr_hdr_read l h1 Hl R1), enc_arr_nil, (iterate_array_arr _ _ l [] _ (wfb_sizes l Hall) Hl).
    rewrite (except_fold l (wfb_sizes l Hall) m (items_of b) [] Wm Rm). cbn [bind app].
    rewrite (build_arr_raw _ buf Hr). reflexivity.
  - rewrite (top_type_not_arr a Hn), (single_item_enc a h1 Wa Hn T1). cbn [bind].
    rewrite (items_single a Hn) in *. cbn [except_acc] in *.
    rewrite (has_take a m (items_of b) (wfb_size a Wa) Wm Rm Pm).
    destruct (take_one a (items_of b)).
    + change (@nil entry) with (map raw_of []). rewrite (build_arr_raw _ buf Hr). reflexivity.
    + change [raw_entry (key a)] with (map raw_of [a]). rewrite (build_arr_raw _ buf Hr). reflexivity.
Qed.

(* ---------------------------------------------------------------- array_overlap *)
Lemma mem_add k2 k s : iset_mem k2 (iset_add k s) = iset_mem k2 s || ikey_eqb k2 k.
Proof.
  unfold iset_add. destruct (iset_mem k s) eqn:E.
  - destruct (ikey_eqb k2 k) eqn:E2; [|rewrite orb_false_r; reflexivity].
    apply ikey_eqb_eq in E2. subst k2. rewrite E. reflexivity.
  - unfold iset_mem. cbn [existsb]. apply orb_comm.
Qed.
Lemma set_fold l : forall s,
  exists s', fold_exit (fun (s : list ikey) x => Ok (inl (iset_add (ent x, payload x) s))) (fun s => Ok s) l s = Ok s'
             /\ forall k, iset_mem k s' = iset_mem k s || existsb (ikey_eqb k) (map key l).
Proof.
  induction l as [|x l IH]; intros s; cbn [fold_exit bind map existsb].
  - exists s. split; [reflexivity|]. intros k. rewrite orb_false_r. reflexivity.
  - destruct (IH (iset_add (ent x, payload x) s)) as (s' & E & M). exists s'. split; [exact E|].
    intros k. rewrite (M k), mem_add, <- orb_assoc. reflexivity.
Qed.

Theorem array_overlap_b_enc a b : wfb a = true -> wfb b = true ->
  array_overlap_b (enc a) (enc b) = Ok (array_overlap_t a b).
Proof.
  intros Wa Wb. unfold array_overlap_b, array_overlap_t.
  destruct (doc_hdr a Wa) as (h1 & R1 & T1). destruct (doc_hdr b Wb) as (h2 & R2 & T2). rewrite R1, R2, T1, T2.
  pose proof (items_wf b Wb) as Wm.
  assert (S : exists s, (if top_type b =? ARRAY_CONTAINER_TAG
                         then iterate_array (enc b) h2 (fun (s : list ikey) j p => Ok (inl (iset_add (j, p) s))) (fun s => Ok s) []
                         else do k <- single_item (enc b) h2; Ok [k]) = Ok s
                        /\ forall k, iset_mem k s = existsb (ikey_eqb k) (map key (items_of b))).
  { destruct (arr_or_not b) as [[l ->]|Hn].
    - cbn [top_type items_of]. rewrite N.eqb_refl. destruct (wf_arr l Wb) as [Hall Hl].
      rewrite (arr_hdr_read l h2 Hl R2), enc_arr_nil, (iterate_array_arr _ _ l [] _ (wfb_sizes l Hall) Hl).
      destruct (set_fold l []) as (s & E & M). exists s. split; [exact E|]. intros k. rewrite (M k). reflexivity.
    - rewrite (top_type_not_arr b Hn), (single_item_enc b h2 Wb Hn T2), (items_single b Hn). cbn [bind].
      exists [key b]. split; reflexivity. }
  destruct S as (s & Es & Ms). rewrite Es. cbn [bind].
  destruct (arr_or_not a) as [[l ->]|Hn].
  - cbn [top_type items_of]. rewrite N.eqb_refl. destruct (wf_arr l Wa) as [Hall Hl].
    rewrite (arr_hdr_read l h1 Hl R1), enc_arr_nil, (iterate_array_arr _ _ l [] _ (wfb_sizes l Hall) Hl).
    rewrite <- (fold_exit_any (fun x => existsb (item_eqb x) (items_of b)) l). apply fold_exit_ext.
    intros st x Hin. change (ent x, payload x) with (key x). rewrite (Ms (key x)).
    pose proof (wfb_sizes l Hall) as Hs. rewrite Forall_forall in Hs.
    pose proof (mem_bridge x (items_of b) (Hs x Hin) Wm) as MB. unfold iset_mem in MB. rewrite MB. reflexivity.
  - rewrite (top_type_not_arr a Hn), (single_item_enc a h1 Wa Hn T1), (items_single a Hn). cbn [bind existsb].
    rewrite (Ms (key a)), orb_false_r.
    pose proof (mem_bridge a (items_of b) (wfb_size a Wa) Wm) as MB. unfold iset_mem in MB. rewrite MB. reflexivity.
Qed.

(* ---------------------------------------------------------------- the results are well-formed arrays *)
(* every result keeps a sub-sequence of the first argument's items; a sub-sequence of a well-formed array is one *)
Inductive subseq {A} : list A -> list A -> Prop :=
| sub_nil : subseq [] []
| sub_keep x l' l : subseq l' l -> subseq (x :: l') (x :: l)
| sub_skip x l' l : subseq l' l -> subseq l' (x :: l).

Lemma distinct_sub l : forall seen, subseq (distinct_acc seen l) l.
Proof.
  induction l as [|x l IH]; intros seen; cbn [distinct_acc]; [constructor|].
  destruct (existsb (item_eqb x) seen); constructor; apply IH.
Qed.
Lemma inter_sub l : forall m, subseq (inter_acc l m) l.
Proof.
  induction l as [|x l IH]; intros m; cbn [inter_acc]; [constructor|].
  destruct (take_one x m); constructor; apply IH.
Qed.
Lemma except_sub l : forall m, subseq (except_acc l m) l.
Proof.
  induction l as [|x l IH]; intros m; cbn [except_acc]; [constructor|].
  destruct (take_one x m); constructor; apply IH.
Qed.
Lemma subseq_bounds (l' l : list value) : subseq l' l ->
  lenN l' <= lenN l /\ sum_len l' <= sum_len l /\ (forallb wf_size l = true -> forallb wf_size l' = true).
Proof.
  induction 1 as [|x l' l S IH|x l' l S IH]; rewrite ?lenN_cons; cbn [sum_len fold_right forallb].
  - repeat split; auto; lia.
  - destruct IH as (I1 & I2 & I3). fold (sum_len l') (sum_len l). repeat split; try lia.
    intros H. apply andb_true_iff in H. destruct H as [H1 H2]. rewrite H1, (I3 H2). reflexivity.
  - destruct IH as (I1 & I2 & I3). fold (sum_len l). repeat split; try lia.
    intros H. apply andb_true_iff in H. destruct H as [H1 H2]. apply (I3 H2).
Qed.
Lemma arr_payload_len l : lenN (payload (VArr l)) = 4 + 4 * lenN l + sum_len l.
Proof. rewrite payload_arr, !lenN_app, lenN_be32, len_flat_words, lenN_map, len_flat_payload. lia. Qed.
Lemma subseq_wf l' l : subseq l' l -> wf_size (VArr l) = true -> wf_size (VArr l') = true.
Proof.
  intros S H. destruct (subseq_bounds l' l S) as (B1 & B2 & B3).
  cbn [wf_size] in *. apply andb_true_iff in H. destruct H as [H H3]. apply andb_true_iff in H. destruct H as [H1 H2].
  apply N.ltb_lt in H1, H2. fold (payload (VArr l)) in H2. rewrite arr_payload_len in H2.
  rewrite (B3 H3), andb_true_r. apply andb_true_iff. split; apply N.ltb_lt; [lia|].
  fold (payload (VArr l')). rewrite arr_payload_len. lia.
Qed.

Lemma distinct_wf l : wfb (VArr l) = true -> wf_size (array_distinct_t (VArr l)) = true.
Proof. intros W. apply (subseq_wf _ l (distinct_sub l [])). apply wfb_size. exact W. Qed.
Lemma inter_wf l b : wfb (VArr l) = true -> wf_size (array_intersection_t (VArr l) b) = true.
Proof. intros W. apply (subseq_wf _ l (inter_sub l _)). apply wfb_size. exact W. Qed.
Lemma except_wf l b : wfb (VArr l) = true -> wf_size (array_except_t (VArr l) b) = true.
Proof. intros W. apply (subseq_wf _ l (except_sub l _)). apply wfb_size. exact W. Qed.

(* ---------------------------------------------------------------- the public functions on encodings *)
Lemma as_jsonb_enc a : wfb a = true -> top_ok a -> as_jsonb (enc a) = Ok (enc a).
Proof. intros W T. unfold as_jsonb. rewrite (is_jsonb_enc a W T). reflexivity. Qed.

Theorem array_distinct_w_enc a buf : wfb a = true -> top_ok a -> wf_size (array_distinct_t a) = true ->
  array_distinct_w (enc a) buf = Ok (buf ++ enc (array_distinct_t a)).
Proof. intros W T Hr. rewrite ?array_distinct_w_eq. rewrite (as_jsonb_enc a W T). cbn [bind]. apply array_distinct_b_enc; assumption. Qed.
Theorem array_intersection_w_enc a b buf : wfb a = true -> top_ok a -> wfb b = true -> top_ok b ->
  wf_size (array_intersection_t a b) = true ->
  array_intersection_w (enc a) (enc b) buf = Ok (buf ++ enc (array_intersection_t a b)).
Proof.
  intros Wa Ta Wb Tb Hr. rewrite ?array_intersection_w_eq. rewrite (as_jsonb_enc a Wa Ta), (as_jsonb_enc b Wb Tb). cbn [bind].
  apply array_intersection_b_enc; assumption.
Qed.
Theorem array_except_w_enc a b buf : wfb a = true -> top_ok a -> wfb b = true -> top_ok b ->
  wf_size (array_except_t a b) = true ->
  array_except_w (enc a) (enc b) buf = Ok (buf ++ enc (array_except_t a b)).
Proof.
  intros Wa Ta Wb Tb Hr. rewrite ?array_except_w_eq. rewrite (as_jsonb_enc a Wa Ta), (as_jsonb_enc b Wb Tb). cbn [bind].
  apply array_except_b_enc; assumption.
Qed.
Theorem array_overlap_w_enc a b : wfb a = true -> top_ok a -> wfb b = true -> top_ok b ->
  array_overlap_w (enc a) (enc b) = Ok (array_overlap_t a b).
Proof.
  intros Wa Ta Wb Tb. unfold array_overlap_w. rewrite (as_jsonb_enc a Wa Ta), (as_jsonb_enc b Wb Tb). cbn [bind].
  apply array_overlap_b_enc; assumption.
Qed.

(* when the first argument is an array no size hypothesis is needed: the result is a sub-multiset of it *)
Corollary array_distinct_w_arr l buf : wfb (VArr l) = true -> top_ok (VArr l) ->
  array_distinct_w (enc (VArr l)) buf = Ok (buf ++ enc (array_distinct_t (VArr l))).
Proof. intros W T. apply array_distinct_w_enc; [exact W|exact T|apply distinct_wf; exact W]. Qed.
Corollary array_intersection_w_arr l b buf : wfb (VArr l) = true -> top_ok (VArr l) -> wfb b = true -> top_ok b ->
  array_intersection_w (enc (VArr l)) (enc b) buf = Ok (buf ++ enc (array_intersection_t (VArr l) b)).
Proof. intros W T Wb Tb. apply array_intersection_w_enc; try assumption. apply inter_wf; exact W. Qed.
Corollary array_except_w_arr l b buf : wfb (VArr l) = true -> top_ok (VArr l) -> wfb b = true -> top_ok b ->
  array_except_w (enc (VArr l)) (enc b) buf = Ok (buf ++ enc (array_except_t (VArr l) b)).
Proof. intros W T Wb Tb. apply array_except_w_enc; try assumption. apply except_wf; exact W. Qed.

(* ---------------------------------------------------------------- what "identical" means for documents *)
(* two well-formed values have the same entry word and payload exactly when they are the same JSON value up to the
   representation change of a decode (Int64 0 / UInt64 0, NaN payloads): decoded documents are compared as they are *)
Theorem item_identity x y : wfb x = true -> wfb y = true -> (item_eqb x y = true <-> normalise x = normalise y).
Proof.
  intros Wx Wy. rewrite item_eqb_spec. split; intros E.
  - pose proof (decode_entry x Wx (2 * depth x + 2 * depth y) ltac:(lia) []) as Dx.
    pose proof (decode_entry y Wy (2 * depth x + 2 * depth y) ltac:(lia) []) as Dy.
    unfold word, payload in Dx, Dy. rewrite E in Dx. rewrite Dx in Dy. congruence.
  - rewrite <- (enc_item_normalise x), <- (enc_item_normalise y), E. reflexivity.
Qed.
Corollary key_identity x y : wfb x = true -> wfb y = true -> (key x = key y <-> normalise x = normalise y).
Proof.
  intros Wx Wy. rewrite <- (item_identity x y Wx Wy), <- ikey_eqb_eq, (key_bridge x y (wfb_size x Wx) (wfb_size y Wy)). reflexivity.
Qed.

(* ---------------------------------------------------------------- all argument forms *)
(* an argument stands for the value v either as its encoding or as a JSON text that parses to it; the code re-encodes
   the text first, so the four functions give the same answer for every combination of forms *)
Definition stands_for (t : list N) (v : value) : Prop :=
  (t = enc v /\ top_ok v) \/ (is_jsonb t = false /\ JsonText.parse_value t = Ok v).
Lemma as_jsonb_stands t v : wfb v = true -> stands_for t v -> as_jsonb t = Ok (enc v).
Proof.
  intros W [[-> T]|[Ht Hp]]; [apply as_jsonb_enc; assumption|].
  unfold as_jsonb. rewrite Ht, Hp. cbn [bind]. rewrite (to_vec_is_layout v (wfb_size v W)). reflexivity.
Qed.
Theorem array_distinct_w_forms t a buf : wfb a = true -> stands_for t a -> wf_size (array_distinct_t a) = true ->
  array_distinct_w t buf = Ok (buf ++ enc (array_distinct_t a)).
Proof. intros W S Hr. rewrite ?array_distinct_w_eq. rewrite (as_jsonb_stands t a W S). cbn [bind]. apply array_distinct_b_enc; assumption. Qed.
Theorem array_intersection_w_forms t u a b buf : wfb a = true -> wfb b = true -> stands_for t a -> stands_for u b ->
  wf_size (array_intersection_t a b) = true ->
  array_intersection_w t u buf = Ok (buf ++ enc (array_intersection_t a b)).
Proof.
  intros Wa Wb Sa Sb Hr. rewrite ?array_intersection_w_eq. rewrite (as_jsonb_stands t a Wa Sa), (as_jsonb_stands u b Wb Sb). cbn [bind].
  apply array_intersection_b_enc; assumption.
Qed.
Theorem array_except_w_forms t u a b buf : wfb a = true -> wfb b = true -> stands_for t a -> stands_for u b ->
  wf_size (array_except_t a b) = true ->
  array_except_w t u buf = Ok (buf ++ enc (array_except_t a b)).
Proof.
  intros Wa Wb Sa Sb Hr. rewrite ?array_except_w_eq. rewrite (as_jsonb_stands t a Wa Sa), (as_jsonb_stands u b Wb Sb). cbn [bind].
  apply array_except_b_enc; assumption.
Qed.
Theorem array_overlap_w_forms t u a b : wfb a = true -> wfb b = true -> stands_for t a -> stands_for u b ->
  array_overlap_w t u = Ok (array_overlap_t a b).
Proof.
  intros Wa Wb Sa Sb. unfold array_overlap_w. rewrite (as_jsonb_stands t a Wa Sa), (as_jsonb_stands u b Wb Sb). cbn [bind].
  apply array_overlap_b_enc; assumption.
Qed.

(* ---------------------------------------------------------------- the iterator fuel is enough on every buffer *)
Lemma single_item_nf bs h : nf (single_item bs h).
Proof.
  unfold single_item. destruct (hdr_type h =? OBJECT_CONTAINER_TAG); [apply nf_ok|].
  destruct (read_u32 bs 4); [|apply nf_other]. destruct (slice_from bs 8); [apply nf_ok|apply nf_panic].
Qed.
Lemma count_items_nf bs h : nf (count_items bs h).
Proof.
  unfold count_items. destruct (hdr_type h =? ARRAY_CONTAINER_TAG).
  - apply iterate_array_nf; intros; apply nf_ok.
  - apply nf_bind; [apply single_item_nf|intros; apply nf_ok].
Qed.
Theorem set_walkers_fuel bs1 bs2 buf :
  array_distinct_b bs1 buf <> Err EFuel /\ array_intersection_b bs1 bs2 buf <> Err EFuel /\
  array_except_b bs1 bs2 buf <> Err EFuel /\ array_overlap_b bs1 bs2 <> Err EFuel.
Proof.
  repeat split.
  - rewrite ?array_distinct_b_eq. destruct (read_u32 bs1 0) as [h|]; [|apply nf_other].
    apply nf_bind; [|intros; apply nf_ok]. destruct (hdr_type h =? ARRAY_CONTAINER_TAG).
    + apply iterate_array_nf; [intros; apply nf_ok|]. intros s j p _. destruct (iset_mem (j, p) (fst s)); apply nf_ok.
    + apply nf_bind; [apply single_item_nf|intros; apply nf_ok].
  - rewrite ?array_intersection_b_eq. destruct (read_u32 bs1 0) as [h1|]; [|apply nf_other]. destruct (read_u32 bs2 0) as [h2|]; [|apply nf_other].
    apply nf_bind; [apply count_items_nf|]. intros m _. apply nf_bind; [|intros; apply nf_ok].
    destruct (hdr_type h1 =? ARRAY_CONTAINER_TAG).
    + apply iterate_array_nf; [intros; apply nf_ok|]. intros s j p _. destruct (imap_take (j, p) (fst s)); apply nf_ok.
    + apply nf_bind; [apply single_item_nf|intros; apply nf_ok].
  - rewrite ?array_except_b_eq. destruct (read_u32 bs1 0) as [h1|]; [|apply nf_other]. destruct (read_u32 bs2 0) as [h2|]; [|apply nf_other].
    apply nf_bind; [apply count_items_nf|]. intros m _. apply nf_bind; [|intros; apply nf_ok].
    destruct (hdr_type h1 =? ARRAY_CONTAINER_TAG).
    + apply iterate_array_nf; [intros; apply nf_ok|]. intros s j p _. destruct (imap_take (j, p) (fst s)); apply nf_ok.
    + apply nf_bind; [apply single_item_nf|intros; apply nf_ok].
  - unfold array_overlap_b. destruct (read_u32 bs1 0) as [h1|]; [|apply nf_other]. destruct (read_u32 bs2 0) as [h2|]; [|apply nf_other].
    apply nf_bind.
    + destruct (hdr_type h2 =? ARRAY_CONTAINER_TAG); [apply iterate_array_nf; intros; apply nf_ok|].
      apply nf_bind; [apply single_item_nf|intros; apply nf_ok].
    + intros s _. destruct (hdr_type h1 =? ARRAY_CONTAINER_TAG).
      * apply iterate_array_nf; [intros; apply nf_ok|]. intros st j p _. destruct (iset_mem (j, p) s); apply nf_ok.
      * apply nf_bind; [apply single_item_nf|intros; apply nf_ok].
Qed.
