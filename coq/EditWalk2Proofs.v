(* EditWalk2Proofs.v — the byte editors of EditWalk2.v on canonical encodings: for every well-formed input and ANY
   prefix `buf` the walker returns `buf ++ enc (tree result)` (errors: the same error, nothing appended).  (C06, C17) *)
From Coq Require Import List NArith ZArith Bool Lia.
Import ListNotations.
From JB Require Import Constants Bytes Utf8 Num Value Codec Order OrderProofs CodecProofs RoundtripProofs TreeOps JsonText Dispatch
  DispatchProofs TreeWf TreeWf2 Walk WalkProofs Iter IterProofs Builder BuilderProofs EditWalk2.
From JB Require I32.
From JB Require Import BufSt EditStProofs.
Open Scope N_scope.
Set Default Timeout 120.

Arguments N.lor : simpl never.
Arguments N.land : simpl never.
Arguments N.add : simpl never.
Arguments N.mul : simpl never.
Arguments N.ltb : simpl never.
Arguments N.leb : simpl never.
Arguments N.eqb : simpl never.
Arguments be32 : simpl never.
Arguments u32 : simpl never.
Arguments read_u32 : simpl never.
Arguments slice : simpl never.

(* ================================================================ sizes *)
Lemma plen_arr l : lenN (payload (VArr l)) = 4 + 4 * lenN l + sum_len l.
Proof. rewrite payload_arr, !lenN_app, lenN_be32, len_flat_words, lenN_map, len_flat_payload. lia. Qed.
Lemma plen_obj o : lenN (payload (VObj o)) = 4 + 8 * lenN o + sum_keys o + sum_len (vals o).
Proof.
  rewrite payload_obj, !lenN_app, lenN_be32, len_flat_words, lenN_app, len_kws, len_vws, len_keys_bytes, len_flat_payload. lia.
Qed.

Lemma wf_size_arr_iff l : wf_size (VArr l) = true <->
  lenN l < 536870912 /\ lenN (payload (VArr l)) < 268435456 /\ Forall (fun v => wf_size v = true) l.
Proof.
  cbn [wf_size]. fold (payload (VArr l)). rewrite !andb_true_iff, !N.ltb_lt, forallb_forall, Forall_forall. tauto.
Qed.
Definition mem_size (kv : list N * value) : Prop := lenN (fst kv) < 268435456 /\ wf_size (snd kv) = true.
Lemma wf_size_obj_iff o : wf_size (VObj o) = true <->
  lenN o < 536870912 /\ lenN (payload (VObj o)) < 268435456 /\ Forall mem_size o.
Proof.
  cbn [wf_size]. fold (payload (VObj o)). rewrite !andb_true_iff, !N.ltb_lt, forallb_forall, Forall_forall.
  unfold mem_size. split.
  - intros [[A B] C]. repeat split; auto; specialize (C x H); apply andb_true_iff in C; destruct C as [C1 C2]; [apply N.ltb_lt|]; assumption.
  - intros (A & B & C). repeat split; auto. intros x Hx. destruct (C x Hx) as [C1 C2]. apply andb_true_iff. split; [apply N.ltb_lt|]; assumption.
Qed.

Lemma lenN_filter_le {A} (f : A -> bool) l : lenN (filter f l) <= lenN l.
Proof. unfold lenN. induction l as [|x l IH]; cbn [filter length]; [lia|]. destruct (f x); cbn [length]; lia. Qed.
Lemma sum_keys_filter_le f o : sum_keys (filter f o) <= sum_keys o.
Proof.
  induction o as [|kv o IH]; cbn [filter sum_keys fold_right]; [lia|].
  fold (sum_keys o). destruct (f kv); cbn [sum_keys fold_right]; fold (sum_keys (filter f o)); lia.
Qed.
Lemma sum_vals_filter_le f o : sum_len (vals (filter f o)) <= sum_len (vals o).
Proof.
  induction o as [|kv o IH]; cbn [filter vals map sum_len fold_right]; [lia|].
  fold (vals o). fold (sum_len (vals o)). destruct (f kv); cbn [vals map sum_len fold_right]; fold (vals (filter f o)); fold (sum_len (vals (filter f o))); lia.
Qed.
Lemma wf_size_filter f o : wf_size (VObj o) = true -> wf_size (VObj (filter f o)) = true.
Proof.
  rewrite !wf_size_obj_iff, !plen_obj. intros (A & B & C).
  pose proof (lenN_filter_le f o). pose proof (sum_keys_filter_le f o). pose proof (sum_vals_filter_le f o).
  repeat split; [lia|lia|]. rewrite Forall_forall in *. intros x Hx. apply filter_In in Hx. apply C, Hx.
Qed.

(* ================================================================ pushing members in key order *)
Definition keys_below {V} (k : list N) (b : list (list N * V)) : Prop := Forall (fun kv => bytes_cmp k (fst kv) = Gt) b.
Lemma push_last (b : list (list N * entry)) k e : keys_below k b -> obj_push b k e = b ++ [(k, e)].
Proof. apply assoc_insert_append. Qed.

Lemma ss_app_mid {V} (a : list (list N * V)) k x b : strongly_sorted (a ++ (k, x) :: b) -> keys_below k a.
Proof.
  induction a as [|[k' x'] a IH]; cbn [app strongly_sorted]; intros H; [constructor|].
  destruct H as [H1 H2]. constructor; [|apply IH; exact H2].
  rewrite Forall_app in H1. destruct H1 as [_ H1]. inversion H1 as [|? ? Hk _]; subst. cbn [fst] in *.
  rewrite bytes_antisym, Hk. reflexivity.
Qed.
Lemma ss_app_r {V} (a b : list (list N * V)) : strongly_sorted (a ++ b) -> strongly_sorted b.
Proof. induction a as [|[k' x'] a IH]; cbn [app strongly_sorted]; [auto|]. intros [_ H]. apply IH. exact H. Qed.
Lemma keys_below_sub {V W} k (a : list (list N * V)) (g : list N * V -> W) f :
  keys_below k a -> keys_below k (map (fun kv => (fst kv, g kv)) (filter f a)).
Proof.
  unfold keys_below. intros H. rewrite Forall_map. rewrite Forall_forall in *. intros x Hx. apply filter_In in Hx. cbn [fst]. apply H, Hx.
Qed.
Lemma obj_sorted o : wfb (VObj o) = true -> strongly_sorted o.
Proof. intros H. destruct (wf_obj o H) as (_ & _ & S). apply keys_sorted_strong. exact S. Qed.

(* ================================================================ headers of encodings *)
Lemma enc_arr l : enc (VArr l) = payload (VArr l). Proof. reflexivity. Qed.
Lemma enc_obj o : enc (VObj o) = payload (VObj o). Proof. reflexivity. Qed.
Lemma read_hdr_arr0 l B : lenN l < 536870912 -> read_u32 (payload (VArr l) ++ B) 0 = Some (arr_hdr l).
Proof. intros H. apply (read_hdr_arr [] l B H). Qed.
Lemma read_hdr_obj0 o B : lenN o < 536870912 -> read_u32 (payload (VObj o) ++ B) 0 = Some (obj_hdr o).
Proof. intros H. apply (read_hdr_obj [] o B H). Qed.
Lemma enc_scalar x : is_scalar x = true -> enc x = be32 SCALAR_CONTAINER_TAG ++ be32 (word x) ++ payload x.
Proof. destruct x; try discriminate; reflexivity. Qed.
Lemma read_hdr_scalar x : is_scalar x = true -> read_u32 (enc x) 0 = Some SCALAR_CONTAINER_TAG.
Proof.
  intros H. rewrite (enc_scalar x H). apply (read_u32_mid [] SCALAR_CONTAINER_TAG). vm_compute. reflexivity.
Qed.
Lemma scalar_hdr_type : hdr_type SCALAR_CONTAINER_TAG =? OBJECT_CONTAINER_TAG = false /\ hdr_type SCALAR_CONTAINER_TAG =? ARRAY_CONTAINER_TAG = false.
Proof. split; vm_compute; reflexivity. Qed.
Lemma arr_type_not_obj : ARRAY_CONTAINER_TAG =? OBJECT_CONTAINER_TAG = false. Proof. reflexivity. Qed.
Lemma obj_type_not_arr : OBJECT_CONTAINER_TAG =? ARRAY_CONTAINER_TAG = false. Proof. reflexivity. Qed.

(* ================================================================ object_delete / object_pick *)
Definition filter_step (keep : list N -> bool) (b : list (list N * entry)) (key : list N) (j : je) (item : list N)
  : res (list (list N * entry) + list (list N * entry)) :=
  if keep key then Ok (inl (obj_push b key (ERaw j item))) else Ok (inl b).

Lemma filter_fold keep o : strongly_sorted o -> forall todo done, o = done ++ todo ->
  fold_exit (fun b kv => filter_step keep b (fst kv) (ent (snd kv)) (payload (snd kv))) (fun b => Ok b) todo
            (raw_members (filter (fun kv => keep (fst kv)) done))
  = Ok (raw_members (filter (fun kv => keep (fst kv)) o)).
Proof.
  intros So. induction todo as [|[k x] todo IH]; intros done Eo; cbn [fold_exit].
  - rewrite app_nil_r in Eo. subst. reflexivity.
  - cbn [fst snd]. unfold filter_step.
    assert (Eo' : o = (done ++ [(k, x)]) ++ todo) by (rewrite <- app_assoc; exact Eo).
    specialize (IH _ Eo'). rewrite filter_app in IH. cbn [filter fst] in IH.
    destruct (keep k); cbn [bind].
    + fold (raw_of x). unfold raw_members at 1. rewrite push_last.
      2:{ apply (keys_below_sub k done (fun kv => raw_of (snd kv))). rewrite Eo in So. apply (ss_app_mid _ _ _ _ So). }
      rewrite <- IH. f_equal. unfold raw_members. rewrite map_app. reflexivity.
    + rewrite app_nil_r in IH. exact IH.
Qed.

Lemma object_filter_obj keep o buf : wfb (VObj o) = true ->
  object_filter_b keep (enc (VObj o)) buf = Ok (buf ++ enc (VObj (filter (fun kv => keep (fst kv)) o))).
Proof.
  intros Hw. destruct (obj_ok_of_wf o Hw) as [Ho Hn]. destruct (obj_hdr_facts o Hn) as (_ & HT & _).
  rewrite ?object_filter_b_eq. rewrite enc_obj.
  rewrite <- (app_nil_r (payload (VObj o))). rewrite (read_hdr_obj0 o [] Hn), HT, N.eqb_refl. cbn [negb].
  rewrite (iterate_object_entries_obj _ _ o [] [] Ho Hn).
  pose proof (filter_fold keep o (obj_sorted o Hw) o [] eq_refl) as F. unfold filter_step in F.
  change (raw_members (filter (fun kv : list N * value => keep (fst kv)) [])) with (@nil (list N * entry)) in F.
  rewrite F. cbn [bind].
  rewrite build_obj_raw; [reflexivity|]. apply wf_size_filter. apply wfb_size. exact Hw.
Qed.

Lemma object_filter_nonobj keep v buf : wfb v = true -> match v with VObj _ => False | _ => True end ->
  object_filter_b keep (enc v) buf = Err EInvalidObject.
Proof.
  intros Hw Hv. rewrite ?object_filter_b_eq. destruct v as [|b|s|n|l|o]; try contradiction;
    try (rewrite read_hdr_scalar by reflexivity; rewrite (proj1 scalar_hdr_type); reflexivity).
  destruct (wf_arr l Hw) as [_ Hn]. destruct (arr_hdr_facts l Hn) as (_ & HT & _).
  rewrite enc_arr, <- (app_nil_r (payload (VArr l))), (read_hdr_arr0 l [] Hn), HT, arr_type_not_obj. reflexivity.
Qed.

Theorem object_delete_b_enc v ks buf : wfb v = true ->
  object_delete_b (enc v) ks buf = res_map (fun y => buf ++ enc y) (object_delete_t v ks).
Proof.
  intros Hw. rewrite ?object_delete_b_eq. destruct v as [|b|s|n|l|o]; try (apply object_filter_nonobj; [exact Hw|exact I]).
  rewrite (object_filter_obj _ o buf Hw). reflexivity.
Qed.
Theorem object_pick_b_enc v ks buf : wfb v = true ->
  object_pick_b (enc v) ks buf = res_map (fun y => buf ++ enc y) (object_pick_t v ks).
Proof.
  intros Hw. rewrite ?object_pick_b_eq. destruct v as [|b|s|n|l|o]; try (apply object_filter_nonobj; [exact Hw|exact I]).
  rewrite (object_filter_obj _ o buf Hw). reflexivity.
Qed.

Lemma as_jsonb_enc v : wfb v = true -> top_ok v -> as_jsonb (enc v) = Ok (enc v).
Proof. intros Hw Ht. unfold as_jsonb. rewrite (is_jsonb_enc v Hw Ht). reflexivity. Qed.

Theorem object_delete_w_enc v ks buf : wfb v = true -> top_ok v ->
  object_delete_w (enc v) ks buf = res_map (fun y => buf ++ enc y) (object_delete_t v ks).
Proof. intros Hw Ht. rewrite ?object_delete_w_eq. rewrite (as_jsonb_enc v Hw Ht). cbn [bind]. apply object_delete_b_enc. exact Hw. Qed.
Theorem object_pick_w_enc v ks buf : wfb v = true -> top_ok v ->
  object_pick_w (enc v) ks buf = res_map (fun y => buf ++ enc y) (object_pick_t v ks).
Proof. intros Hw Ht. rewrite ?object_pick_w_eq. rewrite (as_jsonb_enc v Hw Ht). cbn [bind]. apply object_pick_b_enc. exact Hw. Qed.

(* ================================================================ object_insert *)
(* where the new key goes: the members below it, and the rest *)
Fixpoint ins_view {V} (k : list N) (o : list (list N * V)) : list (list N * V) * list (list N * V) :=
  match o with
  | [] => ([], [])
  | (k', x') :: r =>
      match bytes_cmp k k' with
      | Gt => let '(a, b) := ins_view k r in ((k', x') :: a, b)
      | _ => ([], o)
      end
  end.
Definition ins_dup {V} (k : list N) (b : list (list N * V)) : bool :=
  match b with (k', _) :: _ => bytes_eqb k k' | [] => false end.
Definition ins_tail {V} (k : list N) (b : list (list N * V)) : list (list N * V) :=
  if ins_dup k b then tl b else b.

Lemma ins_view_app {V} k (o : list (list N * V)) : o = fst (ins_view k o) ++ snd (ins_view k o).
Proof.
  induction o as [|[k' x'] r IH]; cbn [ins_view]; [reflexivity|].
  destruct (bytes_cmp k k'); try reflexivity. destruct (ins_view k r) as [a b]. cbn [fst snd app] in *. rewrite <- IH. reflexivity.
Qed.
Lemma ins_view_below {V} k (o : list (list N * V)) : keys_below k (fst (ins_view k o)).
Proof.
  induction o as [|[k' x'] r IH]; cbn [ins_view]; [constructor|].
  destruct (bytes_cmp k k') eqn:E; try constructor. destruct (ins_view k r) as [a b]. cbn [fst] in *. constructor; [exact E|exact IH].
Qed.
Lemma ins_view_insert {V} k (x : V) (o : list (list N * V)) :
  assoc_insert k x o = fst (ins_view k o) ++ (k, x) :: ins_tail k (snd (ins_view k o)).
Proof.
  induction o as [|[k' x'] r IH]; cbn [ins_view assoc_insert]; [reflexivity|].
  destruct (bytes_cmp k k') eqn:E; cbn [fst snd app].
  - unfold ins_tail, ins_dup. rewrite bytes_eqb_cmp, E. reflexivity.
  - unfold ins_tail, ins_dup. rewrite bytes_eqb_cmp, E. reflexivity.
  - destruct (ins_view k r) as [a b]. cbn [fst snd app] in *. rewrite IH. reflexivity.
Qed.
Lemma lookup_below {V} k (a b : list (list N * V)) : keys_below k a -> assoc_lookup k (a ++ b) = assoc_lookup k b.
Proof.
  induction 1 as [|[k' x'] a Hk _ IH]; cbn [app assoc_lookup]; [reflexivity|].
  cbn [fst] in Hk. rewrite bytes_eqb_cmp, Hk. exact IH.
Qed.
Lemma lookup_above {V} k (b : list (list N * V)) : Forall (fun kv => bytes_cmp k (fst kv) = Lt) b -> assoc_lookup k b = None.
Proof.
  induction 1 as [|[k' x'] a Hk _ IH]; cbn [assoc_lookup]; [reflexivity|]. cbn [fst] in Hk. rewrite bytes_eqb_cmp, Hk. exact IH.
Qed.
Lemma ins_view_lookup {V} k (o : list (list N * V)) : strongly_sorted o ->
  (match assoc_lookup k o with Some _ => true | None => false end) = ins_dup k (snd (ins_view k o)).
Proof.
  intros So. pose proof (ins_view_app k o) as Eo. pose proof (ins_view_below k o) as Hb.
  assert (Sb : strongly_sorted (snd (ins_view k o))).
  { rewrite Eo in So. apply (ss_app_r _ _ So). }
  assert (Hh : match snd (ins_view k o) with (k', _) :: _ => bytes_cmp k k' <> Gt | [] => True end).
  { clear. induction o as [|[k' x'] r IH]; cbn [ins_view]; [exact I|].
    destruct (bytes_cmp k k') eqn:E; cbn [snd]; try (rewrite E; discriminate). destruct (ins_view k r) as [a b]. exact IH. }
  rewrite Eo at 1. rewrite (lookup_below k _ _ Hb).
  destruct (snd (ins_view k o)) as [|[k' x'] t]; cbn [assoc_lookup ins_dup]; [reflexivity|].
  rewrite bytes_eqb_cmp. destruct (bytes_cmp k k') eqn:E; try reflexivity; [|contradiction Hh; reflexivity].
  destruct Sb as [Sb _]. rewrite lookup_above; [reflexivity|].
  eapply Forall_impl; [|exact Sb]. intros kv Hkv. cbn beta in *. eapply (proj1 (bytes_trio k)); eauto.
Qed.

(* phase 1: the position loop *)
Lemma ins_keys_fold k upd (o : list (list N * value)) : forall i,
  fold_exit (fun s kv => ins_key_step k upd s (fst kv)) (fun st => Ok (snd st, false)) o (i, i)
  = if ins_dup k (snd (ins_view k o)) then (if upd then Ok ((i + length (fst (ins_view k o)))%nat, true) else Err EDupKey)
    else Ok ((i + length (fst (ins_view k o)))%nat, false).
Proof.
  induction o as [|[k' x'] r IH]; intros i; cbn [fold_exit ins_view fst snd].
  - cbn [ins_dup length]. rewrite Nat.add_0_r. reflexivity.
  - unfold ins_key_step at 1. rewrite bytes_eqb_cmp. unfold bytes_ltb. rewrite (bytes_antisym k' k).
    destruct (bytes_cmp k k') eqn:E; cbn [CompOpp fst snd ins_dup length].
    + rewrite bytes_eqb_cmp, E, Nat.add_0_r. destruct upd; reflexivity.
    + rewrite bytes_eqb_cmp, E, Nat.add_0_r. reflexivity.
    + cbn [bind]. rewrite IH. destruct (ins_view k r) as [a b]. cbn [fst snd length]. rewrite Nat.add_succ_r. reflexivity.
Qed.

(* phase 2..4: the entry iterator driven by hand *)
Definition it_at (o done todo : list (list N * value)) : eit :=
  ItRun (kws todo) (4 + lenN o * 8 + sum_keys done) (4 + 4 * lenN o + 4 * lenN done)
        (4 + lenN o * 8 + sum_keys o + sum_len (vals done)).
Definition it_eq (bs : list N) (a b : eit) : Prop := ent_start bs a = ent_start bs b.

Lemma it_new_eq o B : obj_ok o -> lenN o < 536870912 -> it_eq (payload (VObj o) ++ B) (ItNew (lenN o)) (it_at o [] o).
Proof.
  intros Ho Hn. unfold it_eq, it_at. cbn [ent_start].
  pose proof (rd_key_words [] o B (S (length (payload (VObj o) ++ B))) Ho) as RK. cbn [app] in RK. change (lenN (@nil N) + 4) with 4 in RK.
  rewrite RK.
  2:{ rewrite payload_obj, !app_length, be32_len, length_flat_words, app_length. unfold kws. rewrite map_length. lia. }
  rewrite (sum_je_len_kws o Ho). unfold vals. cbn [sum_keys sum_len map fold_right]. change (lenN (@nil (list N * value))) with 0.
  rewrite N.mul_0_r, !N.add_0_r. reflexivity.
Qed.

Lemma ent_next_at o B : obj_ok o -> forall done k x todo it, o = done ++ (k, x) :: todo ->
  it_eq (payload (VObj o) ++ B) it (it_at o done ((k, x) :: todo)) ->
  ent_next (payload (VObj o) ++ B) it = Ok (Some (k, ent x, payload x), it_at o (done ++ [(k, x)]) todo).
Proof.
  intros Ho done k x todo it El Hit. unfold ent_next. rewrite Hit. unfold it_at at 1. cbn [ent_start bind kws map fst].
  fold (kws todo).
  assert (Hkx : wf_size x = true /\ lenN k < 268435456).
  { unfold obj_ok in Ho. rewrite El in Ho. apply Forall_app in Ho. destruct Ho as [_ Ho]. inversion Ho as [|? ? H _]. exact H. }
  destruct Hkx as [Hx Hk].
  rewrite (key_word_len _ Hk).
  destruct (obj_key_loc [] o B done k x todo El) as (A' & B' & Ebs & EA). cbn [app] in Ebs. rewrite lenN_nil in EA.
  assert (S0 : slice (payload (VObj o) ++ B) (4 + lenN o * 8 + sum_keys done) (lenN k) = Some k).
  { rewrite Ebs. apply slice_mid'; [lia|reflexivity]. }
  rewrite S0.
  assert (R0 : read_u32 (payload (VObj o) ++ B) (4 + 4 * lenN o + 4 * lenN done) = Some (word x)).
  { pose proof (obj_regroup [] o B) as G. cbn [app] in G. rewrite G.
    apply (read_word_at _ (kws o ++ vws o) _ (kws o ++ vws done) (word x) (vws todo)).
    - apply obj_words_ok. exact Ho.
    - rewrite El at 2. unfold vws. rewrite map_app, <- app_assoc. reflexivity.
    - rewrite lenN_be32, lenN_app, len_kws, len_vws. lia. }
  rewrite R0, (word_len x Hx).
  destruct (obj_val_loc [] o B done k x todo El) as (A2 & B2 & Ebs2 & EA2). cbn [app] in Ebs2. rewrite lenN_nil in EA2.
  assert (S1 : slice (payload (VObj o) ++ B) (4 + lenN o * 8 + sum_keys o + sum_len (vals done)) (lenN (payload x)) = Some (payload x)).
  { rewrite Ebs2. apply slice_mid'; [lia|reflexivity]. }
  rewrite S1, (decode_je_word x Hx). unfold it_at, vals.
  rewrite lenN_app, lenN_cons, lenN_nil, sum_keys_app, map_app, sum_len_app.
  cbn [sum_keys sum_len fold_right fst snd map].
  f_equal. f_equal. f_equal; lia.
Qed.

Lemma ent_rest_at {St R} (step : St -> list N -> je -> list N -> res (St + R)) fin o B : obj_ok o ->
  forall done todo it s, o = done ++ todo -> it_eq (payload (VObj o) ++ B) it (it_at o done todo) ->
  ent_rest (payload (VObj o) ++ B) it step fin s
  = fold_exit (fun s kv => step s (fst kv) (ent (snd kv)) (payload (snd kv))) fin todo s.
Proof.
  intros Ho done todo it s El Hit. unfold ent_rest. rewrite Hit. unfold it_at. cbn [ent_start bind].
  apply (ent_loop_obj step fin o B Ho todo done El s).
Qed.

Definition push_raw_step (b : list (list N * entry)) (kv : list N * value) : list (list N * entry) :=
  obj_push b (fst kv) (ERaw (ent (snd kv)) (payload (snd kv))).

(* pushing the members t after a, all in key order, extends the builder by them *)
Lemma push_all (a t : list (list N * value)) : strongly_sorted (a ++ t) ->
  fold_exit (fun b kv => Ok (inl (push_raw_step b kv))) (fun b => Ok b) t (raw_members a) = Ok (raw_members (a ++ t)) :> res (list (list N * entry)).
Proof.
  revert a. induction t as [|[k x] t IH]; intros a Sa; cbn [fold_exit bind].
  - rewrite app_nil_r. reflexivity.
  - change (push_raw_step (raw_members a) (k, x)) with (obj_push (raw_members a) k (raw_of x)). unfold raw_members at 1. rewrite push_last.
    2:{ pose proof (keys_below_sub k a (fun kv => raw_of (snd kv)) (fun _ => true)) as K.
        assert (F : filter (fun _ : list N * value => true) a = a) by (clear; induction a as [|y a IH]; cbn [filter]; [reflexivity|rewrite IH; reflexivity]).
        rewrite F in K. apply K. apply (ss_app_mid _ _ _ _ Sa). }
    replace (map (fun kv : list N * value => (fst kv, raw_of (snd kv))) a ++ [(k, raw_of x)]) with (raw_members (a ++ [(k, x)]))
      by (unfold raw_members; rewrite map_app; reflexivity).
    rewrite IH; rewrite <- app_assoc; [reflexivity|exact Sa].
Qed.

Lemma push_n_at o B : obj_ok o -> strongly_sorted o -> forall todo1 done todo2 it,
  o = done ++ todo1 ++ todo2 -> it_eq (payload (VObj o) ++ B) it (it_at o done (todo1 ++ todo2)) ->
  exists it', push_n (payload (VObj o) ++ B) (length todo1) it (raw_members done) = Ok (raw_members (done ++ todo1), it')
              /\ it_eq (payload (VObj o) ++ B) it' (it_at o (done ++ todo1) todo2).
Proof.
  intros Ho So. induction todo1 as [|[k x] todo1 IH]; intros done todo2 it Eo Hit; cbn [length push_n].
  - exists it. rewrite app_nil_r. split; [reflexivity|exact Hit].
  - cbn [app] in Eo, Hit. rewrite (ent_next_at o B Ho done k x (todo1 ++ todo2) it Eo Hit). cbn [bind].
    assert (Eo' : o = (done ++ [(k, x)]) ++ todo1 ++ todo2) by (rewrite <- app_assoc; exact Eo).
    fold (raw_of x). unfold raw_members at 1. rewrite push_last.
    2:{ pose proof (keys_below_sub k done (fun kv => raw_of (snd kv)) (fun _ => true)) as K.
        assert (F : filter (fun _ : list N * value => true) done = done) by (clear; induction done as [|y a IH]; cbn [filter]; [reflexivity|rewrite IH; reflexivity]).
        rewrite F in K. apply K. rewrite Eo in So. apply (ss_app_mid _ _ _ _ So). }
    replace (map (fun kv : list N * value => (fst kv, raw_of (snd kv))) done ++ [(k, raw_of x)]) with (raw_members (done ++ [(k, x)]))
      by (unfold raw_members; rewrite map_app; reflexivity).
    destruct (IH (done ++ [(k, x)]) todo2 (it_at o (done ++ [(k, x)]) (todo1 ++ todo2)) Eo' eq_refl) as (it' & P & Q).
    exists it'. rewrite <- app_assoc in P, Q. cbn [app] in P, Q. split; assumption.
Qed.

(* the entry pushed for the new value *)
Lemma new_value_entry_enc x : wf_size x = true -> new_value_entry (enc x) = Ok (raw_of x).
Proof.
  intros Hx. unfold new_value_entry. destruct (is_scalar x) eqn:Sc.
  - pose proof (read_hdr_scalar x Sc) as R0. rewrite (enc_scalar x Sc) in *. rewrite R0.
    destruct scalar_hdr_type as [T1 T2]. rewrite T1, T2. cbn [orb].
    assert (R4 : read_u32 (be32 SCALAR_CONTAINER_TAG ++ be32 (word x) ++ payload x) 4 = Some (word x))
      by (apply (read_u32_mid (be32 SCALAR_CONTAINER_TAG) (word x) (payload x) (word_bound x Hx))).
    rewrite R4.
    assert (SF : slice_from (be32 SCALAR_CONTAINER_TAG ++ be32 (word x) ++ payload x) 8 = Some (payload x)).
    { unfold slice_from. rewrite !lenN_app, !lenN_be32.
      destruct (8 <=? 4 + (4 + lenN (payload x))) eqn:E; [|apply N.leb_gt in E; lia].
      unfold be32. reflexivity. }
    rewrite SF, (decode_je_word x Hx). reflexivity.
  - destruct x as [| | | |l|o]; try discriminate Sc.
    + apply wf_size_arr_iff in Hx. destruct Hx as (Hn & _ & _). destruct (arr_hdr_facts l Hn) as (_ & HT & _).
      rewrite enc_arr. rewrite <- (app_nil_r (payload (VArr l))) at 1. rewrite (read_hdr_arr0 l [] Hn), HT, N.eqb_refl. reflexivity.
    + apply wf_size_obj_iff in Hx. destruct Hx as (Hn & _ & _). destruct (obj_hdr_facts o Hn) as (_ & HT & _).
      rewrite enc_obj. rewrite <- (app_nil_r (payload (VObj o))) at 1. rewrite (read_hdr_obj0 o [] Hn), HT, N.eqb_refl, orb_true_r. reflexivity.
Qed.

Lemma keys_below_raw k (a : list (list N * value)) : keys_below k a -> keys_below k (raw_members a).
Proof. unfold keys_below, raw_members. intros H. rewrite Forall_map. exact H. Qed.
Lemma raw_members_app a b : raw_members (a ++ b) = raw_members a ++ raw_members b.
Proof. unfold raw_members. apply map_app. Qed.

Lemma object_insert_obj o x key upd buf : wfb (VObj o) = true -> wf_size x = true ->
  (forall y, object_insert_t (VObj o) key x upd = Ok y -> wf_size y = true) ->
  object_insert_b (enc (VObj o)) key (enc x) upd buf = res_map (fun y => buf ++ enc y) (object_insert_t (VObj o) key x upd).
Proof.
  intros Hw Hx Hres. destruct (obj_ok_of_wf o Hw) as [Ho Hn]. destruct (obj_hdr_facts o Hn) as (_ & HT & HL).
  pose proof (obj_sorted o Hw) as So.
  rewrite ?object_insert_b_eq. rewrite enc_obj.
  rewrite <- (app_nil_r (payload (VObj o))). rewrite (read_hdr_obj0 o [] Hn), HT, N.eqb_refl, HL. cbn [negb].
  rewrite (iterate_object_keys_obj _ _ o [] _ Ho Hn).
  rewrite (ins_keys_fold key upd o 0). cbn [Nat.add].
  pose proof (ins_view_lookup key o So) as LK. pose proof (ins_view_app key o) as Eo.
  pose proof (ins_view_below key o) as Hb. pose proof (ins_view_insert key x o) as EI.
  pose proof (strong_insert key x o So) as SI. rewrite EI in SI.
  cbn [object_insert_t] in *.
  set (a := fst (ins_view key o)) in *. set (b := snd (ins_view key o)) in *.
  assert (Hdup : (if ins_dup key b then if upd then Ok (VObj (assoc_insert key x o)) else Err EDupKey else Ok (VObj (assoc_insert key x o)))
                 = match assoc_lookup key o with Some _ => if upd then Ok (VObj (assoc_insert key x o)) else Err EDupKey | None => Ok (VObj (assoc_insert key x o)) end).
  { rewrite <- LK. destruct (assoc_lookup key o); reflexivity. }
  rewrite <- Hdup in *. clear Hdup LK.
  (* everything after the position loop, for either value of the duplicate flag *)
  assert (Main : forall dup, dup = ins_dup key b ->
    (do r1 <- push_n (payload (VObj o) ++ []) (length a) (ItNew (lenN o)) [];
     let '(b1, it1) := r1 in
     do e <- new_value_entry (enc x);
     let b2 := obj_push b1 key e in
     do it2 <- (if dup then do r <- ent_next (payload (VObj o) ++ []) it1; Ok (snd r) else Ok it1);
     do b3 <- ent_rest (payload (VObj o) ++ []) it2 (fun b key j item => Ok (inl (obj_push b key (ERaw j item)))) (fun b => Ok b) b2;
     Ok (build_obj_into buf b3)) = Ok (build_obj_into buf (raw_members (assoc_insert key x o)))).
  { intros dup Edup.
    assert (Q0 : it_eq (payload (VObj o) ++ []) (ItNew (lenN o)) (it_at o [] (a ++ b))) by (rewrite <- Eo; apply (it_new_eq o [] Ho Hn)).
    destruct (push_n_at o [] Ho So a [] b (ItNew (lenN o)) Eo Q0) as (it1 & P1 & Q1).
    change (raw_members []) with (@nil (list N * entry)) in P1. cbn [app] in P1, Q1. rewrite P1. cbn [bind].
    rewrite (new_value_entry_enc x Hx). cbn [bind].
    rewrite push_last by (apply keys_below_raw; exact Hb).
    assert (Hit2 : exists it2 done', (if dup then do r <- ent_next (payload (VObj o) ++ []) it1; Ok (snd r) else Ok it1) = Ok it2
                   /\ o = done' ++ ins_tail key b /\ it_eq (payload (VObj o) ++ []) it2 (it_at o done' (ins_tail key b))).
    { unfold ins_tail. rewrite <- Edup. destruct dup.
      - destruct b as [|[k' x0] t]; [discriminate Edup|]. cbn [tl].
        rewrite (ent_next_at o [] Ho a k' x0 t it1 Eo Q1). cbn [bind snd].
        exists (it_at o (a ++ [(k', x0)]) t), (a ++ [(k', x0)]). split; [reflexivity|]. split; [rewrite <- app_assoc; exact Eo|reflexivity].
      - exists it1, a. split; [reflexivity|]. split; assumption. }
    destruct Hit2 as (it2 & done' & E2 & Eo2 & Q2). rewrite E2. cbn [bind].
    rewrite (ent_rest_at _ _ o [] Ho done' (ins_tail key b) it2 _ Eo2 Q2).
    replace (raw_members a ++ [(key, raw_of x)]) with (raw_members (a ++ [(key, x)])) by (rewrite raw_members_app; reflexivity).
    pose proof (push_all (a ++ [(key, x)]) (ins_tail key b)) as PA. unfold push_raw_step in PA.
    rewrite <- app_assoc in PA. cbn [app] in PA. rewrite (PA SI). cbn [bind]. rewrite EI. reflexivity. }
  destruct (ins_dup key b) eqn:D.
  - destruct upd; [|reflexivity]. cbn [bind]. refine (eq_trans (Main true eq_refl) _). cbn [res_map].
    rewrite build_obj_raw; [reflexivity|]. apply Hres. reflexivity.
  - cbn [bind]. refine (eq_trans (Main false eq_refl) _). cbn [res_map].
    rewrite build_obj_raw; [reflexivity|]. apply Hres. reflexivity.
Qed.

Lemma object_insert_nonobj v x key upd buf : wfb v = true -> match v with VObj _ => False | _ => True end ->
  object_insert_b (enc v) key (enc x) upd buf = Err EInvalidObject.
Proof.
  intros Hw Hv. rewrite ?object_insert_b_eq. destruct v as [|b|s|n|l|o]; try contradiction;
    try (rewrite read_hdr_scalar by reflexivity; rewrite (proj1 scalar_hdr_type); reflexivity).
  destruct (wf_arr l Hw) as [_ Hn]. destruct (arr_hdr_facts l Hn) as (_ & HT & _).
  rewrite enc_arr, <- (app_nil_r (payload (VArr l))), (read_hdr_arr0 l [] Hn), HT, arr_type_not_obj. reflexivity.
Qed.

(* the size hypothesis is on the result: inserting can grow the object past the 2^28-byte payload bound *)
Theorem object_insert_b_enc v x key upd buf : wfb v = true -> wf_size x = true ->
  (forall y, object_insert_t v key x upd = Ok y -> wf_size y = true) ->
  object_insert_b (enc v) key (enc x) upd buf = res_map (fun y => buf ++ enc y) (object_insert_t v key x upd).
Proof.
  intros Hw Hx Hres. destruct v as [|b|s|n|l|o]; try (apply object_insert_nonobj; [exact Hw|exact I]).
  apply object_insert_obj; assumption.
Qed.
Theorem object_insert_w_enc v x key upd buf : wfb v = true -> top_ok v -> wfb x = true -> top_ok x ->
  (forall y, object_insert_t v key x upd = Ok y -> wf_size y = true) ->
  object_insert_w (enc v) key (enc x) upd buf = res_map (fun y => buf ++ enc y) (object_insert_t v key x upd).
Proof.
  intros Hw Ht Hx Htx Hres. rewrite ?object_insert_w_eq. rewrite (as_jsonb_enc v Hw Ht), (as_jsonb_enc x Hx Htx). cbn [bind].
  apply object_insert_b_enc; [exact Hw|apply wfb_size; exact Hx|exact Hres].
Qed.

(* ================================================================ strip_nulls *)
Definition nonnull (kv : list N * value) : bool := match snd kv with VNull => false | _ => true end.
(* the builder entry the walker makes for a value *)
Fixpoint sn_entry (x : value) : entry :=
  match x with
  | VArr l => EArr (map sn_entry l)
  | VObj o => EObj ((fix go (o : list (list N * value)) : list (list N * entry) :=
                       match o with
                       | [] => []
                       | (k, y) :: r => match y with VNull => go r | _ => (k, sn_entry y) :: go r end
                       end) o)
  | _ => raw_of x
  end.
Definition sn_member (kv : list N * value) : list N * entry := (fst kv, sn_entry (snd kv)).
Lemma sn_entry_obj o : sn_entry (VObj o) = EObj (map sn_member (filter nonnull o)).
Proof.
  cbn [sn_entry]. f_equal. induction o as [|[k y] o IH]; [reflexivity|].
  cbn [filter]. unfold nonnull at 1. cbn [snd]. destruct y; cbn [map]; rewrite IH; reflexivity.
Qed.
Lemma sn_entry_arr l : sn_entry (VArr l) = EArr (map sn_entry l).
Proof. reflexivity. Qed.

Lemma tag_container x : (fst (ent x) =? CONTAINER_TAG) = is_container x.
Proof. unfold ent. cbn [fst]. destruct (tag_tests x) as (_ & _ & _ & _ & _ & H). rewrite H. destruct x; reflexivity. Qed.
Lemma tag_null x : (fst (ent x) =? NULL_TAG) = match x with VNull => true | _ => false end.
Proof. unfold ent. cbn [fst]. apply (tag_tests x). Qed.

Lemma strip_null_iff x : match strip_nulls_t x with VNull => false | _ => true end = match x with VNull => false | _ => true end.
Proof. destruct x; reflexivity. Qed.
Lemma strip_obj_eq o : strip_nulls_t (VObj o) = VObj (map (fun kv => (fst kv, strip_nulls_t (snd kv))) (filter nonnull o)).
Proof.
  cbn [strip_nulls_t]. f_equal. induction o as [|[k x] o IH]; cbn [map filter fst snd]; [reflexivity|].
  unfold nonnull at 1. cbn [snd]. rewrite strip_null_iff. destruct x; cbn [map fst snd]; rewrite IH; reflexivity.
Qed.

Lemma sum_len_in c l : In c l -> lenN (payload c) <= sum_len l.
Proof.
  induction l as [|y l IH]; [intros []|]. cbn [sum_len fold_right]. fold (sum_len l). intros [->|H]; [lia|]. specialize (IH H). lia.
Qed.
Lemma len_lt_of_lenN {A B} (a : list A) (b : list B) : lenN a < lenN b -> (length a < length b)%nat.
Proof. unfold lenN. lia. Qed.
Lemma child_shorter_arr c l : In c l -> (length (payload c) < length (payload (VArr l)))%nat.
Proof. intros H. apply len_lt_of_lenN. rewrite plen_arr. pose proof (sum_len_in c l H). lia. Qed.
Lemma child_shorter_obj c o : In c (vals o) -> (length (payload c) < length (payload (VObj o)))%nat.
Proof. intros H. apply len_lt_of_lenN. rewrite plen_obj. pose proof (sum_len_in c (vals o) H). lia. Qed.

(* the loops, given what the nested call answers on the container children *)
Lemma strip_arr_fold (rec : list N -> res entry) (l : list value) :
  Forall (fun c => is_container c = true -> rec (payload c) = Ok (sn_entry c)) l -> forall acc,
  fold_exit (fun es x => if fst (ent x) =? CONTAINER_TAG then do e <- rec (payload x); Ok (inl (es ++ [e]))
                         else Ok (inl (es ++ [ERaw (ent x) (payload x)]))) (fun es => Ok es) l acc
  = Ok (acc ++ map sn_entry l).
Proof.
  induction 1 as [|x l Hx _ IH]; intros acc; cbn [fold_exit map]; [rewrite app_nil_r; reflexivity|].
  rewrite tag_container. destruct (is_container x) eqn:C.
  - rewrite (Hx eq_refl). cbn [bind]. rewrite IH, <- app_assoc. reflexivity.
  - cbn [bind]. rewrite IH, <- app_assoc. destruct x; try discriminate C; reflexivity.
Qed.

Lemma strip_obj_fold (rec : list N -> res entry) (o : list (list N * value)) : strongly_sorted o ->
  Forall (fun kv => is_container (snd kv) = true -> rec (payload (snd kv)) = Ok (sn_entry (snd kv))) o ->
  forall todo done, o = done ++ todo ->
  fold_exit (fun b kv => if fst (ent (snd kv)) =? CONTAINER_TAG then do e <- rec (payload (snd kv)); Ok (inl (obj_push b (fst kv) e))
                         else if fst (ent (snd kv)) =? NULL_TAG then Ok (inl b)
                         else Ok (inl (obj_push b (fst kv) (ERaw (ent (snd kv)) (payload (snd kv))))))
            (fun b => Ok b) todo (map sn_member (filter nonnull done))
  = Ok (map sn_member (filter nonnull o)).
Proof.
  intros So Hrec. induction todo as [|[k x] todo IH]; intros done Eo; cbn [fold_exit].
  - rewrite app_nil_r in Eo. subst. reflexivity.
  - cbn [fst snd].
    assert (Eo' : o = (done ++ [(k, x)]) ++ todo) by (rewrite <- app_assoc; exact Eo).
    specialize (IH _ Eo'). rewrite filter_app, map_app in IH. cbn [filter] in IH.
    assert (Hx : is_container x = true -> rec (payload x) = Ok (sn_entry x)).
    { rewrite Forall_forall in Hrec. apply (Hrec (k, x)). rewrite Eo. apply in_or_app. right. left. reflexivity. }
    assert (KB : keys_below k (map sn_member (filter nonnull done))).
    { apply (keys_below_sub k done (fun kv => sn_entry (snd kv))). rewrite Eo in So. apply (ss_app_mid _ _ _ _ So). }
    rewrite tag_container, tag_null. destruct (is_container x) eqn:C.
    + rewrite (Hx eq_refl). cbn [bind]. rewrite (push_last _ _ _ KB).
      assert (NN : nonnull (k, x) = true) by (destruct x; try discriminate C; reflexivity).
      rewrite NN in IH. exact IH.
    + destruct x as [| | | |l|o']; try discriminate C; cbn [bind]; try (rewrite (push_last _ _ _ KB); exact IH).
      cbn [nonnull snd map] in IH. rewrite app_nil_r in IH. exact IH.
Qed.

(* the nested call on a container child: the fuel (buffer length) is enough *)
Lemma strip_item_spec x : wfb x = true -> is_container x = true -> forall fuel, (length (payload x) < fuel)%nat ->
  strip_item fuel (payload x) = Ok (sn_entry x).
Proof.
  induction x as [| | | |l IH|o IH] using value_ind2; intros Hw Hc fuel Hf; try discriminate Hc.
  - destruct fuel as [|f]; [lia|]. cbn [strip_item].
    destruct (wf_arr l Hw) as [Hall Hn]. destruct (arr_hdr_facts l Hn) as (_ & HT & _).
    rewrite <- (app_nil_r (payload (VArr l))). rewrite (read_hdr_arr0 l [] Hn), HT, arr_type_not_obj, N.eqb_refl.
    unfold strip_arr. rewrite (iterate_array_arr _ _ l [] _).
    2:{ eapply Forall_impl; [|exact Hall]. intros c Hcw. apply wfb_size. exact Hcw. }
    2:{ exact Hn. }
    rewrite strip_arr_fold; [reflexivity|].
    rewrite Forall_forall in *. intros c Hin Cc. apply (IH c Hin (Hall c Hin) Cc).
    pose proof (child_shorter_arr c l Hin). lia.
  - destruct fuel as [|f]; [lia|]. cbn [strip_item].
    destruct (obj_ok_of_wf o Hw) as [Ho Hn]. destruct (obj_hdr_facts o Hn) as (_ & HT & _).
    rewrite <- (app_nil_r (payload (VObj o))). rewrite (read_hdr_obj0 o [] Hn), HT, N.eqb_refl.
    unfold strip_obj. rewrite (iterate_object_entries_obj _ _ o [] _ Ho Hn).
    pose proof (strip_obj_fold (strip_item f) o (obj_sorted o Hw)) as F.
    assert (Hrec : Forall (fun kv => is_container (snd kv) = true -> strip_item f (payload (snd kv)) = Ok (sn_entry (snd kv))) o).
    { rewrite Forall_forall in *. intros kv Hin Cc.
      assert (Hv : In (snd kv) (vals o)) by (unfold vals; apply in_map; exact Hin).
      apply (IH kv Hin); [apply (wfb_obj_elem o (snd kv) Hw Hv)|exact Cc|].
      pose proof (child_shorter_obj (snd kv) o Hv). lia. }
    specialize (F Hrec o [] eq_refl). change (map sn_member (filter nonnull [])) with (@nil (list N * entry)) in F.
    rewrite F. rewrite sn_entry_obj. reflexivity.
Qed.

(* the layout of a builder depends only on the layouts of its entries (and the keys) *)
Lemma entry_item_arr_ext es es' : map entry_item es = map entry_item es' -> entry_item (EArr es) = entry_item (EArr es').
Proof.
  intros H. cbn [entry_item]. rewrite H.
  replace (lenN es) with (lenN es') by (unfold lenN; rewrite <- (map_length entry_item es), H, map_length; reflexivity).
  reflexivity.
Qed.
Lemma entry_item_obj_ext kes kes' : map fst kes = map fst kes' ->
  map (fun ke => entry_item (snd ke)) kes = map (fun ke => entry_item (snd ke)) kes' -> entry_item (EObj kes) = entry_item (EObj kes').
Proof.
  intros Hk Hv. cbn [entry_item]. rewrite Hv.
  replace (lenN kes) with (lenN kes') by (unfold lenN; rewrite <- (map_length fst kes), Hk, map_length; reflexivity).
  assert (K1 : forall (l : list (list N * entry)), flat_map (fun ke => be32 (jentry_word STRING_TAG (lenN (fst ke)))) l
               = flat_map (fun k => be32 (jentry_word STRING_TAG (lenN k))) (map fst l)) by (intros l; rewrite flat_map_map; reflexivity).
  assert (K2 : forall (l : list (list N * entry)), flat_map (fun ke => fst ke) l = flat_map (fun k => k) (map fst l)) by (intros l; rewrite flat_map_map; reflexivity).
  rewrite (K1 kes), (K1 kes'), (K2 kes), (K2 kes'), Hk. reflexivity.
Qed.
Lemma entry_item_arr_raw l : entry_item (EArr (map raw_of l)) = (ent (VArr l), payload (VArr l)).
Proof.
  rewrite (surjective_pairing (entry_item (EArr (map raw_of l)))). fold (eje (EArr (map raw_of l))). fold (epl (EArr (map raw_of l))).
  rewrite eje_arr, epl_arr_raw. reflexivity.
Qed.
Lemma entry_item_obj_raw o : entry_item (EObj (raw_members o)) = (ent (VObj o), payload (VObj o)).
Proof.
  rewrite (surjective_pairing (entry_item (EObj (raw_members o)))). fold (eje (EObj (raw_members o))). fold (epl (EObj (raw_members o))).
  rewrite eje_obj, epl_obj_raw. reflexivity.
Qed.

Lemma sn_entry_item x : wf_size (strip_nulls_t x) = true ->
  entry_item (sn_entry x) = (ent (strip_nulls_t x), payload (strip_nulls_t x)) /\ entry_okb (sn_entry x) = true.
Proof.
  induction x as [| | | |l IH|o IH] using value_ind2; intros Hs;
    try (split; [apply raw_item|apply raw_ok; exact Hs]).
  - cbn [strip_nulls_t] in *. rewrite sn_entry_arr.
    pose proof (proj1 (wf_size_arr_iff _) Hs) as (_ & Hp & Hall). rewrite Forall_map in Hall.
    assert (E : map entry_item (map sn_entry l) = map entry_item (map raw_of (map strip_nulls_t l))).
    { rewrite !map_map. apply map_ext_in. intros c Hin. rewrite Forall_forall in IH, Hall.
      rewrite (proj1 (IH c Hin (Hall c Hin))). reflexivity. }
    pose proof (entry_item_arr_ext _ _ E) as EI. rewrite entry_item_arr_raw in EI. split; [exact EI|].
    cbn [entry_okb]. apply andb_true_iff. split.
    + rewrite EI. cbn [snd]. apply N.ltb_lt. lia.
    + apply forallb_forall. intros e He. apply in_map_iff in He. destruct He as (c & <- & Hin).
      rewrite Forall_forall in IH, Hall. apply (IH c Hin (Hall c Hin)).
  - rewrite strip_obj_eq in *. rewrite sn_entry_obj.
    pose proof (proj1 (wf_size_obj_iff _) Hs) as (_ & Hp & Hall). rewrite Forall_map in Hall.
    assert (Hin' : forall kv, In kv (filter nonnull o) -> In kv o) by (intros kv H; apply filter_In in H; apply H).
    assert (EK : map fst (map sn_member (filter nonnull o))
                 = map fst (raw_members (map (fun kv => (fst kv, strip_nulls_t (snd kv))) (filter nonnull o)))).
    { unfold raw_members. rewrite !map_map. reflexivity. }
    assert (EV : map (fun ke => entry_item (snd ke)) (map sn_member (filter nonnull o))
                 = map (fun ke => entry_item (snd ke)) (raw_members (map (fun kv => (fst kv, strip_nulls_t (snd kv))) (filter nonnull o)))).
    { unfold raw_members. rewrite !map_map. apply map_ext_in. intros kv Hin. cbn [sn_member snd fst].
      rewrite Forall_forall in IH, Hall. destruct (Hall kv Hin) as [_ Hsz]. cbn [snd] in Hsz.
      rewrite (proj1 (IH kv (Hin' kv Hin) Hsz)). reflexivity. }
    pose proof (entry_item_obj_ext _ _ EK EV) as EI. rewrite entry_item_obj_raw in EI. split; [exact EI|].
    cbn [entry_okb]. apply andb_true_iff. split.
    + rewrite EI. cbn [snd]. apply N.ltb_lt. lia.
    + apply forallb_forall. intros e He. apply in_map_iff in He. destruct He as (kv & <- & Hin). cbn [sn_member snd].
      rewrite Forall_forall in IH, Hall. destruct (Hall kv Hin) as [_ Hsz]. cbn [snd] in Hsz.
      apply (IH kv (Hin' kv Hin) Hsz).
Qed.

(* stripping never grows a document *)
Lemma sum_len_map_le (f : value -> value) l : Forall (fun c => lenN (payload (f c)) <= lenN (payload c)) l ->
  sum_len (map f l) <= sum_len l.
Proof.
  induction 1 as [|c l Hc _ IH]; cbn [map sum_len fold_right]; [lia|]. fold (sum_len (map f l)). fold (sum_len l). lia.
Qed.
Lemma strip_size x : wf_size x = true ->
  wf_size (strip_nulls_t x) = true /\ lenN (payload (strip_nulls_t x)) <= lenN (payload x).
Proof.
  induction x as [| | | |l IH|o IH] using value_ind2; intros Hs; try (split; [exact Hs|cbn [strip_nulls_t]; lia]).
  - cbn [strip_nulls_t]. apply wf_size_arr_iff in Hs. destruct Hs as (Hn & Hp & Hall).
    assert (IH' : Forall (fun c => wf_size (strip_nulls_t c) = true /\ lenN (payload (strip_nulls_t c)) <= lenN (payload c)) l).
    { rewrite Forall_forall in *. intros c Hin. apply (IH c Hin (Hall c Hin)). }
    assert (SL : sum_len (map strip_nulls_t l) <= sum_len l).
    { apply sum_len_map_le. eapply Forall_impl; [|exact IH']. intros c H. apply H. }
    rewrite wf_size_arr_iff, !plen_arr, lenN_map in *. repeat split; try lia.
    rewrite Forall_map. eapply Forall_impl; [|exact IH']. intros c H. apply H.
  - rewrite strip_obj_eq. apply wf_size_obj_iff in Hs. destruct Hs as (Hn & Hp & Hall).
    set (g := fun kv : list N * value => (fst kv, strip_nulls_t (snd kv))).
    assert (IH' : Forall (fun kv => wf_size (strip_nulls_t (snd kv)) = true /\ lenN (payload (strip_nulls_t (snd kv))) <= lenN (payload (snd kv))) o).
    { rewrite Forall_forall in *. intros kv Hin. apply (IH kv Hin). apply (Hall kv Hin). }
    assert (L1 : lenN (map g (filter nonnull o)) <= lenN o) by (rewrite lenN_map; apply lenN_filter_le).
    assert (L2 : sum_keys (map g (filter nonnull o)) <= sum_keys o).
    { pose proof (sum_keys_filter_le nonnull o) as K.
      assert (E : forall l, sum_keys (map g l) = sum_keys l).
      { induction l as [|kv l IHl]; cbn [map sum_keys fold_right]; [reflexivity|]. fold (sum_keys (map g l)). fold (sum_keys l). rewrite IHl. reflexivity. }
      rewrite E. exact K. }
    assert (L3 : sum_len (vals (map g (filter nonnull o))) <= sum_len (vals o)).
    { pose proof (sum_vals_filter_le nonnull o) as K.
      assert (E : vals (map g (filter nonnull o)) = map strip_nulls_t (vals (filter nonnull o))) by (unfold vals; rewrite !map_map; reflexivity).
      rewrite E. etransitivity; [|exact K]. apply sum_len_map_le. unfold vals. rewrite Forall_map.
      rewrite Forall_forall in *. intros kv Hin. apply filter_In in Hin. apply (IH' kv (proj1 Hin)). }
    rewrite wf_size_obj_iff, !plen_obj in *. repeat split; try lia.
    rewrite Forall_map. rewrite Forall_forall in *. intros kv Hin. apply filter_In in Hin. destruct Hin as [Hin _].
    split; cbn [g fst snd]; [apply (Hall kv Hin)|apply (IH' kv Hin)].
Qed.

Theorem strip_nulls_b_enc v buf : wfb v = true -> strip_nulls_b (enc v) buf = Ok (buf ++ enc (strip_nulls_t v)).
Proof.
  intros Hw. pose proof (proj1 (strip_size v (wfb_size v Hw))) as Hs. pose proof (sn_entry_item v Hs) as [EI OK].
  rewrite ?strip_nulls_b_eq. destruct v as [|b|s|n|l|o];
    try (rewrite read_hdr_scalar by reflexivity; destruct scalar_hdr_type as [T1 T2]; rewrite T1, T2; reflexivity).
  - destruct (wf_arr l Hw) as [Hall Hn]. destruct (arr_hdr_facts l Hn) as (_ & HT & _).
    rewrite enc_arr. rewrite <- (app_nil_r (payload (VArr l))). rewrite (read_hdr_arr0 l [] Hn), HT, arr_type_not_obj, N.eqb_refl.
    unfold strip_arr. rewrite (iterate_array_arr _ _ l [] _).
    2:{ eapply Forall_impl; [|exact Hall]. intros c Hcw. apply wfb_size. exact Hcw. }
    2:{ exact Hn. }
    rewrite strip_arr_fold.
    2:{ rewrite Forall_forall in *. intros c Hin Cc. apply (strip_item_spec c (Hall c Hin) Cc).
        rewrite app_nil_r. apply (child_shorter_arr c l Hin). }
    cbn [bind app]. rewrite sn_entry_arr in *. rewrite (build_arr_into_spec _ _ OK). unfold epl. rewrite EI. reflexivity.
  - destruct (obj_ok_of_wf o Hw) as [Ho Hn]. destruct (obj_hdr_facts o Hn) as (_ & HT & _).
    rewrite enc_obj. rewrite <- (app_nil_r (payload (VObj o))). rewrite (read_hdr_obj0 o [] Hn), HT, N.eqb_refl.
    unfold strip_obj. rewrite (iterate_object_entries_obj _ _ o [] _ Ho Hn).
    pose proof (strip_obj_fold (strip_item (length (payload (VObj o) ++ []))) o (obj_sorted o Hw)) as F.
    assert (Hrec : Forall (fun kv => is_container (snd kv) = true ->
                     strip_item (length (payload (VObj o) ++ [])) (payload (snd kv)) = Ok (sn_entry (snd kv))) o).
    { rewrite Forall_forall. intros kv Hin Cc.
      assert (Hv : In (snd kv) (vals o)) by (unfold vals; apply in_map; exact Hin).
      apply (strip_item_spec (snd kv) (wfb_obj_elem o (snd kv) Hw Hv) Cc). rewrite app_nil_r. apply (child_shorter_obj _ o Hv). }
    specialize (F Hrec o [] eq_refl). change (map sn_member (filter nonnull [])) with (@nil (list N * entry)) in F.
    rewrite F. cbn [bind]. rewrite sn_entry_obj in *. rewrite (build_obj_into_spec _ _ OK). unfold epl. rewrite EI. reflexivity.
Qed.

Theorem strip_nulls_w_enc v buf : wfb v = true -> top_ok v -> strip_nulls_w (enc v) buf = Ok (buf ++ enc (strip_nulls_t v)).
Proof. intros Hw Ht. rewrite ?strip_nulls_w_eq. rewrite (is_jsonb_enc v Hw Ht). apply strip_nulls_b_enc. exact Hw. Qed.

(* ================================================================ delete_by_keypath *)
(* what a nested call must answer: nothing to do, or a builder entry that denotes the edited child *)
Definition del_ok (got : res (option (entry * list keypath))) (want : option value) : Prop :=
  match want with
  | Some v' => wf_size v' = true ->
               exists e kp', got = Ok (Some (e, kp')) /\ entry_item e = (ent v', payload v') /\ entry_okb e = true
  | None => got = Ok None
  end.
Definition wrap_arr (o : option (list entry * list keypath)) : option (entry * list keypath) :=
  match o with Some (es, ks') => Some (EArr es, ks') | None => None end.
Definition wrap_obj (o : option (list (list N * entry) * list keypath)) : option (entry * list keypath) :=
  match o with Some (b, ks') => Some (EObj b, ks') | None => None end.

Lemma remove_nth_mid {A} (pre : list A) x post : remove_nth (pre ++ x :: post) (length pre) = pre ++ post.
Proof. induction pre as [|y pre IH]; cbn [app length remove_nth]; [reflexivity|rewrite IH; reflexivity]. Qed.
Lemma replace_nth_mid {A} (pre : list A) x y post : replace_nth (pre ++ x :: post) (length pre) y = pre ++ y :: post.
Proof. induction pre as [|z pre IH]; cbn [app length replace_nth]; [reflexivity|rewrite IH; reflexivity]. Qed.
Lemma nth_opt_some {A} (l : list A) n : (n < length l)%nat -> exists x, nth_opt l n = Some x.
Proof.
  revert n. induction l as [|y l IH]; intros n H; cbn [length] in H; [lia|]. destruct n as [|n]; cbn [nth_opt]; [eauto|]. apply IH. lia.
Qed.
Lemma raw_all_ok l : Forall (fun v => wf_size v = true) l -> Forall (fun e => entry_okb e = true) (map raw_of l).
Proof. intros H. rewrite Forall_map. eapply Forall_impl; [|exact H]. intros v Hv. apply raw_ok. exact Hv. Qed.

Lemma arr_entry_ok es l' : map entry_item es = map entry_item (map raw_of l') -> wf_size (VArr l') = true ->
  Forall (fun e => entry_okb e = true) es ->
  entry_item (EArr es) = (ent (VArr l'), payload (VArr l')) /\ entry_okb (EArr es) = true.
Proof.
  intros E Hs Hok. pose proof (entry_item_arr_ext _ _ E) as EI. rewrite entry_item_arr_raw in EI. split; [exact EI|].
  cbn [entry_okb]. apply andb_true_iff. split.
  - rewrite EI. cbn [snd]. pose proof (payload_small _ Hs). apply N.ltb_lt. lia.
  - apply forallb_forall. rewrite Forall_forall in Hok. exact Hok.
Qed.
Lemma obj_entry_ok b o' : map fst b = map fst o' ->
  map (fun ke => entry_item (snd ke)) b = map (fun kv => entry_item (raw_of (snd kv))) o' -> wf_size (VObj o') = true ->
  Forall (fun ke => entry_okb (snd ke) = true) b ->
  entry_item (EObj b) = (ent (VObj o'), payload (VObj o')) /\ entry_okb (EObj b) = true.
Proof.
  intros Ek Ev Hs Hok.
  assert (Ek' : map fst b = map fst (raw_members o')) by (unfold raw_members; rewrite map_map; exact Ek).
  assert (Ev' : map (fun ke => entry_item (snd ke)) b = map (fun ke => entry_item (snd ke)) (raw_members o'))
    by (unfold raw_members; rewrite map_map; exact Ev).
  pose proof (entry_item_obj_ext _ _ Ek' Ev') as EI. rewrite entry_item_obj_raw in EI. split; [exact EI|].
  cbn [entry_okb]. apply andb_true_iff. split.
  - rewrite EI. cbn [snd]. pose proof (payload_small _ Hs). apply N.ltb_lt. lia.
  - apply forallb_forall. rewrite Forall_forall in Hok. exact Hok.
Qed.

(* ---- arrays ---- *)
Section DelArr.
  Variable rec : list N -> list keypath -> res (option (entry * list keypath)).
  Variable idx : N.
  Let step := fun s (x : value) => del_arr_step rec idx s (ent x) (payload x).

  Lemma del_arr_skip (t rest : list value) : forall n es kp, (idx < n \/ n + lenN t <= idx) ->
    fold_exit step (del_arr_fin) (t ++ rest) (n, es, kp) = fold_exit step (del_arr_fin) rest (n + lenN t, es ++ map raw_of t, kp).
  Proof.
    induction t as [|x t IH]; intros n es kp Hn; cbn [app map].
    - rewrite lenN_nil, N.add_0_r, app_nil_r. reflexivity.
    - cbn [fold_exit]. unfold step at 1. unfold del_arr_step.
      rewrite lenN_cons in Hn. assert (E : n =? idx = false) by (apply N.eqb_neq; lia). rewrite E. cbn [negb bind].
      rewrite IH by lia. rewrite lenN_cons, <- app_assoc. cbn [app]. fold (raw_of x).
      replace (n + 1 + lenN t) with (n + (1 + lenN t)) by lia. reflexivity.
  Qed.

  Lemma del_arr_fold (pre : list value) x post r : idx = lenN pre ->
    fold_exit step del_arr_fin (pre ++ x :: post) (0, [], r)
    = if kp_nil r then Ok (Some (map raw_of pre ++ map raw_of post, r))
      else if is_container x then
        do o <- rec (payload x) r;
        match o with
        | Some (e, kp') => Ok (Some (map raw_of pre ++ e :: map raw_of post, kp'))
        | None => Ok None
        end
      else Ok None.
  Proof.
    intros Ei. rewrite (del_arr_skip pre (x :: post) 0 [] r) by lia. cbn [app fold_exit]. rewrite N.add_0_l.
    unfold step at 1. unfold del_arr_step. rewrite <- Ei, N.eqb_refl. cbn [negb].
    pose proof (del_arr_skip post [] (idx + 1)) as SK. rewrite !app_nil_r in SK. cbn [fold_exit] in SK. unfold del_arr_fin in SK. cbn [fst snd] in SK.
    destruct (kp_nil r); cbn [negb bind].
    - rewrite SK by lia. reflexivity.
    - rewrite tag_container. destruct (is_container x); [|reflexivity].
      destruct (rec (payload x) r) as [[[e kp']|]|err|]; cbn [bind]; try reflexivity.
      rewrite SK by lia. rewrite <- app_assoc. reflexivity.
  Qed.
End DelArr.

Lemma lenZ_lenN {A} (l : list A) : Z.of_N (lenN l) = lenZ l.
Proof. unfold lenN, lenZ. lia. Qed.

Lemma del_arr_spec rec l ks ft : wfb (VArr l) = true ->
  (forall k r, ks = k :: r -> forall c, In c l -> is_container c = true -> del_ok (rec (payload c) r) (del_keypath ft c r)) ->
  del_ok (do o <- del_arr rec (payload (VArr l)) (arr_hdr l) ks; Ok (wrap_arr o)) (del_keypath (S ft) (VArr l) ks).
Proof.
  intros Hw Hrec. destruct (wf_arr l Hw) as [Hall Hn]. destruct (arr_hdr_facts l Hn) as (_ & _ & HL).
  assert (Hsz : Forall (fun v => wf_size v = true) l) by (eapply Forall_impl; [|exact Hall]; intros c Hc; apply wfb_size; exact Hc).
  destruct ks as [|[i|n|n] r]; try reflexivity.
  cbn [del_keypath del_arr]. rewrite HL, lenZ_lenN.
  (* the byte walker resolves and tests the index by the same function as the Value walker (I32.v, generated formulas) *)
  rewrite <- I32.DKP_RESOLVE_text_eq_bytes, <- I32.DKP_SKIP_text_eq_bytes.
  set (j := DKP_T_RESOLVE i (lenZ l)).
  destruct (DKP_T_SKIP j (lenZ l)) eqn:C; [reflexivity|].
  assert (Hj : (0 <= j < lenZ l)%Z) by (apply I32.DKP_T_SKIP_in_bounds; exact C).
  destruct (nth_opt_some l (Z.to_nat j)) as [x Hx]; [unfold lenZ in Hj; lia|].
  destruct (nth_opt_split l _ x Hx) as (pre & post & El & Lp & _).
  rewrite <- (app_nil_r (payload (VArr l))), (iterate_array_arr _ _ l [] _ Hsz Hn).
  specialize (Hrec (KIndex i) r eq_refl x).
  assert (Ei : Z.to_N j = lenN pre) by (unfold lenN; lia).
  rewrite Hx. rewrite <- Lp. rewrite El in *. clear El.
  rewrite (del_arr_fold rec (Z.to_N j) pre x post r Ei), remove_nth_mid.
  apply Forall_app in Hsz. destruct Hsz as [Hpre Hpost]. inversion Hpost as [|? ? Hxs Hpost']; subst.
  destruct r as [|k2 r2]; cbn [kp_nil bind wrap_arr].
  - intros Hs. eexists _, _. split; [reflexivity|]. apply arr_entry_ok; [rewrite !map_app; reflexivity|exact Hs|].
    apply Forall_app. split; apply raw_all_ok; assumption.
  - destruct (is_container x) eqn:Cx; [|reflexivity].
    specialize (Hrec ltac:(apply in_or_app; right; left; reflexivity) eq_refl).
    destruct (del_keypath ft x (k2 :: r2)) as [x'|]; cbn [del_ok] in Hrec |- *.
    + rewrite replace_nth_mid. intros Hs.
      assert (Hx' : wf_size x' = true).
      { apply wf_size_arr in Hs. apply Forall_app in Hs. destruct Hs as [_ Hs]. inversion Hs; assumption. }
      destruct (Hrec Hx') as (e & kp' & E1 & E2 & E3). rewrite E1. cbn [bind wrap_arr].
      eexists _, _. split; [reflexivity|]. apply arr_entry_ok; [|exact Hs|].
      * rewrite !map_app. cbn [map]. rewrite E2. reflexivity.
      * apply Forall_app. split; [apply raw_all_ok; assumption|]. constructor; [exact E3|apply raw_all_ok; assumption].
    + rewrite Hrec. reflexivity.
Qed.

(* ---- objects ---- *)
Lemma bytes_eqb_sym a b : bytes_eqb a b = bytes_eqb b a.
Proof. rewrite !bytes_eqb_cmp, (bytes_antisym a b). destruct (bytes_cmp b a); reflexivity. Qed.
Lemma bytes_eqb_true a b : bytes_eqb a b = true -> a = b.
Proof. rewrite bytes_eqb_cmp. destruct (bytes_cmp a b) eqn:E; try discriminate. intros _. apply bytes_cmp_eq. exact E. Qed.
Lemma bytes_eqb_refl a : bytes_eqb a a = true.
Proof. rewrite bytes_eqb_cmp, bytes_refl. reflexivity. Qed.

Definition key_ne (name : list N) (kv : list N * value) : Prop := bytes_eqb (fst kv) name = false.

Lemma ss_app_l {V} (a b : list (list N * V)) : strongly_sorted (a ++ b) -> strongly_sorted a.
Proof.
  induction a as [|[k x] a IH]; cbn [app strongly_sorted]; [auto|]. intros [H1 H2]. split; [|apply IH; exact H2].
  apply Forall_app in H1. apply H1.
Qed.
Lemma ss_all_below {V} (a t : list (list N * V)) : strongly_sorted (a ++ t) -> Forall (fun kv => keys_below (fst kv) a) t.
Proof.
  induction a as [|[k x] a IH]; cbn [app strongly_sorted].
  - intros _. apply Forall_forall. intros kv _. constructor.
  - intros [H1 H2]. specialize (IH H2). apply Forall_app in H1. destruct H1 as [_ H1].
    rewrite Forall_forall in *. intros kv Hin. constructor; [|apply IH; exact Hin].
    cbn [fst]. rewrite bytes_antisym, (H1 kv Hin). reflexivity.
Qed.

Lemma obj_find name (o : list (list N * value)) : strongly_sorted o ->
  Forall (key_ne name) o \/
  exists pre x post, o = pre ++ (name, x) :: post /\ Forall (key_ne name) pre /\ Forall (key_ne name) post.
Proof.
  induction o as [|[k x] o IH]; intros So; [left; constructor|].
  destruct So as [S1 S2]. destruct (bytes_eqb k name) eqn:E.
  - right. apply bytes_eqb_true in E. subst k. exists [], x, o. split; [reflexivity|]. split; [constructor|].
    eapply Forall_impl; [|exact S1]. intros kv Hkv. unfold key_ne. cbn beta in Hkv.
    rewrite bytes_eqb_cmp, bytes_antisym, Hkv. reflexivity.
  - destruct (IH S2) as [Hne|(pre & x0 & post & Eo & Hp & Hq)].
    + left. constructor; [exact E|exact Hne].
    + right. exists ((k, x) :: pre), x0, post. split; [rewrite Eo; reflexivity|]. split; [constructor; [exact E|exact Hp]|exact Hq].
Qed.

Lemma lookup_ne name (o : list (list N * value)) : Forall (key_ne name) o -> assoc_lookup name o = None.
Proof.
  induction 1 as [|[k x] o Hk _ IH]; cbn [assoc_lookup]; [reflexivity|]. unfold key_ne in Hk. cbn [fst] in Hk.
  rewrite bytes_eqb_sym, Hk. exact IH.
Qed.
Lemma lookup_mid name (pre : list (list N * value)) x post : Forall (key_ne name) pre ->
  assoc_lookup name (pre ++ (name, x) :: post) = Some x.
Proof.
  induction 1 as [|[k y] o Hk _ IH]; cbn [app assoc_lookup]; [rewrite bytes_eqb_refl; reflexivity|].
  unfold key_ne in Hk. cbn [fst] in Hk. rewrite bytes_eqb_sym, Hk. exact IH.
Qed.
Lemma remove_ne name (o : list (list N * value)) : Forall (key_ne name) o -> assoc_remove name o = o.
Proof.
  unfold assoc_remove. induction 1 as [|[k x] o Hk _ IH]; cbn [filter]; [reflexivity|]. unfold key_ne in Hk. cbn [fst] in *.
  rewrite bytes_eqb_sym, Hk. cbn [negb]. rewrite IH. reflexivity.
Qed.
Lemma remove_mid name (pre : list (list N * value)) x post : Forall (key_ne name) pre -> Forall (key_ne name) post ->
  assoc_remove name (pre ++ (name, x) :: post) = pre ++ post.
Proof.
  intros Hp Hq. unfold assoc_remove. rewrite filter_app. cbn [filter fst]. rewrite bytes_eqb_refl. cbn [negb].
  fold (assoc_remove name pre). fold (assoc_remove name post). rewrite (remove_ne name pre Hp), (remove_ne name post Hq). reflexivity.
Qed.
Lemma replace_ne name x' (o : list (list N * value)) : Forall (key_ne name) o -> assoc_replace name x' o = o.
Proof.
  unfold assoc_replace. induction 1 as [|[k x] o Hk _ IH]; cbn [map]; [reflexivity|]. unfold key_ne in Hk. cbn [fst] in *.
  rewrite bytes_eqb_sym, Hk, IH. reflexivity.
Qed.
Lemma replace_mid name x' (pre : list (list N * value)) x post : Forall (key_ne name) pre -> Forall (key_ne name) post ->
  assoc_replace name x' (pre ++ (name, x) :: post) = pre ++ (name, x') :: post.
Proof.
  intros Hp Hq. unfold assoc_replace. rewrite map_app. cbn [map fst]. rewrite bytes_eqb_refl.
  fold (assoc_replace name x' pre). fold (assoc_replace name x' post). rewrite (replace_ne name x' pre Hp), (replace_ne name x' post Hq). reflexivity.
Qed.

Lemma raw_members_fst a : map fst (raw_members a) = map fst a.
Proof. unfold raw_members. rewrite map_map. reflexivity. Qed.
Lemma raw_members_items a : map (fun ke => entry_item (snd ke)) (raw_members a) = map (fun kv => entry_item (raw_of (snd kv))) a.
Proof. unfold raw_members. rewrite map_map. reflexivity. Qed.
Lemma raw_members_ok a : Forall (fun kv => wf_size (snd kv) = true) a -> Forall (fun ke => entry_okb (snd ke) = true) (raw_members a).
Proof. intros H. unfold raw_members. rewrite Forall_map. eapply Forall_impl; [|exact H]. intros kv Hkv. apply raw_ok. exact Hkv. Qed.

Section DelObj.
  Variable rec : list N -> list keypath -> res (option (entry * list keypath)).
  Variable name : list N.
  Let step := fun s (kv : list N * value) => del_obj_step rec name s (fst kv) (ent (snd kv)) (payload (snd kv)).
  Let fin := fun st : list (list N * entry) * list keypath => Ok (Some st) : res (option (list (list N * entry) * list keypath)).

  Lemma del_obj_skip (t rest : list (list N * value)) : forall b kp, strongly_sorted t ->
    Forall (fun kv => keys_below (fst kv) b) t -> Forall (key_ne name) t ->
    fold_exit step fin (t ++ rest) (b, kp) = fold_exit step fin rest (b ++ raw_members t, kp).
  Proof.
    induction t as [|[k x] t IH]; intros b kp St Hb Hne; cbn [app].
    - rewrite app_nil_r. reflexivity.
    - cbn [fold_exit]. unfold step at 1. unfold del_obj_step. cbn [fst snd].
      inversion Hne as [|? ? Hk Hne']; subst. unfold key_ne in Hk. cbn [fst] in Hk. rewrite Hk. cbn [negb bind].
      inversion Hb as [|? ? Hbk Hb']; subst. cbn [fst] in Hbk. rewrite (push_last _ _ _ Hbk).
      destruct St as [S1 S2]. rewrite IH; [|exact S2| |exact Hne'].
      + fold (raw_of x). rewrite <- app_assoc. reflexivity.
      + rewrite Forall_forall in *. intros kv Hin. apply Forall_app. split; [apply Hb'; exact Hin|].
        constructor; [|constructor]. cbn [fst]. rewrite bytes_antisym, (S1 kv Hin). reflexivity.
  Qed.

  Lemma del_obj_fold_ne (o : list (list N * value)) r : strongly_sorted o -> Forall (key_ne name) o ->
    fold_exit step fin o ([], r) = Ok (Some (raw_members o, r)).
  Proof.
    intros So Hne. pose proof (del_obj_skip o [] [] r So) as SK. rewrite app_nil_r in SK. rewrite SK; [reflexivity| |exact Hne].
    apply Forall_forall. intros kv _. constructor.
  Qed.

  Lemma del_obj_fold (pre : list (list N * value)) x post r : strongly_sorted (pre ++ (name, x) :: post) ->
    Forall (key_ne name) pre -> Forall (key_ne name) post ->
    fold_exit step fin (pre ++ (name, x) :: post) ([], r)
    = if kp_nil r then Ok (Some (raw_members pre ++ raw_members post, r))
      else if is_container x then
        do o <- rec (payload x) r;
        match o with
        | Some (e, kp') => Ok (Some (raw_members pre ++ (name, e) :: raw_members post, kp'))
        | None => Ok None
        end
      else Ok None.
  Proof.
    intros So Hp Hq.
    rewrite (del_obj_skip pre ((name, x) :: post) [] r (ss_app_l _ _ So)); [| |exact Hp].
    2:{ apply Forall_forall. intros kv _. constructor. }
    cbn [app fold_exit]. unfold step at 1. unfold del_obj_step. cbn [fst snd]. rewrite bytes_eqb_refl. cbn [negb].
    assert (So' : strongly_sorted ((pre ++ [(name, x)]) ++ post)) by (rewrite <- app_assoc; exact So).
    pose proof (ss_all_below _ _ So') as AB. pose proof (ss_app_r _ _ So) as Sx. destruct Sx as [_ Spost].
    pose proof (ss_app_mid _ _ _ _ So) as Bn.
    assert (SK : forall b kp, map fst b = map fst pre \/ map fst b = map fst (pre ++ [(name, x)]) ->
                 fold_exit step fin post (b, kp) = Ok (Some (b ++ raw_members post, kp))).
    { intros b kp Hbk. pose proof (del_obj_skip post [] b kp Spost) as SK. rewrite app_nil_r in SK. rewrite SK; [reflexivity| |exact Hq].
      rewrite Forall_forall in *. intros kv Hin. specialize (AB kv Hin). unfold keys_below in *.
      assert (G : Forall (fun k => bytes_cmp (fst kv) k = Gt) (map fst b)).
      { destruct Hbk as [-> | ->]; rewrite Forall_map; [|exact AB]. apply Forall_app in AB. apply AB. }
      rewrite Forall_map in G. exact G. }
    destruct (kp_nil r); cbn [negb bind].
    - rewrite SK; [reflexivity|]. left. apply raw_members_fst.
    - rewrite tag_container. destruct (is_container x); [|reflexivity].
      destruct (rec (payload x) r) as [[[e kp']|]|err|]; cbn [bind]; try reflexivity.
      rewrite (push_last _ _ _ (keys_below_raw _ _ Bn)). rewrite SK.
      + rewrite <- app_assoc. reflexivity.
      + right. rewrite !map_app, raw_members_fst. reflexivity.
  Qed.
End DelObj.

Lemma del_obj_name rec o n r ft : wfb (VObj o) = true ->
  (forall c, In c (vals o) -> is_container c = true -> del_ok (rec (payload c) r) (del_keypath ft c r)) ->
  del_ok (do o' <- iterate_object_entries (payload (VObj o)) (obj_hdr o) (del_obj_step rec n) (fun st => Ok (Some st)) ([], r);
          Ok (wrap_obj o'))
         (match r with
          | [] => Some (VObj (assoc_remove n o))
          | _ :: _ => match assoc_lookup n o with
                      | Some x => if is_container x then
                                    match del_keypath ft x r with
                                    | Some x' => Some (VObj (assoc_replace n x' o))
                                    | None => None end
                                  else None
                      | None => Some (VObj o)
                      end
          end).
Proof.
  intros Hw Hrec. destruct (obj_ok_of_wf o Hw) as [Ho Hn]. pose proof (obj_sorted o Hw) as So.
  rewrite <- (app_nil_r (payload (VObj o))), (iterate_object_entries_obj _ _ o [] _ Ho Hn).
  assert (Same : del_ok (Ok (wrap_obj (Some (raw_members o, r)))) (Some (VObj o))).
  { intros Hs. cbn [wrap_obj]. eexists _, _. split; [reflexivity|]. split; [apply entry_item_obj_raw|apply obj_raw_ok; exact Hs]. }
  destruct (obj_find n o So) as [Hne|(pre & x & post & Eo & Hp & Hq)].
  - rewrite (del_obj_fold_ne rec n o r So Hne). cbn [bind]. rewrite (remove_ne n o Hne), (lookup_ne n o Hne).
    destruct r; exact Same.
  - subst o. rewrite (del_obj_fold rec n pre x post r So Hp Hq), (remove_mid n pre x post Hp Hq), (lookup_mid n pre x post Hp).
    destruct r as [|k2 r2]; cbn [kp_nil bind wrap_obj].
    + intros Hs. eexists _, _. split; [reflexivity|]. rewrite <- raw_members_app.
      split; [apply entry_item_obj_raw|apply obj_raw_ok; exact Hs].
    + destruct (is_container x) eqn:Cx; [|reflexivity].
      specialize (Hrec x ltac:(unfold vals; rewrite map_app; apply in_or_app; right; left; reflexivity) Cx).
      destruct (del_keypath ft x (k2 :: r2)) as [x'|]; cbn [del_ok] in Hrec |- *.
      * rewrite (replace_mid n x' pre x post Hp Hq). intros Hs.
        pose proof (proj1 (wf_size_obj_iff _) Hs) as (_ & _ & Hms).
        apply Forall_app in Hms. destruct Hms as [Hms1 Hms2]. inversion Hms2 as [|? ? [_ Hx'] Hms3]; subst. cbn [snd] in Hx'.
        destruct (Hrec Hx') as (e & kp' & E1 & E2 & E3). rewrite E1. cbn [bind wrap_obj].
        eexists _, _. split; [reflexivity|]. apply obj_entry_ok; [| |exact Hs|].
        -- rewrite !map_app. cbn [map fst]. rewrite !raw_members_fst. reflexivity.
        -- rewrite !map_app. cbn [map snd]. rewrite !raw_members_items, E2. reflexivity.
        -- apply Forall_app. split; [apply raw_members_ok; eapply Forall_impl; [|exact Hms1]; intros kv H; apply H|].
           constructor; [exact E3|]. apply raw_members_ok. eapply Forall_impl; [|exact Hms3]. intros kv H. apply H.
      * rewrite Hrec. reflexivity.
Qed.

Lemma del_obj_spec rec o ks ft : wfb (VObj o) = true ->
  (forall k r, ks = k :: r -> forall c, In c (vals o) -> is_container c = true -> del_ok (rec (payload c) r) (del_keypath ft c r)) ->
  del_ok (do o' <- del_obj rec (payload (VObj o)) (obj_hdr o) ks; Ok (wrap_obj o')) (del_keypath (S ft) (VObj o) ks).
Proof.
  intros Hw Hrec. destruct ks as [|[i|n|n] r]; try reflexivity.
  - exact (del_obj_name rec o n r ft Hw (Hrec _ _ eq_refl)).
  - exact (del_obj_name rec o n r ft Hw (Hrec _ _ eq_refl)).
Qed.

(* ---- the nested call: both fuels (key-path length) are enough ---- *)
Lemma del_keypath_nil ft x : del_keypath ft x [] = None.
Proof. destruct ft as [|ft]; [reflexivity|]. destruct x; reflexivity. Qed.

Lemma del_item_spec : forall ks x fw ft, wfb x = true -> is_container x = true ->
  (length ks < fw)%nat -> (length ks <= ft)%nat -> del_ok (del_item fw (payload x) ks) (del_keypath ft x ks).
Proof.
  induction ks as [|k r IH]; intros x fw ft Hw Hc Hfw Hft.
  - rewrite del_keypath_nil. destruct fw as [|f]; [cbn [length] in Hfw; lia|]. cbn [del_item del_ok].
    destruct x as [| | | |l|o]; try discriminate Hc.
    + destruct (wf_arr l Hw) as [_ Hn]. destruct (arr_hdr_facts l Hn) as (_ & HT & _).
      rewrite <- (app_nil_r (payload (VArr l))), (read_hdr_arr0 l [] Hn), HT, N.eqb_refl. reflexivity.
    + destruct (obj_ok_of_wf o Hw) as [_ Hn]. destruct (obj_hdr_facts o Hn) as (_ & HT & _).
      rewrite <- (app_nil_r (payload (VObj o))), (read_hdr_obj0 o [] Hn), HT, obj_type_not_arr, N.eqb_refl. reflexivity.
  - destruct fw as [|f]; [cbn [length] in Hfw; lia|]. destruct ft as [|ft]; [cbn [length] in Hft; lia|]. cbn [length] in Hfw, Hft.
    destruct x as [| | | |l|o]; try discriminate Hc.
    + destruct (wf_arr l Hw) as [Hall Hn]. destruct (arr_hdr_facts l Hn) as (_ & HT & _).
      assert (R : read_u32 (payload (VArr l)) 0 = Some (arr_hdr l))
        by (rewrite <- (app_nil_r (payload (VArr l))); apply (read_hdr_arr0 l [] Hn)).
      cbn [del_item]. rewrite R, HT, N.eqb_refl.
      apply (del_arr_spec (del_item f) l (k :: r) ft Hw).
      intros k0 r0 E c Hin Cc. injection E as _ <-. apply IH; [|exact Cc|lia|lia].
      rewrite Forall_forall in Hall. apply Hall. exact Hin.
    + destruct (obj_ok_of_wf o Hw) as [_ Hn]. destruct (obj_hdr_facts o Hn) as (_ & HT & _).
      assert (R : read_u32 (payload (VObj o)) 0 = Some (obj_hdr o))
        by (rewrite <- (app_nil_r (payload (VObj o))); apply (read_hdr_obj0 o [] Hn)).
      cbn [del_item]. rewrite R, HT, obj_type_not_arr, N.eqb_refl.
      apply (del_obj_spec (del_item f) o (k :: r) ft Hw).
      intros k0 r0 E c Hin Cc. injection E as _ <-. apply IH; [|exact Cc|lia|lia].
      apply (wfb_obj_elem o c Hw Hin).
Qed.

Lemma item_container e v' : entry_item e = (ent v', payload v') -> fst (fst (entry_item e)) = CONTAINER_TAG -> enc v' = payload v'.
Proof.
  intros E T. rewrite E in T. cbn [fst] in T. pose proof (tag_container v') as C. rewrite T, N.eqb_refl in C.
  destruct v'; try discriminate C; reflexivity.
Qed.

(* the size hypothesis is on the result (it is never larger than the input; not proved here) *)
Theorem delete_by_keypath_b_enc v ks buf : wfb v = true ->
  (forall y, delete_by_keypath_t v ks = Ok y -> wf_size y = true) ->
  delete_by_keypath_b (enc v) ks buf = res_map (fun y => buf ++ enc y) (delete_by_keypath_t v ks).
Proof.
  intros Hw Hres. rewrite ?delete_by_keypath_b_eq. destruct v as [|b|s|n|l|o];
    try (rewrite read_hdr_scalar by reflexivity; destruct scalar_hdr_type as [T1 T2]; rewrite T1, T2; reflexivity).
  - destruct (wf_arr l Hw) as [Hall Hn]. destruct (arr_hdr_facts l Hn) as (_ & HT & _).
    assert (R : read_u32 (payload (VArr l)) 0 = Some (arr_hdr l))
      by (rewrite <- (app_nil_r (payload (VArr l))); apply (read_hdr_arr0 l [] Hn)).
    rewrite enc_arr, R, HT, N.eqb_refl.
    pose proof (del_arr_spec (del_item (length ks)) l ks (length ks) Hw) as D.
    assert (Hrec : forall k r, ks = k :: r -> forall c, In c l -> is_container c = true ->
                   del_ok (del_item (length ks) (payload c) r) (del_keypath (length ks) c r)).
    { intros k r E c Hin Cc. subst ks. apply del_item_spec; [|exact Cc|cbn [length]; lia|cbn [length]; lia].
      rewrite Forall_forall in Hall. apply Hall. exact Hin. }
    specialize (D Hrec). cbn [delete_by_keypath_t] in *.
    destruct (del_keypath (S (length ks)) (VArr l) ks) as [v'|]; cbn [del_ok res_map] in D |- *.
    + destruct (D (Hres v' eq_refl)) as (e & kp' & E1 & E2 & E3).
      destruct (del_arr (del_item (length ks)) (payload (VArr l)) (arr_hdr l) ks) as [[[es kp'']|]|err|]; cbn [bind wrap_arr] in E1; try discriminate E1.
      injection E1 as <- _. cbn [bind]. rewrite (build_arr_into_spec _ _ E3). unfold epl. rewrite E2. cbn [snd].
      rewrite (item_container _ _ E2 eq_refl). reflexivity.
    + destruct (del_arr (del_item (length ks)) (payload (VArr l)) (arr_hdr l) ks) as [[[es kp'']|]|err|]; cbn [bind wrap_arr] in D; try discriminate D.
      reflexivity.
  - destruct (obj_ok_of_wf o Hw) as [_ Hn]. destruct (obj_hdr_facts o Hn) as (_ & HT & _).
    assert (R : read_u32 (payload (VObj o)) 0 = Some (obj_hdr o))
      by (rewrite <- (app_nil_r (payload (VObj o))); apply (read_hdr_obj0 o [] Hn)).
    rewrite enc_obj, R, HT, obj_type_not_arr, N.eqb_refl.
    pose proof (del_obj_spec (del_item (length ks)) o ks (length ks) Hw) as D.
    assert (Hrec : forall k r, ks = k :: r -> forall c, In c (vals o) -> is_container c = true ->
                   del_ok (del_item (length ks) (payload c) r) (del_keypath (length ks) c r)).
    { intros k r E c Hin Cc. subst ks. apply del_item_spec; [|exact Cc|cbn [length]; lia|cbn [length]; lia].
      apply (wfb_obj_elem o c Hw Hin). }
    specialize (D Hrec). cbn [delete_by_keypath_t] in *.
    destruct (del_keypath (S (length ks)) (VObj o) ks) as [v'|]; cbn [del_ok res_map] in D |- *.
    + destruct (D (Hres v' eq_refl)) as (e & kp' & E1 & E2 & E3).
      destruct (del_obj (del_item (length ks)) (payload (VObj o)) (obj_hdr o) ks) as [[[b kp'']|]|err|]; cbn [bind wrap_obj] in E1; try discriminate E1.
      injection E1 as <- _. cbn [bind]. rewrite (build_obj_into_spec _ _ E3). unfold epl. rewrite E2. cbn [snd].
      rewrite (item_container _ _ E2 eq_refl). reflexivity.
    + destruct (del_obj (del_item (length ks)) (payload (VObj o)) (obj_hdr o) ks) as [[[b kp'']|]|err|]; cbn [bind wrap_obj] in D; try discriminate D.
      reflexivity.
Qed.

Theorem delete_by_keypath_w_enc v ks buf : wfb v = true -> top_ok v ->
  (forall y, delete_by_keypath_t v ks = Ok y -> wf_size y = true) ->
  delete_by_keypath_w (enc v) ks buf = res_map (fun y => buf ++ enc y) (delete_by_keypath_t v ks).
Proof.
  intros Hw Ht Hres. rewrite ?delete_by_keypath_w_eq. rewrite (is_jsonb_enc v Hw Ht). apply delete_by_keypath_b_enc; assumption.
Qed.

(* ---- deleting never grows a document: the size hypothesis above always holds ---- *)
Lemma wf_size_arr_shrink l l' : wf_size (VArr l) = true -> lenN l' <= lenN l -> sum_len l' <= sum_len l ->
  Forall (fun v => wf_size v = true) l' ->
  wf_size (VArr l') = true /\ lenN (payload (VArr l')) <= lenN (payload (VArr l)).
Proof. rewrite !wf_size_arr_iff, !plen_arr. intros (A & B & C) H1 H2 H3. repeat split; try lia. exact H3. Qed.
Lemma wf_size_obj_shrink o o' : wf_size (VObj o) = true -> lenN o' <= lenN o -> sum_keys o' <= sum_keys o ->
  sum_len (vals o') <= sum_len (vals o) -> Forall mem_size o' ->
  wf_size (VObj o') = true /\ lenN (payload (VObj o')) <= lenN (payload (VObj o)).
Proof. rewrite !wf_size_obj_iff, !plen_obj. intros (A & B & C) H1 H2 H3 H4. repeat split; try lia. exact H4. Qed.

Lemma sum_len_cons x l : sum_len (x :: l) = lenN (payload x) + sum_len l. Proof. reflexivity. Qed.
Lemma sum_keys_cons (kv : list N * value) o : sum_keys (kv :: o) = lenN (fst kv) + sum_keys o. Proof. reflexivity. Qed.
Lemma vals_app a b : vals (a ++ b) = vals a ++ vals b. Proof. apply map_app. Qed.
Lemma vals_cons (kv : list N * value) o : vals (kv :: o) = snd kv :: vals o. Proof. reflexivity. Qed.

Lemma del_keypath_size : forall ft x ks x', wfb x = true -> del_keypath ft x ks = Some x' ->
  wf_size x' = true /\ lenN (payload x') <= lenN (payload x).
Proof.
  induction ft as [|f IH]; intros v ks v' Hw H; cbn [del_keypath] in H; [discriminate H|].
  pose proof (wfb_size v Hw) as Hs.
  destruct v as [|b|s|nm|l|o]; try discriminate H; destruct ks as [|k r]; try discriminate H.
  - destruct k as [i|n|n]; try discriminate H.
    set (j := DKP_T_RESOLVE i (lenZ l)) in *.
    destruct (DKP_T_SKIP j (lenZ l)) eqn:C; [discriminate H|]. apply I32.DKP_T_SKIP_in_bounds in C.
    destruct (nth_opt_some l (Z.to_nat j)) as [x Hx]; [unfold lenZ in C; lia|].
    destruct (nth_opt_split l _ x Hx) as (pre & post & El & Lp & _).
    pose proof (wf_size_arr l Hs) as Hall. destruct (wf_arr l Hw) as [Hallw _].
    rewrite Hx, <- Lp, El in H. rewrite El in Hall, Hallw.
    apply Forall_app in Hall. destruct Hall as [Hp Hq]. inversion Hq as [|? ? Hxs Hq']; subst.
    apply Forall_app in Hallw. destruct Hallw as [_ Hqw]. inversion Hqw as [|? ? Hxw _]; subst.
    destruct r as [|k2 r2].
    + rewrite remove_nth_mid in H. injection H as <-. apply (wf_size_arr_shrink _ _ Hs).
      * rewrite !lenN_app, lenN_cons. lia.
      * rewrite !sum_len_app, sum_len_cons. lia.
      * apply Forall_app. split; assumption.
    + destruct (is_container x); [|discriminate H].
      destruct (del_keypath f x (k2 :: r2)) as [x'|] eqn:E; [|discriminate H]. rewrite replace_nth_mid in H. injection H as <-.
      destruct (IH x _ x' Hxw E) as [S1 S2]. apply (wf_size_arr_shrink _ _ Hs).
      * rewrite !lenN_app, !lenN_cons. lia.
      * rewrite !sum_len_app, !sum_len_cons. lia.
      * apply Forall_app. split; [assumption|]. constructor; assumption.
  - assert (G : forall n, (match r with
                 | [] => Some (VObj (assoc_remove n o))
                 | _ :: _ => match assoc_lookup n o with
                             | Some x => if is_container x then match del_keypath f x r with
                                                                | Some x' => Some (VObj (assoc_replace n x' o))
                                                                | None => None end else None
                             | None => Some (VObj o) end end) = Some v' ->
              wf_size v' = true /\ lenN (payload v') <= lenN (payload (VObj o))).
    { clear H. intros n H. pose proof (proj1 (wf_size_obj_iff o) Hs) as (_ & _ & Hms).
      destruct (obj_find n o (obj_sorted o Hw)) as [Hne|(pre & x & post & Eo & Hp & Hq)].
      - rewrite (remove_ne n o Hne), (lookup_ne n o Hne) in H. destruct r; injection H as <-; (split; [exact Hs|lia]).
      - rewrite Eo in H. rewrite (remove_mid n pre x post Hp Hq), (lookup_mid n pre x post Hp) in H.
        rewrite Eo in Hms. apply Forall_app in Hms. destruct Hms as [Hm1 Hm2]. inversion Hm2 as [|? ? [Hk Hxs] Hm3]; subst. cbn [fst snd] in *.
        destruct r as [|k2 r2].
        + injection H as <-. apply (wf_size_obj_shrink _ _ Hs).
          * rewrite !lenN_app, lenN_cons. lia.
          * rewrite !sum_keys_app, sum_keys_cons. lia.
          * rewrite !vals_app, vals_cons, !sum_len_app, sum_len_cons. lia.
          * apply Forall_app. split; assumption.
        + destruct (is_container x); [|discriminate H].
          destruct (del_keypath f x (k2 :: r2)) as [x'|] eqn:E; [|discriminate H].
          rewrite (replace_mid n x' pre x post Hp Hq) in H. injection H as <-.
          assert (Hxw : wfb x = true) by (apply (wfb_obj_elem _ x Hw); rewrite vals_app, vals_cons; apply in_or_app; right; left; reflexivity).
          destruct (IH x _ x' Hxw E) as [S1 S2]. apply (wf_size_obj_shrink _ _ Hs).
          * rewrite !lenN_app, !lenN_cons. lia.
          * rewrite !sum_keys_app, !sum_keys_cons. cbn [fst]. lia.
          * rewrite !vals_app, !vals_cons, !sum_len_app, !sum_len_cons. cbn [snd]. lia.
          * apply Forall_app. split; [assumption|]. constructor; [split; assumption|assumption]. }
    destruct k as [i|n|n]; try discriminate H; apply (G n H).
Qed.

Lemma delete_by_keypath_size v ks y : wfb v = true -> delete_by_keypath_t v ks = Ok y -> wf_size y = true.
Proof.
  intros Hw H. unfold delete_by_keypath_t in H. destruct v as [|b|s|n|l|o]; try discriminate H.
  - destruct (del_keypath _ _ _) as [v'|] eqn:E; injection H as <-; [apply (del_keypath_size _ _ _ _ Hw E)|apply wfb_size; exact Hw].
  - destruct (del_keypath _ _ _) as [v'|] eqn:E; injection H as <-; [apply (del_keypath_size _ _ _ _ Hw E)|apply wfb_size; exact Hw].
Qed.

Theorem delete_by_keypath_b_enc' v ks buf : wfb v = true ->
  delete_by_keypath_b (enc v) ks buf = res_map (fun y => buf ++ enc y) (delete_by_keypath_t v ks).
Proof. intros Hw. apply delete_by_keypath_b_enc; [exact Hw|]. intros y. apply delete_by_keypath_size. exact Hw. Qed.
Theorem delete_by_keypath_w_enc' v ks buf : wfb v = true -> top_ok v ->
  delete_by_keypath_w (enc v) ks buf = res_map (fun y => buf ++ enc y) (delete_by_keypath_t v ks).
Proof. intros Hw Ht. apply delete_by_keypath_w_enc; [exact Hw|exact Ht|]. intros y. apply delete_by_keypath_size. exact Hw. Qed.

(* every editor here keeps the result well-formed (shape: TreeWf / TreeWf2; size: above), so edits can be chained *)
Lemma strip_nulls_wfb v : wfb v = true -> wfb (strip_nulls_t v) = true.
Proof.
  intros Hw. unfold wfb in *. apply andb_true_iff in Hw. destruct Hw as [H1 H2]. apply andb_true_iff. split.
  - apply wf_strip_nulls. exact H1.
  - apply (strip_size v H2).
Qed.
Lemma delete_by_keypath_wfb v ks y : wfb v = true -> delete_by_keypath_t v ks = Ok y -> wfb y = true.
Proof.
  intros Hw H. unfold wfb. apply andb_true_iff. split.
  - apply (wf_delete_by_keypath v ks y); [|exact H]. unfold wfb in Hw. apply andb_true_iff in Hw. apply Hw.
  - apply (delete_by_keypath_size v ks y Hw H).
Qed.

(* ================================================================ append-only (C17) *)
(* on encodings, what an editor appends does not depend on what the buffer already holds *)
Lemma res_map_frame {A} (f : A -> list N) (r : res A) buf :
  res_map (fun y => buf ++ f y) r = res_map (app buf) (res_map (fun y => [] ++ f y) r).
Proof. destruct r; reflexivity. Qed.
Theorem edit2_appends v : wfb v = true -> top_ok v -> forall buf,
  (forall ks, object_delete_w (enc v) ks buf = res_map (app buf) (object_delete_w (enc v) ks [])) /\
  (forall ks, object_pick_w (enc v) ks buf = res_map (app buf) (object_pick_w (enc v) ks [])) /\
  strip_nulls_w (enc v) buf = res_map (app buf) (strip_nulls_w (enc v) []) /\
  (forall ks, delete_by_keypath_w (enc v) ks buf = res_map (app buf) (delete_by_keypath_w (enc v) ks [])) /\
  (forall x key upd, wfb x = true -> top_ok x -> (forall y, object_insert_t v key x upd = Ok y -> wf_size y = true) ->
     object_insert_w (enc v) key (enc x) upd buf = res_map (app buf) (object_insert_w (enc v) key (enc x) upd [])).
Proof.
  intros Hw Ht buf. repeat split; intros.
  - rewrite !(object_delete_w_enc v _ _ Hw Ht). apply res_map_frame.
  - rewrite !(object_pick_w_enc v _ _ Hw Ht). apply res_map_frame.
  - rewrite !(strip_nulls_w_enc v _ Hw Ht). reflexivity.
  - rewrite !(delete_by_keypath_w_enc' v _ _ Hw Ht). apply res_map_frame.
  - rewrite !(object_insert_w_enc v x key upd _ Hw Ht) by assumption. apply res_map_frame.
Qed.
