(* TextBinProofs.v — C11: every public function gives the same answer for a JSON text as for its JSONB encoding.
   `stands_for t v` (SetWalkProofs): the argument t is the encoding of v (fewer than 2^24 top-level elements, so that
   is_jsonb recognises it) or a JSON text (not taken for JSONB by is_jsonb) that parse_value reads as v.
   For every function family: `f_w t args = <answer computed on the tree v>` for both forms, hence
   `C11_<family>_same_answer : stands_for t1 v -> stands_for t2 v -> f_w t1 args = f_w t2 args`.

   Where the two forms are NOT literally equal (the decoder reads the integer `-0` back as the unsigned 0 while the text
   parser keeps Int64(0); a text input of to_string that parses is returned as it is, JsonGrammarProofs.parsed_text_is_utf8) the precise relation is stated and the case is
   listed in the comment of the family. *)
From Coq Require Import List NArith ZArith Bool Lia.
Import ListNotations.
From JB Require Import Constants Bytes Utf8 Num Value Codec Decimal JsonText Order TreeOps Contain SetOps CmpKey Render Serde
  Path PathInd PathSem Dispatch Walk CompareWalk ComparableWalk RenderWalk SelWalk CastWalk SerdeWalk KeysWalk EditWalk EditWalk2
  ContainWalk SetWalk.
From JB Require Import NumProofs OrderProofs CodecProofs RoundtripProofs DispatchProofs MiscProofs TextProofs SerdeProofs
  WalkProofs CompareWalkProofs ComparableWalkProofs RenderWalkProofs SelWalkProofs CastWalkProofs SerdeWalkProofs
  KeysWalkProofs EditWalkProofs EditWalk2Proofs ContainWalkProofs SetWalkProofs.
From JB Require Import BufSt EditStProofs.
Open Scope N_scope.
Set Default Timeout 60.
Arguments N.land : simpl never. Arguments N.lor : simpl never. Arguments N.eqb : simpl never. Arguments N.ltb : simpl never.
Arguments N.leb : simpl never. Arguments N.add : simpl never. Arguments N.mul : simpl never. Arguments N.sub : simpl never.
Arguments be32 : simpl never. Arguments read_u32 : simpl never.

Notation stands_for := SetWalkProofs.stands_for.

(* ---------------------------------------------------------------- the two forms *)
Lemma stands_enc v : top_ok v -> stands_for (enc v) v.
Proof. intros T. left. split; [reflexivity|exact T]. Qed.
Lemma stands_text t v : is_jsonb t = false -> parse_value t = Ok v -> stands_for t v.
Proof. intros H P. right. split; assumption. Qed.

Lemma doc_of_text t v : is_jsonb t = false -> parse_value t = Ok v -> doc_of t = Ok v.
Proof. intros H P. unfold doc_of. rewrite H. exact P. Qed.

(* a document argument that is re-encoded first (compare, comparable key, the object editors, array_insert, the set
   functions): both forms become the same bytes *)
Lemma to_vec_text v : wfb v = true -> to_vec v = enc v.
Proof. intros W. apply to_vec_is_layout. apply wfb_size. exact W. Qed.

Lemma res_map_bind {A B} (f : A -> B) (r : res A) : (do x <- r; Ok (f x)) = res_map f r.
Proof. destruct r; reflexivity. Qed.

(* ================================================================ accessors *)
(* array_length, get_by_index, get_by_name, get_by_keypath, object_keys, object_each, array_values: literally the same
   answer; the JSONB outputs are byte-identical (the encoding of the selected sub-value of v). *)
Section Accessors.
  Variables (t : list N) (v : value).
  Hypothesis W : wfb v = true.
  Hypothesis S : stands_for t v.

  Theorem array_length_forms : array_length_w t = Ok (array_length_t v).
  Proof.
    destruct S as [[-> T]|[Ht Hp]]; [apply array_length_w_enc; assumption|].
    unfold array_length_w, array_length_m. rewrite Ht, (doc_of_text t v Ht Hp). reflexivity.
  Qed.
  Theorem get_by_index_forms i : get_by_index_w t i = Ok (option_map enc (get_by_index_t v i)).
  Proof.
    destruct S as [[-> T]|[Ht Hp]]; [apply get_by_index_w_enc; assumption|].
    unfold get_by_index_w, get_by_index_m. rewrite Ht, (doc_of_text t v Ht Hp). reflexivity.
  Qed.
  Theorem get_by_name_forms name ic : get_by_name_w t name ic = Ok (option_map enc (get_by_name_t v name ic)).
  Proof.
    destruct S as [[-> T]|[Ht Hp]]; [apply get_by_name_w_enc; assumption|].
    unfold get_by_name_w, get_by_name_m. rewrite Ht, (doc_of_text t v Ht Hp). reflexivity.
  Qed.
  Theorem get_by_keypath_forms ks : get_by_keypath_w t ks = Ok (option_map enc (get_by_keypath_t v ks)).
  Proof.
    destruct S as [[-> T]|[Ht Hp]]; [apply get_by_keypath_w_enc; assumption|].
    unfold get_by_keypath_w, get_by_keypath_m. rewrite Ht, (doc_of_text t v Ht Hp). reflexivity.
  Qed.
  Theorem object_keys_forms : object_keys_w t = Ok (option_map enc (object_keys_t v)).
  Proof.
    destruct S as [[-> T]|[Ht Hp]]; [apply object_keys_w_enc; assumption|].
    unfold object_keys_w, object_keys_m. rewrite Ht, (doc_of_text t v Ht Hp). reflexivity.
  Qed.
  Theorem object_each_forms :
    object_each_w t = Ok (option_map (map (fun kv => (fst kv, enc (snd kv)))) (object_each_t v)).
  Proof.
    destruct S as [[-> T]|[Ht Hp]]; [apply object_each_w_enc; assumption|].
    unfold object_each_w, object_each_m. rewrite Ht, (doc_of_text t v Ht Hp). reflexivity.
  Qed.
  Theorem array_values_forms : array_values_w t = Ok (option_map (map enc) (array_values_t v)).
  Proof.
    destruct S as [[-> T]|[Ht Hp]]; [apply array_values_w_enc; assumption|].
    unfold array_values_w, array_values_m. rewrite Ht, (doc_of_text t v Ht Hp). reflexivity.
  Qed.

  (* exists_all_keys / exists_any_keys / traverse_check_string *)
  Theorem exists_all_keys_forms ks : exists_all_keys_w t ks = Ok (exists_all_keys_t v ks).
  Proof.
    destruct S as [[-> T]|[Ht Hp]]; [apply exists_all_keys_w_enc; assumption|].
    unfold exists_all_keys_w, exists_all_keys_m. rewrite Ht, (doc_of_text t v Ht Hp). reflexivity.
  Qed.
  Theorem exists_any_keys_forms ks : exists_any_keys_w t ks = Ok (exists_any_keys_t v ks).
  Proof.
    destruct S as [[-> T]|[Ht Hp]]; [apply exists_any_keys_w_enc; assumption|].
    unfold exists_any_keys_w, exists_any_keys_m. rewrite Ht, (doc_of_text t v Ht Hp). reflexivity.
  Qed.
  Theorem traverse_check_string_forms needle : traverse_check_string_w t needle = Ok (traverse_check_string_t v needle).
  Proof.
    destruct S as [[-> T]|[Ht Hp]]; [apply traverse_check_string_w_enc; assumption|].
    unfold traverse_check_string_w, traverse_check_string_m. rewrite Ht, (doc_of_text t v Ht Hp). reflexivity.
  Qed.

  (* to_serde_json / to_serde_json_object (after fix cc6d497 the text branch uses the crate's own parser) *)
  Theorem to_serde_json_forms : to_serde_json_w t = to_serde_json_t v.
  Proof.
    destruct S as [[-> T]|[Ht Hp]]; [apply to_serde_json_w_enc; assumption|].
    unfold to_serde_json_w, to_serde_json_m. rewrite Ht, (doc_of_text t v Ht Hp). reflexivity.
  Qed.
  Theorem to_serde_json_object_forms : to_serde_json_object_w t = to_serde_json_object_t v.
  Proof.
    destruct S as [[-> T]|[Ht Hp]]; [apply to_serde_json_object_w_enc; assumption|].
    unfold to_serde_json_object_w, to_serde_json_object_m. rewrite Ht, (doc_of_text t v Ht Hp). reflexivity.
  Qed.

  (* ---- editors with one document argument: byte-identical output, same error ---- *)
  Theorem delete_by_name_forms name buf :
    delete_by_name_w t name buf = res_map (fun x => buf ++ enc x) (delete_by_name_t v name).
  Proof.
    destruct S as [[-> T]|[Ht Hp]]; [apply delete_by_name_w_enc; assumption|].
    rewrite ?delete_by_name_w_eq. unfold delete_by_name_m, append_enc. rewrite Ht, (doc_of_text t v Ht Hp). cbn [bind].
    apply res_map_bind.
  Qed.
  Theorem delete_by_index_forms i buf :
    delete_by_index_w t i buf = res_map (fun x => buf ++ enc x) (delete_by_index_t v i).
  Proof.
    destruct S as [[-> T]|[Ht Hp]]; [apply delete_by_index_w_enc; assumption|].
    rewrite ?delete_by_index_w_eq. unfold delete_by_index_m, append_enc. rewrite Ht, (doc_of_text t v Ht Hp). cbn [bind].
    apply res_map_bind.
  Qed.
  Theorem delete_by_keypath_forms ks buf :
    delete_by_keypath_w t ks buf = res_map (fun y => buf ++ enc y) (delete_by_keypath_t v ks).
  Proof.
    destruct S as [[-> T]|[Ht Hp]]; [apply delete_by_keypath_w_enc'; assumption|].
    rewrite ?delete_by_keypath_w_eq. unfold delete_by_keypath_m, append_enc. rewrite Ht, (doc_of_text t v Ht Hp). cbn [bind].
    apply res_map_bind.
  Qed.
  Theorem strip_nulls_forms buf : strip_nulls_w t buf = Ok (buf ++ enc (strip_nulls_t v)).
  Proof.
    destruct S as [[-> T]|[Ht Hp]]; [apply strip_nulls_w_enc; assumption|].
    rewrite ?strip_nulls_w_eq. unfold strip_nulls_m, append_enc. rewrite Ht, (doc_of_text t v Ht Hp). reflexivity.
  Qed.
End Accessors.

(* ================================================================ functions that re-encode a text argument first *)
(* object_delete, object_pick, object_insert, array_insert, compare, convert_to_comparable, the four set functions:
   `as_jsonb` of either form is the encoding of v, so nothing after it can tell the forms apart. *)
Lemma as_jsonb_same t : EditWalk2.as_jsonb t = SetWalk.as_jsonb t.
Proof. reflexivity. Qed.
Lemma as_jsonb_forms t v : wfb v = true -> stands_for t v -> EditWalk2.as_jsonb t = Ok (enc v).
Proof. intros W S. rewrite as_jsonb_same. apply as_jsonb_stands; assumption. Qed.

Theorem object_delete_forms t v ks buf : wfb v = true -> stands_for t v ->
  object_delete_w t ks buf = res_map (fun y => buf ++ enc y) (object_delete_t v ks).
Proof. intros W S. rewrite ?object_delete_w_eq. rewrite (as_jsonb_forms t v W S). cbn [bind]. apply object_delete_b_enc. exact W. Qed.
Theorem object_pick_forms t v ks buf : wfb v = true -> stands_for t v ->
  object_pick_w t ks buf = res_map (fun y => buf ++ enc y) (object_pick_t v ks).
Proof. intros W S. rewrite ?object_pick_w_eq. rewrite (as_jsonb_forms t v W S). cbn [bind]. apply object_pick_b_enc. exact W. Qed.
(* both document arguments independently (all four combinations) *)
Theorem object_insert_forms t u v x key upd buf : wfb v = true -> wfb x = true -> stands_for t v -> stands_for u x ->
  (forall y, object_insert_t v key x upd = Ok y -> wf_size y = true) ->
  object_insert_w t key u upd buf = res_map (fun y => buf ++ enc y) (object_insert_t v key x upd).
Proof.
  intros W Wx S Sx Hres. rewrite ?object_insert_w_eq. rewrite (as_jsonb_forms t v W S), (as_jsonb_forms u x Wx Sx). cbn [bind].
  apply object_insert_b_enc; [exact W|apply wfb_size; exact Wx|exact Hres].
Qed.
Theorem array_insert_forms t u v x pos buf : wfb v = true -> wfb x = true -> stands_for t v -> stands_for u x ->
  wf_size (array_insert_t v pos x) = true ->
  array_insert_w t pos u buf = Ok (buf ++ enc (array_insert_t v pos x)).
Proof.
  intros W Wx S Sx Hres. rewrite ?array_insert_w_eq.
  destruct S as [[-> T]|[Ht Hp]]; destruct Sx as [[-> Tx]|[Hu Hq]];
    rewrite ?(is_jsonb_enc v W T), ?(is_jsonb_enc x Wx Tx), ?Ht, ?Hu, ?Hp, ?Hq; cbn [bind];
    rewrite ?(to_vec_text v W), ?(to_vec_text x Wx); apply array_insert_b_enc; assumption.
Qed.

(* compare (C04, last sentence): all four combinations give the order of the documents *)
Theorem compare_forms t u a b : wfb a = true -> wfb b = true -> stands_for t a -> stands_for u b ->
  compare_w t u = Ok (cmp_value a b).
Proof.
  intros Wa Wb Sa Sb. unfold compare_w.
  destruct Sa as [[-> Ta]|[Ht Hp]]; destruct Sb as [[-> Tb]|[Hu Hq]];
    rewrite ?(is_jsonb_enc a Wa Ta), ?(is_jsonb_enc b Wb Tb), ?Ht, ?Hu, ?Hp, ?Hq;
    rewrite ?(to_vec_text a Wa), ?(to_vec_text b Wb); apply compare_b_enc; assumption.
Qed.

(* convert_to_comparable: byte-identical keys (the key is the one of the decoded document, normalise v) *)
Theorem comparable_forms t v buf : wfb v = true -> stands_for t v ->
  comparable_w t buf = appended buf (comparable_key (normalise v)).
Proof.
  intros W [[-> T]|[Ht Hp]]; [apply comparable_w_enc; assumption|].
  unfold comparable_w. rewrite Ht, Hp, (to_vec_text v W). apply comparable_b_enc. exact W.
Qed.

(* the set functions: SetWalkProofs.array_distinct_w_forms, array_intersection_w_forms, array_except_w_forms,
   array_overlap_w_forms already have this shape; restated here so that every family is in one place *)
Definition array_distinct_forms := array_distinct_w_forms.
Definition array_intersection_forms := array_intersection_w_forms.
Definition array_except_forms := array_except_w_forms.
Definition array_overlap_forms := array_overlap_w_forms.

(* ================================================================ what the parser says about the first byte *)
(* the byte at which a value starts fixes its kind (the text branch of type_of looks at nothing else) *)
Definition kind_of_byte (c : N) : option N :=
  if c =? 110 then Some 0
  else if (c =? 116) || (c =? 102) then Some 1
  else if is_digit c || (c =? 45) then Some 2
  else if c =? 34 then Some 3
  else if c =? 91 then Some 4
  else if c =? 123 then Some 5
  else None.

Lemma parse_json_number_kind bs x rest : parse_json_number bs = Ok (x, rest) -> type_of_t x = 2.
Proof.
  unfold parse_json_number.
  repeat match goal with
         | |- context [let '(_, _) := ?x in _] => destruct x
         | |- context [match ?x with _ => _ end] => destruct x; cbn [bind]; try discriminate
         end; intros H; inversion H; subst; reflexivity.
Qed.
Lemma arr_loop_kind pv : forall k first acc bs x rest, arr_loop pv k first acc bs = Ok (x, rest) -> type_of_t x = 4.
Proof.
  induction k as [|k IH]; intros first acc bs x rest; cbn [arr_loop]; [discriminate|].
  destruct (skip_unused bs) as [|c r]; [discriminate|].
  destruct (c =? 93); [intros H; inversion H; subst; reflexivity|].
  destruct (if first then Some (c :: r) else if c =? 44 then Some r else None) as [bs'|]; [|discriminate].
  destruct (pv bs') as [[y bs'']| |]; cbn [bind]; try discriminate. apply IH.
Qed.
Lemma obj_loop_kind pv : forall k first acc bs x rest, obj_loop pv k first acc bs = Ok (x, rest) -> type_of_t x = 5.
Proof.
  induction k as [|k IH]; intros first acc bs x rest; cbn [obj_loop]; [discriminate|].
  destruct (skip_unused bs) as [|c r]; [discriminate|].
  destruct (c =? 125); [intros H; inversion H; subst; reflexivity|].
  destruct (if first then Some (c :: r) else if c =? 44 then Some r else None) as [bs'|]; [|discriminate].
  destruct (pv bs') as [[key bs1]| |]; cbn [bind]; try discriminate.
  destruct key; try discriminate.
  destruct (skip_unused bs1) as [|c2 bs2]; [discriminate|].
  destruct c2 as [|p]; [discriminate|]. do 6 (destruct p; try discriminate).
  destruct (pv bs2) as [[y bs3]| |]; cbn [bind]; try discriminate. apply IH.
Qed.

(* a text that parses: after what the parser skips in front of the value comes a byte that announces the kind of v *)
Theorem parse_value_kind t v : parse_value t = Ok v ->
  exists c r, skip_unused t = c :: r /\ kind_of_byte c = Some (type_of_t v).
Proof.
  unfold parse_value. destruct (parse_json_value (S (length t)) t) as [[v' rest]| |] eqn:E; cbn [bind]; try discriminate.
  destruct (skip_unused rest); [|discriminate]. intros H. inversion H; subst v'. clear H.
  cbn [parse_json_value] in E. destruct (skip_unused t) as [|c r]; [discriminate|].
  exists c, r. split; [reflexivity|]. unfold kind_of_byte.
  destruct (c =? 110). { destruct (expect [117; 108; 108] r); inversion E; subst; reflexivity. }
  destruct (c =? 116). { destruct (expect [114; 117; 101] r); inversion E; subst; reflexivity. }
  destruct (c =? 102). { destruct (expect [97; 108; 115; 101] r); inversion E; subst; reflexivity. }
  cbn [orb]. destruct (is_digit c || (c =? 45)). { rewrite (parse_json_number_kind _ _ _ E). reflexivity. }
  destruct (c =? 34). { destruct (parse_json_string r) as [[s r']| |]; cbn [bind] in E; inversion E; subst; reflexivity. }
  destruct (c =? 91). { rewrite (arr_loop_kind _ _ _ _ _ _ _ E). reflexivity. }
  destruct (c =? 123). { rewrite (obj_loop_kind _ _ _ _ _ _ _ E). reflexivity. }
  discriminate.
Qed.

(* ================================================================ type_of and the casts *)
Lemma type_of_normalise v : type_of_t (normalise v) = type_of_t v.
Proof. destruct v; reflexivity. Qed.

(* type_of: the text branch looks only at the first byte of the value (after fix 566010a: the first byte after what the
   parser skips; before it, a text starting with tab / LF / CR gave an error where its encoding gave the type). *)
Theorem type_of_forms t v : wfb v = true -> stands_for t v -> type_of_w t = Ok (type_of_t v).
Proof.
  intros W [[-> T]|[Ht Hp]]; [rewrite (type_of_w_enc v W T); rewrite type_of_normalise; reflexivity|].
  unfold type_of_w, type_of_m. rewrite Ht.
  destruct (parse_value_kind t v Hp) as (c & r & -> & K). unfold kind_of_byte in K.
  destruct (c =? 110); [inversion K; reflexivity|].
  destruct ((c =? 116) || (c =? 102)); [inversion K; reflexivity|].
  destruct (is_digit c || (c =? 45)); [inversion K; reflexivity|].
  destruct (c =? 34); [inversion K; reflexivity|].
  destruct (c =? 91); [inversion K; reflexivity|].
  destruct (c =? 123); [inversion K; reflexivity|discriminate K].
Qed.

Lemma as_i64_normalise n : as_i64 (normalise_num n) = as_i64 n.
Proof.
  destruct n as [z|u|b]; cbn [normalise_num]; [|reflexivity|destruct (f_is_nan b); reflexivity].
  destruct (z =? 0)%Z eqn:E; [|reflexivity]. apply Z.eqb_eq in E. subst z. reflexivity.
Qed.
Lemma as_u64_normalise n : as_u64 (normalise_num n) = as_u64 n.
Proof.
  destruct n as [z|u|b]; cbn [normalise_num]; [|reflexivity|destruct (f_is_nan b); reflexivity].
  destruct (z =? 0)%Z eqn:E; [|reflexivity]. apply Z.eqb_eq in E. subst z. reflexivity.
Qed.
Lemma number_text_normalise n : number_text float_placeholder (normalise_num n) = number_text float_placeholder n.
Proof.
  destruct n as [z|u|b]; cbn [normalise_num]; [|reflexivity|].
  - destruct (z =? 0)%Z eqn:E; [|reflexivity]. apply Z.eqb_eq in E. subst z. reflexivity.
  - destruct (f_is_nan b) eqn:E; [|reflexivity]. cbn [number_text]. unfold float_placeholder. rewrite E. reflexivity.
Qed.

Section Casts.
  Variables (t : list N) (v : value).
  Hypothesis W : wfb v = true.
  Hypothesis S : stands_for t v.

  Ltac text_cast Ht Hp := rewrite Ht, (doc_of_text t v Ht Hp).

  Theorem as_null_forms : as_null_w t = Ok (match v with VNull => true | _ => false end).
  Proof.
    destruct S as [[-> T]|[Ht Hp]]; [rewrite (as_null_w_enc v W T); destruct v; reflexivity|].
    unfold as_null_w, as_null_m. text_cast Ht Hp. reflexivity.
  Qed.
  Theorem as_bool_forms : as_bool_w t = Ok (as_bool_t v).
  Proof.
    destruct S as [[-> T]|[Ht Hp]]; [rewrite (as_bool_w_enc v W T); destruct v; reflexivity|].
    unfold as_bool_w, as_bool_m. text_cast Ht Hp. reflexivity.
  Qed.
  Theorem as_str_forms : as_str_w t = Ok (as_str_t v).
  Proof.
    destruct S as [[-> T]|[Ht Hp]]; [rewrite (as_str_w_enc v W T); destruct v; reflexivity|].
    unfold as_str_w, as_str_m. text_cast Ht Hp. reflexivity.
  Qed.
  Theorem is_array_forms : is_array_w t = Ok (match v with VArr _ => true | _ => false end).
  Proof.
    destruct S as [[-> T]|[Ht Hp]]; [rewrite (is_array_w_enc v W T); destruct v; reflexivity|].
    unfold is_array_w, is_array_m. text_cast Ht Hp. reflexivity.
  Qed.
  Theorem is_object_forms : is_object_w t = Ok (match v with VObj _ => true | _ => false end).
  Proof.
    destruct S as [[-> T]|[Ht Hp]]; [rewrite (is_object_w_enc v W T); destruct v; reflexivity|].
    unfold is_object_w, is_object_m. text_cast Ht Hp. reflexivity.
  Qed.
  (* as_i64 / as_u64 (is_i64 / is_u64 are `.is_some()` of these): the integer -0 is Int64(0) for the text and UInt64(0)
     for the encoding; both give Some 0 *)
  Theorem as_i64_forms : as_i64_w t = Ok (as_i64_t v).
  Proof.
    destruct S as [[-> T]|[Ht Hp]].
    - rewrite (as_i64_w_enc v W T). destruct v; try reflexivity. cbn [normalise as_i64_t]. rewrite as_i64_normalise. reflexivity.
    - unfold as_i64_w, as_i64_m. text_cast Ht Hp. reflexivity.
  Qed.
  Theorem as_u64_forms : as_u64_w t = Ok (as_u64_t v).
  Proof.
    destruct S as [[-> T]|[Ht Hp]].
    - rewrite (as_u64_w_enc v W T). destruct v; try reflexivity. cbn [normalise as_u64_t]. rewrite as_u64_normalise. reflexivity.
    - unfold as_u64_w, as_u64_m. text_cast Ht Hp. reflexivity.
  Qed.
  Theorem to_bool_forms : to_bool_w t = of_cast (to_bool_t v).
  Proof.
    destruct S as [[-> T]|[Ht Hp]]; [rewrite (to_bool_w_enc v W T); destruct v; reflexivity|].
    unfold to_bool_w, to_bool_m, cast. text_cast Ht Hp. reflexivity.
  Qed.
  Theorem to_i64_forms : to_i64_w t = of_cast (to_i64_t v).
  Proof.
    destruct S as [[-> T]|[Ht Hp]].
    - rewrite (to_i64_w_enc v W T). destruct v; try reflexivity. unfold to_i64_t. cbn [normalise as_i64_t]. rewrite as_i64_normalise. reflexivity.
    - unfold to_i64_w, to_i64_m, cast. text_cast Ht Hp. reflexivity.
  Qed.
  Theorem to_u64_forms : to_u64_w t = of_cast (to_u64_t v).
  Proof.
    destruct S as [[-> T]|[Ht Hp]].
    - rewrite (to_u64_w_enc v W T). destruct v; try reflexivity. unfold to_u64_t. cbn [normalise as_u64_t]. rewrite as_u64_normalise. reflexivity.
    - unfold to_u64_w, to_u64_m, cast. text_cast Ht Hp. reflexivity.
  Qed.
  (* to_str: a number is printed; -0 prints as "0" in both variants, every NaN prints as "NaN" *)
  Theorem to_str_forms : to_str_w t = of_cast (to_str_t v).
  Proof.
    destruct S as [[-> T]|[Ht Hp]].
    - rewrite (to_str_w_enc v W T). destruct v; try reflexivity. cbn [normalise to_str_t]. rewrite number_text_normalise. reflexivity.
    - unfold to_str_w, to_str_m, cast. text_cast Ht Hp. reflexivity.
  Qed.

  (* as_number (is_number = `.is_some()`): EQUAL ONLY UP TO normalise_num.  For the text `-0` the parser gives
     Number::Int64(0), the decoder gives Number::UInt64(0) for its encoding (the encoding of a zero has no sign).  The two
     are equal numbers (Number's == is by value: num_eqb) but different variants.  This is the only case: *)
  Theorem as_number_forms :
    exists o, as_number_w t = Ok o /\ option_map normalise_num o = as_number_t (normalise v).
  Proof.
    destruct S as [[-> T]|[Ht Hp]].
    - exists (as_number_t (normalise v)). split; [apply (as_number_w_enc v W T)|].
      destruct v; try reflexivity. cbn [normalise as_number_t option_map]. rewrite normalise_num_idem. reflexivity.
    - exists (as_number_t v). split; [unfold as_number_w, as_number_m; text_cast Ht Hp; reflexivity|].
      destruct v; reflexivity.
  Qed.
  Theorem is_number_forms : exists o, as_number_w t = Ok o /\ (match o with Some _ => true | None => false end) = (match v with VNum _ => true | _ => false end).
  Proof.
    destruct as_number_forms as (o & E & H). exists o. split; [exact E|].
    destruct v, o; cbn in H; try discriminate H; reflexivity.
  Qed.
End Casts.

(* ================================================================ contains and concat: from_slice on a text *)
(* contains and concat read BOTH arguments with from_slice as soon as one of them is not JSONB: the binary decoder is
   tried first and the text parser only when it fails.  A JSON text is never decoded: its first byte is white space, a
   backslash (the parser's skippable forms) or the first byte of a value; only `[` and `\` look like a container header
   (an object with at least 27 * 2^24 members), and then the entry words alone would need more bytes than the text has,
   as long as the text is shorter than 8 * 27 * 2^24 = 3623878656 bytes (3.37 GiB). *)
Definition small_text (t : list N) : Prop := bytes_ok t /\ lenN t < 3623878656.

Lemma hdr_split w : w < 4294967296 -> hdr_type w + hdr_len w = w /\ hdr_len w = w mod 536870912.
Proof.
  intros Hw. unfold hdr_type, hdr_len.
  assert (L : N.land w CONTAINER_HEADER_LEN_MASK = w mod 536870912).
  { change CONTAINER_HEADER_LEN_MASK with (N.ones 29). rewrite N.land_ones. reflexivity. }
  split; [|exact L].
  assert (D : N.land (N.land w CONTAINER_HEADER_TYPE_MASK) (N.land w CONTAINER_HEADER_LEN_MASK) = 0).
  { apply N.bits_inj_0. intros n. rewrite !N.land_spec.
    assert (K : N.testbit CONTAINER_HEADER_TYPE_MASK n && N.testbit CONTAINER_HEADER_LEN_MASK n = false)
      by (rewrite <- N.land_spec; change (N.land CONTAINER_HEADER_TYPE_MASK CONTAINER_HEADER_LEN_MASK) with 0; apply N.bits_0).
    destruct (N.testbit w n), (N.testbit CONTAINER_HEADER_TYPE_MASK n), (N.testbit CONTAINER_HEADER_LEN_MASK n); try reflexivity; discriminate K. }
  rewrite <- (lor_disjoint_add _ _ D), <- N.land_lor_distr_r.
  change (N.lor CONTAINER_HEADER_TYPE_MASK CONTAINER_HEADER_LEN_MASK) with (N.ones 32).
  rewrite N.land_ones. apply N.mod_small. exact Hw.
Qed.

Lemma skip_unused_head c r : skip_unused (c :: r) = c :: r \/ is_ws c = true \/ c = 92.
Proof.
  unfold skip_unused. cbn [length skip_unused_fuel]. destruct (is_ws c); [right; left; reflexivity|].
  destruct (c =? 92) eqn:E; [right; right; apply N.eqb_eq; exact E|left; reflexivity].
Qed.

(* the first byte of a text that parses is ASCII, and among the bytes 64..95 only `[` or `\` *)
Lemma text_first_byte t v : parse_value t = Ok v ->
  exists c r, t = c :: r /\ c < 128 /\ (64 <= c -> c < 96 -> 91 <= c).
Proof.
  intros Hp. destruct (parse_value_kind t v Hp) as (c & r & Hs & K).
  destruct t as [|c0 r0]; [discriminate Hs|]. exists c0, r0. split; [reflexivity|].
  destruct (skip_unused_head c0 r0) as [E|[E|E]].
  - rewrite E in Hs. inversion Hs; subst c0 r0. clear Hs E. unfold kind_of_byte, is_digit in K.
    destruct (c =? 110) eqn:E1; [lia|]. destruct (c =? 116) eqn:E2; [lia|]. destruct (c =? 102) eqn:E3; [lia|].
    cbn [orb] in K. destruct ((48 <=? c) && (c <=? 57)) eqn:E4; [lia|]. destruct (c =? 45) eqn:E5; [lia|].
    cbn [orb] in K. destruct (c =? 34) eqn:E6; [lia|]. destruct (c =? 91) eqn:E7; [lia|].
    destruct (c =? 123) eqn:E8; [lia|discriminate K].
  - unfold is_ws in E. lia.
  - lia.
Qed.

Theorem text_not_decoded t v : small_text t -> is_jsonb t = false -> parse_value t = Ok v -> parse_jsonb t = Err EOther.
Proof.
  intros [Hb Hl] Hj Hp. destruct (text_first_byte t v Hp) as (c & r & -> & Hc & Hc').
  unfold parse_jsonb. destruct (lenN (c :: r) <? 4) eqn:E4; [reflexivity|].
  destruct r as [|b1 [|b2 [|b3 rest]]]; try (vm_compute in E4; discriminate E4).
  assert (B : c < 256 /\ b1 < 256 /\ b2 < 256 /\ b3 < 256).
  { unfold bytes_ok in Hb. inversion Hb as [|? ? H0 Hb0]; subst. inversion Hb0 as [|? ? H1 Hb1]; subst.
    inversion Hb1 as [|? ? H2 Hb2]; subst. inversion Hb2 as [|? ? H3 Hb3]; subst. auto. }
  destruct B as (B0 & B1 & B2 & B3).
  assert (C32 : c <> 32).
  { intros ->. unfold is_jsonb in Hj. vm_compute in Hj. discriminate Hj. }
  cbn [decode_jsonb]. pose (w := c * 16777216 + b1 * 65536 + b2 * 256 + b3).
  change (rd32 (c :: b1 :: b2 :: b3 :: rest)) with (Some (w, rest)). cbv beta iota.
  assert (Hw : w < 4294967296) by (unfold w; lia).
  destruct (hdr_split w Hw) as [HS HL].
  assert (Hrest : lenN rest < 3623878656).
  { rewrite !lenN_cons in Hl. lia. }
  destruct (hdr_type w =? SCALAR_CONTAINER_TAG) eqn:Es.
  { assert (Nw : (w =? SCALAR_CONTAINER_TAG) = false).
    { apply N.eqb_neq. unfold SCALAR_CONTAINER_TAG, w. lia. }
    rewrite Nw. reflexivity. }
  destruct (hdr_type w =? ARRAY_CONTAINER_TAG) eqn:Ea.
  { exfalso. apply N.eqb_eq in Ea. unfold ARRAY_CONTAINER_TAG in Ea. unfold w in *. lia. }
  destruct (hdr_type w =? OBJECT_CONTAINER_TAG) eqn:Eo; [|reflexivity].
  apply N.eqb_eq in Eo. unfold OBJECT_CONTAINER_TAG in Eo.
  assert (Big : lenN rest < 8 * hdr_len w) by (unfold w in *; lia).
  destruct (lenN rest <? 8 * hdr_len w) eqn:El; [reflexivity|]. apply N.ltb_ge in El. lia.
Qed.

Lemma from_slice_text t v : small_text t -> is_jsonb t = false -> parse_value t = Ok v -> from_slice t = Ok v.
Proof. intros Hs Hj Hp. unfold from_slice. rewrite (text_not_decoded t v Hs Hj Hp). exact Hp. Qed.
Lemma from_slice_enc v : wfb v = true -> from_slice (enc v) = Ok (normalise v).
Proof. intros W. unfold from_slice. rewrite (parse_jsonb_enc v W). reflexivity. Qed.

(* what from_slice makes of either form: a tree with the same normal form as v *)
Lemma from_slice_forms t v : wfb v = true -> stands_for t v -> (is_jsonb t = false -> small_text t) ->
  exists v', from_slice t = Ok v' /\ normalise v' = normalise v /\ wfb v' = true.
Proof.
  intros W [[-> T]|[Ht Hp]] Hs.
  - exists (normalise v). split; [apply from_slice_enc; exact W|]. split; [apply normalise_idem|apply wfb_normalise; exact W].
  - exists v. split; [apply from_slice_text; auto|]. split; [reflexivity|exact W].
Qed.

Lemma contains_t_same_normal a a' b b' : wfb a = true -> wfb a' = true -> wfb b = true -> wfb b' = true ->
  normalise a' = normalise a -> normalise b' = normalise b -> contains_t a' b' = contains_t a b.
Proof.
  intros Wa Wa' Wb Wb' Ea Eb.
  rewrite <- (contains_t_normalise a' b' Wa' Wb'), <- (contains_t_normalise a b Wa Wb), Ea, Eb. reflexivity.
Qed.

(* contains: both arguments, all four combinations *)
Theorem contains_forms t u a b : wfb a = true -> wfb b = true -> stands_for t a -> stands_for u b ->
  (is_jsonb t = false -> small_text t) -> (is_jsonb u = false -> small_text u) ->
  contains_w t u = Ok (contains_t a b).
Proof.
  intros Wa Wb Sa Sb Ht Hu.
  destruct (from_slice_forms t a Wa Sa Ht) as (a' & Fa & Na & Wa').
  destruct (from_slice_forms u b Wb Sb Hu) as (b' & Fb & Nb & Wb').
  destruct (negb (is_jsonb t) || negb (is_jsonb u)) eqn:J.
  - unfold contains_w. rewrite J, Fa, Fb. f_equal. apply contains_t_same_normal; assumption.
  - apply orb_false_iff in J. destruct J as [Jt Ju]. apply negb_false_iff in Jt, Ju.
    destruct Sa as [[-> Ta]|[Ha _]]; [|congruence]. destruct Sb as [[-> Tb]|[Hb _]]; [|congruence].
    apply contains_w_enc; assumption.
Qed.

(* concat commutes with normalise, so trees with the same normal form give the same encoded result *)
Definition nmem (kv : list N * value) : list N * value := (fst kv, normalise (snd kv)).
Lemma assoc_insert_nmem k x acc : assoc_insert k (normalise x) (map nmem acc) = map nmem (assoc_insert k x acc).
Proof.
  induction acc as [|[k' x'] acc IH]; [reflexivity|]. cbn [map nmem fst snd assoc_insert].
  destruct (bytes_cmp k k'); cbn [map nmem fst snd]; [reflexivity|reflexivity|rewrite IH; reflexivity].
Qed.
Lemma fold_insert_nmem r : forall l,
  fold_left (fun acc kv => assoc_insert (fst kv) (snd kv) acc) (map nmem r) (map nmem l)
  = map nmem (fold_left (fun acc kv => assoc_insert (fst kv) (snd kv) acc) r l).
Proof.
  induction r as [|[k x] r IH]; intros l; [reflexivity|]. cbn [map fold_left nmem fst snd].
  rewrite assoc_insert_nmem. apply IH.
Qed.
Lemma concat_t_normalise a b : normalise (concat_t a b) = concat_t (normalise a) (normalise b).
Proof.
  destruct a, b; cbn [concat_t normalise map]; try reflexivity;
    try (rewrite map_app; reflexivity).
  change (fun kv : list N * value => (fst kv, normalise (snd kv))) with nmem.
  rewrite fold_insert_nmem. reflexivity.
Qed.
Lemma concat_same_normal a a' b b' : normalise a' = normalise a -> normalise b' = normalise b ->
  enc (concat_t a' b') = enc (concat_t a b).
Proof.
  intros Ea Eb. rewrite <- (enc_normalise (concat_t a' b')), <- (enc_normalise (concat_t a b)), !concat_t_normalise, Ea, Eb.
  reflexivity.
Qed.

Theorem concat_forms t u a b buf : wfb a = true -> wfb b = true -> stands_for t a -> stands_for u b ->
  (is_jsonb t = false -> small_text t) -> (is_jsonb u = false -> small_text u) ->
  wf_size (concat_t a b) = true ->
  concat_w t u buf = Ok (buf ++ enc (concat_t a b)).
Proof.
  intros Wa Wb Sa Sb Ht Hu Hr.
  destruct (from_slice_forms t a Wa Sa Ht) as (a' & Fa & Na & Wa').
  destruct (from_slice_forms u b Wb Sb Hu) as (b' & Fb & Nb & Wb').
  destruct (negb (is_jsonb t) || negb (is_jsonb u)) eqn:J.
  - rewrite ?concat_w_eq. unfold concat_m, append_enc. rewrite J, Fa, Fb. cbn [bind].
    rewrite (concat_same_normal a a' b b' Na Nb). reflexivity.
  - apply orb_false_iff in J. destruct J as [Jt Ju]. apply negb_false_iff in Jt, Ju.
    destruct Sa as [[-> Ta]|[Ha _]]; [|congruence]. destruct Sb as [[-> Tb]|[Hb _]]; [|congruence].
    apply concat_w_enc; assumption.
Qed.

(* ================================================================ JSONPath functions *)
(* The selector on an encoding works on the decoded document `normalise v` (SelWalkProofs), the text branch on the parsed
   tree v itself.  JSONPath evaluation commutes with normalise: selection is by position and key, filters compare
   numbers by value (num_cmp), and the selected items are written with enc, which does not see the difference. *)
Notation nv := normalise.
Definition pnorm (p : pvalue) : pvalue := match p with PVNum n => PVNum (normalise_num n) | _ => p end.

Lemma is_container_nv v : is_container (nv v) = is_container v.
Proof. destruct v; reflexivity. Qed.
Lemma assoc_lookup_nmem k o : assoc_lookup k (map nmem o) = option_map nv (assoc_lookup k o).
Proof.
  induction o as [|[k' x] o IH]; [reflexivity|]. cbn [map nmem fst snd assoc_lookup].
  destruct (bytes_eqb k k'); [reflexivity|exact IH].
Qed.
Lemma nth_opt_map {A B} (f : A -> B) l : forall k, nth_opt (map f l) k = option_map f (nth_opt l k).
Proof. induction l as [|x l IH]; intros [|k]; cbn [map nth_opt option_map]; try reflexivity. apply IH. Qed.
Lemma select_indices_nv l ixs : select_indices (map nv l) ixs = map nv (select_indices l ixs).
Proof.
  unfold select_indices. destruct l as [|x l]; [reflexivity|]. cbn [map].
  change (nv x :: map nv l) with (map nv (x :: l)). set (L := x :: l).
  replace (lenZ (map nv L)) with (lenZ L) by (unfold lenZ; rewrite map_length; reflexivity).
  induction (flat_map (index_positions (lenZ L)) ixs) as [|k ks IH]; [reflexivity|].
  cbn [flat_map]. rewrite map_app, IH, nth_opt_map. destruct (nth_opt L k); reflexivity.
Qed.
Lemma select_step_nv p v : select_step p (nv v) = res_map (map nv) (select_step p v).
Proof.
  unfold select_step. rewrite is_container_nv. destruct (is_container v) eqn:C.
  - destruct p; try reflexivity; destruct v; try discriminate C; cbn [nv res_map map]; try reflexivity.
    + rewrite !map_map. reflexivity.
    + change (fun kv : list N * value => (fst kv, nv (snd kv))) with nmem. rewrite assoc_lookup_nmem.
      destruct (assoc_lookup s l); reflexivity.
    + change (fun kv : list N * value => (fst kv, nv (snd kv))) with nmem. rewrite assoc_lookup_nmem.
      destruct (assoc_lookup s l); reflexivity.
    + change (fun kv : list N * value => (fst kv, nv (snd kv))) with nmem. rewrite assoc_lookup_nmem.
      destruct (assoc_lookup s l); reflexivity.
    + rewrite select_indices_nv. reflexivity.
  - destruct p; reflexivity.
Qed.

Lemma flat_map_res_nv (f f' : value -> res (list value)) : (forall x, f' (nv x) = res_map (map nv) (f x)) ->
  forall l, flat_map_res f' (map nv l) = res_map (map nv) (flat_map_res f l).
Proof.
  intros H. induction l as [|x l IH]; [reflexivity|]. cbn [map flat_map_res]. rewrite H, IH.
  destruct (f x) as [a| |]; cbn [res_map bind]; try reflexivity.
  destruct (flat_map_res f l) as [b| |]; cbn [res_map bind]; try reflexivity. rewrite map_app. reflexivity.
Qed.
Lemma filter_res_nv (g g' : value -> res bool) : (forall x, g' (nv x) = g x) ->
  forall l, filter_res g' (map nv l) = res_map (map nv) (filter_res g l).
Proof.
  intros H. induction l as [|x l IH]; [reflexivity|]. cbn [map filter_res]. rewrite H, IH.
  destruct (g x) as [k| |]; cbn [res_map bind]; try reflexivity.
  destruct (filter_res g l) as [b| |]; cbn [res_map bind]; try reflexivity. destruct k; reflexivity.
Qed.
Lemma res_map_bind_nv {B} (r : res (list value)) (k k' : list value -> res B) : (forall fr, k' (map nv fr) = k fr) ->
  (do fr <- res_map (map nv) r; k' fr) = (do fr <- r; k fr).
Proof. intros H. destruct r; cbn [res_map bind]; [apply H|reflexivity|reflexivity]. Qed.

Lemma walk_nv (fe fe' : value -> expr -> res bool) :
  forall ps fr, steps_all (fun e => forall pos, fe' (nv pos) e = fe pos e) ps ->
  walk fe' ps (map nv fr) = res_map (map nv) (walk fe ps fr).
Proof.
  induction ps as [|p ps IH]; intros fr H; [reflexivity|].
  apply steps_all_cons in H. destruct H as [Hp H].
  assert (Step : forall q, (do fr' <- flat_map_res (select_step q) (map nv fr); walk fe' ps fr')
                           = res_map (map nv) (do fr' <- flat_map_res (select_step q) fr; walk fe ps fr')).
  { intros q. rewrite (flat_map_res_nv (select_step q) (select_step q) (select_step_nv q)).
    destruct (flat_map_res (select_step q) fr); cbn [res_map bind]; [apply IH; exact H|reflexivity|reflexivity]. }
  assert (Filt : forall e, In e (step_exprs p) -> (do fr' <- filter_res (fun pos => fe' pos e) (map nv fr); walk fe' ps fr')
                           = res_map (map nv) (do fr' <- filter_res (fun pos => fe pos e) fr; walk fe ps fr')).
  { intros e He. rewrite (filter_res_nv (fun pos => fe pos e) (fun pos => fe' pos e) (fun x => Hp e He x)).
    destruct (filter_res (fun pos => fe pos e) fr); cbn [res_map bind]; [apply IH; exact H|reflexivity|reflexivity]. }
  destruct p; cbn [walk]; try apply Step; try (apply Filt; left; reflexivity); apply IH; exact H.
Qed.
Lemma walk_operand_nv : forall ps fr, walk_operand ps (map nv fr) = res_map (map nv) (walk_operand ps fr).
Proof.
  induction ps as [|p ps IH]; intros fr; [reflexivity|].
  assert (Step : forall q, (do fr' <- flat_map_res (select_step q) (map nv fr); walk_operand ps fr')
                           = res_map (map nv) (do fr' <- flat_map_res (select_step q) fr; walk_operand ps fr')).
  { intros q. rewrite (flat_map_res_nv (select_step q) (select_step q) (select_step_nv q)).
    destruct (flat_map_res (select_step q) fr); cbn [res_map bind]; [apply IH|reflexivity|reflexivity]. }
  destruct p; cbn [walk_operand]; try apply Step; reflexivity.
Qed.

Lemma pnorm_idem p : pnorm (pnorm p) = pnorm p.
Proof. destruct p; cbn [pnorm]; try reflexivity. rewrite normalise_num_idem. reflexivity. Qed.
Lemma scalar_pvalue_nv x : scalar_pvalue (nv x) = option_map pnorm (scalar_pvalue x).
Proof. destruct x; reflexivity. Qed.
Lemma scalars_nv fr :
  flat_map (fun x => match scalar_pvalue x with Some v => [v] | None => [] end) (map nv fr)
  = map pnorm (flat_map (fun x => match scalar_pvalue x with Some v => [v] | None => [] end) fr).
Proof.
  induction fr as [|x fr IH]; [reflexivity|]. cbn [map flat_map]. rewrite map_app, IH, scalar_pvalue_nv.
  destruct (scalar_pvalue x); reflexivity.
Qed.
(* the operands of a comparison: the same scalars up to pnorm *)
Lemma expr_values_nv root pos e :
  res_map (map pnorm) (expr_values (nv root) (nv pos) e) = res_map (map pnorm) (expr_values root pos e).
Proof.
  destruct e; try reflexivity. cbn [expr_values].
  assert (St : (match l with PCurrent :: _ => nv pos | _ => nv root end) = nv (match l with PCurrent :: _ => pos | _ => root end))
    by (destruct l as [|[] ?]; reflexivity).
  rewrite St. change [nv (match l with PCurrent :: _ => pos | _ => root end)] with (map nv [match l with PCurrent :: _ => pos | _ => root end]).
  rewrite walk_operand_nv. destruct (walk_operand (tl l) _) as [fr| |]; cbn [res_map bind]; try reflexivity.
  rewrite scalars_nv, map_map. f_equal. apply map_ext. intros p. apply pnorm_idem.
Qed.

Lemma pv_cmp_pnorm a b : pv_cmp (pnorm a) (pnorm b) = pv_cmp a b.
Proof. destruct a, b; cbn [pnorm pv_cmp pv_rank]; try reflexivity. apply num_cmp_normalise. Qed.
Lemma compare_value_pnorm op a b : compare_value op (pnorm a) (pnorm b) = compare_value op a b.
Proof. unfold compare_value. rewrite pv_cmp_pnorm. reflexivity. Qed.
Lemma exists_inner_pnorm op x : forall b, exists_res (fun y => compare_value op (pnorm x) y) (map pnorm b) = exists_res (fun y => compare_value op x y) b.
Proof.
  induction b as [|y b IH]; [reflexivity|]. cbn [map exists_res]. rewrite compare_value_pnorm, IH. reflexivity.
Qed.
Lemma exists_outer_pnorm op b : forall a,
  exists_res (fun x => exists_res (fun y => compare_value op x y) (map pnorm b)) (map pnorm a)
  = exists_res (fun x => exists_res (fun y => compare_value op x y) b) a.
Proof.
  induction a as [|x a IH]; [reflexivity|]. cbn [map exists_res]. rewrite exists_inner_pnorm, IH. reflexivity.
Qed.
Lemma compare_operands_nv op (r1 r1' r2 r2' : res (list pvalue)) :
  res_map (map pnorm) r1' = res_map (map pnorm) r1 -> res_map (map pnorm) r2' = res_map (map pnorm) r2 ->
  (do a <- r1'; do b <- r2'; exists_res (fun x => exists_res (fun y => compare_value op x y) b) a)
  = (do a <- r1; do b <- r2; exists_res (fun x => exists_res (fun y => compare_value op x y) b) a).
Proof.
  intros H1 H2. destruct r1' as [a'|e1'|], r1 as [a|e1|]; cbn [res_map] in H1; try discriminate H1; cbn [bind]; try reflexivity.
  - destruct r2' as [b'|e2'|], r2 as [b|e2|]; cbn [res_map] in H2; try discriminate H2; cbn [bind]; try reflexivity.
    + inversion H1 as [Ha]. inversion H2 as [Hb].
      rewrite <- (exists_outer_pnorm op b' a'), <- (exists_outer_pnorm op b a), Ha, Hb. reflexivity.
    + inversion H2. reflexivity.
  - inversion H1. reflexivity.
Qed.

Lemma nonempty_map {A B} (f : A -> B) l : match map f l with [] => false | _ => true end = match l with [] => false | _ => true end.
Proof. destruct l; reflexivity. Qed.

Lemma find_positions_with_nv fe fe' root cur ps : steps_all (fun e => forall pos, fe' (nv pos) e = fe pos e) ps ->
  find_positions_with fe' (nv root) (option_map nv cur) ps = res_map (map nv) (find_positions_with fe root cur ps).
Proof.
  intros H. unfold find_positions_with.
  assert (St : (match ps with PCurrent :: _ => match option_map nv cur with Some c => Ok c | None => Panic end | _ => Ok (nv root) end)
               = res_map nv (match ps with PCurrent :: _ => match cur with Some c => Ok c | None => Panic end | _ => Ok root end))
    by (destruct ps as [|[] ?]; try reflexivity; destruct cur; reflexivity).
  rewrite St. destruct (match ps with PCurrent :: _ => match cur with Some c => Ok c | None => Panic end | _ => Ok root end) as [s| |];
    cbn [res_map bind]; try reflexivity.
  change [nv s] with (map nv [s]). apply walk_nv. exact H.
Qed.
Theorem filter_expr_nv root : forall e pos, filter_expr (nv root) (nv pos) e = filter_expr root pos e.
Proof.
  induction e as [ps IH|v|op l r IHl IHr|op y IHy|op l r IHl IHr|ps IH] using expr_ind_steps; intros pos; cbn [filter_expr]; try reflexivity.
  - destruct op; try (rewrite IHl, IHr; reflexivity); apply compare_operands_nv; apply expr_values_nv.
  - change (Some (nv pos)) with (option_map nv (Some pos)).
    rewrite (find_positions_with_nv (fun pos' e' => filter_expr root pos' e') (fun pos' e' => filter_expr (nv root) pos' e') root (Some pos) ps IH).
    destruct (find_positions_with _ root (Some pos) ps) as [fr| |]; cbn [res_map bind]; try reflexivity.
    rewrite nonempty_map. reflexivity.
Qed.
Theorem eval_nv :
  (forall root cur ps, find_positions (nv root) (option_map nv cur) ps = res_map (map nv) (find_positions root cur ps)) /\
  (forall root pos e, filter_expr (nv root) (nv pos) e = filter_expr root pos e).
Proof.
  split; [|intros; apply filter_expr_nv]. intros root cur ps. apply find_positions_with_nv.
  apply steps_all_intro. intros e pos. apply filter_expr_nv.
Qed.
Lemma find_positions_nv root ps :
  find_positions (nv root) None ps = res_map (map nv) (find_positions root None ps).
Proof. exact (proj1 eval_nv root None ps). Qed.

Lemma build_values_nv : forall items buf offs, build_values buf (map nv items) offs = build_values buf items offs.
Proof. induction items as [|x r IH]; intros buf offs; [reflexivity|]. cbn [map build_values]. rewrite enc_normalise. apply IH. Qed.
Lemma build_array_items_nv items buf : build_array_items buf (map nv items) = build_array_items buf items.
Proof. unfold build_array_items. change (VArr (map nv items)) with (nv (VArr items)). rewrite enc_normalise. reflexivity. Qed.

Theorem select_t_normalise v ps m buf : select_t (nv v) ps m buf = select_t v ps m buf.
Proof.
  unfold select_t. rewrite find_positions_nv. destruct (find_positions v None ps) as [items| |]; cbn [res_map bind]; try reflexivity.
  rewrite nonempty_map. destruct (is_predicate ps); [reflexivity|]. f_equal.
  destruct m; rewrite ?firstn_map, ?map_length, ?build_values_nv, ?build_array_items_nv; reflexivity.
Qed.
Theorem exists_t_normalise v ps : exists_t (nv v) ps = exists_t v ps.
Proof.
  unfold exists_t. destruct (is_predicate ps); [reflexivity|]. rewrite find_positions_nv.
  destruct (find_positions v None ps) as [items| |]; cbn [res_map bind]; try reflexivity. rewrite nonempty_map. reflexivity.
Qed.
Theorem predicate_match_t_normalise v ps : predicate_match_t (nv v) ps = predicate_match_t v ps.
Proof.
  unfold predicate_match_t. destruct (negb (is_predicate ps)); [reflexivity|]. rewrite find_positions_nv.
  destruct (find_positions v None ps) as [items| |]; cbn [res_map bind]; try reflexivity. rewrite nonempty_map. reflexivity.
Qed.

(* get_by_path / get_by_path_first / get_by_path_array (md = MMixed / MFirst / MArray): byte-identical data and offsets *)
Theorem get_by_path_gen_forms md t v ps buf : wfb v = true -> stands_for t v ->
  get_by_path_gen_w md t ps buf = select_t v ps md buf.
Proof.
  intros W [[-> T]|[Ht Hp]]; [rewrite (get_by_path_gen_w_enc md v ps buf W T); apply select_t_normalise|].
  unfold get_by_path_gen_w. rewrite Ht, Hp, (to_vec_text v W), (select_w_enc v ps md buf W). apply select_t_normalise.
Qed.
Theorem path_exists_forms t v ps : wfb v = true -> stands_for t v -> path_exists_w t ps = exists_t v ps.
Proof.
  intros W [[-> T]|[Ht Hp]]; [rewrite (path_exists_w_enc v ps W T); apply exists_t_normalise|].
  unfold path_exists_w. rewrite Ht, Hp, (to_vec_text v W), (sel_exists_w_enc v ps W). apply exists_t_normalise.
Qed.
Theorem path_match_forms t v ps : wfb v = true -> stands_for t v -> path_match_w t ps = predicate_match_t v ps.
Proof.
  intros W [[-> T]|[Ht Hp]]; [rewrite (path_match_w_enc v ps W T); apply predicate_match_t_normalise|].
  unfold path_match_w. rewrite Ht, Hp. cbn [bind]. rewrite (to_vec_text v W), (sel_predicate_match_w_enc v ps W). apply predicate_match_t_normalise.
Qed.

(* ================================================================ as_f64 / to_f64: a parsed float is never a NaN *)
From JB Require JsonGrammar JsonGrammarProofs DecimalBounds.

Lemma digits_val_nonneg ds : Forall (fun d => is_digit d = true) ds -> forall acc, (0 <= acc)%Z -> (0 <= digits_val ds acc)%Z.
Proof.
  induction 1 as [|d ds Hd _ IH]; intros acc Ha; cbn [digits_val]; [exact Ha|].
  apply IH. unfold is_digit in Hd. lia.
Qed.

(* the parser produces floats only through Decimal.round_dec (DecimalBounds.round_dec_not_nan) *)
Theorem parsed_float_not_nan t b : parse_value t = Ok (VNum (NFloat b)) -> f_is_nan b = false.
Proof.
  intros Hp. apply JsonGrammarProofs.grammar_sound in Hp. unfold JsonGrammar.jtext in Hp.
  inversion Hp as [w1 t0 v0 w2 _ Hv _ E1 E2]; subst. clear Hp.
  inversion Hv as [| | |t1 n Hn| | | | | ]; subst. clear Hv.
  inversion Hn as [neg ids tf fd te e Hi Hf He E1 E2]; subst. clear Hn.
  assert (Dg : Forall (fun d => is_digit d = true) (ids ++ fd)).
  { apply Forall_app. split.
    - inversion Hi as [|d ds H1 H2 H3]; subst; [repeat constructor|constructor; assumption].
    - inversion Hf as [|fd' H1 H2]; subst; [constructor|assumption]. }
  assert (NN : f_is_nan (round_dec neg (digits_val (ids ++ fd) 0) (e - Z.of_nat (length fd))) = false)
    by (apply DecimalBounds.round_dec_not_nan; apply digits_val_nonneg; [exact Dg|lia]).
  unfold JsonGrammar.number_value, JsonGrammar.nearest_double in E2.
  destruct tf, te, neg;
    repeat match type of E2 with
           | (if ?c then _ else _) = _ => destruct c
           end; inversion E2; subst; exact NN.
Qed.

Lemma text_top_normalise_float t v : parse_value t = Ok v -> as_f64_t (normalise v) = as_f64_t v.
Proof.
  intros Hp. destruct v as [| | |[z|u|b]| |]; try reflexivity; cbn [normalise normalise_num as_f64_t].
  - destruct (z =? 0)%Z eqn:E; [|reflexivity]. apply Z.eqb_eq in E. subst z. reflexivity.
  - rewrite (parsed_float_not_nan t b Hp). reflexivity.
Qed.

(* as_f64 (is_f64 = `.is_some()`), to_f64: the same bits.  The answer is stated on the decoded document because an
   ENCODING may have been made from a non-canonical NaN payload (which the decoder reads back as f64::NAN); for a
   document that came from a text, normalise changes nothing here (no NaN; -0 and 0 both convert to +0.0). *)
Theorem as_f64_forms t v : wfb v = true -> stands_for t v -> as_f64_w t = Ok (as_f64_t (normalise v)).
Proof.
  intros W [[-> T]|[Ht Hp]]; [apply as_f64_w_enc; assumption|].
  unfold as_f64_w, as_f64_m. rewrite Ht, (doc_of_text t v Ht Hp). cbn [lift_opt].
  rewrite (text_top_normalise_float t v Hp). reflexivity.
Qed.
Lemma to_f64_t_as v : to_f64_t v = match as_f64_t v with Some x => Some x | None =>
  match v with VBool b => Some (if b then 4607182418800017408 else 0) | VStr s => parse_float_std s | _ => None end end.
Proof. destruct v; reflexivity. Qed.
Theorem to_f64_forms t v : wfb v = true -> stands_for t v -> to_f64_w t = of_cast (to_f64_t (normalise v)).
Proof.
  intros W [[-> T]|[Ht Hp]]; [apply to_f64_w_enc; assumption|].
  unfold to_f64_w, to_f64_m, cast. rewrite Ht, (doc_of_text t v Ht Hp).
  assert (E : to_f64_t (normalise v) = to_f64_t v).
  { rewrite !to_f64_t_as, (text_top_normalise_float t v Hp). destruct v; reflexivity. }
  rewrite E. reflexivity.
Qed.
(* with the same fact as_number is literally equal except for the integer -0 *)
Theorem as_number_forms_text t v : is_jsonb t = false -> parse_value t = Ok v -> v <> VNum (NInt 0) ->
  as_number_w t = Ok (as_number_t (normalise v)).
Proof.
  intros Ht Hp Hz. unfold as_number_w, as_number_m. rewrite Ht, (doc_of_text t v Ht Hp). cbn [lift_opt]. f_equal.
  destruct v as [| | |[z|u|b]| |]; try reflexivity; cbn [normalise normalise_num as_number_t].
  - destruct (z =? 0)%Z eqn:E; [|reflexivity]. apply Z.eqb_eq in E. subst z. exfalso. apply Hz. reflexivity.
  - rewrite (parsed_float_not_nan t b Hp). reflexivity.
Qed.

(* ================================================================ to_string / to_pretty_string *)
(* A text input goes through String::from_utf8_lossy (only the empty input becomes "null"): a text that PARSES is valid
   UTF-8 as a whole (JsonGrammarProofs.parsed_text_is_utf8: the parser checks its strings, everything else is ASCII), so
   it is returned as it is (to_text_of_parsed_text below); an input that is neither JSONB nor a text that parses has its
   ill-formed sequences replaced by U+FFFD (to_text_not_jsonb).  An encoding is rendered: the two outputs
   are different texts in general ("-0" / "0", "1e2" / "100.0", white space) but DENOTE THE SAME DOCUMENT: both parse,
   and to values that compare Equal to v.  The rendering of the encoding is read back under the usual hypothesis on
   the float printer (TextRoundtrip.float_reads_back for every float of the decoded document; none needed when the
   document has no floats: to_string_forms_no_float). *)
From JB Require TreeWf TextRoundtrip.

Definition same_document (r : list N) (v : value) : Prop := exists v', parse_value r = Ok v' /\ cmp_value v' v = Eq.

Lemma parse_value_nil : parse_value [] = Err EOther.
Proof. reflexivity. Qed.

(* every input that is not JSONB, whether it parses or not *)
Theorem to_text_not_jsonb pf pretty t : is_jsonb t = false ->
  to_text_w pf pretty t = Ok (match t with [] => NULL_TEXT | _ => lossy t end).
Proof. intros H. unfold to_text_w. rewrite H. destruct t; reflexivity. Qed.
(* "a text argument is returned as it is": for EVERY text that parses *)
Theorem to_text_of_parsed_text pf pretty t v : is_jsonb t = false -> parse_value t = Ok v -> to_text_w pf pretty t = Ok t.
Proof.
  intros Ht Hp. rewrite (to_text_not_jsonb pf pretty t Ht).
  destruct t as [|c t']; [rewrite parse_value_nil in Hp; discriminate Hp|].
  rewrite (lossy_valid _ (JsonGrammarProofs.parsed_text_is_utf8 _ _ Hp)). reflexivity.
Qed.
(* and what is not valid UTF-8 is changed: the model no longer returns such bytes unchanged *)
Example to_text_lossy_example :
  (to_string_w [34; 255; 34] = Ok [34; 239; 191; 189; 34]) /\ (to_pretty_string_w [159; 1] = Ok [239; 191; 189; 1]) /\ 
  (to_string_w [] = Ok NULL_TEXT).
Proof. vm_compute. repeat split. Qed.

Theorem to_text_forms pf ok pretty t v : (forall b, ok b = true -> TextRoundtrip.float_reads_back pf b) ->
  wfb v = true -> TextRoundtrip.floats_ok ok (normalise v) = true -> stands_for t v ->
  exists r, to_text_w pf pretty t = Ok r /\ same_document r v.
Proof.
  intros Hok W Hf [[-> T]|[Ht Hp]].
  - exists (render pf pretty 0 (normalise v)). split.
    + destruct pretty; [apply (to_pretty_string_w_enc pf v W T)|apply (to_string_w_enc pf v W T)].
    + exists (SerdeProofs.unsign (normalise v)). split.
      * apply (TextRoundtrip.parse_rendering_floats pf pretty ok Hok); [|exact Hf].
        apply TreeWf.wf_normalise. unfold wfb in W. apply andb_true_iff in W. apply W.
      * rewrite <- (cmp_value_eq_l (SerdeProofs.unsign (normalise v)) (normalise v) v (SerdeProofs.unsign_equal _)).
        apply normalise_equal.
  - exists t. split.
    + unfold to_text_w. rewrite Ht. destruct t as [|c t']; [rewrite parse_value_nil in Hp; discriminate Hp|].
      rewrite (lossy_valid _ (JsonGrammarProofs.parsed_text_is_utf8 _ _ Hp)). reflexivity.
    + exists v. split; [exact Hp|apply cmp_value_refl].
Qed.
Theorem to_string_forms pf ok t v : (forall b, ok b = true -> TextRoundtrip.float_reads_back pf b) ->
  wfb v = true -> TextRoundtrip.floats_ok ok (normalise v) = true -> stands_for t v ->
  exists r, to_string_w' pf t = Ok r /\ same_document r v.
Proof. apply to_text_forms. Qed.
Theorem to_pretty_string_forms pf ok t v : (forall b, ok b = true -> TextRoundtrip.float_reads_back pf b) ->
  wfb v = true -> TextRoundtrip.floats_ok ok (normalise v) = true -> stands_for t v ->
  exists r, to_pretty_string_w' pf t = Ok r /\ same_document r v.
Proof. apply to_text_forms. Qed.

Lemma floats_ok_normalise_none v : TextRoundtrip.no_float v = true -> TextRoundtrip.no_float (normalise v) = true.
Proof.
  unfold TextRoundtrip.no_float.
  induction v as [|b|s|n|l IH|o IH] using value_ind2; intros H; cbn [normalise]; try exact H.
  - destruct n as [z|u|b]; cbn [normalise_num]; [destruct (z =? 0)%Z; reflexivity|reflexivity|discriminate H].
  - cbn [TextRoundtrip.floats_ok] in *. rewrite forallb_forall in *. intros x Hx. apply in_map_iff in Hx.
    destruct Hx as (y & <- & Hy). rewrite Forall_forall in IH. apply (IH y Hy). apply H. exact Hy.
  - cbn [TextRoundtrip.floats_ok] in *. rewrite forallb_forall in *. intros x Hx. apply in_map_iff in Hx.
    destruct Hx as (y & <- & Hy). cbn [snd]. rewrite Forall_forall in IH. apply (IH y Hy). apply H. exact Hy.
Qed.
Theorem to_text_forms_no_float pf pretty t v : wfb v = true -> TextRoundtrip.no_float v = true -> stands_for t v ->
  exists r, to_text_w pf pretty t = Ok r /\ same_document r v.
Proof.
  intros W Hn S. apply (to_text_forms pf (fun _ => false) pretty t v); [intros b H; discriminate H|exact W| |exact S].
  apply floats_ok_normalise_none. exact Hn.
Qed.

(* ================================================================ parse_lazy_value and LazyValue's functions *)
(* LazyValue::Raw keeps the JSONB bytes, LazyValue::Value holds the parsed tree: to_vec gives the same bytes,
   array_length the same answer, to_value the same document up to normalise (Int64(0) for the text `-0`, UInt64(0) for
   its encoding: the same case as as_number). *)
Lemma array_length_t_normalise v : array_length_t (normalise v) = array_length_t v.
Proof. destruct v; try reflexivity. cbn [normalise array_length_t]. rewrite lenN_map. reflexivity. Qed.

Theorem parse_lazy_value_forms t v : wfb v = true -> stands_for t v ->
  exists lv, parse_lazy_value t = Ok lv /\
             lazy_to_vec lv = enc v /\
             lazy_array_length lv = Ok (array_length_t v) /\
             exists v', lazy_to_value lv = Ok v' /\ normalise v' = normalise v.
Proof.
  intros W [[-> T]|[Ht Hp]].
  - exists (LRaw (enc v)). split; [unfold parse_lazy_value; rewrite (is_jsonb_enc v W T); reflexivity|].
    split; [reflexivity|]. split.
    + cbn [lazy_array_length]. unfold array_length_m. rewrite (doc_of_enc v W T). cbn [lift_opt].
      rewrite array_length_t_normalise. reflexivity.
    + exists (normalise v). split; [cbn [lazy_to_value]; rewrite (from_slice_enc v W); reflexivity|apply normalise_idem].
  - exists (LValue v). split; [unfold parse_lazy_value; rewrite Ht, Hp; reflexivity|].
    split; [apply to_vec_text; exact W|]. split; [destruct v; reflexivity|].
    exists v. split; reflexivity.
Qed.

(* ================================================================ C11: the same answer for every form *)
(* t1 and t2 stand for the same document (each is its encoding or a text of it); likewise u1, u2 for a second document *)
Section SameAnswer.
  Variables (t1 t2 : list N) (v : value).
  Hypothesis W : wfb v = true.
  Hypothesis S1 : stands_for t1 v.
  Hypothesis S2 : stands_for t2 v.

  Theorem C11_array_length_same_answer : array_length_w t1 = array_length_w t2.
  Proof. rewrite (array_length_forms t1 v W S1), (array_length_forms t2 v W S2). reflexivity. Qed.
  Theorem C11_get_by_index_same_answer i : get_by_index_w t1 i = get_by_index_w t2 i.
  Proof. rewrite (get_by_index_forms t1 v W S1), (get_by_index_forms t2 v W S2). reflexivity. Qed.
  Theorem C11_get_by_name_same_answer name ic : get_by_name_w t1 name ic = get_by_name_w t2 name ic.
  Proof. rewrite (get_by_name_forms t1 v W S1), (get_by_name_forms t2 v W S2). reflexivity. Qed.
  Theorem C11_get_by_keypath_same_answer ks : get_by_keypath_w t1 ks = get_by_keypath_w t2 ks.
  Proof. rewrite (get_by_keypath_forms t1 v W S1), (get_by_keypath_forms t2 v W S2). reflexivity. Qed.
  Theorem C11_object_keys_same_answer : object_keys_w t1 = object_keys_w t2.
  Proof. rewrite (object_keys_forms t1 v W S1), (object_keys_forms t2 v W S2). reflexivity. Qed.
  Theorem C11_object_each_same_answer : object_each_w t1 = object_each_w t2.
  Proof. rewrite (object_each_forms t1 v W S1), (object_each_forms t2 v W S2). reflexivity. Qed.
  Theorem C11_array_values_same_answer : array_values_w t1 = array_values_w t2.
  Proof. rewrite (array_values_forms t1 v W S1), (array_values_forms t2 v W S2). reflexivity. Qed.
  Theorem C11_exists_keys_same_answer ks :
    exists_all_keys_w t1 ks = exists_all_keys_w t2 ks /\ exists_any_keys_w t1 ks = exists_any_keys_w t2 ks.
  Proof.
    rewrite (exists_all_keys_forms t1 v W S1), (exists_all_keys_forms t2 v W S2),
            (exists_any_keys_forms t1 v W S1), (exists_any_keys_forms t2 v W S2). split; reflexivity.
  Qed.
  Theorem C11_traverse_check_string_same_answer needle : traverse_check_string_w t1 needle = traverse_check_string_w t2 needle.
  Proof. rewrite (traverse_check_string_forms t1 v W S1), (traverse_check_string_forms t2 v W S2). reflexivity. Qed.
  Theorem C11_to_serde_json_same_answer :
    to_serde_json_w t1 = to_serde_json_w t2 /\ to_serde_json_object_w t1 = to_serde_json_object_w t2.
  Proof.
    rewrite (to_serde_json_forms t1 v W S1), (to_serde_json_forms t2 v W S2),
            (to_serde_json_object_forms t1 v W S1), (to_serde_json_object_forms t2 v W S2). split; reflexivity.
  Qed.
  Theorem C11_type_of_same_answer : type_of_w t1 = type_of_w t2.
  Proof. rewrite (type_of_forms t1 v W S1), (type_of_forms t2 v W S2). reflexivity. Qed.
  (* is_null/as_null, is_boolean/as_bool, is_string/as_str, is_array, is_object, is_i64/as_i64, is_u64/as_u64, is_f64/as_f64 *)
  Theorem C11_as_casts_same_answer :
    as_null_w t1 = as_null_w t2 /\ as_bool_w t1 = as_bool_w t2 /\ as_str_w t1 = as_str_w t2 /\
    is_array_w t1 = is_array_w t2 /\ is_object_w t1 = is_object_w t2 /\
    as_i64_w t1 = as_i64_w t2 /\ as_u64_w t1 = as_u64_w t2 /\ as_f64_w t1 = as_f64_w t2.
  Proof.
    rewrite (as_null_forms t1 v W S1), (as_null_forms t2 v W S2), (as_bool_forms t1 v W S1), (as_bool_forms t2 v W S2),
            (as_str_forms t1 v W S1), (as_str_forms t2 v W S2), (is_array_forms t1 v W S1), (is_array_forms t2 v W S2),
            (is_object_forms t1 v W S1), (is_object_forms t2 v W S2), (as_i64_forms t1 v W S1), (as_i64_forms t2 v W S2),
            (as_u64_forms t1 v W S1), (as_u64_forms t2 v W S2), (as_f64_forms t1 v W S1), (as_f64_forms t2 v W S2).
    repeat split; reflexivity.
  Qed.
  Theorem C11_to_casts_same_answer :
    to_bool_w t1 = to_bool_w t2 /\ to_i64_w t1 = to_i64_w t2 /\ to_u64_w t1 = to_u64_w t2 /\
    to_f64_w t1 = to_f64_w t2 /\ to_str_w t1 = to_str_w t2.
  Proof.
    rewrite (to_bool_forms t1 v W S1), (to_bool_forms t2 v W S2), (to_i64_forms t1 v W S1), (to_i64_forms t2 v W S2),
            (to_u64_forms t1 v W S1), (to_u64_forms t2 v W S2), (to_f64_forms t1 v W S1), (to_f64_forms t2 v W S2),
            (to_str_forms t1 v W S1), (to_str_forms t2 v W S2).
    repeat split; reflexivity.
  Qed.
  (* as_number / is_number: the same number, up to the variant of the integer zero (Int64(0) for the text `-0`) *)
  Theorem C11_as_number_same_answer :
    exists o1 o2, as_number_w t1 = Ok o1 /\ as_number_w t2 = Ok o2 /\
                  option_map normalise_num o1 = option_map normalise_num o2 /\
                  (match o1 with Some _ => true | None => false end) = (match o2 with Some _ => true | None => false end).
  Proof.
    destruct (as_number_forms t1 v W S1) as (o1 & E1 & H1). destruct (as_number_forms t2 v W S2) as (o2 & E2 & H2).
    exists o1, o2. split; [exact E1|]. split; [exact E2|]. split; [congruence|].
    destruct o1, o2; cbn [option_map] in *; try reflexivity; congruence.
  Qed.
  Theorem C11_convert_to_comparable_same_answer buf : comparable_w t1 buf = comparable_w t2 buf.
  Proof. rewrite (comparable_forms t1 v buf W S1), (comparable_forms t2 v buf W S2). reflexivity. Qed.

  Theorem C11_delete_same_answer name i ks buf :
    delete_by_name_w t1 name buf = delete_by_name_w t2 name buf /\
    delete_by_index_w t1 i buf = delete_by_index_w t2 i buf /\
    delete_by_keypath_w t1 ks buf = delete_by_keypath_w t2 ks buf.
  Proof.
    rewrite (delete_by_name_forms t1 v W S1), (delete_by_name_forms t2 v W S2), (delete_by_index_forms t1 v W S1),
            (delete_by_index_forms t2 v W S2), (delete_by_keypath_forms t1 v W S1), (delete_by_keypath_forms t2 v W S2).
    repeat split; reflexivity.
  Qed.
  Theorem C11_object_filter_same_answer ks buf :
    object_delete_w t1 ks buf = object_delete_w t2 ks buf /\ object_pick_w t1 ks buf = object_pick_w t2 ks buf.
  Proof.
    rewrite (object_delete_forms t1 v ks buf W S1), (object_delete_forms t2 v ks buf W S2),
            (object_pick_forms t1 v ks buf W S1), (object_pick_forms t2 v ks buf W S2). split; reflexivity.
  Qed.
  Theorem C11_strip_nulls_same_answer buf : strip_nulls_w t1 buf = strip_nulls_w t2 buf.
  Proof. rewrite (strip_nulls_forms t1 v W S1), (strip_nulls_forms t2 v W S2). reflexivity. Qed.
  Theorem C11_array_distinct_same_answer buf : wf_size (array_distinct_t v) = true -> array_distinct_w t1 buf = array_distinct_w t2 buf.
  Proof. intros H. rewrite (array_distinct_forms t1 v buf W S1 H), (array_distinct_forms t2 v buf W S2 H). reflexivity. Qed.

  (* get_by_path (MMixed) / get_by_path_first (MFirst) / get_by_path_array (MArray), path_exists, path_match *)
  Theorem C11_path_same_answer md ps buf :
    get_by_path_gen_w md t1 ps buf = get_by_path_gen_w md t2 ps buf /\
    path_exists_w t1 ps = path_exists_w t2 ps /\ path_match_w t1 ps = path_match_w t2 ps.
  Proof.
    rewrite (get_by_path_gen_forms md t1 v ps buf W S1), (get_by_path_gen_forms md t2 v ps buf W S2),
            (path_exists_forms t1 v ps W S1), (path_exists_forms t2 v ps W S2),
            (path_match_forms t1 v ps W S1), (path_match_forms t2 v ps W S2). repeat split; reflexivity.
  Qed.

  (* to_string / to_pretty_string: both outputs are JSON texts of documents that compare Equal *)
  Theorem C11_to_string_same_document pf ok pretty : (forall b, ok b = true -> TextRoundtrip.float_reads_back pf b) ->
    TextRoundtrip.floats_ok ok (normalise v) = true ->
    exists r1 r2 d1 d2, to_text_w pf pretty t1 = Ok r1 /\ to_text_w pf pretty t2 = Ok r2 /\
                        parse_value r1 = Ok d1 /\ parse_value r2 = Ok d2 /\ cmp_value d1 d2 = Eq.
  Proof.
    intros Hok Hf. destruct (to_text_forms pf ok pretty t1 v Hok W Hf S1) as (r1 & E1 & d1 & P1 & C1).
    destruct (to_text_forms pf ok pretty t2 v Hok W Hf S2) as (r2 & E2 & d2 & P2 & C2).
    exists r1, r2, d1, d2. repeat split; try assumption.
    rewrite <- (cmp_value_eq_l d1 v d2 C1). rewrite (cmp_value_eq_r v d2 v C2). apply cmp_value_refl.
  Qed.

  (* parse_lazy_value, then LazyValue::to_vec / array_length / to_value *)
  Theorem C11_lazy_value_same_answer :
    exists l1 l2, parse_lazy_value t1 = Ok l1 /\ parse_lazy_value t2 = Ok l2 /\
                  lazy_to_vec l1 = lazy_to_vec l2 /\ lazy_array_length l1 = lazy_array_length l2 /\
                  exists d1 d2, lazy_to_value l1 = Ok d1 /\ lazy_to_value l2 = Ok d2 /\ normalise d1 = normalise d2.
  Proof.
    destruct (parse_lazy_value_forms t1 v W S1) as (l1 & P1 & V1 & A1 & d1 & D1 & N1).
    destruct (parse_lazy_value_forms t2 v W S2) as (l2 & P2 & V2 & A2 & d2 & D2 & N2).
    exists l1, l2. repeat split; try assumption; try congruence. exists d1, d2. repeat split; try assumption. congruence.
  Qed.

  (* ---- functions of two documents: every argument position independently ---- *)
  Variables (u1 u2 : list N) (x : value).
  Hypothesis Wx : wfb x = true.
  Hypothesis X1 : stands_for u1 x.
  Hypothesis X2 : stands_for u2 x.

  (* C04, last sentence *)
  Theorem C11_compare_same_answer : compare_w t1 u1 = compare_w t2 u2.
  Proof. rewrite (compare_forms t1 u1 v x W Wx S1 X1), (compare_forms t2 u2 v x W Wx S2 X2). reflexivity. Qed.
  Theorem C11_contains_same_answer :
    (is_jsonb t1 = false -> small_text t1) -> (is_jsonb t2 = false -> small_text t2) ->
    (is_jsonb u1 = false -> small_text u1) -> (is_jsonb u2 = false -> small_text u2) ->
    contains_w t1 u1 = contains_w t2 u2.
  Proof.
    intros A1 A2 B1 B2. rewrite (contains_forms t1 u1 v x W Wx S1 X1 A1 B1), (contains_forms t2 u2 v x W Wx S2 X2 A2 B2). reflexivity.
  Qed.
  Theorem C11_concat_same_answer buf : wf_size (concat_t v x) = true ->
    (is_jsonb t1 = false -> small_text t1) -> (is_jsonb t2 = false -> small_text t2) ->
    (is_jsonb u1 = false -> small_text u1) -> (is_jsonb u2 = false -> small_text u2) ->
    concat_w t1 u1 buf = concat_w t2 u2 buf.
  Proof.
    intros Hr A1 A2 B1 B2.
    rewrite (concat_forms t1 u1 v x buf W Wx S1 X1 A1 B1 Hr), (concat_forms t2 u2 v x buf W Wx S2 X2 A2 B2 Hr). reflexivity.
  Qed.
  Theorem C11_array_insert_same_answer pos buf : wf_size (array_insert_t v pos x) = true ->
    array_insert_w t1 pos u1 buf = array_insert_w t2 pos u2 buf.
  Proof.
    intros Hr. rewrite (array_insert_forms t1 u1 v x pos buf W Wx S1 X1 Hr), (array_insert_forms t2 u2 v x pos buf W Wx S2 X2 Hr). reflexivity.
  Qed.
  Theorem C11_object_insert_same_answer key upd buf : (forall y, object_insert_t v key x upd = Ok y -> wf_size y = true) ->
    object_insert_w t1 key u1 upd buf = object_insert_w t2 key u2 upd buf.
  Proof.
    intros Hr. rewrite (object_insert_forms t1 u1 v x key upd buf W Wx S1 X1 Hr), (object_insert_forms t2 u2 v x key upd buf W Wx S2 X2 Hr).
    reflexivity.
  Qed.
  Theorem C11_array_set_same_answer buf :
    wf_size (array_intersection_t v x) = true -> wf_size (array_except_t v x) = true ->
    array_intersection_w t1 u1 buf = array_intersection_w t2 u2 buf /\
    array_except_w t1 u1 buf = array_except_w t2 u2 buf /\
    array_overlap_w t1 u1 = array_overlap_w t2 u2.
  Proof.
    intros Hi He.
    rewrite (array_intersection_forms t1 u1 v x buf W Wx S1 X1 Hi), (array_intersection_forms t2 u2 v x buf W Wx S2 X2 Hi),
            (array_except_forms t1 u1 v x buf W Wx S1 X1 He), (array_except_forms t2 u2 v x buf W Wx S2 X2 He),
            (array_overlap_forms t1 u1 v x W Wx S1 X1), (array_overlap_forms t2 u2 v x W Wx S2 X2). repeat split; reflexivity.
  Qed.
End SameAnswer.
