(* DecodeProofs.v — the binary decoder never panics and only returns well-formed UTF-8 strings (C10). *)
From Coq Require Import List NArith ZArith Bool Lia.
Import ListNotations.
From JB Require Import Constants Bytes Utf8 Num NumProofs Value Codec.
Open Scope N_scope.
Set Default Timeout 120.

Lemma rd_jentries_length k : forall bs ws r, rd_jentries k bs = Some (ws, r) -> length ws = k.
Proof.
  induction k as [|k IH]; intros bs ws r H; cbn [rd_jentries] in H.
  - inversion H. reflexivity.
  - destruct (rd32 bs) as [[w rest]|]; [|discriminate].
    destruct (rd_jentries k rest) as [[ws' r']|] eqn:E; [|discriminate].
    inversion H; subst. cbn [length]. f_equal. eapply IH. exact E.
Qed.

Section DecList.
  Context {A : Type} (f : N -> list N -> res (A * list N)).
  Hypothesis Hf : forall w bs, f w bs <> Panic.
  Lemma dec_list_no_panic jes : forall bs, dec_list f jes bs <> Panic.
  Proof.
    induction jes as [|j jes IH]; intros bs; cbn [dec_list]; [discriminate|].
    destruct (f j bs) as [[v bs']| |] eqn:E; cbn [bind]; try discriminate.
    - destruct (dec_list f jes bs') as [[vs bs'']| |] eqn:E2; cbn [bind]; try discriminate. exfalso. eapply IH; eauto.
    - exfalso. eapply Hf; eauto.
  Qed.
  Lemma dec_list_length jes : forall bs vs r, dec_list f jes bs = Ok (vs, r) -> length vs = length jes.
  Proof.
    induction jes as [|j jes IH]; intros bs vs r H; cbn [dec_list] in H.
    - inversion H. reflexivity.
    - destruct (f j bs) as [[v bs']| |]; cbn [bind] in H; try discriminate.
      destruct (dec_list f jes bs') as [[vs' bs'']| |] eqn:E; cbn [bind] in H; try discriminate.
      inversion H; subst. cbn [length]. f_equal. eapply IH; eauto.
  Qed.
End DecList.

Lemma dec_members_no_panic f : (forall w bs, f w bs <> Panic) ->
  forall keys jes bs acc, (length keys <= length jes)%nat -> dec_members f keys jes bs acc <> Panic.
Proof.
  intros Hf. induction keys as [|k keys IH]; intros jes bs acc Hl; cbn [dec_members]; [discriminate|].
  destruct jes as [|j jes]; [cbn [length] in Hl; lia|].
  destruct k; try discriminate.
  destruct (f j bs) as [[v bs']| |] eqn:E; cbn [bind]; try discriminate.
  - apply IH. cbn [length] in Hl. lia.
  - exfalso. eapply Hf; eauto.
Qed.

Lemma take_split len bs s rest : take len bs = Some (s, rest) -> bs = s ++ rest.
Proof.
  unfold take. destruct (len <=? lenN bs); [|discriminate]. intros H. inversion H; subst.
  symmetry. apply firstn_skipn.
Qed.

Theorem decode_no_panic fuel :
  (forall w bs, decode_scalar fuel w bs <> Panic) /\ (forall bs, decode_jsonb fuel bs <> Panic).
Proof.
  induction fuel as [|fuel [IHs IHj]]; split; intros; cbn [decode_scalar decode_jsonb]; try discriminate.
  - repeat match goal with |- context [if ?c then _ else _] => destruct c end; try discriminate.
    + destruct (take (je_len w) bs) as [[s rest]|]; [|discriminate]. destruct (utf8_valid s); discriminate.
    + destruct (take (je_len w) bs) as [[p rest]|]; [|discriminate].
      destruct (num_decode p) eqn:E; cbn [bind]; try discriminate. exfalso. eapply num_decode_total; eauto.
    + apply IHj.
  - destruct (rd32 bs) as [[hdr rest]|]; [|discriminate].
    destruct (hdr_type hdr =? SCALAR_CONTAINER_TAG).
    { destruct (negb (hdr =? SCALAR_CONTAINER_TAG)); [discriminate|].
      destruct (rd32 rest) as [[w rest']|]; [|discriminate]. apply IHs. }
    destruct (hdr_type hdr =? ARRAY_CONTAINER_TAG).
    { destruct (lenN rest <? 4 * hdr_len hdr); [discriminate|].
      destruct (rd_jentries (N.to_nat (hdr_len hdr)) rest) as [[jes rest']|]; [|discriminate].
      destruct (dec_list (decode_scalar fuel) jes rest') as [[vs r]| |] eqn:E; cbn [bind]; try discriminate.
      exfalso. eapply (dec_list_no_panic _ IHs); eauto. }
    destruct (hdr_type hdr =? OBJECT_CONTAINER_TAG); [|discriminate].
    destruct (lenN rest <? 8 * hdr_len hdr); [discriminate|].
    destruct (rd_jentries (2 * N.to_nat (hdr_len hdr)) rest) as [[jes rest']|] eqn:EJ; [|discriminate].
    pose proof (rd_jentries_length _ _ _ _ EJ) as Hlen.
    destruct (dec_list (decode_scalar fuel) (firstn (N.to_nat (hdr_len hdr)) jes) rest') as [[keys r]| |] eqn:E; cbn [bind]; try discriminate.
    + pose proof (dec_list_length _ _ _ _ _ E) as Hk. rewrite firstn_length in Hk.
      destruct (dec_members (decode_scalar fuel) keys (skipn (N.to_nat (hdr_len hdr)) jes) r []) as [[ms r']| |] eqn:E2; cbn [bind]; try discriminate.
      exfalso. eapply (dec_members_no_panic _ IHs); [|exact E2]. rewrite skipn_length. lia.
    + exfalso. eapply (dec_list_no_panic _ IHs); eauto.
Qed.

Theorem parse_jsonb_total bs : parse_jsonb bs <> Panic.
Proof.
  unfold parse_jsonb. destruct (lenN bs <? 4); [discriminate|].
  destruct (decode_jsonb (S (length bs)) bs) as [[v r]| |] eqn:E; cbn [bind]; try discriminate.
  exfalso. eapply (proj2 (decode_no_panic _)); eauto.
Qed.

(* ---- every string and key inside a decoded value is well-formed UTF-8 ---- *)
Fixpoint strings_utf8 (v : value) : bool :=
  match v with
  | VStr s => utf8_valid s
  | VArr l => forallb strings_utf8 l
  | VObj o => forallb (fun kv => utf8_valid (fst kv) && strings_utf8 (snd kv)) o
  | _ => true
  end.

Section Utf8List.
  Variable f : N -> list N -> res (value * list N).
  Hypothesis Hf : forall w bs v r, f w bs = Ok (v, r) -> strings_utf8 v = true.
  Lemma dec_list_utf8 jes : forall bs vs r, dec_list f jes bs = Ok (vs, r) -> forallb strings_utf8 vs = true.
  Proof.
    induction jes as [|j jes IH]; intros bs vs r H; cbn [dec_list] in H.
    - inversion H. reflexivity.
    - destruct (f j bs) as [[v bs']| |] eqn:E; cbn [bind] in H; try discriminate.
      destruct (dec_list f jes bs') as [[vs' bs'']| |] eqn:E2; cbn [bind] in H; try discriminate.
      inversion H; subst. cbn [forallb]. rewrite (Hf _ _ _ _ E), (IH _ _ _ E2). reflexivity.
  Qed.
  Definition members_ok (o : list (list N * value)) : bool :=
    forallb (fun kv => utf8_valid (fst kv) && strings_utf8 (snd kv)) o.
  Lemma assoc_insert_ok k v o : utf8_valid k = true -> strings_utf8 v = true -> members_ok o = true ->
    members_ok (assoc_insert k v o) = true.
  Proof.
    intros Hk Hv. induction o as [|[k' v'] o IH]; intros Ho; cbn [assoc_insert members_ok forallb fst snd].
    - rewrite Hk, Hv. reflexivity.
    - unfold members_ok in Ho. cbn [forallb fst snd] in Ho. apply andb_true_iff in Ho. destruct Ho as [H1 H2].
      destruct (bytes_cmp k k'); cbn [forallb fst snd].
      + rewrite Hk, Hv. exact H2.
      + rewrite Hk, Hv, H1. exact H2.
      + rewrite H1. apply IH. exact H2.
  Qed.
  Lemma dec_members_utf8 keys : forall jes bs acc ms r,
    forallb strings_utf8 keys = true -> members_ok acc = true ->
    dec_members f keys jes bs acc = Ok (ms, r) -> members_ok ms = true.
  Proof.
    induction keys as [|k keys IH]; intros jes bs acc ms r Hk Ha H; cbn [dec_members] in H.
    - inversion H; subst. exact Ha.
    - destruct jes as [|j jes]; [discriminate|]. destruct k; try discriminate.
      destruct (f j bs) as [[v bs']| |] eqn:E; cbn [bind] in H; try discriminate.
      cbn [forallb strings_utf8] in Hk. apply andb_true_iff in Hk. destruct Hk as [Hs Hk].
      eapply IH; [exact Hk| |exact H]. apply assoc_insert_ok; auto. eapply Hf; eauto.
  Qed.
End Utf8List.

Theorem decode_utf8 fuel :
  (forall w bs v r, decode_scalar fuel w bs = Ok (v, r) -> strings_utf8 v = true) /\
  (forall bs v r, decode_jsonb fuel bs = Ok (v, r) -> strings_utf8 v = true).
Proof.
  induction fuel as [|fuel [IHs IHj]]; split; intros until r; cbn [decode_scalar decode_jsonb]; try discriminate.
  - repeat match goal with |- context [if ?c then _ else _] => destruct c end; try discriminate;
      try (intros H; inversion H; subst; reflexivity).
    + destruct (take (je_len w) bs) as [[s rest]|]; [|discriminate]. destruct (utf8_valid s) eqn:U; [|discriminate].
      intros H; inversion H; subst. exact U.
    + destruct (take (je_len w) bs) as [[p rest]|]; [|discriminate].
      destruct (num_decode p); cbn [bind]; try discriminate. intros H; inversion H; subst. reflexivity.
    + apply IHj.
  - destruct (rd32 bs) as [[hdr rest]|]; [|discriminate].
    destruct (hdr_type hdr =? SCALAR_CONTAINER_TAG).
    { destruct (negb (hdr =? SCALAR_CONTAINER_TAG)); [discriminate|].
      destruct (rd32 rest) as [[w rest']|]; [|discriminate]. apply IHs. }
    destruct (hdr_type hdr =? ARRAY_CONTAINER_TAG).
    { destruct (lenN rest <? 4 * hdr_len hdr); [discriminate|].
      destruct (rd_jentries (N.to_nat (hdr_len hdr)) rest) as [[jes rest']|]; [|discriminate].
      destruct (dec_list (decode_scalar fuel) jes rest') as [[vs r0]| |] eqn:E; cbn [bind]; try discriminate.
      intros H; inversion H; subst. cbn [strings_utf8]. eapply dec_list_utf8; eauto. }
    destruct (hdr_type hdr =? OBJECT_CONTAINER_TAG); [|discriminate].
    destruct (lenN rest <? 8 * hdr_len hdr); [discriminate|].
    destruct (rd_jentries (2 * N.to_nat (hdr_len hdr)) rest) as [[jes rest']|]; [|discriminate].
    destruct (dec_list (decode_scalar fuel) (firstn (N.to_nat (hdr_len hdr)) jes) rest') as [[keys r0]| |] eqn:E; cbn [bind]; try discriminate.
    destruct (dec_members (decode_scalar fuel) keys (skipn (N.to_nat (hdr_len hdr)) jes) r0 []) as [[ms r1]| |] eqn:E2; cbn [bind]; try discriminate.
    intros H; inversion H; subst. cbn [strings_utf8].
    apply (dec_members_utf8 _ IHs keys (skipn (N.to_nat (hdr_len hdr)) jes) r0 [] ms r); [|reflexivity|exact E2].
    eapply dec_list_utf8; eauto.
Qed.

Theorem parse_jsonb_utf8 bs v : parse_jsonb bs = Ok v -> strings_utf8 v = true.
Proof.
  unfold parse_jsonb. destruct (lenN bs <? 4); [discriminate|].
  destruct (decode_jsonb (S (length bs)) bs) as [[v' r]| |] eqn:E; cbn [bind]; try discriminate.
  intros H; inversion H; subst. eapply (proj2 (decode_utf8 _)); eauto.
Qed.

(* the decoder before the fixes, on the recorded witnesses, to keep the refutation checkable *)
Example strings_utf8_nonvacuous : parse_jsonb [32; 0; 0; 0; 16; 0; 0; 2; 255; 254] = Err EOther.
Proof. vm_compute. reflexivity. Qed.
