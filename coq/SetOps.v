(* SetOps.v — array_distinct / intersection / except / overlap: multiset semantics over identical encodings *)
From Coq Require Import List NArith ZArith Bool.
Import ListNotations.
From JB Require Import Constants Bytes Num Value Codec.
Open Scope N_scope.

(* two elements are the same when their entry word and payload are identical *)
Definition item_eqb (a b : value) : bool :=
  let ka := enc_item a in let kb := enc_item b in
  (fst ka =? fst kb) && bytes_eqb (snd ka) (snd kb).

Definition items_of (v : value) : list value := match v with VArr l => l | other => [other] end.

Fixpoint distinct_acc (seen : list value) (l : list value) : list value :=
  match l with
  | [] => []
  | x :: r => if existsb (item_eqb x) seen then distinct_acc seen r else x :: distinct_acc (x :: seen) r
  end.
Definition array_distinct_t (v : value) : value := VArr (distinct_acc [] (items_of v)).

(* remove one copy of x from the multiset m *)
Fixpoint take_one (x : value) (m : list value) : option (list value) :=
  match m with
  | [] => None
  | y :: r => if item_eqb x y then Some r
              else match take_one x r with Some r' => Some (y :: r') | None => None end
  end.
Fixpoint inter_acc (l m : list value) : list value :=
  match l with
  | [] => []
  | x :: r => match take_one x m with
              | Some m' => x :: inter_acc r m'
              | None => inter_acc r m
              end
  end.
Fixpoint except_acc (l m : list value) : list value :=
  match l with
  | [] => []
  | x :: r => match take_one x m with
              | Some m' => except_acc r m'
              | None => x :: except_acc r m
              end
  end.
Definition array_intersection_t (a b : value) : value := VArr (inter_acc (items_of a) (items_of b)).
Definition array_except_t (a b : value) : value := VArr (except_acc (items_of a) (items_of b)).
Definition array_overlap_t (a b : value) : bool :=
  existsb (fun x => existsb (item_eqb x) (items_of b)) (items_of a).
