(* PathInd.v — induction over JSONPath ASTs.  `path` and `expr` are mutually inductive and nest through `list path`
   (EPaths, EExists); the generated principles say nothing about the paths inside a list.  `expr_path_ind` is the
   full principle (a `Forall` premise for the lists); `expr_ind_steps` is its one-predicate form: to prove P for every
   expression, P may be assumed for the expressions of the filter steps of the paths it contains.  No definitions used
   by the executable model live here. *)
From Coq Require Import List.
Import ListNotations.
From JB Require Import Path.

(* the expressions a step carries *)
Definition step_exprs (p : path) : list expr :=
  match p with PFilter e | PPredicate e => [e] | _ => [] end.
(* "P holds for the expression of every filter / predicate step of ps" *)
Definition steps_all (P : expr -> Prop) (ps : list path) : Prop :=
  Forall (fun p => forall e, In e (step_exprs p) -> P e) ps.

Section PathInd.
  Variables (P : expr -> Prop) (Q : path -> Prop).
  Hypothesis HPaths : forall l, Forall Q l -> P (EPaths l).
  Hypothesis HValue : forall v, P (EValue v).
  Hypothesis HBin : forall op l r, P l -> P r -> P (EBin op l r).
  Hypothesis HArithU : forall op x, P x -> P (EArithU op x).
  Hypothesis HArithB : forall op l r, P l -> P r -> P (EArithB op l r).
  Hypothesis HExists : forall l, Forall Q l -> P (EExists l).
  Hypothesis HRoot : Q PRoot.
  Hypothesis HCurrent : Q PCurrent.
  Hypothesis HDotWild : Q PDotWild.
  Hypothesis HBracketWild : Q PBracketWild.
  Hypothesis HDotField : forall s, Q (PDotField s).
  Hypothesis HColonField : forall s, Q (PColonField s).
  Hypothesis HObjectField : forall s, Q (PObjectField s).
  Hypothesis HIndices : forall l, Q (PIndices l).
  Hypothesis HFilter : forall e, P e -> Q (PFilter e).
  Hypothesis HPredicate : forall e, P e -> Q (PPredicate e).

  Fixpoint expr_ind_m (e : expr) : P e :=
    match e with
    | EPaths l => HPaths l ((fix go (l : list path) : Forall Q l :=
                               match l with [] => Forall_nil Q | p :: r => Forall_cons p (path_ind_m p) (go r) end) l)
    | EValue v => HValue v
    | EBin op l r => HBin op l r (expr_ind_m l) (expr_ind_m r)
    | EArithU op x => HArithU op x (expr_ind_m x)
    | EArithB op l r => HArithB op l r (expr_ind_m l) (expr_ind_m r)
    | EExists l => HExists l ((fix go (l : list path) : Forall Q l :=
                                 match l with [] => Forall_nil Q | p :: r => Forall_cons p (path_ind_m p) (go r) end) l)
    end
  with path_ind_m (p : path) : Q p :=
    match p with
    | PRoot => HRoot | PCurrent => HCurrent | PDotWild => HDotWild | PBracketWild => HBracketWild
    | PDotField s => HDotField s | PColonField s => HColonField s | PObjectField s => HObjectField s
    | PIndices l => HIndices l
    | PFilter e => HFilter e (expr_ind_m e)
    | PPredicate e => HPredicate e (expr_ind_m e)
    end.
  Lemma expr_path_ind : (forall e, P e) /\ (forall p, Q p).
  Proof. split; [exact expr_ind_m|exact path_ind_m]. Qed.
End PathInd.

Section OnePredicate.
  Variable P : expr -> Prop.
  Hypothesis HPaths : forall l, steps_all P l -> P (EPaths l).
  Hypothesis HValue : forall v, P (EValue v).
  Hypothesis HBin : forall op l r, P l -> P r -> P (EBin op l r).
  Hypothesis HArithU : forall op x, P x -> P (EArithU op x).
  Hypothesis HArithB : forall op l r, P l -> P r -> P (EArithB op l r).
  Hypothesis HExists : forall l, steps_all P l -> P (EExists l).
  Lemma expr_ind_steps : forall e, P e.
  Proof.
    apply (expr_path_ind P (fun p => forall e, In e (step_exprs p) -> P e)); auto;
      try (intros; match goal with H : In _ (step_exprs _) |- _ => cbn [step_exprs In] in H; contradiction end).
    - intros x Hx e0 H. cbn [step_exprs In] in H. destruct H as [E|[]]. rewrite <- E. exact Hx.
    - intros x Hx e0 H. cbn [step_exprs In] in H. destruct H as [E|[]]. rewrite <- E. exact Hx.
  Qed.
  Lemma steps_all_all : forall ps, steps_all P ps.
  Proof. intros ps. apply Forall_forall. intros p _ e _. apply expr_ind_steps. Qed.
End OnePredicate.

Lemma steps_all_cons P p ps : steps_all P (p :: ps) <-> (forall e, In e (step_exprs p) -> P e) /\ steps_all P ps.
Proof. unfold steps_all. split; [intros H; inversion H; auto|intros [H1 H2]; constructor; assumption]. Qed.
Lemma steps_all_tl P ps : steps_all P ps -> steps_all P (tl ps).
Proof. destruct ps; [auto|]. intros H. apply steps_all_cons in H. apply H. Qed.
Lemma steps_all_mono (P Q : expr -> Prop) ps : (forall e, P e -> Q e) -> steps_all P ps -> steps_all Q ps.
Proof. intros H. unfold steps_all. apply Forall_impl. intros p Hp e He. apply H, Hp, He. Qed.
Lemma steps_all_intro (P : expr -> Prop) ps : (forall e, P e) -> steps_all P ps.
Proof. intros H. apply Forall_forall. intros p _ e _. apply H. Qed.

(* ---------------------------------------------------------------- sizes (for inductions that need "everything smaller") *)
Definition psize_with (es : expr -> nat) (p : path) : nat :=
  match p with PFilter e | PPredicate e => S (es e) | _ => 1 end.
Fixpoint esize (e : expr) {struct e} : nat :=
  match e with
  | EPaths l => S (list_sum (map (psize_with (fun e' => esize e')) l))
  | EValue _ => 1
  | EBin _ l r => S (esize l + esize r)
  | EArithU _ x => S (esize x)
  | EArithB _ l r => S (esize l + esize r)
  | EExists l => S (list_sum (map (psize_with (fun e' => esize e')) l))
  end.
Definition psize (p : path) : nat := psize_with esize p.
Lemma esize_exists l : esize (EExists l) = S (list_sum (map psize l)).
Proof. reflexivity. Qed.
Lemma esize_paths l : esize (EPaths l) = S (list_sum (map psize l)).
Proof. reflexivity. Qed.
Lemma esize_bin op l r : esize (EBin op l r) = S (esize l + esize r).
Proof. reflexivity. Qed.
Lemma psize_filter e : psize (PFilter e) = S (esize e).
Proof. reflexivity. Qed.
Lemma psize_in p l : In p l -> psize p <= list_sum (map psize l).
Proof.
  induction l as [|q l IH]; [intros []|]. cbn [map list_sum]. intros [->|H]; [apply PeanoNat.Nat.le_add_r|].
  apply IH in H. apply (PeanoNat.Nat.le_trans _ _ _ H). apply PeanoNat.Nat.le_add_l.
Qed.
