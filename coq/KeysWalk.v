(* KeysWalk.v — offset-faithful model of exists_all_keys / exists_any_keys / exists_jsonb_key of src/functions.rs.
     read_u32(value, 0).unwrap_or_default()   -> header 0 on a short buffer (neither object nor array: every key is absent)
     from_utf8(key)                           -> a key that is not UTF-8: `all` answers false at once, `any` skips it
     for obj_key in iteate_object_keys(..)    -> the fold of Iter.v, left by `break` at the first equal key
     for (jentry, val) in iterate_array(..)   -> the fold of Iter.v; entries that are not strings are skipped (`continue`),
                                                 a string payload equal to the key leaves the loop
     the iterators' reads and slices          -> as in Iter.v: a failed read ends the loop, a slice out of bounds panics
   The keys are tested one after the other and the function returns at the first decisive one: later keys are not
   looked up (which matters on a corrupt buffer, where a later look-up could panic).
   The JSON-text branch is the one of Dispatch.v.  Executable definitions only; KeysWalkProofs.v shows that on `enc v`
   the walkers return the tree answers of TreeOps.v. *)
From Coq Require Import List NArith ZArith Bool.
Import ListNotations.
From JB Require Import Constants Bytes Utf8 Num Value Codec TreeOps Dispatch Walk Iter.
Open Scope N_scope.

Definition header_default (bs : list N) : N := match read_u32 bs 0 with Some h => h | None => 0 end.

(* exists_jsonb_key *)
Definition exists_jsonb_key_w (bs : list N) (hdr : N) (key : list N) : res bool :=
  let ty := hdr_type hdr in
  if ty =? OBJECT_CONTAINER_TAG then
    iterate_object_keys bs hdr
      (fun (_ : unit) k => if bytes_eqb key k then Ok (inr true) else Ok (inl tt))
      (fun _ => Ok false) tt
  else if ty =? ARRAY_CONTAINER_TAG then
    iterate_array bs hdr
      (fun (_ : unit) j p =>
         if negb (fst j =? STRING_TAG) then Ok (inl tt)
         else if bytes_eqb p key then Ok (inr true) else Ok (inl tt))
      (fun _ => Ok false) tt
  else Ok false.

(* the loops over the keys of exists_all_keys / exists_any_keys (binary branch) *)
Fixpoint all_keys_loop (bs : list N) (hdr : N) (ks : list (list N)) : res bool :=
  match ks with
  | [] => Ok true
  | k :: r =>
      if utf8_valid k then
        do b <- exists_jsonb_key_w bs hdr k;
        if b then all_keys_loop bs hdr r else Ok false
      else Ok false
  end.
Fixpoint any_keys_loop (bs : list N) (hdr : N) (ks : list (list N)) : res bool :=
  match ks with
  | [] => Ok false
  | k :: r =>
      if utf8_valid k then
        do b <- exists_jsonb_key_w bs hdr k;
        if b then Ok true else any_keys_loop bs hdr r
      else any_keys_loop bs hdr r
  end.

(* ---- the public functions ---- *)
Definition exists_all_keys_w (bs : list N) (ks : list (list N)) : res bool :=
  if is_jsonb bs then all_keys_loop bs (header_default bs) ks else exists_all_keys_m bs ks.
Definition exists_any_keys_w (bs : list N) (ks : list (list N)) : res bool :=
  if is_jsonb bs then any_keys_loop bs (header_default bs) ks else exists_any_keys_m bs ks.
