(* EditStEnc.v — the editors as state functions over the caller's buffer (BufSt.v), on well-formed inputs:
       f_st (enc v) args buf = (buf ++ enc y, Ok tt)     when the tree edit gives  Ok y
       f_st (enc v) args buf = (buf, Err e)              when the tree edit gives  Err e  (the documented error)
   (`st_spec buf r`), i.e. the buffer AS THE CALL LEAVES IT: a success appends exactly the encoding of the edited
   document to what was there, a documented error returns that error and leaves the buffer as it was.
   Each statement is the refinement theorem of the view (EditWalkProofs.v, EditWalk2Proofs.v, SetWalkProofs.v: what the
   walker computes on an encoding) combined with `quiet` (EditStProofs.v: on ANY input, nothing is written before the
   last fallible step).  Then the same for either form of a document argument (JSONB or JSON text, `stands_for`). *)
From Coq Require Import List NArith ZArith Bool.
Import ListNotations.
From JB Require Import Constants Bytes Utf8 Num Value Codec TreeOps SetOps JsonText Dispatch DispatchProofs BufSt EditWalk EditWalk2
  EditStProofs EditWalkProofs EditWalk2Proofs SetWalkProofs TextBinProofs.
From JB Require SetWalk.
Open Scope N_scope.
Set Default Timeout 120.

Lemma st_of_view_ok (m : stm unit) buf y : quiet m -> view (m buf) = Ok (buf ++ enc y) -> m buf = (buf ++ enc y, Ok tt).
Proof. intros Q V. exact (st_of_view m buf (Ok y) Q V). Qed.

(* ================================================================ on encodings *)
Theorem concat_st_enc a b buf : wfb a = true -> top_ok a -> wfb b = true -> top_ok b -> wf_size (concat_t a b) = true ->
  concat_st (enc a) (enc b) buf = (buf ++ enc (concat_t a b), Ok tt).
Proof. intros. apply st_of_view_ok; [apply concat_st_quiet|]. apply concat_w_enc; assumption. Qed.

Theorem delete_by_name_st_enc v name buf : wfb v = true -> top_ok v ->
  delete_by_name_st (enc v) name buf = st_spec buf (delete_by_name_t v name).
Proof. intros. apply st_of_view; [apply delete_by_name_st_quiet|]. apply delete_by_name_w_enc; assumption. Qed.

Theorem delete_by_index_st_enc v i buf : wfb v = true -> top_ok v ->
  delete_by_index_st (enc v) i buf = st_spec buf (delete_by_index_t v i).
Proof. intros. apply st_of_view; [apply delete_by_index_st_quiet|]. apply delete_by_index_w_enc; assumption. Qed.

Theorem array_insert_st_enc v pos x buf : wfb v = true -> top_ok v -> wfb x = true -> top_ok x ->
  wf_size (array_insert_t v pos x) = true ->
  array_insert_st (enc v) pos (enc x) buf = (buf ++ enc (array_insert_t v pos x), Ok tt).
Proof. intros. apply st_of_view_ok; [apply array_insert_st_quiet|]. apply array_insert_w_enc; assumption. Qed.

Theorem object_insert_st_enc v x key upd buf : wfb v = true -> top_ok v -> wfb x = true -> top_ok x ->
  (forall y, object_insert_t v key x upd = Ok y -> wf_size y = true) ->
  object_insert_st (enc v) key (enc x) upd buf = st_spec buf (object_insert_t v key x upd).
Proof. intros. apply st_of_view; [apply object_insert_st_quiet|]. apply object_insert_w_enc; assumption. Qed.

Theorem object_delete_st_enc v ks buf : wfb v = true -> top_ok v ->
  object_delete_st (enc v) ks buf = st_spec buf (object_delete_t v ks).
Proof. intros. apply st_of_view; [apply object_delete_st_quiet|]. apply object_delete_w_enc; assumption. Qed.

Theorem object_pick_st_enc v ks buf : wfb v = true -> top_ok v ->
  object_pick_st (enc v) ks buf = st_spec buf (object_pick_t v ks).
Proof. intros. apply st_of_view; [apply object_pick_st_quiet|]. apply object_pick_w_enc; assumption. Qed.

Theorem strip_nulls_st_enc v buf : wfb v = true -> top_ok v ->
  strip_nulls_st (enc v) buf = (buf ++ enc (strip_nulls_t v), Ok tt).
Proof. intros. apply st_of_view_ok; [apply strip_nulls_st_quiet|]. apply strip_nulls_w_enc; assumption. Qed.

Theorem delete_by_keypath_st_enc v ks buf : wfb v = true -> top_ok v ->
  delete_by_keypath_st (enc v) ks buf = st_spec buf (delete_by_keypath_t v ks).
Proof. intros. apply st_of_view; [apply delete_by_keypath_st_quiet|]. apply delete_by_keypath_w_enc'; assumption. Qed.

Theorem array_distinct_st_enc a buf : wfb a = true -> top_ok a -> wf_size (array_distinct_t a) = true ->
  SetWalk.array_distinct_st (enc a) buf = (buf ++ enc (array_distinct_t a), Ok tt).
Proof. intros. apply st_of_view_ok; [apply array_distinct_st_quiet|]. apply array_distinct_w_enc; assumption. Qed.

Theorem array_intersection_st_enc a b buf : wfb a = true -> top_ok a -> wfb b = true -> top_ok b ->
  wf_size (array_intersection_t a b) = true ->
  SetWalk.array_intersection_st (enc a) (enc b) buf = (buf ++ enc (array_intersection_t a b), Ok tt).
Proof. intros. apply st_of_view_ok; [apply array_intersection_st_quiet|]. apply array_intersection_w_enc; assumption. Qed.

Theorem array_except_st_enc a b buf : wfb a = true -> top_ok a -> wfb b = true -> top_ok b ->
  wf_size (array_except_t a b) = true ->
  SetWalk.array_except_st (enc a) (enc b) buf = (buf ++ enc (array_except_t a b), Ok tt).
Proof. intros. apply st_of_view_ok; [apply array_except_st_quiet|]. apply array_except_w_enc; assumption. Qed.

(* the documented errors, spelled out: each is returned with the buffer untouched *)
Theorem documented_errors_leave_buffer v buf : wfb v = true -> top_ok v ->
  (forall name, (match v with VArr _ | VObj _ => False | _ => True end) ->
     delete_by_name_st (enc v) name buf = (buf, Err EInvalidJsonType)) /\
  (forall i, (match v with VArr _ => False | _ => True end) ->
     delete_by_index_st (enc v) i buf = (buf, Err EInvalidJsonType)) /\
  (forall ks, (match v with VArr _ | VObj _ => False | _ => True end) ->
     delete_by_keypath_st (enc v) ks buf = (buf, Err EInvalidJsonType)) /\
  (forall ks, (match v with VObj _ => False | _ => True end) ->
     object_delete_st (enc v) ks buf = (buf, Err EInvalidObject) /\
     object_pick_st (enc v) ks buf = (buf, Err EInvalidObject)) /\
  (forall x key upd, wfb x = true -> top_ok x -> (match v with VObj _ => False | _ => True end) ->
     object_insert_st (enc v) key (enc x) upd buf = (buf, Err EInvalidObject)) /\
  (forall o x key, v = VObj o -> wfb x = true -> top_ok x -> assoc_lookup key o <> None ->
     object_insert_st (enc v) key (enc x) false buf = (buf, Err EDupKey)).
Proof.
  intros W T. repeat match goal with |- _ /\ _ => split end.
  - intros name H. rewrite (delete_by_name_st_enc v name buf W T). destruct v; try contradiction; reflexivity.
  - intros i H. rewrite (delete_by_index_st_enc v i buf W T). destruct v; try contradiction; reflexivity.
  - intros ks H. rewrite (delete_by_keypath_st_enc v ks buf W T). destruct v; try contradiction; reflexivity.
  - intros ks H. rewrite (object_delete_st_enc v ks buf W T), (object_pick_st_enc v ks buf W T).
    destruct v; try contradiction; split; reflexivity.
  - intros x key upd Wx Tx H. rewrite (object_insert_st_enc v x key upd buf W T Wx Tx).
    + destruct v; try contradiction; reflexivity.
    + intros y E. destruct v; try contradiction; discriminate E.
  - intros o x key -> Wx Tx H. rewrite (object_insert_st_enc (VObj o) x key false buf W T Wx Tx).
    + cbn [object_insert_t]. destruct (assoc_lookup key o); [reflexivity|contradiction].
    + intros y E. cbn [object_insert_t] in E. destruct (assoc_lookup key o); [discriminate E|contradiction].
Qed.

(* ================================================================ either form of a document argument *)
Section Forms.
  Variables (t : list N) (v : value).
  Hypothesis W : wfb v = true.
  Hypothesis S : stands_for t v.
  Theorem delete_by_name_st_forms name buf : delete_by_name_st t name buf = st_spec buf (delete_by_name_t v name).
  Proof. apply st_of_view; [apply delete_by_name_st_quiet|]. apply delete_by_name_forms; assumption. Qed.
  Theorem delete_by_index_st_forms i buf : delete_by_index_st t i buf = st_spec buf (delete_by_index_t v i).
  Proof. apply st_of_view; [apply delete_by_index_st_quiet|]. apply delete_by_index_forms; assumption. Qed.
  Theorem delete_by_keypath_st_forms ks buf : delete_by_keypath_st t ks buf = st_spec buf (delete_by_keypath_t v ks).
  Proof. apply st_of_view; [apply delete_by_keypath_st_quiet|]. apply delete_by_keypath_forms; assumption. Qed.
  Theorem strip_nulls_st_forms buf : strip_nulls_st t buf = (buf ++ enc (strip_nulls_t v), Ok tt).
  Proof. apply st_of_view_ok; [apply strip_nulls_st_quiet|]. apply strip_nulls_forms; assumption. Qed.
  Theorem object_delete_st_forms ks buf : object_delete_st t ks buf = st_spec buf (object_delete_t v ks).
  Proof. apply st_of_view; [apply object_delete_st_quiet|]. apply object_delete_forms; assumption. Qed.
  Theorem object_pick_st_forms ks buf : object_pick_st t ks buf = st_spec buf (object_pick_t v ks).
  Proof. apply st_of_view; [apply object_pick_st_quiet|]. apply object_pick_forms; assumption. Qed.
End Forms.
Theorem object_insert_st_forms t u v x key upd buf : wfb v = true -> wfb x = true -> stands_for t v -> stands_for u x ->
  (forall y, object_insert_t v key x upd = Ok y -> wf_size y = true) ->
  object_insert_st t key u upd buf = st_spec buf (object_insert_t v key x upd).
Proof. intros. apply st_of_view; [apply object_insert_st_quiet|]. apply object_insert_forms; assumption. Qed.
Theorem array_insert_st_forms t u v x pos buf : wfb v = true -> wfb x = true -> stands_for t v -> stands_for u x ->
  wf_size (array_insert_t v pos x) = true ->
  array_insert_st t pos u buf = (buf ++ enc (array_insert_t v pos x), Ok tt).
Proof. intros. apply st_of_view_ok; [apply array_insert_st_quiet|]. apply array_insert_forms; assumption. Qed.
Theorem concat_st_forms t u a b buf : wfb a = true -> wfb b = true -> stands_for t a -> stands_for u b ->
  (is_jsonb t = false -> small_text t) -> (is_jsonb u = false -> small_text u) ->
  wf_size (concat_t a b) = true ->
  concat_st t u buf = (buf ++ enc (concat_t a b), Ok tt).
Proof. intros. apply st_of_view_ok; [apply concat_st_quiet|]. apply concat_forms; assumption. Qed.

(* a JSON text that does not parse is an error of every editor, and leaves the buffer as it was (an instance of
   `quiet`; stated for the record because it is the most common documented error) *)
Theorem bad_text_leaves_buffer t e buf : is_jsonb t = false -> parse_value t = Err e ->
  delete_by_name_st t [] buf = (buf, Err e) /\ strip_nulls_st t buf = (buf, Err e) /\
  object_delete_st t [] buf = (buf, Err e) /\ SetWalk.array_distinct_st t buf = (buf, Err e).
Proof.
  intros J P. unfold delete_by_name_st, strip_nulls_st, object_delete_st, SetWalk.array_distinct_st, as_jsonb, SetWalk.as_jsonb.
  rewrite J. unfold sbind, spure. rewrite P. cbn [bind]. repeat split; reflexivity.
Qed.

(* ================================================================ not vacuous *)
Definition st_doc : value := VObj [([97], VArr [VNull; VStr [120]]); ([99], VNull)].
Example st_examples :
  wfb st_doc = true /\ top_ok st_doc /\
  (* success: exactly the edited document after the caller's bytes *)
  delete_by_name_st (enc st_doc) [97] [7; 8] = ([7; 8] ++ enc (VObj [([99], VNull)]), Ok tt) /\
  (* documented errors: the error, the buffer as it was *)
  delete_by_index_st (enc st_doc) 0%Z [7; 8] = ([7; 8], Err EInvalidJsonType) /\
  object_insert_st (enc st_doc) [97] (enc VNull) false [7; 8] = ([7; 8], Err EDupKey) /\
  object_pick_st (enc (VArr [VNull])) [[97]] [7; 8] = ([7; 8], Err EInvalidObject) /\
  (* truncated input: array_insert has collected the items and pushed the first before it fails on new_value *)
  array_insert_st (enc (VArr [VNull; VNull])) 1%Z [32; 0] [7; 8] = ([7; 8], Err EOther) /\
  (* JSON text that does not parse *)
  strip_nulls_st [123; 125; 125] [7; 8] = ([7; 8], Err EOther) /\
  (* in contrast build_array has written the header slot and one entry word when it meets the bad item *)
  build_array_st [enc VNull; [96; 0; 0; 0]] [7; 8] = ([7; 8; 0; 0; 0; 0; 0; 0; 0; 0], Err EOther).
Proof. vm_compute. repeat split; reflexivity. Qed.
