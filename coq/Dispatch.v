(* Dispatch.v — the public byte-level API as the code dispatches it: `is_jsonb` on the first byte, then the
   text branch (parse, work on the tree / re-encode) or the binary branch.  The binary walkers are modelled at
   view level here: decode the canonical input, apply the tree operation, encode the result (offset-faithful
   models of individual walkers and their refinement proofs live in Walk*.v). *)
From Coq Require Import List NArith ZArith Bool.
Import ListNotations.
From JB Require Import Constants Bytes Utf8 Num Value Codec Decimal JsonText Order TreeOps Contain SetOps CmpKey Render Serde Path PathSem.
Open Scope N_scope.

(* de.rs from_slice: binary decoder first, JSON text as the fallback *)
Definition from_slice (bs : list N) : res value :=
  match parse_jsonb bs with
  | Ok v => Ok v
  | Err _ => parse_value bs
  | Panic => Panic
  end.

(* the document a byte string stands for, the way most functions read it *)
Definition doc_of (bs : list N) : res value := if is_jsonb bs then parse_jsonb bs else parse_value bs.

Definition opt_of_res {A} (r : res A) : res (option A) :=
  match r with Ok a => Ok (Some a) | Err _ => Ok None | Panic => Panic end.
Definition lift_opt {A B} (f : A -> option B) (r : res A) : res (option B) :=
  match r with Ok a => Ok (f a) | Err _ => Ok None | Panic => Panic end.
Definition lift_bool {A} (f : A -> bool) (r : res A) : res bool :=
  match r with Ok a => Ok (f a) | Err _ => Ok false | Panic => Panic end.

(* ---- accessors (Option-returning: a text that does not parse gives None) ---- *)
Definition array_length_m (bs : list N) : res (option N) := lift_opt array_length_t (doc_of bs).
Definition get_by_index_m (bs : list N) (i : N) : res (option (list N)) :=
  lift_opt (fun v => option_map enc (get_by_index_t v i)) (doc_of bs).
Definition get_by_name_m (bs : list N) (name : list N) (ic : bool) : res (option (list N)) :=
  lift_opt (fun v => option_map enc (get_by_name_t v name ic)) (doc_of bs).
Definition get_by_keypath_m (bs : list N) (ks : list keypath) : res (option (list N)) :=
  lift_opt (fun v => option_map enc (get_by_keypath_t v ks)) (doc_of bs).
Definition object_keys_m (bs : list N) : res (option (list N)) :=
  lift_opt (fun v => option_map enc (object_keys_t v)) (doc_of bs).
Definition object_each_m (bs : list N) : res (option (list (list N * list N))) :=
  lift_opt (fun v => option_map (map (fun kv => (fst kv, enc (snd kv)))) (object_each_t v)) (doc_of bs).
Definition array_values_m (bs : list N) : res (option (list (list N))) :=
  lift_opt (fun v => option_map (map enc) (array_values_t v)) (doc_of bs).

(* type_of looks at one byte only when the input is text *)
Definition type_of_m (bs : list N) : res N :=
  if is_jsonb bs then do v <- parse_jsonb bs; Ok (type_of_t v)
  (* after the fix: the first byte after what the parser skips in front of a value (was: the first byte) *)
  else match skip_unused bs with
       | [] => Err EOther
       | c :: _ =>
           if c =? 110 then Ok 0
           else if (c =? 116) || (c =? 102) then Ok 1
           else if is_digit c || (c =? 45) then Ok 2
           else if c =? 34 then Ok 3
           else if c =? 91 then Ok 4
           else if c =? 123 then Ok 5
           else Err EOther
       end.

Definition as_null_m (bs : list N) : res bool := lift_bool (fun v => match v with VNull => true | _ => false end) (doc_of bs).
Definition as_bool_m (bs : list N) : res (option bool) := lift_opt as_bool_t (doc_of bs).
Definition as_number_m (bs : list N) : res (option num) := lift_opt as_number_t (doc_of bs).
Definition as_i64_m (bs : list N) : res (option Z) := lift_opt as_i64_t (doc_of bs).
Definition as_u64_m (bs : list N) : res (option N) := lift_opt as_u64_t (doc_of bs).
Definition as_f64_m (bs : list N) : res (option N) := lift_opt as_f64_t (doc_of bs).
Definition as_str_m (bs : list N) : res (option (list N)) := lift_opt as_str_t (doc_of bs).
Definition is_array_m (bs : list N) : res bool := lift_bool (fun v => match v with VArr _ => true | _ => false end) (doc_of bs).
Definition is_object_m (bs : list N) : res bool := lift_bool (fun v => match v with VObj _ => true | _ => false end) (doc_of bs).

(* the to_* casts: as_* first, then booleans, then strings; anything else is InvalidCast *)
Definition cast {A} (f : value -> option A) (bs : list N) : res A :=
  match doc_of bs with
  | Ok v => match f v with Some a => Ok a | None => Err EOther end
  | Err _ => Err EOther
  | Panic => Panic
  end.
Definition to_bool_m := cast to_bool_t.
Definition to_i64_m := cast to_i64_t.
Definition to_u64_m := cast to_u64_t.

(* str::parse::<f64>: [+-] ( inf | infinity | nan | digits [. digits] [e [+-] digits] ) *)
Definition parse_float_std (s : list N) : option N :=
  let '(neg, r) := match s with 43 :: r => (false, r) | 45 :: r => (true, r) | _ => (false, s) end in
  let low := map ascii_lower r in
  let sgn (b : N) := if neg then b + 9223372036854775808 else b in
  if bytes_eqb low [105; 110; 102] || bytes_eqb low [105; 110; 102; 105; 110; 105; 116; 121] then Some (sgn F_INF)
  else if bytes_eqb low [110; 97; 110] then Some (sgn F_NAN)
  else
    let '(ids, r1) := take_digits r [] in
    let '(fds, r2) := match r1 with 46 :: r' => take_digits r' [] | _ => ([], r1) end in
    match ids, fds with
    | [], [] => None
    | _, _ =>
        let finish (e : Z) := Some (round_dec neg (digits_val fds (digits_val ids 0)) (e - Z.of_nat (length fds))) in
        match r2 with
        | [] => finish 0%Z
        | c :: r3 =>
            if (c =? 101) || (c =? 69) then
              let '(eneg, r4) := match r3 with 43 :: r' => (false, r') | 45 :: r' => (true, r') | _ => (false, r3) end in
              let '(eds, r5) := take_digits r4 [] in
              match eds, r5 with
              | _ :: _, [] => let x := digits_val eds 0 in finish (if eneg then (- x)%Z else x)
              | _, _ => None
              end
            else None
        end
    end.
Definition to_f64_t (v : value) : option N :=
  match v with
  | VNum n => Some (as_f64 n)
  | VBool b => Some (if b then 4607182418800017408 else 0)
  | VStr s => parse_float_std s
  | _ => None
  end.
Definition to_f64_m := cast to_f64_t.
Definition to_str_t (v : value) : option (list N) :=
  match v with
  | VStr s => Some s
  | VBool true => Some [116; 114; 117; 101]
  | VBool false => Some [102; 97; 108; 115; 101]
  | VNum n => Some (number_text float_placeholder n)
  | _ => None
  end.
Definition to_str_m := cast to_str_t.

Definition exists_all_keys_m (bs : list N) (ks : list (list N)) : res bool :=
  lift_bool (fun v => exists_all_keys_t v ks) (doc_of bs).
Definition exists_any_keys_m (bs : list N) (ks : list (list N)) : res bool :=
  lift_bool (fun v => exists_any_keys_t v ks) (doc_of bs).
Definition traverse_check_string_m (bs : list N) (needle : list N) : res bool :=
  lift_bool (fun v => traverse_check_string_t v needle) (doc_of bs).

(* ---- rendering (binary branch; an input that is not JSONB goes through String::from_utf8_lossy -- a text that parses is
   valid UTF-8 and is returned as it is --, empty -> "null") ---- *)
Definition to_string_m (bs : list N) : res (list N) :=
  if is_jsonb bs then
    match parse_jsonb bs with Ok v => Ok (to_string_t float_placeholder v) | Err _ => Ok [110; 117; 108; 108] | Panic => Panic end
  else match bs with [] => Ok [110; 117; 108; 108] | _ => Ok (lossy bs) end.
Definition to_pretty_string_m (bs : list N) : res (list N) :=
  if is_jsonb bs then
    match parse_jsonb bs with Ok v => Ok (to_pretty_string_t float_placeholder v) | Err _ => Ok [110; 117; 108; 108] | Panic => Panic end
  else match bs with [] => Ok [110; 117; 108; 108] | _ => Ok (lossy bs) end.

(* ---- compare ---- *)
Definition compare_api (l r : list N) : res comparison :=
  match is_jsonb l, is_jsonb r with
  | false, false =>
      match parse_value l, parse_value r with
      | Ok a, Ok b => compare_m a b
      | Ok _, Err _ => Ok Gt
      | Err _, Ok _ => Ok Lt
      | Err _, Err _ => Ok (bytes_cmp l r)
      | _, _ => Panic
      end
  | false, true =>
      match parse_value l with
      | Ok a => do b <- parse_jsonb r; compare_m a b
      | Err _ => Ok Lt
      | Panic => Panic
      end
  | true, false =>
      match parse_value r with
      | Ok b => do a <- parse_jsonb l; compare_m a b
      | Err _ => Ok Gt
      | Panic => Panic
      end
  | true, true => do a <- parse_jsonb l; do b <- parse_jsonb r; compare_m a b
  end.

Definition convert_to_comparable_m (bs : list N) (buf : list N) : res (list N) :=
  if is_jsonb bs then do v <- parse_jsonb bs; do k <- comparable_key v; Ok (buf ++ k)
  else match parse_value bs with
       | Ok v => do k <- comparable_key v; Ok (buf ++ k)
       | Err _ => Ok (buf ++ 0 :: INVALID_LEVEL :: bs)
       | Panic => Panic
       end.

(* ---- containment and set functions ---- *)
Definition contains_m (l r : list N) : res bool :=
  if negb (is_jsonb l) || negb (is_jsonb r) then
    match from_slice l, from_slice r with
    | Ok a, Ok b => Ok (contains_t a b)
    | Panic, _ | _, Panic => Panic
    | _, _ => Ok false
    end
  else match parse_jsonb l, parse_jsonb r with
       | Ok a, Ok b => Ok (contains_t a b)
       | Panic, _ | _, Panic => Panic
       | _, _ => Ok false
       end.

(* writers: the result is appended to the caller's buffer; an error appends nothing *)
Definition append_enc (buf : list N) (r : res value) : res (list N) := do v <- r; Ok (buf ++ enc v).
Definition both {A} (f : value -> value -> res A) (l r : list N) : res A :=
  do a <- doc_of l; do b <- doc_of r; f a b.

Definition array_distinct_m (bs buf : list N) : res (list N) :=
  append_enc buf (do v <- doc_of bs; Ok (array_distinct_t v)).
Definition array_intersection_m (l r buf : list N) : res (list N) :=
  append_enc buf (both (fun a b => Ok (array_intersection_t a b)) l r).
Definition array_except_m (l r buf : list N) : res (list N) :=
  append_enc buf (both (fun a b => Ok (array_except_t a b)) l r).
Definition array_overlap_m (l r : list N) : res bool := both (fun a b => Ok (array_overlap_t a b)) l r.

(* ---- editors ---- *)
Definition concat_m (l r buf : list N) : res (list N) :=
  if negb (is_jsonb l) || negb (is_jsonb r) then
    append_enc buf (do a <- from_slice l; do b <- from_slice r; Ok (concat_t a b))
  else append_enc buf (do a <- parse_jsonb l; do b <- parse_jsonb r; Ok (concat_t a b)).
Definition delete_by_name_m (bs name buf : list N) : res (list N) :=
  append_enc buf (do v <- doc_of bs; delete_by_name_t v name).
Definition delete_by_index_m (bs : list N) (i : Z) (buf : list N) : res (list N) :=
  append_enc buf (do v <- doc_of bs; delete_by_index_t v i).
Definition delete_by_keypath_m (bs : list N) (ks : list keypath) (buf : list N) : res (list N) :=
  append_enc buf (do v <- doc_of bs; delete_by_keypath_t v ks).
Definition array_insert_m (bs : list N) (pos : Z) (nv buf : list N) : res (list N) :=
  append_enc buf (both (fun a b => Ok (array_insert_t a pos b)) bs nv).
Definition object_insert_m (bs key nv : list N) (upd : bool) (buf : list N) : res (list N) :=
  append_enc buf (both (fun a b => object_insert_t a key b upd) bs nv).
Definition object_delete_m (bs : list N) (ks : list (list N)) (buf : list N) : res (list N) :=
  append_enc buf (do v <- doc_of bs; object_delete_t v ks).
Definition object_pick_m (bs : list N) (ks : list (list N)) (buf : list N) : res (list N) :=
  append_enc buf (do v <- doc_of bs; object_pick_t v ks).
Definition strip_nulls_m (bs buf : list N) : res (list N) :=
  append_enc buf (do v <- doc_of bs; Ok (strip_nulls_t v)).

(* build_array / build_object take binary items only *)
Fixpoint decode_all (l : list (list N)) : res (list value) :=
  match l with [] => Ok [] | x :: r => do v <- parse_jsonb x; do vs <- decode_all r; Ok (v :: vs) end.
Definition build_array_m (items : list (list N)) (buf : list N) : res (list N) :=
  append_enc buf (do vs <- decode_all items; Ok (build_array_t vs)).
Definition build_object_m (keys : list (list N)) (items : list (list N)) (buf : list N) : res (list N) :=
  append_enc buf (do vs <- decode_all items; Ok (build_object_t (combine keys vs))).

(* ---- path selection ---- *)
Definition select_m (bs : list N) (ps : list path) (m : mode) (buf : list N) : res (list N * list N) :=
  do v <- parse_jsonb bs; select_t v ps m buf.
Definition sel_exists_m (bs : list N) (ps : list path) : res bool := do v <- parse_jsonb bs; exists_t v ps.
Definition sel_predicate_match_m (bs : list N) (ps : list path) : res bool := do v <- parse_jsonb bs; predicate_match_t v ps.
(* get_by_path*: a text that does not parse selects nothing and is not an error *)
Definition get_by_path_gen (m : mode) (bs : list N) (ps : list path) (buf : list N) : res (list N * list N) :=
  if is_jsonb bs then select_m bs ps m buf
  else match parse_value bs with
       | Ok v => select_t v ps m buf
       | Err _ => Ok (buf, [])
       | Panic => Panic
       end.
Definition get_by_path_m := get_by_path_gen MMixed.
Definition get_by_path_first_m := get_by_path_gen MFirst.
Definition get_by_path_array_m := get_by_path_gen MArray.
Definition path_exists_m (bs : list N) (ps : list path) : res bool :=
  if is_jsonb bs then sel_exists_m bs ps
  else match parse_value bs with Ok v => exists_t v ps | Err _ => Ok false | Panic => Panic end.
Definition path_match_m (bs : list N) (ps : list path) : res bool :=
  do v <- doc_of bs; predicate_match_t v ps.

(* ---- serde ---- *)
Definition to_serde_json_m (bs : list N) : res sj := do v <- doc_of bs; to_serde_json_t v.
Definition to_serde_json_object_m (bs : list N) : res (option sj) := do v <- doc_of bs; to_serde_json_object_t v.

(* ---- LazyValue ---- *)
Inductive lazy := LValue (v : value) | LRaw (bs : list N).
Definition parse_lazy_value (bs : list N) : res lazy :=
  if is_jsonb bs then Ok (LRaw bs) else do v <- parse_value bs; Ok (LValue v).
Definition lazy_to_vec (l : lazy) : list N := match l with LValue v => to_vec v | LRaw bs => bs end.
Definition lazy_array_length (l : lazy) : res (option N) :=
  match l with
  | LValue (VArr a) => Ok (Some (lenN a))
  | LValue _ => Ok None
  | LRaw bs => array_length_m bs
  end.
Definition lazy_to_value (l : lazy) : res value :=
  match l with LValue v => Ok v | LRaw bs => match from_slice bs with Ok v => Ok v | _ => Panic end end.
