(* Codec.v — model of src/ser.rs (Encoder with reserve/replace back-patching), the pure README layout,
   and src/de.rs (cursor Decoder).  Executable definitions only. *)
From Coq Require Import List NArith ZArith Bool Lia.
Import ListNotations.
From JB Require Import Constants Bytes Utf8 Num Value.
Open Scope N_scope.

Definition u32 (n : N) : N := n mod 4294967296.
(* JEntry::encoded(): type_code | length, with `length as u32` *)
Definition jentry_word (ty len : N) : N := N.lor ty (u32 len).
(* header | count as u32 *)
Definition header_word (tag cnt : N) : N := N.lor tag (u32 cnt).

(* ------------------------------------------------------------------------------------------ *)
(* The layout the README documents, as a pure function: (entry word, payload)                  *)
Fixpoint enc_item (v : value) : N * list N :=
  match v with
  | VNull => (NULL_TAG, [])
  | VBool true => (TRUE_TAG, [])
  | VBool false => (FALSE_TAG, [])
  | VNum n => let p := compact_encode n in (jentry_word NUMBER_TAG (lenN p), p)
  | VStr s => (jentry_word STRING_TAG (lenN s), s)
  | VArr l =>
      let items := map enc_item l in
      let body := be32 (header_word ARRAY_CONTAINER_TAG (lenN l))
                    ++ flat_map (fun it => be32 (fst it)) items
                    ++ flat_map snd items in
      (jentry_word CONTAINER_TAG (lenN body), body)
  | VObj l =>
      let items := map (fun kv => enc_item (snd kv)) l in
      let body := be32 (header_word OBJECT_CONTAINER_TAG (lenN l))
                    ++ flat_map (fun kv => be32 (jentry_word STRING_TAG (lenN (fst kv)))) l
                    ++ flat_map (fun it => be32 (fst it)) items
                    ++ flat_map (fun kv => fst kv) l
                    ++ flat_map snd items in
      (jentry_word CONTAINER_TAG (lenN body), body)
  end.

(* a complete document: containers are their own payload, scalars get the scalar header *)
Definition enc (v : value) : list N :=
  match v with
  | VArr _ | VObj _ => snd (enc_item v)
  | _ => be32 SCALAR_CONTAINER_TAG ++ be32 (fst (enc_item v)) ++ snd (enc_item v)
  end.

(* size bounds under which the entry/header words are faithful: payload < 2^28, count < 2^29 *)
Fixpoint wf_size (v : value) : bool :=
  match v with
  | VNull | VBool _ | VNum _ => true
  | VStr s => lenN s <? 268435456
  | VArr l => (lenN l <? 536870912) && (lenN (snd (enc_item v)) <? 268435456) && forallb wf_size l
  | VObj l => (lenN l <? 536870912) && (lenN (snd (enc_item v)) <? 268435456)
              && forallb (fun kv => (lenN (fst kv) <? 268435456) && wf_size (snd kv)) l
  end.
Definition wfb (v : value) : bool := wf_shape v && wf_size v.
Definition wf (v : value) : Prop := wfb v = true.

(* ------------------------------------------------------------------------------------------ *)
(* ser.rs, literally: a growing buffer, reserve_jentries, replace_jentry                       *)
(* JEntry as (type_code, length) with length already `as u32` *)
Definition je := (N * N)%type.
Definition je_encoded (j : je) : N := N.lor (fst j) (snd j).

Definition reserve_jentries (buf : list N) (len : nat) : list N * nat := (buf ++ repeat 0 len, length buf).
Definition replace_jentry (buf : list N) (j : je) (idx : nat) : list N * nat :=
  (patch buf idx (be32 (je_encoded j)), (idx + 4)%nat).

Section Encoder.
  (* loop over array elements: encode_value, add length, patch entry *)
  Variable encode_value : list N -> value -> list N * je.
  Fixpoint enc_values (buf : list N) (idx : nat) (acc : N) (l : list value) : list N * nat * N :=
    match l with
    | [] => (buf, idx, acc)
    | v :: r =>
        let '(buf1, j) := encode_value buf v in
        let '(buf2, idx') := replace_jentry buf1 j idx in
        enc_values buf2 idx' (acc + snd j) r
    end.
  Fixpoint enc_members (buf : list N) (idx : nat) (acc : N) (l : list (list N * value)) : list N * nat * N :=
    match l with
    | [] => (buf, idx, acc)
    | (_, v) :: r =>
        let '(buf1, j) := encode_value buf v in
        let '(buf2, idx') := replace_jentry buf1 j idx in
        enc_members buf2 idx' (acc + snd j) r
    end.
  Fixpoint enc_keys (buf : list N) (idx : nat) (acc : N) (l : list (list N * value)) : list N * nat * N :=
    match l with
    | [] => (buf, idx, acc)
    | (k, _) :: r =>
        let buf1 := buf ++ k in
        let '(buf2, idx') := replace_jentry buf1 (STRING_TAG, u32 (lenN k)) idx in
        enc_keys buf2 idx' (acc + lenN k) r
    end.
End Encoder.

Fixpoint encode_value (buf : list N) (v : value) : list N * je :=
  match v with
  | VNull => (buf, (NULL_TAG, 0))
  | VBool true => (buf, (TRUE_TAG, 0))
  | VBool false => (buf, (FALSE_TAG, 0))
  | VNum n => let p := compact_encode n in (buf ++ p, (NUMBER_TAG, u32 (lenN p)))
  | VStr s => (buf ++ s, (STRING_TAG, u32 (lenN s)))
  | VArr l =>
      let buf1 := buf ++ be32 (header_word ARRAY_CONTAINER_TAG (lenN l)) in
      let '(buf2, idx) := reserve_jentries buf1 (length l * 4) in
      let '(buf3, _, len) := enc_values encode_value buf2 idx (4 + lenN l * 4) l in
      (buf3, (CONTAINER_TAG, u32 len))
  | VObj l =>
      let buf1 := buf ++ be32 (header_word OBJECT_CONTAINER_TAG (lenN l)) in
      let '(buf2, idx) := reserve_jentries buf1 (length l * 8) in
      let '(buf3, idx', len) := enc_keys buf2 idx (4 + lenN l * 8) l in
      let '(buf4, _, len') := enc_members encode_value buf3 idx' len l in
      (buf4, (CONTAINER_TAG, u32 len'))
  end.

(* Encoder::encode / Value::write_to_vec *)
Definition write_to_vec (buf : list N) (v : value) : list N :=
  match v with
  | VArr _ | VObj _ => fst (encode_value buf v)
  | _ =>
      let buf1 := buf ++ be32 SCALAR_CONTAINER_TAG in
      let '(buf2, idx) := reserve_jentries buf1 4 in
      let '(buf3, j) := encode_value buf2 v in
      fst (replace_jentry buf3 j idx)
  end.
Definition to_vec (v : value) : list N := write_to_vec [] v.

(* ------------------------------------------------------------------------------------------ *)
(* de.rs: cursor decoder.  The cursor is the remaining input.                                   *)
Definition je_type (w : N) : N := N.land w JENTRY_TYPE_MASK.
Definition je_len (w : N) : N := N.land w JENTRY_OFF_LEN_MASK.
Definition hdr_type (w : N) : N := N.land w CONTAINER_HEADER_TYPE_MASK.
Definition hdr_len (w : N) : N := N.land w CONTAINER_HEADER_LEN_MASK.

(* decode_jentries: read n entry words *)
Fixpoint rd_jentries (n : nat) (bs : list N) : option (list N * list N) :=
  match n with
  | O => Some ([], bs)
  | S n' => match rd32 bs with
            | None => None
            | Some (w, rest) => match rd_jentries n' rest with
                                | None => None
                                | Some (ws, rest') => Some (w :: ws, rest') end end
  end.

(* take len bytes from the cursor: buf.get(..len) *)
Definition take (len : N) (bs : list N) : option (list N * list N) :=
  if len <=? lenN bs then Some (firstn (N.to_nat len) bs, skipn (N.to_nat len) bs) else None.

Fixpoint dec_list {A} (f : N -> list N -> res (A * list N)) (jes : list N) (bs : list N)
  : res (list A * list N) :=
  match jes with
  | [] => Ok ([], bs)
  | j :: jes' =>
      do (v, bs') <- f j bs;
      do (vs, bs'') <- dec_list f jes' bs';
      Ok (v :: vs, bs'')
  end.

(* keys.pop_front / key.as_str() / decode value / obj.insert, pair by pair *)
Fixpoint dec_members (f : N -> list N -> res (value * list N)) (keys : list value) (jes : list N) (bs : list N)
  (acc : list (list N * value)) : res (list (list N * value) * list N) :=
  match keys, jes with
  | [], _ => Ok (acc, bs)
  | k :: keys', j :: jes' =>
      match k with
      | VStr ks =>
          do (v, bs') <- f j bs;
          dec_members f keys' jes' bs' (assoc_insert ks v acc)
      | _ => Err EOther          (* key entry is not a string (a panic before the fix) *)
      end
  | _ :: _, [] => Panic          (* unreachable: 2n entries were read *)
  end.

Fixpoint decode_scalar (fuel : nat) (w : N) (bs : list N) : res (value * list N) :=
  match fuel with O => Err EFuel | S fuel' =>
  let ty := je_type w in let len := je_len w in
  if ty =? NULL_TAG then Ok (VNull, bs)
  else if ty =? TRUE_TAG then Ok (VBool true, bs)
  else if ty =? FALSE_TAG then Ok (VBool false, bs)
  else if ty =? STRING_TAG then
    match take len bs with
    | None => Err EOther
    | Some (s, rest) => if utf8_valid s then Ok (VStr s, rest) else Err EOther
    end
  else if ty =? NUMBER_TAG then
    match take len bs with
    | None => Err EOther
    | Some (p, rest) => do n <- num_decode p; Ok (VNum n, rest)
    end
  else if ty =? CONTAINER_TAG then decode_jsonb fuel' bs
  else Err EOther
  end
with decode_jsonb (fuel : nat) (bs : list N) : res (value * list N) :=
  match fuel with O => Err EFuel | S fuel' =>
  match rd32 bs with
  | None => Err EOther
  | Some (hdr, rest) =>
      let ty := hdr_type hdr in
      if ty =? SCALAR_CONTAINER_TAG then
        (* after the fix the scalar header word must be exactly the documented one *)
        if negb (hdr =? SCALAR_CONTAINER_TAG) then Err EOther else
        match rd32 rest with
        | None => Err EOther
        | Some (w, rest') => decode_scalar fuel' w rest'
        end
      else if ty =? ARRAY_CONTAINER_TAG then
        (* decode_jentries reads the entry words one by one and fails at the end of the input: a count
           that does not fit the remaining bytes is rejected before anything else happens *)
        if lenN rest <? 4 * hdr_len hdr then Err EOther else
        let n := N.to_nat (hdr_len hdr) in
        match rd_jentries n rest with
        | None => Err EOther
        | Some (jes, rest') =>
            do (vs, rest'') <- dec_list (decode_scalar fuel') jes rest';
            Ok (VArr vs, rest'')
        end
      else if ty =? OBJECT_CONTAINER_TAG then
        if lenN rest <? 8 * hdr_len hdr then Err EOther else
        let n := N.to_nat (hdr_len hdr) in
        match rd_jentries (2 * n) rest with
        | None => Err EOther
        | Some (jes, rest') =>
            do (keys, rest'') <- dec_list (decode_scalar fuel') (firstn n jes) rest';
            do (members, rest''') <- dec_members (decode_scalar fuel') keys (skipn n jes) rest'' [];
            Ok (VObj members, rest''')
        end
      else Err EOther
  end end.

(* Decoder::decode / parse_jsonb: trailing bytes are not inspected *)
Definition parse_jsonb (bs : list N) : res value :=
  if lenN bs <? 4 then Err EOther
  else do (v, _) <- decode_jsonb (S (length bs)) bs; Ok v.

(* functions.rs is_jsonb *)
Definition is_jsonb (bs : list N) : bool :=
  match bs with
  | b :: _ => existsb (N.eqb b) IS_JSONB_BYTES
  | [] => false
  end.
