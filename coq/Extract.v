(* Extract.v — extraction of the executable model to OCaml (ExtrOcamlBasic only; numbers stay the
   extracted inductives).  Run from coq/extracted/ so the files land there. *)
Require Extraction.
Require Import ExtrOcamlBasic.
From JB Require Import Constants Bytes Utf8 Num Value Codec.
Extraction Language OCaml.
Extraction "model.ml"
  to_vec write_to_vec enc parse_jsonb is_jsonb
  compact_encode num_decode num_decode_old num_cmp num_cmp_old num_eqb as_i64 as_u64 as_f64 normalise.
