(* Extract.v — extraction of the executable model to OCaml (ExtrOcamlBasic only; numbers stay the
   extracted inductives). *)
Require Extraction.
Require Import ExtrOcamlBasic.
From JB Require Import Constants Bytes Utf8 Num Value Codec Decimal JsonText Order TreeOps Contain SetOps CmpKey
  Render Serde Path PathSem PathParse Dispatch Walk CompareWalk ComparableWalk.
From JB Require Import RenderWalk.
From JB Require Import SelWalk.
From JB Require Import SelSt.
From JB Require Import CastWalk.
From JB Require Import PathSafe.
From JB Require Import SerdeWalk.
From JB Require Import KeysWalk.
From JB Require Import EditWalk.
From JB Require Import EditWalk2.
From JB Require Import ContainWalk.
From JB Require Import SetWalk.
From JB Require Import ChainWalk.
From JB Require Import NumOrd.
From JB Require Import ValueApi.
Extraction Language OCaml.
Extraction "model.ml"
  to_vec write_to_vec enc parse_jsonb is_jsonb assoc_insert compact_encode num_decode num_decode_old num_cmp
  num_cmp_old num_eqb as_i64 as_u64 as_f64 normalise parse_value from_slice doc_of cmp_value compare_m value_eqb
  compare_w comparable_w to_string_w to_pretty_string_w array_length_w get_by_index_w get_by_name_w get_by_keypath_w
  object_keys_w object_each_w array_values_w type_of_w as_null_w as_bool_w as_number_w as_i64_w as_u64_w as_f64_w
  as_str_w is_array_w is_object_w to_bool_w to_i64_w to_u64_w to_f64_w to_str_w traverse_check_string_w array_length_m
  get_by_index_m get_by_name_m get_by_keypath_m object_keys_m object_each_m array_values_m type_of_m as_null_m
  as_bool_m as_number_m as_i64_m as_u64_m as_f64_m as_str_m is_array_m is_object_m to_bool_m to_i64_m to_u64_m to_f64_m
  to_str_m exists_all_keys_m exists_any_keys_m traverse_check_string_m to_string_m to_pretty_string_m compare_api
  convert_to_comparable_m contains_m array_distinct_m array_intersection_m array_except_m array_overlap_m concat_m
  delete_by_name_m delete_by_index_m delete_by_keypath_m array_insert_m object_insert_m object_delete_m object_pick_m
  strip_nulls_m build_array_m build_object_m select_m sel_exists_m sel_predicate_match_m get_by_path_m
  get_by_path_first_m get_by_path_array_m path_exists_m path_match_m select_w sel_exists_w sel_predicate_match_w
  get_by_path_w get_by_path_first_w get_by_path_array_w path_exists_w path_match_w to_serde_json_m
  to_serde_json_object_m value_to_serde serde_to_value to_serde_json_w to_serde_json_object_w exists_all_keys_w
  exists_any_keys_w parse_lazy_value lazy_to_vec lazy_array_length lazy_to_value parse_json_path parse_key_paths
  show_json_path show_key_paths float_placeholder safe_path leaf_path no_floats nonfinite_floats concat_w delete_by_name_w
  delete_by_index_w array_insert_w build_array_w build_object_w build_array_st build_object_st object_insert_w
  object_delete_w object_pick_w strip_nulls_w delete_by_keypath_w contains_w array_distinct_w array_intersection_w
  array_except_w array_overlap_w key_safe_doc
  num_cmp_rs_res num_eqb_rs_res num_cmp_rs num_eqb_rs
  concat_st delete_by_name_st delete_by_index_st array_insert_st object_insert_st object_delete_st object_pick_st
  strip_nulls_st delete_by_keypath_st array_distinct_st array_intersection_st array_except_st
  select_st get_by_path_st get_by_path_first_st get_by_path_array_st
  run_b
  display_t value_is_scalar value_is_object value_is_array value_is_string value_is_number value_is_i64 value_is_u64 value_is_f64
  value_is_boolean value_is_null value_as_i64 value_as_u64 value_as_f64 value_as_bool value_as_str value_as_number value_as_array
  value_as_object value_array_length value_object_keys value_eq_variant value_get_by_name_ignore_case
  from_i64 from_u64 from_f64 from_f32 from_bool from_string from_unit from_object from_vec from_pairs
  lazy_of_value lazy_write_to_vec lazy_array_length_w.
