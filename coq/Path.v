(* Path.v — JSONPath and key-path ASTs (mirror of jsonpath/path.rs, keypath.rs) and their Display printers *)
From Coq Require Import List NArith ZArith Bool.
Import ListNotations.
From JB Require Import Constants Bytes Num Value TreeOps.
Open Scope N_scope.

(* DOMAIN: Index::Index(i32) / Index::LastIndex(i32) in the code; here any Z.  The theorems about paths hold for all Z; the
   code's domain is the part where every index is an i32, which is all parse_json_path produces
   (PathI32.parsed_json_path_indices_are_i32). *)
Inductive index := IIndex (i : Z) | ILast (i : Z).
Inductive array_index := AIndex (i : index) | ASlice (s e : index).
Inductive pvalue := PVNull | PVBool (b : bool) | PVNum (n : num) | PVStr (s : list N).
Inductive binop := OAnd | OOr | OEq | ONe | OLt | OLe | OGt | OGe.
Inductive uarith := UAdd | USub.
Inductive barith := BAdd | BSub | BMul | BDiv | BMod.

Inductive path :=
| PRoot | PCurrent | PDotWild | PBracketWild
| PDotField (s : list N) | PColonField (s : list N) | PObjectField (s : list N)
| PIndices (l : list array_index)
| PFilter (e : expr) | PPredicate (e : expr)
with expr :=
| EPaths (l : list path)
| EValue (v : pvalue)
| EBin (op : binop) (l r : expr)
| EArithU (op : uarith) (e : expr)
| EArithB (op : barith) (l r : expr)
| EExists (l : list path).

Definition is_predicate (ps : list path) : bool := match ps with [PPredicate _] => true | _ => false end.

(* ---- Display ---- *)
Definition str (s : list N) := s.
Definition show_index (i : index) : list N :=
  match i with
  | IIndex z => dec_Z z
  | ILast z => [108; 97; 115; 116] ++ (if (0 <? z)%Z then 43 :: dec_Z z else if (z <? 0)%Z then dec_Z z else [])
  end.
Definition show_array_index (a : array_index) : list N :=
  match a with
  | AIndex i => show_index i
  | ASlice s e => show_index s ++ [32; 116; 111; 32] ++ show_index e
  end.
Fixpoint join (sep : list N) (l : list (list N)) : list N :=
  match l with [] => [] | [x] => x | x :: r => x ++ sep ++ join sep r end.
Definition show_binop (o : binop) : list N :=
  match o with
  | OAnd => [38; 38] | OOr => [124; 124] | OEq => [61; 61] | ONe => [33; 61]
  | OLt => [60] | OLe => [60; 61] | OGt => [62] | OGe => [62; 61]
  end.

Section Show.
  Variable print_float : N -> list N.
  Definition show_pvalue (v : pvalue) : list N :=
    match v with
    | PVNull => [110; 117; 108; 108]
    | PVBool true => [116; 114; 117; 101]
    | PVBool false => [102; 97; 108; 115; 101]
    | PVNum (NInt z) => dec_Z z
    | PVNum (NUInt u) => dec_digits u
    | PVNum (NFloat b) => print_float b
    | PVStr s => 34 :: s ++ [34]
    end.
  Definition is_logic (e : expr) : bool :=
    match e with EBin OAnd _ _ | EBin OOr _ _ => true | _ => false end.
  (* Display for Path and Expr: structural recursion (an expression prints the paths it contains, a filter step prints
     its expression); no fuel, so a path of any size and nesting depth is printed in full *)
  Definition show_path_with (se : expr -> list N) (p : path) : list N :=
    match p with
    | PRoot => [36] | PCurrent => [64] | PDotWild => [46; 42] | PBracketWild => [91; 42; 93]
    | PColonField s => 58 :: s
    | PDotField s => 46 :: s
    | PObjectField s => [91; 34] ++ s ++ [34; 93]
    | PIndices l => 91 :: join [44; 32] (map show_array_index l) ++ [93]
    | PFilter e => [63; 40] ++ se e ++ [41]
    | PPredicate e => se e
    end.
  Fixpoint show_expr (e : expr) {struct e} : list N :=
    match e with
    | EPaths l => flat_map (show_path_with (fun e' => show_expr e')) l
    | EValue v => show_pvalue v
    | EBin op l r =>
        let sl := if is_logic l then 40 :: show_expr l ++ [41] else show_expr l in
        let sr := if is_logic r then 40 :: show_expr r ++ [41] else show_expr r in
        sl ++ [32] ++ show_binop op ++ [32] ++ sr
    | EArithU op x => (match op with UAdd => [43] | USub => [45] end) ++ show_expr x
    | EArithB op l r =>
        show_expr l ++ [32] ++ (match op with BAdd => [43] | BSub => [45] | BMul => [42] | BDiv => [47] | BMod => [37] end)
          ++ [32] ++ show_expr r
    | EExists l => [101; 120; 105; 115; 116; 115; 40] ++ flat_map (show_path_with (fun e' => show_expr e')) l ++ [41]
    end.
  Definition show_path (p : path) : list N := show_path_with show_expr p.
  Definition show_json_path (ps : list path) : list N := flat_map show_path ps.
End Show.

Definition show_keypath (k : keypath) : list N :=
  match k with
  | KIndex i => dec_Z i
  | KQuoted s => 34 :: s ++ [34]
  | KName s => s
  end.
Definition show_key_paths (ks : list keypath) : list N := 123 :: join [44] (map show_keypath ks) ++ [125].
