(* BuilderFrame.v — C17: the FRAME property of builder.rs on ARBITRARY entries, well-sized or not.
   BuilderProofs.write_entry_spec needs `entry_okb e` (every length field is the length of what is written, every
   container below 4 GiB) and then identifies what is appended with the layout `entry_item e`.  The frame property
   needs no such hypothesis: whatever the entries are (raw entries whose length field lies, oversized containers whose
   length wraps in `as u32`), write_entry / build_into
     * never modify the bytes already in the buffer,
     * append bytes that do not depend on the buffer content (nor on its length),
     * return an entry word that does not depend on the buffer,
   because every back-patch (replace_jentry) lands in a slot that this very call reserved (reserve_jentries records
   the buffer length at reservation time).  `witem e` is what is written and returned, as a pure function of e: the
   layout of entry_item with the RETURNED entry words in the slots and the running sum of the RETURNED lengths (not of
   the true lengths) in the container entry.  On entry_okb entries it is entry_item.
   Then: every editor of EditWalk.v / EditWalk2.v (they all end in build_into on the caller's buffer, or write the
   header slot themselves: build_array / build_object) only appends, on ANY input bytes, valid or corrupt, with the
   same outcome (value / error / panic) whatever the buffer holds. *)
From Coq Require Import List NArith ZArith Bool Lia.
Import ListNotations.
From JB Require Import Constants Bytes Utf8 Num Value Codec Order CodecProofs Builder BuilderProofs.
Open Scope N_scope.
Set Default Timeout 120.

Arguments N.lor : simpl never.
Arguments N.land : simpl never.
Arguments be32 : simpl never.
Arguments u32 : simpl never.

(* ---------------------------------------------------------------- what write_entry writes and returns *)
Fixpoint witem (e : entry) : je * list N :=
  match e with
  | ERaw j d => (j, d)
  | EArr es =>
      ((CONTAINER_TAG, u32 (BLD_ARR_LEN0 (lenN es) + fold_right (fun x a => snd (fst (witem x)) + a) 0 es)),
       be32 (header_word ARRAY_CONTAINER_TAG (lenN es))
         ++ flat_map (fun x => be32 (je_encoded (fst (witem x)))) es
         ++ flat_map (fun x => snd (witem x)) es)
  | EObj kes =>
      ((CONTAINER_TAG, u32 (BLD_OBJ_LEN0 (lenN kes) + ksum kes + fold_right (fun ke a => snd (fst (witem (snd ke))) + a) 0 kes)),
       be32 (header_word OBJECT_CONTAINER_TAG (lenN kes))
         ++ flat_map (fun ke => be32 (jentry_word STRING_TAG (lenN (fst ke)))) kes
         ++ flat_map (fun ke => be32 (je_encoded (fst (witem (snd ke))))) kes
         ++ flat_map fst kes
         ++ flat_map (fun ke => snd (witem (snd ke))) kes)
  end.
Definition wpl (e : entry) : list N := snd (witem e).
Definition wje (e : entry) : je := fst (witem e).
Definition wsum (l : list entry) : N := fold_right (fun x a => snd (wje x) + a) 0 l.
Definition wsum_m (l : list (list N * entry)) : N := fold_right (fun ke a => snd (wje (snd ke)) + a) 0 l.

Definition fspec (e : entry) : Prop := forall b, write_entry b e = (b ++ wpl e, wje e).

Lemma witem_arr es : witem (EArr es) =
  ((CONTAINER_TAG, u32 (4 + lenN es * 4 + wsum es)),
   be32 (header_word ARRAY_CONTAINER_TAG (lenN es)) ++ flat_map (fun x => be32 (je_encoded (wje x))) es ++ flat_map wpl es).
Proof. reflexivity. Qed.
Lemma witem_obj kes : witem (EObj kes) =
  ((CONTAINER_TAG, u32 (4 + lenN kes * 8 + ksum kes + wsum_m kes)),
   be32 (header_word OBJECT_CONTAINER_TAG (lenN kes))
     ++ flat_map (fun ke => be32 (jentry_word STRING_TAG (lenN (fst ke)))) kes
     ++ flat_map (fun ke => be32 (je_encoded (wje (snd ke)))) kes
     ++ flat_map fst kes
     ++ flat_map (fun ke => wpl (snd ke)) kes).
Proof. reflexivity. Qed.

(* ---------------------------------------------------------------- the loops, for arbitrary written chunks *)
(* bld_values_spec / bld_members_spec generalised: the chunk written for each entry and the entry word returned are
   whatever write_entry gives (wpl / wje), the accumulated length is the sum of the returned length fields; only
   `patch_app` at the reserved slot matters *)
Lemma bld_values_frame (todo : list entry) :
  Forall fspec todo ->
  forall pre done_je done_pl acc,
    bld_values write_entry (pre ++ done_je ++ repeat 0 (4 * length todo) ++ done_pl) (length (pre ++ done_je)) acc todo
    = (pre ++ done_je ++ flat_map (fun e => be32 (je_encoded (wje e))) todo ++ done_pl ++ flat_map wpl todo,
       (length (pre ++ done_je) + 4 * length todo)%nat, acc + wsum todo).
Proof.
  induction todo as [|x todo IH]; intros Hs pre done_je done_pl acc.
  - cbn [bld_values flat_map length repeat wsum fold_right app]. rewrite !app_nil_r, Nat.mul_0_r, Nat.add_0_r, N.add_0_r. reflexivity.
  - inversion Hs as [|? ? Hx Hs']; subst.
    cbn [bld_values]. rewrite Hx. unfold replace_jentry.
    replace (4 * length (x :: todo))%nat with (4 + 4 * length todo)%nat by (cbn [length]; lia).
    rewrite repeat_app.
    replace ((pre ++ done_je ++ (repeat 0 4 ++ repeat 0 (4 * length todo)) ++ done_pl) ++ wpl x)
      with ((pre ++ done_je) ++ repeat 0 4 ++ (repeat 0 (4 * length todo) ++ done_pl ++ wpl x))
      by (repeat rewrite <- app_assoc; reflexivity).
    rewrite patch_app by reflexivity.
    specialize (IH Hs' pre (done_je ++ be32 (je_encoded (wje x))) (done_pl ++ wpl x) (acc + snd (wje x))).
    replace ((pre ++ done_je) ++ be32 (je_encoded (wje x)) ++ repeat 0 (4 * length todo) ++ done_pl ++ wpl x)
      with (pre ++ (done_je ++ be32 (je_encoded (wje x))) ++ repeat 0 (4 * length todo) ++ (done_pl ++ wpl x))
      by (repeat rewrite <- app_assoc; reflexivity).
    replace (length (pre ++ done_je) + 4)%nat with (length (pre ++ done_je ++ be32 (je_encoded (wje x))))
      by (rewrite !app_length, be32_len; lia).
    rewrite IH. cbn [flat_map wsum fold_right]. f_equal; [f_equal|].
    + repeat rewrite <- app_assoc. reflexivity.
    + rewrite !app_length, be32_len. cbn [length]. lia.
    + unfold wsum. cbn [fold_right]. lia.
Qed.

Lemma bld_members_frame (todo : list (list N * entry)) :
  Forall (fun ke => fspec (snd ke)) todo ->
  forall pre done_je done_pl acc,
    bld_members write_entry (pre ++ done_je ++ repeat 0 (4 * length todo) ++ done_pl) (length (pre ++ done_je)) acc todo
    = (pre ++ done_je ++ flat_map (fun ke => be32 (je_encoded (wje (snd ke)))) todo ++ done_pl ++ flat_map (fun ke => wpl (snd ke)) todo,
       (length (pre ++ done_je) + 4 * length todo)%nat, acc + wsum_m todo).
Proof.
  induction todo as [|[k x] todo IH]; intros Hs pre done_je done_pl acc.
  - cbn [bld_members flat_map length repeat wsum_m fold_right app]. rewrite !app_nil_r, Nat.mul_0_r, Nat.add_0_r, N.add_0_r. reflexivity.
  - inversion Hs as [|? ? Hx Hs']; subst. cbn [snd] in Hx.
    cbn [bld_members]. rewrite Hx. unfold replace_jentry.
    replace (4 * length ((k, x) :: todo))%nat with (4 + 4 * length todo)%nat by (cbn [length]; lia).
    rewrite repeat_app.
    replace ((pre ++ done_je ++ (repeat 0 4 ++ repeat 0 (4 * length todo)) ++ done_pl) ++ wpl x)
      with ((pre ++ done_je) ++ repeat 0 4 ++ (repeat 0 (4 * length todo) ++ done_pl ++ wpl x))
      by (repeat rewrite <- app_assoc; reflexivity).
    rewrite patch_app by reflexivity.
    specialize (IH Hs' pre (done_je ++ be32 (je_encoded (wje x))) (done_pl ++ wpl x) (acc + snd (wje x))).
    replace ((pre ++ done_je) ++ be32 (je_encoded (wje x)) ++ repeat 0 (4 * length todo) ++ done_pl ++ wpl x)
      with (pre ++ (done_je ++ be32 (je_encoded (wje x))) ++ repeat 0 (4 * length todo) ++ (done_pl ++ wpl x))
      by (repeat rewrite <- app_assoc; reflexivity).
    replace (length (pre ++ done_je) + 4)%nat with (length (pre ++ done_je ++ be32 (je_encoded (wje x))))
      by (rewrite !app_length, be32_len; lia).
    rewrite IH. cbn [flat_map wsum_m fold_right snd]. f_equal; [f_equal|].
    + repeat rewrite <- app_assoc. reflexivity.
    + rewrite !app_length, be32_len. cbn [length]. lia.
    + unfold wsum_m. cbn [fold_right snd]. lia.
Qed.

(* ---------------------------------------------------------------- write_entry on any entry *)
Lemma write_arr_frame es buf : Forall fspec es -> write_entry buf (EArr es) = (buf ++ wpl (EArr es), wje (EArr es)).
Proof.
  intros Hs. unfold wpl, wje. rewrite witem_arr. cbn [fst snd].
  cbn [write_entry]. unfold reserve_jentries, BLD_ARR_RESERVE, BLD_ARR_LEN0.
  pose proof (bld_values_frame es Hs (buf ++ be32 (header_word ARRAY_CONTAINER_TAG (lenN es))) [] [] (4 + lenN es * 4)) as E.
  cbn [app] in E. rewrite !app_nil_r in E.
  replace (N.to_nat (lenN es * 4)) with (4 * length es)%nat by (unfold lenN; lia).
  rewrite E. rewrite <- !app_assoc. reflexivity.
Qed.

Lemma write_obj_frame kes buf : Forall (fun ke => fspec (snd ke)) kes ->
  write_entry buf (EObj kes) = (buf ++ wpl (EObj kes), wje (EObj kes)).
Proof.
  intros Hs. unfold wpl, wje. rewrite witem_obj. cbn [fst snd].
  cbn [write_entry]. unfold reserve_jentries, BLD_OBJ_RESERVE, BLD_OBJ_LEN0.
  set (pre := buf ++ be32 (header_word OBJECT_CONTAINER_TAG (lenN kes))).
  replace (N.to_nat (lenN kes * 8)) with (4 * length kes + 4 * length kes)%nat by (unfold lenN; lia).
  rewrite repeat_app.
  pose proof (bld_keys_spec kes pre [] (repeat 0 (4 * length kes)) [] (4 + lenN kes * 8)) as EK.
  cbn [app] in EK. rewrite !app_nil_r in EK. rewrite EK. clear EK.
  set (kj := flat_map (fun ke => be32 (jentry_word STRING_TAG (lenN (fst ke)))) kes).
  pose proof (bld_members_frame kes Hs (pre ++ kj) [] (flat_map fst kes) (4 + lenN kes * 8 + ksum kes)) as EM.
  cbn [app] in EM. rewrite !app_nil_r in EM.
  replace (length pre + 4 * length kes)%nat with (length (pre ++ kj)).
  2:{ unfold kj. rewrite app_length. f_equal.
      apply (length_flat_be32 (fun ke : list N * entry => jentry_word STRING_TAG (lenN (fst ke))) kes). }
  replace (pre ++ kj ++ repeat 0 (4 * length kes) ++ flat_map fst kes) with ((pre ++ kj) ++ repeat 0 (4 * length kes) ++ flat_map fst kes)
    by (rewrite <- app_assoc; reflexivity).
  rewrite EM. unfold pre. rewrite <- !app_assoc. reflexivity.
Qed.

(* THE frame theorem, with the appended bytes and the returned entry named *)
Theorem write_entry_frame e : forall buf, write_entry buf e = (buf ++ wpl e, wje e).
Proof.
  induction e as [j d|es IH|kes IH] using entry_ind2; intros buf.
  - reflexivity.
  - apply write_arr_frame. exact IH.
  - apply write_obj_frame. exact IH.
Qed.

(* as stated in the task: what is appended and the returned entry do not depend on the buffer; the prefix stays *)
Corollary write_entry_frame_any e buf :
  exists tail j, write_entry buf e = (buf ++ tail, j) /\ (forall buf', write_entry buf' e = (buf' ++ tail, j)).
Proof. exists (wpl e), (wje e). split; [apply write_entry_frame|intros buf'; apply write_entry_frame]. Qed.

Corollary build_arr_into_any buf es : build_arr_into buf es = buf ++ wpl (EArr es).
Proof. unfold build_arr_into. rewrite write_entry_frame. reflexivity. Qed.
Corollary build_obj_into_any buf kes : build_obj_into buf kes = buf ++ wpl (EObj kes).
Proof. unfold build_obj_into. rewrite write_entry_frame. reflexivity. Qed.
Corollary build_arr_into_frame buf es : build_arr_into buf es = buf ++ build_arr_into [] es.
Proof. rewrite !build_arr_into_any. reflexivity. Qed.
Corollary build_obj_into_frame buf kes : build_obj_into buf kes = buf ++ build_obj_into [] kes.
Proof. rewrite !build_obj_into_any. reflexivity. Qed.

(* on entries whose length fields are right, what is written is the layout (consistency with write_entry_spec) *)
Corollary witem_ok e : entry_okb e = true -> witem e = entry_item e.
Proof.
  intros H. pose proof (write_entry_frame e []) as E1. rewrite (write_entry_spec e H []) in E1.
  cbn [app] in E1. unfold epl, eje, wpl, wje in E1. injection E1 as E1 E2.
  rewrite (surjective_pairing (witem e)), (surjective_pairing (entry_item e)). congruence.
Qed.

(* the length of what is appended depends on the entry alone: the buffer grows by the same amount every time *)
Corollary write_entry_growth e buf : length (fst (write_entry buf e)) = (length buf + length (wpl e))%nat.
Proof. rewrite write_entry_frame. cbn [fst]. apply app_length. Qed.
