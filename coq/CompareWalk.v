(* CompareWalk.v — offset-faithful model of compare / compare_scalar / compare_container / compare_array /
   compare_object of src/functions.rs (binary branch): two buffers, absolute offsets, `read_u32(..)?` = Err,
   a slice taken with an index expression out of bounds = Panic.  Executable definitions only. *)
From Coq Require Import List NArith ZArith Bool.
Import ListNotations.
From JB Require Import Constants Bytes Utf8 Num Value Codec JsonText Order Walk.
Open Scope N_scope.

Definition jlevel (w : N) : N := level_of_tag (je_type w).
Definition rd (bs : list N) (off : N) : res N := of_option EOther (read_u32 bs off).
(* &buf[off..] must be in bounds, whatever is done with it afterwards *)
Definition from_ok (bs : list N) (off : N) : res unit := if off <=? lenN bs then Ok tt else Panic.

Section Inner.
  (* compare_scalar at smaller fuel: (left entry word, left payload offset, right entry word, right payload offset) *)
  Variable L R : list N.
  Variable sc : N -> N -> N -> N -> res comparison.

  (* compare_array: the slices start at lb / rb (just after the two headers) *)
  Fixpoint arr_loop_w (fuel : nat) (i len joff lb rb lvo rvo : N) (llen rlen : N) : res comparison :=
    match fuel with O => Err EFuel | S f =>
    if i <? len then
      do lw <- rd L (lb + joff);
      do rw <- rd R (rb + joff);
      do _ <- from_ok L (lb + lvo);
      do _ <- from_ok R (rb + rvo);
      do o <- sc lw (lb + lvo) rw (rb + rvo);
      match o with
      | Eq => arr_loop_w f (i + 1) len (joff + CMA_JSTEP) lb rb (lvo + je_len lw) (rvo + je_len rw) llen rlen
      | _ => Ok o
      end
    else Ok (N.compare llen rlen)
    end.
  Definition compare_array_w (lh lb rh rb : N) : res comparison :=
    let llen := hdr_len lh in let rlen := hdr_len rh in
    (* loop bound, initial offsets, stride: generated from compare_array (gen/Constants.v, CMA_...) *)
    let len := CMA_LEN llen rlen in
    arr_loop_w (S (length L)) 0 len CMA_JOFF lb rb (CMA_LVOFF llen) (CMA_RVOFF rlen) llen rlen.

  (* compare_object: all key entry words of both sides first (Err when one cannot be read) *)
  Definition rd_words_res (bs : list N) (len joff : N) : res (list N) :=
    of_option EOther (rd_words (S (length bs)) bs 0 len joff).
  Fixpoint obj_loop_w (lkws rkws : list N) (ljo rjo lb rb lko rko lvo rvo : N) (llen rlen : N) : res comparison :=
    match lkws, rkws with
    | lk :: lks, rk :: rks =>
        do _ <- from_ok L (lb + lko);
        do _ <- from_ok R (rb + rko);
        do ko <- sc lk (lb + lko) rk (rb + rko);
        match ko with
        | Eq =>
            do lw <- rd L (lb + ljo);
            do rw <- rd R (rb + rjo);
            do _ <- from_ok L (lb + lvo);
            do _ <- from_ok R (rb + rvo);
            do vo <- sc lw (lb + lvo) rw (rb + rvo);
            match vo with
            | Eq => obj_loop_w lks rks (ljo + CMO_LJSTEP2) (rjo + CMO_RJSTEP2) lb rb (lko + je_len lk) (rko + je_len rk)
                               (lvo + je_len lw) (rvo + je_len rw) llen rlen
            | _ => Ok vo
            end
        | _ => Ok ko
        end
    | _, _ => Ok (N.compare llen rlen)
    end.
  Definition compare_object_w (lh lb rh rb : N) : res comparison :=
    let llen := hdr_len lh in let rlen := hdr_len rh in
    (* initial offsets and strides: generated from compare_object (CMO_...); the two first loops advanced the entry offsets by
       CMO_xJSTEP1 per key and the value offsets by the key lengths.  The loop below runs over the shorter key list
       (CMO_LEN = the smaller count: CompareWalkProofs.CMO_LEN_min) *)
    do lkws <- rd_words_res L llen (lb + CMO_LJOFF);
    do rkws <- rd_words_res R rlen (rb + CMO_RJOFF);
    obj_loop_w lkws rkws (CMO_LJOFF + CMO_LJSTEP1 * llen) (CMO_RJOFF + CMO_RJSTEP1 * rlen) lb rb (CMO_LKOFF llen) (CMO_RKOFF rlen)
               (CMO_LVOFF llen + sum_je_len lkws) (CMO_RVOFF rlen + sum_je_len rkws) llen rlen.

  (* compare_container on the payloads at lo / ro *)
  Definition compare_container_w (lo ro : N) : res comparison :=
    do lh <- rd L lo;
    do rh <- rd R ro;
    let lt := hdr_type lh in let rt := hdr_type rh in
    (* &left[4..], &right[4..]: generated from compare_container (CMP_...) *)
    if (lt =? ARRAY_CONTAINER_TAG) && (rt =? ARRAY_CONTAINER_TAG) then compare_array_w lh (lo + CMP_ARR_LSKIP) rh (ro + CMP_ARR_RSKIP)
    else if (lt =? OBJECT_CONTAINER_TAG) && (rt =? OBJECT_CONTAINER_TAG) then compare_object_w lh (lo + CMP_OBJ_LSKIP) rh (ro + CMP_OBJ_RSKIP)
    else if (lt =? ARRAY_CONTAINER_TAG) && (rt =? OBJECT_CONTAINER_TAG) then Ok Gt
    else if (lt =? OBJECT_CONTAINER_TAG) && (rt =? ARRAY_CONTAINER_TAG) then Ok Lt
    else Err EOther.
End Inner.

(* compare_scalar *)
Fixpoint compare_scalar_w (fuel : nat) (L R : list N) (lw lo rw ro : N) : res comparison :=
  match fuel with O => Err EFuel | S f =>
  let ll := jlevel lw in let rl := jlevel rw in
  if negb (ll =? rl) then Ok (N.compare ll rl)
  else
    let lt := je_type lw in let rt := je_type rw in
    if (lt =? NULL_TAG) && (rt =? NULL_TAG) then Ok Eq
    else if (lt =? CONTAINER_TAG) && (rt =? CONTAINER_TAG) then compare_container_w L R (compare_scalar_w f L R) lo ro
    else if (lt =? STRING_TAG) && (rt =? STRING_TAG) then
      do a <- slice_p L lo (je_len lw);
      do b <- slice_p R ro (je_len rw);
      Ok (bytes_cmp a b)
    else if (lt =? NUMBER_TAG) && (rt =? NUMBER_TAG) then
      do a <- slice_p L lo (je_len lw);
      do x <- num_decode a;
      do b <- slice_p R ro (je_len rw);
      do y <- num_decode b;
      Ok (num_cmp x y)
    else if (lt =? TRUE_TAG) && (rt =? TRUE_TAG) then Ok Eq
    else if (lt =? FALSE_TAG) && (rt =? FALSE_TAG) then Ok Eq
    else Err EOther
  end.

(* compare, binary branch *)
Definition compare_b (L R : list N) : res comparison :=
  do lh <- rd L 0;
  do rh <- rd R 0;
  let lt := hdr_type lh in let rt := hdr_type rh in
  let fuel := S (length L + length R) in
  let isc t := t =? SCALAR_CONTAINER_TAG in let isa t := t =? ARRAY_CONTAINER_TAG in let iso t := t =? OBJECT_CONTAINER_TAG in
  if isc lt && isc rt then
    (* the literal offsets of `compare`: generated (gen/Constants.v, CPR_...) *)
    do lw <- rd L CPR_SC_LJOFF;
    do rw <- rd R CPR_SC_RJOFF;
    do _ <- from_ok L CPR_SC_LSKIP;
    do _ <- from_ok R CPR_SC_RSKIP;
    compare_scalar_w fuel L R lw CPR_SC_LSKIP rw CPR_SC_RSKIP
  else if isa lt && isa rt then compare_array_w L R (compare_scalar_w fuel L R) lh CPR_ARR_LSKIP rh CPR_ARR_RSKIP
  else if iso lt && iso rt then compare_object_w L R (compare_scalar_w fuel L R) lh CPR_OBJ_LSKIP rh CPR_OBJ_RSKIP
  else if isc lt && (isa rt || iso rt) then
    do lw <- rd L CPR_MIX_LJOFF; Ok (if je_type lw =? NULL_TAG then Gt else Lt)
  else if (isa lt || iso lt) && isc rt then
    do rw <- rd R CPR_MIX_RJOFF; Ok (if je_type rw =? NULL_TAG then Lt else Gt)
  else if isa lt && iso rt then Ok Gt
  else if iso lt && isa rt then Ok Lt
  else Err EOther.

(* the public function: JSON text arguments are parsed and re-encoded first (functions.rs compare), then the
   binary walker runs on the encodings *)
Definition compare_w (l r : list N) : res comparison :=
  match is_jsonb l, is_jsonb r with
  | false, false =>
      match JsonText.parse_value l, JsonText.parse_value r with
      | Ok a, Ok b => compare_b (to_vec a) (to_vec b)
      | Ok _, Err _ => Ok Gt
      | Err _, Ok _ => Ok Lt
      | Err _, Err _ => Ok (bytes_cmp l r)
      | _, _ => Panic
      end
  | false, true =>
      match JsonText.parse_value l with
      | Ok a => compare_b (to_vec a) r
      | Err _ => Ok Lt
      | Panic => Panic
      end
  | true, false =>
      match JsonText.parse_value r with
      | Ok b => compare_b l (to_vec b)
      | Err _ => Ok Gt
      | Panic => Panic
      end
  | true, true => compare_b l r
  end.
