(* ContainSpec.v — C12, a DECLARATIVE specification of containment, written from the property text alone
   (PostgreSQL @> rules), independent of the executable mirror `contains_t` (Contain.v).

   "an object contains an object whose every member it contains under the same key, an array contains an array whose
    every element is matched by some element (scalars by equality, containers by containment, order and multiplicity
    ignored), a top-level array also contains a bare scalar equal to one of its elements, and scalars contain only
    equals.  Equality of scalars is the equality that compare reports."

   `contained a b` reads "a contains b".  There is no length test, no variant test, no lookup function and no
   scalar/container case split in the rules: a scalar is matched by an equal scalar, a container by a container of the
   same kind that contains it; nothing else is contained in anything (in particular an array never contains an object
   or vice versa, and -- below the top level -- an array does not contain a bare scalar). *)
From Coq Require Import List NArith ZArith Bool.
Import ListNotations.
From JB Require Import Constants Bytes Num Value Order.
Open Scope N_scope.

(* equality of scalars = the equality compare reports *)
Definition scalar_eq (a b : value) : Prop :=
  is_scalar a = true /\ is_scalar b = true /\ cmp_value a b = Eq.

Inductive contained : value -> value -> Prop :=
| contained_scalars a b :
    scalar_eq a b -> contained a b
| contained_objects la lb :
    (forall k bv, In (k, bv) lb -> exists av, In (k, av) la /\ contained av bv) ->
    contained (VObj la) (VObj lb)
| contained_arrays la lb :
    (forall bv, In bv lb -> exists av, In av la /\ contained av bv) ->
    contained (VArr la) (VArr lb).

(* the top-level rule: a top-level array also contains a bare scalar equal to one of its elements *)
Definition contains_top (a b : value) : Prop :=
  contained a b \/
  (exists la, a = VArr la /\ is_scalar b = true /\ exists x, In x la /\ scalar_eq x b).
