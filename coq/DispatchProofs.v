(* DispatchProofs.v — consequences of the round trip for the byte-level API model: on the encoding of a
   well-formed value every accessor / editor of Dispatch.v answers with the tree operation on the decoded tree
   (C05, C06), and a JSON text and its encoding are read as the same document (C11). *)
From Coq Require Import List NArith ZArith Bool Lia.
Import ListNotations.
From JB Require Import Constants Bytes Utf8 Num NumProofs Value Codec Decimal JsonText Order OrderProofs CodecProofs RoundtripProofs
  TreeOps Contain SetOps CmpKey Render Serde Path PathSem Dispatch.
Open Scope N_scope.
Set Default Timeout 120.

(* the number of top-level elements (what the header's count field holds) *)
Definition top_count (v : value) : N := match v with VArr l => lenN l | VObj o => lenN o | _ => 0 end.
(* the first-byte test recognises an encoding whose top-level count is below 2^24 *)
Definition top_ok (v : value) : Prop := top_count v < 16777216.

Lemma lor_disjoint_add a n : N.land a n = 0 -> N.lor a n = a + n.
Proof. intros H. rewrite <- N.lxor_lor by exact H. symmetry. apply N.add_nocarry_lxor. exact H. Qed.

Ltac Zify.zify_post_hook ::= Z.div_mod_to_equations.
Lemma first_byte_array n : n < 16777216 -> hd 0 (be32 (2147483648 + n)) = 128.
Proof. intros H. unfold be32. cbn [hd]. lia. Qed.
Lemma first_byte_object n : n < 16777216 -> hd 0 (be32 (1073741824 + n)) = 64.
Proof. intros H. unfold be32. cbn [hd]. lia. Qed.
Ltac Zify.zify_post_hook ::= idtac.

Lemma is_jsonb_hd bs : bs <> [] -> In (hd 0 bs) IS_JSONB_BYTES -> is_jsonb bs = true.
Proof.
  destruct bs as [|b r]; [congruence|]. intros _ H. cbn [hd] in H. unfold is_jsonb.
  apply existsb_exists. exists b. split; [exact H|apply N.eqb_refl].
Qed.

Theorem is_jsonb_enc v : wfb v = true -> top_ok v -> is_jsonb (enc v) = true.
Proof.
  intros Hwf Ht. unfold top_ok in Ht.
  assert (Sc : forall w p, is_jsonb (be32 SCALAR_CONTAINER_TAG ++ be32 w ++ p) = true).
  { intros w p. change (be32 SCALAR_CONTAINER_TAG) with [32; 0; 0; 0]. cbn [app is_jsonb].
    change (existsb (N.eqb 32) IS_JSONB_BYTES) with true. reflexivity. }
  destruct v as [|b|s|n|l|o]; try (unfold enc; apply Sc).
  - unfold enc. cbn [enc_item snd]. cbn [top_count] in Ht.
    rewrite header_word_small by lia.
    rewrite lor_disjoint_add by (change ARRAY_CONTAINER_TAG with (N.shiftl 4 29); rewrite N.land_comm; apply land_low_high; change (2 ^ 29) with 536870912; lia).
    apply is_jsonb_hd.
    + unfold be32. cbn [app]. discriminate.
    + assert (E : hd 0 (be32 (ARRAY_CONTAINER_TAG + lenN l) ++ flat_map (fun it : N * list N => be32 (fst it)) (map enc_item l) ++ flat_map snd (map enc_item l)) = 128).
      { unfold be32 at 1. cbn [app hd]. change ARRAY_CONTAINER_TAG with 2147483648. pose proof (first_byte_array (lenN l) Ht) as F. unfold be32 in F. cbn [hd] in F. exact F. }
      rewrite E. vm_compute. auto.
  - unfold enc. cbn [enc_item snd]. cbn [top_count] in Ht.
    rewrite header_word_small by lia.
    rewrite lor_disjoint_add by (change OBJECT_CONTAINER_TAG with (N.shiftl 2 29); rewrite N.land_comm; apply land_low_high; change (2 ^ 29) with 536870912; lia).
    apply is_jsonb_hd.
    + unfold be32. cbn [app]. discriminate.
    + match goal with |- In (hd 0 (be32 ?w ++ ?r)) _ => assert (E : hd 0 (be32 w ++ r) = 64) end.
      { unfold be32 at 1. cbn [app hd]. change OBJECT_CONTAINER_TAG with 1073741824. pose proof (first_byte_object (lenN o) Ht) as F. unfold be32 in F. cbn [hd] in F. exact F. }
      rewrite E. vm_compute. auto.
Qed.

(* the document an encoding stands for is the value it encodes *)
Theorem doc_of_enc v : wfb v = true -> top_ok v -> doc_of (enc v) = Ok (normalise v).
Proof. intros Hwf Ht. unfold doc_of. rewrite (is_jsonb_enc v Hwf Ht). apply parse_jsonb_enc. exact Hwf. Qed.

Section OnEncodings.
  Variable v : value.
  Hypothesis Hwf : wfb v = true.
  Hypothesis Htop : top_ok v.
  Let d := normalise v.      (* the decoded tree: value-equal to v and with the identical encoding *)

  Lemma array_length_on_enc : array_length_m (enc v) = Ok (array_length_t d).
  Proof. unfold array_length_m. rewrite (doc_of_enc v Hwf Htop). reflexivity. Qed.
  Lemma get_by_index_on_enc i : get_by_index_m (enc v) i = Ok (option_map enc (get_by_index_t d i)).
  Proof. unfold get_by_index_m. rewrite (doc_of_enc v Hwf Htop). reflexivity. Qed.
  Lemma get_by_name_on_enc name ic : get_by_name_m (enc v) name ic = Ok (option_map enc (get_by_name_t d name ic)).
  Proof. unfold get_by_name_m. rewrite (doc_of_enc v Hwf Htop). reflexivity. Qed.
  Lemma get_by_keypath_on_enc ks : get_by_keypath_m (enc v) ks = Ok (option_map enc (get_by_keypath_t d ks)).
  Proof. unfold get_by_keypath_m. rewrite (doc_of_enc v Hwf Htop). reflexivity. Qed.
  Lemma object_keys_on_enc : object_keys_m (enc v) = Ok (option_map enc (object_keys_t d)).
  Proof. unfold object_keys_m. rewrite (doc_of_enc v Hwf Htop). reflexivity. Qed.
  Lemma object_each_on_enc :
    object_each_m (enc v) = Ok (option_map (map (fun kv => (fst kv, enc (snd kv)))) (object_each_t d)).
  Proof. unfold object_each_m. rewrite (doc_of_enc v Hwf Htop). reflexivity. Qed.
  Lemma array_values_on_enc : array_values_m (enc v) = Ok (option_map (map enc) (array_values_t d)).
  Proof. unfold array_values_m. rewrite (doc_of_enc v Hwf Htop). reflexivity. Qed.
  Lemma type_of_on_enc : type_of_m (enc v) = Ok (type_of_t d).
  Proof. unfold type_of_m. rewrite (is_jsonb_enc v Hwf Htop), (parse_jsonb_enc v Hwf). reflexivity. Qed.
  Lemma as_number_on_enc : as_number_m (enc v) = Ok (as_number_t d).
  Proof. unfold as_number_m. rewrite (doc_of_enc v Hwf Htop). reflexivity. Qed.
  Lemma as_str_on_enc : as_str_m (enc v) = Ok (as_str_t d).
  Proof. unfold as_str_m. rewrite (doc_of_enc v Hwf Htop). reflexivity. Qed.
  Lemma as_bool_on_enc : as_bool_m (enc v) = Ok (as_bool_t d).
  Proof. unfold as_bool_m. rewrite (doc_of_enc v Hwf Htop). reflexivity. Qed.
  Lemma exists_all_keys_on_enc ks : exists_all_keys_m (enc v) ks = Ok (exists_all_keys_t d ks).
  Proof. unfold exists_all_keys_m. rewrite (doc_of_enc v Hwf Htop). reflexivity. Qed.
  Lemma exists_any_keys_on_enc ks : exists_any_keys_m (enc v) ks = Ok (exists_any_keys_t d ks).
  Proof. unfold exists_any_keys_m. rewrite (doc_of_enc v Hwf Htop). reflexivity. Qed.
  Lemma traverse_on_enc needle : traverse_check_string_m (enc v) needle = Ok (traverse_check_string_t d needle).
  Proof. unfold traverse_check_string_m. rewrite (doc_of_enc v Hwf Htop). reflexivity. Qed.

  (* unary editors *)
  Lemma delete_by_name_on_enc name buf :
    delete_by_name_m (enc v) name buf = append_enc buf (delete_by_name_t d name).
  Proof. unfold delete_by_name_m. rewrite (doc_of_enc v Hwf Htop). reflexivity. Qed.
  Lemma delete_by_index_on_enc i buf :
    delete_by_index_m (enc v) i buf = append_enc buf (delete_by_index_t d i).
  Proof. unfold delete_by_index_m. rewrite (doc_of_enc v Hwf Htop). reflexivity. Qed.
  Lemma delete_by_keypath_on_enc ks buf :
    delete_by_keypath_m (enc v) ks buf = append_enc buf (delete_by_keypath_t d ks).
  Proof. unfold delete_by_keypath_m. rewrite (doc_of_enc v Hwf Htop). reflexivity. Qed.
  Lemma object_delete_on_enc ks buf : object_delete_m (enc v) ks buf = append_enc buf (object_delete_t d ks).
  Proof. unfold object_delete_m. rewrite (doc_of_enc v Hwf Htop). reflexivity. Qed.
  Lemma object_pick_on_enc ks buf : object_pick_m (enc v) ks buf = append_enc buf (object_pick_t d ks).
  Proof. unfold object_pick_m. rewrite (doc_of_enc v Hwf Htop). reflexivity. Qed.
  Lemma strip_nulls_on_enc buf : strip_nulls_m (enc v) buf = Ok (buf ++ enc (strip_nulls_t d)).
  Proof. unfold strip_nulls_m. rewrite (doc_of_enc v Hwf Htop). reflexivity. Qed.
  Lemma array_distinct_on_enc buf : array_distinct_m (enc v) buf = Ok (buf ++ enc (array_distinct_t d)).
  Proof. unfold array_distinct_m. rewrite (doc_of_enc v Hwf Htop). reflexivity. Qed.

  (* binary functions: the second document *)
  Variable w : value.
  Hypothesis Hwfw : wfb w = true.
  Hypothesis Htopw : top_ok w.
  Let e := normalise w.
  Lemma concat_on_enc buf : concat_m (enc v) (enc w) buf = Ok (buf ++ enc (concat_t d e)).
  Proof.
    unfold concat_m. rewrite (is_jsonb_enc v Hwf Htop), (is_jsonb_enc w Hwfw Htopw). cbn [negb orb].
    rewrite (parse_jsonb_enc v Hwf), (parse_jsonb_enc w Hwfw). reflexivity.
  Qed.
  Lemma array_insert_on_enc pos buf : array_insert_m (enc v) pos (enc w) buf = Ok (buf ++ enc (array_insert_t d pos e)).
  Proof. unfold array_insert_m, both. rewrite (doc_of_enc v Hwf Htop), (doc_of_enc w Hwfw Htopw). reflexivity. Qed.
  Lemma object_insert_on_enc k upd buf :
    object_insert_m (enc v) k (enc w) upd buf = append_enc buf (object_insert_t d k e upd).
  Proof. unfold object_insert_m, both. rewrite (doc_of_enc v Hwf Htop), (doc_of_enc w Hwfw Htopw). reflexivity. Qed.
  Lemma contains_on_enc : contains_m (enc v) (enc w) = Ok (contains_t d e).
  Proof.
    unfold contains_m. rewrite (is_jsonb_enc v Hwf Htop), (is_jsonb_enc w Hwfw Htopw). cbn [negb orb].
    rewrite (parse_jsonb_enc v Hwf), (parse_jsonb_enc w Hwfw). reflexivity.
  Qed.
  Lemma compare_on_enc : compare_api (enc v) (enc w) = Ok (cmp_value d e).
  Proof.
    unfold compare_api. rewrite (is_jsonb_enc v Hwf Htop), (is_jsonb_enc w Hwfw Htopw).
    rewrite (parse_jsonb_enc v Hwf), (parse_jsonb_enc w Hwfw). cbn [bind]. apply compare_m_correct.
  Qed.
  Lemma array_intersection_on_enc buf :
    array_intersection_m (enc v) (enc w) buf = Ok (buf ++ enc (array_intersection_t d e)).
  Proof. unfold array_intersection_m, both. rewrite (doc_of_enc v Hwf Htop), (doc_of_enc w Hwfw Htopw). reflexivity. Qed.
  Lemma array_except_on_enc buf :
    array_except_m (enc v) (enc w) buf = Ok (buf ++ enc (array_except_t d e)).
  Proof. unfold array_except_m, both. rewrite (doc_of_enc v Hwf Htop), (doc_of_enc w Hwfw Htopw). reflexivity. Qed.
  Lemma array_overlap_on_enc : array_overlap_m (enc v) (enc w) = Ok (array_overlap_t d e).
  Proof. unfold array_overlap_m, both. rewrite (doc_of_enc v Hwf Htop), (doc_of_enc w Hwfw Htopw). reflexivity. Qed.
End OnEncodings.

(* compare on encodings is compare on the values themselves (normalise is invisible to the order) *)
Theorem compare_enc v w : wfb v = true -> top_ok v -> wfb w = true -> top_ok w ->
  compare_api (enc v) (enc w) = Ok (cmp_value v w).
Proof.
  intros Hv Tv Hw Tw. rewrite (compare_on_enc v Hv Tv w Hw Tw). f_equal.
  rewrite <- (cmp_value_eq_l (normalise v) v (normalise w) (normalise_equal v)).
  apply (cmp_value_eq_r v (normalise w) w (normalise_equal w)).
Qed.

(* ---- C11: a JSON text and its encoding stand for the same document ---- *)
Theorem text_and_encoding_same_document t v :
  is_jsonb t = false -> parse_value t = Ok v -> normalise v = v -> wfb v = true -> top_ok v ->
  doc_of (enc v) = doc_of t.
Proof.
  intros Ht Hp Hn Hwf Htop. rewrite (doc_of_enc v Hwf Htop), Hn. unfold doc_of. rewrite Ht. symmetry. exact Hp.
Qed.
