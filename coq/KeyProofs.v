(* KeyProofs.v — the 8-byte number image of the comparable key orders doubles as Number's order does (C14),
   once the two zeros share one image. *)
From Coq Require Import List NArith ZArith Bool Lia.
Import ListNotations.
From JB Require Import Constants Bytes Num Value Order CmpKey NumProofs OrderProofs.
Open Scope N_scope.
Set Default Timeout 900.

Definition two63N : N := 9223372036854775808.

Lemma pattern_split b : b < two64 -> b = (if f_sign b then two63N else 0) + f_exp b * two52 + f_man b /\ f_exp b < 2048 /\ f_man b < two52.
Proof.
  intros Hb. unfold f_sign, f_exp, f_man, two63N, two52, two64 in *.
  pose proof (N.div_mod b 4503599627370496 ltac:(lia)) as D.
  pose proof (N.mod_lt b 4503599627370496 ltac:(lia)) as M.
  pose proof (N.div_mod (b / 4503599627370496) 2048 ltac:(lia)) as D2.
  pose proof (N.mod_lt (b / 4503599627370496) 2048 ltac:(lia)) as M2.
  assert (Q : b / 4503599627370496 < 4096) by (apply N.div_lt_upper_bound; lia).
  destruct (9223372036854775808 <=? b) eqn:E; [apply N.leb_le in E|apply N.leb_gt in E].
  - assert (2048 <= b / 4503599627370496) by (apply N.div_le_lower_bound; lia).
    assert (b / 4503599627370496 / 2048 = 1) by (apply N.le_antisymm; [apply N.lt_succ_r; apply N.div_lt_upper_bound; lia|apply N.div_le_lower_bound; lia]).
    repeat split; lia.
  - assert (b / 4503599627370496 < 2048) by (apply N.div_lt_upper_bound; lia).
    assert (b / 4503599627370496 / 2048 = 0) by (apply N.div_small; lia).
    repeat split; lia.
Qed.

(* magnitude as a function of exponent and mantissa *)
Definition mag (e m : N) : Z := if e =? 0 then Z.of_N m else (Z.of_N (two52 + m) * 2 ^ (Z.of_N e - 1))%Z.
Lemma f_scaled_mag b : f_scaled b = if f_sign b then (- mag (f_exp b) (f_man b))%Z else mag (f_exp b) (f_man b).
Proof. reflexivity. Qed.

Lemma mag_lt e1 m1 e2 m2 : m1 < two52 -> m2 < two52 -> e1 * two52 + m1 < e2 * two52 + m2 -> (mag e1 m1 < mag e2 m2)%Z.
Proof.
  intros H1 H2 H. unfold two52 in *.
  assert (C : e1 < e2 \/ (e1 = e2 /\ m1 < m2)) by nia.
  unfold mag, two52. destruct C as [C|[-> C]].
  - destruct (e1 =? 0) eqn:E1; [apply N.eqb_eq in E1; subst e1|apply N.eqb_neq in E1].
    + destruct (e2 =? 0) eqn:E2; [apply N.eqb_eq in E2; lia|]. apply N.eqb_neq in E2.
      assert (1 <= 2 ^ (Z.of_N e2 - 1))%Z by (apply (Z.pow_le_mono_r 2 0); lia). nia.
    + destruct (e2 =? 0) eqn:E2; [apply N.eqb_eq in E2; lia|]. apply N.eqb_neq in E2.
      assert (P : (2 ^ (Z.of_N e2 - 1) = 2 ^ (Z.of_N e1 - 1) * 2 ^ (Z.of_N e2 - Z.of_N e1))%Z)
        by (rewrite <- Z.pow_add_r by lia; f_equal; lia).
      assert (2 <= 2 ^ (Z.of_N e2 - Z.of_N e1))%Z by (apply (Z.pow_le_mono_r 2 1); lia).
      assert (0 < 2 ^ (Z.of_N e1 - 1))%Z by (apply Z.pow_pos_nonneg; lia).
      rewrite P. nia.
  - destruct (e2 =? 0) eqn:E2; [lia|]. apply N.eqb_neq in E2.
    assert (0 < 2 ^ (Z.of_N e2 - 1))%Z by (apply Z.pow_pos_nonneg; lia). nia.
Qed.
Lemma mag_nonneg e m : (0 <= mag e m)%Z.
Proof. unfold mag. destruct (e =? 0); [lia|]. assert (0 <= 2 ^ (Z.of_N e - 1))%Z by (apply Z.pow_nonneg; lia). nia. Qed.
Lemma mag_zero e m : m < two52 -> mag e m = 0%Z -> e = 0 /\ m = 0.
Proof.
  unfold mag, two52. intros Hm. destruct (e =? 0) eqn:E; [apply N.eqb_eq in E; lia|].
  intros H. assert (0 < 2 ^ (Z.of_N e - 1))%Z by (apply Z.pow_pos_nonneg; apply N.eqb_neq in E; lia). nia.
Qed.

Lemma key_of_parts b : b < two64 ->
  f64_key b = if f_sign b then (if (f_exp b =? 0) && (f_man b =? 0) then two63N else two64 - 1 - b) else b + two63N.
Proof.
  intros Hb. destruct (pattern_split b Hb) as (E & He & Hm). unfold f64_key, f64_image. fold two63N.
  destruct (b =? two63N) eqn:Z0.
  - apply N.eqb_eq in Z0. subst b. vm_compute. reflexivity.
  - apply N.eqb_neq in Z0. destruct (f_sign b) eqn:S.
    + destruct ((f_exp b =? 0) && (f_man b =? 0)) eqn:Zz.
      * apply andb_true_iff in Zz. destruct Zz as [Z1 Z2]. apply N.eqb_eq in Z1. apply N.eqb_eq in Z2. rewrite Z1, Z2 in E. unfold two63N, two52 in *. lia.
      * unfold two64. reflexivity.
    + reflexivity.
Qed.

Lemma cmp_transfer (x y : Z) (p q : N) :
  ((x < y)%Z -> p < q) -> (x = y -> p = q) -> ((y < x)%Z -> q < p) -> (x ?= y)%Z = (p ?= q).
Proof.
  intros H1 H2 H3. destruct (Z.compare_spec x y) as [E|L|G]; symmetry.
  - apply N.compare_eq_iff. auto.
  - apply N.compare_lt_iff. auto.
  - apply N.compare_gt_iff. auto.
Qed.

(* Number's order on two doubles that are not NaN is the order of their images *)
Definition INFP : N := 2047 * two52.

Lemma zero_test e m : m < two52 -> ((e =? 0) && (m =? 0)) = (e * two52 + m =? 0).
Proof.
  intros Hm. unfold two52 in *. destruct (e * 4503599627370496 + m =? 0) eqn:E.
  - apply N.eqb_eq in E. assert (e = 0 /\ m = 0) as [-> ->] by lia. reflexivity.
  - apply N.eqb_neq in E. destruct (e =? 0) eqn:E1; [|reflexivity]. apply N.eqb_eq in E1. subst e.
    destruct (m =? 0) eqn:E2; [apply N.eqb_eq in E2; lia|reflexivity].
Qed.
Lemma inf_test e m : m < two52 -> ((e =? 2047) && (m =? 0)) = (e * two52 + m =? INFP).
Proof.
  intros Hm. unfold INFP, two52 in *. destruct (e * 4503599627370496 + m =? 2047 * 4503599627370496) eqn:E.
  - apply N.eqb_eq in E. assert (e = 2047 /\ m = 0) as [-> ->] by lia. reflexivity.
  - apply N.eqb_neq in E. destruct (e =? 2047) eqn:E1; [|reflexivity]. apply N.eqb_eq in E1. subst e.
    destruct (m =? 0) eqn:E2; [apply N.eqb_eq in E2; lia|reflexivity].
Qed.

(* the comparison, with everything about the two patterns abstracted to: a pattern-magnitude P (resp. Q), its exact
   magnitude X (resp. Y), and the facts that tie them *)
Lemma order_core (sa sb : bool) (P Q : N) (X Y : Z) :
  P <= INFP -> Q <= INFP -> (0 <= X)%Z -> (0 <= Y)%Z ->
  (P < Q -> (X < Y)%Z) -> (P = Q -> X = Y) -> (Q < P -> (Y < X)%Z) -> (X = 0%Z <-> P = 0) -> (Y = 0%Z <-> Q = 0) ->
  ext_cmp (if P =? INFP then (if sa then ENegInf else EPosInf) else EFin (if sa then (- X)%Z else X))
          (if Q =? INFP then (if sb then ENegInf else EPosInf) else EFin (if sb then (- Y)%Z else Y))
  = N.compare (if sa then (if P =? 0 then two63N else two64 - 1 - ((if sa then two63N else 0) + P)) else (if sa then two63N else 0) + P + two63N)
              (if sb then (if Q =? 0 then two63N else two64 - 1 - ((if sb then two63N else 0) + Q)) else (if sb then two63N else 0) + Q + two63N).
Proof.
  intros HP HQ HX HY L E G ZX ZY. unfold INFP, two52, two63N, two64 in *.
  destruct (P =? 2047 * 4503599627370496) eqn:IP; [apply N.eqb_eq in IP|apply N.eqb_neq in IP];
  destruct (Q =? 2047 * 4503599627370496) eqn:IQ; [apply N.eqb_eq in IQ|apply N.eqb_neq in IQ|apply N.eqb_eq in IQ|apply N.eqb_neq in IQ];
  destruct sa, sb; cbn [ext_cmp ext_rank];
  repeat match goal with |- context [?p =? 0] => let Z0 := fresh "Z0" in destruct (p =? 0) eqn:Z0; [apply N.eqb_eq in Z0|apply N.eqb_neq in Z0] end;
  try lia;
  apply cmp_transfer; intros; lia.
Qed.

Theorem float_order_is_image_order a b : a < two64 -> b < two64 -> f_is_nan a = false -> f_is_nan b = false ->
  num_cmp (NFloat a) (NFloat b) = N.compare (f64_key a) (f64_key b).
Proof.
  intros Ha Hb Na Nb. unfold num_cmp. cbn [scaled]. unfold f_ext. rewrite Na, Nb.
  rewrite (key_of_parts a Ha), (key_of_parts b Hb).
  destruct (pattern_split a Ha) as (Ea & Hea & Hma). destruct (pattern_split b Hb) as (Eb & Heb & Hmb).
  rewrite !f_scaled_mag. unfold f_is_nan, f_is_inf in *.
  assert (Ia : f_exp a = 2047 -> f_man a = 0).
  { intros E. rewrite E in Na. change (2047 =? 2047) with true in Na. cbn [andb] in Na. destruct (f_man a =? 0) eqn:M; [apply N.eqb_eq in M; exact M|discriminate Na]. }
  assert (Ib : f_exp b = 2047 -> f_man b = 0).
  { intros E. rewrite E in Nb. change (2047 =? 2047) with true in Nb. cbn [andb] in Nb. destruct (f_man b =? 0) eqn:M; [apply N.eqb_eq in M; exact M|discriminate Nb]. }
  rewrite (zero_test _ _ Hma), (zero_test _ _ Hmb), (inf_test _ _ Hma), (inf_test _ _ Hmb).
  rewrite (order_core (f_sign a) (f_sign b) (f_exp a * two52 + f_man a) (f_exp b * two52 + f_man b) (mag (f_exp a) (f_man a)) (mag (f_exp b) (f_man b))).
  - f_equal.
    + destruct (f_sign a); [destruct (f_exp a * two52 + f_man a =? 0)|]; lia.
    + destruct (f_sign b); [destruct (f_exp b * two52 + f_man b =? 0)|]; lia.
  - unfold INFP, two52 in *. assert (f_exp a = 2047 \/ f_exp a < 2047) as [E|E] by lia; [rewrite E, (Ia E); lia|lia].
  - unfold INFP, two52 in *. assert (f_exp b = 2047 \/ f_exp b < 2047) as [E|E] by lia; [rewrite E, (Ib E); lia|lia].
  - apply mag_nonneg.
  - apply mag_nonneg.
  - apply mag_lt; assumption.
  - intros E0. assert (f_exp a = f_exp b /\ f_man a = f_man b) as [-> ->] by (unfold two52 in *; nia). reflexivity.
  - apply mag_lt; assumption.
  - split; [intros E0; destruct (mag_zero _ _ Hma E0) as [-> ->]; reflexivity|].
    intros E0. assert (f_exp a = 0 /\ f_man a = 0) as [-> ->] by (unfold two52 in *; lia). reflexivity.
  - split; [intros E0; destruct (mag_zero _ _ Hmb E0) as [-> ->]; reflexivity|].
    intros E0. assert (f_exp b = 0 /\ f_man b = 0) as [-> ->] by (unfold two52 in *; lia). reflexivity.
Qed.

(* ---------------------------------------------------------------- big-endian bytes compare as the numbers do *)
Lemma lex_app_same_len {A} (c : A -> A -> comparison) : forall a b x y, length a = length b ->
  lex c (a ++ x) (b ++ y) = match lex c a b with Eq => lex c x y | o => o end.
Proof.
  induction a as [|p a IH]; intros [|q b] x y L; cbn [length] in L; try discriminate L; [reflexivity|].
  cbn [app lex]. destruct (c p q); try reflexivity. apply IH. lia.
Qed.

Lemma be_bytes_cmp k : forall x y, x < 256 ^ N.of_nat k -> y < 256 ^ N.of_nat k ->
  bytes_cmp (be_bytes k x) (be_bytes k y) = N.compare x y.
Proof.
  unfold bytes_cmp. induction k as [|k IH]; intros x y Hx Hy.
  - change (256 ^ N.of_nat 0) with 1 in *. assert (x = 0) by lia. assert (y = 0) by lia. subst. reflexivity.
  - cbn [be_bytes]. rewrite lex_app_same_len by (rewrite !be_bytes_length; reflexivity).
    rewrite Nat2N.inj_succ, N.pow_succ_r' in Hx, Hy.
    assert (Dx := N.div_mod x 256 ltac:(lia)). assert (Mx := N.mod_lt x 256 ltac:(lia)).
    assert (Dy := N.div_mod y 256 ltac:(lia)). assert (My := N.mod_lt y 256 ltac:(lia)).
    rewrite IH by (apply N.div_lt_upper_bound; lia).
    cbn [lex].
    generalize dependent (x / 256). generalize dependent (y / 256). generalize dependent (x mod 256). generalize dependent (y mod 256).
    intros ry My rx Mx qy Dy qx Dx.
    destruct (N.compare_spec qx qy) as [E|L|G].
    + destruct (N.compare_spec rx ry) as [E2|L2|G2]; symmetry.
      * apply N.compare_eq_iff. lia.
      * apply N.compare_lt_iff. lia.
      * apply N.compare_gt_iff. lia.
    + symmetry. apply N.compare_lt_iff. lia.
    + symmetry. apply N.compare_gt_iff. lia.
Qed.

(* ---------------------------------------------------------------- NaN: one canonical pattern, the greatest image *)
Definition float_ok (b : N) : Prop := b < two64 /\ (f_is_nan b = true -> b = F_NAN).

Lemma key_bound b : b < two64 -> f_is_nan b = false -> f64_key b <= F_INF + two63N.
Proof.
  intros Hb Nb. rewrite (key_of_parts b Hb). destruct (pattern_split b Hb) as (E & He & Hm).
  unfold f_is_nan in Nb.
  assert (I : f_exp b = 2047 -> f_man b = 0).
  { intros E0. rewrite E0 in Nb. change (2047 =? 2047) with true in Nb. cbn [andb] in Nb. destruct (f_man b =? 0) eqn:M; [apply N.eqb_eq in M; exact M|discriminate Nb]. }
  unfold F_INF, two63N, two64, two52 in *.
  assert (f_exp b = 2047 \/ f_exp b < 2047) as [E0|E0] by lia.
  - specialize (I E0). destruct (f_sign b); [destruct ((f_exp b =? 0) && (f_man b =? 0))|]; lia.
  - destruct (f_sign b); [destruct ((f_exp b =? 0) && (f_man b =? 0))|]; lia.
Qed.

Theorem float_order_is_key_order a b : float_ok a -> float_ok b ->
  num_cmp (NFloat a) (NFloat b) = N.compare (f64_key a) (f64_key b).
Proof.
  intros [Ha Ca] [Hb Cb].
  destruct (f_is_nan a) eqn:Na, (f_is_nan b) eqn:Nb.
  - rewrite (Ca eq_refl), (Cb eq_refl). vm_compute. reflexivity.
  - rewrite (Ca eq_refl). unfold num_cmp. cbn [scaled]. unfold f_ext at 2. rewrite Nb.
    pose proof (key_bound b Hb Nb) as K.
    replace (N.compare (f64_key F_NAN) (f64_key b)) with Gt
      by (symmetry; apply N.compare_gt_iff; change (f64_key F_NAN) with 18444492273895866368; unfold F_INF, two63N in K; lia).
    destruct (f_is_inf b); [destruct (f_sign b)|]; reflexivity.
  - rewrite (Cb eq_refl). unfold num_cmp. cbn [scaled]. unfold f_ext at 1. rewrite Na.
    pose proof (key_bound a Ha Na) as K.
    replace (N.compare (f64_key a) (f64_key F_NAN)) with Lt
      by (symmetry; apply N.compare_lt_iff; change (f64_key F_NAN) with 18444492273895866368; unfold F_INF, two63N in K; lia).
    destruct (f_is_inf a); [destruct (f_sign a)|]; reflexivity.
  - apply float_order_is_image_order; assumption.
Qed.

(* ---------------------------------------------------------------- keys of scalars *)
(* a number whose double view is exact and well-formed: every finite double, both infinities, the canonical NaN,
   and every integer that a double represents exactly *)
Definition num_key_exact (n : num) : Prop := float_ok (as_f64 n) /\ num_cmp n (NFloat (as_f64 n)) = Eq.
Definition key_exact (v : value) : Prop := match v with VNum n => num_key_exact n | _ => True end.

Lemma f64_key_bound b : b < two64 -> f64_key b < 256 ^ N.of_nat 8.
Proof.
  intros Hb. unfold f64_key, f64_image. change (256 ^ N.of_nat 8) with 18446744073709551616. unfold two64 in Hb.
  destruct (b =? 9223372036854775808) eqn:E0; [vm_compute; reflexivity|].
  unfold f_sign. destruct (9223372036854775808 <=? b) eqn:E; [apply N.leb_le in E|apply N.leb_gt in E]; lia.
Qed.

Theorem scalar_key_order a b : is_scalar a = true -> is_scalar b = true -> key_exact a -> key_exact b ->
  exists ka kb, comparable_key a = Ok ka /\ comparable_key b = Ok kb /\ bytes_cmp ka kb = cmp_value a b.
Proof.
  intros Sa Sb Xa Xb.
  assert (K : forall v, is_scalar v = true -> comparable_key v = Ok (0 :: level_of_tag (tag_of v) ::
              match v with VStr s => s | VNum n => be_bytes 8 (f64_key (as_f64 n)) | _ => [] end)).
  { intros v Sv. destruct v as [|[]|s|n|l|o]; try discriminate Sv; reflexivity. }
  rewrite (K a Sa), (K b Sb). eexists. eexists. split; [reflexivity|]. split; [reflexivity|].
  unfold bytes_cmp. cbn [lex]. change (N.compare 0 0) with Eq. cbv iota.
  pose proof (kind_facts a b) as F. unfold lvl in F.
  destruct (level_of_tag (tag_of a) =? level_of_tag (tag_of b)) eqn:E.
  - apply N.eqb_eq in E. rewrite E, N.compare_refl.
    destruct a as [|[]|s|n|l|o], b as [|[]|t|m|l2|o2]; try discriminate Sa; try discriminate Sb; try discriminate F; try reflexivity.
    + (* numbers *)
      cbn [key_exact] in Xa, Xb. unfold num_key_exact in Xa, Xb. destruct Xa as [Fa Ea]. destruct Xb as [Fb Eb].
      change (lex N.compare (be_bytes 8 (f64_key (as_f64 n))) (be_bytes 8 (f64_key (as_f64 m))))
        with (bytes_cmp (be_bytes 8 (f64_key (as_f64 n))) (be_bytes 8 (f64_key (as_f64 m)))).
      rewrite be_bytes_cmp by (apply f64_key_bound; first [apply Fa|apply Fb]).
      rewrite <- (float_order_is_key_order _ _ Fa Fb).
      cbn [cmp_value]. rewrite (num_cmp_eq_l n (NFloat (as_f64 n)) (NFloat (as_f64 m)) Ea).
      assert (Eb' : num_cmp (NFloat (as_f64 m)) m = Eq) by (rewrite num_cmp_antisym, Eb; reflexivity).
      apply (num_cmp_eq_r n (NFloat (as_f64 m)) m Eb').
  - destruct F as [F1 F2]. rewrite (cmp_diff_ctor a b F2), <- F1.
    destruct (N.compare_spec (level_of_tag (tag_of a)) (level_of_tag (tag_of b))) as [E0|L|G]; try reflexivity.
    apply N.eqb_neq in E. contradiction.
Qed.

(* the hypotheses are satisfiable by an integer, a fraction, negative zero and the canonical NaN *)
Example key_exact_examples :
  num_key_exact (NInt (-3)) /\ num_key_exact (NUInt 9007199254740992) /\ num_key_exact (NFloat 13837309855095848960) /\
  num_key_exact (NFloat 9223372036854775808) /\ num_key_exact (NFloat F_NAN).
Proof. repeat split; try (vm_compute; reflexivity); intros H; vm_compute in H; try discriminate H; reflexivity. Qed.
